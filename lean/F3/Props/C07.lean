import F3.Proofs.SkelTieGpbft
import F3.Proofs.InstanceRun
import F3.Proofs.ParticipantRun
import F3.Proofs.InstanceGen
import F3.Proofs.MultiParticipantEx
import F3.Proofs.NoFailureRun
import F3.Proofs.NoFailureParticipant
import F3.Proofs.EmittedValidEx
import F3.Proofs.EmittedValidParticipantEx
/-!
# C07 — protocol discipline of an honest participant (Layer B, on the executable model of `gpbft.go`)

All statements are about `F3.Instance.step` / `run`, the same definitions the driver executes against the
real `gpbft.Participant` on every check run. Hypotheses: the messages delivered are validated ones
(`OpOk`: DECIDE votes are for round 0), and the run reported no internal error or panic
(`hasFailure … = false`; that this holds of the implementation is observed per op by the C07 oracle).
-/
namespace F3.Props.C07
open F3.Instance
-- `F3.Proofs.NoFailureRun` (section `NoFailure` at the end) brings the Layer-B files into scope; their simp lemma of
-- the same name as the local `addCandidatePrefixes_proposal` below would pre-empt the `rw` in `prepare0_value`
attribute [-simp] F3.Instance.addCandidatePrefixes_proposal

/-- the slot of a broadcast effect -/
def slotOf : Eff → Option (Nat × Phase)
  | .broadcast r ph _ _ _ => some (r, ph)
  | _ => none

/-- the progress point of a progress notification -/
def progOf : Eff → Option (Nat × Nat)
  | .progress r ph => some (r, ph.toNat)
  | _ => none

theorem evs_bc (es : List Eff) :
    (evs es).filter Ev.isBc = (es.filterMap slotOf).map (fun p => Ev.bc p.1 p.2) := by
  induction es with
  | nil => rfl
  | cons e es ih => cases e <;> simp [Ev.isBc, slotOf, ih, List.filterMap_cons, List.filter_cons]

theorem evs_prog (es : List Eff) :
    ((evs es).filter Ev.isProg).map Ev.pt = es.filterMap progOf := by
  induction es with
  | nil => rfl
  | cons e es ih => cases e <;> simp [Ev.isProg, Ev.pt, progOf, ih, List.filterMap_cons, List.filter_cons]

/-- **At most one message per instance, round and step.** For every configuration, power table, input
chain and every sequence of starts, alarms (at any times) and validated messages (any senders, any
contents, any order, duplicates included): the participant never requests two broadcasts for the same
(round, phase). -/
theorem emit_once (cfg : Cfg) (tbl : Table) (input : Chain) (ops : List Op)
    (hops : ∀ op ∈ ops, OpOk op) (hnf : hasFailure (run (init cfg tbl input) ops).2 = false) :
    ((run (init cfg tbl input) ops).2.filterMap slotOf).Nodup := by
  have h := (runFrom_wp (init cfg tbl input) ops (DQ_init cfg tbl input) hops hnf).1
  have hn := h.bc_nodup
  rw [evs_bc] at hn
  exact (List.pairwise_map.1 hn).imp (fun h heq => h (by rw [heq]))

/-- **Progress never moves backwards.** The (round, phase) points notified by the participant are strictly
increasing (round first, then phase), the first one is above `(0, INITIAL)`, and once DECIDE is reached
the round no longer changes (so TERMINATED is final). -/
theorem progress_monotone (cfg : Cfg) (tbl : Table) (input : Chain) (ops : List Op)
    (hops : ∀ op ∈ ops, OpOk op) (hnf : hasFailure (run (init cfg tbl input) ops).2 = false) :
    ((run (init cfg tbl input) ops).2.filterMap progOf).Pairwise ptLt ∧
    ptLe (0, 0) (run (init cfg tbl input) ops).1.pt := by
  have h := (runFrom_wp (init cfg tbl input) ops (DQ_init cfg tbl input) hops hnf).1
  have hs := h.prog_sorted
  rw [evs_prog] at hs
  exact ⟨hs.1, h.le⟩

/-- The state's own (round, phase) only moves forward along any such run, from any reachable state. -/
theorem state_progress_monotone (s : State) (ops : List Op) (hq : DQ s)
    (hops : ∀ op ∈ ops, OpOk op) (hnf : hasFailure (runFrom s ops).2 = false) :
    ptLe s.pt (runFrom s ops).1.pt :=
  (runFrom_wp s ops hq hops hnf).1.le

/-- Every broadcast is for the progress point entered by the same call (DECIDE being labelled round 0):
in the (progress, broadcast) skeleton each broadcast immediately follows the notification of its point. -/
theorem broadcast_follows_progress (cfg : Cfg) (tbl : Table) (input : Chain) (ops : List Op)
    (hops : ∀ op ∈ ops, OpOk op) (hnf : hasFailure (run (init cfg tbl input) ops).2 = false) :
    WP (0, 0) (evs (run (init cfg tbl input) ops).2) (run (init cfg tbl input) ops).1.pt :=
  (runFrom_wp (init cfg tbl input) ops (DQ_init cfg tbl input) hops hnf).1

/-- TERMINATED is absorbing: an alarm is a no-op and a message is refused. -/
theorem terminated_absorbing (s : State) (h : s.phase = .terminated) (now : Int) (m : Msg) :
    step s (.alarm now) = (s, []) ∧ (step s (.recv now m)).1 = s := by
  constructor
  · simp [step, State.tryCurrentPhase, h]
  · simp [step, h]

/-! ### What it votes for is determined by what it has received -/

/-- **Round-0 PREPARE value.** When QUALITY ends (quorum for the whole input, or timeout) the PREPARE
broadcast carries exactly `longestPrefixWithQuorum` of the input over the QUALITY votes delivered so far. -/
theorem addCandidate_proposal (s : State) (c : Chain) : (s.addCandidate c).1.proposal = s.proposal := by
  unfold State.addCandidate; split <;> rfl

theorem addCandidatePrefixes_proposal (s : State) (c : Chain) : (s.addCandidatePrefixes c).1.proposal = s.proposal := by
  unfold State.addCandidatePrefixes
  generalize ((List.range (c.length - 1)).reverse.map (· + 1)) = l
  suffices h : ∀ (acc : State × Bool), acc.1.proposal = s.proposal →
      (l.foldl (fun (acc : State × Bool) l =>
        let r := acc.1.addCandidate (prefixTo c l); (r.1, acc.2 || r.2)) acc).1.proposal = s.proposal from h (s, false) rfl
  induction l with
  | nil => intro acc h; simpa using h
  | cons x xs ih =>
    intro acc h
    simp only [List.foldl_cons]
    apply ih
    rw [addCandidate_proposal]; exact h

theorem prepare0_value (s : State) (now : Int) (r : Nat) (v : Chain) (t : Bool) (j : Option Just)
    (h : Eff.broadcast r .prepare v t j ∈ (s.tryQuality now).2) :
    s.phase = .quality ∧ r = s.round ∧ v = s.quality.longestPrefixWithQuorum s.input ∧ j = none := by
  unfold State.tryQuality at h
  dsimp only at h
  split at h
  · simp at h
  · rename_i hph
    split at h
    · unfold State.beginPrepare State.alarmAfter State.resetReb at h
      simp at h
      obtain ⟨hr, hv, _, hj⟩ := h
      rw [addCandidatePrefixes_proposal] at hv
      exact ⟨by simpa using hph, hr, hv, hj⟩
    · simp at h

/-- `longestPrefixWithQuorum` returns the preferred chain itself, or a prefix of it with a strong quorum, or
its base; and nothing longer has a quorum. -/
theorem longest_prefix_spec (q : Tally) (c : Chain) :
    (q.longestPrefixWithQuorum c = c ∨ q.longestPrefixWithQuorum c = baseChain c ∨
      ∃ i, i < c.length ∧ q.longestPrefixWithQuorum c = prefixTo c i) ∧
    (q.longestPrefixWithQuorum c = baseChain c ∨ q.hasStrongFor (q.longestPrefixWithQuorum c) = true) ∧
    (q.hasStrongFor c = true → q.longestPrefixWithQuorum c = c) := by
  unfold Tally.longestPrefixWithQuorum
  by_cases hc : q.hasStrongFor c = true
  · simp [hc]
  · simp only [hc, Bool.false_eq_true, if_false]
    refine ⟨?_, ?_, fun h => absurd h (by simp)⟩
    · cases hf : ((List.range c.length).reverse.map (prefixTo c)).find? q.hasStrongFor with
      | none => right; left; rfl
      | some x =>
        right; right
        have hm := List.mem_of_find?_eq_some hf
        simp only [List.mem_map, List.mem_reverse, List.mem_range] at hm
        obtain ⟨i, hi, rfl⟩ := hm
        exact ⟨i, hi, rfl⟩
    · cases hf : ((List.range c.length).reverse.map (prefixTo c)).find? q.hasStrongFor with
      | none => left; rfl
      | some x => right; exact List.find?_some hf

/-- **No COMMIT for bottom while holding a strong PREPARE quorum, nor before the timeout unless the quorum has
become impossible.** If the end of PREPARE broadcasts COMMIT for bottom then the participant holds no
strong quorum (nor forwarded evidence of one) for its proposal, and either that quorum can no longer be
reached given the votes cast, or the PREPARE timeout has expired with a strong quorum of senders heard. -/
theorem commit_bottom_value (s : State) (now : Int) (r : Nat) (t : Bool) (j : Option Just)
    (h : Eff.broadcast r .commit [] t j ∈ (s.beginCommit now).2) : s.value = [] := by
  unfold State.beginCommit State.alarmAfter State.resetReb at h
  dsimp only at h
  split at h
  · rename_i he; simpa using he
  · split at h
    · simp at h; exact h.2.1
    · simp at h

theorem commit_bottom_rule (s : State) (now : Int) (r : Nat) (t : Bool) (j : Option Just)
    (h : Eff.broadcast r .commit [] t j ∈ (s.tryPrepare now).2) (hp : s.proposal ≠ []) :
    s.prepFoundQuorum = false ∧ s.prepFoundJust = false ∧
      (s.prepNotPossible = true ∨ s.prepComplete now = true) := by
  unfold State.tryPrepare at h
  dsimp only at h
  split at h
  · simp at h
  · split at h
    · have hv := commit_bottom_value _ now r t j h
      unfold State.prepareValue at hv
      split at hv
      · exact absurd hv hp
      · rename_i h1
        simp only [Bool.or_eq_true, not_or, Bool.not_eq_true] at h1
        split at hv
        · rename_i h2
          exact ⟨h1.1, h1.2, by simpa using h2⟩
        · rename_i hdone h2
          simp only [Bool.or_eq_true, not_or, Bool.not_eq_true] at h2
          simp [h1.1, h1.2, h2.1, h2.2] at hdone
    · split at h
      · have := tryRebroadcast_evs (s.prepareValue now) now
        have hm : Ev.bc r .commit ∈ evs ((s.prepareValue now).tryRebroadcast now).2 := by
          simp only [evs, List.mem_filterMap]
          exact ⟨_, h, rfl⟩
        rw [this] at hm; simp at hm
      · simp at h

/-- **CONVERGE adoption.** At the CONVERGE timeout the participant prepares the first lowest-rank value
among those acceptable to it (`findBest` over candidates and PREPARE-justified values that could have been
decided): so the best-ticket value is adopted whenever it is a candidate. -/
theorem converge_adopts_best_valid (s : State) (now : Int) (r : Nat) (v : Chain) (t : Bool) (j : Option Just)
    (h : Eff.broadcast r .prepare v t j ∈ (s.tryConverge now).2) :
    s.phase = .converge ∧ s.phaseTimeoutElapsed now = true ∧
    ∃ w, (s.getRound s.round).converged.findBest (fun cv =>
        s.isCandidate cv.chain || (cv.just.phase == .prepare &&
          (s.getRound (s.round - 1)).committed.couldReach s.tbl cv.chain true)) = some w ∧
      v = w.chain ∧ j = some w.just := by
  unfold State.tryConverge at h
  dsimp only at h
  split at h
  · simp at h
  · rename_i hph
    split at h
    · split at h
      · have := tryRebroadcast_evs s now
        have hm : Ev.bc r .prepare ∈ evs (s.tryRebroadcast now).2 := by
          simp only [evs, List.mem_filterMap]; exact ⟨_, h, rfl⟩
        rw [this] at hm; simp at hm
      · simp at h
    · rename_i hto
      split at h
      · simp at h
      · rename_i w hw
        split at h
        · simp at h
        · unfold State.beginPrepare State.alarmAfter State.resetReb at h
          simp at h
          obtain ⟨_, rfl, _, rfl⟩ := h
          exact ⟨by simpa using hph, by simpa using hto, w, hw, rfl, rfl⟩

/-! ### Non-vacuity: a concrete run with equivocation satisfying every hypothesis -/

def exCfg : Cfg := { maxLookahead := 2, rebImmediateAfter := 3, timeout2 := [100], qualityTimeout2 := 100, rebAfter := [50] }
def exTbl : Table := { entries := [(1, 30000), (2, 20000), (3, 15534)] }
def exOps : List Op :=
  [.start 0,
   .recv 1 { sender := 1, round := 0, phase := .quality, value := [7, 8] },
   .recv 2 { sender := 2, round := 0, phase := .quality, value := [7, 8] },
   .recv 3 { sender := 1, round := 0, phase := .prepare, value := [7, 8] },
   .recv 4 { sender := 2, round := 0, phase := .prepare, value := [7, 8] },
   .recv 5 { sender := 3, round := 0, phase := .prepare, value := [7, 9] },
   .recv 6 { sender := 3, round := 0, phase := .prepare, value := [7, 8] },  -- equivocation: ignored
   .alarm 500]

example : (∀ op ∈ exOps, OpOk op) ∧ hasFailure (run (init exCfg exTbl [7, 8]) exOps).2 = false ∧
    (run (init exCfg exTbl [7, 8]) exOps).2.filterMap slotOf =
      [(0, .quality), (0, .prepare), (0, .commit)] := by
  refine ⟨?_, by decide, by decide⟩
  intro op hop
  simp only [exOps, List.mem_cons, List.mem_nil_iff, or_false] at hop
  rcases hop with rfl | rfl | rfl | rfl | rfl | rfl | rfl | rfl <;> simp [OpOk, MsgOk]

/-! ## The same discipline at the participant API (`gpbft/participant.go`)

`pstepWith order` is `Participant.ReceiveMessage` / `ReceiveAlarm` for the current instance — what the
correspondence driver replays against the real `gpbft.Participant`: messages arriving before the instance has
begun are queued (`messageQueue.Add`), the first alarm begins the instance and drains the queue through
`instance.ReceiveMany` in the sender order `order` (Go: map iteration order — any order is possible, so the
theorems quantify over it). `prun order (pinit cfg tbl input) ops` runs a whole sequence of such calls. -/
section ParticipantAPI

/-- **At most one message per instance, round and step, at the participant API.** For every configuration, power
table, input chain, drain order and every sequence of `ReceiveMessage` / `ReceiveAlarm` calls over validated
messages (any senders, contents, order, duplicates; before or after the instance begins) that reports no internal
error or panic: the participant never requests two broadcasts for the same (round, phase) — the broadcasts made
while draining the pre-start queue through `ReceiveMany` included. -/
theorem emit_once_participant (cfg : Cfg) (tbl : Table) (input : Chain) (order : List Pid) (ops : List POp)
    (hops : ∀ op ∈ ops, POpOk op) (hnf : hasFailure (prun order (pinit cfg tbl input) ops).2 = false) :
    ((prun order (pinit cfg tbl input) ops).2.filterMap slotOf).Nodup := by
  have h := (prun_wp order (pinit cfg tbl input) ops (DQ_pinit cfg tbl input) (by simp [pinit]) hops hnf).1
  have hn := h.bc_nodup
  rw [evs_bc] at hn
  exact (List.pairwise_map.1 hn).imp (fun h heq => h (by rw [heq]))

/-- **Progress never moves backwards, at the participant API.** The (round, phase) points notified by the
participant over any such sequence of calls and any drain order are strictly increasing, and the final point is
above `(0, INITIAL)`. -/
theorem progress_monotone_participant (cfg : Cfg) (tbl : Table) (input : Chain) (order : List Pid) (ops : List POp)
    (hops : ∀ op ∈ ops, POpOk op) (hnf : hasFailure (prun order (pinit cfg tbl input) ops).2 = false) :
    ((prun order (pinit cfg tbl input) ops).2.filterMap progOf).Pairwise ptLt ∧
    ptLe (0, 0) (prun order (pinit cfg tbl input) ops).1.inst.pt := by
  have h := (prun_wp order (pinit cfg tbl input) ops (DQ_pinit cfg tbl input) (by simp [pinit]) hops hnf).1
  have hs := h.prog_sorted
  rw [evs_prog] at hs
  exact ⟨hs.1, h.le⟩

/-- Every broadcast made through the participant API is for the progress point entered by the same call: the
(progress, broadcast) skeleton of the whole run is well paired. -/
theorem broadcast_follows_progress_participant (cfg : Cfg) (tbl : Table) (input : Chain) (order : List Pid)
    (ops : List POp) (hops : ∀ op ∈ ops, POpOk op)
    (hnf : hasFailure (prun order (pinit cfg tbl input) ops).2 = false) :
    WP (0, 0) (evs (prun order (pinit cfg tbl input) ops).2) (prun order (pinit cfg tbl input) ops).1.inst.pt :=
  (prun_wp order (pinit cfg tbl input) ops (DQ_pinit cfg tbl input) (by simp [pinit]) hops hnf).1

/-- `ReceiveMany` on its own: a failure-free drain of any round-sorted list of validated messages is a sequence
of `receiveOne`s followed by at most one `postReceive`, never run on a terminated instance. -/
theorem receiveMany_is_micro_run (s : State) (now : Int) (ms : List Msg) (hq : DQ s)
    (hms : ∀ m ∈ ms, MsgOk m) (hsorted : RoundSorted ms)
    (hnf : hasFailure (s.receiveMany now ms).2 = false) :
    ∃ mops, mrun s mops = s.receiveMany now ms ∧ MOK MsgOk s mops :=
  receiveMany_micro MsgOk (fun _ h => h) now s ms hq (fun m hm => Or.inr (hms m hm)) hsorted hnf

/-- what the drain hands to `ReceiveMany`, for every sender order: queued messages only, in non-decreasing round
order; and the queue holds at most one message per (sender, round, phase). -/
theorem drain_facts (order : List Pid) (p : PState) (m : Msg) :
    (∀ x ∈ drainWith order p.queue, x ∈ p.queue) ∧ RoundSorted (drainWith order p.queue) ∧
    (p.queue.Pairwise (fun a b => ¬ sameSlot a b) → (p.queueAdd m).queue.Pairwise (fun a b => ¬ sameSlot a b)) :=
  ⟨fun x hx => drainWith_mem order p.queue x hx, drainWith_sorted order p.queue, queueAdd_slots p m⟩

/-! ### Non-vacuity: three messages queued before the instance begins — a PREPARE arriving before QUALITY, a
late-binding reject (wrong base) and a QUALITY vote — drained at the first alarm, then a run to COMMIT -/

def exPOps : List POp :=
  [.recv 1 { sender := 1, round := 0, phase := .prepare, value := [7, 8] },   -- PREPARE before QUALITY: queued
   .recv 2 { sender := 3, round := 0, phase := .prepare, value := [9, 9] },   -- wrong base: queued, dropped by the drain
   .recv 3 { sender := 1, round := 0, phase := .quality, value := [7, 8] },
   .alarm 4,                                                                 -- begins the instance, drains the queue
   .recv 5 { sender := 2, round := 0, phase := .quality, value := [7, 8] },
   .recv 6 { sender := 2, round := 0, phase := .prepare, value := [7, 8] },
   .recv 7 { sender := 3, round := 0, phase := .prepare, value := [7, 9] },
   .alarm 500]

example : (∀ op ∈ exPOps, POpOk op) ∧
    hasFailure (prun [3, 1] (pinit exCfg exTbl [7, 8]) exPOps).2 = false ∧
    (prun [3, 1] (pinit exCfg exTbl [7, 8]) (exPOps.take 3)).1.queue.length = 3 ∧
    ((prun [3, 1] (pinit exCfg exTbl [7, 8]) (exPOps.take 4)).1.inst.getRound 0).prepared.senders = [1] ∧
    (prun [3, 1] (pinit exCfg exTbl [7, 8]) exPOps).2.filterMap slotOf =
      [(0, .quality), (0, .prepare), (0, .commit)] := by
  refine ⟨?_, by decide, by decide, by decide, by decide⟩
  intro op hop
  simp only [exPOps, List.mem_cons, List.mem_nil_iff, or_false] at hop
  rcases hop with rfl | rfl | rfl | rfl | rfl | rfl | rfl | rfl <;> simp [POpOk, POpP, MsgOk]

/-! ### The round order of the drain is needed

`receiveMany_is_micro_run` (hence everything above) uses that `drainWith` hands over the queue in non-decreasing
round order: DECIDE votes (round 0) come before every message of a later round. On the same messages in another
order, `ReceiveMany` terminates the instance on the DECIDE quorum and then runs `postReceive` for round 1 — which
holds a CONVERGE value and a weak PREPARE quorum — on the terminated instance, leaving TERMINATED for CONVERGE of
round 1 with the decision still recorded. (Only `Participant.beginInstance` calls `ReceiveMany`, on `Drain()`'s
output, so the implementation is not affected; the example shows the hypothesis `RoundSorted` is not idle.) -/

def exUnsorted : List Msg :=
  [{ sender := 1, round := 1, phase := .converge, value := [7, 8], rank := 5,
     just := some { round := 0, phase := .commit, value := [], signers := [0, 1] } },
   { sender := 1, round := 1, phase := .prepare, value := [7, 8],
     just := some { round := 0, phase := .commit, value := [], signers := [0, 1] } },
   { sender := 1, round := 0, phase := .decide, value := [7, 8],
     just := some { round := 0, phase := .commit, value := [7, 8], signers := [0, 1] } },
   { sender := 2, round := 0, phase := .decide, value := [7, 8],
     just := some { round := 0, phase := .commit, value := [7, 8], signers := [0, 1] } }]

example :
    let s := ((init exCfg exTbl [7, 8]).beginQuality 0).1
    (∀ m ∈ exUnsorted, MsgOk m) ∧ ¬ RoundSorted exUnsorted ∧
    hasFailure (s.receiveMany 1 exUnsorted).2 = false ∧
    (s.receiveMany 1 exUnsorted).1.phase = .converge ∧ (s.receiveMany 1 exUnsorted).1.round = 1 ∧
    (s.receiveMany 1 exUnsorted).1.termination.isSome = true ∧
    -- … while the sorted list meets every hypothesis of `receiveMany_is_micro_run` and stays terminated
    DQ s ∧ (∀ m ∈ sortStable exUnsorted, MsgOk m) ∧ RoundSorted (sortStable exUnsorted) ∧
    hasFailure (s.receiveMany 1 (sortStable exUnsorted)).2 = false ∧
    (s.receiveMany 1 (sortStable exUnsorted)).1.phase = .terminated := by
  have hall : ∀ m ∈ exUnsorted, MsgOk m := ?_
  refine ⟨hall, ?_, by decide, by decide, by decide, by decide,
    ⟨fun _ => rfl, fun h => absurd h (by decide)⟩, fun m hm => hall m ((sortStable_mem _ m).1 hm),
    sortStable_sorted _, by decide, by decide⟩
  rotate_left
  · intro m hm
    simp only [exUnsorted, List.mem_cons, List.mem_nil_iff, or_false] at hm
    rcases hm with rfl | rfl | rfl | rfl <;> simp [MsgOk]
  · intro h
    have := (List.pairwise_cons.1 h).1 _ (List.mem_cons_of_mem _ (List.mem_cons_of_mem _ List.mem_cons_self))
    simp at this

end ParticipantAPI

section Regenerated
/-! ## Regenerated: the pre-checks of `receiveOne` and of `messageQueue.Add` as they stand in the source

`F3.Gen.Instance.{isSpammable, receiveOnePre, queueAddDropsSpam, queueAddIsDuplicate}` are translated from
`gpbft/gpbft.go` / `gpbft/participant.go` on every run (`tools/go2lean/targets.d/Instance.json`):
`receiveOnePre` is the statement range of `receiveOne` from the instance check down to (excluding)
`msgRound := i.getRound(…)`, with the codes 0 = `return false, nil` (dropped), 1 = falls through to the
tallies, 2/3/4 = the three sentinel errors; the phase constants are read from `gpbft/types.go`; the
three method calls on the supplemental data / the value are parameters. -/
open F3.Proofs.InstanceGen

/-- the return codes of `receiveOnePre` in `targets.d/Instance.json` -/
def decodePre (c : Int) : Pre :=
  if c = 0 then .drop else if c = 1 then .accept else if c = 2 then .reject .wrongInstance
  else if c = 3 then .reject .wrongSupp else .reject .wrongBase

/-- `isSpammable` of the model is `isSpammable` of `gpbft.go`. -/
theorem is_spammable_is_regenerated (m : Msg) :
    isSpammable m = F3.Gen.Instance.isSpammable m.just.isSome (m.round : Int) := by
  unfold isSpammable F3.Gen.Instance.isSpammable
  rw [isNone_eq_not_isSome]
  congr 1
  rw [decide_eq_decide]; omega

/-- **The model's pre-checks are the source's.** For every state and message — `id`/`mid` are any two
instance numbers whose equality is the model's `instOk` flag — the verdict of `State.recvPre` (reject with
which sentinel / silently drop / hand to the tallies) is the one the regenerated statement range of
`receiveOne` computes, as long as `current.Round + maxLookaheadRounds` does not wrap (the model adds in
`Nat`; the generated code wraps). The order of the checks, the prior-round rule for CONVERGE/PREPARE, the
look-ahead spam rule and the TERMINATED no-op are all covered. -/
theorem recv_pre_is_regenerated (s : State) (m : Msg) (id mid : Int) (hid : decide (mid = id) = m.instOk)
    (hw : s.round + s.cfg.maxLookahead < 2 ^ 64) :
    s.recvPre m = decodePre (F3.Gen.Instance.receiveOnePre id s.phase.toNat s.round s.cfg.maxLookahead
      m.just.isSome mid m.phase.toNat m.round m.suppOk (hasBase m.value s.input.head?) m.value.isEmpty) := by
  unfold State.recvPre F3.Gen.Instance.receiveOnePre F3.Gen.Instance.isSpammable isSpammable
  have a0 : decide (mid ≠ id) = !m.instOk := by rw [← hid]; simp
  have a1 : decide (((s.phase.toNat : Nat) : Int) = 6) = (s.phase == .terminated) := by
    rw [phase_beq_code]; rfl
  have a2 : decide (((m.phase.toNat : Nat) : Int) = 2) = (m.phase == .converge) := by
    rw [phase_beq_code]; rfl
  have a3 : decide (((m.phase.toNat : Nat) : Int) = 3) = (m.phase == .prepare) := by
    rw [phase_beq_code]; rfl
  have a4 : decide ((m.round : Int) < (s.round : Int)) = decide (m.round < s.round) := by
    rw [decide_eq_decide]; omega
  have a5 : decide ((m.round : Int) > F3.GoInt.u64 ((s.round : Int) + (s.cfg.maxLookahead : Int))) =
      decide (m.round > s.round + s.cfg.maxLookahead) := by
    rw [decide_eq_decide, F3.Proofs.GenTie.u64_of_lt _ (by omega) (by omega)]; omega
  have a6 : decide ((m.round : Int) > 0) = decide (m.round > 0) := by
    rw [decide_eq_decide]; omega
  simp only [a0, a1, a2, a3, a4, a5, a6, isNone_eq_not_isSome]
  generalize m.instOk = b1
  generalize m.suppOk = b2
  generalize m.value.isEmpty = b3
  generalize hasBase m.value s.input.head? = b4
  generalize (s.phase == Phase.terminated) = b5
  generalize decide (m.round < s.round) = b6
  generalize (m.phase == Phase.converge) = b7
  generalize (m.phase == Phase.prepare) = b8
  generalize decide (m.round > s.round + s.cfg.maxLookahead) = b9
  generalize m.just.isSome = b10
  generalize decide (m.round > 0) = b11
  cases b1 <;> (try rfl) <;> cases b2 <;> (try rfl) <;> cases b3 <;> (try rfl) <;> cases b4 <;> (try rfl) <;>
    cases b5 <;> (try rfl) <;> cases b6 <;> (try rfl) <;> cases b7 <;> (try rfl) <;> cases b8 <;> (try rfl) <;>
    cases b9 <;> (try rfl) <;> cases b10 <;> (try rfl) <;> cases b11 <;> rfl

/-- **`messageQueue.Add` of the model is the source's.** The two conditions under which a message queued
for a future instance is discarded — unjustified beyond `maxRound`, and same sender / round / phase as a
queued one — are the regenerated ones, for all rounds (no arithmetic is involved, so no range
hypothesis). -/
theorem queue_add_is_regenerated (p : PState) (m : Msg) :
    p.queueAdd m =
      if F3.Gen.Instance.queueAddDropsSpam m.just.isSome m.round p.inst.cfg.maxLookahead then p
      else if p.queue.any (fun q => q.sender == m.sender &&
          F3.Gen.Instance.queueAddIsDuplicate q.phase.toNat q.round m.phase.toNat m.round) then p
      else { p with queue := p.queue ++ [m] } := by
  unfold PState.queueAdd F3.Gen.Instance.queueAddDropsSpam F3.Gen.Instance.queueAddIsDuplicate
  have a1 : decide ((m.round : Int) > (p.inst.cfg.maxLookahead : Int)) =
      decide (m.round > p.inst.cfg.maxLookahead) := by
    rw [decide_eq_decide]; omega
  have a2 : ∀ q : Msg, (q.sender == m.sender &&
        (decide ((q.round : Int) = (m.round : Int)) && decide ((q.phase.toNat : Int) = (m.phase.toNat : Int)))) =
      (q.sender == m.sender && q.round == m.round && q.phase == m.phase) := by
    intro q
    have e1 : decide ((q.round : Int) = (m.round : Int)) = (q.round == m.round) := by
      rw [Bool.beq_eq_decide_eq, decide_eq_decide]; omega
    rw [e1, ← phase_beq_code, Bool.and_assoc]
  simp only [a1, a2, ← is_spammable_is_regenerated]

/-- `q.maxRound` is the participant's `maxLookaheadRounds`: the one constructor call, from the source -/
theorem queue_max_round_call_site :
    F3.Gen.Instance.callSites = [("gpbft/participant.go", "newMessageQueue", ["opts.maxLookaheadRounds"])] := by
  decide

-- non-vacuity: every verdict of the pre-checks is reached, by the model and by the generated code
example :
    let s := ((init exCfg exTbl [7, 8]).beginQuality 0).1
    s.recvPre { sender := 1, round := 0, phase := .quality, value := [7, 8] } = .accept ∧
    s.recvPre { sender := 1, round := 0, phase := .quality, value := [7, 8], instOk := false } = .reject .wrongInstance ∧
    s.recvPre { sender := 1, round := 0, phase := .quality, value := [9], suppOk := true } = .reject .wrongBase ∧
    s.recvPre { sender := 1, round := 9, phase := .prepare, value := [7, 8] } =
      (if 9 > exCfg.maxLookahead then .drop else .accept) := by decide
example : F3.Gen.Instance.receiveOnePre 4 1 3 5 false 4 3 2 true true false = 0 ∧   -- PREPARE of a prior round
    F3.Gen.Instance.receiveOnePre 4 1 3 5 false 4 4 2 true true false = 1 ∧          -- COMMIT of a prior round
    F3.Gen.Instance.receiveOnePre 4 1 3 5 false 4 4 9 true true false = 0 ∧          -- spam beyond look-ahead
    F3.Gen.Instance.receiveOnePre 4 1 3 5 true 4 4 9 true true false = 1 ∧           -- justified: kept
    F3.Gen.Instance.receiveOnePre 4 6 3 5 true 4 4 3 true true false = 0 ∧           -- TERMINATED
    F3.Gen.Instance.receiveOnePre 4 1 3 5 true 5 4 3 true true false = 2 ∧
    F3.Gen.Instance.receiveOnePre 4 1 3 5 true 4 4 3 false true false = 3 ∧
    F3.Gen.Instance.receiveOnePre 4 1 3 5 true 4 4 3 true false false = 4 := by decide
example : F3.Gen.Instance.queueAddDropsSpam false 7 5 = true ∧ F3.Gen.Instance.queueAddDropsSpam true 7 5 = false ∧
    F3.Gen.Instance.queueAddIsDuplicate 3 2 3 2 = true ∧ F3.Gen.Instance.queueAddIsDuplicate 3 2 4 2 = false := by decide

end Regenerated
/-! ## The discipline across consecutive instances (`gpbft/participant.go`: `ReceiveMessage`, `ReceiveAlarm`,
`beginInstance`, `handleDecision`, `beginNextInstance`, `StartInstanceAt`, `messageQueue`)

`mpstep` (`F3.Model.MultiParticipant`) is one call of `gpbft.Participant` with its instance counter `cur`
(`progression`), the running instance `active` (`p.gpbft`), one message queue per future instance
(`mqueue.messages`) and the `decisions` handed to the host; `mprun` runs a sequence of calls, each effect tagged with
the instance that was current. The correspondence driver replays it against the real participant in the
multi-instance network runs. `minit cfg c0` is the fresh participant at instance `c0`. -/
section ConsecutiveInstances

/-- **Isolation, past.** A message of a finished instance changes nothing and has no effects. -/
theorem finished_instance_message_dropped (s : MState) (now : Int) (m : IMsg) (h : m.inst < s.cur) :
    mpstep s (.recv now m) = (s, []) :=
  recv_finished s now m h

/-- **Isolation, future.** A message of a later instance, or of the current instance before it has begun, has no
effects and leaves `cur`, the running instance, the decisions, the configuration and every other instance's queue
untouched; the queue of its own instance receives it by `messageQueue.Add`. -/
theorem future_instance_message_queued (s : MState) (now : Int) (m : IMsg)
    (h : s.cur < m.inst ∨ (m.inst = s.cur ∧ s.active = none)) :
    (mpstep s (.recv now m)).2 = [] ∧
    (mpstep s (.recv now m)).1.cur = s.cur ∧ (mpstep s (.recv now m)).1.active = s.active ∧
    (mpstep s (.recv now m)).1.decisions = s.decisions ∧ (mpstep s (.recv now m)).1.cfg = s.cfg ∧
    (∀ j, j ≠ m.inst → queueOf (mpstep s (.recv now m)).1.queues j = queueOf s.queues j) ∧
    queueOf (mpstep s (.recv now m)).1.queues m.inst =
      queueAddL s.cfg.maxLookahead (queueOf s.queues m.inst) m.msg :=
  recv_queued s now m h

/-- **The queue rule is that of the single-instance participant** (`PState.queueAdd`), and spelled out: an
unjustified message beyond the look-ahead is not queued, a message whose (sender, round, phase) slot is taken is
not queued, any other message is appended. -/
theorem instance_queue_rule (look : Nat) (q : List Msg) (m : Msg) :
    (∀ p : PState, look = p.inst.cfg.maxLookahead → queueAddL look p.queue m = (p.queueAdd m).queue) ∧
    (look < m.round → isSpammable m = true → queueAddL look q m = q) ∧
    (∀ x ∈ q, sameSlot x m → queueAddL look q m = q) ∧
    (¬ (look < m.round ∧ isSpammable m = true) → (∀ x ∈ q, ¬ sameSlot x m) → queueAddL look q m = q ++ [m]) :=
  ⟨fun p h => queueAddL_eq_queueAdd look p m h, queueAddL_spam look q m, fun x hx hs => queueAddL_dup look q m x hx hs,
   queueAddL_fresh look q m⟩

/-- **Every queue of every reachable state** — whatever the calls, `StartInstanceAt` in any direction included —
**holds at most one message per (sender, round, phase) and no unjustified message beyond the look-ahead.** -/
theorem instance_queues_wellformed (cfg : Cfg) (c0 : Nat) (ops : List MPOp) (k : Nat) :
    (queueOf (mprun (minit cfg c0) ops).1.queues k).Pairwise (fun a b => ¬ sameSlot a b) ∧
    ∀ x ∈ queueOf (mprun (minit cfg c0) ops).1.queues k, ¬ (cfg.maxLookahead < x.round ∧ isSpammable x = true) := by
  have h := mprun_queuesOk (minit cfg c0) ops (minit_queuesOk cfg c0) k
  rw [mprun_cfg] at h
  exact h

/-- **One call other than `StartInstanceAt`**: either `cur` and `decisions` are unchanged, or exactly one decision —
for the instance that was current — is appended, `cur` increases by exactly one and no instance is running. -/
theorem instance_counter_step (s : MState) (op : MPOp) (h : op.isStartAt = false) :
    ((mpstep s op).1.cur = s.cur ∧ (mpstep s op).1.decisions = s.decisions) ∨
    ∃ d, (mpstep s op).1.cur = s.cur + 1 ∧ (mpstep s op).1.decisions = s.decisions ++ [(s.cur, d)] ∧
      (mpstep s op).1.active = none :=
  mpstep_counter s op h

/-- **Monotone instance counter.** Along any run without `StartInstanceAt`, `cur` never decreases and the
decisions appended by the run are for exactly the instances `cur, cur + 1, …, cur' - 1`, in this order: one decision
per increment, one increment per decision. -/
theorem instance_counter_run (s : MState) (ops : List MPOp) (h : noStartAt ops = true) :
    s.cur ≤ (mprun s ops).1.cur ∧
    ∃ ds : List (Nat × Just), (mprun s ops).1.decisions = s.decisions ++ ds ∧
      ds.map (·.1) = List.range' s.cur ((mprun s ops).1.cur - s.cur) :=
  mprun_counter s ops h

/-- **`decisions` is append-only** along every run, `StartInstanceAt` in any direction included. -/
theorem decisions_append_only (s : MState) (ops : List MPOp) : s.decisions <+: (mprun s ops).1.decisions :=
  mprun_decisions_prefix s ops

/-- `StartInstanceAt k` (any `k`: the Go code accepts every instance, smaller ones included): the counter becomes
`k`, the running instance is dropped without a decision being recorded, the queues of instances `≥ k` are kept and
those below `k` discarded; no effects. -/
theorem start_instance_at (s : MState) (k : Nat) :
    (mpstep s (.startAt k)).1.cur = k ∧ (mpstep s (.startAt k)).1.active = none ∧
    (mpstep s (.startAt k)).1.decisions = s.decisions ∧ (mpstep s (.startAt k)).2 = [] ∧
    (∀ j, k ≤ j → queueOf (mpstep s (.startAt k)).1.queues j = queueOf s.queues j) ∧
    (∀ j, j < k → queueOf (mpstep s (.startAt k)).1.queues j = []) :=
  mpstep_startAt s k

/-- **At most one decision per instance.** In a run from the fresh participant in which no `StartInstanceAt k` goes
backwards (`cur ≤ k` at the time of the call — `noBackward`), `cur` never decreases below its start, the instance
ids of the recorded decisions are strictly increasing and below `cur`, and no instance has two decisions. (With a
backward `StartInstanceAt` this fails: `F3.Bridge.ex_backward`, second example below.) -/
theorem one_decision_per_instance (cfg : Cfg) (c0 : Nat) (ops : List MPOp)
    (h : noBackward (minit cfg c0) ops = true) :
    c0 ≤ (mprun (minit cfg c0) ops).1.cur ∧
    ((mprun (minit cfg c0) ops).1.decisions.map (·.1)).Pairwise (· < ·) ∧
    (∀ e ∈ (mprun (minit cfg c0) ops).1.decisions, e.1 < (mprun (minit cfg c0) ops).1.cur) ∧
    ∀ k d d', (k, d) ∈ (mprun (minit cfg c0) ops).1.decisions → (k, d') ∈ (mprun (minit cfg c0) ops).1.decisions →
      d = d' := by
  have hs := mprun_decSorted (minit cfg c0) ops (minit_decSorted cfg c0) h
  exact ⟨hs.2, hs.1.1, hs.1.2, fun k d d' => decSorted_unique _ hs.1 k d d'⟩

/-- **At most one message per round and step, in every instance of a multi-instance run.** In a run from the fresh
participant in which `StartInstanceAt` only skips ahead (`forwardOnly`), over validated messages, for every
instance `k` that was begun and for which no internal error or panic was reported: the participant never requested
two broadcasts for the same (round, phase) of instance `k`. (`emit_once_participant` through the per-instance
projection `F3.Props.C01.consecutive_instances_projection`.) -/
theorem emit_once_consecutive_instances (cfg : Cfg) (c0 : Nat) (ops : List MPOp) (k : Nat) (tbl : Table)
    (input : Chain) (order : List Pid) (hfw : forwardOnly (minit cfg c0) ops = true)
    (hbeg : begunWith cfg c0 k ops = some (tbl, input, order))
    (hops : ∀ op ∈ ops, MPOpP MsgOk op)
    (hnf : hasFailure (effsOf k (mprun (minit cfg c0) ops).2) = false) :
    ((effsOf k (mprun (minit cfg c0) ops).2).filterMap slotOf).Nodup := by
  have hp := (instance_projection cfg c0 ops k tbl input order hfw hbeg).1
  rw [hp] at hnf ⊢
  exact emit_once_participant cfg tbl input order _ (opsOf_P MsgOk cfg c0 k ops hops) hnf

/-- **Progress never moves backwards within an instance of a multi-instance run**: the (round, phase) points
notified while instance `k` was current are strictly increasing. -/
theorem progress_monotone_consecutive_instances (cfg : Cfg) (c0 : Nat) (ops : List MPOp) (k : Nat) (tbl : Table)
    (input : Chain) (order : List Pid) (hfw : forwardOnly (minit cfg c0) ops = true)
    (hbeg : begunWith cfg c0 k ops = some (tbl, input, order))
    (hops : ∀ op ∈ ops, MPOpP MsgOk op)
    (hnf : hasFailure (effsOf k (mprun (minit cfg c0) ops).2) = false) :
    ((effsOf k (mprun (minit cfg c0) ops).2).filterMap progOf).Pairwise ptLt := by
  have hp := (instance_projection cfg c0 ops k tbl input order hfw hbeg).1
  rw [hp] at hnf ⊢
  exact (progress_monotone_participant cfg tbl input order _ (opsOf_P MsgOk cfg c0 k ops hops) hnf).1

/-- a run that reports no failure at all reports none for any instance -/
theorem no_failure_per_instance (k : Nat) (l : List (Nat × Eff)) (h : hasFailure (l.map (·.2)) = false) :
    hasFailure (effsOf k l) = false :=
  effsOf_nofail k l h

/-! ### Non-vacuity: the two-instance execution `F3.Instance.exMOps` (`F3.Proofs.MultiParticipantEx`: four equal
members; instance 0 decides `[7,8]`; a message for instance 1 arrives while instance 0 is running and is queued; a
message for instance 0 arrives after it finished and is dropped; instance 1 begins, drains its queue of three messages
and decides `[8,5]`) -/

/-- hypotheses of `finished_instance_message_dropped` (18th call: a DECIDE for instance 0 while `cur = 1`) and of
`future_instance_message_queued` (7th call: a message for instance 1 while instance 0 is running; 19th call: a message
for instance 1, current but not begun), and the queue of instance 1 just before it begins -/
example :
    (0 : Nat) < (mprun (minit mxCfg) (exMOps.take 17)).1.cur ∧
    (mprun (minit mxCfg) (exMOps.take 6)).1.cur < 1 ∧
    (mprun (minit mxCfg) (exMOps.take 6)).1.active.isSome = true ∧
    ((mprun (minit mxCfg) (exMOps.take 18)).1.cur = 1 ∧
      (mprun (minit mxCfg) (exMOps.take 18)).1.active.isNone = true) ∧
    (queueOf (mprun (minit mxCfg) (exMOps.take 20)).1.queues 1).map (·.sender) = [2, 1, 4] := by
  decide +kernel

/-- hypotheses of `instance_counter_run`, `one_decision_per_instance`, `emit_once_consecutive_instances` and
`progress_monotone_consecutive_instances` (both instances), and what they yield here -/
example :
    noStartAt exMOps = true ∧ noBackward (minit mxCfg) exMOps = true ∧
    forwardOnly (minit mxCfg) exMOps = true ∧
    begunWith mxCfg 0 0 exMOps = some (mxTbl, [7, 8], mxOrder) ∧
    begunWith mxCfg 0 1 exMOps = some (mxTbl, [8, 5], [1, 4, 2]) ∧
    (∀ op ∈ exMOps, MPOpP MsgOk op) ∧
    hasFailure ((mprun (minit mxCfg) exMOps).2.map (·.2)) = false ∧
    (mprun (minit mxCfg) exMOps).1.cur = 2 ∧
    (mprun (minit mxCfg) exMOps).1.decisions.map (fun e => (e.1, e.2.value)) = [(0, [7, 8]), (1, [8, 5])] ∧
    (effsOf 0 (mprun (minit mxCfg) exMOps).2).filterMap slotOf =
      [(0, .quality), (0, .prepare), (0, .commit), (0, .decide)] ∧
    (effsOf 1 (mprun (minit mxCfg) exMOps).2).filterMap slotOf =
      [(0, .quality), (0, .prepare), (0, .commit), (0, .decide)] := by
  refine ⟨ex_forward.1, ex_forward.2.1, ex_forward.2.2, ex_opsOf.2.2.1, ex_opsOf.2.2.2.1, ex_msgs_ok,
    ex_projection.2.2.2.2, by decide +kernel, by decide +kernel, by decide +kernel, by decide +kernel⟩

/-- **A backward `StartInstanceAt` breaks "one decision per instance"**: after instance 0 was decided,
`StartInstanceAt 0` makes the participant run instance 0 again (here with another proposal) and hand the host a
second, different decision for instance 0; `decisions` is still only appended to. -/
example :
    noBackward (minit mxCfg) exBackOps = false ∧
    (mprun (minit mxCfg) (exBackOps.take 18)).1.cur = 0 ∧
    (mprun (minit mxCfg) (exBackOps.take 18)).1.decisions.map (fun e => (e.1, e.2.value)) = [(0, [7, 8])] ∧
    (mprun (minit mxCfg) exBackOps).1.decisions.map (fun e => (e.1, e.2.value)) = [(0, [7, 8]), (0, [8, 5])] :=
  ⟨ex_backward.1, by decide +kernel, by decide +kernel, ex_backward.2.1⟩

/-- **`forwardOnly` is needed for the per-instance statements**: `StartInstanceAt 0` while instance 0 is running does
not go backwards but restarts the instance; the participant then broadcasts QUALITY a second time for instance 0 —
for another chain if the host proposes another one. (The production host calls `StartInstanceAt` only to skip
ahead: `host.go: receiveCertificate` returns when `currentInstance >= nextInstance`.) -/
example :
    noBackward (minit mxCfg) exRestartOps = true ∧ forwardOnly (minit mxCfg) exRestartOps = false ∧
    (effsOf 0 (mprun (minit mxCfg) exRestartOps).2).filterMap slotOf =
      [(0, .quality), (0, .prepare), (0, .quality)] :=
  ⟨ex_restart.1, ex_restart.2.1, by decide +kernel⟩

end ConsecutiveInstances

/-! ## No internal error, no panic

Every `panic(...)` site and every returned error of `gpbft.go` is an explicit effect of the model (`Eff.panic site`,
`Eff.err kind`). All theorems above take "no failure was reported" as a hypothesis; here it is proved: on validated
inputs the only failures the instance ever reports are the four refusals at the door. -/
section NoFailure

/-- **No internal error or panic.** For every configuration, every power table with positive total power, every
non-empty input chain, every set `W` of existing votes and every sequence of API calls that begins with the one
`Start` (`beginInstance`) and continues with alarms and deliveries — at any times, in any order, duplicates and
equivocations included — each delivered message being either for another instance / supplemental data (`foreignOp`)
or a validated one (`OpValidG W t`, i.e. `MsgValid`: positive sender power, CONVERGE with a non-bottom value, the
justification that validation demands, DECIDE for round 0 …):

* every call either is refused at the door, leaving the state untouched (`refusedOp`, `step_refusedOp`), or reports
  no failure at all (`okRunI`, the core-only twin of `F3.Bridge.okRun`);
* no effect of the run is a `panic` — none of `duplicateMessage`, `nilJustification`, `signerNotInTable`,
  `invalidSignerIndex`, `quorumNotFound`, `multipleStrongQuorums`, `convergeJustRound`, `commitNoQuorum`,
  `decideNoQuorum`, `tryDecideNoQuorum`, `nextRoundNoJust` is reachable;
* every reported error is one of `afterTermination`, `wrongInstance`, `wrongSupp`, `wrongBase`, which a validated
  (Byzantine or late) message can legitimately trigger — never `convergeBottom`, `convergeNilJust`,
  `unexpectedPhase`, `noValuesAtConverge`, `cannotTransition`.

Neither distinctness of the table's ids nor any relation between `W` and the participant's own broadcasts is
needed: validity is monotone in `W`, and the structural part of the Layer-B invariant suffices. -/
theorem no_internal_error_or_panic (cfg : Cfg) (t : Table) (input : Chain) (W : Votes) (now0 : Int) (ops : List Op)
    (hin : input ≠ []) (hT : 0 < t.total)
    (hstart : ∀ op ∈ ops, op.isStart = false)
    (hvalid : ∀ op ∈ ops, foreignOp op = true ∨ OpValidG W t op) :
    okRunI (init cfg t input) (.start now0 :: ops) = true ∧
    ∀ e ∈ (run (init cfg t input) (.start now0 :: ops)).2,
      (∀ p, e ≠ Eff.panic p) ∧
      (∀ k, e = Eff.err k → k = .afterTermination ∨ k = .wrongInstance ∨ k = .wrongSupp ∨ k = .wrongBase) := by
  have hok := run_nf cfg t input W now0 ops hin hT (fun op hop => ⟨hstart op hop, hvalid op hop⟩)
  exact ⟨hok, okRunI_effects _ _ hok⟩

/-- the same for a run that is not interrupted by refusals: over validated messages of this instance, with its
supplemental data and base, delivered before termination, the run reports no failure whatsoever -/
theorem no_failure_without_refusals (cfg : Cfg) (t : Table) (input : Chain) (W : Votes) (now0 : Int) (ops : List Op)
    (hin : input ≠ []) (hT : 0 < t.total)
    (hstart : ∀ op ∈ ops, op.isStart = false)
    (hvalid : ∀ op ∈ ops, foreignOp op = true ∨ OpValidG W t op)
    (hnoref : ∀ e ∈ (run (init cfg t input) (.start now0 :: ops)).2, ∀ k, e = Eff.err k →
      k ≠ .afterTermination ∧ k ≠ .wrongInstance ∧ k ≠ .wrongSupp ∧ k ≠ .wrongBase) :
    hasFailure (run (init cfg t input) (.start now0 :: ops)).2 = false := by
  have h := (no_internal_error_or_panic cfg t input W now0 ops hin hT hstart hvalid).2
  unfold hasFailure
  rw [List.any_eq_false]
  intro e he
  cases e with
  | err k =>
    exfalso
    obtain ⟨h1, h2, h3, h4⟩ := hnoref _ he k rfl
    rcases (h _ he).2 k rfl with h' | h' | h' | h'
    · exact h1 h'
    · exact h2 h'
    · exact h3 h'
    · exact h4 h'
  | panic p => exact absurd rfl ((h _ he).1 p)
  | _ => simp

/-- the failure-free run behind a validated run (refused deliveries dropped) -/
theorem validated_run_clean (cfg : Cfg) (t : Table) (input : Chain) (W : Votes) (now0 : Int) (ops : List Op)
    (hin : input ≠ []) (hT : 0 < t.total)
    (hstart : ∀ op ∈ ops, op.isStart = false)
    (hvalid : ∀ op ∈ ops, foreignOp op = true ∨ OpValidG W t op) :
    ∃ ops', (∀ op ∈ ops', OpOk op) ∧ hasFailure (run (init cfg t input) ops').2 = false ∧
      (run (init cfg t input) ops').1 = (run (init cfg t input) (.start now0 :: ops)).1 ∧
      (run (init cfg t input) ops').2 = (run (init cfg t input) (.start now0 :: ops)).2.filter nonErr := by
  have hok := (no_internal_error_or_panic cfg t input W now0 ops hin hT hstart hvalid).1
  obtain ⟨ops', h1, h2, h3, h4⟩ := clean_runI (OpValidG W t) _ _ hok (by
    intro op hop
    rcases List.mem_cons.1 hop with rfl | hop
    · exact Or.inr trivial
    · exact hvalid op hop)
  refine ⟨ops', ?_, h2, h3, h4⟩
  intro op hop
  have := h1 op hop
  cases op with
  | recv now m => exact MsgValid.msgOk (W := W) this
  | start _ => trivial
  | alarm _ => trivial

/-- **At most one message per instance, round and step — no failure hypothesis.** `emit_once` for every run of one
`Start` followed by alarms and validated (or foreign) deliveries. -/
theorem emit_once_unconditional (cfg : Cfg) (t : Table) (input : Chain) (W : Votes) (now0 : Int) (ops : List Op)
    (hin : input ≠ []) (hT : 0 < t.total)
    (hstart : ∀ op ∈ ops, op.isStart = false)
    (hvalid : ∀ op ∈ ops, foreignOp op = true ∨ OpValidG W t op) :
    ((run (init cfg t input) (.start now0 :: ops)).2.filterMap slotOf).Nodup := by
  obtain ⟨ops', h1, h2, _, h4⟩ := validated_run_clean cfg t input W now0 ops hin hT hstart hvalid
  have := emit_once cfg t input ops' h1 h2
  rwa [h4, filterMap_filter_nonErr slotOf (fun _ => rfl)] at this

/-- **Progress never moves backwards — no failure hypothesis.** -/
theorem progress_monotone_unconditional (cfg : Cfg) (t : Table) (input : Chain) (W : Votes) (now0 : Int)
    (ops : List Op) (hin : input ≠ []) (hT : 0 < t.total)
    (hstart : ∀ op ∈ ops, op.isStart = false)
    (hvalid : ∀ op ∈ ops, foreignOp op = true ∨ OpValidG W t op) :
    ((run (init cfg t input) (.start now0 :: ops)).2.filterMap progOf).Pairwise ptLt ∧
    ptLe (0, 0) (run (init cfg t input) (.start now0 :: ops)).1.pt := by
  obtain ⟨ops', h1, h2, h3, h4⟩ := validated_run_clean cfg t input W now0 ops hin hT hstart hvalid
  have := progress_monotone cfg t input ops' h1 h2
  rwa [h3, h4, filterMap_filter_nonErr progOf (fun _ => rfl)] at this

/-! ### Non-vacuity: the run `exOps` above with three more deliveries — a validated QUALITY vote on another base
(refused: `wrongBase`), a message of another instance (refused: `wrongInstance`) and a validated COMMIT for bottom —
meets every hypothesis; it reports exactly the two refusals and broadcasts QUALITY, PREPARE, COMMIT -/

def exNFOps : List Op :=
  [.recv 1 { sender := 1, round := 0, phase := .quality, value := [7, 8] },
   .recv 2 { sender := 3, round := 0, phase := .quality, value := [9, 9] },                  -- other base: refused
   .recv 2 { sender := 2, round := 0, phase := .quality, value := [7, 8] },
   .recv 3 { sender := 1, round := 0, phase := .prepare, value := [7, 8] },
   .recv 4 { sender := 2, round := 0, phase := .prepare, value := [7, 8], instOk := false },  -- other instance: refused
   .recv 4 { sender := 2, round := 0, phase := .prepare, value := [7, 8] },
   .recv 5 { sender := 3, round := 0, phase := .prepare, value := [7, 9] },
   .recv 6 { sender := 3, round := 0, phase := .prepare, value := [7, 8] },                  -- equivocation: ignored
   .alarm 500,
   .recv 501 { sender := 3, round := 0, phase := .commit, value := [] }]

example : ([7, 8] : Chain) ≠ [] ∧ 0 < exTbl.total ∧ (∀ op ∈ exNFOps, op.isStart = false) ∧
    (∀ op ∈ exNFOps, foreignOp op = true ∨ OpValidG WT exTbl op) ∧
    (run (init exCfg exTbl [7, 8]) (.start 0 :: exNFOps)).2.filter (fun e => !nonErr e) =
      [.err .wrongBase, .err .wrongInstance] ∧
    (run (init exCfg exTbl [7, 8]) (.start 0 :: exNFOps)).2.filterMap slotOf =
      [(0, .quality), (0, .prepare), (0, .commit)] := by
  refine ⟨by decide, by decide, ?_, ?_, by decide, by decide⟩
  · intro op hop
    simp only [exNFOps, List.mem_cons, List.mem_nil_iff, or_false] at hop
    rcases hop with rfl | rfl | rfl | rfl | rfl | rfl | rfl | rfl | rfl | rfl <;> rfl
  · intro op hop
    simp only [exNFOps, List.mem_cons, List.mem_nil_iff, or_false] at hop
    rcases hop with rfl | rfl | rfl | rfl | rfl | rfl | rfl | rfl | rfl | rfl <;>
      simp [foreignOp, foreignM, OpValidG, MsgValid, exTbl, Table.power]

/-! ### None of the hypotheses is idle

* total power zero (an empty committee passes `PowerTable.Validate`): three alarms take the instance through QUALITY,
  PREPARE and COMMIT with everything "strong", and `beginNextRound` panics — "beginConverge called but no
  justification for proposal", `gpbft.go:728`;
* an alarm before `Start`: `unexpectedPhase` ("unexpected phase INITIAL"); a second `Start`: `cannotTransition`;
* messages that validation would reject: a COMMIT for a value without justification panics ("nil justification",
  `gpbft.go:1116`), a CONVERGE for bottom is reported as `convergeBottom`. -/

example : (run (init exCfg { entries := [] } [7, 8]) [.start 0, .alarm 200, .alarm 400, .alarm 600]).2.filterMap
      (fun e => match e with | .panic p => some p | _ => none) = [.nextRoundNoJust] ∧
    (run (init exCfg exTbl [7, 8]) [.alarm 0]).2 = [.err .unexpectedPhase] ∧
    (run (init exCfg exTbl [7, 8]) [.start 0, .start 1]).2.filter (fun e => !nonErr e) = [.err .cannotTransition] ∧
    (run (init exCfg exTbl [7, 8])
      [.start 0, .recv 1 { sender := 1, round := 0, phase := .commit, value := [7, 8] }]).2.filterMap
      (fun e => match e with | .panic p => some p | _ => none) = [.nilJustification] ∧
    (run (init exCfg exTbl [7, 8])
      [.start 0, .recv 1 { sender := 1, round := 1, phase := .converge, value := [] }]).2.filter
      (fun e => !nonErr e) = [.err .convergeBottom] := by
  decide

/-! ### The participant API -/

/-- **No internal error or panic at the participant API.** For every configuration, power table with positive total,
non-empty input, drain order and every sequence of `ReceiveMessage` / `ReceiveAlarm` calls — messages arriving before
the instance has begun are queued and drained through `instance.ReceiveMany` at the first alarm — in which every
delivered message is of this instance (the Go participant keeps one queue per instance) and is a validated one unless
its supplemental data are not the instance's (`PMsgOK`): every call either is a refusal at the door by the running
instance or reports no failure (`okRunP`, so far the hypothesis `HonestRunP.ok`); no effect is a `panic`, and every
reported error is one of the four refusals. In particular the drain never aborts. -/
theorem no_internal_error_or_panic_participant (cfg : Cfg) (t : Table) (input : Chain) (W : Votes) (order : List Pid)
    (ops : List POp) (hin : input ≠ []) (hT : 0 < t.total)
    (hvalid : ∀ op ∈ ops, POpP (PMsgOK W t) op) :
    okRunP order (pinit cfg t input) ops = true ∧
    ∀ e ∈ (prun order (pinit cfg t input) ops).2,
      (∀ p, e ≠ Eff.panic p) ∧
      (∀ k, e = Eff.err k → k = .afterTermination ∨ k = .wrongInstance ∨ k = .wrongSupp ∨ k = .wrongBase) := by
  have hok := prun_ok cfg t input W order ops hin hT hvalid
  exact ⟨hok, okRunP_effects order _ ops hok⟩

/-- **At most one message per instance, round and step, at the participant API — no failure hypothesis.** -/
theorem emit_once_participant_unconditional (cfg : Cfg) (t : Table) (input : Chain) (W : Votes) (order : List Pid)
    (ops : List POp) (hin : input ≠ []) (hT : 0 < t.total)
    (hvalid : ∀ op ∈ ops, POpP (PMsgOK W t) op) :
    ((prun order (pinit cfg t input) ops).2.filterMap slotOf).Nodup := by
  have hok := prun_ok cfg t input W order ops hin hT hvalid
  have h := (prun_wp_ok order (pinit cfg t input) ops (DQ_pinit cfg t input) (by simp [pinit])
    (fun op hop => (hvalid op hop).foreign_or_ok) hok).1
  have hn := h.bc_nodup
  rw [evs_bc] at hn
  exact (List.pairwise_map.1 hn).imp (fun h heq => h (by rw [heq]))

/-- **Progress never moves backwards, at the participant API — no failure hypothesis.** -/
theorem progress_monotone_participant_unconditional (cfg : Cfg) (t : Table) (input : Chain) (W : Votes)
    (order : List Pid) (ops : List POp) (hin : input ≠ []) (hT : 0 < t.total)
    (hvalid : ∀ op ∈ ops, POpP (PMsgOK W t) op) :
    ((prun order (pinit cfg t input) ops).2.filterMap progOf).Pairwise ptLt ∧
    ptLe (0, 0) (prun order (pinit cfg t input) ops).1.inst.pt := by
  have hok := prun_ok cfg t input W order ops hin hT hvalid
  have h := (prun_wp_ok order (pinit cfg t input) ops (DQ_pinit cfg t input) (by simp [pinit])
    (fun op hop => (hvalid op hop).foreign_or_ok) hok).1
  have hs := h.prog_sorted
  rw [evs_prog] at hs
  exact ⟨hs.1, h.le⟩

/-- Non-vacuity: `exPOps` above (three messages queued before the instance begins, one of them a late-binding reject
dropped by the drain) with a delivery on another base to the running instance (refused: `wrongBase`) -/
example : ([7, 8] : Chain) ≠ [] ∧ 0 < exTbl.total ∧
    (∀ op ∈ exPOps ++ [.recv 600 { sender := 3, round := 0, phase := .quality, value := [9, 9] }],
      POpP (PMsgOK WT exTbl) op) ∧
    (prun [3, 1] (pinit exCfg exTbl [7, 8])
      (exPOps ++ [.recv 600 { sender := 3, round := 0, phase := .quality, value := [9, 9] }])).2.filter
        (fun e => !nonErr e) = [.err .wrongBase] := by
  refine ⟨by decide, by decide, ?_, by decide⟩
  intro op hop
  simp only [exPOps, List.cons_append, List.nil_append, List.mem_cons, List.mem_nil_iff, or_false] at hop
  rcases hop with rfl | rfl | rfl | rfl | rfl | rfl | rfl | rfl | rfl <;>
    simp [POpP, PMsgOK, MsgValid, exTbl, Table.power]

end NoFailure

/-! ## Run level: validity of every emitted message, the tight longest-prefix spec, the QUALITY tally, completeness of
the candidate set (audit finding H2)

Proofs in `F3.Proofs.EmittedValid{,Cands,Quality,Ex}` (core-only); `F3.Proofs.EmittedValidBridge` restates
`emitted_valid` over `F3.Bridge.ValidRun` / `NetworkV`. All theorems are about runs `Start :: ops` of `F3.Instance.step`
from `init`, `ops` being alarms and deliveries each of which is foreign (other instance / supplemental data) or
validated w.r.t. the set `W` of existing votes — the hypotheses of `no_internal_error_or_panic`; no failure
hypothesis. -/
section RunLevel
open F3.EmittedValid

/-- **Every message it emits is valid and acceptable to its peers.** If moreover `W` contains the participant's own
broadcasts and the participant has positive power, then every broadcast request `(r, ph, v, j)` of the run, seen as
the message `msgOf p r ph v j` a peer receives, satisfies `MsgValid W t` — the model of `gpbft/validator.go`, w.r.t.
the **same** evidence set `W` (every signer of an attached justification cast a vote that was delivered to `p`, or
signed a justification that was). Spelled out (`F3.EmittedValid.Shape`): QUALITY is for round 0 and not bottom;
CONVERGE is for a round `≥ 1`, not bottom, and carries `ConvJust` of the previous round (strong PREPARE quorum for the
value, or strong COMMIT quorum for bottom); PREPARE of round 0 carries no justification, of round `≥ 1` a `ConvJust`;
COMMIT for bottom carries none, for a value the `CommitJust` (strong PREPARE quorum of the same round for that value);
DECIDE is labelled round 0, not bottom, and carries a strong COMMIT quorum (any round) for the same value. -/
theorem emitted_valid (cfg : Cfg) (t : Table) (input : Chain) (W : Votes) (p : Pid) (now0 : Int) (ops : List Op)
    (hin : input ≠ []) (hT : 0 < t.total) (hpos : 0 < t.power p)
    (hstart : ∀ op ∈ ops, op.isStart = false)
    (hvalid : ∀ op ∈ ops, foreignOp op = true ∨ OpValidG W t op)
    (hown : ∀ r ph v tk j, Eff.broadcast r ph v tk j ∈ (run (init cfg t input) (.start now0 :: ops)).2 → W p r ph v) :
    ∀ r ph v tk j, Eff.broadcast r ph v tk j ∈ (run (init cfg t input) (.start now0 :: ops)).2 →
      MsgValid W t (msgOf p r ph v j) :=
  emitted_valid_run cfg t input W p now0 ops hin hT hpos hstart hvalid hown

/-- the phase-specific part, without the power hypothesis -/
theorem emitted_shapes (cfg : Cfg) (t : Table) (input : Chain) (W : Votes) (p : Pid) (now0 : Int) (ops : List Op)
    (hin : input ≠ []) (hT : 0 < t.total)
    (hstart : ∀ op ∈ ops, op.isStart = false)
    (hvalid : ∀ op ∈ ops, foreignOp op = true ∨ OpValidG W t op)
    (hown : ∀ r ph v tk j, Eff.broadcast r ph v tk j ∈ (run (init cfg t input) (.start now0 :: ops)).2 → W p r ph v) :
    ∀ r ph v tk j, Eff.broadcast r ph v tk j ∈ (run (init cfg t input) (.start now0 :: ops)).2 → Shape W t r ph v j :=
  run_shaped cfg t input W p now0 ops hin hT hstart hvalid hown

/-- Non-vacuity: the two-round run `r2Ops` of member 1 (`F3.Proofs.EmittedValidEx`: PREPARE split, COMMIT bottom,
CONVERGE and PREPARE of round 1 justified by the COMMIT-bottom quorum, COMMIT `[7]` by the PREPARE quorum of round 1,
DECIDE by the COMMIT quorum of round 1, one refusal after termination) meets every hypothesis; all seven broadcasts,
with the justifications the model attached, are accepted. -/
example :
    MsgValid r2W r2Tbl (msgOf 1 0 .quality [7, 8] none) ∧ MsgValid r2W r2Tbl (msgOf 1 0 .prepare [7, 8] none) ∧
    MsgValid r2W r2Tbl (msgOf 1 0 .commit [] none) ∧ MsgValid r2W r2Tbl (msgOf 1 1 .converge [7, 8] (some jB)) ∧
    MsgValid r2W r2Tbl (msgOf 1 1 .prepare [7] (some jB)) ∧ MsgValid r2W r2Tbl (msgOf 1 1 .commit [7] (some jP)) ∧
    MsgValid r2W r2Tbl (msgOf 1 0 .decide [7] (some jC)) := by
  have h := emitted_valid r2Cfg r2Tbl [7, 8] r2W 1 0 r2Ops (by decide) (by decide) (by decide) r2_noRestart r2_valid r2_own
  have key : ∀ x ∈ bcList r2Run.2, MsgValid r2W r2Tbl (msgOf 1 x.1 x.2.1 x.2.2.1 x.2.2.2) := by
    intro x hx
    simp only [bcList, List.mem_filterMap] at hx
    obtain ⟨e, he, hex⟩ := hx
    cases e <;> simp at hex
    subst hex
    exact h _ _ _ _ _ he
  rw [r2_broadcasts] at key
  exact ⟨key (0, .quality, [7, 8], none) (by simp), key (0, .prepare, [7, 8], none) (by simp),
    key (0, .commit, [], none) (by simp), key (1, .converge, [7, 8], some jB) (by simp),
    key (1, .prepare, [7], some jB) (by simp), key (1, .commit, [7], some jP) (by simp),
    key (0, .decide, [7], some jC) (by simp)⟩

/-- `hpos` is needed: a participant without power runs the same code and broadcasts QUALITY — which every validator
rejects (`validator.go`: "sender with zero power"); all other hypotheses hold (`ops = []`). -/
example : Eff.broadcast 0 .quality [7, 8] false none ∈ (run (init r2Cfg r2Tbl [7, 8]) [.start 0]).2 ∧
    r2Tbl.power 9 = 0 ∧ ∀ W, ¬ MsgValid W r2Tbl (msgOf 9 0 .quality [7, 8] none) :=
  ⟨by decide, by decide, fun W h => absurd h.2.1 (by decide)⟩

/-! ### `longestPrefixWithQuorum`: the spec with its maximality clause -/

/-- **Nothing longer has a quorum.** No prefix of the preferred chain longer than `longestPrefixWithQuorum` has a
strong quorum in the tally (the clause missing from `longest_prefix_spec`, which is kept as is). -/
theorem longest_prefix_maximal (q : Tally) (c : Chain) :
    (∀ x, x <+: c → (q.longestPrefixWithQuorum c).length < x.length → q.hasStrongFor x = false) ∧
    (∀ i, (q.longestPrefixWithQuorum c).length ≤ i → i < c.length → q.hasStrongFor (prefixTo c i) = false) :=
  ⟨fun x hx hl => F3.EmittedValid.longest_prefix_maximal q c x hx hl,
   fun i h1 h2 => longest_prefix_maximal_idx q c i h1 h2⟩

/-- **With that clause the spec is tight**: a non-empty prefix of `c` that is the base or has a strong quorum, and
beyond which no prefix of `c` has one, is `longestPrefixWithQuorum c`. -/
theorem longest_prefix_characterised (q : Tally) (c L : Chain) (hc : c ≠ []) :
    L = q.longestPrefixWithQuorum c ↔
      (L <+: c ∧ L ≠ [] ∧ (L = baseChain c ∨ q.hasStrongFor L = true) ∧
        ∀ x, x <+: c → L.length < x.length → q.hasStrongFor x = false) := by
  constructor
  · rintro rfl
    obtain ⟨h1, h2⟩ := longest_prefix_facts q c hc
    exact ⟨h1, h2, longest_prefix_sat q c, (longest_prefix_maximal q c).1⟩
  · rintro ⟨h1, h2, h3, h4⟩
    exact longest_prefix_unique q c L hc h1 h2 h3 h4

/-- the audit's `badLP` (E1) satisfies the three conjuncts of `longest_prefix_spec` but not maximality: three
QUALITY votes `[7,8]`, input `[7,8,9]` — `longestPrefixWithQuorum` returns `[7,8]`, `badLP` the base `[7]` although
the longer prefix `[7,8]` has a strong quorum. Also non-vacuity of `longest_prefix_maximal` (a tally with quorums). -/
example :
    let q := qTally r2Tbl [(1, [7, 8]), (2, [7, 8]), (3, [7, 8])]
    let badLP := fun (q : Tally) (c : Chain) => if q.hasStrongFor c then c else baseChain c
    q.longestPrefixWithQuorum [7, 8, 9] = [7, 8] ∧ badLP q [7, 8, 9] = [7] ∧
    q.hasStrongFor [7, 8] = true ∧ ([7, 8] : Chain) <+: [7, 8, 9] ∧ q.hasStrongFor [7, 8, 9] = false := by
  refine ⟨by decide, by decide, by decide, ⟨[9], rfl⟩, by decide⟩

/-! ### the QUALITY tally -/

/-- **What the QUALITY tally holds.** For every run whatsoever: `quality` is `qTally` of the QUALITY votes that were
handed to the tally (`qvotesFrom`: QUALITY messages passing the door checks of `receiveOne`, in delivery order); and
with positive total power `hasStrongFor x` says: the distinct first-time senders (`firstVotes`: later votes of a
sender are ignored) whose vote has `x` as a prefix extending the base by at least one tipset hold a strong quorum. -/
theorem quality_tally_meaning (cfg : Cfg) (t : Table) (input : Chain) (ops : List Op) (hT : 0 < t.total) (x : Chain) :
    (run (init cfg t input) ops).1.quality = qTally t (qvotesFrom (init cfg t input) ops) ∧
    (run (init cfg t input) ops).1.quality.hasStrongFor x =
      strongQ t (sumP t (((firstVotes (qvotesFrom (init cfg t input) ops)).filter
        (fun e => decide (x <+: e.2 ∧ 2 ≤ x.length))).map (·.1))) := by
  refine ⟨quality_run cfg t input ops, ?_⟩
  rw [quality_run, qTally_hasStrongFor t _ hT x]
  unfold qPower qSupporters
  congr 4
  funext e
  rw [decide_eq_decide]
  exact counts_iff e.2 x

/-- the first-time votes behind the tally: one per sender, each of them a tallied vote, every tallied sender present -/
theorem quality_first_votes (vs : List QVote) :
    ((firstVotes vs).map (·.1)).Nodup ∧ (∀ e ∈ firstVotes vs, e ∈ vs) ∧ ∀ e ∈ vs, ∃ e' ∈ firstVotes vs, e'.1 = e.1 :=
  firstVotes_spec vs

/-- **Round-0 PREPARE on runs.** In every validated run a PREPARE without justification is for round 0, is broadcast
by the call that takes the instance out of QUALITY, and its value is `longestPrefixWithQuorum input` over exactly
the QUALITY votes tallied up to and including that call (`prepare0_value` at run level). -/
theorem prepare0_run (cfg : Cfg) (t : Table) (input : Chain) (W : Votes) (now0 : Int) (ops : List Op)
    (hin : input ≠ []) (hT : 0 < t.total)
    (hstart : ∀ op ∈ ops, op.isStart = false)
    (hvalid : ∀ op ∈ ops, foreignOp op = true ∨ OpValidG W t op)
    (r : Nat) (v : Chain) (tk : Bool)
    (hm : Eff.broadcast r .prepare v tk none ∈ (run (init cfg t input) (.start now0 :: ops)).2) :
    r = 0 ∧ ∃ ops1 op ops2, ops = ops1 ++ op :: ops2 ∧
      (run (init cfg t input) (.start now0 :: ops1)).1.phase = .quality ∧
      (run (init cfg t input) (.start now0 :: (ops1 ++ [op]))).1.phase ≠ .quality ∧
      Eff.broadcast r .prepare v tk none ∈ (step (run (init cfg t input) (.start now0 :: ops1)).1 op).2 ∧
      v = (qTally t (qvotesFrom (init cfg t input) (.start now0 :: (ops1 ++ [op])))).longestPrefixWithQuorum input :=
  F3.EmittedValid.prepare0_run cfg t input W now0 ops hin hT hstart hvalid r v tk hm

/-- Non-vacuity on `r2Ops`: the tally holds the four QUALITY votes (the late one included); the round-0 PREPARE
`[7,8]` was broadcast at the third vote, over exactly the first three. -/
example :
    qvotesFrom (init r2Cfg r2Tbl [7, 8]) (.start 0 :: r2Ops) = [(1, [7, 8]), (2, [7, 8]), (3, [7, 8]), (4, [7, 9])] ∧
    Eff.broadcast 0 .prepare [7, 8] false none ∈ r2Run.2 ∧
    (run (init r2Cfg r2Tbl [7, 8]) (.start 0 :: r2Ops.take 2)).1.phase = .quality ∧
    (run (init r2Cfg r2Tbl [7, 8]) (.start 0 :: r2Ops.take 3)).1.phase = .prepare ∧
    (qTally r2Tbl (qvotesFrom (init r2Cfg r2Tbl [7, 8]) (.start 0 :: r2Ops.take 3))).longestPrefixWithQuorum [7, 8] = [7, 8] := by
  refine ⟨by decide +kernel, by decide +kernel, by decide +kernel, by decide +kernel, by decide +kernel⟩

/-! ### completeness of the candidate set, CONVERGE adoption -/

/-- **Completeness of the candidates.** In every validated run, whenever the instance is in CONVERGE, PREPARE or
COMMIT (of any round), every non-empty prefix of the proposal formed from the QUALITY votes tallied so far — late
votes included — is a candidate; and every non-empty prefix of the value of the round-0 PREPARE (the proposal formed
when QUALITY ended) is a candidate from then on, in every phase. (Soundness is `CandOK`.) -/
theorem candidates_complete (cfg : Cfg) (t : Table) (input : Chain) (W : Votes) (now0 : Int) (ops : List Op)
    (hin : input ≠ []) (hT : 0 < t.total)
    (hstart : ∀ op ∈ ops, op.isStart = false)
    (hvalid : ∀ op ∈ ops, foreignOp op = true ∨ OpValidG W t op) :
    ((run (init cfg t input) (.start now0 :: ops)).1.phase = .converge ∨
      (run (init cfg t input) (.start now0 :: ops)).1.phase = .prepare ∨
      (run (init cfg t input) (.start now0 :: ops)).1.phase = .commit →
      ∀ x, x ≠ [] → x <+: (run (init cfg t input) (.start now0 :: ops)).1.quality.longestPrefixWithQuorum input →
        (run (init cfg t input) (.start now0 :: ops)).1.isCandidate x = true) ∧
    (∀ r v tk, Eff.broadcast r .prepare v tk none ∈ (run (init cfg t input) (.start now0 :: ops)).2 →
      ∀ x, x ≠ [] → x <+: v → (run (init cfg t input) (.start now0 :: ops)).1.isCandidate x = true) := by
  obtain ⟨hc, hp, _, _⟩ := run_cci cfg t input W now0 ops hin hT hstart hvalid
  have hinp : (run (init cfg t input) (.start now0 :: ops)).1.input = input := by
    rw [run_eq_runFrom, runFrom_input']; rfl
  constructor
  · intro hph x hne hx
    have hmid : (run (init cfg t input) (.start now0 :: ops)).1.phase.mid = true := by
      rcases hph with h | h | h <;> rw [h] <;> rfl
    have := hc.complete hmid
    unfold LP at this
    rw [hinp] at this
    simpa [State.isCandidate] using mem_of_prefix_all this hx hne
  · intro r v tk hm x hne hx
    simpa [State.isCandidate] using mem_of_prefix_all (hp r v tk hm) hx hne

/-- **The restriction to CONVERGE / PREPARE / COMMIT is needed** ("once the phase is ≥ PREPARE of round 0" is false
as it stands): a DECIDE message (or a strong COMMIT quorum) takes an instance from QUALITY straight to DECIDE
(`skipToDecide` / `beginDecide`) without concluding QUALITY, so the candidates are not completed. Validated run
`cxOps` of member 4 (input `[7,8,9]`): in DECIDE the QUALITY proposal is `[7,8]`, which is not a candidate. Harmless:
candidates are read by `tryConverge` only, and DECIDE is never left for CONVERGE. -/
example :
    let s := (run (init r2Cfg r2Tbl [7, 8, 9]) (.start 0 :: cxOps)).1
    (∀ op ∈ cxOps, op.isStart = false) ∧ (∀ op ∈ cxOps, foreignOp op = true ∨ OpValidG (WofL cxVotes) r2Tbl op) ∧
    s.phase = .decide ∧ s.quality.longestPrefixWithQuorum [7, 8, 9] = [7, 8] ∧ s.isCandidate [7, 8] = false ∧
    s.candidates = [[7]] :=
  ⟨cx_noRestart, cx_valid, by decide +kernel, by decide +kernel, by decide +kernel, by decide +kernel⟩

/-- **The best ticket is adopted whenever its value is a prefix of the proposal formed from QUALITY.** In every
validated run that has reached CONVERGE: when the timeout has elapsed at the alarm, the value of the best ticket
*overall* (`findBest` with the trivial filter: first lowest rank among all CONVERGE values of the round, the own one
included) is PREPAREd, with its justification, provided it is a prefix of the proposal formed from the QUALITY votes
tallied so far, or of the value of the round-0 PREPARE. (`converge_adopts_best_valid` says the adopted value is the
best among the *admissible* ones; this is the half that needed completeness of the candidates.) -/
theorem converge_adopts_best_ticket (cfg : Cfg) (t : Table) (input : Chain) (W : Votes) (now0 : Int) (ops : List Op)
    (hin : input ≠ []) (hT : 0 < t.total)
    (hstart : ∀ op ∈ ops, op.isStart = false)
    (hvalid : ∀ op ∈ ops, foreignOp op = true ∨ OpValidG W t op) (now : Int) (b : ConvVal)
    (hph : (run (init cfg t input) (.start now0 :: ops)).1.phase = .converge)
    (hto : (run (init cfg t input) (.start now0 :: ops)).1.phaseTimeoutElapsed now = true)
    (hb : ((run (init cfg t input) (.start now0 :: ops)).1.getRound
      (run (init cfg t input) (.start now0 :: ops)).1.round).converged.findBest (fun _ => true) = some b)
    (hpre : b.chain <+: (run (init cfg t input) (.start now0 :: ops)).1.quality.longestPrefixWithQuorum input ∨
      ∃ r v tk, Eff.broadcast r .prepare v tk none ∈ (run (init cfg t input) (.start now0 :: ops)).2 ∧ b.chain <+: v) :
    Eff.broadcast (run (init cfg t input) (.start now0 :: ops)).1.round .prepare b.chain false (some b.just) ∈
      (step (run (init cfg t input) (.start now0 :: ops)).1 (.alarm now)).2 := by
  obtain ⟨h1, h2⟩ := candidates_complete cfg t input W now0 ops hin hT hstart hvalid
  obtain ⟨_, _, hnfi, _⟩ := run_cci cfg t input W now0 ops hin hT hstart hvalid
  have hne : b.chain ≠ [] :=
    ((getRound_ok hnfi.1.core.rounds _).conv b (findBest_mem _ _ _ hb).1).1
  have hcand : (run (init cfg t input) (.start now0 :: ops)).1.isCandidate b.chain = true := by
    rcases hpre with h | ⟨r, v, tk, hm, h⟩
    · exact h1 (Or.inl hph) _ hne h
    · exact h2 r v tk hm _ hne h
  have := tryConverge_adopts _ now b hph hto hb hne hcand
  simpa [step, State.tryCurrentPhase, hph] using this

/-- Non-vacuity on `r2Ops`: before the alarm at 400 member 1 is in CONVERGE of round 1 with the timeout elapsed; the
best ticket overall is member 3's `[7]` (rank 1), a proper prefix of the QUALITY proposal `[7,8]`; every non-empty
prefix of `[7,8]` is a candidate; and the alarm PREPAREs `[7]` with the ticket's justification. -/
example :
    let s := (run (init r2Cfg r2Tbl [7, 8]) (.start 0 :: r2Ops.take 16)).1
    s.phase = .converge ∧ s.round = 1 ∧ s.phaseTimeoutElapsed 400 = true ∧
    ((s.getRound s.round).converged.findBest (fun _ => true)).map (fun b => (b.chain, b.rank, b.just)) =
      some ([7], some 1, jB) ∧
    s.quality.longestPrefixWithQuorum [7, 8] = [7, 8] ∧ s.isCandidate [7] = true ∧ s.isCandidate [7, 8] = true ∧
    Eff.broadcast 1 .prepare [7] false (some jB) ∈ (step s (.alarm 400)).2 := by
  refine ⟨by decide +kernel, by decide +kernel, by decide +kernel, by decide +kernel, by decide +kernel,
    by decide +kernel, by decide +kernel, by decide +kernel⟩

/-- …and the hypotheses of `candidates_complete` / `converge_adopts_best_ticket` hold of that prefix of the run -/
example : (∀ op ∈ r2Ops.take 16, op.isStart = false) ∧
    (∀ op ∈ r2Ops.take 16, foreignOp op = true ∨ OpValidG r2W r2Tbl op) :=
  ⟨fun op hop => r2_noRestart op (List.mem_of_mem_take hop), fun op hop => r2_valid op (List.mem_of_mem_take hop)⟩

end RunLevel

/-! ## Run level, at the participant API and across consecutive instances

The theorems of §RunLevel are about `run (init …) (Start :: ops)`: one `Start`, then `Receive` / `ReceiveAlarm` calls on
the *instance*. The implementation is driven through `gpbft.Participant` (`participant.go`): a message of the current
instance that arrives before the instance has begun is queued (`messageQueue.Add`: at most one message per sender, round
and phase; spammable messages beyond the look-ahead are not queued — `instance_queue_rule`), and the alarm that begins the
instance hands the queue to `instance.ReceiveMany`, sorted by (round, phase), senders in Go map order. `ReceiveMany` is not
a sequence of `Receive` calls: late-binding rejects are dropped silently and the round skip is tried once, after all
messages (highest round first). Models: `pstepWith order` / `prun order` (one instance, any drain order `order`),
`mpstep` / `mprun` (consecutive instances, each begun with the power table, proposal and drain order the host supplies).

Proofs in `F3.Proofs.EmittedValid{Participant,Multi,ParticipantEx}` (core-only). Hypotheses as in
`no_internal_error_or_panic_participant`: every delivered message is of this instance and validated w.r.t. the set `W` of
existing votes unless its supplemental data differ (`PMsgOK W t`); for `mprun`, per instance `k`: the messages *addressed
to `k`* are `PMsgOK W_k tbl_k` (`MPOpK k`) — every instance has its own power table, proposal and evidence set, and
nothing is assumed about messages of other instances. No failure hypothesis, any interleaving of early deliveries, the
beginning alarm, later deliveries and alarms, any drain order.

**What the model's justification does and does not carry.** `Just` is `(round, phase, value, signers)`; a Go
`Justification` also carries `Vote.Instance`, `Vote.SupplementalData` and the aggregate signature. Covered: the
phase-specific demands of `validator.go` on round, phase, value and signers of an attached justification (`Shape`,
`JustOk`: strictly increasing signer indices with positive power, strong quorum, every signer cast that vote in `W`);
the instance is covered *through the evidence set*: `emitted_valid_multi` is per instance, w.r.t. the votes `W_k` in
existence in instance `k`, so a justification emitted in instance `k` is backed by votes of instance `k`. Not covered —
the model has no field for it, and it is deliberately not changed here: `validateJustification`'s two equality checks
`msg.Vote.Instance == Justification.Vote.Instance` and `msg.Vote.SupplementalData.Eq(Justification.Vote.SupplementalData)`
for the *emitted* message (in Go: `buildJustification` fills both from `i.current.ID` / `i.supplementalData`, and a
forwarded justification came with a validated message of this instance, whose own two fields were compared with the
instance's by `Receive` — the model's `instOk` / `suppOk` flags are about the message, not about its justification);
and everything about signatures beyond the symbolic reading "`W p r ph v` = a validly signed vote exists" (aggregate
verification, the payload actually signed, which includes instance and supplemental data). -/
section RunLevelParticipant
open F3.EmittedValid

/-- **Every message the participant emits is valid — participant API.** For every configuration, power table with
positive total, non-empty input, drain order and every sequence of `ReceiveMessage` / `ReceiveAlarm` calls over messages
of this instance, validated w.r.t. `W` unless their supplemental data differ: if `W` contains the participant's own
broadcasts and the participant has positive power, every broadcast request of the run — those made while the pre-start
queue is drained included — is accepted by the validator model w.r.t. the same `W`. -/
theorem emitted_valid_participant (cfg : Cfg) (t : Table) (input : Chain) (W : Votes) (p : Pid) (order : List Pid)
    (ops : List POp) (hin : input ≠ []) (hT : 0 < t.total) (hpos : 0 < t.power p)
    (hvalid : ∀ op ∈ ops, POpP (PMsgOK W t) op)
    (hown : ∀ r ph v tk j, Eff.broadcast r ph v tk j ∈ (prun order (pinit cfg t input) ops).2 → W p r ph v) :
    ∀ r ph v tk j, Eff.broadcast r ph v tk j ∈ (prun order (pinit cfg t input) ops).2 →
      MsgValid W t (msgOf p r ph v j) :=
  emitted_valid_prun cfg t input W p order ops hin hT hpos hvalid hown

/-- the phase-specific part, without the power hypothesis -/
theorem emitted_shapes_participant (cfg : Cfg) (t : Table) (input : Chain) (W : Votes) (p : Pid) (order : List Pid)
    (ops : List POp) (hin : input ≠ []) (hT : 0 < t.total) (hvalid : ∀ op ∈ ops, POpP (PMsgOK W t) op)
    (hown : ∀ r ph v tk j, Eff.broadcast r ph v tk j ∈ (prun order (pinit cfg t input) ops).2 → W p r ph v) :
    ∀ r ph v tk j, Eff.broadcast r ph v tk j ∈ (prun order (pinit cfg t input) ops).2 → Shape W t r ph v j :=
  prun_shaped cfg t input W p order ops hin hT hvalid hown

/-- **… and in every instance of a multi-instance run.** In a run of the multi-instance participant from its initial
state in which `StartInstanceAt` only skips ahead (`forwardOnly`), let instance `k` have been begun with power table
`tbl`, proposal `input` (and drain order `order`), let the messages addressed to instance `k` be validated w.r.t. the set
`W` of votes existing *in instance `k`*, and let `W` contain the participant's own broadcasts of instance `k`: every
broadcast request tagged `k` is accepted by the validator model w.r.t. `tbl` and `W`. -/
theorem emitted_valid_multi (cfg : Cfg) (c0 : Nat) (ops : List MPOp) (k : Nat) (tbl : Table) (input : Chain)
    (order : List Pid) (W : Votes) (p : Pid) (hfw : forwardOnly (minit cfg c0) ops = true)
    (hbeg : begunWith cfg c0 k ops = some (tbl, input, order)) (hin : input ≠ []) (hT : 0 < tbl.total)
    (hpos : 0 < tbl.power p) (hvalid : ∀ op ∈ ops, MPOpK k (PMsgOK W tbl) op)
    (hown : ∀ r ph v tk j, (k, Eff.broadcast r ph v tk j) ∈ (mprun (minit cfg c0) ops).2 → W p r ph v) :
    ∀ r ph v tk j, (k, Eff.broadcast r ph v tk j) ∈ (mprun (minit cfg c0) ops).2 →
      MsgValid W tbl (msgOf p r ph v j) :=
  emitted_valid_mprun cfg c0 ops k tbl input order W p hfw hbeg hin hT hpos hvalid hown

/-- Non-vacuity (`F3.Proofs.EmittedValidParticipantEx`): `p2Ops` is the two-round run of §RunLevel driven through the
participant API — six early messages, two of them refused by the queue, the instance begun by the alarm at 0 and the
queue drained in the order 3, 1, 2, 4; it meets every hypothesis, and its seven broadcasts are accepted. -/
example :
    MsgValid p2W r2Tbl (msgOf 1 0 .quality [7, 8] none) ∧ MsgValid p2W r2Tbl (msgOf 1 0 .prepare [7, 8] none) ∧
    MsgValid p2W r2Tbl (msgOf 1 0 .commit [] none) ∧ MsgValid p2W r2Tbl (msgOf 1 1 .converge [7, 8] (some jB)) ∧
    MsgValid p2W r2Tbl (msgOf 1 1 .prepare [7] (some jB)) ∧ MsgValid p2W r2Tbl (msgOf 1 1 .commit [7] (some jP)) ∧
    MsgValid p2W r2Tbl (msgOf 1 0 .decide [7] (some jC)) := by
  have h := emitted_valid_participant r2Cfg r2Tbl [7, 8] p2W 1 p2Order p2Ops (by decide) (by decide) (by decide)
    p2_valid p2_own
  have key : ∀ x ∈ bcList p2Run.2, MsgValid p2W r2Tbl (msgOf 1 x.1 x.2.1 x.2.2.1 x.2.2.2) := by
    intro x hx
    simp only [bcList, List.mem_filterMap] at hx
    obtain ⟨e, he, hex⟩ := hx
    cases e <;> simp at hex
    subst hex
    exact h _ _ _ _ _ he
  rw [p2_broadcasts] at key
  exact ⟨key (0, .quality, [7, 8], none) (by simp), key (0, .prepare, [7, 8], none) (by simp),
    key (0, .commit, [], none) (by simp), key (1, .converge, [7, 8], some jB) (by simp),
    key (1, .prepare, [7], some jB) (by simp), key (1, .commit, [7], some jP) (by simp),
    key (0, .decide, [7], some jC) (by simp)⟩

/-- Non-vacuity of `emitted_valid_multi`: both instances of the two-instance run `exMOps` (member 1; instance 1's first
two QUALITY votes were queued while instance 0 was running resp. before instance 1 began) meet the hypotheses, each with
its own evidence set; e.g. the COMMIT of instance 0 and the DECIDE of instance 1 are accepted, each w.r.t. the votes of
its own instance. -/
example : MsgValid (WofL mx0Votes) mxTbl (msgOf 1 0 .commit [7, 8] (some mxJp)) ∧
    MsgValid (WofL mx1Votes) mxTbl (msgOf 1 0 .decide [8, 5] (some mxJc1)) := by
  have h0 := emitted_valid_multi mxCfg 0 exMOps 0 mxTbl [7, 8] mxOrder (WofL mx0Votes) 1 ex_forward.2.2
    ex_opsOf.2.2.1 (by decide) (by decide) (by decide) mx_valid0 mx_own0
  have h1 := emitted_valid_multi mxCfg 0 exMOps 1 mxTbl [8, 5] [1, 4, 2] (WofL mx1Votes) 1 ex_forward.2.2
    ex_opsOf.2.2.2.1 (by decide) (by decide) (by decide) mx_valid1 mx_own1
  have m0 : Eff.broadcast 0 .commit [7, 8] false (some mxJp) ∈ effsOf 0 (mprun (minit mxCfg) exMOps).2 := by
    decide +kernel
  have m1 : Eff.broadcast 0 .decide [8, 5] false (some mxJc1) ∈ effsOf 1 (mprun (minit mxCfg) exMOps).2 := by
    decide +kernel
  exact ⟨h0 _ _ _ _ _ ((mem_effsOf 0 _ _).1 m0), h1 _ _ _ _ _ ((mem_effsOf 1 _ _).1 m1)⟩

/-! ### rebroadcast requests

`Eff.rebroadcast r ph` is `host.RequestRebroadcast(Instant{id, r, ph})` (`tryRebroadcast`): a *request* that the host
re-publish the participant's own message of that instance, round and phase, if it has one (`host.go`:
`selfMessages[instance][round][phase]`; `F3.Equiv.step (.rebroadcast i r p)`; the network model `F3.Instance.sent`
ignores the requests since they add nothing to the pool). `wireOf p es` expands the requests of `es` against the
broadcasts requested earlier in `es`. -/

/-- **Whatever a rebroadcast request re-sends was broadcast before** — so everything the participant puts on the wire,
re-sent messages included, is `msgOf` of a broadcast effect of the run; and (with `emit_once`) a request re-sends at
most one message. -/
theorem rebroadcast_resends_own_broadcasts (p : Pid) (a b : List Eff) (r : Nat) (ph : Phase) :
    (∀ m ∈ resent p a r ph, ∃ v tk j, Eff.broadcast r ph v tk j ∈ a ∧ m = msgOf p r ph v j ∧
      m ∈ wireOf p (a ++ Eff.rebroadcast r ph :: b)) ∧
    (∀ m ∈ wireOf p (a ++ Eff.rebroadcast r ph :: b), ∃ r' ph' v tk j,
      Eff.broadcast r' ph' v tk j ∈ a ++ Eff.rebroadcast r ph :: b ∧ m = msgOf p r' ph' v j) ∧
    ((a.filterMap slotOf).Nodup → (resent p a r ph).length ≤ 1) :=
  ⟨fun _ hm => rebroadcast_resends_earlier hm, fun _ hm => mem_wireOf hm,
   fun hnd => resent_length_le_one slotOf (fun r ph => (r, ph)) (fun _ _ _ _ _ => rfl) p a hnd r ph⟩

/-- **Everything on the wire is valid, re-sent messages included** — participant API. -/
theorem wire_valid_participant (cfg : Cfg) (t : Table) (input : Chain) (W : Votes) (p : Pid) (order : List Pid)
    (ops : List POp) (hin : input ≠ []) (hT : 0 < t.total) (hpos : 0 < t.power p)
    (hvalid : ∀ op ∈ ops, POpP (PMsgOK W t) op)
    (hown : ∀ r ph v tk j, Eff.broadcast r ph v tk j ∈ (prun order (pinit cfg t input) ops).2 → W p r ph v) :
    ∀ m ∈ wireOf p (prun order (pinit cfg t input) ops).2, MsgValid W t m := by
  intro m hm
  obtain ⟨r, ph, v, tk, j, he, rfl⟩ := mem_wireOf hm
  exact emitted_valid_participant cfg t input W p order ops hin hT hpos hvalid hown r ph v tk j he

/-- … and per instance of a multi-instance run (requests of instance `k` expanded against the broadcasts of `k`). -/
theorem wire_valid_multi (cfg : Cfg) (c0 : Nat) (ops : List MPOp) (k : Nat) (tbl : Table) (input : Chain)
    (order : List Pid) (W : Votes) (p : Pid) (hfw : forwardOnly (minit cfg c0) ops = true)
    (hbeg : begunWith cfg c0 k ops = some (tbl, input, order)) (hin : input ≠ []) (hT : 0 < tbl.total)
    (hpos : 0 < tbl.power p) (hvalid : ∀ op ∈ ops, MPOpK k (PMsgOK W tbl) op)
    (hown : ∀ r ph v tk j, (k, Eff.broadcast r ph v tk j) ∈ (mprun (minit cfg c0) ops).2 → W p r ph v) :
    ∀ m ∈ wireOf p (effsOf k (mprun (minit cfg c0) ops).2), MsgValid W tbl m :=
  wire_valid_mprun cfg c0 ops k tbl input order W p hfw hbeg hin hT hpos hvalid hown

/-- Non-vacuity: `rbOps` (three QUALITY votes queued, begun at 0, alarms at 200 and 300) requests the rebroadcast of
QUALITY, COMMIT, PREPARE and CONVERGE of round 0; QUALITY and PREPARE are re-sent, nothing else; all four messages on
the wire are accepted. -/
example :
    wireOf 1 (prun [] (pinit r2Cfg r2Tbl [7, 8]) rbOps).2 =
      [msgOf 1 0 .quality [7, 8] none, msgOf 1 0 .prepare [7, 8] none,
       msgOf 1 0 .quality [7, 8] none, msgOf 1 0 .prepare [7, 8] none] ∧
    ∀ m ∈ wireOf 1 (prun [] (pinit r2Cfg r2Tbl [7, 8]) rbOps).2, MsgValid r2W r2Tbl m :=
  ⟨rb_wire.2, wire_valid_participant r2Cfg r2Tbl [7, 8] r2W 1 [] rbOps (by decide) (by decide) (by decide)
    rb_valid rb_own⟩

/-! ### the round-0 PREPARE value

`pvotesQ order p ops` are the QUALITY votes the participant run hands to the instance *while it is in QUALITY*, in the
order in which the instance sees them (`quality_votes_counted` below). -/

/-- **Round-0 PREPARE at the participant API.** In every validated participant run a PREPARE without justification is
for round 0, the instance has begun and left QUALITY, and the value is the longest prefix of the input with a strong
quorum (`longestPrefixWithQuorum`, tight by `longest_prefix_characterised`; `qTally` read by `qTally_hasStrongFor` /
`quality_tally_meaning`: first vote of every sender) among the QUALITY votes counted in the run. -/
theorem prepare0_participant (cfg : Cfg) (t : Table) (input : Chain) (W : Votes) (order : List Pid)
    (ops : List POp) (hin : input ≠ []) (hT : 0 < t.total) (hvalid : ∀ op ∈ ops, POpP (PMsgOK W t) op)
    (r : Nat) (v : Chain) (tk : Bool)
    (hm : Eff.broadcast r .prepare v tk none ∈ (prun order (pinit cfg t input) ops).2) :
    r = 0 ∧ (prun order (pinit cfg t input) ops).1.started = true ∧
      (prun order (pinit cfg t input) ops).1.inst.phase ≠ .quality ∧
      v = (qTally t (pvotesQ order (pinit cfg t input) ops)).longestPrefixWithQuorum input :=
  prepare0_prun cfg t input W order ops hin hT hvalid r v tk hm

/-- **Which QUALITY votes count.**
1. Call by call (`pvotesQ` concatenates `ptalliedQ`): a delivery before the instance has begun counts nothing (it is
   only queued: `prun_waiting`, the queue is `preQueue` = `messageQueue.Add` folded over the early deliveries, so a second
   message of a sender for the same round and phase and a spammable message beyond the look-ahead never reach the
   instance); the alarm that begins the instance counts `drainVotes` of `drainWith order queue` — the queued QUALITY
   messages that pass the door checks of `receiveOne`, in drain order, as long as the instance is still in QUALITY when
   their turn comes (a vote that ends QUALITY is counted, the ones after it are not); a later delivery counts iff it is a
   QUALITY message passing the door checks while the instance is in QUALITY; later alarms count nothing.
2. Every counted vote is the vote of a QUALITY message that was delivered (early or late).
3. While the instance is in QUALITY its tally is `qTally` of exactly the counted votes, and no justification-free
   PREPARE has been broadcast.
4. Whatever follows a point at which the instance has begun and is no longer in QUALITY counts nothing. -/
theorem quality_votes_counted (cfg : Cfg) (t : Table) (input : Chain) (W : Votes) (order : List Pid)
    (hin : input ≠ []) (hT : 0 < t.total) :
    (∀ (p : PState) (op : POp) (ops : List POp),
      pvotesQ order p (op :: ops) = ptalliedQ order p op ++ pvotesQ order (pstepWith order p op).1 ops) ∧
    (∀ (p : PState) (now : Int) (m : Msg), p.started = false → ptalliedQ order p (.recv now m) = []) ∧
    (∀ (p : PState) (now : Int), p.started = false → hasFailure (p.inst.beginQuality now).2 = false →
      ptalliedQ order p (.alarm now) = drainVotes now (p.inst.beginQuality now).1 (drainWith order p.queue)) ∧
    (∀ (p : PState) (now : Int) (m : Msg), p.started = true →
      ptalliedQ order p (.recv now m) =
        if p.inst.phase = .quality ∧ p.inst.recvPre m = .accept ∧ m.phase = .quality then [(m.sender, m.value)] else []) ∧
    (∀ (p : PState) (now : Int), p.started = true → ptalliedQ order p (.alarm now) = []) ∧
    (∀ (now : Int) (st : State) (m : Msg) (ms : List Msg),
      drainVotes now st (m :: ms) =
        if isLateBinding (st.receiveOne now m).1.2 then drainVotes now st ms
        else if hasFailure (st.receiveOne now m).1.2 then talliedQ st m
        else talliedQ st m ++ drainVotes now (st.receiveOne now m).1.1 ms) ∧
    (∀ (ops : List POp), ∀ v ∈ pvotesQ order (pinit cfg t input) ops,
      ∃ now m, POp.recv now m ∈ ops ∧ m.phase = .quality ∧ v = (m.sender, m.value)) ∧
    (∀ (ops : List POp), (∀ op ∈ ops, POpP (PMsgOK W t) op) →
      (prun order (pinit cfg t input) ops).1.inst.phase = .quality →
      (prun order (pinit cfg t input) ops).1.inst.quality = qTally t (pvotesQ order (pinit cfg t input) ops) ∧
      ∀ r v tk, Eff.broadcast r .prepare v tk none ∉ (prun order (pinit cfg t input) ops).2) ∧
    (∀ (ops1 ops2 : List POp), (∀ op ∈ ops1 ++ ops2, POpP (PMsgOK W t) op) →
      (prun order (pinit cfg t input) ops1).1.started = true →
      (prun order (pinit cfg t input) ops1).1.inst.phase ≠ .quality →
      pvotesQ order (pinit cfg t input) (ops1 ++ ops2) = pvotesQ order (pinit cfg t input) ops1) := by
  refine ⟨fun _ _ _ => rfl, fun p now m hs => by simp [ptalliedQ, hs], fun p now hs hf => by simp [ptalliedQ, hs, hf],
    fun p now m hs => ?_, fun p now hs => by simp [ptalliedQ, hs, POp.toOp, tallied],
    fun _ _ _ _ => rfl, fun ops v hv => ?_,
    fun ops hv hq => quality_phase_prun cfg t input W order ops hin hT hv hq,
    fun ops1 ops2 hv hs hnq => pvotesQ_after_quality cfg t input W order ops1 ops2 hin hT hv hs hnq⟩
  · simp only [ptalliedQ, hs, if_true, POp.toOp, tallied_toList, talliedL]
    by_cases hq : p.inst.phase = .quality <;> simp [hq]
  · obtain ⟨m, hm, h1, h2⟩ := pvotesQ_sound order _ ops v hv
    rcases hm with hm | ⟨now, hm⟩
    · simp [pinit] at hm
    · exact ⟨now, m, hm, h1, h2⟩

/-- **Queued votes count from the drain on, in drain order; what the queue refused does not count.** For a participant
run `pre ++ alarm :: rest` whose calls before the beginning alarm are the deliveries `pre`: the counted votes are
`drainVotes` over the drain (`drainWith order`, any map order) of the queue `preQueue look pre` — `messageQueue.Add`
(`instance_queue_rule`) folded over `pre` — followed by the votes counted afterwards; and every vote counted by the drain
is the vote of a QUALITY message *in that queue*: a second message of a sender for the same round and phase and a
spammable message beyond the look-ahead are not in it. -/
theorem counted_votes_from_queue (cfg : Cfg) (t : Table) (input : Chain) (order : List Pid) (pre rest : List POp)
    (now : Int) (hr : ∀ op ∈ pre, op.isRecv = true) :
    pvotesQ order (pinit cfg t input) (pre ++ .alarm now :: rest) =
      drainVotes now ((init cfg t input).beginQuality now).1 (drainWith order (preQueue cfg.maxLookahead pre)) ++
        pvotesQ order (prun order (pinit cfg t input) (pre ++ [.alarm now])).1 rest ∧
    (∀ v ∈ drainVotes now ((init cfg t input).beginQuality now).1 (drainWith order (preQueue cfg.maxLookahead pre)),
      ∃ m ∈ preQueue cfg.maxLookahead pre, m.phase = .quality ∧ v = (m.sender, m.value)) ∧
    (prun order (pinit cfg t input) pre).1.queue = preQueue cfg.maxLookahead pre := by
  refine ⟨(pvotesQ_begin cfg t input order pre rest now hr).1, (pvotesQ_begin cfg t input order pre rest now hr).2, ?_⟩
  rw [prun_waiting order cfg t input pre hr]

/-- **The call that broadcasts the round-0 PREPARE** (`prepare0_run`'s localisation): it is the beginning alarm — the
PREPARE is then broadcast while the queue is drained — or a call that finds the instance in QUALITY; after that call the
instance has begun and left QUALITY, and the votes counted in the whole run are those counted up to and including it. -/
theorem prepare0_origin_participant (cfg : Cfg) (t : Table) (input : Chain) (W : Votes) (order : List Pid)
    (ops : List POp) (hin : input ≠ []) (hT : 0 < t.total) (hvalid : ∀ op ∈ ops, POpP (PMsgOK W t) op)
    (r : Nat) (v : Chain) (tk : Bool)
    (hm : Eff.broadcast r .prepare v tk none ∈ (prun order (pinit cfg t input) ops).2) :
    ∃ ops1 op ops2, ops = ops1 ++ op :: ops2 ∧
      Eff.broadcast r .prepare v tk none ∈ (pstepWith order (prun order (pinit cfg t input) ops1).1 op).2 ∧
      ((prun order (pinit cfg t input) ops1).1.started = false ∨
        (prun order (pinit cfg t input) ops1).1.inst.phase = .quality) ∧
      (prun order (pinit cfg t input) (ops1 ++ [op])).1.started = true ∧
      (prun order (pinit cfg t input) (ops1 ++ [op])).1.inst.phase ≠ .quality ∧
      pvotesQ order (pinit cfg t input) ops = pvotesQ order (pinit cfg t input) (ops1 ++ [op]) :=
  prepare0_origin_prun cfg t input W order ops hin hT hvalid r v tk hm

/-- … per instance of a multi-instance run: over the QUALITY votes counted by instance `k`, among the calls that concern
`k` (`opsOf`: the deliveries addressed to `k` while `k` had not finished — queued while `k` was a future instance or the
current one not yet begun — and the alarms while `k` was current). -/
theorem prepare0_multi (cfg : Cfg) (c0 : Nat) (ops : List MPOp) (k : Nat) (tbl : Table) (input : Chain)
    (order : List Pid) (W : Votes) (hfw : forwardOnly (minit cfg c0) ops = true)
    (hbeg : begunWith cfg c0 k ops = some (tbl, input, order)) (hin : input ≠ []) (hT : 0 < tbl.total)
    (hvalid : ∀ op ∈ ops, MPOpK k (PMsgOK W tbl) op) (r : Nat) (v : Chain) (tk : Bool)
    (hm : (k, Eff.broadcast r .prepare v tk none) ∈ (mprun (minit cfg c0) ops).2) :
    r = 0 ∧ v = (qTally tbl (pvotesQ order (pinit cfg tbl input) (opsOf cfg c0 k ops))).longestPrefixWithQuorum input :=
  prepare0_mprun cfg c0 ops k tbl input order W hfw hbeg hin hT hvalid r v tk hm

/-- Non-vacuity on `p2Ops`: of the six early messages four are queued (member 2's second QUALITY vote and the round-3
COMMIT are not); the drain order is 3, 1, 2, 4; the counted votes are those of 3, 1 and 2 — already after the beginning
alarm (7 calls), during which PREPARE `[7,8]` is broadcast; member 4's vote is tallied (late) but not counted. And on
`exMOps`: the counted votes of the two instances. -/
example :
    ((prun p2Order (pinit r2Cfg r2Tbl [7, 8]) (p2Ops.take 6)).1.queue.map (fun m => (m.sender, m.round, m.phase, m.value)) =
      [(1, 0, .quality, [7, 8]), (2, 0, .quality, [7, 8]), (3, 0, .quality, [7, 8]), (4, 0, .quality, [7, 9])]) ∧
    (drainWith p2Order (prun p2Order (pinit r2Cfg r2Tbl [7, 8]) (p2Ops.take 6)).1.queue).map (·.sender) = [3, 1, 2, 4] ∧
    pvotesQ p2Order (pinit r2Cfg r2Tbl [7, 8]) p2Ops = [(3, [7, 8]), (1, [7, 8]), (2, [7, 8])] ∧
    pvotesQ p2Order (pinit r2Cfg r2Tbl [7, 8]) (p2Ops.take 7) = [(3, [7, 8]), (1, [7, 8]), (2, [7, 8])] ∧
    p2Run.1.inst.quality.senders = [3, 1, 2, 4] ∧
    Eff.broadcast 0 .prepare [7, 8] false none ∈ (prun p2Order (pinit r2Cfg r2Tbl [7, 8]) (p2Ops.take 7)).2 ∧
    (qTally r2Tbl [(3, [7, 8]), (1, [7, 8]), (2, [7, 8])]).longestPrefixWithQuorum [7, 8] = [7, 8] ∧
    pvotesQ mxOrder (pinit mxCfg mxTbl [7, 8]) (opsOf mxCfg 0 0 exMOps) = [(2, [7, 8]), (1, [7, 8]), (3, [7, 8])] ∧
    pvotesQ [1, 4, 2] (pinit mxCfg mxTbl [8, 5]) (opsOf mxCfg 0 1 exMOps) = [(1, [8, 5]), (2, [8, 5]), (3, [8, 5])] :=
  ⟨p2_quality.1, p2_quality.2.1, p2_quality.2.2.1, p2_quality.2.2.2.1, p2_quality.2.2.2.2.1, p2_quality.2.2.2.2.2.1,
   p2_quality.2.2.2.2.2.2, mx_quality.1, mx_quality.2⟩

/-! ### completeness of the candidate set, CONVERGE adoption -/

/-- **Completeness of the candidates — participant API**: `candidates_complete` for the instance inside the
participant, whatever was queued and drained. -/
theorem candidates_complete_participant (cfg : Cfg) (t : Table) (input : Chain) (W : Votes) (order : List Pid)
    (ops : List POp) (hin : input ≠ []) (hT : 0 < t.total) (hvalid : ∀ op ∈ ops, POpP (PMsgOK W t) op) :
    ((prun order (pinit cfg t input) ops).1.inst.phase = .converge ∨
      (prun order (pinit cfg t input) ops).1.inst.phase = .prepare ∨
      (prun order (pinit cfg t input) ops).1.inst.phase = .commit →
      ∀ x, x ≠ [] → x <+: (prun order (pinit cfg t input) ops).1.inst.quality.longestPrefixWithQuorum input →
        (prun order (pinit cfg t input) ops).1.inst.isCandidate x = true) ∧
    (∀ r v tk, Eff.broadcast r .prepare v tk none ∈ (prun order (pinit cfg t input) ops).2 →
      ∀ x, x ≠ [] → x <+: v → (prun order (pinit cfg t input) ops).1.inst.isCandidate x = true) :=
  candidates_complete_prun cfg t input W order ops hin hT hvalid

/-- … for the running instance of a multi-instance run, while instance `k` is current. -/
theorem candidates_complete_multi (cfg : Cfg) (c0 : Nat) (ops : List MPOp) (k : Nat) (tbl : Table) (input : Chain)
    (order : List Pid) (W : Votes) (hfw : forwardOnly (minit cfg c0) ops = true)
    (hbeg : begunWith cfg c0 k ops = some (tbl, input, order)) (hin : input ≠ []) (hT : 0 < tbl.total)
    (hvalid : ∀ op ∈ ops, MPOpK k (PMsgOK W tbl) op)
    (hcur : (mprun (minit cfg c0) ops).1.cur = k) :
    ∃ p, (mprun (minit cfg c0) ops).1.active = some p ∧
      (p.inst.phase = .converge ∨ p.inst.phase = .prepare ∨ p.inst.phase = .commit →
        ∀ x, x ≠ [] → x <+: p.inst.quality.longestPrefixWithQuorum input → p.inst.isCandidate x = true) ∧
      (∀ r v tk, (k, Eff.broadcast r .prepare v tk none) ∈ (mprun (minit cfg c0) ops).2 →
        ∀ x, x ≠ [] → x <+: v → p.inst.isCandidate x = true) :=
  candidates_complete_mprun cfg c0 ops k tbl input order W hfw hbeg hin hT hvalid hcur

/-- **The best ticket is adopted — participant API**: `converge_adopts_best_ticket` at a `ReceiveAlarm` of the
participant. -/
theorem converge_adopts_best_ticket_participant (cfg : Cfg) (t : Table) (input : Chain) (W : Votes) (order : List Pid)
    (ops : List POp) (hin : input ≠ []) (hT : 0 < t.total) (hvalid : ∀ op ∈ ops, POpP (PMsgOK W t) op)
    (now : Int) (b : ConvVal)
    (hph : (prun order (pinit cfg t input) ops).1.inst.phase = .converge)
    (hto : (prun order (pinit cfg t input) ops).1.inst.phaseTimeoutElapsed now = true)
    (hb : ((prun order (pinit cfg t input) ops).1.inst.getRound
      (prun order (pinit cfg t input) ops).1.inst.round).converged.findBest (fun _ => true) = some b)
    (hpre : b.chain <+: (prun order (pinit cfg t input) ops).1.inst.quality.longestPrefixWithQuorum input ∨
      ∃ r v tk, Eff.broadcast r .prepare v tk none ∈ (prun order (pinit cfg t input) ops).2 ∧ b.chain <+: v) :
    Eff.broadcast (prun order (pinit cfg t input) ops).1.inst.round .prepare b.chain false (some b.just) ∈
      (pstepWith order (prun order (pinit cfg t input) ops).1 (.alarm now)).2 :=
  converge_adopts_best_ticket_prun cfg t input W order ops hin hT hvalid now b hph hto hb hpre

/-- … at a `ReceiveAlarm` of the multi-instance participant while instance `k` is current (the host is not asked for a
table or a proposal then: `tbl'`, `input'`, `order'` are arbitrary). -/
theorem converge_adopts_best_ticket_multi (cfg : Cfg) (c0 : Nat) (ops : List MPOp) (k : Nat) (tbl : Table)
    (input : Chain) (order : List Pid) (W : Votes) (hfw : forwardOnly (minit cfg c0) ops = true)
    (hbeg : begunWith cfg c0 k ops = some (tbl, input, order)) (hin : input ≠ []) (hT : 0 < tbl.total)
    (hvalid : ∀ op ∈ ops, MPOpK k (PMsgOK W tbl) op)
    (hcur : (mprun (minit cfg c0) ops).1.cur = k) (p : PState)
    (hact : (mprun (minit cfg c0) ops).1.active = some p) (now : Int) (b : ConvVal)
    (hph : p.inst.phase = .converge) (hto : p.inst.phaseTimeoutElapsed now = true)
    (hb : (p.inst.getRound p.inst.round).converged.findBest (fun _ => true) = some b)
    (hpre : b.chain <+: p.inst.quality.longestPrefixWithQuorum input ∨
      ∃ r v tk, (k, Eff.broadcast r .prepare v tk none) ∈ (mprun (minit cfg c0) ops).2 ∧ b.chain <+: v)
    (tbl' : Table) (input' : Chain) (order' : List Pid) :
    Eff.broadcast p.inst.round .prepare b.chain false (some b.just) ∈
      (mpstep (mprun (minit cfg c0) ops).1 (.alarm now tbl' input' order')).2 :=
  converge_adopts_best_ticket_mprun cfg c0 ops k tbl input order W hfw hbeg hin hT hvalid hcur p hact now b hph hto hb
    hpre tbl' input' order'

/-- Non-vacuity on `p2Ops`: after 19 calls (six early deliveries, the beginning alarm, twelve deliveries) the instance
inside the participant is in CONVERGE of round 1 with the timeout elapsed at 400; the best ticket overall is member 3's
`[7]`, a proper prefix of the QUALITY proposal `[7,8]`; both prefixes are candidates; the alarm PREPAREs `[7]`. The
hypotheses hold of that prefix of the run. -/
example :
    (let p := (prun p2Order (pinit r2Cfg r2Tbl [7, 8]) (p2Ops.take 19)).1
     p.inst.phase = .converge ∧ p.inst.round = 1 ∧ p.inst.phaseTimeoutElapsed 400 = true ∧
     ((p.inst.getRound p.inst.round).converged.findBest (fun _ => true)).map (fun b => (b.chain, b.rank, b.just)) =
       some ([7], some 1, jB) ∧
     p.inst.quality.longestPrefixWithQuorum [7, 8] = [7, 8] ∧ p.inst.isCandidate [7] = true ∧
     p.inst.isCandidate [7, 8] = true ∧
     Eff.broadcast 1 .prepare [7] false (some jB) ∈ (pstepWith p2Order p (.alarm 400)).2) ∧
    (∀ op ∈ p2Ops.take 19, POpP (PMsgOK p2W r2Tbl) op) :=
  ⟨p2_converge, fun op hop => p2_valid op (List.mem_of_mem_take hop)⟩

end RunLevelParticipant

end F3.Props.C07

namespace F3.Props.C07
section Skeletons

/-- **The Go functions this property's models mirror still have the statement structure the models were written
against**: each regenerated skeleton (pre-order list of statement kinds, `tools/go2lean/skel.go`) equals the pinned
expectation of `F3/Proofs/SkelTie*.lean`. An added early return, cap, loop or dropped branch in one of these functions
breaks this obligation even when no regenerated *expression* changes. -/
theorem code_structure_as_modelled :
    F3.Gen.SkelGpbft.skelQueueAdd = F3.SkelTie.SkelGpbft.skelQueueAddExpected ∧
    F3.Gen.SkelGpbft.skelQueueDrain = F3.SkelTie.SkelGpbft.skelQueueDrainExpected ∧
    F3.Gen.SkelGpbft.skelReceiveMessage = F3.SkelTie.SkelGpbft.skelReceiveMessageExpected ∧
    F3.Gen.SkelGpbft.skelHandleDecision = F3.SkelTie.SkelGpbft.skelHandleDecisionExpected ∧
    F3.Gen.SkelGpbft.skelReceiveOne = F3.SkelTie.SkelGpbft.skelReceiveOneExpected ∧
    F3.Gen.SkelGpbft.skelPostReceive = F3.SkelTie.SkelGpbft.skelPostReceiveExpected ∧
    F3.Gen.SkelGpbft.skelTryQuality = F3.SkelTie.SkelGpbft.skelTryQualityExpected ∧
    F3.Gen.SkelGpbft.skelTryConverge = F3.SkelTie.SkelGpbft.skelTryConvergeExpected ∧
    F3.Gen.SkelGpbft.skelTryPrepare = F3.SkelTie.SkelGpbft.skelTryPrepareExpected ∧
    F3.Gen.SkelGpbft.skelTryCommit = F3.SkelTie.SkelGpbft.skelTryCommitExpected ∧
    F3.Gen.SkelGpbft.skelTryDecide = F3.SkelTie.SkelGpbft.skelTryDecideExpected ∧
    F3.Gen.SkelGpbft.skelBeginDecide = F3.SkelTie.SkelGpbft.skelBeginDecideExpected ∧
    F3.Gen.SkelGpbft.skelSkipToRound = F3.SkelTie.SkelGpbft.skelSkipToRoundExpected ∧
    F3.Gen.SkelGpbft.skelTryRebroadcast = F3.SkelTie.SkelGpbft.skelTryRebroadcastExpected ∧
    F3.Gen.SkelGpbft.skelReceiveEachPrefix = F3.SkelTie.SkelGpbft.skelReceiveEachPrefixExpected ∧
    F3.Gen.SkelGpbft.skelFindStrongQuorumFor = F3.SkelTie.SkelGpbft.skelFindStrongQuorumForExpected ∧
    F3.Gen.SkelGpbft.skelBeginInstance = F3.SkelTie.SkelGpbft.skelBeginInstanceExpected ∧
    F3.Gen.SkelGpbft.skelReceiveAlarm = F3.SkelTie.SkelGpbft.skelReceiveAlarmExpected ∧
    F3.Gen.SkelGpbft.skelHasBase = F3.SkelTie.SkelGpbft.skelHasBaseExpected ∧
    F3.Gen.SkelGpbft.skelTipSetEqual = F3.SkelTie.SkelGpbft.skelTipSetEqualExpected ∧
    F3.Gen.SkelGpbft.skelChainEq = F3.SkelTie.SkelGpbft.skelChainEqExpected ∧
    F3.Gen.SkelGpbft.skelReceiveMany = F3.SkelTie.SkelGpbft.skelReceiveManyExpected ∧
    F3.Gen.SkelGpbft.skelShouldSkipToRound = F3.SkelTie.SkelGpbft.skelShouldSkipToRoundExpected :=
  ⟨F3.SkelTie.SkelGpbft.skelQueueAdd_expected, F3.SkelTie.SkelGpbft.skelQueueDrain_expected, F3.SkelTie.SkelGpbft.skelReceiveMessage_expected, F3.SkelTie.SkelGpbft.skelHandleDecision_expected, F3.SkelTie.SkelGpbft.skelReceiveOne_expected, F3.SkelTie.SkelGpbft.skelPostReceive_expected, F3.SkelTie.SkelGpbft.skelTryQuality_expected, F3.SkelTie.SkelGpbft.skelTryConverge_expected, F3.SkelTie.SkelGpbft.skelTryPrepare_expected, F3.SkelTie.SkelGpbft.skelTryCommit_expected, F3.SkelTie.SkelGpbft.skelTryDecide_expected, F3.SkelTie.SkelGpbft.skelBeginDecide_expected, F3.SkelTie.SkelGpbft.skelSkipToRound_expected, F3.SkelTie.SkelGpbft.skelTryRebroadcast_expected, F3.SkelTie.SkelGpbft.skelReceiveEachPrefix_expected, F3.SkelTie.SkelGpbft.skelFindStrongQuorumFor_expected, F3.SkelTie.SkelGpbft.skelBeginInstance_expected, F3.SkelTie.SkelGpbft.skelReceiveAlarm_expected, F3.SkelTie.SkelGpbft.skelHasBase_expected, F3.SkelTie.SkelGpbft.skelTipSetEqual_expected, F3.SkelTie.SkelGpbft.skelChainEq_expected, F3.SkelTie.SkelGpbft.skelReceiveMany_expected, F3.SkelTie.SkelGpbft.skelShouldSkipToRound_expected⟩

end Skeletons
end F3.Props.C07
