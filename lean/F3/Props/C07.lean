import F3.Proofs.InstanceRun
import F3.Proofs.ParticipantRun
/-!
# C07 — protocol discipline of an honest participant (Layer B, on the executable model of `gpbft.go`)

All statements are about `F3.Instance.step` / `run`, the same definitions the driver executes against the
real `gpbft.Participant` on every check run. Hypotheses: the messages delivered are validated ones
(`OpOk`: DECIDE votes are for round 0), and the run reported no internal error or panic
(`hasFailure … = false`; that this holds of the implementation is observed per op by the C07 oracle).
-/
namespace F3.Props.C07
open F3.Instance

/-- the slot of a broadcast effect -/
def slotOf : Eff → Option (Nat × Phase)
  | .broadcast r ph _ _ _ => some (r, ph)
  | _ => none

/-- the progress point of a progress notification -/
def progOf : Eff → Option (Nat × Nat)
  | .progress r ph => some (r, ph.toNat)
  | _ => none

theorem evs_bc (es : List Eff) :
    (evs es).filter Ev.isBc = (es.filterMap slotOf).map (fun p => Ev.bc p.1 p.2) := by
  induction es with
  | nil => rfl
  | cons e es ih => cases e <;> simp [Ev.isBc, slotOf, ih, List.filterMap_cons, List.filter_cons]

theorem evs_prog (es : List Eff) :
    ((evs es).filter Ev.isProg).map Ev.pt = es.filterMap progOf := by
  induction es with
  | nil => rfl
  | cons e es ih => cases e <;> simp [Ev.isProg, Ev.pt, progOf, ih, List.filterMap_cons, List.filter_cons]

/-- **At most one message per instance, round and step.** For every configuration, power table, input
chain and every sequence of starts, alarms (at any times) and validated messages (any senders, any
contents, any order, duplicates included): the participant never requests two broadcasts for the same
(round, phase). -/
theorem emit_once (cfg : Cfg) (tbl : Table) (input : Chain) (ops : List Op)
    (hops : ∀ op ∈ ops, OpOk op) (hnf : hasFailure (run (init cfg tbl input) ops).2 = false) :
    ((run (init cfg tbl input) ops).2.filterMap slotOf).Nodup := by
  have h := (runFrom_wp (init cfg tbl input) ops (DQ_init cfg tbl input) hops hnf).1
  have hn := h.bc_nodup
  rw [evs_bc] at hn
  exact (List.pairwise_map.1 hn).imp (fun h heq => h (by rw [heq]))

/-- **Progress never moves backwards.** The (round, phase) points notified by the participant are strictly
increasing (round first, then phase), the first one is above `(0, INITIAL)`, and once DECIDE is reached
the round no longer changes (so TERMINATED is final). -/
theorem progress_monotone (cfg : Cfg) (tbl : Table) (input : Chain) (ops : List Op)
    (hops : ∀ op ∈ ops, OpOk op) (hnf : hasFailure (run (init cfg tbl input) ops).2 = false) :
    ((run (init cfg tbl input) ops).2.filterMap progOf).Pairwise ptLt ∧
    ptLe (0, 0) (run (init cfg tbl input) ops).1.pt := by
  have h := (runFrom_wp (init cfg tbl input) ops (DQ_init cfg tbl input) hops hnf).1
  have hs := h.prog_sorted
  rw [evs_prog] at hs
  exact ⟨hs.1, h.le⟩

/-- The state's own (round, phase) only moves forward along any such run, from any reachable state. -/
theorem state_progress_monotone (s : State) (ops : List Op) (hq : DQ s)
    (hops : ∀ op ∈ ops, OpOk op) (hnf : hasFailure (runFrom s ops).2 = false) :
    ptLe s.pt (runFrom s ops).1.pt :=
  (runFrom_wp s ops hq hops hnf).1.le

/-- Every broadcast is for the progress point entered by the same call (DECIDE being labelled round 0):
in the (progress, broadcast) skeleton each broadcast immediately follows the notification of its point. -/
theorem broadcast_follows_progress (cfg : Cfg) (tbl : Table) (input : Chain) (ops : List Op)
    (hops : ∀ op ∈ ops, OpOk op) (hnf : hasFailure (run (init cfg tbl input) ops).2 = false) :
    WP (0, 0) (evs (run (init cfg tbl input) ops).2) (run (init cfg tbl input) ops).1.pt :=
  (runFrom_wp (init cfg tbl input) ops (DQ_init cfg tbl input) hops hnf).1

/-- TERMINATED is absorbing: an alarm is a no-op and a message is refused. -/
theorem terminated_absorbing (s : State) (h : s.phase = .terminated) (now : Int) (m : Msg) :
    step s (.alarm now) = (s, []) ∧ (step s (.recv now m)).1 = s := by
  constructor
  · simp [step, State.tryCurrentPhase, h]
  · simp [step, h]

/-! ### What it votes for is determined by what it has received -/

/-- **Round-0 PREPARE value.** When QUALITY ends (quorum for the whole input, or timeout) the PREPARE
broadcast carries exactly `longestPrefixWithQuorum` of the input over the QUALITY votes delivered so far. -/
theorem addCandidate_proposal (s : State) (c : Chain) : (s.addCandidate c).1.proposal = s.proposal := by
  unfold State.addCandidate; split <;> rfl

theorem addCandidatePrefixes_proposal (s : State) (c : Chain) : (s.addCandidatePrefixes c).1.proposal = s.proposal := by
  unfold State.addCandidatePrefixes
  generalize ((List.range (c.length - 1)).reverse.map (· + 1)) = l
  suffices h : ∀ (acc : State × Bool), acc.1.proposal = s.proposal →
      (l.foldl (fun (acc : State × Bool) l =>
        let r := acc.1.addCandidate (prefixTo c l); (r.1, acc.2 || r.2)) acc).1.proposal = s.proposal from h (s, false) rfl
  induction l with
  | nil => intro acc h; simpa using h
  | cons x xs ih =>
    intro acc h
    simp only [List.foldl_cons]
    apply ih
    rw [addCandidate_proposal]; exact h

theorem prepare0_value (s : State) (now : Int) (r : Nat) (v : Chain) (t : Bool) (j : Option Just)
    (h : Eff.broadcast r .prepare v t j ∈ (s.tryQuality now).2) :
    s.phase = .quality ∧ r = s.round ∧ v = s.quality.longestPrefixWithQuorum s.input ∧ j = none := by
  unfold State.tryQuality at h
  dsimp only at h
  split at h
  · simp at h
  · rename_i hph
    split at h
    · unfold State.beginPrepare State.alarmAfter State.resetReb at h
      simp at h
      obtain ⟨hr, hv, _, hj⟩ := h
      rw [addCandidatePrefixes_proposal] at hv
      exact ⟨by simpa using hph, hr, hv, hj⟩
    · simp at h

/-- `longestPrefixWithQuorum` returns the preferred chain itself, or a prefix of it with a strong quorum, or
its base; and nothing longer has a quorum. -/
theorem longest_prefix_spec (q : Tally) (c : Chain) :
    (q.longestPrefixWithQuorum c = c ∨ q.longestPrefixWithQuorum c = baseChain c ∨
      ∃ i, i < c.length ∧ q.longestPrefixWithQuorum c = prefixTo c i) ∧
    (q.longestPrefixWithQuorum c = baseChain c ∨ q.hasStrongFor (q.longestPrefixWithQuorum c) = true) ∧
    (q.hasStrongFor c = true → q.longestPrefixWithQuorum c = c) := by
  unfold Tally.longestPrefixWithQuorum
  by_cases hc : q.hasStrongFor c = true
  · simp [hc]
  · simp only [hc, Bool.false_eq_true, if_false]
    refine ⟨?_, ?_, fun h => absurd h (by simp)⟩
    · cases hf : ((List.range c.length).reverse.map (prefixTo c)).find? q.hasStrongFor with
      | none => right; left; rfl
      | some x =>
        right; right
        have hm := List.mem_of_find?_eq_some hf
        simp only [List.mem_map, List.mem_reverse, List.mem_range] at hm
        obtain ⟨i, hi, rfl⟩ := hm
        exact ⟨i, hi, rfl⟩
    · cases hf : ((List.range c.length).reverse.map (prefixTo c)).find? q.hasStrongFor with
      | none => left; rfl
      | some x => right; exact List.find?_some hf

/-- **No COMMIT for bottom while holding a strong PREPARE quorum, nor before the timeout unless the quorum has
become impossible.** If the end of PREPARE broadcasts COMMIT for bottom then the participant holds no
strong quorum (nor forwarded evidence of one) for its proposal, and either that quorum can no longer be
reached given the votes cast, or the PREPARE timeout has expired with a strong quorum of senders heard. -/
theorem commit_bottom_value (s : State) (now : Int) (r : Nat) (t : Bool) (j : Option Just)
    (h : Eff.broadcast r .commit [] t j ∈ (s.beginCommit now).2) : s.value = [] := by
  unfold State.beginCommit State.alarmAfter State.resetReb at h
  dsimp only at h
  split at h
  · rename_i he; simpa using he
  · split at h
    · simp at h; exact h.2.1
    · simp at h

theorem commit_bottom_rule (s : State) (now : Int) (r : Nat) (t : Bool) (j : Option Just)
    (h : Eff.broadcast r .commit [] t j ∈ (s.tryPrepare now).2) (hp : s.proposal ≠ []) :
    s.prepFoundQuorum = false ∧ s.prepFoundJust = false ∧
      (s.prepNotPossible = true ∨ s.prepComplete now = true) := by
  unfold State.tryPrepare at h
  dsimp only at h
  split at h
  · simp at h
  · split at h
    · have hv := commit_bottom_value _ now r t j h
      unfold State.prepareValue at hv
      split at hv
      · exact absurd hv hp
      · rename_i h1
        simp only [Bool.or_eq_true, not_or, Bool.not_eq_true] at h1
        split at hv
        · rename_i h2
          exact ⟨h1.1, h1.2, by simpa using h2⟩
        · rename_i hdone h2
          simp only [Bool.or_eq_true, not_or, Bool.not_eq_true] at h2
          simp [h1.1, h1.2, h2.1, h2.2] at hdone
    · split at h
      · have := tryRebroadcast_evs (s.prepareValue now) now
        have hm : Ev.bc r .commit ∈ evs ((s.prepareValue now).tryRebroadcast now).2 := by
          simp only [evs, List.mem_filterMap]
          exact ⟨_, h, rfl⟩
        rw [this] at hm; simp at hm
      · simp at h

/-- **CONVERGE adoption.** At the CONVERGE timeout the participant prepares the first lowest-rank value
among those acceptable to it (`findBest` over candidates and PREPARE-justified values that could have been
decided): so the best-ticket value is adopted whenever it is a candidate. -/
theorem converge_adopts_best_valid (s : State) (now : Int) (r : Nat) (v : Chain) (t : Bool) (j : Option Just)
    (h : Eff.broadcast r .prepare v t j ∈ (s.tryConverge now).2) :
    s.phase = .converge ∧ s.phaseTimeoutElapsed now = true ∧
    ∃ w, (s.getRound s.round).converged.findBest (fun cv =>
        s.isCandidate cv.chain || (cv.just.phase == .prepare &&
          (s.getRound (s.round - 1)).committed.couldReach s.tbl cv.chain true)) = some w ∧
      v = w.chain ∧ j = some w.just := by
  unfold State.tryConverge at h
  dsimp only at h
  split at h
  · simp at h
  · rename_i hph
    split at h
    · split at h
      · have := tryRebroadcast_evs s now
        have hm : Ev.bc r .prepare ∈ evs (s.tryRebroadcast now).2 := by
          simp only [evs, List.mem_filterMap]; exact ⟨_, h, rfl⟩
        rw [this] at hm; simp at hm
      · simp at h
    · rename_i hto
      split at h
      · simp at h
      · rename_i w hw
        split at h
        · simp at h
        · unfold State.beginPrepare State.alarmAfter State.resetReb at h
          simp at h
          obtain ⟨_, rfl, _, rfl⟩ := h
          exact ⟨by simpa using hph, by simpa using hto, w, hw, rfl, rfl⟩

/-! ### Non-vacuity: a concrete run with equivocation satisfying every hypothesis -/

def exCfg : Cfg := { maxLookahead := 2, rebImmediateAfter := 3, timeout2 := [100], qualityTimeout2 := 100, rebAfter := [50] }
def exTbl : Table := { entries := [(1, 30000), (2, 20000), (3, 15534)] }
def exOps : List Op :=
  [.start 0,
   .recv 1 { sender := 1, round := 0, phase := .quality, value := [7, 8] },
   .recv 2 { sender := 2, round := 0, phase := .quality, value := [7, 8] },
   .recv 3 { sender := 1, round := 0, phase := .prepare, value := [7, 8] },
   .recv 4 { sender := 2, round := 0, phase := .prepare, value := [7, 8] },
   .recv 5 { sender := 3, round := 0, phase := .prepare, value := [7, 9] },
   .recv 6 { sender := 3, round := 0, phase := .prepare, value := [7, 8] },  -- equivocation: ignored
   .alarm 500]

example : (∀ op ∈ exOps, OpOk op) ∧ hasFailure (run (init exCfg exTbl [7, 8]) exOps).2 = false ∧
    (run (init exCfg exTbl [7, 8]) exOps).2.filterMap slotOf =
      [(0, .quality), (0, .prepare), (0, .commit)] := by
  refine ⟨?_, by decide, by decide⟩
  intro op hop
  simp only [exOps, List.mem_cons, List.mem_nil_iff, or_false] at hop
  rcases hop with rfl | rfl | rfl | rfl | rfl | rfl | rfl | rfl <;> simp [OpOk, MsgOk]

/-! ## The same discipline at the participant API (`gpbft/participant.go`)

`pstepWith order` is `Participant.ReceiveMessage` / `ReceiveAlarm` for the current instance — what the
correspondence driver replays against the real `gpbft.Participant`: messages arriving before the instance has
begun are queued (`messageQueue.Add`), the first alarm begins the instance and drains the queue through
`instance.ReceiveMany` in the sender order `order` (Go: map iteration order — any order is possible, so the
theorems quantify over it). `prun order (pinit cfg tbl input) ops` runs a whole sequence of such calls. -/
section ParticipantAPI

/-- **At most one message per instance, round and step, at the participant API.** For every configuration, power
table, input chain, drain order and every sequence of `ReceiveMessage` / `ReceiveAlarm` calls over validated
messages (any senders, contents, order, duplicates; before or after the instance begins) that reports no internal
error or panic: the participant never requests two broadcasts for the same (round, phase) — the broadcasts made
while draining the pre-start queue through `ReceiveMany` included. -/
theorem emit_once_participant (cfg : Cfg) (tbl : Table) (input : Chain) (order : List Pid) (ops : List POp)
    (hops : ∀ op ∈ ops, POpOk op) (hnf : hasFailure (prun order (pinit cfg tbl input) ops).2 = false) :
    ((prun order (pinit cfg tbl input) ops).2.filterMap slotOf).Nodup := by
  have h := (prun_wp order (pinit cfg tbl input) ops (DQ_pinit cfg tbl input) (by simp [pinit]) hops hnf).1
  have hn := h.bc_nodup
  rw [evs_bc] at hn
  exact (List.pairwise_map.1 hn).imp (fun h heq => h (by rw [heq]))

/-- **Progress never moves backwards, at the participant API.** The (round, phase) points notified by the
participant over any such sequence of calls and any drain order are strictly increasing, and the final point is
above `(0, INITIAL)`. -/
theorem progress_monotone_participant (cfg : Cfg) (tbl : Table) (input : Chain) (order : List Pid) (ops : List POp)
    (hops : ∀ op ∈ ops, POpOk op) (hnf : hasFailure (prun order (pinit cfg tbl input) ops).2 = false) :
    ((prun order (pinit cfg tbl input) ops).2.filterMap progOf).Pairwise ptLt ∧
    ptLe (0, 0) (prun order (pinit cfg tbl input) ops).1.inst.pt := by
  have h := (prun_wp order (pinit cfg tbl input) ops (DQ_pinit cfg tbl input) (by simp [pinit]) hops hnf).1
  have hs := h.prog_sorted
  rw [evs_prog] at hs
  exact ⟨hs.1, h.le⟩

/-- Every broadcast made through the participant API is for the progress point entered by the same call: the
(progress, broadcast) skeleton of the whole run is well paired. -/
theorem broadcast_follows_progress_participant (cfg : Cfg) (tbl : Table) (input : Chain) (order : List Pid)
    (ops : List POp) (hops : ∀ op ∈ ops, POpOk op)
    (hnf : hasFailure (prun order (pinit cfg tbl input) ops).2 = false) :
    WP (0, 0) (evs (prun order (pinit cfg tbl input) ops).2) (prun order (pinit cfg tbl input) ops).1.inst.pt :=
  (prun_wp order (pinit cfg tbl input) ops (DQ_pinit cfg tbl input) (by simp [pinit]) hops hnf).1

/-- `ReceiveMany` on its own: a failure-free drain of any round-sorted list of validated messages is a sequence
of `receiveOne`s followed by at most one `postReceive`, never run on a terminated instance. -/
theorem receiveMany_is_micro_run (s : State) (now : Int) (ms : List Msg) (hq : DQ s)
    (hms : ∀ m ∈ ms, MsgOk m) (hsorted : RoundSorted ms)
    (hnf : hasFailure (s.receiveMany now ms).2 = false) :
    ∃ mops, mrun s mops = s.receiveMany now ms ∧ MOK MsgOk s mops :=
  receiveMany_micro MsgOk (fun _ h => h) now s ms hq (fun m hm => Or.inr (hms m hm)) hsorted hnf

/-- what the drain hands to `ReceiveMany`, for every sender order: queued messages only, in non-decreasing round
order; and the queue holds at most one message per (sender, round, phase). -/
theorem drain_facts (order : List Pid) (p : PState) (m : Msg) :
    (∀ x ∈ drainWith order p.queue, x ∈ p.queue) ∧ RoundSorted (drainWith order p.queue) ∧
    (p.queue.Pairwise (fun a b => ¬ sameSlot a b) → (p.queueAdd m).queue.Pairwise (fun a b => ¬ sameSlot a b)) :=
  ⟨fun x hx => drainWith_mem order p.queue x hx, drainWith_sorted order p.queue, queueAdd_slots p m⟩

/-! ### Non-vacuity: three messages queued before the instance begins — a PREPARE arriving before QUALITY, a
late-binding reject (wrong base) and a QUALITY vote — drained at the first alarm, then a run to COMMIT -/

def exPOps : List POp :=
  [.recv 1 { sender := 1, round := 0, phase := .prepare, value := [7, 8] },   -- PREPARE before QUALITY: queued
   .recv 2 { sender := 3, round := 0, phase := .prepare, value := [9, 9] },   -- wrong base: queued, dropped by the drain
   .recv 3 { sender := 1, round := 0, phase := .quality, value := [7, 8] },
   .alarm 4,                                                                 -- begins the instance, drains the queue
   .recv 5 { sender := 2, round := 0, phase := .quality, value := [7, 8] },
   .recv 6 { sender := 2, round := 0, phase := .prepare, value := [7, 8] },
   .recv 7 { sender := 3, round := 0, phase := .prepare, value := [7, 9] },
   .alarm 500]

example : (∀ op ∈ exPOps, POpOk op) ∧
    hasFailure (prun [3, 1] (pinit exCfg exTbl [7, 8]) exPOps).2 = false ∧
    (prun [3, 1] (pinit exCfg exTbl [7, 8]) (exPOps.take 3)).1.queue.length = 3 ∧
    ((prun [3, 1] (pinit exCfg exTbl [7, 8]) (exPOps.take 4)).1.inst.getRound 0).prepared.senders = [1] ∧
    (prun [3, 1] (pinit exCfg exTbl [7, 8]) exPOps).2.filterMap slotOf =
      [(0, .quality), (0, .prepare), (0, .commit)] := by
  refine ⟨?_, by decide, by decide, by decide, by decide⟩
  intro op hop
  simp only [exPOps, List.mem_cons, List.mem_nil_iff, or_false] at hop
  rcases hop with rfl | rfl | rfl | rfl | rfl | rfl | rfl | rfl <;> simp [POpOk, POpP, MsgOk]

/-! ### The round order of the drain is needed

`receiveMany_is_micro_run` (hence everything above) uses that `drainWith` hands over the queue in non-decreasing
round order: DECIDE votes (round 0) come before every message of a later round. On the same messages in another
order, `ReceiveMany` terminates the instance on the DECIDE quorum and then runs `postReceive` for round 1 — which
holds a CONVERGE value and a weak PREPARE quorum — on the terminated instance, leaving TERMINATED for CONVERGE of
round 1 with the decision still recorded. (Only `Participant.beginInstance` calls `ReceiveMany`, on `Drain()`'s
output, so the implementation is not affected; the example shows the hypothesis `RoundSorted` is not idle.) -/

def exUnsorted : List Msg :=
  [{ sender := 1, round := 1, phase := .converge, value := [7, 8], rank := 5,
     just := some { round := 0, phase := .commit, value := [], signers := [0, 1] } },
   { sender := 1, round := 1, phase := .prepare, value := [7, 8],
     just := some { round := 0, phase := .commit, value := [], signers := [0, 1] } },
   { sender := 1, round := 0, phase := .decide, value := [7, 8],
     just := some { round := 0, phase := .commit, value := [7, 8], signers := [0, 1] } },
   { sender := 2, round := 0, phase := .decide, value := [7, 8],
     just := some { round := 0, phase := .commit, value := [7, 8], signers := [0, 1] } }]

example :
    let s := ((init exCfg exTbl [7, 8]).beginQuality 0).1
    (∀ m ∈ exUnsorted, MsgOk m) ∧ ¬ RoundSorted exUnsorted ∧
    hasFailure (s.receiveMany 1 exUnsorted).2 = false ∧
    (s.receiveMany 1 exUnsorted).1.phase = .converge ∧ (s.receiveMany 1 exUnsorted).1.round = 1 ∧
    (s.receiveMany 1 exUnsorted).1.termination.isSome = true ∧
    -- … while the sorted list meets every hypothesis of `receiveMany_is_micro_run` and stays terminated
    DQ s ∧ (∀ m ∈ sortStable exUnsorted, MsgOk m) ∧ RoundSorted (sortStable exUnsorted) ∧
    hasFailure (s.receiveMany 1 (sortStable exUnsorted)).2 = false ∧
    (s.receiveMany 1 (sortStable exUnsorted)).1.phase = .terminated := by
  have hall : ∀ m ∈ exUnsorted, MsgOk m := ?_
  refine ⟨hall, ?_, by decide, by decide, by decide, by decide,
    ⟨fun _ => rfl, fun h => absurd h (by decide)⟩, fun m hm => hall m ((sortStable_mem _ m).1 hm),
    sortStable_sorted _, by decide, by decide⟩
  rotate_left
  · intro m hm
    simp only [exUnsorted, List.mem_cons, List.mem_nil_iff, or_false] at hm
    rcases hm with rfl | rfl | rfl | rfl <;> simp [MsgOk]
  · intro h
    have := (List.pairwise_cons.1 h).1 _ (List.mem_cons_of_mem _ (List.mem_cons_of_mem _ List.mem_cons_self))
    simp at this

end ParticipantAPI

end F3.Props.C07
