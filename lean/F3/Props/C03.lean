import F3.Proofs.SkelTieBls
import F3.Proofs.SkelTieGpbft
import F3.Proofs.InstanceDecision
import F3.Proofs.ParticipantInv
import F3.Props.C08
import F3.Proofs.DecisionCert
import F3.Proofs.OwnBase
import F3.Proofs.BridgeEx
/-!
# C03 — every reported decision is a self-contained, verifiable finality proof (model part)

On the executable model of `gpbft.go`: whatever validated messages are delivered in whatever order, the
justification handed to the host on termination is for round 0 of DECIDE, lists strictly increasing
(hence distinct) power-table indices that are in range and carry non-zero scaled power, and those signers
form a strong quorum of the instance's table. The instance id and supplemental data are the instance's own
by construction of `buildJustification` (the model carries them implicitly; the harness checks them on the
real decision, together with the aggregate signature and acceptance by `certs.ValidateFinalityCertificates`).
-/
namespace F3.Props.C03
open F3.Instance

/-- `x` sent a validated DECIDE vote for `c` somewhere in the op sequence -/
def DecideVoted (ops : List Op) (x : Pid) (c : Chain) : Prop :=
  ∃ now m, Op.recv now m ∈ ops ∧ m.phase = .decide ∧ m.sender = x ∧ m.value = c

/-- the ops are deliveries of validated messages: DECIDE is for round 0 and senders have positive scaled power -/
def OpsValid (tbl : Table) (ops : List Op) : Prop :=
  ∀ op ∈ ops, match op with
    | .recv _ m => MsgOk m ∧ 0 < tbl.power m.sender
    | _ => True

theorem opsValid_opValid (tbl : Table) (ops : List Op) (h : OpsValid tbl ops) :
    ∀ op ∈ ops, OpValid (DecideVoted ops) tbl op := by
  intro op hop
  have := h op hop
  cases op with
  | recv now m => exact ⟨this.1, this.2, fun hph => ⟨now, m, hop, hph, rfl, rfl⟩⟩
  | start _ => trivial
  | alarm _ => trivial

/-- **Decision well-formedness**, for every configuration, table, input and op sequence: round 0 of DECIDE,
strictly increasing in-range signer indices of positive scaled power, a strong quorum, and every listed
signer is a member from whom a DECIDE vote for *exactly the decided value* was delivered (so, under the
ideal-signature model, the aggregate verifies over exactly that value). -/
theorem decision_wellformed (cfg : Cfg) (tbl : Table) (input : Chain) (ops : List Op)
    (hops : OpsValid tbl ops) (d : Just)
    (hd : (run (init cfg tbl input) ops).1.termination = some d) : DecisionOK (DecideVoted ops) tbl d := by
  have h := runFrom_decinv (V := DecideVoted ops) (init cfg tbl input) ops (DecInv_init cfg tbl input)
    (opsValid_opValid tbl ops hops)
  have ht := runFrom_tbl (init cfg tbl input) ops
  have := h.2 d hd
  rw [ht] at this
  exact this

/-- D of Layer A: a reported decision is backed by a strong quorum of members that each sent DECIDE for it -/
theorem decision_has_decide_quorum (cfg : Cfg) (tbl : Table) (input : Chain) (ops : List Op)
    (hops : OpsValid tbl ops) (d : Just)
    (hd : (run (init cfg tbl input) ops).1.termination = some d) :
    strongQ tbl (sumPow tbl d.signers) = true ∧ d.signers.Pairwise (· < ·) ∧
    ∀ i ∈ d.signers, ∃ x, tbl.index? x = some i ∧ DecideVoted ops x d.value :=
  let h := decision_wellformed cfg tbl input ops hops d hd
  ⟨h.strong, h.increasing, h.signed⟩

/-- the signers of a decision hold at least two thirds of the table's scaled power (spelled out) -/
theorem decision_strong_quorum (cfg : Cfg) (tbl : Table) (input : Chain) (ops : List Op)
    (hops : OpsValid tbl ops) (d : Just)
    (hd : (run (init cfg tbl input) ops).1.termination = some d) :
    3 * (sumPow tbl d.signers : Int) ≥ 2 * (tbl.total : Int) := by
  have h := (decision_wellformed cfg tbl input ops hops d hd).strong
  simpa [strongQ, F3.Spec.Quorum.strong] using h

/-- the model's quorum test is the code's `IsStrongQuorum` (regenerated from `gpbft/gpbft.go` on this run) -/
theorem strongQ_is_the_codes_predicate (t : Table) (p : Nat) :
    strongQ t p = F3.Gen.isStrongQuorum (p : Int) (t.total : Int) := by
  rw [Bool.eq_iff_iff, F3.Props.C08.strong_iff _ _ (by omega)]
  simp [strongQ, F3.Spec.Quorum.strong]

/-- whenever `FindStrongQuorumFor` finds a quorum in a well-formed tally it is a minimal prefix of the
sorted signer indices: strictly increasing, in range, positive power, strong -/
theorem quorum_result_wellformed (V : Pid → Chain → Prop) (t : Table) (q : Tally) (c : Chain) (sg : List Nat)
    (hwf : TallyWF V t q) (h : q.findStrongQuorumFor t c = .found sg) :
    sg.Pairwise (· < ·) ∧ (∀ i ∈ sg, i < t.entries.length ∧ 0 < t.powerAt i) ∧ strongQ t (sumPow t sg) = true ∧
    (∀ i ∈ sg, ∃ x, t.index? x = some i ∧ V x c) :=
  findStrongQuorumFor_spec t q c sg hwf h

/-- Non-vacuity: a three-member table, two DECIDE votes (65% … no: 30000+20000 of 65534 ≥ 2/3) terminate the
instance with signers [0, 1]. -/
def exTbl : Table := { entries := [(1, 30000), (2, 20000), (3, 15534)] }
def exCfg : Cfg := { maxLookahead := 2, rebImmediateAfter := 3, timeout2 := [100], qualityTimeout2 := 100, rebAfter := [50] }
def exOps : List Op :=
  [.start 0,
   .recv 1 { sender := 2, round := 0, phase := .decide, value := [7, 8],
             just := some { round := 0, phase := .commit, value := [7, 8], signers := [0, 1] } },
   .recv 2 { sender := 1, round := 0, phase := .decide, value := [7, 8],
             just := some { round := 0, phase := .commit, value := [7, 8], signers := [0, 1] } }]

example : (run (init exCfg exTbl [7, 8]) exOps).1.termination =
    some { round := 0, phase := .decide, value := [7, 8], signers := [0, 1] } := by decide

example : OpsValid exTbl exOps := by
  intro op hop
  simp only [exOps, List.mem_cons, List.mem_nil_iff, or_false] at hop
  rcases hop with rfl | rfl | rfl <;> simp [MsgOk, exTbl, Table.power]

/-! ## The same at the participant API (`gpbft/participant.go`)

`pstepWith order` is `Participant.ReceiveMessage` / `ReceiveAlarm` for the current instance (what the
correspondence driver replays): deliveries before the instance has begun are queued and drained through
`instance.ReceiveMany` by the first alarm, in the sender order `order` (any order is possible in Go). -/
section ParticipantAPI

/-- `x` sent a validated DECIDE vote for `c` somewhere in the call sequence — delivered to the running instance,
or queued before it began and drained at its start -/
def DecideVotedP (ops : List POp) (x : Pid) (c : Chain) : Prop :=
  ∃ now m, POp.recv now m ∈ ops ∧ m.phase = .decide ∧ m.sender = x ∧ m.value = c

/-- the calls deliver validated messages: DECIDE is for round 0 and senders have positive scaled power -/
def POpsValid (tbl : Table) (ops : List POp) : Prop :=
  ∀ op ∈ ops, match op with
    | .recv _ m => MsgOk m ∧ 0 < tbl.power m.sender
    | _ => True

theorem popsValid_popValid (tbl : Table) (ops : List POp) (h : POpsValid tbl ops) :
    ∀ op ∈ ops, POpValid (DecideVotedP ops) tbl op := by
  intro op hop
  have := h op hop
  cases op with
  | recv now m => exact ⟨this.1, this.2, fun hph => ⟨now, m, hop, hph, rfl, rfl⟩⟩
  | alarm _ => trivial

/-- **Decision well-formedness at the participant API**, for every configuration, table, input, drain order and
sequence of `ReceiveMessage` / `ReceiveAlarm` calls (no no-failure hypothesis): the decision reported is for round
0 of DECIDE, lists strictly increasing in-range signer indices of positive scaled power forming a strong quorum,
and every listed signer is a member from whom a DECIDE vote for exactly the decided value was delivered — to the
running instance, or before it began (queued, then drained through `ReceiveMany`). -/
theorem decision_wellformed_participant (cfg : Cfg) (tbl : Table) (input : Chain) (order : List Pid)
    (ops : List POp) (hops : POpsValid tbl ops) (d : Just)
    (hd : (prun order (pinit cfg tbl input) ops).1.inst.termination = some d) :
    DecisionOK (DecideVotedP ops) tbl d := by
  obtain ⟨h, ht⟩ := prun_decinv (V := DecideVotedP ops) order (pinit cfg tbl input) ops (DecInv_init cfg tbl input)
    (by simp [pinit]) (popsValid_popValid tbl ops hops)
  have := h.2 d hd
  rw [ht] at this
  exact this

/-- Non-vacuity: both DECIDE votes (and a message on another base, a late-binding reject) arrive before the
instance begins; the first alarm begins it, drains the queue — dropping the reject — and the instance terminates
with signers [0, 1]. -/
def exPOps : List POp :=
  [.recv 1 { sender := 2, round := 0, phase := .decide, value := [7, 8],
             just := some { round := 0, phase := .commit, value := [7, 8], signers := [0, 1] } },
   .recv 2 { sender := 3, round := 0, phase := .prepare, value := [9, 9] },
   .recv 3 { sender := 1, round := 0, phase := .decide, value := [7, 8],
             just := some { round := 0, phase := .commit, value := [7, 8], signers := [0, 1] } },
   .alarm 4]

example : (prun [3, 1, 2] (pinit exCfg exTbl [7, 8]) (exPOps.take 3)).1.queue.length = 3 ∧
    (prun [3, 1, 2] (pinit exCfg exTbl [7, 8]) exPOps).1.inst.termination =
      some { round := 0, phase := .decide, value := [7, 8], signers := [0, 1] } := by decide

example : POpsValid exTbl exPOps := by
  intro op hop
  simp only [exPOps, List.mem_cons, List.mem_nil_iff, or_false] at hop
  rcases hop with rfl | rfl | rfl | rfl <;> simp [MsgOk, exTbl, Table.power]

end ParticipantAPI

/-! ## The decision is a finality certificate the validator accepts (C03 ∘ C04)

`F3.Props.C04.honest_cert_accepted` ASSUMES what consensus delivers (members, quorum, aggregate, delta,
commitment). Here those hypotheses are discharged from `DecisionOK` — i.e. from what the instance model
provably reports — so that "certificates produced by consensus are always accepted" is a statement about
the decisions of the consensus model, not about certificates assumed to be well made. What remains as
hypotheses is the environment the instance model does not contain:

* `TablesAgree tbl t` — the two models talk about the same power table (same ids per index; scaling the
  raw powers of the certificate model's table gives the instance table's scaled powers);
* both tables are well-formed (`WF`: distinct ids, positive powers, keys) and the supplemental data commits
  to the next table (built into `decisionCert`: `pt = CID (canon nt)`, `delta = makeDiff t nt`);
* the decided chain is not bottom and is a well-formed `ECChain` under the tipset interning `tipOf`
  (validity, C02: a decided value is a prefix of an honest proposal, and proposals are validated chains),
  and starts at the base the validator expects (`base = none`: no constraint).

See `F3/Proofs/DecisionCert.lean` for the bridge between the two symbolic signature models (`aggOf`) and
the assumption on the real scheme that acceptance rests on (correctness of aggregation — not
unforgeability). -/
section Certificate
open F3.Certs F3.DecisionCert

/-- **Consensus decisions are accepted as certificates.** Let `d` be a decision satisfying `DecisionOK V tbl d`
(`V x c`: a validly signed DECIDE vote of `x` for `c` exists). The certificate assembled from it for instance
`inst` — chain `d.value`, the instance's supplemental data committing to `nt`, signers `d.signers`, the
aggregate of exactly those signers over the DECIDE payload of `d.value`, delta `makeDiff t nt` — is accepted
by `ValidateFinalityCertificates` against `t` from instance `inst` (with the expected base, if any), which
then reports instance `inst + 1`, the finalized suffix and the table `nt`; and its aggregate is backed:
every signature in it is the DECIDE vote, for exactly `d.value`, of the member of `t` at that index. -/
theorem consensus_decision_certificate_accepted (V : Pid → Chain → Prop) (tbl : F3.Instance.Table) (d : Just)
    (hok : DecisionOK V tbl d)
    (net inst comm : Nat) (tipOf : Nat → Tip) (t nt : F3.Certs.Table) (base : Option Tip)
    (hag : TablesAgree tbl t) (ht : WF t) (hnt : WF nt)
    (hne : d.value ≠ []) (hcv : chainValid (d.value.map tipOf) = true)
    (hbase : ∀ b, base = some b → ∃ h, (d.value.map tipOf).head? = some h ∧ Tip.eq b h = true) :
    validateCerts net t inst base [decisionCert net inst comm tipOf t nt d] =
        ⟨u64 (inst + 1), (d.value.map tipOf).tail, canon nt, none⟩ ∧
      Backed (fun x => V x d.value) t (decisionCert net inst comm tipOf t nt d).sig :=
  ⟨decisionCert_accepted hok net inst comm tipOf t nt base hag ht hnt hne hcv hbase,
    decisionCert_backed hok net inst comm tipOf t nt hag⟩

/-- The same from a run of the instance model: whatever validated messages are delivered in whatever
order, IF the instance terminates with a decision, the certificate assembled from it is accepted. -/
theorem instance_decision_certificate_accepted (cfg : Cfg) (tbl : F3.Instance.Table) (input : Chain) (ops : List Op)
    (hops : OpsValid tbl ops) (d : Just)
    (hd : (run (init cfg tbl input) ops).1.termination = some d)
    (net inst comm : Nat) (tipOf : Nat → Tip) (t nt : F3.Certs.Table) (base : Option Tip)
    (hag : TablesAgree tbl t) (ht : WF t) (hnt : WF nt)
    (hne : d.value ≠ []) (hcv : chainValid (d.value.map tipOf) = true)
    (hbase : ∀ b, base = some b → ∃ h, (d.value.map tipOf).head? = some h ∧ Tip.eq b h = true) :
    validateCerts net t inst base [decisionCert net inst comm tipOf t nt d] =
        ⟨u64 (inst + 1), (d.value.map tipOf).tail, canon nt, none⟩ ∧
      Backed (fun x => DecideVoted ops x d.value) t (decisionCert net inst comm tipOf t nt d).sig :=
  consensus_decision_certificate_accepted _ tbl d (decision_wellformed cfg tbl input ops hops d hd)
    net inst comm tipOf t nt base hag ht hnt hne hcv hbase

/-- … and at the participant API (`ReceiveMessage` / `ReceiveAlarm`, any drain order of the pre-start queue). -/
theorem participant_decision_certificate_accepted (cfg : Cfg) (tbl : F3.Instance.Table) (input : Chain)
    (order : List Pid) (ops : List POp) (hops : POpsValid tbl ops) (d : Just)
    (hd : (prun order (pinit cfg tbl input) ops).1.inst.termination = some d)
    (net inst comm : Nat) (tipOf : Nat → Tip) (t nt : F3.Certs.Table) (base : Option Tip)
    (hag : TablesAgree tbl t) (ht : WF t) (hnt : WF nt)
    (hne : d.value ≠ []) (hcv : chainValid (d.value.map tipOf) = true)
    (hbase : ∀ b, base = some b → ∃ h, (d.value.map tipOf).head? = some h ∧ Tip.eq b h = true) :
    validateCerts net t inst base [decisionCert net inst comm tipOf t nt d] =
        ⟨u64 (inst + 1), (d.value.map tipOf).tail, canon nt, none⟩ ∧
      Backed (fun x => DecideVotedP ops x d.value) t (decisionCert net inst comm tipOf t nt d).sig :=
  consensus_decision_certificate_accepted _ tbl d
    (decision_wellformed_participant cfg tbl input order ops hops d hd)
    net inst comm tipOf t nt base hag ht hnt hne hcv hbase

/-- the accepted certificate is a valid one in the sense of the specification: in particular signed by
DISTINCT members holding two thirds of `t` -/
theorem consensus_decision_certificate_valid (V : Pid → Chain → Prop) (tbl : F3.Instance.Table) (d : Just)
    (hok : DecisionOK V tbl d)
    (net inst comm : Nat) (tipOf : Nat → Tip) (t nt : F3.Certs.Table) (base : Option Tip)
    (hag : TablesAgree tbl t) (ht : WF t) (hnt : WF nt)
    (hne : d.value ≠ []) (hcv : chainValid (d.value.map tipOf) = true)
    (hbase : ∀ b, base = some b → ∃ h, (d.value.map tipOf).head? = some h ∧ Tip.eq b h = true) :
    F3.Spec.Certs.CertValid net t inst base (decisionCert net inst comm tipOf t nt d) (canon nt) := by
  have hacc := (consensus_decision_certificate_accepted V tbl d hok net inst comm tipOf t nt base hag ht hnt
    hne hcv hbase).1
  obtain ⟨s', hrun, _, _, htab⟩ := F3.Props.C04.validate_sound net t inst base _ (by rw [hacc])
  cases hrun with
  | cons hv hrest =>
    cases hrest
    have := htab (by simp)
    rw [hacc] at this
    simp only [F3.Spec.Certs.advance] at this
    rw [this]
    exact hv

/-! ### Non-vacuity: the whole pipeline on concrete data

A three-member table with raw powers 30 : 20 : 10 (scaled 32767, 21845, 10922 of 65534); members 1 and 2
send DECIDE for the chain `[7, 8]`; the instance terminates with signers `[0, 1]`; the certificate assembled
from that decision for instance 5 (next table: member 2 leaves, member 4 joins) is accepted from base
tipset 7 and moves the validator to instance 6 and the next table. -/
namespace CertEx
def tblI : F3.Instance.Table := { entries := [(1, 32767), (2, 21845), (3, 10922)] }
def tC : F3.Certs.Table := [⟨1, 30, 7⟩, ⟨2, 20, 8⟩, ⟨3, 10, 9⟩]
def ntC : F3.Certs.Table := [⟨1, 30, 7⟩, ⟨3, 15, 9⟩, ⟨4, 5, 6⟩]
/-- tipset id ↦ tipset (epoch = id, key = id, lengths within the limits) -/
def tipOf (n : Nat) : Tip := ⟨n, n, 8, 1, 38, 0⟩
def dec : Just := { round := 0, phase := .decide, value := [7, 8], signers := [0, 1] }
end CertEx

example : (run (init exCfg CertEx.tblI [7, 8]) exOps).1.termination = some CertEx.dec := by decide

example : OpsValid CertEx.tblI exOps := by
  intro op hop
  simp only [exOps, List.mem_cons, List.mem_nil_iff, or_false] at hop
  rcases hop with rfl | rfl | rfl <;> simp [MsgOk, CertEx.tblI, Table.power]

example : TablesAgree CertEx.tblI CertEx.tC := by rw [← tablesAgreeB_iff]; decide

example : WF CertEx.tC ∧ WF CertEx.ntC := by constructor <;> (rw [← wfB_iff]; decide)

example : CertEx.dec.value ≠ [] ∧ chainValid (CertEx.dec.value.map CertEx.tipOf) = true ∧
    (∀ b, some (CertEx.tipOf 7) = some b →
      ∃ h, (CertEx.dec.value.map CertEx.tipOf).head? = some h ∧ Tip.eq b h = true) := by
  refine ⟨by decide, by decide, ?_⟩
  intro b hb
  cases hb
  exact ⟨CertEx.tipOf 7, rfl, by decide⟩

-- … and the conclusion, computed: accepted, instance 6, suffix [8], the next table in canonical order
example : validateCerts 1 CertEx.tC 5 (some (CertEx.tipOf 7))
      [decisionCert 1 5 0 CertEx.tipOf CertEx.tC CertEx.ntC CertEx.dec] =
    ⟨6, [CertEx.tipOf 8], canon CertEx.ntC, none⟩ := by decide

-- the hypotheses matter: the same decision against a table in which member 2 has less power is no quorum
example : (validateCerts 1 [⟨1, 30, 7⟩, ⟨2, 1, 8⟩, ⟨3, 40, 9⟩] 5 none
      [decisionCert 1 5 0 CertEx.tipOf [⟨1, 30, 7⟩, ⟨2, 1, 8⟩, ⟨3, 40, 9⟩] CertEx.ntC CertEx.dec]).err =
    some .noQuorum := by decide

end Certificate

/-! ## AUDIT2 M1 / M2: the certificate theorems without `hbase`, and with `d.value ≠ []` derived

`instance_decision_certificate_accepted` above assumes (i) `hbase`: the *decided* chain starts at the base the
validator expects, and (ii) `hne`: the decided chain is not bottom. (i) follows from a statement about the
participant's own *input* chain, because a decision is always on the participant's own base
(`F3.Audit2.decision_on_own_base`, no hypothesis on deliveries): `…_nobase`. (ii) is **not** a consequence of
`OpsValid` (example `opsvalid_decides_bottom` below: two DECIDE votes for bottom satisfy `OpsValid` and the model
terminates on bottom); it is a consequence of message validation (`MsgValid`: the validator rejects DECIDE for
bottom), so over validated deliveries it is derived: `…_validated`. -/
section Audit2
open F3.Certs F3.DecisionCert F3.Audit2

/-- the validator's expected base, transported from the input chain to a chain with the same head -/
theorem base_of_input {input v : Chain} (tipOf : Nat → Tip) (base : Option Tip) (hne : v ≠ [])
    (hhead : v = [] ∨ v.head? = input.head?)
    (hbase : ∀ b, base = some b → ∃ h, (input.map tipOf).head? = some h ∧ Tip.eq b h = true) :
    ∀ b, base = some b → ∃ h, (v.map tipOf).head? = some h ∧ Tip.eq b h = true := by
  intro b hb
  obtain ⟨h, hh, he⟩ := hbase b hb
  refine ⟨h, ?_, he⟩
  rcases hhead with h0 | h1
  · exact absurd h0 hne
  · rw [List.head?_map, h1, ← List.head?_map]; exact hh

/-- **M1 for certificates.** As `instance_decision_certificate_accepted`, but the hypothesis about the base is about
the participant's own **input** chain (the chain it entered the instance with starts at the base the validator
expects), not about the decision. -/
theorem instance_decision_certificate_accepted_nobase (cfg : Cfg) (tbl : F3.Instance.Table) (input : Chain)
    (ops : List Op) (hops : OpsValid tbl ops) (d : Just)
    (hd : (run (init cfg tbl input) ops).1.termination = some d)
    (net inst comm : Nat) (tipOf : Nat → Tip) (t nt : F3.Certs.Table) (base : Option Tip)
    (hag : TablesAgree tbl t) (ht : WF t) (hnt : WF nt)
    (hne : d.value ≠ []) (hcv : chainValid (d.value.map tipOf) = true)
    (hbaseIn : ∀ b, base = some b → ∃ h, (input.map tipOf).head? = some h ∧ Tip.eq b h = true) :
    validateCerts net t inst base [decisionCert net inst comm tipOf t nt d] =
        ⟨u64 (inst + 1), (d.value.map tipOf).tail, canon nt, none⟩ ∧
      Backed (fun x => DecideVoted ops x d.value) t (decisionCert net inst comm tipOf t nt d).sig :=
  instance_decision_certificate_accepted cfg tbl input ops hops d hd net inst comm tipOf t nt base hag ht hnt hne hcv
    (base_of_input tipOf base hne (decision_on_own_base cfg tbl input ops d hd) hbaseIn)

/-- the same at the level of `DecisionOK`, for any run: only the base clause is discharged -/
theorem run_decision_certificate_accepted_nobase (V : Pid → Chain → Prop) (cfg : Cfg) (tbl : F3.Instance.Table)
    (input : Chain) (ops : List Op) (d : Just)
    (hd : (run (init cfg tbl input) ops).1.termination = some d) (hok : DecisionOK V tbl d)
    (net inst comm : Nat) (tipOf : Nat → Tip) (t nt : F3.Certs.Table) (base : Option Tip)
    (hag : TablesAgree tbl t) (ht : WF t) (hnt : WF nt)
    (hne : d.value ≠ []) (hcv : chainValid (d.value.map tipOf) = true)
    (hbaseIn : ∀ b, base = some b → ∃ h, (input.map tipOf).head? = some h ∧ Tip.eq b h = true) :
    validateCerts net t inst base [decisionCert net inst comm tipOf t nt d] =
        ⟨u64 (inst + 1), (d.value.map tipOf).tail, canon nt, none⟩ ∧
      Backed (fun x => V x d.value) t (decisionCert net inst comm tipOf t nt d).sig :=
  consensus_decision_certificate_accepted V tbl d hok net inst comm tipOf t nt base hag ht hnt hne hcv
    (base_of_input tipOf base hne (decision_on_own_base cfg tbl input ops d hd) hbaseIn)

/-- **M2 for certificates.** `W` = the validly signed votes in existence. Every delivery is of a *validated* message
(`MsgValid W tbl`, what C05's `validMsg` gives: `F3.ValidBridge.validMsg_MsgValid`) or is of another instance / carries
other supplemental data (and is refused at the door). IF the instance terminates, the decision is **not bottom**
(derived), starts at the own base (derived), and the certificate assembled from it is accepted provided the
participant's input starts at the base the validator expects and the decided chain is a well-formed `ECChain` under
the tipset interning; every signature of the aggregate is the DECIDE vote *in `W`*, for exactly the decided value, of
the member at that index. -/
theorem instance_decision_certificate_accepted_validated (W : Votes) (cfg : Cfg) (tbl : F3.Instance.Table)
    (input : Chain) (ops : List Op) (hops : ∀ op ∈ ops, OpValidF W tbl op) (d : Just)
    (hd : (run (init cfg tbl input) ops).1.termination = some d)
    (net inst comm : Nat) (tipOf : Nat → Tip) (t nt : F3.Certs.Table) (base : Option Tip)
    (hag : TablesAgree tbl t) (ht : WF t) (hnt : WF nt)
    (hcv : chainValid (d.value.map tipOf) = true)
    (hbaseIn : ∀ b, base = some b → ∃ h, (input.map tipOf).head? = some h ∧ Tip.eq b h = true) :
    d.value ≠ [] ∧ d.value.head? = input.head? ∧
    validateCerts net t inst base [decisionCert net inst comm tipOf t nt d] =
        ⟨u64 (inst + 1), (d.value.map tipOf).tail, canon nt, none⟩ ∧
      Backed (fun x => W x 0 .decide d.value) t (decisionCert net inst comm tipOf t nt d).sig := by
  obtain ⟨hne, hhead⟩ := decision_head_own_base W cfg tbl input ops hops d hd
  exact ⟨hne, hhead,
    run_decision_certificate_accepted_nobase (fun x c => W x 0 .decide c) cfg tbl input ops d hd
      (decision_ok_validated W cfg tbl input ops hops d hd) net inst comm tipOf t nt base hag ht hnt hne hcv hbaseIn⟩

/-- … in the project's vocabulary `OpValidG` (every delivery validated) -/
theorem instance_decision_certificate_accepted_validatedG (W : Votes) (cfg : Cfg) (tbl : F3.Instance.Table)
    (input : Chain) (ops : List Op) (hops : ∀ op ∈ ops, OpValidG W tbl op) (d : Just)
    (hd : (run (init cfg tbl input) ops).1.termination = some d)
    (net inst comm : Nat) (tipOf : Nat → Tip) (t nt : F3.Certs.Table) (base : Option Tip)
    (hag : TablesAgree tbl t) (ht : WF t) (hnt : WF nt)
    (hcv : chainValid (d.value.map tipOf) = true)
    (hbaseIn : ∀ b, base = some b → ∃ h, (input.map tipOf).head? = some h ∧ Tip.eq b h = true) :
    d.value ≠ [] ∧ d.value.head? = input.head? ∧
    validateCerts net t inst base [decisionCert net inst comm tipOf t nt d] =
        ⟨u64 (inst + 1), (d.value.map tipOf).tail, canon nt, none⟩ ∧
      Backed (fun x => W x 0 .decide d.value) t (decisionCert net inst comm tipOf t nt d).sig :=
  instance_decision_certificate_accepted_validated W cfg tbl input ops (fun op hop => opValidG_toF (hops op hop)) d hd
    net inst comm tipOf t nt base hag ht hnt hcv hbaseIn

/-- the decision of a validated run is well formed w.r.t. the votes in existence, not bottom, and on the own base -/
theorem decision_wellformed_validated (W : Votes) (cfg : Cfg) (tbl : F3.Instance.Table) (input : Chain)
    (ops : List Op) (hops : ∀ op ∈ ops, OpValidF W tbl op) (d : Just)
    (hd : (run (init cfg tbl input) ops).1.termination = some d) :
    DecisionOK (fun x c => W x 0 .decide c) tbl d ∧ d.value ≠ [] ∧ d.value.head? = input.head? :=
  ⟨decision_ok_validated W cfg tbl input ops hops d hd, decision_head_own_base W cfg tbl input ops hops d hd⟩

/-! ### AUDIT2 E2: without validation the model decides bottom -/

def botTbl : F3.Instance.Table := { entries := [(1, 10), (2, 10), (3, 10)] }
def botOps : List Op :=
  [.start 0,
   .recv 1 { sender := 1, round := 0, phase := .decide, value := [] },
   .recv 2 { sender := 2, round := 0, phase := .decide, value := [] }]

/-- `OpsValid` (DECIDE in round 0, senders with power) admits a run that terminates on **bottom**: `hne` of
`instance_decision_certificate_accepted` is not derivable from that theorem's other hypotheses. -/
theorem opsvalid_decides_bottom :
    OpsValid botTbl botOps ∧
    (run (init exCfg botTbl [7, 8]) botOps).1.termination =
      some { round := 0, phase := .decide, value := [], signers := [0, 1] } := by
  refine ⟨?_, by decide⟩
  intro op hop
  simp only [botOps, List.mem_cons, List.mem_nil_iff, or_false] at hop
  rcases hop with rfl | rfl | rfl <;> simp [MsgOk, botTbl, Table.power]

/-- … and those deliveries are not valid: there is no `W` under which a DECIDE for bottom is `MsgValid` -/
theorem decide_bottom_not_valid (W : Votes) (t : F3.Instance.Table) (m : Msg) (hp : m.phase = .decide)
    (hv : m.value = []) : ¬ MsgValid W t m := by
  intro h
  obtain ⟨_, _, hrest⟩ := h
  rw [hp] at hrest
  exact hrest.2.1 hv

/-! ### AUDIT2 E3: DECIDE votes on a foreign base are refused, nothing is tallied, nothing is decided -/
example :
    let ops : List Op :=
      [.start 0,
       .recv 1 { sender := 1, round := 0, phase := .decide, value := [9, 9],
                 just := some { round := 0, phase := .commit, value := [9, 9], signers := [0, 1] } },
       .recv 2 { sender := 2, round := 0, phase := .decide, value := [9, 9],
                 just := some { round := 0, phase := .commit, value := [9, 9], signers := [0, 1] } }]
    (run (init exCfg botTbl [7, 8]) ops).1.termination = none ∧
    (run (init exCfg botTbl [7, 8]) ops).1.decision.support.length = 0 ∧
    (run (init exCfg botTbl [7, 8]) ops).2.filter (fun e => match e with | .err _ => true | _ => false) =
      [.err .wrongBase, .err .wrongBase] := by decide

/-! ### non-vacuity on concrete runs -/

/-- the votes in existence for `exOps` (two DECIDEs for `[7,8]`, justified by COMMITs of members 1 and 2) -/
def exVotesD : List Vote :=
  [(1, 0, .commit, [7, 8]), (2, 0, .commit, [7, 8]), (1, 0, .decide, [7, 8]), (2, 0, .decide, [7, 8])]

theorem exOps_validG : ∀ op ∈ exOps, OpValidG (F3.Bridge.Wof exVotesD) CertEx.tblI op := by
  intro op hop
  rcases F3.Bridge.opValidB_sound exVotesD CertEx.tblI exOps (by decide) op hop with h | h
  · have : exOps.all (fun o => !F3.Bridge.foreign o) = true := by decide
    have := List.all_eq_true.1 this op hop
    simp [h] at this
  · exact h

/-- `instance_decision_certificate_accepted_validatedG` (and `_nobase`) on the data of `CertEx`: hypotheses hold,
conclusions as computed above. -/
example :
    CertEx.dec.value ≠ [] ∧ CertEx.dec.value.head? = ([7, 8] : Chain).head? ∧
    validateCerts 1 CertEx.tC 5 (some (CertEx.tipOf 7))
        [decisionCert 1 5 0 CertEx.tipOf CertEx.tC CertEx.ntC CertEx.dec] =
      ⟨u64 (5 + 1), (CertEx.dec.value.map CertEx.tipOf).tail, canon CertEx.ntC, none⟩ ∧
    Backed (fun x => F3.Bridge.Wof exVotesD x 0 .decide CertEx.dec.value) CertEx.tC
      (decisionCert 1 5 0 CertEx.tipOf CertEx.tC CertEx.ntC CertEx.dec).sig :=
  instance_decision_certificate_accepted_validatedG (F3.Bridge.Wof exVotesD) exCfg CertEx.tblI [7, 8] exOps
    exOps_validG CertEx.dec (by decide) 1 5 0 CertEx.tipOf CertEx.tC CertEx.ntC (some (CertEx.tipOf 7))
    (by rw [← tablesAgreeB_iff]; decide) (by rw [← wfB_iff]; decide) (by rw [← wfB_iff]; decide) (by decide)
    (by intro b hb; cases hb; exact ⟨CertEx.tipOf 7, rfl, by decide⟩)

/-- … and on the four-member run of `F3.Proofs.BridgeEx` (a Byzantine equivocator, one delivery with foreign
supplemental data that is refused): `OpValidF` holds, member 1's decision `[7,8]` is well formed w.r.t. `exW`. -/
example : ∃ d, (run (init F3.Bridge.exCfg F3.Bridge.exTbl [7, 8]) F3.Bridge.exOps).1.termination = some d ∧
    DecisionOK (fun x c => F3.Bridge.exW x 0 .decide c) F3.Bridge.exTbl d ∧ d.value ≠ [] ∧
    d.value.head? = ([7, 8] : Chain).head? := by
  have hv : ∀ op ∈ F3.Bridge.exOps, OpValidF F3.Bridge.exW F3.Bridge.exTbl op := by
    intro op hop
    rcases F3.Bridge.opValidB_sound F3.Bridge.exVotes F3.Bridge.exTbl F3.Bridge.exOps (by decide) op hop with h | h
    · cases op with
      | recv now m => exact Or.inl h
      | start _ => trivial
      | alarm _ => trivial
    · exact opValidG_toF h
  have hd : (run (init F3.Bridge.exCfg F3.Bridge.exTbl [7, 8]) F3.Bridge.exOps).1.termination =
      some { round := 0, phase := .decide, value := [7, 8], signers := [0, 1, 2] } := by decide
  exact ⟨_, hd, decision_wellformed_validated _ _ _ _ _ hv _ hd⟩

end Audit2

end F3.Props.C03

namespace F3.Props.C03
section Skeletons

/-- **The Go functions this property's models mirror still have the statement structure the models were written
against**: each regenerated skeleton (pre-order list of statement kinds, `tools/go2lean/skel.go`) equals the pinned
expectation of `F3/Proofs/SkelTie*.lean`. An added early return, cap, loop or dropped branch in one of these functions
breaks this obligation even when no regenerated *expression* changes. -/
theorem code_structure_as_modelled :
    F3.Gen.SkelGpbft.skelQueueAdd = F3.SkelTie.SkelGpbft.skelQueueAddExpected ∧
    F3.Gen.SkelGpbft.skelQueueDrain = F3.SkelTie.SkelGpbft.skelQueueDrainExpected ∧
    F3.Gen.SkelGpbft.skelReceiveMessage = F3.SkelTie.SkelGpbft.skelReceiveMessageExpected ∧
    F3.Gen.SkelGpbft.skelHandleDecision = F3.SkelTie.SkelGpbft.skelHandleDecisionExpected ∧
    F3.Gen.SkelGpbft.skelReceiveOne = F3.SkelTie.SkelGpbft.skelReceiveOneExpected ∧
    F3.Gen.SkelGpbft.skelPostReceive = F3.SkelTie.SkelGpbft.skelPostReceiveExpected ∧
    F3.Gen.SkelGpbft.skelTryQuality = F3.SkelTie.SkelGpbft.skelTryQualityExpected ∧
    F3.Gen.SkelGpbft.skelTryConverge = F3.SkelTie.SkelGpbft.skelTryConvergeExpected ∧
    F3.Gen.SkelGpbft.skelTryPrepare = F3.SkelTie.SkelGpbft.skelTryPrepareExpected ∧
    F3.Gen.SkelGpbft.skelTryCommit = F3.SkelTie.SkelGpbft.skelTryCommitExpected ∧
    F3.Gen.SkelGpbft.skelTryDecide = F3.SkelTie.SkelGpbft.skelTryDecideExpected ∧
    F3.Gen.SkelGpbft.skelBeginDecide = F3.SkelTie.SkelGpbft.skelBeginDecideExpected ∧
    F3.Gen.SkelGpbft.skelSkipToRound = F3.SkelTie.SkelGpbft.skelSkipToRoundExpected ∧
    F3.Gen.SkelGpbft.skelTryRebroadcast = F3.SkelTie.SkelGpbft.skelTryRebroadcastExpected ∧
    F3.Gen.SkelGpbft.skelReceiveEachPrefix = F3.SkelTie.SkelGpbft.skelReceiveEachPrefixExpected ∧
    F3.Gen.SkelGpbft.skelFindStrongQuorumFor = F3.SkelTie.SkelGpbft.skelFindStrongQuorumForExpected ∧
    F3.Gen.SkelGpbft.skelBeginInstance = F3.SkelTie.SkelGpbft.skelBeginInstanceExpected ∧
    F3.Gen.SkelGpbft.skelReceiveAlarm = F3.SkelTie.SkelGpbft.skelReceiveAlarmExpected ∧
    F3.Gen.SkelGpbft.skelHasBase = F3.SkelTie.SkelGpbft.skelHasBaseExpected ∧
    F3.Gen.SkelGpbft.skelTipSetEqual = F3.SkelTie.SkelGpbft.skelTipSetEqualExpected ∧
    F3.Gen.SkelGpbft.skelChainEq = F3.SkelTie.SkelGpbft.skelChainEqExpected ∧
    F3.Gen.SkelGpbft.skelReceiveMany = F3.SkelTie.SkelGpbft.skelReceiveManyExpected ∧
    F3.Gen.SkelGpbft.skelShouldSkipToRound = F3.SkelTie.SkelGpbft.skelShouldSkipToRoundExpected :=
  ⟨F3.SkelTie.SkelGpbft.skelQueueAdd_expected, F3.SkelTie.SkelGpbft.skelQueueDrain_expected, F3.SkelTie.SkelGpbft.skelReceiveMessage_expected, F3.SkelTie.SkelGpbft.skelHandleDecision_expected, F3.SkelTie.SkelGpbft.skelReceiveOne_expected, F3.SkelTie.SkelGpbft.skelPostReceive_expected, F3.SkelTie.SkelGpbft.skelTryQuality_expected, F3.SkelTie.SkelGpbft.skelTryConverge_expected, F3.SkelTie.SkelGpbft.skelTryPrepare_expected, F3.SkelTie.SkelGpbft.skelTryCommit_expected, F3.SkelTie.SkelGpbft.skelTryDecide_expected, F3.SkelTie.SkelGpbft.skelBeginDecide_expected, F3.SkelTie.SkelGpbft.skelSkipToRound_expected, F3.SkelTie.SkelGpbft.skelTryRebroadcast_expected, F3.SkelTie.SkelGpbft.skelReceiveEachPrefix_expected, F3.SkelTie.SkelGpbft.skelFindStrongQuorumFor_expected, F3.SkelTie.SkelGpbft.skelBeginInstance_expected, F3.SkelTie.SkelGpbft.skelReceiveAlarm_expected, F3.SkelTie.SkelGpbft.skelHasBase_expected, F3.SkelTie.SkelGpbft.skelTipSetEqual_expected, F3.SkelTie.SkelGpbft.skelChainEq_expected, F3.SkelTie.SkelGpbft.skelReceiveMany_expected, F3.SkelTie.SkelGpbft.skelShouldSkipToRound_expected⟩

end Skeletons
end F3.Props.C03

namespace F3.Props.C03
section SkeletonsBls

/-- the real BLS verifier / aggregator (trusted base: ideal signatures in the model) still has the statement
structure it had when it was taken into the trusted base -/
theorem signature_backend_structure_as_trusted :
    F3.Gen.SkelBls.skelBlsAggregate = F3.SkelTie.SkelBls.skelBlsAggregateExpected ∧
    F3.Gen.SkelBls.skelBlsVerifyAggregate = F3.SkelTie.SkelBls.skelBlsVerifyAggregateExpected ∧
    F3.Gen.SkelBls.skelBlsNewAggregate = F3.SkelTie.SkelBls.skelBlsNewAggregateExpected ∧
    F3.Gen.SkelBls.skelBlsVerify = F3.SkelTie.SkelBls.skelBlsVerifyExpected ∧
    F3.Gen.SkelBls.skelBlsPubkeyToPoint = F3.SkelTie.SkelBls.skelBlsPubkeyToPointExpected :=
  ⟨F3.SkelTie.SkelBls.skelBlsAggregate_expected, F3.SkelTie.SkelBls.skelBlsVerifyAggregate_expected, F3.SkelTie.SkelBls.skelBlsNewAggregate_expected, F3.SkelTie.SkelBls.skelBlsVerify_expected, F3.SkelTie.SkelBls.skelBlsPubkeyToPoint_expected⟩

end SkeletonsBls
end F3.Props.C03
