import F3.Proofs.InstanceDecision
/-!
# C03 — every reported decision is a self-contained, verifiable finality proof (model part)

On the executable model of `gpbft.go`: whatever validated messages are delivered in whatever order, the
justification handed to the host on termination is for round 0 of DECIDE, lists strictly increasing
(hence distinct) power-table indices that are in range and carry non-zero scaled power, and those signers
form a strong quorum of the instance's table. The instance id and supplemental data are the instance's own
by construction of `buildJustification` (the model carries them implicitly; the harness checks them on the
real decision, together with the aggregate signature and acceptance by `certs.ValidateFinalityCertificates`).
-/
namespace F3.Props.C03
open F3.Instance

/-- **Decision well-formedness**, for every configuration, table, input and op sequence. -/
theorem decision_wellformed (cfg : Cfg) (tbl : Table) (input : Chain) (ops : List Op)
    (hops : ∀ op ∈ ops, OpValid tbl op) (d : Just)
    (hd : (run (init cfg tbl input) ops).1.termination = some d) : DecisionOK tbl d := by
  have h := runFrom_decinv (init cfg tbl input) ops (DecInv_init cfg tbl input) hops
  have ht := runFrom_tbl (init cfg tbl input) ops
  have := h.2 d hd
  rw [ht] at this
  exact this

/-- the signers of a decision hold at least two thirds of the table's scaled power (spelled out) -/
theorem decision_strong_quorum (cfg : Cfg) (tbl : Table) (input : Chain) (ops : List Op)
    (hops : ∀ op ∈ ops, OpValid tbl op) (d : Just)
    (hd : (run (init cfg tbl input) ops).1.termination = some d) :
    3 * (sumPow tbl d.signers : Int) ≥ 2 * (tbl.total : Int) := by
  have h := (decision_wellformed cfg tbl input ops hops d hd).strong
  simpa [strongQ, F3.Spec.Quorum.strong] using h

/-- whenever `FindStrongQuorumFor` finds a quorum in a well-formed tally it is a minimal prefix of the
sorted signer indices: strictly increasing, in range, positive power, strong -/
theorem quorum_result_wellformed (t : Table) (q : Tally) (c : Chain) (sg : List Nat) (hwf : TallyWF t q)
    (h : q.findStrongQuorumFor t c = .found sg) :
    sg.Pairwise (· < ·) ∧ (∀ i ∈ sg, i < t.entries.length ∧ 0 < t.powerAt i) ∧ strongQ t (sumPow t sg) = true :=
  findStrongQuorumFor_spec t q c sg hwf h

/-- Non-vacuity: a three-member table, two DECIDE votes (65% … no: 30000+20000 of 65534 ≥ 2/3) terminate the
instance with signers [0, 1]. -/
def exTbl : Table := { entries := [(1, 30000), (2, 20000), (3, 15534)] }
def exCfg : Cfg := { maxLookahead := 2, rebImmediateAfter := 3, timeout2 := [100], qualityTimeout2 := 100, rebAfter := [50] }
def exOps : List Op :=
  [.start 0,
   .recv 1 { sender := 2, round := 0, phase := .decide, value := [7, 8],
             just := some { round := 0, phase := .commit, value := [7, 8], signers := [0, 1] } },
   .recv 2 { sender := 1, round := 0, phase := .decide, value := [7, 8],
             just := some { round := 0, phase := .commit, value := [7, 8], signers := [0, 1] } }]

example : (run (init exCfg exTbl [7, 8]) exOps).1.termination =
    some { round := 0, phase := .decide, value := [7, 8], signers := [0, 1] } := by decide

example : ∀ op ∈ exOps, OpValid exTbl op := by
  intro op hop
  simp only [exOps, List.mem_cons, List.mem_nil_iff, or_false] at hop
  rcases hop with rfl | rfl | rfl <;> simp [OpValid, MsgOk, exTbl, Table.power]

end F3.Props.C03
