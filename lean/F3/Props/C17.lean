import F3.Proofs.SkelTieStore
import F3.Proofs.StoreSnap
import F3.Proofs.StoreWitness
/-!
# C17 — Snapshot export/import reproduces the store; malformed snapshots are rejected

About `exportSnapshot` / `importSnapshot` / `truncateBlocks` of `F3/Model/Store.lean` (model of
`certstore/snapshot.go`, executed by `f3d_store` against the real exporter and importer). A snapshot
on the wire is a list of length-prefixed blocks (`frame`); the byte sizes of the blocks are arbitrary
positive numbers (theorems quantify over them). The digest clause ("the CID is the hash of the
bytes") is checked on the implementation only: hashes are not modelled.
-/
namespace F3.Props.C17
open F3.Store

/-- **Round trip.** Export any represented store at any end point `n` holding at least one
certificate, frame it with any block sizes, import it into a datastore holding no store under any
(uniform) checkpoint period, with no manifest or an agreeing one: the import succeeds, the target
represents exactly the history truncated to `n`, and a restart of the target observes that history's
certificates, tables and latest pointer (`Spec.obs`) — the exporter's observations up to `n`. -/
theorem import_export_roundtrip (cfgE cfgI : Cfg) (hu : cfgI.Uniform) {ds : DS} {sp : Spec} {m : Mem}
    (hr : Repr cfgE.freq ds sp) (hm : MemOk m sp) {n : Nat} (h1 : sp.first ≤ n) (h2 : n < sp.next)
    (hsz : Nat × Nat) (szs : List (Nat × Nat)) (hszs : szs.length = (sp.truncateTo n).certs.length)
    {tds : DS} (htds : NotInit tds) (o o' : Orders) (mf : Option Manifest)
    (hmf : manifestAgrees mf ⟨1, sp.first, n, sp.init⟩) :
    exportSnapshot cfgE m ds n = .ok (⟨1, sp.first, n, sp.init⟩, (sp.truncateTo n).certs) ∧
    (importSnapshot cfgI tds o ⟨frame ⟨1, sp.first, n, sp.init⟩ hsz (sp.truncateTo n).certs szs, .clean⟩ mf).res = .ok () ∧
    Repr cfgI.freq (applyWs tds (importSnapshot cfgI tds o
        ⟨frame ⟨1, sp.first, n, sp.init⟩ hsz (sp.truncateTo n).certs szs, .clean⟩ mf).ws) (sp.truncateTo n) ∧
    reobserve cfgI (applyWs tds (importSnapshot cfgI tds o
        ⟨frame ⟨1, sp.first, n, sp.init⟩ hsz (sp.truncateTo n).certs szs, .clean⟩ mf).ws) o' .open
      = .ok (sp.truncateTo n).obs := by
  unfold Spec.next at h2
  have htr : sp.truncateTo n = sp.takeN (n + 1 - sp.first) := rfl
  have hle : n + 1 - sp.first ≤ sp.certs.length := by omega
  have hlen : (sp.truncateTo n).certs.length = n + 1 - sp.first := by rw [htr]; exact Spec.takeN_len sp hle
  have hfacts : (sp.truncateTo n).Facts := by rw [htr]; exact hr.facts.takeN hle
  have himp := importSnapshot_valid cfgI htds o (sp.truncateTo n) hfacts hr.canon
    (by rw [hlen]; have := hr.small; omega)
    (by intro h; have := congrArg List.length h; rw [hlen] at this; simp at this; omega)
    ⟨1, sp.first, n, sp.init⟩ rfl rfl (by rw [hlen]; show sp.first + (n + 1 - sp.first) = n + 1; omega)
    ⟨frame ⟨1, sp.first, n, sp.init⟩ hsz (sp.truncateTo n).certs szs, .clean⟩ _ _ rfl rfl
    (frame_bodies _ _ hszs) rfl mf hmf
  refine ⟨exportSnapshot_repr cfgE hr hm (by unfold Spec.next; omega), himp.1, himp.2, ?_⟩
  exact reobserve_repr_open cfgI o' himp.2 (Or.inl hu)

/-- **Soundness of acceptance**: whatever bytes are accepted decode to a header followed by
certificates only, end at a block boundary (or after a bare length prefix — see DESIGN), agree with
the manifest, carry exactly the instances `first … latest` of the header in order, and at every
checkpoint instance and at the end the table obtained from the header's table by the deltas so far
hashes to the certificate's commitment. -/
theorem import_accepts_only (cfg : Cfg) (ds : DS) (o : Orders) (s : Stream) (mf : Option Manifest)
    (hok : (importSnapshot cfg ds o s mf).res = .ok ()) :
    s.tail.isEOF cfg.lenientEOF = true ∧ ∃ (hb : Block) (bs : List Block) (hdr : Header) (cs : List Cert),
      s.blocks = hb :: bs ∧ hb.body = .header hdr ∧ manifestCheck mf hdr = none ∧
      bs.map (·.body) = cs.map Body.cert ∧ cs ≠ [] ∧
      (∀ k (hk : k < cs.length), cs[k].inst = hdr.first + k) ∧ hdr.first + cs.length = hdr.latest + 1 ∧
      (∀ k (hk : k < cs.length), ((cs[k].inst + 1) % cfg.freq = 0 ∨ k + 1 = cs.length) →
        ∃ pm, applyDiffsMap (toMap hdr.init) ((cs.take (k + 1)).map (·.delta)) = .ok pm ∧
          cs[k].commit = Commit.known (toArray pm)) :=
  importSnapshot_sound cfg ds o s mf hok

/-- **Gaps, reordering, duplicates, surplus or missing certificates, header or manifest
disagreement, junk blocks, no certificate at all — all rejected**: for a stream whose blocks are a
header `hdr` followed by certificates `cs`, any of these defects makes the import fail. -/
theorem import_rejects (cfg : Cfg) (ds : DS) (o : Orders) (s : Stream) (mf : Option Manifest)
    (hb : Block) (bs : List Block) (hdr : Header) (cs : List Cert)
    (hs : s.blocks = hb :: bs) (hhb : hb.body = .header hdr) (hbs : bs.map (·.body) = cs.map Body.cert)
    (hbad : (∃ k, ∃ hk : k < cs.length, cs[k].inst ≠ hdr.first + k)       -- gap / reorder / duplicate
          ∨ hdr.first + cs.length ≠ hdr.latest + 1                         -- surplus / missing / header latest or first off
          ∨ cs = []                                                        -- header only
          ∨ manifestCheck mf hdr ≠ none                                    -- manifest disagrees
          ∨ s.tail.isEOF cfg.lenientEOF = false) :                                        -- cut inside a prefix or a body
    ∃ e, (importSnapshot cfg ds o s mf).res = .error e := by
  cases hres : (importSnapshot cfg ds o s mf).res with
  | error e => exact ⟨e, rfl⟩
  | ok u =>
    exfalso
    obtain ⟨hte, hb', bs', hdr', cs', hs', hhb', hmc, hbs', hne, hinst, hlen, _⟩ :=
      import_accepts_only cfg ds o s mf (by rw [hres])
    rw [hs] at hs'
    obtain ⟨rfl, rfl⟩ := List.cons.inj hs'
    rw [hhb] at hhb'
    have hh : hdr = hdr' := Body.header.inj hhb'
    subst hh
    have hc : cs = cs' := cert_map_injective (hbs.symm.trans hbs')
    subst hc
    rcases hbad with ⟨k, hk, hne'⟩ | h | h | h | h
    · exact hne' (hinst k hk)
    · exact h hlen
    · exact hne h
    · exact h hmc
    · rw [hte] at h; cases h

theorem import_rejects_junk (cfg : Cfg) (ds : DS) (o : Orders) (s : Stream) (mf : Option Manifest)
    (hjunk : ∃ b ∈ s.blocks, b.body = .junk) : ∃ e, (importSnapshot cfg ds o s mf).res = .error e := by
  cases hres : (importSnapshot cfg ds o s mf).res with
  | error e => exact ⟨e, rfl⟩
  | ok u =>
    exfalso
    obtain ⟨_, hb', bs', hdr', cs', hs', hhb', _, hbs', _⟩ := import_accepts_only cfg ds o s mf (by rw [hres])
    obtain ⟨b, hbm, hbj⟩ := hjunk
    rw [hs'] at hbm
    rcases List.mem_cons.1 hbm with h | h
    · subst h; rw [hhb'] at hbj; cases hbj
    · have : b.body ∈ bs'.map (·.body) := List.mem_map.2 ⟨b, h, rfl⟩
      rw [hbs', hbj] at this
      obtain ⟨c, _, hc⟩ := List.mem_map.1 this
      cases hc

/-- **Truncation at every byte is rejected**: cut the framed export of a history with consecutive
instances ending at the header's latest instance (which every export is) at *any* byte position
before its end — inside the header, at a block boundary, inside or right after a length prefix,
inside a certificate — and the import fails, whatever the block sizes. -/
theorem import_rejects_truncation (cfg : Cfg) (ds : DS) (o : Orders) (mf : Option Manifest)
    (hdr : Header) (cs : List Cert) (hsz : Nat × Nat) (szs : List (Nat × Nat))
    (hszs : szs.length = cs.length) (hpos : 0 < hsz.1 ∧ 0 < hsz.2 ∧ ∀ z ∈ szs, 0 < z.1 ∧ 0 < z.2)
    (hlen : hdr.first + cs.length = hdr.latest + 1)
    (p : Nat) (hp : p < totalSize (frame hdr hsz cs szs)) :
    ∃ e, (importSnapshot cfg ds o (truncateBlocks (frame hdr hsz cs szs) p) mf).res = .error e := by
  have hposb : ∀ b ∈ frame hdr hsz cs szs, 0 < b.vlen ∧ 0 < b.blen := by
    intro b hb
    unfold frame at hb
    rcases List.mem_cons.1 hb with h | h
    · subst h; exact ⟨hpos.1, hpos.2.1⟩
    · obtain ⟨⟨c, z⟩, hz, rfl⟩ := List.mem_map.1 h
      exact hpos.2.2 z (List.of_mem_zip hz).2
  obtain ⟨j, hj, hjb⟩ := truncateBlocks_strict_prefix _ hposb p hp
  have hflen : (frame hdr hsz cs szs).length = cs.length + 1 := by
    simp [frame, List.length_zip, hszs]
  cases hres : (importSnapshot cfg ds o (truncateBlocks (frame hdr hsz cs szs) p) mf).res with
  | error e => exact ⟨e, rfl⟩
  | ok u =>
    exfalso
    obtain ⟨_, hb', bs', hdr', cs', hs', hhb', _, hbs', hne, _, hlen', _⟩ :=
      import_accepts_only cfg ds o _ mf (by rw [hres])
    rw [hjb] at hs'
    cases j with
    | zero => simp at hs'
    | succ j =>
      unfold frame at hs'
      rw [List.take_succ_cons] at hs'
      obtain ⟨rfl, hbs2⟩ := List.cons.inj hs'
      have hh : hdr = hdr' := Body.header.inj hhb'
      subst hh
      have hl1 : bs'.length = cs'.length := by
        have := congrArg List.length hbs'; simpa using this
      have hl2 : bs'.length ≤ j := by rw [← hbs2, List.length_take]; exact Nat.min_le_left _ _
      rw [hflen] at hj
      omega

/-- The truncation clause for streams that are *not* prefixes of an export: a snapshot whose last
block is cut anywhere — even right after its length prefix — is rejected by a reader that reports
that cut as an error (`lenientEOF = false`). -/
theorem import_rejects_cut_block (cfg : Cfg) (hstrict : cfg.lenientEOF = false) (ds : DS) (o : Orders) (s : Stream)
    (mf : Option Manifest) (hcut : s.tail ≠ .clean) : ∃ e, (importSnapshot cfg ds o s mf).res = .error e := by
  cases hres : (importSnapshot cfg ds o s mf).res with
  | error e => exact ⟨e, rfl⟩
  | ok u =>
    exfalso
    have := (import_accepts_only cfg ds o s mf (by rw [hres])).1
    rw [hstrict] at this
    cases ht : s.tail <;> rw [ht] at this <;> first | exact hcut ht | cases this

open F3.Store.Witness in
/-- The pinned reader (`io.ReadFull` reports plain `io.EOF` when it could not read a single byte, the
importer takes `io.EOF` for the end of the snapshot) **accepts** a complete snapshot followed by a
bare length prefix, i.e. a snapshot whose last block is truncated. -/
theorem dangling_prefix_accepted_lenient :
    (importSnapshot cfgPinned [] {} ⟨frame ⟨1, 3, 4, T0⟩ (1, 40) [c3, c4] [(2, 300), (2, 280)], .afterVarint⟩ none).res = .ok () ∧
    (importSnapshot cfgFixed [] {} ⟨frame ⟨1, 3, 4, T0⟩ (1, 40) [c3, c4] [(2, 300), (2, 280)], .afterVarint⟩ none).res
      = .error .snapDecode := by
  decide

/-- The clause "deltas that do not reproduce the committed tables are rejected", at full strength:
every certificate of an accepted snapshot commits to the table its delta yields. -/
def ImportRejectsBadDeltaStatement (cfg : Cfg) : Prop :=
  ∀ (ds : DS) (o : Orders) (s : Stream) (mf : Option Manifest) (hb : Block) (bs : List Block) (hdr : Header) (cs : List Cert),
    s.blocks = hb :: bs → hb.body = .header hdr → bs.map (·.body) = cs.map Body.cert →
    (importSnapshot cfg ds o s mf).res = .ok () → commitsOk hdr.init cs = true

/-- What the importer as coded guarantees (**partial**, S9): the running table is compared with the
commitment only at checkpoint instances and at the last certificate. A wrong delta is therefore
rejected iff its effect is still visible at the next of those points. -/
theorem import_rejects_bad_delta_partial (cfg : Cfg) (ds : DS) (o : Orders) (s : Stream) (mf : Option Manifest)
    (hb : Block) (bs : List Block) (hdr : Header) (cs : List Cert)
    (hs : s.blocks = hb :: bs) (hhb : hb.body = .header hdr) (hbs : bs.map (·.body) = cs.map Body.cert)
    (hbad : ∃ k, ∃ hk : k < cs.length, ((cs[k].inst + 1) % cfg.freq = 0 ∨ k + 1 = cs.length) ∧
      ∀ pm, applyDiffsMap (toMap hdr.init) ((cs.take (k + 1)).map (·.delta)) = .ok pm →
        cs[k].commit ≠ Commit.known (toArray pm)) :
    ∃ e, (importSnapshot cfg ds o s mf).res = .error e := by
  cases hres : (importSnapshot cfg ds o s mf).res with
  | error e => exact ⟨e, rfl⟩
  | ok u =>
    exfalso
    obtain ⟨_, hb', bs', hdr', cs', hs', hhb', _, hbs', _, _, _, hck⟩ :=
      import_accepts_only cfg ds o s mf (by rw [hres])
    rw [hs] at hs'
    obtain ⟨rfl, rfl⟩ := List.cons.inj hs'
    rw [hhb] at hhb'
    have hh : hdr = hdr' := Body.header.inj hhb'
    subst hh
    have hc : cs = cs' := cert_map_injective (hbs.symm.trans hbs')
    subst hc
    obtain ⟨k, hk, hor, hno⟩ := hbad
    obtain ⟨pm, hpm, hcm⟩ := hck k hk hor
    exact hno pm hpm hcm

open F3.Store.Witness.S9 in
/-- **S9 witness**: the compensating pair is accepted (no checkpoint between instances 3 and 5 at
period 1440), although certificate 3 commits to a table its delta does not produce; the imported
store then serves for instance 4 a table that contradicts certificate 3. -/
theorem import_accepts_compensating_witness :
    (importSnapshot cfg [] {} snap none).res = .ok () ∧ commitsOk hdr.init [b3, b4, g5] = false ∧
    snapshotOk snap none = false ∧ ¬ ImportRejectsBadDeltaStatement cfg := by
  refine ⟨by decide, by decide, by decide, ?_⟩
  intro h
  have := h [] {} snap none _ _ hdr [b3, b4, g5] rfl rfl (by decide) (by decide)
  revert this; decide

/-! ## Non-vacuity -/

open F3.Store.Witness in
/-- A store to export (two certificates, evolving table, first instance 3), an end point, and the
round trip evaluated: the import of the framed export is accepted and the restart observes `sp2`. -/
example : Repr cfgFixed.freq ds2 sp2 ∧ MemOk m2 sp2 ∧ sp2.first ≤ 4 ∧ 4 < sp2.next ∧ NotInit ([] : DS) ∧
    reobserve cfgFixed (applyWs [] (importSnapshot cfgFixed [] {}
      ⟨frame ⟨1, 3, 4, T0⟩ (1, 40) [c3, c4] [(2, 300), (2, 280)], .clean⟩ none).ws) {} .open = .ok sp2.obs :=
  ⟨repr2, memOk2, by decide, by decide, notInit_nil, by decide⟩

open F3.Store.Witness in
/-- Truncation inside the second certificate, right after the second length prefix, and at the block
boundary before it: all rejected (sizes 1+40, 2+300, 2+280), by the strict and by the lenient reader. -/
example : (importSnapshot cfgFixed [] {} (truncateBlocks (frame ⟨1, 3, 4, T0⟩ (1, 40) [c3, c4] [(2, 300), (2, 280)]) 400) none).res = .error .snapDecode ∧
    (importSnapshot cfgFixed [] {} (truncateBlocks (frame ⟨1, 3, 4, T0⟩ (1, 40) [c3, c4] [(2, 300), (2, 280)]) 345) none).res = .error .snapDecode ∧
    (importSnapshot cfgPinned [] {} (truncateBlocks (frame ⟨1, 3, 4, T0⟩ (1, 40) [c3, c4] [(2, 300), (2, 280)]) 345) none).res = .error .snapLatest ∧
    (importSnapshot cfgFixed [] {} (truncateBlocks (frame ⟨1, 3, 4, T0⟩ (1, 40) [c3, c4] [(2, 300), (2, 280)]) 343) none).res = .error .snapLatest := by
  decide

end F3.Props.C17

namespace F3.Props.C17
section Skeletons

/-- **The Go functions this property's models mirror still have the statement structure the models were written
against**: each regenerated skeleton (pre-order list of statement kinds, `tools/go2lean/skel.go`) equals the pinned
expectation of `F3/Proofs/SkelTie*.lean`. An added early return, cap, loop or dropped branch in one of these functions
breaks this obligation even when no regenerated *expression* changes. -/
theorem code_structure_as_modelled :
    F3.Gen.SkelStore.skelStorePut = F3.SkelTie.SkelStore.skelStorePutExpected ∧
    F3.Gen.SkelStore.skelStoreGetRange = F3.SkelTie.SkelStore.skelStoreGetRangeExpected ∧
    F3.Gen.SkelStore.skelStoreOpen = F3.SkelTie.SkelStore.skelStoreOpenExpected ∧
    F3.Gen.SkelStore.skelExportSnapshot = F3.SkelTie.SkelStore.skelExportSnapshotExpected ∧
    F3.Gen.SkelStore.skelReadSnapshotBlock = F3.SkelTie.SkelStore.skelReadSnapshotBlockExpected ∧
    F3.Gen.SkelStore.skelImportSnapshot = F3.SkelTie.SkelStore.skelImportSnapshotExpected :=
  ⟨F3.SkelTie.SkelStore.skelStorePut_expected, F3.SkelTie.SkelStore.skelStoreGetRange_expected, F3.SkelTie.SkelStore.skelStoreOpen_expected, F3.SkelTie.SkelStore.skelExportSnapshot_expected, F3.SkelTie.SkelStore.skelReadSnapshotBlock_expected, F3.SkelTie.SkelStore.skelImportSnapshot_expected⟩

end Skeletons
end F3.Props.C17
