import F3.Proofs.SkelTieStore
import F3.Proofs.StoreCrash
import F3.Proofs.StoreWitness
/-!
# C10 — Certificate store operations are crash-atomic at datastore-write granularity

All theorems are about `F3.Store` (`F3/Model/Store.lean`), the definitions `f3d_store` executes against
the log of the real `certstore`. A crash after `k` datastore writes of an operation whose write
sequence is `ws` leaves `crashAt ds ws k`; a restart is `reobserve` (one of the open variants, then
every certificate and every power table). `OrdersOk ds o`: the key orders the datastore's queries
return are permutations of the keys present (any order — theorems quantify over all of them).

`cfg.resumeInner = true` is the repaired `open` (continues a wipe whose tombstone is inside the
namespace); for `false` (pinned tree, S1) `deleteAll_not_atomic_unfixed` proves the negation.
-/
namespace F3.Props.C10
open F3.Store

variable {cfg : Cfg} {ds : DS} {sp : Spec}

/-- **Put is crash-atomic**: for every represented store, every handle state, every certificate
(admissible or not) and every crash point of the `Put`, every restart observes either exactly what
it would have observed before the `Put` or exactly what it observes after the complete `Put`. -/
theorem crash_atomic_put (hu : cfg.Uniform) (hr : Repr cfg.freq ds sp) {m : Mem} (hm : MemOk m sp) (hs : SubsOk m)
    (hsmall : sp.certs.length + 1 < maxInt) (c : Cert) (k : Nat) (hk : k ≤ (put cfg m c).ws.length)
    (v : Variant) (o oB oA : Orders) (ho : OrdersOk (crashAt ds (put cfg m c).ws k) o)
    (hoB : OrdersOk ds oB) (hoA : OrdersOk (applyWs ds (put cfg m c).ws) oA) :
    reobserve cfg (crashAt ds (put cfg m c).ws k) o v = reobserve cfg ds oB v ∨
    reobserve cfg (crashAt ds (put cfg m c).ws k) o v = reobserve cfg (applyWs ds (put cfg m c).ws) oA v := by
  have hafter : Repr cfg.freq (applyWs ds (put cfg m c).ws) (sp.put c) := by
    rcases put_crash_states hu hr hm hs hsmall c _ (Nat.le_refl _) with ⟨h, _⟩ | ⟨_, h⟩
    · exact absurd h (Nat.lt_irrefl _)
    · rwa [List.take_length] at h
  refine before_or_after (looksLike_of_repr hu hr) (looksLike_of_repr hu hafter) ?_ o oB oA ho hoB hoA v
  rcases put_crash_states hu hr hm hs hsmall c k hk with ⟨_, h⟩ | ⟨_, h⟩
  · exact Or.inl (looksLike_of_repr hu h)
  · exact Or.inr (looksLike_of_repr hu h)

/-- The state changes exactly at the last write (the latest pointer): before it the datastore still
represents the old history (a stray certificate / checkpoint above `latest` is harmless), after it
the extended one. -/
theorem put_commit_point (hu : cfg.Uniform) (hr : Repr cfg.freq ds sp) {m : Mem} (hm : MemOk m sp) (hs : SubsOk m)
    (hsmall : sp.certs.length + 1 < maxInt) (c : Cert) (k : Nat) (hk : k ≤ (put cfg m c).ws.length) :
    (k < (put cfg m c).ws.length → Repr cfg.freq (crashAt ds (put cfg m c).ws k) sp) ∧
    (k = (put cfg m c).ws.length → Repr cfg.freq (crashAt ds (put cfg m c).ws k) (sp.put c)) := by
  rcases put_crash_states hu hr hm hs hsmall c k hk with ⟨h1, h⟩ | ⟨h1, h⟩
  · exact ⟨fun _ => h, fun e => absurd h1 (by omega)⟩
  · exact ⟨fun e => absurd h1 (by omega), fun _ => h⟩

/-- **The interrupted Put can be repeated**: after any crash point, reopening succeeds without
writing, and putting the same admissible certificate again succeeds and yields the extended history. -/
theorem retry_put (hu : cfg.Uniform) (hr : Repr cfg.freq ds sp) {m : Mem} (hm : MemOk m sp) (hs : SubsOk m)
    (hsmall : sp.certs.length + 1 < maxInt) {c : Cert} (hadm : sp.admits c = true) (k : Nat)
    (hk : k ≤ (put cfg m c).ws.length) (o : Orders) :
    ∃ m' m'', openStore cfg (crashAt ds (put cfg m c).ws k) o = ⟨[], .ok m'⟩ ∧
      (put cfg m' c).res = .ok m'' ∧
      Repr cfg.freq (applyWs (crashAt ds (put cfg m c).ws k) (put cfg m' c).ws) (sp.push c) := by
  have hput : sp.put c = sp.push c := by unfold Spec.put; rw [if_pos hadm]
  rcases put_crash_states hu hr hm hs hsmall c k hk with ⟨_, h⟩ | ⟨_, h⟩
  · obtain ⟨T, hT, hopen⟩ := openStore_repr cfg o h (Or.inl hu)
    have hm' := memOk_memOf hT
    have hs' : SubsOk (memOf sp T) := by intro s hs; simp [memOf] at hs
    obtain ⟨t', ht', _, hp⟩ := put_admitted cfg hm' h.facts hs' hadm
    refine ⟨memOf sp T, _, hopen, by rw [hp], ?_⟩
    rw [hp]; exact repr_put h hadm ht' hsmall
  · rw [hput] at h
    obtain ⟨T, hT, hopen⟩ := openStore_repr cfg o h (Or.inl hu)
    have hm' := memOk_memOf hT
    obtain ⟨hinst, hchain, _⟩ := (Spec.admits_iff sp c).1 hadm
    have hst := put_stale cfg hm' h.facts (c := c) (by rw [Spec.push_first]; unfold Spec.next at hinst; omega)
      (by rw [Spec.push_next]; omega) hchain
    refine ⟨_, _, hopen, by rw [hst], ?_⟩
    rw [hst]; exact h

/-- **CreateStore / OpenOrCreateStore are crash-atomic** on a datastore holding no store: after the
first write (the initial power table) a restart still finds no store; the first-instance marker is
the commit point. Stray `/power/*` keys are invisible to every later operation (`Repr` ignores them). -/
theorem crash_atomic_create (hu : cfg.Uniform) (h : NotInit ds) (first : Nat) {init : Table} (hne : init ≠ [])
    (hc : Canon init) (oc : Orders) (k : Nat) (hk : k ≤ (createStore cfg ds oc first init).ws.length)
    (v : Variant) (o oB oA : Orders) (ho : OrdersOk (crashAt ds (createStore cfg ds oc first init).ws k) o)
    (hoB : OrdersOk ds oB) (hoA : OrdersOk (applyWs ds (createStore cfg ds oc first init).ws) oA) :
    reobserve cfg (crashAt ds (createStore cfg ds oc first init).ws k) o v = reobserve cfg ds oB v ∨
    reobserve cfg (crashAt ds (createStore cfg ds oc first init).ws k) o v =
      reobserve cfg (applyWs ds (createStore cfg ds oc first init).ws) oA v := by
  rw [createStore_notInit cfg oc h first hne] at hk ho hoA ⊢
  simp only at hk ho hoA ⊢
  have hafter : Repr cfg.freq (applyWs ds (createWrites first init)) ⟨first, init, []⟩ := repr_create cfg.freq h first hne hc
  refine before_or_after (looksLike_of_notInit h) (looksLike_of_repr hu hafter) ?_ o oB oA ho hoB hoA v
  rcases create_crash_states cfg.freq h first hne hc k hk with ⟨_, h'⟩ | ⟨_, h'⟩
  · exact Or.inl (looksLike_of_notInit h')
  · exact Or.inr (looksLike_of_repr hu h')

theorem crash_atomic_openOrCreate (hu : cfg.Uniform) (h : NotInit ds) (first : Nat) {init : Table} (hne : init ≠ [])
    (hc : Canon init) (oc : Orders) (k : Nat) (hk : k ≤ (openOrCreateStore cfg ds oc first init).ws.length)
    (v : Variant) (o oB oA : Orders) (ho : OrdersOk (crashAt ds (openOrCreateStore cfg ds oc first init).ws k) o)
    (hoB : OrdersOk ds oB) (hoA : OrdersOk (applyWs ds (openOrCreateStore cfg ds oc first init).ws) oA) :
    reobserve cfg (crashAt ds (openOrCreateStore cfg ds oc first init).ws k) o v = reobserve cfg ds oB v ∨
    reobserve cfg (crashAt ds (openOrCreateStore cfg ds oc first init).ws k) o v =
      reobserve cfg (applyWs ds (openOrCreateStore cfg ds oc first init).ws) oA v := by
  rw [openOrCreate_notInit cfg oc h first hne] at hk ho hoA ⊢
  simp only at hk ho hoA ⊢
  have hafter : Repr cfg.freq (applyWs ds (createWrites first init)) ⟨first, init, []⟩ := repr_create cfg.freq h first hne hc
  refine before_or_after (looksLike_of_notInit h) (looksLike_of_repr hu hafter) ?_ o oB oA ho hoB hoA v
  rcases create_crash_states cfg.freq h first hne hc k hk with ⟨_, h'⟩ | ⟨_, h'⟩
  · exact Or.inl (looksLike_of_notInit h')
  · exact Or.inr (looksLike_of_repr hu h')

/-- Opening (any variant) or creating on a datastore that already holds a store writes nothing, so
there is no crash point at all. -/
theorem open_writes_nothing (hu : cfg.Uniform) (hr : Repr cfg.freq ds sp) (o : Orders) (first : Nat) {init : Table}
    (hne : init ≠ []) :
    (openStore cfg ds o).ws = [] ∧ (createStore cfg ds o first init).ws = [] ∧
    (openOrCreateStore cfg ds o sp.first sp.init).ws = [] := by
  obtain ⟨_, _, h1⟩ := openStore_repr cfg o hr (Or.inl hu)
  obtain ⟨_, _, h3⟩ := openOrCreate_repr cfg o hr (Or.inl hu)
  rw [h1, createStore_repr cfg o hr first hne, h3]
  exact ⟨rfl, rfl, rfl⟩

/-- The retry of an interrupted creation (the node's idiom: `OpenStore`, `CreateStore` if that
reports "not initialised") always ends in the created store. -/
theorem retry_create (hu : cfg.Uniform) (h : NotInit ds) (first : Nat) {init : Table} (hne : init ≠ [])
    (hc : Canon init) (k : Nat) (hk : k ≤ (createWrites first init).length) (o o' : Orders) :
    ((openStore cfg (crashAt ds (createWrites first init) k) o).res = .error .notInitialized ∧
        ∃ m, (createStore cfg (crashAt ds (createWrites first init) k) o' first init).res = .ok m ∧
          Repr cfg.freq (applyWs (crashAt ds (createWrites first init) k)
            (createStore cfg (crashAt ds (createWrites first init) k) o' first init).ws) ⟨first, init, []⟩) ∨
    (∃ m, openStore cfg (crashAt ds (createWrites first init) k) o = ⟨[], .ok m⟩ ∧
      Repr cfg.freq (crashAt ds (createWrites first init) k) ⟨first, init, []⟩) := by
  unfold crashAt
  rcases create_crash_states cfg.freq h first hne hc k hk with ⟨_, h'⟩ | ⟨_, h'⟩
  · refine Or.inl ⟨by rw [openStore_notInit cfg o h'], ?_⟩
    refine ⟨_, by rw [createStore_notInit cfg o' h' first hne], ?_⟩
    rw [createStore_notInit cfg o' h' first hne]
    exact repr_create cfg.freq h' first hne hc
  · obtain ⟨T, _, hopen⟩ := openStore_repr cfg o h' (Or.inl hu)
    exact Or.inr ⟨_, hopen, h'⟩

/-- **DeleteAll is crash-atomic for the repaired `open`**: a crash before the tombstone is written
leaves the store as it was; at every later crash point — whatever subset of keys has been deleted, in
whatever order the datastore enumerated them — every restart observes exactly what it observes after
the complete wipe. -/
theorem crash_atomic_deleteAll (hres : cfg.resumeInner = true) (hu : cfg.Uniform) (hr : Repr cfg.freq ds sp)
    {order : List Key} (hp : order.Perm (scopeKeys .inner (dsPut ds .tomb .tomb))) (k : Nat)
    (hk : k ≤ (deleteAll ds order).ws.length)
    (v : Variant) (o oB oA : Orders) (ho : OrdersOk (crashAt ds (deleteAll ds order).ws k) o)
    (hoB : OrdersOk ds oB) (hoA : OrdersOk (applyWs ds (deleteAll ds order).ws) oA) :
    reobserve cfg (crashAt ds (deleteAll ds order).ws k) o v = reobserve cfg ds oB v ∨
    reobserve cfg (crashAt ds (deleteAll ds order).ws k) o v = reobserve cfg (applyWs ds (deleteAll ds order).ws) oA v := by
  rw [deleteAll_eq hp] at hk ho hoA ⊢
  simp only at hk ho hoA ⊢
  have hafter : NotInit (applyWs ds (W.put .tomb .tomb :: wipeWrites .inner order)) := by
    rcases deleteAll_prefix hr.noRootTomb hp _ (Nat.le_refl _) with ⟨h0, _⟩ | ⟨_, h1, _⟩ | ⟨_, h2⟩
    · simp at h0
    · exact absurd h1 (Nat.lt_irrefl _)
    · rwa [List.take_length] at h2
  refine before_or_after (looksLike_of_repr hu hr) (looksLike_of_notInit hafter) ?_ o oB oA ho hoB hoA v
  rcases deleteAll_prefix hr.noRootTomb hp k hk with ⟨_, h0⟩ | ⟨_, _, h1⟩ | ⟨_, h2⟩
  · left; unfold crashAt; rw [h0]; exact looksLike_of_repr hu hr
  · right; exact looksLike_of_wiping hres h1
  · right; exact looksLike_of_notInit h2

/-- **An interrupted wipe is completed on reopen** (repaired `open`): from any half-wiped datastore,
`OpenStore` deletes everything that is left inside the namespace, the tombstone last, and reports
"not initialised"; a crash *during that resumed wipe* leaves the wipe pending again. -/
theorem wipe_completed_on_reopen (hres : cfg.resumeInner = true) (hw : Wiping ds) (o : Orders) (ho : OrdersOk ds o) :
    openStore cfg ds o = ⟨wipeWrites .inner o.inner, .error .notInitialized⟩ ∧
    NotInit (applyWs ds (openStore cfg ds o).ws) ∧
    ∀ k, k < (wipeWrites .inner o.inner).length → Wiping (crashAt ds (openStore cfg ds o).ws k) := by
  have hoc := openCore_wiping cfg hres o hw ho
  have hni := notInit_wipe hw.noRootTomb ho
  have hopen := openStore_of_core hoc hni
  refine ⟨hopen, by rw [hopen]; exact hni, ?_⟩
  intro k hk
  rw [hopen]
  exact wiping_prefix hw (inner_of_perm ho) hk

/-- Creating on a half-wiped datastore first completes the wipe, then creates; every crash point of
that combined write sequence looks like "no store" or like the freshly created store. -/
theorem crash_atomic_create_over_wipe (hres : cfg.resumeInner = true) (hu : cfg.Uniform) (hw : Wiping ds) (oc : Orders)
    (hoc : OrdersOk ds oc) (first : Nat) {init : Table} (hne : init ≠ []) (hc : Canon init) (k : Nat)
    (hk : k ≤ (openOrCreateStore cfg ds oc first init).ws.length) :
    LooksLike cfg (crashAt ds (openOrCreateStore cfg ds oc first init).ws k) .notInit ∨
    LooksLike cfg (crashAt ds (openOrCreateStore cfg ds oc first init).ws k) (.hist ⟨first, init, []⟩) := by
  have hcore := openCore_wiping cfg hres oc hw hoc
  have hni := notInit_wipe hw.noRootTomb hoc
  rw [openOrCreate_of_core hcore hni first hne] at hk ⊢
  simp only at hk ⊢
  unfold crashAt
  by_cases hlt : k < (wipeWrites .inner oc.inner).length
  · rw [List.take_append_of_le_length (Nat.le_of_lt hlt)]
    exact Or.inl (looksLike_of_wiping hres (wiping_prefix hw (inner_of_perm hoc) hlt))
  · have hge : (wipeWrites .inner oc.inner).length ≤ k := by omega
    rw [List.take_append, List.take_of_length_le hge, applyWs_append]
    have hk2 : k - (wipeWrites .inner oc.inner).length ≤ (createWrites first init).length := by
      rw [List.length_append] at hk; omega
    rcases create_crash_states cfg.freq hni first hne hc _ hk2 with ⟨_, h'⟩ | ⟨_, h'⟩
    · exact Or.inl (looksLike_of_notInit h')
    · exact Or.inr (looksLike_of_repr hu h')

/-- The empty datastore is good, and (by the theorems above) every crash point of every operation
started in a good datastore is good again: `put_commit_point`, `create_crash_states`,
`deleteAll_prefix`, `wipe_completed_on_reopen`. Here: the classification for `DeleteAll`. -/
theorem good_deleteAll (hr : Repr cfg.freq ds sp) {order : List Key}
    (hp : order.Perm (scopeKeys .inner (dsPut ds .tomb .tomb))) (k : Nat) (hk : k ≤ (deleteAll ds order).ws.length) :
    Good cfg (crashAt ds (deleteAll ds order).ws k) := by
  rw [deleteAll_eq hp] at hk ⊢
  rcases deleteAll_prefix hr.noRootTomb hp k hk with ⟨_, h0⟩ | ⟨_, _, h1⟩ | ⟨_, h2⟩
  · unfold crashAt; simp only; rw [h0]; exact Or.inr (Or.inr ⟨sp, hr⟩)
  · exact Or.inl h1
  · exact Or.inr (Or.inl h2)

theorem good_empty : Good cfg [] := Or.inr (Or.inl ⟨rfl, rfl, rfl, rfl⟩)

/-- The wipe clause at full strength, as a statement about a configuration. -/
def DeleteAllAtomicStatement (cfg : Cfg) : Prop :=
  ∀ (ds : DS) (sp : Spec), Repr cfg.freq ds sp →
  ∀ (order : List Key), order.Perm (scopeKeys .inner (dsPut ds .tomb .tomb)) →
  ∀ k, k ≤ (deleteAll ds order).ws.length →
  ∀ (v : Variant) (o oB oA : Orders), OrdersOk (crashAt ds (deleteAll ds order).ws k) o → OrdersOk ds oB →
    OrdersOk (applyWs ds (deleteAll ds order).ws) oA →
    reobserve cfg (crashAt ds (deleteAll ds order).ws k) o v = reobserve cfg ds oB v ∨
    reobserve cfg (crashAt ds (deleteAll ds order).ws k) o v = reobserve cfg (applyWs ds (deleteAll ds order).ws) oA v

/-- The repaired `open` satisfies it … -/
theorem deleteAll_atomic_fixed (hres : cfg.resumeInner = true) (hu : cfg.Uniform) : DeleteAllAtomicStatement cfg :=
  fun _ _ hr _ hp k hk v o oB oA ho hoB hoA => crash_atomic_deleteAll hres hu hr hp k hk v o oB oA ho hoB hoA

open F3.Store.Witness in
/-- … **the pinned `open` does not (S1)**: a store with two certificates; the wipe's query happens to
return the latest pointer first; the process stops after two writes (tombstone written, latest
pointer deleted). The tombstone lies inside `/certstore`, `open` looks for `/tombstone` outside it:
a restart finds a store with the right first instance and *no* certificates — neither the two-certificate
store from before nor "not initialised" from after. (Replayed on the implementation by `h_store c10`.) -/
theorem deleteAll_not_atomic_unfixed : ¬ DeleteAllAtomicStatement cfgPinned := by
  intro h
  -- the query answers a restart would get: the keys actually present, in list order
  let oC : Orders := ⟨[], scopeKeys .inner (crashAt ds2 (deleteAll ds2 wipeOrder).ws 2)⟩
  let oB : Orders := ⟨[], scopeKeys .inner ds2⟩
  let oA : Orders := ⟨[], scopeKeys .inner (applyWs ds2 (deleteAll ds2 wipeOrder).ws)⟩
  have hb : reobserve cfgPinned ds2 oB .open = .ok sp2.obs :=
    reobserve_repr_open cfgPinned oB repr2 (Or.inl rfl)
  have hafter : NotInit (applyWs ds2 (deleteAll ds2 wipeOrder).ws) := by
    rw [deleteAll_eq wipeOrder_perm]
    exact notInit_wipe (by decide) wipeOrder_perm
  have ha : reobserve cfgPinned (applyWs ds2 (deleteAll ds2 wipeOrder).ws) oA .open = .error .notInitialized :=
    reobserve_notInit_open cfgPinned oA hafter
  have hc : reobserve cfgPinned (crashAt ds2 (deleteAll ds2 wipeOrder).ws 2) oC .open
      = .ok ⟨3, none, [], [.ok T0]⟩ := by decide
  have := h ds2 sp2 repr2 wipeOrder wipeOrder_perm 2 (by decide) .open oC oB oA
    (List.Perm.refl _) (List.Perm.refl _) (List.Perm.refl _)
  rw [hb, ha, hc] at this
  rcases this with h1 | h1
  · have := congrArg (fun r => match r with | .ok (o : Obs) => o.latest.isSome | .error _ => false) h1
    revert this; decide
  · cases h1

/-! ## Non-vacuity: concrete stores meeting the hypotheses -/

open F3.Store.Witness in
/-- A represented two-certificate store (first instance 3, period 2: the first `Put` crosses a
checkpoint and changes the table order, the second has an empty delta), its handle, and an
admissible next certificate whose `Put` has 2 writes. -/
example : Repr cfgFixed.freq ds2 sp2 ∧ MemOk m2 sp2 ∧ SubsOk m2 ∧ cfgFixed.Uniform ∧
    sp2.certs.length + 1 < maxInt ∧ (put cfgFixed m2 ⟨5, 9, [], .known T1, .ok⟩).ws.length = 3 :=
  ⟨repr2, memOk2, subsOk2, rfl, by decide, by decide⟩

open F3.Store.Witness in
/-- `crash_atomic_put` instantiated: crash after the certificate and the checkpoint were written but
not the latest pointer. -/
example : reobserve cfgFixed (crashAt ds2 (put cfgFixed m2 ⟨5, 9, [], .known T1, .ok⟩).ws 2) {} .open
    = reobserve cfgFixed ds2 {} .open := by decide

open F3.Store.Witness in
/-- The wipe of that store has 8 writes; `Wiping` holds at the crash point of the S1 witness; the repaired
`open` completes it. -/
example : (deleteAll ds2 wipeOrder).ws.length = 8 ∧ Wiping (crashAt ds2 (deleteAll ds2 wipeOrder).ws 2) ∧
    reobserve cfgFixed (crashAt ds2 (deleteAll ds2 wipeOrder).ws 2) ⟨[], [.tomb, .cert 3, .cert 4, .first, .power 3, .power 4]⟩ .open
      = .error .notInitialized :=
  ⟨by decide, ⟨by decide, by decide⟩, by decide⟩

/-- An uninitialised datastore with a stray key of an interrupted creation. -/
example : NotInit (crashAt [] (createWrites 3 F3.Store.Witness.T0) 1) ∧ Canon F3.Store.Witness.T0 ∧ F3.Store.Witness.T0 ≠ [] :=
  ⟨notInit_create_prefix F3.Store.Witness.notInit_nil 3 _, F3.Store.Witness.canon_T0, by decide⟩

end F3.Props.C10

namespace F3.Props.C10
section Skeletons

/-- **The Go functions this property's models mirror still have the statement structure the models were written
against**: each regenerated skeleton (pre-order list of statement kinds, `tools/go2lean/skel.go`) equals the pinned
expectation of `F3/Proofs/SkelTie*.lean`. An added early return, cap, loop or dropped branch in one of these functions
breaks this obligation even when no regenerated *expression* changes. -/
theorem code_structure_as_modelled :
    F3.Gen.SkelStore.skelStorePut = F3.SkelTie.SkelStore.skelStorePutExpected ∧
    F3.Gen.SkelStore.skelStoreGetRange = F3.SkelTie.SkelStore.skelStoreGetRangeExpected ∧
    F3.Gen.SkelStore.skelStoreOpen = F3.SkelTie.SkelStore.skelStoreOpenExpected ∧
    F3.Gen.SkelStore.skelExportSnapshot = F3.SkelTie.SkelStore.skelExportSnapshotExpected ∧
    F3.Gen.SkelStore.skelReadSnapshotBlock = F3.SkelTie.SkelStore.skelReadSnapshotBlockExpected ∧
    F3.Gen.SkelStore.skelImportSnapshot = F3.SkelTie.SkelStore.skelImportSnapshotExpected :=
  ⟨F3.SkelTie.SkelStore.skelStorePut_expected, F3.SkelTie.SkelStore.skelStoreGetRange_expected, F3.SkelTie.SkelStore.skelStoreOpen_expected, F3.SkelTie.SkelStore.skelExportSnapshot_expected, F3.SkelTie.SkelStore.skelReadSnapshotBlock_expected, F3.SkelTie.SkelStore.skelImportSnapshot_expected⟩

end Skeletons
end F3.Props.C10
