import F3.Proofs.SkelTieSim
import F3.Proofs.SkelTieInputs
import F3.Gen.Inputs
import F3.Model.SimOracle
import F3.Spec.SimOracle
import F3.Proofs.SimOracle
import F3.Model.Inputs
/-!
# C19 — test tooling is faithful

(a) the simulator's decision oracle is sound: a run of `sim.Simulation` that reports no error
certifies, for every decision recorded up to its last check, the facts listed in
`F3.Spec.SimOracle.decisionSound`, and agreement of the honest completers of every instance it
declared complete. Model: `F3.SimOracle` (tied to `sim/ec.go`, `sim/host.go`, `sim/sim.go` by
`h_sim`); the threshold call site is extracted from the source on every run.

(b) `certchain` derives the committee of an instance from the same certificate as a node: the
look-back index is the expression regenerated from `certchain/certchain.go`.
-/
namespace F3.Props.C19
open F3 F3.SimOracle F3.Spec.SimOracle F3.Proofs.SimOracle

/-! ## (a) simulator oracle -/

/-- `validateDecision` accepts a decision exactly when it is sound: right instance, DECIDE, round 0,
non-empty, based on the instance's base, signers inside the table holding at least two thirds of
the scaled power, aggregate verifying for exactly these signers and this vote. -/
theorem validate_sound (i : Inst) (d : Decision) : validateDecision i d = .ok ↔ decisionSound i d :=
  validate_ok_iff i d

/-- the executable statement evaluated by the driver on the implementation's observations is the
specification -/
theorem decisionSoundB_iff (i : Inst) (d : Decision) : decisionSoundB i d = true ↔ decisionSound i d :=
  soundB_iff i d

/-- the notifications that had happened when the loop head last checked, oldest last -/
def notesAtLastCheck (s : St) : List (Nat × Nat × Decision) := s.notes.drop (s.notes.length - s.checked)

/-- **Soundness of a passing simulation.** For every initial configuration and every sequence of
events (decisions handed to `Host.ReceiveDecision` by anybody, in any instance; loop-head checks;
early starts of the next instance): if `Run` has not failed, then
1. every decision recorded up to the last check names an existing instance and is sound for that
   instance's base and power table, and
2. for every instance the loop declared complete, every non-excluded member of its table had a
   recorded decision for one and the same non-empty value at that moment. -/
theorem sim_oracle_sound (base : List Tip) (ids scaled : List Nat) (evs : List Ev) :
    let s := exec (start base ids scaled) evs
    s.failed = false →
      (∀ n ∈ notesAtLastCheck s, ∃ i, s.insts[n.1]? = some i ∧ decisionSound i n.2.2) ∧
      (∀ c ∈ s.completed, ∃ ci, s.insts[c.1]? = some ci ∧ c.2.2.1 ≤ s.notes.length ∧
        ∀ p ∈ participants ci c.2.2.2, ∃ d,
          latest (s.notes.drop (s.notes.length - c.2.2.1)) c.1 p = some d ∧ d.vote.value = c.2.1 ∧
          ∃ b rest, d.vote.value = some (b :: rest)) := by
  intro s hf
  have g : Good s := good_exec evs _ (good_start base ids scaled)
  exact ⟨g.b hf, g.c⟩

/-- errors are never forgotten and a failed run stays failed -/
theorem errs_monotone (evs : List Ev) : ∀ s : St, s.errs ≤ (exec s evs).errs ∧ (s.failed = true → (exec s evs).failed = true) := by
  induction evs with
  | nil => intro s; exact ⟨Nat.le_refl _, id⟩
  | cons e es ih =>
    intro s
    cases e with
    | notify p d =>
      have h := ih (notify s p d)
      have h1 : s.errs ≤ (notify s p d).errs := by simp only [notify]; split <;> omega
      exact ⟨Nat.le_trans h1 h.1, fun hf => h.2 (by simpa [notify] using hf)⟩
    | loopHead x a b =>
      have h := ih (loopHead s x a b)
      have h1 : s.errs ≤ (loopHead s x a b).errs ∧ (s.failed = true → (loopHead s x a b).failed = true) := by
        unfold loopHead
        split
        · exact ⟨Nat.le_refl _, id⟩
        · rename_i hnf
          refine ⟨?_, fun hf => absurd hf hnf⟩
          split
          · exact Nat.le_refl _
          · simp only
            split
            · exact Nat.le_refl _
            · split
              · split
                · exact Nat.le_refl _
                · split
                  · split <;> exact Nat.le_refl _
                  · exact Nat.le_refl _
              · exact Nat.le_refl _
      exact ⟨Nat.le_trans h1.1 h.1, fun hf => h.2 (h1.2 hf)⟩
    | beginEarly b i sc =>
      have h := ih (beginEarly s b i sc)
      have h1 : s.errs ≤ (beginEarly s b i sc).errs ∧ (s.failed = true → (beginEarly s b i sc).failed = true) := by
        unfold beginEarly
        split
        · exact ⟨Nat.le_refl _, id⟩
        · exact ⟨Nat.le_refl _, id⟩
      exact ⟨Nat.le_trans h1.1 h.1, fun hf => h.2 (h1.2 hf)⟩

/-- **Every forged decision is reported**: if an unsound decision (or one naming a non-existing
instance) is handed to the simulator at any point, every run that reaches another loop-head check
afterwards fails — whatever else happens before and after. -/
theorem unsound_decision_fails_run (s : St) (p : Nat) (d : Decision) (mid post : List Ev)
    (x a b : List Nat)
    (hbad : ∀ i, s.insts[d.vote.inst]? = some i → ¬ decisionSound i d) :
    (exec s (.notify p d :: mid ++ .loopHead x a b :: post)).failed = true := by
  have hv : notifyVerdict s d ≠ .ok := by
    unfold notifyVerdict
    split
    · rename_i i hi
      intro h; exact hbad i hi ((validate_ok_iff i d).1 h)
    · intro h; cases h
  have h1 : 0 < (notify s p d).errs := by simp only [notify, hv, ite_false]; omega
  simp only [exec, List.cons_append]
  have hexec : ∀ (es1 es2 : List Ev) (t : St), exec t (es1 ++ es2) = exec (exec t es1) es2 := by
    intro es1
    induction es1 with
    | nil => intro es2 t; rfl
    | cons e es ih => intro es2 t; cases e <;> simp only [List.cons_append, exec, ih]
  rw [hexec]
  have h2 := (errs_monotone mid (notify s p d)).1
  have h3 : 0 < (exec (notify s p d) mid).errs := by omega
  simp only [exec]
  have hfail : (loopHead (exec (notify s p d) mid) x a b).failed = true := by
    unfold loopHead
    split
    · rename_i hf; exact hf
    · simp
  exact (errs_monotone post _).2 hfail

/-- the quorum test the simulator applies is the node's predicate on (signer power, scaled total):
extracted from `sim/ec.go` on this run -/
theorem sim_threshold_call_site :
    (F3.Gen.Inputs.callSites.filter (fun c => c.1 == "sim/ec.go" && c.2.1 == "IsStrongQuorum")).map (·.2.2) =
      [["justificationPower", "powerTable.ScaledTotal"]] := by
  decide

/-! ## (b) certchain's committee rule -/

open F3.Inputs F3.GoInt in
/-- the source of `certchain.GetCommittee`, both pieces regenerated from `certchain/certchain.go`: the
bootstrap tipset when the regenerated guard holds, otherwise the head of the certificate at the
regenerated look-back index (certificate `k` of the generator is instance `initial + k`) -/
def certchainSource (initial lookback inst : Nat) : Source :=
  if F3.Gen.Inputs.certchainBootstrapGuard lookback initial inst then .bootstrap
  else .certHead (initial + (F3.Gen.Inputs.certchainLookbackIndex lookback initial inst).toNat)

open F3.Inputs F3.GoInt in
/-- the source of the node's `gpbftInputs.GetCommittee`, both pieces regenerated from
`consensus_inputs.go`: the guard of the bootstrap branch and the instance passed to the second
`h.certStore.Get` (the one whose certificate's head gives the power table) -/
def nodeSourceGen (initial lookback inst : Nat) : Source :=
  if F3.Gen.Inputs.nodeBootstrapGuard lookback initial inst then .bootstrap
  else .certHead (F3.Gen.Inputs.nodeLookbackCertInstance lookback inst).toNat

open F3.Inputs F3.GoInt in
/-- **certchain uses the node's rule** — both sides regenerated from the source on this run: for every
manifest (initial instance, look-back; their sum a `uint64`) and every instance in the `uint64` range,
the certificate-chain generator takes the committee from the same place as a node does — the bootstrap
tipset during the look-back window, afterwards the head of the certificate finalized `lookback`
instances earlier. An edit of either `GetCommittee` that changes its rule breaks this equality. -/
theorem certchain_rule_eq_node_rule (initial lookback inst : Nat) (h : inst < 2 ^ 64)
    (hm : initial + lookback < 2 ^ 64) :
    certchainSource initial lookback inst = nodeSourceGen initial lookback inst := by
  unfold certchainSource nodeSourceGen F3.Gen.Inputs.certchainBootstrapGuard F3.Gen.Inputs.nodeBootstrapGuard
    F3.Gen.Inputs.certchainLookbackIndex F3.Gen.Inputs.nodeLookbackCertInstance
  simp only [decide_eq_true_eq]
  repeat' split
  all_goals (first | rfl | (simp only [u64] at *; first | (exfalso; omega) | (congr 1; omega)))

open F3.Inputs F3.GoInt in
/-- **the model's node rule is the source's**: the hand-written `nodeSource` (`F3/Model/Inputs.lean`)
equals the rule assembled from the regenerated guard and `Get` argument, on the whole `uint64` range -/
theorem node_rule_is_regenerated (initial lookback inst : Nat) (h : inst < 2 ^ 64)
    (hm : initial + lookback < 2 ^ 64) :
    nodeSource initial lookback inst = nodeSourceGen initial lookback inst := by
  unfold nodeSource nodeSourceGen F3.Gen.Inputs.nodeBootstrapGuard F3.Gen.Inputs.nodeLookbackCertInstance
  simp only [decide_eq_true_eq]
  repeat' split
  all_goals (first | rfl | (simp only [u64] at *; first | (exfalso; omega) | (congr 1; omega)))

open F3.Inputs in
/-- the instance of the certificate the node reads during bootstrap, as it stands in the source:
`h.manifest.InitialInstance` -/
theorem node_bootstrap_cert_is_initial (initial : Int) :
    F3.Gen.Inputs.nodeBootstrapCertInstance initial = initial := rfl

open F3.Inputs in
/-- the look-back index the driver's certchain model executes is the expression regenerated from
`certchain/certchain.go` on this run -/
theorem certchain_index_is_regenerated (lookback initial inst : Int) :
    F3.Gen.Inputs.certchainLookbackIndex lookback initial inst = certchainLookbackIndexHand lookback initial inst := by
  rfl

/-- the node's look-back expressions, as they stand in `consensus_inputs.go` on this run -/
theorem node_rule_call_sites :
    (F3.Gen.Inputs.callSites.filter (fun c => c.1 == "consensus_inputs.go" && c.2.1 == "Get")).map (·.2.2) =
      [["sTSK"], ["ctx", "instance-1"], ["ctx", "h.manifest.InitialInstance"],
       ["ctx", "instance-h.manifest.CommitteeLookback"]] := by
  decide

/-! ## Non-vacuity -/

/-- a sound decision exists: three members of equal power, two of them sign -/
example : let i : Inst := { id := 0, base := [7], ids := [0, 1, 2], scaled := [21845, 21845, 21845] }
    let v : Payload := { inst := 0, round := 0, phase := DECIDE, supp := 0, value := some [7, 8] }
    validateDecision i { vote := v, signers := [0, 2], sig := some ([0, 2], v) } = .ok ∧
    validateDecision i { vote := v, signers := [1], sig := some ([1], v) } = .noQuorum ∧
    validateDecision i { vote := v, signers := [0, 2], sig := some ([0, 1], v) } = .badSig := by decide

/-- a passing run with two honest participants agreeing, and a failing one where the second is
recorded with another value -/
example :
    let v (x : List Tip) : Payload := { inst := 0, round := 0, phase := DECIDE, supp := 0, value := some x }
    let d (x : List Tip) : Decision := { vote := v x, signers := [0, 1], sig := some ([0, 1], v x) }
    let s0 := start [7] [0, 1] [32767, 32767]
    (exec s0 [.notify 0 (d [7, 8]), .notify 1 (d [7, 8]), .loopHead [] [0, 1] [32767, 32767]]).failed = false ∧
    (exec s0 [.notify 0 (d [7, 8]), .notify 1 (d [7, 9]), .loopHead [] [0, 1] [32767, 32767]]).failed = true := by
  decide

example : certchainSource 50 10 63 = .certHead 53 ∧ certchainSource 50 10 59 = .bootstrap ∧
    nodeSourceGen 50 10 63 = .certHead 53 ∧ nodeSourceGen 50 10 59 = .bootstrap ∧ nodeSourceGen 50 10 60 = .certHead 50 := by decide

end F3.Props.C19

namespace F3.Props.C19
section Skeletons

/-- **The Go functions this property's models mirror still have the statement structure the models were written
against**: each regenerated skeleton (pre-order list of statement kinds, `tools/go2lean/skel.go`) equals the pinned
expectation of `F3/Proofs/SkelTie*.lean`. An added early return, cap, loop or dropped branch in one of these functions
breaks this obligation even when no regenerated *expression* changes. -/
theorem code_structure_as_modelled :
    F3.Gen.SkelSim.skelSimValidateDecision = F3.SkelTie.SkelSim.skelSimValidateDecisionExpected ∧
    F3.Gen.SkelSim.skelSimHasReachedConsensus = F3.SkelTie.SkelSim.skelSimHasReachedConsensusExpected ∧
    F3.Gen.SkelSim.skelCertchainValidate = F3.SkelTie.SkelSim.skelCertchainValidateExpected ∧
    F3.Gen.SkelSim.skelCertchainGetCommittee = F3.SkelTie.SkelSim.skelCertchainGetCommitteeExpected ∧
    F3.Gen.SkelInputs.skelGetProposal = F3.SkelTie.SkelInputs.skelGetProposalExpected ∧
    F3.Gen.SkelInputs.skelPtCidForTipset = F3.SkelTie.SkelInputs.skelPtCidForTipsetExpected :=
  ⟨F3.SkelTie.SkelSim.skelSimValidateDecision_expected, F3.SkelTie.SkelSim.skelSimHasReachedConsensus_expected, F3.SkelTie.SkelSim.skelCertchainValidate_expected, F3.SkelTie.SkelSim.skelCertchainGetCommittee_expected, F3.SkelTie.SkelInputs.skelGetProposal_expected, F3.SkelTie.SkelInputs.skelPtCidForTipset_expected⟩

end Skeletons
end F3.Props.C19
