import F3.Proofs.SkelTieValidate
import F3.Proofs.ValidatorGen2
import F3.Proofs.ValidatorTwoStage
set_option linter.unusedSimpArgs false
/-!
# C13 — Two-stage (partial, then full) validation equals one-shot validation

Theorems about `F3.Validator.partially`, `complete`, `fully`, `validate`, `strip`, `completeMessage`
(the executable model of `gpbft/validator.go` and of `pmsg`'s strip / infer / complete that the driver
`f3d_validate` replays against the production code). They hold for every partial message (any
announced key — matching, zero, of another chain, junk; any placeholder values), every completing
chain, every pair of progress states (the two stages run at different times) and every pair of cache
histories (the two paths share one cache with separate namespaces; `CacheSound` is the invariant of
`Props/C05.lean`, true of every reachable cache).
-/
namespace F3.Props.C13
open F3.Msg F3.Validator F3.Cache F3.Spec.ValidMsg

/-- **Two stages = one shot.** The two-stage path (partial validation under the announced key at
progress `p1`, completion with chain `x` by the production inference, full validation at progress
`p2`) accepts **iff** the chain's key is the announced key, the placeholder values that travelled in
place of the chains are well-formed, the message was relevant when the first stage ran, and one-shot
validation of the completed message (at `p2`, with any sound cache) accepts. -/
theorem two_stage_eq_one_shot (cfg : Cfg) (comt : Nat → Option Committee) (p1 p2 : Progress)
    (cache cache' : VCache) (hs : CacheSound cfg comt cache) (hs' : CacheSound cfg comt cache')
    (pm : PMsg) (x : Chain) :
    twoStage cfg comt p1 p2 cache pm x = .accept ↔
      (keyOf x = pm.key ∧ placeholdersOK pm ∧ byProgress cfg p1 pm.msg.vote = none ∧
        (validate cfg comt p2 cache' (complete pm x).msg).1 = .accept) := by
  rw [(validate_eq hs' p2 _).1, eq_comm (a := keyOf x), ← twoStage_pure_iff]
  unfold twoStage
  rw [(partially_eq hs p1 pm).1]
  cases h : partiallyPure cfg comt p1 pm <;> simp

/-- The statement in the shape of the property: for a partial message whose placeholders are well-formed
(in particular every message in stripped form, whose placeholders are bottom) and with both stages at the
same progress, the two-stage path accepts **iff** the chain's key is the announced key and one-shot
validation of the completed message accepts. -/
theorem two_stage_eq_one_shot_same_progress (cfg : Cfg) (comt : Nat → Option Committee) (p : Progress)
    (cache cache' : VCache) (hs : CacheSound cfg comt cache) (hs' : CacheSound cfg comt cache')
    (pm : PMsg) (x : Chain) (hph : placeholdersOK pm) :
    twoStage cfg comt p p cache pm x = .accept ↔
      (keyOf x = pm.key ∧ (validate cfg comt p cache' (complete pm x).msg).1 = .accept) := by
  rw [two_stage_eq_one_shot cfg comt p p cache cache' hs hs' pm x]
  constructor
  · rintro ⟨h1, _, _, h4⟩; exact ⟨h1, h4⟩
  · rintro ⟨h1, h4⟩
    refine ⟨h1, hph, ?_, h4⟩
    rw [(validate_eq hs' p _).1, validatePure_accept_iff, byProgress_complete] at h4
    exact h4.1

/-- In particular a chain whose key differs from the announced key is never admitted. -/
theorem two_stage_binds_key (cfg : Cfg) (comt : Nat → Option Committee) (p1 p2 : Progress)
    (cache : VCache) (hs : CacheSound cfg comt cache) (pm : PMsg) (x : Chain)
    (h : twoStage cfg comt p1 p2 cache pm x = .accept) : keyOf x = pm.key :=
  ((two_stage_eq_one_shot cfg comt p1 p2 cache cache hs hs pm x).mp h).1

/-- …and everything the two-stage path admits is valid: the completed message satisfies `validMsg`
(so a justification for a different value is never admitted). -/
theorem two_stage_sound (cfg : Cfg) (comt : Nat → Option Committee) (p1 p2 : Progress)
    (cache : VCache) (hs : CacheSound cfg comt cache) (pm : PMsg) (x : Chain)
    (hw : WireMsg (complete pm x).msg)
    (h : twoStage cfg comt p1 p2 cache pm x = .accept) :
    ∃ c, comt pm.msg.vote.inst = some c ∧ validMsg cfg.net c (complete pm x).msg := by
  have h1 := ((two_stage_eq_one_shot cfg comt p1 p2 cache cache hs hs pm x).mp h).2.2.2
  rw [(validate_eq hs p2 _).1, validatePure_accept_iff, checkMsg_accept_iff_body] at h1
  obtain ⟨c, hc, hb⟩ := h1.2
  exact ⟨c, hc, checkBody_sound hw hb⟩

/-- **Equal verdict class.** When both stages run at the same progress, the chain matches the announced
key and the placeholders are well-formed, the two-stage verdict *equals* the one-shot verdict of the
completed message — accept, invalid, too old, not relevant, no committee alike. -/
theorem two_stage_verdict_eq (cfg : Cfg) (comt : Nat → Option Committee) (p : Progress)
    (cache cache' : VCache) (hs : CacheSound cfg comt cache) (hs' : CacheSound cfg comt cache')
    (pm : PMsg) (x : Chain) (hK : pm.key = keyOf x) (hph : placeholdersOK pm) :
    twoStage cfg comt p p cache pm x = (validate cfg comt p cache' (complete pm x).msg).1 := by
  rw [(validate_eq hs' p _).1]
  unfold twoStage
  rw [(partially_eq hs p pm).1]
  unfold partiallyPure validatePure
  rw [byProgress_complete]
  cases hb : byProgress cfg p pm.msg.vote with
  | some e =>
    simp only
    cases e <;> simp
    exact absurd hb (byProgress_ne_accept cfg p pm.msg.vote)
  | none =>
    simp only
    unfold checkMsg
    have hinst : (complete pm x).msg.vote.inst = pm.msg.vote.inst := rfl
    rw [hinst]
    cases hc : comt pm.msg.vote.inst with
    | none => rfl
    | some c =>
      simp only
      have hiff := checkBody_complete_iff cfg c pm x hK
      by_cases hb1 : checkBody cfg c (some pm.key) pm.msg = true
      · simp only [hb1, if_true]
        unfold fully
        have hval : (complete pm x).msg.vote.value = x := rfl
        have hkey : (complete pm x).key = pm.key := rfl
        simp only [hval, hkey, byProgress_complete, hb, hK, ne_eq, not_true_eq_false, if_false]
        by_cases hx : chainValid x = true
        · simp only [hx, Bool.not_true, Bool.false_eq_true, if_false]
          by_cases hf : fullyRules (complete pm x) = true
          · simp only [hf, if_true]
            rw [(hiff.mp ⟨hb1, hx, hf⟩).2]
            rfl
          · simp only [hf, Bool.false_eq_true, if_false]
            have : ¬ checkBody cfg c none (complete pm x).msg = true :=
              fun h => hf (hiff.mpr ⟨hph, h⟩).2.2
            simp [this]
        · simp only [hx, Bool.not_false, if_true]
          have : ¬ checkBody cfg c none (complete pm x).msg = true :=
            fun h => hx (hiff.mpr ⟨hph, h⟩).2.1
          simp [this]
      · have : ¬ checkBody cfg c none (complete pm x).msg = true :=
          fun h => hb1 (hiff.mpr ⟨hph, h⟩).1
        simp [hb1, this]

/-- **The duplicated table.** The "abbreviated" expectation table inside `FullyValidateMessage` equals
the main table of `validateJustification` restricted to its value column, for every phase pair. -/
theorem full_table_eq_main_table (ph round jph : Nat) :
    fullTable ph jph = (expectation ph round jph).map (·.2) :=
  fullTable_eq_expectation ph round jph

/-- **Strip / complete round trip.** Stripping a valid message (`ToPartialGMessage`) and completing
the result with the original chain (`Vote.Value = chain; inferJustificationVoteValue`) reproduces the
original message, announced key included. -/
theorem strip_complete_roundtrip (net : Nat) (c : Committee) (m : Msg) (hv : validMsg net c m) :
    complete (strip m) m.vote.value = ⟨m, keyOf m.vote.value⟩ := by
  have hk := strip_key m
  unfold complete
  unfold strip at hk ⊢
  simp only at hk ⊢
  rw [hk]
  congr 1
  obtain ⟨sender, vote, sig, ticket, just, enc⟩ := m
  simp only [Msg.mk.injEq, true_and, and_true]
  cases just with
  | none => simp
  | some j =>
    simp only [Option.map_some, Option.some.injEq, true_and]
    exact infer_restores hv j rfl

/-- The same through `CompleteMessage` with a chain store that knows the chain: a zero key returns the
message as received, any other key is looked up. -/
theorem complete_message_roundtrip (net : Nat) (c : Committee) (m : Msg) (hv : validMsg net c m)
    (lookup : VKey → Option Chain) (hl : m.vote.value ≠ [] → lookup (keyOf m.vote.value) = some m.vote.value) :
    completeMessage lookup (strip m) = some m := by
  have hrt := strip_complete_roundtrip net c m hv
  unfold completeMessage
  rw [strip_key]
  by_cases hz : m.vote.value = []
  · have hzero : (keyOf m.vote.value).isZero = true := by rw [isZero_keyOf, hz]; rfl
    simp only [hzero, if_true, Option.some.injEq]
    -- with a bottom value stripping changes nothing that inference would not restore
    have : (complete (strip m) m.vote.value).msg = (strip m).msg := by
      unfold complete strip
      simp only [hz]
      obtain ⟨sender, vote, sig, ticket, just, enc⟩ := m
      simp only at hz
      simp only [Msg.mk.injEq, true_and, and_true]
      cases just with
      | none => simp
      | some j =>
        simp only [Option.map_some, Option.some.injEq]
        rw [inferJust_eq]
        simp
    rw [← this, hrt]
  · have hzero : (keyOf m.vote.value).isZero = false := by
      rw [isZero_keyOf]
      cases h : m.vote.value with
      | nil => exact absurd h hz
      | cons a t => rfl
    simp only [hzero, Bool.false_eq_true, if_false, hl hz]
    rw [hrt]

/-- Consequently the production flow *strip at the sender, two stages at the receiver* accepts a valid
relevant message exactly like one-shot validation of the original would. -/
theorem two_stage_of_stripped (cfg : Cfg) (comt : Nat → Option Committee) (p : Progress)
    (cache cache' : VCache) (hs : CacheSound cfg comt cache) (hs' : CacheSound cfg comt cache')
    (c : Committee) (m : Msg) (hv : validMsg cfg.net c m) :
    twoStage cfg comt p p cache (strip m) m.vote.value = (validate cfg comt p cache' m).1 := by
  have hrt := strip_complete_roundtrip cfg.net c m hv
  have h := two_stage_verdict_eq cfg comt p cache cache' hs hs' (strip m) m.vote.value (strip_key m)
    ⟨by simp [strip, chainValid_nil], by
      intro j hj
      unfold strip at hj
      simp only at hj
      cases hm : m.just with
      | none => simp [hm] at hj
      | some j0 =>
        simp only [hm, Option.map_some, Option.some.injEq] at hj
        subst hj
        exact chainValid_nil⟩
  rw [h, hrt]

/-! ## Non-vacuity -/

def tipA : Tip := ⟨1, 10, 4, 38⟩
def tipB : Tip := ⟨2, 11, 4, 38⟩
def c0 : Committee := ⟨[⟨101, 30000, 11⟩, ⟨102, 20000, 12⟩, ⟨103, 15535, 13⟩], 7⟩
def comt0 : Nat → Option Committee := fun i => if i ≤ 20 then some c0 else none
def cfg0 : Cfg := ⟨0, 10⟩
def j0 : Just :=
  ⟨⟨5, 0, PREPARE, 0, [tipA, tipB]⟩, [0, 1],
    .tok [(0, 11), (1, 12)] (.vote 0 5 0 PREPARE 0 (keyOf [tipA, tipB])), true⟩
def m0 : Msg :=
  ⟨101, ⟨5, 0, COMMIT, 0, [tipA, tipB]⟩, .tok 11 (.vote 0 5 0 COMMIT 0 (keyOf [tipA, tipB])), .garbage 0, some j0, true⟩
def prog0 : Progress := ⟨5, 0, COMMIT⟩
def cache0 : VCache := GroupedSet.new 2 2

-- the stripped form carries bottoms and the key; the two-stage path accepts it with the right chain …
example : (strip m0).msg.vote.value = [] ∧ (strip m0).key = keyOf [tipA, tipB] := by decide
example : twoStage cfg0 comt0 prog0 prog0 cache0 (strip m0) [tipA, tipB] = .accept := by decide
-- … rejects it with another chain, although one-shot validation of that completed message's twin is fine
example : twoStage cfg0 comt0 prog0 prog0 cache0 (strip m0) [tipA] = .invalid := by decide
-- … and a partial message announced under another key is rejected at stage one (signature is over the key)
example : twoStage cfg0 comt0 prog0 prog0 cache0 { strip m0 with key := keyOf [tipA] } [tipA] = .invalid := by decide
example : complete (strip m0) m0.vote.value = ⟨m0, keyOf m0.vote.value⟩ := by decide
-- the placeholder hypothesis is needed: stage one runs `ECChain.Validate` on whatever travels in the place of
-- the stripped chain, so a partial message carrying a malformed placeholder (here two tipsets with
-- decreasing epochs) is rejected although the completed message is valid — the two-stage path is
-- (harmlessly) stricter than one-shot validation of the completed message on such crafted inputs
def pmTampered : PMsg :=
  { strip m0 with msg := { (strip m0).msg with vote := { (strip m0).msg.vote with value := [tipB, tipA] } } }
example : twoStage cfg0 comt0 prog0 prog0 cache0 pmTampered [tipA, tipB] = .invalid ∧
    (validate cfg0 comt0 prog0 cache0 (complete pmTampered [tipA, tipB]).msg).1 = .accept := by decide
example : placeholdersOK (strip m0) := by
  constructor
  · decide
  · intro j hj
    have : j = { j0 with vote := { j0.vote with value := [] } } := by
      simp [strip, m0] at hj; exact hj.symm
    subst this; decide

end F3.Props.C13

/-! # Regenerated, second set (appended): ties to `tools/go2lean/targets.d/*2.json` -/
namespace F3.Props.C13
section Regenerated2
open F3.Msg F3.Validator
/-! ## Regenerated (2): `voteForBottom` and the value rules of `FullyValidateMessage`

Proved in `F3/Proofs/ValidatorGen2.lean` against `F3/Gen/Validate2.lean` (`targets.d/Validate2.json`). -/

/-- `voteForBottom` in full and in partial mode = the source's expression -/
theorem vote_for_bottom_is_regenerated (vk : Option VKey) (m : Msg) (kz : Bool) :
    voteForBottom vk m =
      F3.Gen.Validate2.voteForBottom (match vk with | some k => k.isZero | none => kz) vk.isSome
        m.vote.value.isEmpty :=
  F3.Gen2Tie.voteForBottom_is_regenerated vk m kz

/-- the abbreviated expectation table of stage two = the source's map literal -/
theorem full_table_is_regenerated (ph jph : Nat) :
    fullTable ph jph =
      (F3.Gen2Tie.lookup2 F3.Gen.Validate2.fullExpectations ph jph).bind
        (fun cells => match cells with | [k] => some (k == 1) | _ => none) :=
  F3.Gen2Tie.fullTable_is_regenerated ph jph

/-- the zero-key rules of stage two (statement: `F3.Gen2Tie.fullZeroKey_is_regenerated`) -/
theorem full_zero_key_is_regenerated : type_of% @F3.Gen2Tie.fullZeroKey_is_regenerated :=
  @F3.Gen2Tie.fullZeroKey_is_regenerated

example : F3.Gen.Validate2.fullZeroKeyRules true true true false = 1 ∧
    F3.Gen.Validate2.fullZeroKeyRules false true true true = 2 ∧
    F3.Gen.Validate2.fullZeroKeyRules false false true false = 0 := by decide

end Regenerated2
end F3.Props.C13

namespace F3.Props.C13
section Skeletons

/-- **The Go functions this property's models mirror still have the statement structure the models were written
against**: each regenerated skeleton (pre-order list of statement kinds, `tools/go2lean/skel.go`) equals the pinned
expectation of `F3/Proofs/SkelTie*.lean`. An added early return, cap, loop or dropped branch in one of these functions
breaks this obligation even when no regenerated *expression* changes. -/
theorem code_structure_as_modelled :
    F3.Gen.SkelValidate.skelValidateJustification = F3.SkelTie.SkelValidate.skelValidateJustificationExpected ∧
    F3.Gen.SkelValidate.skelFullyValidate = F3.SkelTie.SkelValidate.skelFullyValidateExpected ∧
    F3.Gen.SkelValidate.skelSuppEq = F3.SkelTie.SkelValidate.skelSuppEqExpected ∧
    F3.Gen.SkelValidate.skelInferJustValue = F3.SkelTie.SkelValidate.skelInferJustValueExpected ∧
    F3.Gen.SkelValidate.skelToPartial = F3.SkelTie.SkelValidate.skelToPartialExpected ∧
    F3.Gen.SkelValidate.skelValidateMessage = F3.SkelTie.SkelValidate.skelValidateMessageExpected :=
  ⟨F3.SkelTie.SkelValidate.skelValidateJustification_expected, F3.SkelTie.SkelValidate.skelFullyValidate_expected, F3.SkelTie.SkelValidate.skelSuppEq_expected, F3.SkelTie.SkelValidate.skelInferJustValue_expected, F3.SkelTie.SkelValidate.skelToPartial_expected, F3.SkelTie.SkelValidate.skelValidateMessage_expected⟩

end Skeletons
end F3.Props.C13
