import F3.Proofs.SkelTieCerts
import F3.Proofs.NodeGen2
import F3.Model.Certs
import F3.Model.CertsParse
import F3.Spec.Certs
import F3.Proofs.CertsDelta
import F3.Proofs.CertsValidate
import F3.Props.C08
/-!
# C04 — Certificate chains verify only if quorum-signed and linked; power-table deltas are exact

All statements are about the executable definitions of `F3/Model/Certs.lean`, the same ones
`lean/Driver/Certs.lean` runs against `certs.ValidateFinalityCertificates`,
`MakePowerTableDiff` and `ApplyPowerTableDiffs`.
-/
namespace F3.Props.C04
open F3.Certs F3.SMap

/-! ## Power-table deltas are exact and canonical -/

/-- The delta computed between any two well-formed tables, applied to the first, yields the second
in canonical order. -/
theorem apply_make (a b : Table) (ha : WF a) (hb : WF b) :
    applyDiff a (makeDiff a b) = .ok (canon b) := by
  rw [applyDiff_eq, applyLoop_makeDiff ha hb]
  simp only
  rw [canon_toMap hb.1]

/-- Every delta that application accepts (on a well-formed table) is the canonical delta between
its input and its output; the output is well-formed and in canonical order. -/
theorem apply_unique (a : Table) (d : Diff) (t : Table) (ha : WF a) (h : applyDiff a d = .ok t) :
    d = makeDiff a t ∧ WF t ∧ canon t = t := by
  rw [applyDiff_eq] at h
  cases hm : applyLoop (toMap a) none d with
  | error e => rw [hm] at h; cases h
  | ok m' =>
    rw [hm] at h
    simp only [Except.ok.injEq] at h
    obtain ⟨hs, hent, hsd, hpt⟩ := applyLoop_wf ha hm
    have hwm : WF m' := wf_of_sorted_entOK hs hent
    have hwt : WF t := by rw [← h]; exact wf_canon hwm
    refine ⟨?_, hwt, ?_⟩
    · obtain ⟨hs2, hl2⟩ := makeDiff_spec ha.1 hwt.1
      apply ext Delta.id hsd hs2
      intro i
      show LD d i = LD (makeDiff a t) i
      rw [hl2, hpt]
      congr 1
      rw [← h]
      exact (lookup_perm Entry.id (canon_perm m') (((canon_perm m').map Entry.id).nodup_iff.mpr hwm.1) i).symm
    · rw [← h]; exact canon_idem m' hwm.1

/-- Uniqueness in the other direction: two deltas accepted on the same well-formed table with the
same result are the same delta. -/
theorem apply_injective (a : Table) (d₁ d₂ : Diff) (t : Table) (ha : WF a)
    (h₁ : applyDiff a d₁ = .ok t) (h₂ : applyDiff a d₂ = .ok t) : d₁ = d₂ := by
  rw [(apply_unique a d₁ t ha h₁).1, (apply_unique a d₂ t ha h₂).1]

/-- The canonical order is a sort of the same entries, unique for distinct ids. -/
theorem canon_canonical (t : Table) :
    (canon t).Perm t ∧ (canon t).Pairwise (fun a b => entryLe a b = true) :=
  ⟨canon_perm t, canon_sorted t⟩

/-- when a single delta entry is applicable to a well-formed table -/
def DeltaOK (a : Table) (δ : Delta) : Prop :=
  match L a δ.id with
  | some pe => δ.key ≠ pe.key ∧ 0 ≤ pe.power + δ.delta ∧ (δ.key ≠ 0 → pe.power + δ.delta ≠ 0)
  | none => 0 < δ.delta ∧ δ.key ≠ 0

/-- **Malformed deltas are rejected**: application to a well-formed table succeeds *iff* the delta is
strictly sorted by participant, contains no empty entry, and every entry is applicable
(no unchanged key, no new entry without key or with non-positive power, no power driven below
zero, no re-key of a removed participant). -/
theorem apply_accepts_iff (a : Table) (d : Diff) (ha : WF a) :
    (∃ t, applyDiff a d = .ok t) ↔
      d.Pairwise (fun x y => x.id < y.id) ∧ ∀ δ ∈ d, δ.isZero = false ∧ DeltaOK a δ := by
  have hgood : Good (toMap a) none d ↔
      d.Pairwise (fun x y => x.id < y.id) ∧ ∀ δ ∈ d, δ.isZero = false ∧ DeltaOK a δ := by
    unfold Good DeltaOK
    constructor
    · rintro ⟨h1, _, h3⟩
      refine ⟨h1, fun δ hδ => ⟨(h3 δ hδ).1, ?_⟩⟩
      have := (stepSpec_ok_iff _ δ).mp (h3 δ hδ).2
      rwa [lookup_toMap ha.1] at this
    · rintro ⟨h1, h3⟩
      refine ⟨h1, fun _ _ => trivial, fun δ hδ => ⟨(h3 δ hδ).1, ?_⟩⟩
      apply (stepSpec_ok_iff _ δ).mpr
      rw [lookup_toMap ha.1]; exact (h3 δ hδ).2
  rw [← hgood]
  constructor
  · rintro ⟨t, ht⟩
    rw [applyDiff_eq] at ht
    cases hm : applyLoop (toMap a) none d with
    | error e => rw [hm] at ht; cases ht
    | ok m' => exact good_of_applyLoop_ok hm
  · intro hg
    obtain ⟨m', hm', _, _⟩ := applyLoop_ok_of_good (m := toMap a) (ssorted_toMap a) hg
    exact ⟨canon m', by rw [applyDiff_eq, hm']⟩

/-- A rejected delta yields no table at all (the caller's table is a value: nothing to modify). The
array-level claim "the caller's slice is untouched" is carried by the correspondence check, which
compares the caller's slice before and after every call of the real code. -/
theorem apply_reject_pure (a : Table) (d : Diff) (e : DiffErr) (h : applyDiff a d = .error e) :
    ∀ t, applyDiff a d ≠ .ok t := by
  intro t ht; rw [h] at ht; cases ht

/-! ### Non-vacuity -/

deriving instance DecidableEq for Except

example : WF [⟨1, 10, 7⟩, ⟨2, 5, 8⟩] ∧ WF [⟨2, 6, 8⟩, ⟨3, 1, 9⟩] := by
  constructor <;> (rw [← wfB_iff]; decide)

example : makeDiff [⟨1, 10, 7⟩, ⟨2, 5, 8⟩] [⟨3, 1, 9⟩, ⟨2, 6, 8⟩] = [⟨1, -10, 0⟩, ⟨2, 1, 0⟩, ⟨3, 1, 9⟩] := by
  decide

example : applyDiff [⟨1, 10, 7⟩, ⟨2, 5, 8⟩] [⟨1, -10, 0⟩, ⟨2, 1, 0⟩, ⟨3, 1, 9⟩] = .ok [⟨2, 6, 8⟩, ⟨3, 1, 9⟩] := by
  decide

-- each rejection reason is reachable
example : applyDiff [⟨1, 10, 7⟩, ⟨2, 5, 8⟩] [⟨2, 1, 0⟩, ⟨1, 1, 0⟩] = .error .notSorted := by decide
example : applyDiff [⟨1, 10, 7⟩] [⟨1, 0, 0⟩] = .error .emptyDelta := by decide
example : applyDiff [⟨1, 10, 7⟩] [⟨1, 1, 7⟩] = .error .unchangedKey := by decide
example : applyDiff [⟨1, 10, 7⟩] [⟨1, -10, 9⟩] = .error .removeWithKey := by decide
example : applyDiff [⟨1, 10, 7⟩] [⟨2, 0, 9⟩] = .error .newNonPositive := by decide
example : applyDiff [⟨1, 10, 7⟩] [⟨2, 3, 0⟩] = .error .newNoKey := by decide
example : applyDiff [⟨1, 10, 7⟩] [⟨1, -11, 0⟩] = .error .negative := by decide


/-! ## Certificate sequences -/

open F3.Spec.Certs

/-- the loop state a call of `ValidateFinalityCertificates` starts from -/
def start (t : Table) (n : Nat) (base : Option Tip) : VState := ⟨n, [], t, base⟩

/-- **Soundness.** If validation accepts, the certificates form a valid run (`ValidRun`: every
certificate is for the expected instance, has a well-formed non-empty chain starting at the head of
its predecessor or at the caller's base, is signed over exactly its DECIDE payload by DISTINCT members
(`CertValid.signed`: the signer list is strictly increasing, so nobody is counted twice) with
non-zero scaled power holding at least 2/3 of the table in force, and its delta yields the table it
commits to), and the returned instance, chain and table are the ones reached by that run. -/
theorem validate_sound (net : Nat) (t : Table) (n : Nat) (base : Option Tip) (cs : List Cert)
    (h : (validateCerts net t n base cs).err = none) :
    ∃ s', ValidRun net (start t n base) cs s' ∧
      (validateCerts net t n base cs).next = s'.next ∧
      (validateCerts net t n base cs).chain = s'.chain ∧
      (cs ≠ [] → (validateCerts net t n base cs).table = s'.table) := by
  unfold validateCerts at h ⊢
  simp only at h ⊢
  cases hl : validateLoop net ⟨n, [], t, base⟩ cs with
  | mk s' e =>
    rw [hl] at h
    cases e with
    | some e => simp at h
    | none =>
      refine ⟨s', (validateLoop_ok_iff ..).mp hl, rfl, rfl, ?_⟩
      intro hne
      have : cs.isEmpty = false := by
        cases cs with
        | nil => exact absurd rfl hne
        | cons _ _ => rfl
      simp [this]

/-- **Completeness** (certificates produced by consensus are accepted): every valid run is accepted,
with exactly the state it reaches. -/
theorem validate_complete (net : Nat) (t : Table) (n : Nat) (base : Option Tip) (cs : List Cert)
    (s' : VState) (h : ValidRun net (start t n base) cs s') :
    validateCerts net t n base cs = ⟨s'.next, s'.chain, if cs.isEmpty then [] else s'.table, none⟩ := by
  have hl := (validateLoop_ok_iff ..).mpr h
  unfold validateCerts start at *
  simp only [hl]

/-- **Prefix reporting.** On rejection the sequence splits into a valid run `cs₁`, the offending
certificate `c` (not valid in the state reached — for any resulting table), and a rest that is
never looked at; the reported instance, chain and table are exactly the state after `cs₁`, and `cs₁`
is the longest valid prefix. -/
theorem validate_prefix (net : Nat) (t : Table) (n : Nat) (base : Option Tip) (cs : List Cert)
    (e : VErr) (h : (validateCerts net t n base cs).err = some e) :
    ∃ cs₁ c cs₂ s, cs = cs₁ ++ c :: cs₂ ∧
      ValidRun net (start t n base) cs₁ s ∧
      (∀ nt, ¬ CertValid net s.table s.next s.base c nt) ∧
      (∀ s'', ¬ ValidRun net (start t n base) (cs₁ ++ [c]) s'') ∧
      validateCerts net t n base cs = ⟨s.next, s.chain, s.table, some e⟩ := by
  unfold validateCerts at h
  simp only at h
  cases hl : validateLoop net ⟨n, [], t, base⟩ cs with
  | mk sf e' =>
    rw [hl] at h
    cases e' with
    | none => simp at h
    | some e' =>
      simp only [Option.some.injEq] at h
      subst h
      obtain ⟨cs₁, c, cs₂, hcs, hrun, hstep⟩ := validateLoop_err net _ cs sf e' hl
      have hno : ∀ nt, ¬ CertValid net sf.table sf.next sf.base c nt := by
        intro nt hv
        have := (stepCert_ok_iff net sf c _).mpr ⟨nt, hv, rfl⟩
        rw [hstep] at this; cases this
      refine ⟨cs₁, c, cs₂, sf, hcs, hrun, hno, ?_, ?_⟩
      · intro s'' hrun2
        obtain ⟨s₁, h1, h2⟩ := validRun_split hrun2
        have := validRun_unique hrun h1
        subst this
        cases h2 with
        | cons hv _ => exact hno _ hv
      · unfold validateCerts
        simp only [hl]

/-- The reported triple on rejection is what validating the valid prefix alone returns (up to the
quirk that an empty call returns a nil table). -/
theorem validate_prefix_eq (net : Nat) (t : Table) (n : Nat) (base : Option Tip) (cs : List Cert)
    (e : VErr) (h : (validateCerts net t n base cs).err = some e) :
    ∃ cs₁ c cs₂, cs = cs₁ ++ c :: cs₂ ∧ (validateCerts net t n base cs₁).err = none ∧
      (validateCerts net t n base cs).next = (validateCerts net t n base cs₁).next ∧
      (validateCerts net t n base cs).chain = (validateCerts net t n base cs₁).chain ∧
      (validateCerts net t n base cs).table =
        (if cs₁.isEmpty then t else (validateCerts net t n base cs₁).table) := by
  obtain ⟨cs₁, c, cs₂, s, hcs, hrun, _, _, hres⟩ := validate_prefix net t n base cs e h
  have hc := validate_complete net t n base cs₁ s hrun
  refine ⟨cs₁, c, cs₂, hcs, by rw [hc], by rw [hres, hc], by rw [hres, hc], ?_⟩
  rw [hres, hc]
  simp only
  cases hcs₁ : cs₁ with
  | nil =>
    subst hcs₁
    cases hrun
    rfl
  | cons _ _ => rfl

/-! ### What a valid run looks like -/

/-- instances are consecutive from the expected one (modulo 2^64, as in the Go `nextInstance++`) -/
theorem run_consecutive (net : Nat) (s s' : VState) (cs : List Cert) (h : ValidRun net s cs s')
    (hn : s.next < 2 ^ 64) :
    (∀ i (hi : i < cs.length), cs[i].inst = u64 (s.next + i)) ∧ s'.next = u64 (s.next + cs.length) := by
  induction h with
  | nil s => simp [u64]; omega
  | @cons s c nt cs s' hv hrun ih =>
    have hadv : (advance s c nt).next = u64 (s.next + 1) := rfl
    have hlt : (advance s c nt).next < 2 ^ 64 := by rw [hadv]; unfold u64; omega
    obtain ⟨ih1, ih2⟩ := ih hlt
    constructor
    · intro i hi
      cases i with
      | zero => simp only [List.getElem_cons_zero, Nat.add_zero]; rw [hv.inst]; unfold u64; omega
      | succ j =>
        simp only [List.getElem_cons_succ]
        rw [ih1 j (by simpa using hi), hadv]
        unfold u64; omega
    · rw [ih2, hadv, List.length_cons]; unfold u64; omega

/-- the first chain starts at the caller's base (when given), every later chain at the head
finalized by its predecessor -/
theorem run_linked (net : Nat) (s s' : VState) (cs : List Cert) (h : ValidRun net s cs s') :
    (∀ b c, s.base = some b → cs.head? = some c → ∃ hd, c.chain.head? = some hd ∧ Tip.eq b hd = true) ∧
    (∀ i (hi : i + 1 < cs.length), ∃ l hd, cs[i].chain.getLast? = some l ∧
        cs[i + 1].chain.head? = some hd ∧ Tip.eq l hd = true) := by
  induction h with
  | nil s => simp
  | @cons s c nt cs s' hv hrun ih =>
    constructor
    · intro b c' hb hc'
      simp only [List.head?_cons, Option.some.injEq] at hc'
      subst hc'
      exact hv.linked b hb
    · intro i hi
      cases i with
      | zero =>
        simp only [List.getElem_cons_zero, Nat.zero_add, List.getElem_cons_succ]
        have hne := hv.chain_nonempty
        obtain ⟨l, hl⟩ : ∃ l, c.chain.getLast? = some l := by
          cases hc : c.chain.getLast? with
          | none => rw [List.getLast?_eq_none_iff] at hc; exact absurd hc hne
          | some l => exact ⟨l, rfl⟩
        have hlen : 0 < cs.length := by simpa using hi
        obtain ⟨hd, hhd, heq⟩ := ih.1 l cs[0] hl (by rw [List.head?_eq_getElem?]; simp [hlen])
        exact ⟨l, hd, hl, hhd, heq⟩
      | succ j =>
        simp only [List.getElem_cons_succ]
        exact ih.2 j (by simpa using hi)

/-- the returned chain is the concatenation of the finalized suffixes -/
theorem run_chain (net : Nat) (s s' : VState) (cs : List Cert) (h : ValidRun net s cs s') :
    s'.chain = s.chain ++ (cs.map (fun c => c.chain.tail)).flatten := by
  induction h with
  | nil s => simp
  | @cons s c nt cs s' hv hrun ih =>
    rw [ih]
    simp [advance, List.append_assoc]

/-- Validation is compositional: a sequence is a valid run iff it splits into a valid run to some
intermediate state and a valid run from there (so validating certificate by certificate, as the
certificate store and pollers do, agrees with validating the batch). -/
theorem run_append_iff (net : Nat) (s s₂ : VState) (cs₁ cs₂ : List Cert) :
    ValidRun net s (cs₁ ++ cs₂) s₂ ↔ ∃ s₁, ValidRun net s cs₁ s₁ ∧ ValidRun net s₁ cs₂ s₂ :=
  ⟨validRun_split, fun ⟨_, h₁, h₂⟩ => validRun_append h₁ h₂⟩

/-- Several deltas in one call (`ApplyPowerTableDiffs(t, d₁, …, dₙ, d)`, as the certificate store
does between checkpoints) = the single-delta application to the result of the shorter call. -/
theorem apply_diffs_compose (t lt : Table) (ds : List Diff) (d : Diff)
    (h : applyDiffs t ds = .ok lt) : applyDiffs t (ds ++ [d]) = applyDiff lt d :=
  applyDiffs_snoc d h

/-- **Consensus output is accepted**: a certificate assembled the honest way — a well-formed chain
from the required base, a strong quorum of members with non-zero scaled power, their aggregate over
the DECIDE payload, the canonical delta to the next well-formed table and the commitment to that
table in canonical order — is valid, hence accepted. -/
theorem honest_cert_accepted (net : Nat) (t nt : Table) (n : Nat) (base : Option Tip) (c : Cert)
    (sc : List Nat) (tot : Nat) (ss : List Nat) (ht : WF t) (hnt : WF nt)
    (hinst : c.inst = n) (hcv : chainValid c.chain = true) (hne : c.chain ≠ [])
    (hbase : ∀ b, base = some b → ∃ h, c.chain.head? = some h ∧ Tip.eq b h = true)
    (hsc : F3.Power.scaled (t.map (·.power)) = some (sc, tot)) (hss : c.signers = some ss)
    (hinc : ss.Pairwise (· < ·))
    (hmem : ∀ i ∈ ss, i < t.length ∧ 0 < sc.getD i 0) (hq : 3 * sumScaled sc ss ≥ 2 * (tot : Int))
    (hsig : c.sig = .agg (ss.map (fun i => (i, keyAt t i))) ⟨net, c.inst, 0, decidePhase, c.comm, c.pt, c.chain⟩)
    (hdelta : c.delta = makeDiff t nt) (hpt : c.pt = .table (canon nt)) :
    validateCerts net t n base [c] =
      ⟨u64 (n + 1), c.chain.tail, canon nt, none⟩ := by
  have hv : CertValid net t n base c (canon nt) :=
    ⟨hinst, hcv, hne, hbase, ⟨sc, tot, ss, hsc, hss, hinc, hmem, hq, hsig⟩,
      by rw [hdelta]; exact apply_make t nt ht hnt, hpt⟩
  have hrun : ValidRun net (start t n base) [c] (advance (start t n base) c (canon nt)) :=
    ValidRun.cons hv (ValidRun.nil _)
  rw [validate_complete net t n base [c] _ hrun]
  simp [advance, start]

/-- **No signer counts twice.** The signers of a valid certificate are pairwise distinct table
indices (strictly increasing, as the iteration of the Go bitfield is), so the 2/3 of
`CertValid.signed` is held by distinct members. In the Go code this is a property of the type of
`cert.Signers` (a bitfield is a set); the model, whose certificates carry a list, enforces it
(`VErr.signerOrder`, unreachable from decoded certificates). -/
theorem valid_signers_distinct (net : Nat) (t : Table) (n : Nat) (base : Option Tip) (c : Cert)
    (nt : Table) (h : CertValid net t n base c nt) :
    ∃ ss, c.signers = some ss ∧ ss.Pairwise (· < ·) ∧ ss.Nodup := by
  obtain ⟨_, _, ss, _, hss, hi, _⟩ := h.signed
  exact ⟨ss, hss, hi, hi.imp (fun h => Nat.ne_of_lt h)⟩

/-- a signer list that is not strictly increasing (in particular: one with a repeated index) is never
accepted, whatever else the certificate contains -/
theorem duplicate_signers_rejected (net : Nat) (t : Table) (n : Nat) (base : Option Tip) (c : Cert)
    (ss : List Nat) (hss : c.signers = some ss) (hdup : ¬ ss.Pairwise (· < ·)) :
    (validateCerts net t n base [c]).err ≠ none := by
  intro h
  obtain ⟨s', hrun, _⟩ := validate_sound net t n base [c] h
  cases hrun with
  | cons hv _ =>
    obtain ⟨ss', hss', hi, _⟩ := valid_signers_distinct _ _ _ _ _ _ hv
    rw [hss] at hss'
    simp only [Option.some.injEq] at hss'
    subst hss'
    exact hdup hi

/-! ### The executable oracle is the specification -/

/-- `certValidB`, which the driver evaluates on the implementation's observations, decides `CertValid`. -/
theorem oracle_decides_certValid (net : Nat) (t : Table) (next : Nat) (base : Option Tip) (c : Cert)
    (nt : Table) : certValidB net t next base c nt = true ↔ CertValid net t next base c nt :=
  certValidB_iff net t next base c nt

/-- `specPrefix` (the driver's "longest valid prefix") reaches exactly the state the model's loop
reaches, and counts all certificates iff the model accepts. -/
theorem oracle_prefix_is_model (net : Nat) (s : VState) (cs : List Cert) :
    (specPrefix net s cs).1 = (validateLoop net s cs).1 ∧
    ((specPrefix net s cs).2 = cs.length ↔ (validateLoop net s cs).2 = none) :=
  ⟨(specPrefix_eq net s cs).1, (specPrefix_eq net s cs).2.1⟩

/-! ### Non-vacuity: a concrete accepted run, a rejection with prefix, a quorum one member short -/

namespace Ex
def t0 : Table := [⟨1, 30, 7⟩, ⟨2, 20, 8⟩, ⟨3, 10, 9⟩]
def t1 : Table := [⟨1, 30, 7⟩, ⟨3, 15, 9⟩, ⟨4, 5, 6⟩]
def b0 : Tip := ⟨10, 1, 8, 1, 38, 0⟩
def x1 : Tip := ⟨11, 2, 8, 1, 38, 0⟩
def x2 : Tip := ⟨13, 3, 8, 1, 38, 0⟩
def mk (inst : Nat) (chain : List Tip) (t : Table) (nt : Table) (ss : List Nat) : Cert :=
  { inst := inst, chain := chain, comm := 0, pt := .table nt, signers := some ss,
    sig := .agg (ss.map (fun i => (i, keyAt t i))) ⟨1, inst, 0, decidePhase, 0, .table nt, chain⟩,
    delta := makeDiff t nt }
def c5 : Cert := mk 5 [b0, x1] t0 t1 [0, 1]
def c6 : Cert := mk 6 [x1, x2] t1 t1 [0, 1]
end Ex

example : WF Ex.t0 ∧ WF Ex.t1 := by constructor <;> (rw [← wfB_iff]; decide)

example : validateCerts 1 Ex.t0 5 (some Ex.b0) [Ex.c5, Ex.c6] = ⟨7, [Ex.x1, Ex.x2], Ex.t1, none⟩ := by
  decide

-- the second certificate signed by a single member (10922·… < 2/3): rejected, prefix reported
example : validateCerts 1 Ex.t0 5 (some Ex.b0) [Ex.c5, Ex.mk 6 [Ex.x1, Ex.x2] Ex.t1 Ex.t1 [1]] =
    ⟨6, [Ex.x1], Ex.t1, some .noQuorum⟩ := by decide

-- a member listed twice does not count twice: `[0, 0]` (which would sum to 2·32767 of 65535) is refused
-- as "not a bitfield", the same member once is below the quorum, the honest certificate `c5` with the
-- distinct signers `[0, 1]` is accepted (above)
example : (validateCerts 1 Ex.t0 5 (some Ex.b0) [Ex.mk 5 [Ex.b0, Ex.x1] Ex.t0 Ex.t1 [0, 0]]).err =
    some .signerOrder := by decide
example : (validateCerts 1 Ex.t0 5 (some Ex.b0) [Ex.mk 5 [Ex.b0, Ex.x1] Ex.t0 Ex.t1 [0]]).err =
    some .noQuorum := by decide
example : (validateCerts 1 Ex.t0 5 (some Ex.b0) [Ex.mk 5 [Ex.b0, Ex.x1] Ex.t0 Ex.t1 [1, 0]]).err =
    some .signerOrder := by decide
example : (validateCerts 1 Ex.t0 5 (some Ex.b0) [Ex.c5]).err = none := by decide
-- the log parser refuses such lists (string functions do not reduce in the kernel: the list-level
-- function by `decide`, the text-level one by evaluation)
example : Parse.bitfieldList [0, 0] = none ∧ Parse.bitfieldList [1, 0] = none ∧
    Parse.bitfieldList [0, 1] = some [0, 1] ∧ Parse.bitfieldList [] = some [] := by decide
#guard Parse.signers? "0,0" == none && Parse.signers? "0,1" == some (some [0, 1]) &&
  Parse.signers? "-" == some (some []) && Parse.signers? "!" == some none

-- wrong base for the first certificate, wrong payload (other network), unlinked second certificate
example : (validateCerts 1 Ex.t0 5 (some Ex.x2) [Ex.c5]).err = some .baseMismatch := by decide
example : (validateCerts 2 Ex.t0 5 none [Ex.c5]).err = some .badSig := by decide
example : (validateCerts 1 Ex.t0 5 none [Ex.c5, Ex.mk 6 [Ex.b0, Ex.x2] Ex.t1 Ex.t1 [0, 1]]).err =
    some .baseMismatch := by decide

end F3.Props.C04

/-! # Regenerated, second set (appended): ties to `tools/go2lean/targets.d/*2.json` -/
namespace F3.Props.C04
section Regenerated2
/-! ## Regenerated (2): the order of the checks of `ValidateFinalityCertificates` (`certs/certs.go`)

Proved in `F3/Proofs/NodeGen2.lean` against `F3/Gen/Certs2.lean` (`targets.d/Certs2.json`). -/

/-- the outcome class of one iteration of the model's loop = the code of the regenerated `if` sequence:
instance, chain validity, emptiness, base, signature, delta, CID — in the source's order
(statement: `F3.Gen2Tie.stepCert_checks_are_regenerated`) -/
theorem step_cert_checks_are_regenerated : type_of% @F3.Gen2Tie.stepCert_checks_are_regenerated :=
  @F3.Gen2Tie.stepCert_checks_are_regenerated

example : F3.Gen.Certs2.validateCertChecks true false 3 true true true false true 4 true = 1 ∧
    F3.Gen.Certs2.validateCertChecks true false 4 true true true false true 4 true = 2 ∧
    F3.Gen.Certs2.validateCertChecks true false 4 false true true false true 4 true = 3 ∧
    F3.Gen.Certs2.validateCertChecks true false 4 false false true false true 4 true = 4 ∧
    F3.Gen.Certs2.validateCertChecks false false 4 false false true false true 4 true = 5 ∧
    F3.Gen.Certs2.validateCertChecks false false 4 false false true false true 4 false = 6 ∧
    F3.Gen.Certs2.validateCertChecks false false 4 false false true false false 4 false = 8 ∧
    F3.Gen.Certs2.validateCertChecks false false 4 false false false false false 4 false = 0 := by decide

end Regenerated2
end F3.Props.C04

namespace F3.Props.C04
section Skeletons

/-- **The Go functions this property's models mirror still have the statement structure the models were written
against**: each regenerated skeleton (pre-order list of statement kinds, `tools/go2lean/skel.go`) equals the pinned
expectation of `F3/Proofs/SkelTie*.lean`. An added early return, cap, loop or dropped branch in one of these functions
breaks this obligation even when no regenerated *expression* changes. -/
theorem code_structure_as_modelled :
    F3.Gen.SkelCerts.skelValidateCerts = F3.SkelTie.SkelCerts.skelValidateCertsExpected ∧
    F3.Gen.SkelCerts.skelApplyDiffs = F3.SkelTie.SkelCerts.skelApplyDiffsExpected ∧
    F3.Gen.SkelCerts.skelDeltaIsZero = F3.SkelTie.SkelCerts.skelDeltaIsZeroExpected :=
  ⟨F3.SkelTie.SkelCerts.skelValidateCerts_expected, F3.SkelTie.SkelCerts.skelApplyDiffs_expected, F3.SkelTie.SkelCerts.skelDeltaIsZero_expected⟩

end Skeletons
end F3.Props.C04
