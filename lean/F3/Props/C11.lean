import F3.Proofs.SkelTieWal
import F3.Proofs.NodeGen2
import F3.Proofs.WalRead
import F3.Gen.Wal
import F3.Proofs.WalCbor
import F3.Gen.Schema
/-!
# C11 — WAL: acknowledged entries survive crashes and torn writes; purge is conservative

All theorems are about `F3.Wal.step` / `F3.Wal.run` (`F3/Model/Wal.lean`, the definitions the driver
`f3d_wal` executes against the real `internal/writeaheadlog`), for **every** operation history
(`open`, `append` with rotation, `rotate`, `close`, `purge k`, `all`, `crash`, and a crash in the middle
of an append that leaves any prefix `take n` of the record's encoding in the file), every
configuration (rotation threshold, token weights) and every record codec satisfying `Codec.Ok`
(non-empty, self-delimiting encodings none of whose strict prefixes decodes).

Ghost state: `acked` = acknowledged appends whose file has not been purged, tagged with the file they
went to; `inflight` = appends that were cut by a crash.
-/
namespace F3.Props.C11
open F3.Wal
variable {α β : Type}

/-- Acknowledgement is recorded: an `append` that returns `ok` puts its entry into `acked`. -/
theorem append_acknowledged (cfg : Cfg α β) (s : State α β) (e : α) (nm : Name)
    (h : (step cfg s (.append e nm)).2 = .ok) : ∃ f, (f, e) ∈ (step cfg s (.append e nm)).1.acked :=
  append_ok_acked h

/-- `All()` never fails while an object is open (after any history). -/
theorem all_succeeds (cfg : Cfg α β) (hc : cfg.codec.Ok) (ops : List (Op α)) (m : Mem)
    (hm : (run cfg init ops).mem = some m) : ∃ r, (step cfg (run cfg init ops) .all).2 = .entries r :=
  ⟨_, (inv_reachable hc ops).all_eq hm⟩

/-- **Acknowledged entries survive.** After any history — any number of restarts, crashes, torn tails,
rotations, purges — every acknowledged entry whose file has not been purged is returned by `All()`,
intact, under the file it was written to. -/
theorem acked_survive (cfg : Cfg α β) (hc : cfg.codec.Ok) (ops : List (Op α)) (r : List (Name × α))
    (hr : (step cfg (run cfg init ops) .all).2 = .entries r) :
    ∀ p ∈ (run cfg init ops).acked, p ∈ r :=
  (inv_reachable hc ops).acked_read hc hr

/-- **Per-file order.** The entries `All()` returns for one file start with that file's acknowledged
entries in append order (at most the one record of a crashed append follows). -/
theorem acked_in_order (cfg : Cfg α β) (hc : cfg.codec.Ok) (ops : List (Op α)) (r : List (Name × α))
    (hr : (step cfg (run cfg init ops) .all).2 = .entries r) (nm : Name)
    (hnm : nm ∈ (run cfg init ops).dir.names) :
    ackedOf (run cfg init ops) nm <+: (r.filter (fun p => p.1 = nm)).map (·.2) :=
  (inv_reachable hc ops).read_order hc hr nm hnm

/-- **No phantoms (state form).** Everything `All()` returns is an acknowledged entry or the entry of
an append that a crash interrupted. -/
theorem no_phantoms (cfg : Cfg α β) (hc : cfg.codec.Ok) (ops : List (Op α)) (r : List (Name × α))
    (hr : (step cfg (run cfg init ops) .all).2 = .entries r) :
    ∀ p ∈ r, p ∈ (run cfg init ops).acked ∨ p ∈ (run cfg init ops).inflight :=
  (inv_reachable hc ops).read_acked_or_inflight hc hr

/-- **No phantoms (history form).** Every entry `All()` returns was the argument of an append of the
history (acknowledged, or cut by a crash). -/
theorem no_phantoms_history (cfg : Cfg α β) (hc : cfg.codec.Ok) (ops : List (Op α)) (r : List (Name × α))
    (hr : (step cfg (run cfg init ops) .all).2 = .entries r) :
    ∀ p ∈ r, (∃ nm, Op.append p.2 nm ∈ ops) ∨ (∃ nm n, Op.crashAppend p.2 nm n ∈ ops) := by
  intro p hp
  rcases no_phantoms cfg hc ops r hr p hp with h | h
  · rcases acked_from_history cfg ops init p h with h' | h'
    · simp [init] at h'
    · exact Or.inl h'
  · rcases inflight_from_history cfg ops init p h with h' | h'
    · simp [init] at h'
    · exact Or.inr h'

/-- An acknowledged entry remains acknowledged across any operation other than a purge above its
epoch. -/
theorem acked_until_purged (cfg : Cfg α β) (hc : cfg.codec.Ok) (ops : List (Op α)) (op : Op α)
    (p : Name × α) (hp : p ∈ (run cfg init ops).acked) :
    p ∈ (step cfg (run cfg init ops) op).1.acked ∨ ∃ k, op = .purge k ∧ cfg.epoch p.2 < k :=
  (inv_reachable hc ops).acked_persists hc op hp

/-- **Durability, end to end.** If an append is acknowledged after history `ops₁`, then after *any*
continuation `ops₂` (restarts, crashes, torn appends, rotations, purges, further appends) a successful
`All()` returns that entry — unless the continuation contains a purge strictly above its epoch. -/
theorem wal_durability (cfg : Cfg α β) (hc : cfg.codec.Ok) (ops₁ ops₂ : List (Op α)) (e : α) (nm : Name)
    (hack : (step cfg (run cfg init ops₁) (.append e nm)).2 = .ok)
    (r : List (Name × α))
    (hr : (step cfg (run cfg (step cfg (run cfg init ops₁) (.append e nm)).1 ops₂) .all).2 = .entries r) :
    (∃ f, (f, e) ∈ r) ∨ ∃ k, Op.purge k ∈ ops₂ ∧ cfg.epoch e < k := by
  obtain ⟨f, hf⟩ := append_ok_acked hack
  have hinv := inv_step hc (inv_reachable hc ops₁) (.append e nm)
  rcases persists_run cfg hc ops₂ _ hinv (f, e) hf with h | h
  · exact Or.inl ⟨f, (inv_run hc hinv ops₂).acked_read hc hr _ h⟩
  · exact Or.inr h

/-- **Purge is conservative.** Purging below `k` removes no acknowledged entry at or above `k`: it stays
acknowledged (so, by `acked_survive`, readable) and its file stays in the directory. -/
theorem purge_conservative (cfg : Cfg α β) (hc : cfg.codec.Ok) (ops : List (Op α)) (k : Nat) (p : Name × α)
    (hp : p ∈ (run cfg init ops).acked) (hk : k ≤ cfg.epoch p.2) :
    p ∈ (step cfg (run cfg init ops) (.purge k)).1.acked ∧
    p.1 ∈ (step cfg (run cfg init ops) (.purge k)).1.dir.names := by
  have hinv := inv_reachable hc ops
  rcases hinv.acked_persists hc (.purge k) hp with h | ⟨k', hk', hlt⟩
  · exact ⟨h, (inv_step hc hinv (.purge k)).ackedNames p h⟩
  · cases hk'; omega

/-- **Purge is complete for closed files.** After `purge k` (`k > 0`) no closed file remains all of whose
decodable records are below `k`. (For `k = 0` nothing is below the epoch and nothing is removed.) -/
theorem purge_complete_closed (cfg : Cfg α β) (hc : cfg.codec.Ok) (ops : List (Op α)) (k : Nat) (hk : 0 < k)
    (m : Mem) (hm : (run cfg init ops).mem = some m) (st : Stat) (hst : st ∈ m.logFiles)
    (hall : ∀ e ∈ readFile cfg.codec (((run cfg init ops).dir.get st.name).getD []), cfg.epoch e < k) :
    st.name ∉ (step cfg (run cfg init ops) (.purge k)).1.dir.names :=
  (inv_reachable hc ops).purge_complete hm hk hst hall

/-- Purge never removes the active file. -/
theorem purge_keeps_active (cfg : Cfg α β) (hc : cfg.codec.Ok) (ops : List (Op α)) (k : Nat)
    (m : Mem) (hm : (run cfg init ops).mem = some m) (st : Stat) (ha : m.active = some st) :
    st.name ∈ (step cfg (run cfg init ops) (.purge k)).1.dir.names :=
  (inv_reachable hc ops).purge_keeps_active hm k ha

/-- **A crash and restart loses and invents nothing.** Whatever `All()` returns in a reachable state, it
returns the same entries (file by file; only the order of the files may differ) after the process dies
and the log is reopened. -/
theorem restart_preserves_content (cfg : Cfg α β) (hc : cfg.codec.Ok) (ops : List (Op α)) (r : List (Name × α))
    (hr : (step cfg (run cfg init ops) .all).2 = .entries r) :
    ∃ r', (step cfg (run cfg init (ops ++ [.crash, .open])) .all).2 = .entries r' ∧ r'.Perm r := by
  have gen : ∀ (s : State α β) (ops : List (Op α)), run cfg s (ops ++ [.crash, .open]) =
      (step cfg (step cfg (run cfg s ops) .crash).1 .open).1 := by
    intro s ops
    induction ops generalizing s with
    | nil => rfl
    | cons op ops ih => exact ih _
  rw [gen]
  exact (inv_reachable hc ops).restart_preserves_content hc hr

/-- The file being appended to never ends in a torn record: it holds exactly the encodings of its
acknowledged entries. -/
theorem active_file_untorn (cfg : Cfg α β) (hc : cfg.codec.Ok) (ops : List (Op α))
    (m : Mem) (hm : (run cfg init ops).mem = some m) (st : Stat) (ha : m.active = some st) :
    (run cfg init ops).dir.get st.name = some (encAll cfg.codec (ackedOf (run cfg init ops) st.name)) :=
  (inv_reachable hc ops).active_content hm ha

/-- **A restarted log never appends to an old file**: the first acknowledged append after `open` goes
to a file name that did not exist in the directory. -/
theorem restart_appends_to_fresh_file (cfg : Cfg α β) (s : State α β) (e : α) (nm : Name)
    (h : (step cfg (step cfg s .open).1 (.append e nm)).2 = .ok) : nm ∉ s.dir.names := by
  intro hin
  have hw := writeRec_cases cfg s.dir (hydrate cfg s.dir) nm (cfg.codec.enc e)
  generalize hr : writeRec cfg s.dir (hydrate cfg s.dir) nm (cfg.codec.enc e) = r at hw
  cases hw with
  | same st ha => simp [hydrate] at ha
  | fresh hn => exact hn hin
  | exists_ hn => simp [step, hr] at h

/-! ## Codec instances (the hypotheses are satisfiable) -/

theorem tokCodec_ok : tokCodec.Ok where
  nonempty := by intro e; simp [tokCodec]
  roundtrip := by intro e rest; simp [tokCodec]
  torn := by
    intro e n hn
    have : n = 0 ∨ n = 1 := by simp [tokCodec] at hn; omega
    rcases this with rfl | rfl <;> simp [tokCodec]

theorem lpCodec_ok : lpCodec.Ok where
  nonempty := by intro e; simp [lpCodec]
  roundtrip := by intro e rest; simp [lpCodec]
  torn := by
    intro e n hn
    cases n with
    | zero => simp [lpCodec]
    | succ n =>
      simp only [lpCodec, List.length_cons] at hn
      simp only [lpCodec, List.take_succ_cons, List.length_take]
      have : ¬ e.length ≤ min n e.length := by omega
      simp [this]

/-! ## Non-vacuity: concrete histories -/

private def cfgT : Cfg DEntry Tok := tokCfg 10
private def e1 : DEntry := ⟨1, 3, 8⟩
private def e2 : DEntry := ⟨2, 4, 8⟩
private def e3 : DEntry := ⟨3, 5, 8⟩

/-- append, rotation by size (threshold 10, records of weight 8), torn append, restart: the acknowledged
entries come back under their files, the torn one does not. -/
example :
    (step cfgT (run cfgT init [.open, .append e1 "a", .append e2 "a2", .append e3 "b", .crashAppend e3 "c" 1, .open]) .all).2
      = (.entries [("a", e1), ("a", e2), ("b", e3)] : Res DEntry) := by decide

/-- the same with the whole record written but never acknowledged: it may come back (and nothing else). -/
example :
    (step cfgT (run cfgT init [.open, .append e1 "a", .crashAppend e2 "x" 2, .open]) .all).2
      = (.entries [("a", e1), ("a", e2)] : Res DEntry) := by decide

/-- the hypotheses of `wal_durability` are met by a concrete history with a restart and a purge below
the entry's epoch in the continuation. -/
example : (step cfgT (run cfgT init [.open]) (.append e3 "a")).2 = (.ok : Res DEntry) ∧
    (step cfgT (run cfgT (step cfgT (run cfgT init [.open]) (.append e3 "a")).1 [.crash, .open, .purge 5]) .all).2
      = (.entries [("a", e3)] : Res DEntry) := by decide

/-- purge removes the closed file whose entries are all below the epoch and keeps the active one. -/
example : (run cfgT init [.open, .append e1 "a", .rotate, .append e3 "b", .purge 4]).dir.names = ["b"] := by decide

/-- … and keeps a closed file holding an entry at the purge epoch (`purge_conservative` is not vacuous). -/
example : (run cfgT init [.open, .append e1 "a", .rotate, .append e3 "b", .purge 3]).dir.names = ["a", "b"] := by decide

/-! ## Regenerated: the rotation decision of `maybeRotate` as it stands in `internal/writeaheadlog/wal.go`

`F3.Gen.Wal.maybeRotate` is translated on every run (`tools/go2lean/targets.d/Wal.json`) from the whole
function: no active file → `rotate()` (code 1); `Stat()` failed → error (code 2); `stats.Size() >
rotateAt` → `rotate()` (1), else `nil` (0). The constant `rotateAt` (`1 << 20`) is read from the source. -/

/-- the code `maybeRotate` of the source returns in the situation of the model (no `Stat` failure; the
file size is the model's `fileSize` of the active file) -/
def rotateCode {α β : Type} (cfg : Cfg α β) (d : Dir β) (m : Mem) : Int :=
  match m.active with
  | none => F3.Gen.Wal.maybeRotate false 0 false
  | some st => F3.Gen.Wal.maybeRotate false (fileSize cfg ((d.get st.name).getD []) : Nat) true

/-- **The model's rotation rule is the source's.** With the threshold of the source (`cfg.rotateAt` =
the value the driver runs with), for every directory and handle state `maybeRotate` of the model rotates
exactly when the regenerated function says `rotate()`, and otherwise leaves everything untouched. Changing
the comparison or the constant `rotateAt` in `wal.go` breaks this. -/
theorem maybe_rotate_is_regenerated {α β : Type} (cfg : Cfg α β) (d : Dir β) (m : Mem) (nm : Name)
    (hr : cfg.rotateAt = 1048576) :
    maybeRotate cfg d m nm = if rotateCode cfg d m = 1 then rotate d m nm else (d, m, true) := by
  unfold maybeRotate rotateCode F3.Gen.Wal.maybeRotate
  cases m.active with
  | none => rfl
  | some st =>
    simp only [hr, Bool.not_true, Bool.false_eq_true, if_false, decide_eq_true_eq]
    repeat' split
    all_goals (first | rfl | (exfalso; omega))

/-- `maybeRotate` is what `Append` runs first: its only call site, from the source -/
theorem maybe_rotate_call_site :
    F3.Gen.Wal.callSites = [("internal/writeaheadlog/wal.go", "maybeRotate", [])] := by decide

-- non-vacuity: both decisions at the boundary, and the no-active-file case
example : F3.Gen.Wal.maybeRotate false 1048576 true = 0 ∧ F3.Gen.Wal.maybeRotate false 1048577 true = 1 ∧
    F3.Gen.Wal.maybeRotate false 0 false = 1 ∧ F3.Gen.Wal.maybeRotate true 0 true = 2 := by decide
example : rotateCode (tokCfg 1048576) [("a", [])] ⟨[], some ⟨"a", 0⟩⟩ = 0 ∧
    rotateCode (tokCfg 1048576) [] ⟨[], none⟩ = 1 := by decide

/-! ## The record format of the real log: cbor-gen records

Everything above holds for every codec with `Codec.Ok`.  The deployed log
(`writeaheadlog.Open[walEntry]`, `/repo/f3.go`) stores `walEntry{Message *gpbft.GMessage}` records;
`walEntry.MarshalCBOR` / `UnmarshalCBOR` (`/repo/wal.go`, hand-written, three lines each — `walEntry` is
*not* in `gen/main.go` and has no generated codec of its own) delegate to `GMessage.MarshalCBOR` /
`UnmarshalCBOR` without adding a byte, so a record is exactly one `GMessage` tuple and its schema is the
entry `gpbft.GMessage` of the table `F3.Gen.Schema`, regenerated from the Go sources on every run.

`cborCodec sch` (`F3/Model/WalCbor.lean`) is the WAL codec whose `enc` is `F3.Cbor.encode sch` and whose
`dec1` is `F3.Cbor.decode sch` (value **and unread rest**) over bytes; its records `Rec sch` are the
values the generated encoder accepts (`Append` returns the encoder's error before writing anything; a nil
`Message` — written as the single byte `0xf6`, after which `WALEpoch` dereferences nil — is outside the
value domain: `BroadcastMessage`, the only caller, has dereferenced the message before).
`cbor_codec_ok` proves `Codec.Ok` for it — in particular *torn at any byte*: on every strict prefix of an
encoding the generated decoder fails (with end-of-input), by induction on the schema — for **every**
well-formed schema of a Go type, hence for all 16 types of the table; no schema shape was found for
which a strict prefix of an encoding decodes (trailing `nullable` fields and empty arrays included: the
absent pointer is the byte `0xf6`, the empty array the head `0x80`, and a tuple's arity is in its head).
-/
section CborRecords
open F3.Cbor F3.Codec

/-- The schema of a WAL record: `gpbft.GMessage` as extracted from the sources now. -/
abbrev walSchema : Schema := Gen.Schema.gpbft_GMessage

/-- WAL records: `GMessage` values the generated encoder accepts. -/
abbrev WalRec : Type := Rec walSchema

/-- The codec of the deployed log. -/
def walCodec : Codec WalRec Nat := cborCodec walSchema

/-- The deployed configuration: `WALEpoch` = `Message.Vote.Instance`, file size counted in bytes,
`rotateAt = 1 << 20` (the constant `maybe_rotate_is_regenerated` reads from the source). -/
def walCfg : Cfg WalRec Nat := ⟨walCodec, fun r => gmsgInstance r.1, fun _ => 1, 1048576⟩

/-- The record schema is an entry of the regenerated table, well-formed (encoder, decoder and struct tags
agree on every limit), and the schema of a Go type. -/
theorem wal_schema_is_regenerated :
    ("gpbft.GMessage", walSchema) ∈ Gen.Schema.table ∧ walSchema.wf = true ∧ walSchema.isRecord = true := by
  decide

/-- **A torn cbor-gen record never decodes.** For every well-formed schema, every value `v` the encoder
accepts and every `n` below the length of the encoding, the generated decoder fails on the first `n`
bytes — with end of input, whatever the schema (optional trailing fields, empty slices, nested tuples). -/
theorem torn_record_rejected (s : Schema) (hwf : s.wf = true) (v : Value) (b : Bytes)
    (he : encode s v = some b) (n : Nat) (hn : n < b.length) : decode s (b.take n) = .error .eof :=
  decode_torn s hwf v b he _ (sprefix_take b n hn)

/-- **cbor-gen records satisfy `Codec.Ok`**: non-empty encodings, `decode (encode v ++ rest) = (v, rest)`,
no strict prefix of an encoding decodes. -/
theorem cbor_codec_ok (sch : Schema) (hwf : sch.wf = true) (hr : sch.isRecord = true) : (cborCodec sch).Ok :=
  F3.Wal.cborCodec_ok sch hwf hr

/-- … for every type that has a generated codec (the table as regenerated now). -/
theorem cbor_codec_ok_every_type (name : String) (s : Schema) (hmem : (name, s) ∈ Gen.Schema.table) :
    (cborCodec s).Ok := by
  have h : ∀ p ∈ Gen.Schema.table, p.2.wf = true ∧ p.2.isRecord = true := by decide
  exact F3.Wal.cborCodec_ok s (h _ hmem).1 (h _ hmem).2

theorem walCodec_ok : walCodec.Ok :=
  F3.Wal.cborCodec_ok walSchema wal_schema_is_regenerated.2.1 wal_schema_is_regenerated.2.2

/-- **Acknowledged CBOR records survive**: `acked_survive` for the log of `GMessage` records, bytes as
tokens — any history, crashes tearing an append at any byte included. -/
theorem acked_survive_cbor (cfg : Cfg WalRec Nat) (hcodec : cfg.codec = walCodec) (ops : List (Op WalRec))
    (r : List (Name × WalRec)) (hr : (step cfg (run cfg init ops) .all).2 = .entries r) :
    ∀ p ∈ (run cfg init ops).acked, p ∈ r :=
  acked_survive cfg (hcodec ▸ walCodec_ok) ops r hr

/-- **No phantoms, CBOR records**: everything `All()` decodes from the byte files was the argument of an
append of the history (acknowledged, or cut by a crash — and then written completely). -/
theorem no_phantoms_cbor (cfg : Cfg WalRec Nat) (hcodec : cfg.codec = walCodec) (ops : List (Op WalRec))
    (r : List (Name × WalRec)) (hr : (step cfg (run cfg init ops) .all).2 = .entries r) :
    ∀ p ∈ r, (p ∈ (run cfg init ops).acked ∨ p ∈ (run cfg init ops).inflight) ∧
      ((∃ nm, Op.append p.2 nm ∈ ops) ∨ (∃ nm n, Op.crashAppend p.2 nm n ∈ ops)) :=
  fun p hp => ⟨no_phantoms cfg (hcodec ▸ walCodec_ok) ops r hr p hp,
               no_phantoms_history cfg (hcodec ▸ walCodec_ok) ops r hr p hp⟩

/-- **Durability end to end, CBOR records**: an acknowledged `GMessage` is returned, intact, by every
later successful `All()` — after restarts, crashes, appends torn at any byte `n`, rotations — unless a
purge strictly above its epoch intervened. -/
theorem wal_durability_cbor (cfg : Cfg WalRec Nat) (hcodec : cfg.codec = walCodec)
    (ops₁ ops₂ : List (Op WalRec)) (e : WalRec) (nm : Name)
    (hack : (step cfg (run cfg init ops₁) (.append e nm)).2 = .ok)
    (r : List (Name × WalRec))
    (hr : (step cfg (run cfg (step cfg (run cfg init ops₁) (.append e nm)).1 ops₂) .all).2 = .entries r) :
    (∃ f, (f, e) ∈ r) ∨ ∃ k, Op.purge k ∈ ops₂ ∧ cfg.epoch e < k :=
  wal_durability cfg (hcodec ▸ walCodec_ok) ops₁ ops₂ e nm hack r hr

/-- **The reader is plain `UnmarshalCBOR`.** `cborCodec.dec1` re-checks that the decoded value is one
the encoder accepts (it has to return a `WalRec`); `rawCodec` is the loop of `readLogFile` as it is —
`UnmarshalCBOR` until the first error, no re-check.  On every file of every reachable directory the two
return the same values: the re-check is never exercised. -/
theorem reads_are_plain_cbor_decoding (cfg : Cfg WalRec Nat) (hcodec : cfg.codec = walCodec)
    (ops : List (Op WalRec)) (nm : Name) (bs : Bytes) (hmem : (nm, bs) ∈ (run cfg init ops).dir) :
    readFile (rawCodec walSchema) bs = (readFile cfg.codec bs).map (·.1) := by
  have hinv := inv_reachable (hcodec ▸ walCodec_ok : cfg.codec.Ok) ops
  obtain ⟨hwf, hrec⟩ := wal_schema_is_regenerated.2
  rcases hinv.content nm bs hmem with h | ⟨_, e, k, _, h⟩
  · rw [h, hcodec]; exact readFile_raw_eq_complete hwf hrec _
  · rw [h, hcodec]; exact readFile_raw_eq hwf hrec _ e k

/-! ### non-vacuity: a concrete `GMessage`, its bytes, every cut -/

/-- sender, `Vote{Instance, Round 0, Phase 1, SupplementalData{32 zero bytes, CID 01 71 00 00}, empty chain}`,
a 2-byte signature, empty ticket, no justification -/
private def gmsg (sender inst : Nat) : Value :=
  .cons (.uint sender)
    (.cons (.cons (.uint inst) (.cons (.uint 0) (.cons (.uint 1)
        (.cons (.cons (.bytes (List.replicate 32 0)) (.cons (.bytes [1, 113, 0, 0]) .nil)) (.cons .nil .nil)))))
      (.cons (.bytes [7, 7]) (.cons (.bytes []) (.cons .null .nil))))

private def m0 : WalRec := ⟨gmsg 1 7, by decide⟩
private def m1 : WalRec := ⟨gmsg 2 9, by decide⟩

/-- the 55 bytes of the record -/
example : walCodec.enc m0 =
    [133, 1, 133, 7, 0, 1, 130, 88, 32] ++ List.replicate 32 0 ++ [216, 42, 69, 0, 1, 113, 0, 0, 128, 66, 7, 7, 64, 246] := by
  decide

/-- every one of the 55 strict prefixes is rejected — also the 54-byte one that lacks only the `0xf6` of
the absent (trailing, optional) justification — by the codec reader and by plain `decode` -/
example : ((List.range (walCodec.enc m0).length).all fun n =>
    (walCodec.dec1 ((walCodec.enc m0).take n)).isNone &&
    decide (decode walSchema ((walCodec.enc m0).take n) = .error .eof)) = true := by decide

/-- the full encoding is accepted and the bytes after it are handed back untouched -/
example : walCodec.dec1 (walCodec.enc m0 ++ [133, 2]) = some (m0, [133, 2]) := by decide

/-- why this is not `encode_prefix_free`: the decoder accepts byte strings no encoder writes (here `0xf6`
instead of `0x80` for the empty chain, byte 50) — they are complete records, never cut ones -/
example : decode walSchema ([133, 1, 133, 7, 0, 1, 130, 88, 32] ++ List.replicate 32 0 ++
    [216, 42, 69, 0, 1, 113, 0, 0, 246, 66, 7, 7, 64, 246]) = .ok (m0.1, []) := by decide

example : walCfg.epoch m0 = 7 := by decide

/-- a byte-level history: `m1` torn one byte before its end does not come back after the restart, … -/
example : (step walCfg (run walCfg init [.open, .append m0 "a", .crashAppend m1 "a" 54, .open]) .all).2
    = (.entries [("a", m0)] : Res WalRec) := by decide

/-- … written completely (but never acknowledged) it does; nothing else ever appears. -/
example : (step walCfg (run walCfg init [.open, .append m0 "a", .crashAppend m1 "a" 55, .open]) .all).2
    = (.entries [("a", m0), ("a", m1)] : Res WalRec) := by decide

/-- the hypotheses of `wal_durability_cbor` are met by a history with a torn append and a restart -/
example : walCfg.codec = walCodec ∧ (step walCfg (run walCfg init [.open]) (.append m0 "a")).2 = (.ok : Res WalRec) ∧
    (step walCfg (run walCfg (step walCfg (run walCfg init [.open]) (.append m0 "a")).1
      [.crashAppend m1 "b" 20, .open, .purge 7]) .all).2 = (.entries [("a", m0)] : Res WalRec) :=
  ⟨rfl, by decide, by decide⟩

end CborRecords

end F3.Props.C11

/-! # Regenerated, second set (appended): ties to `tools/go2lean/targets.d/*2.json` -/
namespace F3.Props.C11
section Regenerated2
/-! ## Regenerated (2): which files `Purge` deletes (`internal/writeaheadlog/wal.go`)

Proved in `F3/Proofs/NodeGen2.lean` against `F3/Gen/Wal2.lean` (`targets.d/Wal2.json`). -/

/-- the closed files kept and the names deleted by the model's `purge k` are selected by the source's
`c.maxEpoch < keepEpoch` (statement: `F3.Gen2Tie.purge_selection_is_regenerated`) -/
theorem purge_selection_is_regenerated : type_of% @F3.Gen2Tie.purge_selection_is_regenerated :=
  @F3.Gen2Tie.purge_selection_is_regenerated

/-- `os.Remove` of the selected file is the only file-system call of `Purge` -/
theorem purge_call_site :
    F3.Gen.Wal2.callSites =
      [("internal/writeaheadlog/wal.go", "Remove", ["filepath.Join(wal.path, c.logName)"])] :=
  F3.Gen2Tie.purge_call_site

example : F3.Gen.Wal2.purgeDeletes 3 4 = true ∧ F3.Gen.Wal2.purgeDeletes 4 4 = false := by decide

end Regenerated2
end F3.Props.C11

namespace F3.Props.C11
section Skeletons

/-- **The Go functions this property's models mirror still have the statement structure the models were written
against**: each regenerated skeleton (pre-order list of statement kinds, `tools/go2lean/skel.go`) equals the pinned
expectation of `F3/Proofs/SkelTie*.lean`. An added early return, cap, loop or dropped branch in one of these functions
breaks this obligation even when no regenerated *expression* changes. -/
theorem code_structure_as_modelled :
    F3.Gen.SkelWal.skelWalAppend = F3.SkelTie.SkelWal.skelWalAppendExpected ∧
    F3.Gen.SkelWal.skelWalPurge = F3.SkelTie.SkelWal.skelWalPurgeExpected ∧
    F3.Gen.SkelWal.skelWalClose = F3.SkelTie.SkelWal.skelWalCloseExpected :=
  ⟨F3.SkelTie.SkelWal.skelWalAppend_expected, F3.SkelTie.SkelWal.skelWalPurge_expected, F3.SkelTie.SkelWal.skelWalClose_expected⟩

end Skeletons
end F3.Props.C11
