import F3.Proofs.WalRead
import F3.Gen.Wal
/-!
# C11 — WAL: acknowledged entries survive crashes and torn writes; purge is conservative

All theorems are about `F3.Wal.step` / `F3.Wal.run` (`F3/Model/Wal.lean`, the definitions the driver
`f3d_wal` executes against the real `internal/writeaheadlog`), for **every** operation history
(`open`, `append` with rotation, `rotate`, `close`, `purge k`, `all`, `crash`, and a crash in the middle
of an append that leaves any prefix `take n` of the record's encoding in the file), every
configuration (rotation threshold, token weights) and every record codec satisfying `Codec.Ok`
(non-empty, self-delimiting encodings none of whose strict prefixes decodes).

Ghost state: `acked` = acknowledged appends whose file has not been purged, tagged with the file they
went to; `inflight` = appends that were cut by a crash.
-/
namespace F3.Props.C11
open F3.Wal
variable {α β : Type}

/-- Acknowledgement is recorded: an `append` that returns `ok` puts its entry into `acked`. -/
theorem append_acknowledged (cfg : Cfg α β) (s : State α β) (e : α) (nm : Name)
    (h : (step cfg s (.append e nm)).2 = .ok) : ∃ f, (f, e) ∈ (step cfg s (.append e nm)).1.acked :=
  append_ok_acked h

/-- `All()` never fails while an object is open (after any history). -/
theorem all_succeeds (cfg : Cfg α β) (hc : cfg.codec.Ok) (ops : List (Op α)) (m : Mem)
    (hm : (run cfg init ops).mem = some m) : ∃ r, (step cfg (run cfg init ops) .all).2 = .entries r :=
  ⟨_, (inv_reachable hc ops).all_eq hm⟩

/-- **Acknowledged entries survive.** After any history — any number of restarts, crashes, torn tails,
rotations, purges — every acknowledged entry whose file has not been purged is returned by `All()`,
intact, under the file it was written to. -/
theorem acked_survive (cfg : Cfg α β) (hc : cfg.codec.Ok) (ops : List (Op α)) (r : List (Name × α))
    (hr : (step cfg (run cfg init ops) .all).2 = .entries r) :
    ∀ p ∈ (run cfg init ops).acked, p ∈ r :=
  (inv_reachable hc ops).acked_read hc hr

/-- **Per-file order.** The entries `All()` returns for one file start with that file's acknowledged
entries in append order (at most the one record of a crashed append follows). -/
theorem acked_in_order (cfg : Cfg α β) (hc : cfg.codec.Ok) (ops : List (Op α)) (r : List (Name × α))
    (hr : (step cfg (run cfg init ops) .all).2 = .entries r) (nm : Name)
    (hnm : nm ∈ (run cfg init ops).dir.names) :
    ackedOf (run cfg init ops) nm <+: (r.filter (fun p => p.1 = nm)).map (·.2) :=
  (inv_reachable hc ops).read_order hc hr nm hnm

/-- **No phantoms (state form).** Everything `All()` returns is an acknowledged entry or the entry of
an append that a crash interrupted. -/
theorem no_phantoms (cfg : Cfg α β) (hc : cfg.codec.Ok) (ops : List (Op α)) (r : List (Name × α))
    (hr : (step cfg (run cfg init ops) .all).2 = .entries r) :
    ∀ p ∈ r, p ∈ (run cfg init ops).acked ∨ p ∈ (run cfg init ops).inflight :=
  (inv_reachable hc ops).read_acked_or_inflight hc hr

/-- **No phantoms (history form).** Every entry `All()` returns was the argument of an append of the
history (acknowledged, or cut by a crash). -/
theorem no_phantoms_history (cfg : Cfg α β) (hc : cfg.codec.Ok) (ops : List (Op α)) (r : List (Name × α))
    (hr : (step cfg (run cfg init ops) .all).2 = .entries r) :
    ∀ p ∈ r, (∃ nm, Op.append p.2 nm ∈ ops) ∨ (∃ nm n, Op.crashAppend p.2 nm n ∈ ops) := by
  intro p hp
  rcases no_phantoms cfg hc ops r hr p hp with h | h
  · rcases acked_from_history cfg ops init p h with h' | h'
    · simp [init] at h'
    · exact Or.inl h'
  · rcases inflight_from_history cfg ops init p h with h' | h'
    · simp [init] at h'
    · exact Or.inr h'

/-- An acknowledged entry remains acknowledged across any operation other than a purge above its
epoch. -/
theorem acked_until_purged (cfg : Cfg α β) (hc : cfg.codec.Ok) (ops : List (Op α)) (op : Op α)
    (p : Name × α) (hp : p ∈ (run cfg init ops).acked) :
    p ∈ (step cfg (run cfg init ops) op).1.acked ∨ ∃ k, op = .purge k ∧ cfg.epoch p.2 < k :=
  (inv_reachable hc ops).acked_persists hc op hp

/-- **Durability, end to end.** If an append is acknowledged after history `ops₁`, then after *any*
continuation `ops₂` (restarts, crashes, torn appends, rotations, purges, further appends) a successful
`All()` returns that entry — unless the continuation contains a purge strictly above its epoch. -/
theorem wal_durability (cfg : Cfg α β) (hc : cfg.codec.Ok) (ops₁ ops₂ : List (Op α)) (e : α) (nm : Name)
    (hack : (step cfg (run cfg init ops₁) (.append e nm)).2 = .ok)
    (r : List (Name × α))
    (hr : (step cfg (run cfg (step cfg (run cfg init ops₁) (.append e nm)).1 ops₂) .all).2 = .entries r) :
    (∃ f, (f, e) ∈ r) ∨ ∃ k, Op.purge k ∈ ops₂ ∧ cfg.epoch e < k := by
  obtain ⟨f, hf⟩ := append_ok_acked hack
  have hinv := inv_step hc (inv_reachable hc ops₁) (.append e nm)
  rcases persists_run cfg hc ops₂ _ hinv (f, e) hf with h | h
  · exact Or.inl ⟨f, (inv_run hc hinv ops₂).acked_read hc hr _ h⟩
  · exact Or.inr h

/-- **Purge is conservative.** Purging below `k` removes no acknowledged entry at or above `k`: it stays
acknowledged (so, by `acked_survive`, readable) and its file stays in the directory. -/
theorem purge_conservative (cfg : Cfg α β) (hc : cfg.codec.Ok) (ops : List (Op α)) (k : Nat) (p : Name × α)
    (hp : p ∈ (run cfg init ops).acked) (hk : k ≤ cfg.epoch p.2) :
    p ∈ (step cfg (run cfg init ops) (.purge k)).1.acked ∧
    p.1 ∈ (step cfg (run cfg init ops) (.purge k)).1.dir.names := by
  have hinv := inv_reachable hc ops
  rcases hinv.acked_persists hc (.purge k) hp with h | ⟨k', hk', hlt⟩
  · exact ⟨h, (inv_step hc hinv (.purge k)).ackedNames p h⟩
  · cases hk'; omega

/-- **Purge is complete for closed files.** After `purge k` (`k > 0`) no closed file remains all of whose
decodable records are below `k`. (For `k = 0` nothing is below the epoch and nothing is removed.) -/
theorem purge_complete_closed (cfg : Cfg α β) (hc : cfg.codec.Ok) (ops : List (Op α)) (k : Nat) (hk : 0 < k)
    (m : Mem) (hm : (run cfg init ops).mem = some m) (st : Stat) (hst : st ∈ m.logFiles)
    (hall : ∀ e ∈ readFile cfg.codec (((run cfg init ops).dir.get st.name).getD []), cfg.epoch e < k) :
    st.name ∉ (step cfg (run cfg init ops) (.purge k)).1.dir.names :=
  (inv_reachable hc ops).purge_complete hm hk hst hall

/-- Purge never removes the active file. -/
theorem purge_keeps_active (cfg : Cfg α β) (hc : cfg.codec.Ok) (ops : List (Op α)) (k : Nat)
    (m : Mem) (hm : (run cfg init ops).mem = some m) (st : Stat) (ha : m.active = some st) :
    st.name ∈ (step cfg (run cfg init ops) (.purge k)).1.dir.names :=
  (inv_reachable hc ops).purge_keeps_active hm k ha

/-- **A crash and restart loses and invents nothing.** Whatever `All()` returns in a reachable state, it
returns the same entries (file by file; only the order of the files may differ) after the process dies
and the log is reopened. -/
theorem restart_preserves_content (cfg : Cfg α β) (hc : cfg.codec.Ok) (ops : List (Op α)) (r : List (Name × α))
    (hr : (step cfg (run cfg init ops) .all).2 = .entries r) :
    ∃ r', (step cfg (run cfg init (ops ++ [.crash, .open])) .all).2 = .entries r' ∧ r'.Perm r := by
  have gen : ∀ (s : State α β) (ops : List (Op α)), run cfg s (ops ++ [.crash, .open]) =
      (step cfg (step cfg (run cfg s ops) .crash).1 .open).1 := by
    intro s ops
    induction ops generalizing s with
    | nil => rfl
    | cons op ops ih => exact ih _
  rw [gen]
  exact (inv_reachable hc ops).restart_preserves_content hc hr

/-- The file being appended to never ends in a torn record: it holds exactly the encodings of its
acknowledged entries. -/
theorem active_file_untorn (cfg : Cfg α β) (hc : cfg.codec.Ok) (ops : List (Op α))
    (m : Mem) (hm : (run cfg init ops).mem = some m) (st : Stat) (ha : m.active = some st) :
    (run cfg init ops).dir.get st.name = some (encAll cfg.codec (ackedOf (run cfg init ops) st.name)) :=
  (inv_reachable hc ops).active_content hm ha

/-- **A restarted log never appends to an old file**: the first acknowledged append after `open` goes
to a file name that did not exist in the directory. -/
theorem restart_appends_to_fresh_file (cfg : Cfg α β) (s : State α β) (e : α) (nm : Name)
    (h : (step cfg (step cfg s .open).1 (.append e nm)).2 = .ok) : nm ∉ s.dir.names := by
  intro hin
  have hw := writeRec_cases cfg s.dir (hydrate cfg s.dir) nm (cfg.codec.enc e)
  generalize hr : writeRec cfg s.dir (hydrate cfg s.dir) nm (cfg.codec.enc e) = r at hw
  cases hw with
  | same st ha => simp [hydrate] at ha
  | fresh hn => exact hn hin
  | exists_ hn => simp [step, hr] at h

/-! ## Codec instances (the hypotheses are satisfiable) -/

theorem tokCodec_ok : tokCodec.Ok where
  nonempty := by intro e; simp [tokCodec]
  roundtrip := by intro e rest; simp [tokCodec]
  torn := by
    intro e n hn
    have : n = 0 ∨ n = 1 := by simp [tokCodec] at hn; omega
    rcases this with rfl | rfl <;> simp [tokCodec]

theorem lpCodec_ok : lpCodec.Ok where
  nonempty := by intro e; simp [lpCodec]
  roundtrip := by intro e rest; simp [lpCodec]
  torn := by
    intro e n hn
    cases n with
    | zero => simp [lpCodec]
    | succ n =>
      simp only [lpCodec, List.length_cons] at hn
      simp only [lpCodec, List.take_succ_cons, List.length_take]
      have : ¬ e.length ≤ min n e.length := by omega
      simp [this]

/-! ## Non-vacuity: concrete histories -/

private def cfgT : Cfg DEntry Tok := tokCfg 10
private def e1 : DEntry := ⟨1, 3, 8⟩
private def e2 : DEntry := ⟨2, 4, 8⟩
private def e3 : DEntry := ⟨3, 5, 8⟩

/-- append, rotation by size (threshold 10, records of weight 8), torn append, restart: the acknowledged
entries come back under their files, the torn one does not. -/
example :
    (step cfgT (run cfgT init [.open, .append e1 "a", .append e2 "a2", .append e3 "b", .crashAppend e3 "c" 1, .open]) .all).2
      = (.entries [("a", e1), ("a", e2), ("b", e3)] : Res DEntry) := by decide

/-- the same with the whole record written but never acknowledged: it may come back (and nothing else). -/
example :
    (step cfgT (run cfgT init [.open, .append e1 "a", .crashAppend e2 "x" 2, .open]) .all).2
      = (.entries [("a", e1), ("a", e2)] : Res DEntry) := by decide

/-- the hypotheses of `wal_durability` are met by a concrete history with a restart and a purge below
the entry's epoch in the continuation. -/
example : (step cfgT (run cfgT init [.open]) (.append e3 "a")).2 = (.ok : Res DEntry) ∧
    (step cfgT (run cfgT (step cfgT (run cfgT init [.open]) (.append e3 "a")).1 [.crash, .open, .purge 5]) .all).2
      = (.entries [("a", e3)] : Res DEntry) := by decide

/-- purge removes the closed file whose entries are all below the epoch and keeps the active one. -/
example : (run cfgT init [.open, .append e1 "a", .rotate, .append e3 "b", .purge 4]).dir.names = ["b"] := by decide

/-- … and keeps a closed file holding an entry at the purge epoch (`purge_conservative` is not vacuous). -/
example : (run cfgT init [.open, .append e1 "a", .rotate, .append e3 "b", .purge 3]).dir.names = ["a", "b"] := by decide

/-! ## Regenerated: the rotation decision of `maybeRotate` as it stands in `internal/writeaheadlog/wal.go`

`F3.Gen.Wal.maybeRotate` is translated on every run (`tools/go2lean/targets.d/Wal.json`) from the whole
function: no active file → `rotate()` (code 1); `Stat()` failed → error (code 2); `stats.Size() >
rotateAt` → `rotate()` (1), else `nil` (0). The constant `rotateAt` (`1 << 20`) is read from the source. -/

/-- the code `maybeRotate` of the source returns in the situation of the model (no `Stat` failure; the
file size is the model's `fileSize` of the active file) -/
def rotateCode {α β : Type} (cfg : Cfg α β) (d : Dir β) (m : Mem) : Int :=
  match m.active with
  | none => F3.Gen.Wal.maybeRotate false 0 false
  | some st => F3.Gen.Wal.maybeRotate false (fileSize cfg ((d.get st.name).getD []) : Nat) true

/-- **The model's rotation rule is the source's.** With the threshold of the source (`cfg.rotateAt` =
the value the driver runs with), for every directory and handle state `maybeRotate` of the model rotates
exactly when the regenerated function says `rotate()`, and otherwise leaves everything untouched. Changing
the comparison or the constant `rotateAt` in `wal.go` breaks this. -/
theorem maybe_rotate_is_regenerated {α β : Type} (cfg : Cfg α β) (d : Dir β) (m : Mem) (nm : Name)
    (hr : cfg.rotateAt = 1048576) :
    maybeRotate cfg d m nm = if rotateCode cfg d m = 1 then rotate d m nm else (d, m, true) := by
  unfold maybeRotate rotateCode F3.Gen.Wal.maybeRotate
  cases m.active with
  | none => rfl
  | some st =>
    simp only [hr, Bool.not_true, Bool.false_eq_true, if_false, decide_eq_true_eq]
    repeat' split
    all_goals (first | rfl | (exfalso; omega))

/-- `maybeRotate` is what `Append` runs first: its only call site, from the source -/
theorem maybe_rotate_call_site :
    F3.Gen.Wal.callSites = [("internal/writeaheadlog/wal.go", "maybeRotate", [])] := by decide

-- non-vacuity: both decisions at the boundary, and the no-active-file case
example : F3.Gen.Wal.maybeRotate false 1048576 true = 0 ∧ F3.Gen.Wal.maybeRotate false 1048577 true = 1 ∧
    F3.Gen.Wal.maybeRotate false 0 false = 1 ∧ F3.Gen.Wal.maybeRotate true 0 true = 2 := by decide
example : rotateCode (tokCfg 1048576) [("a", [])] ⟨[], some ⟨"a", 0⟩⟩ = 0 ∧
    rotateCode (tokCfg 1048576) [] ⟨[], none⟩ = 1 := by decide

end F3.Props.C11
