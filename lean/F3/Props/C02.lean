import F3.Spec.GraniteNet
import F3.Props.C01
/-!
# C02 — Validity

Layer A/N part: every decided value is non-bottom and *good* (instantiated below with "non-empty prefix
of the input chain of some honest participant", whence it starts at the common base). The guard that
makes this an invariant — an honest PREPARE is for a good value of its own, or for a value that
already had a strong PREPARE quorum in an earlier round — is proved of the executable model
(`F3.Instance.runFrom_guarded`, candidate-set soundness `CandOK`), giving `validity_model`.

The second sentence of the property (unanimous honest input + synchrony ⇒ that chain is decided) is a
liveness statement under a real-time bound: its untimed core is `C06.unanimous_step_*` (each phase of round 0
ends with the unanimous value once a strong quorum for it has been tallied); the timed claim is validated on
every `sync`-mode run of the harness (oracle `C02-unanimous-synchronous-run-decided-another-chain`).
-/
namespace F3.Props.C02
open F3.Granite F3.Props.C01

variable {P V : Type} [DecidableEq P]

/-- **Validity (abstract).** Every decided value is non-bottom and good for some honest participant. -/
theorem validity_network (c : Params P V) (hb : faultBound c) {s : Votes P V}
    (hr : Reachable c s) {x : V} (hx : Decided c s x) :
    x ≠ c.bot ∧ ∃ h, h ∉ c.faulty ∧ c.good h x := by
  have inv := inv_reachable c hb hr
  refine World.decided_good inv.rules (fun x => ∃ h, h ∉ c.faulty ∧ c.good h x) ?_ hx
  intro p hp r x hs
  rcases inv.backed p hp r x hs with g | h
  · exact Or.inl ⟨p, hp, g⟩
  · exact Or.inr h

/-- chain-valued parameters: values are tipset lists, bottom is the empty chain, a value is good for
`p` when it is a non-empty prefix of `p`'s input. -/
def chainParams (committee : Finset P) (pw : P → Nat) (faulty : Finset P) (input : P → List Nat) :
    Params P (List Nat) :=
  { committee := committee, pw := pw, faulty := faulty, bot := [],
    good := fun p x => x ≠ [] ∧ x <+: input p }

/-- **Validity for chains.** If all honest inputs start at base `b`, every decided chain is non-empty,
starts at `b`, and is a prefix of the input of at least one honest participant. -/
theorem validity_chains (committee : Finset P) (pw : P → Nat) (faulty : Finset P)
    (input : P → List Nat) (b : Nat)
    (hbase : ∀ p, p ∉ faulty → (input p).head? = some b)
    (hb : faultBound (chainParams committee pw faulty input)) {s : Votes P (List Nat)}
    (hr : Reachable (chainParams committee pw faulty input) s) {x : List Nat}
    (hx : Decided (chainParams committee pw faulty input) s x) :
    x ≠ [] ∧ x.head? = some b ∧ ∃ h, h ∉ faulty ∧ x <+: input h := by
  obtain ⟨hne, h, hh, _, hpre⟩ := validity_network _ hb hr hx
  refine ⟨hne, ?_, h, hh, hpre⟩
  have hb' := hbase h hh
  obtain ⟨t, ht⟩ := hpre
  cases x with
  | nil => exact absurd rfl hne
  | cons a l =>
    rw [← ht] at hb'
    simpa using hb'

/-- Every value that ever gathers a strong PREPARE quorum is already a prefix of an honest input. -/
theorem prepare_quorum_good (c : Params P V) (hb : faultBound c) {s : Votes P V}
    (hr : Reachable c s) (r : Nat) (x : V) (hq : (c.world s).Q .prepare r x) :
    ∃ h, h ∉ c.faulty ∧ c.good h x := by
  have inv := inv_reachable c hb hr
  refine World.prepareQ_good inv.rules (fun x => ∃ h, h ∉ c.faulty ∧ c.good h x) ?_ r x hq
  intro p hp r x hs
  rcases inv.backed p hp r x hs with g | h
  · exact Or.inl ⟨p, hp, g⟩
  · exact Or.inr h

/-- Non-vacuity: the example network of C01 decides 7, which is good for the honest members. -/
example : ∃ s, Reachable exC s ∧ Decided exC s 7 ∧ (7 ≠ exC.bot ∧ ∃ h, h ∉ exC.faulty ∧ exC.good h 7) := by
  obtain ⟨s, hr, hd, _, _⟩ := ex_decided
  exact ⟨s, hr, hd, validity_network exC ex_bound hr hd⟩


/-! ## Validity of the executable model -/
section Model
open F3.Instance F3.Bridge

/-- **Validity, end to end for the model of the code** (hypotheses as in `C01.agreement_model`): a decision
reported by an honest participant is a non-empty prefix of the input chain of some honest committee member. -/
theorem validity_model {t : Table} {F : Finset Pid} {W : Instance.Votes} (N : Network t F W)
    (p : Pid) (hp : p ∈ (ids t).toFinset) (hpF : p ∉ F) (d : Just)
    (hd : (run (init (N.runs p hp hpF).cfg t (N.runs p hp hpF).input) (N.runs p hp hpF).ops).1.termination = some d) :
    d.value ≠ [] ∧ ∃ h, ∃ hh : h ∈ (ids t).toFinset, ∃ hF : h ∉ F, d.value <+: (N.runs h hh hF).input :=
  model_validity N p hp hpF d hd

/-- ... and starts at the common base when all honest inputs do. -/
theorem validity_model_base {t : Table} {F : Finset Pid} {W : Instance.Votes} (N : Network t F W) (b : Nat)
    (hbase : ∀ h (hh : h ∈ (ids t).toFinset) (hF : h ∉ F), (N.runs h hh hF).input.head? = some b)
    (p : Pid) (hp : p ∈ (ids t).toFinset) (hpF : p ∉ F) (d : Just)
    (hd : (run (init (N.runs p hp hpF).cfg t (N.runs p hp hpF).input) (N.runs p hp hpF).ops).1.termination = some d) :
    d.value.head? = some b :=
  model_validity_base N b hbase p hp hpF d hd

/-- Non-vacuity: in the example network of `F3.Bridge` honest member 1 decides `[7, 8]`, a prefix of its input. -/
example : ∃ d, (run (init (exNet.runs 1 (by decide) (by decide)).cfg exTbl (exNet.runs 1 (by decide) (by decide)).input)
      (exNet.runs 1 (by decide) (by decide)).ops).1.termination = some d ∧ d.value = [7, 8] :=
  ex_network_decides.2.2

end Model

/-! ## Validity of the executable model driven through the participant API -/
section ParticipantAPI
open F3.Instance F3.Bridge

/-- **Validity, end to end for the model of the code, at the participant API** (hypotheses as in
`C01.agreement_model_participant`: honest executions are sequences of `ReceiveMessage` / `ReceiveAlarm` calls with the
pre-start queue drained through `ReceiveMany` in an arbitrary order): a decision reported by an honest participant
is a non-empty prefix of the input chain of some honest committee member. -/
theorem validity_model_participant {t : Table} {F : Finset Pid} {W : Instance.Votes} (N : NetworkP t F W)
    (p : Pid) (hp : p ∈ (ids t).toFinset) (hpF : p ∉ F) (d : Just)
    (hd : (prun (N.runs p hp hpF).order (pinit (N.runs p hp hpF).cfg t (N.runs p hp hpF).input)
      (N.runs p hp hpF).ops).1.inst.termination = some d) :
    d.value ≠ [] ∧ ∃ h, ∃ hh : h ∈ (ids t).toFinset, ∃ hF : h ∉ F, d.value <+: (N.runs h hh hF).input :=
  model_validityP N p hp hpF d hd

/-- ... and starts at the common base when all honest inputs do. -/
theorem validity_model_base_participant {t : Table} {F : Finset Pid} {W : Instance.Votes} (N : NetworkP t F W) (b : Nat)
    (hbase : ∀ h (hh : h ∈ (ids t).toFinset) (hF : h ∉ F), (N.runs h hh hF).input.head? = some b)
    (p : Pid) (hp : p ∈ (ids t).toFinset) (hpF : p ∉ F) (d : Just)
    (hd : (prun (N.runs p hp hpF).order (pinit (N.runs p hp hpF).cfg t (N.runs p hp hpF).input)
      (N.runs p hp hpF).ops).1.inst.termination = some d) :
    d.value.head? = some b :=
  model_validity_baseP N b hbase p hp hpF d hd

/-- Non-vacuity: in the participant-level example network of `F3.Bridge` (four messages queued before the instance
begins, one of them a late-binding reject) honest member 1 decides `[7, 8]`, a prefix of its input. -/
example : ∃ d, (prun (exNetP.runs 1 (by decide) (by decide)).order
      (pinit (exNetP.runs 1 (by decide) (by decide)).cfg exTbl (exNetP.runs 1 (by decide) (by decide)).input)
      (exNetP.runs 1 (by decide) (by decide)).ops).1.inst.termination = some d ∧ d.value = [7, 8] :=
  ex_networkP_decides.2.2

end ParticipantAPI

end F3.Props.C02
