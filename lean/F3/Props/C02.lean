import F3.Proofs.SkelTieGpbft
import F3.Proofs.SkelTiePower
import F3.Spec.GraniteNet
import F3.Props.C01
import F3.Proofs.SyncNet
import F3.Proofs.SyncTimedNet
import F3.Proofs.SyncGeneralNet
/-!
# C02 — Validity

Layer A/N part: every decided value is non-bottom and *good* (instantiated below with "non-empty prefix
of the input chain of some honest participant", whence it starts at the common base). The guard that
makes this an invariant — an honest PREPARE is for a good value of its own, or for a value that
already had a strong PREPARE quorum in an earlier round — is proved of the executable model
(`F3.Instance.runFrom_guarded`, candidate-set soundness `CandOK`), giving `validity_model`.

The second sentence of the property (unanimous honest input + strong honest quorum + synchrony + no faulty
sender ⇒ that chain is decided) is proved at network level over the executable model in section `Sync` below:
`unanimous_sync_invariant` (safety: no failure, only messages for the common chain, everybody stays in round 0
and can only decide that chain) and `unanimous_sync_decides` (every complete execution has decided it), for the
network `F3.Net` of honest model participants (`F3/Model/Net.lean`), every delivery order, every table and every
per-node configuration. Real time enters only through `SyncOrdered` (the order of deliveries and expired
timeouts that the bound implies; see the header of `F3/Model/Net.lean`). The per-phase steps are also in
`C06.unanimous_step_*`; the timed claim is additionally validated on every `sync`-mode run of the harness (oracle
`C02-unanimous-synchronous-run-decided-another-chain`).

Section `Timed` closes the gap between the real-time assumption and `SyncOrdered`: `timed_sync_ordered` derives
`SyncOrdered` from `TimedSync Δ` (`F3/Model/NetTimed.lean`: monotone timestamps, starts at most `Δ` apart, every
message handed over less than `Δ` after it was broadcast, timeouts at least `2Δ`) for an input chain with at least
one tipset beyond the base, and `unanimous_timed_decides` is the second sentence of the property in real-time form.
-/
namespace F3.Props.C02
open F3.Granite F3.Props.C01

variable {P V : Type} [DecidableEq P]

/-- **Validity (abstract).** Every decided value is non-bottom and good for some honest participant. -/
theorem validity_network (c : Params P V) (hb : faultBound c) {s : Votes P V}
    (hr : Reachable c s) {x : V} (hx : Decided c s x) :
    x ≠ c.bot ∧ ∃ h, h ∉ c.faulty ∧ c.good h x := by
  have inv := inv_reachable c hb hr
  refine World.decided_good inv.rules (fun x => ∃ h, h ∉ c.faulty ∧ c.good h x) ?_ hx
  intro p hp r x hs
  rcases inv.backed p hp r x hs with g | h
  · exact Or.inl ⟨p, hp, g⟩
  · exact Or.inr h

/-- chain-valued parameters: values are tipset lists, bottom is the empty chain, a value is good for
`p` when it is a non-empty prefix of `p`'s input. -/
def chainParams (committee : Finset P) (pw : P → Nat) (faulty : Finset P) (input : P → List Nat) :
    Params P (List Nat) :=
  { committee := committee, pw := pw, faulty := faulty, bot := [],
    good := fun p x => x ≠ [] ∧ x <+: input p }

/-- **Validity for chains.** If all honest inputs start at base `b`, every decided chain is non-empty,
starts at `b`, and is a prefix of the input of at least one honest participant. -/
theorem validity_chains (committee : Finset P) (pw : P → Nat) (faulty : Finset P)
    (input : P → List Nat) (b : Nat)
    (hbase : ∀ p, p ∉ faulty → (input p).head? = some b)
    (hb : faultBound (chainParams committee pw faulty input)) {s : Votes P (List Nat)}
    (hr : Reachable (chainParams committee pw faulty input) s) {x : List Nat}
    (hx : Decided (chainParams committee pw faulty input) s x) :
    x ≠ [] ∧ x.head? = some b ∧ ∃ h, h ∉ faulty ∧ x <+: input h := by
  obtain ⟨hne, h, hh, _, hpre⟩ := validity_network _ hb hr hx
  refine ⟨hne, ?_, h, hh, hpre⟩
  have hb' := hbase h hh
  obtain ⟨t, ht⟩ := hpre
  cases x with
  | nil => exact absurd rfl hne
  | cons a l =>
    rw [← ht] at hb'
    simpa using hb'

/-- Every value that ever gathers a strong PREPARE quorum is already a prefix of an honest input. -/
theorem prepare_quorum_good (c : Params P V) (hb : faultBound c) {s : Votes P V}
    (hr : Reachable c s) (r : Nat) (x : V) (hq : (c.world s).Q .prepare r x) :
    ∃ h, h ∉ c.faulty ∧ c.good h x := by
  have inv := inv_reachable c hb hr
  refine World.prepareQ_good inv.rules (fun x => ∃ h, h ∉ c.faulty ∧ c.good h x) ?_ r x hq
  intro p hp r x hs
  rcases inv.backed p hp r x hs with g | h
  · exact Or.inl ⟨p, hp, g⟩
  · exact Or.inr h

/-- Non-vacuity: the example network of C01 decides 7, which is good for the honest members. -/
example : ∃ s, Reachable exC s ∧ Decided exC s 7 ∧ (7 ≠ exC.bot ∧ ∃ h, h ∉ exC.faulty ∧ exC.good h 7) := by
  obtain ⟨s, hr, hd, _, _⟩ := ex_decided
  exact ⟨s, hr, hd, validity_network exC ex_bound hr hd⟩


/-! ## Validity of the executable model -/
section Model
open F3.Instance F3.Bridge

/-- **Validity, end to end for the model of the code** (hypotheses as in `C01.agreement_model`): a decision
reported by an honest participant is a non-empty prefix of the input chain of some honest committee member. -/
theorem validity_model {t : Table} {F : Finset Pid} {W : Instance.Votes} (N : Network t F W)
    (p : Pid) (hp : p ∈ (ids t).toFinset) (hpF : p ∉ F) (d : Just)
    (hd : (run (init (N.runs p hp hpF).cfg t (N.runs p hp hpF).input) (N.runs p hp hpF).ops).1.termination = some d) :
    d.value ≠ [] ∧ ∃ h, ∃ hh : h ∈ (ids t).toFinset, ∃ hF : h ∉ F, d.value <+: (N.runs h hh hF).input :=
  model_validity N p hp hpF d hd

/-- ... and starts at the common base when all honest inputs do. -/
theorem validity_model_base {t : Table} {F : Finset Pid} {W : Instance.Votes} (N : Network t F W) (b : Nat)
    (hbase : ∀ h (hh : h ∈ (ids t).toFinset) (hF : h ∉ F), (N.runs h hh hF).input.head? = some b)
    (p : Pid) (hp : p ∈ (ids t).toFinset) (hpF : p ∉ F) (d : Just)
    (hd : (run (init (N.runs p hp hpF).cfg t (N.runs p hp hpF).input) (N.runs p hp hpF).ops).1.termination = some d) :
    d.value.head? = some b :=
  model_validity_base N b hbase p hp hpF d hd

/-- Non-vacuity: in the example network of `F3.Bridge` honest member 1 decides `[7, 8]`, a prefix of its input. -/
example : ∃ d, (run (init (exNet.runs 1 (by decide) (by decide)).cfg exTbl (exNet.runs 1 (by decide) (by decide)).input)
      (exNet.runs 1 (by decide) (by decide)).ops).1.termination = some d ∧ d.value = [7, 8] :=
  ex_network_decides.2.2

end Model

/-! ## Validity of the executable model driven through the participant API -/
section ParticipantAPI
open F3.Instance F3.Bridge

/-- **Validity, end to end for the model of the code, at the participant API** (hypotheses as in
`C01.agreement_model_participant`: honest executions are sequences of `ReceiveMessage` / `ReceiveAlarm` calls with the
pre-start queue drained through `ReceiveMany` in an arbitrary order): a decision reported by an honest participant
is a non-empty prefix of the input chain of some honest committee member. -/
theorem validity_model_participant {t : Table} {F : Finset Pid} {W : Instance.Votes} (N : NetworkP t F W)
    (p : Pid) (hp : p ∈ (ids t).toFinset) (hpF : p ∉ F) (d : Just)
    (hd : (prun (N.runs p hp hpF).order (pinit (N.runs p hp hpF).cfg t (N.runs p hp hpF).input)
      (N.runs p hp hpF).ops).1.inst.termination = some d) :
    d.value ≠ [] ∧ ∃ h, ∃ hh : h ∈ (ids t).toFinset, ∃ hF : h ∉ F, d.value <+: (N.runs h hh hF).input :=
  model_validityP N p hp hpF d hd

/-- ... and starts at the common base when all honest inputs do. -/
theorem validity_model_base_participant {t : Table} {F : Finset Pid} {W : Instance.Votes} (N : NetworkP t F W) (b : Nat)
    (hbase : ∀ h (hh : h ∈ (ids t).toFinset) (hF : h ∉ F), (N.runs h hh hF).input.head? = some b)
    (p : Pid) (hp : p ∈ (ids t).toFinset) (hpF : p ∉ F) (d : Just)
    (hd : (prun (N.runs p hp hpF).order (pinit (N.runs p hp hpF).cfg t (N.runs p hp hpF).input)
      (N.runs p hp hpF).ops).1.inst.termination = some d) :
    d.value.head? = some b :=
  model_validity_baseP N b hbase p hp hpF d hd

/-- Non-vacuity: in the participant-level example network of `F3.Bridge` (four messages queued before the instance
begins, one of them a late-binding reject) honest member 1 decides `[7, 8]`, a prefix of its input. -/
example : ∃ d, (prun (exNetP.runs 1 (by decide) (by decide)).order
      (pinit (exNetP.runs 1 (by decide) (by decide)).cfg exTbl (exNetP.runs 1 (by decide) (by decide)).input)
      (exNetP.runs 1 (by decide) (by decide)).ops).1.inst.termination = some d ∧ d.value = [7, 8] :=
  ex_networkP_decides.2.2

end ParticipantAPI
/-! ## Unanimous honest input under synchrony: that chain is decided (network of model participants)

Setting (`F3.Net`): the honest members `H` (distinct, all in the table `tbl`, total power a strong quorum by the
code's predicate `strongQ`) each run the instance model from `init (cfg p) tbl c` for one common non-empty chain
`c`; `cfg` is arbitrary per node. An execution is any list of `start` / `deliver` / `alarm` events admitted by
`execOk` (a node starts once; only started nodes are handed messages and alarms; **only pool messages are
delivered — no faulty sender**; duplicates and every delivery order are allowed; a delivery to a node whose
instance has terminated is dropped as `participant.go` does) and satisfying `SyncOrdered` (a node that finds
a round-0 QUALITY/PREPARE/COMMIT timeout expired — in an alarm or at the end of a `Receive` — has been handed
that phase's message of every member of `H`: the untimed content of "messages arrive within the bound"). -/
section Sync
open F3.Instance F3.Net

/-- the only messages a unanimous run puts on the wire: QUALITY(0,c), PREPARE(0,c), COMMIT(0,c) justified by
PREPAREs for `c`, DECIDE(0,c) justified by COMMITs for `c` -/
def UnanimousMsg (c : Chain) (m : Msg) : Prop :=
  m.round = 0 ∧ m.value = c ∧
  ((m.phase = .quality ∧ m.just = none) ∨ (m.phase = .prepare ∧ m.just = none) ∨
   (m.phase = .commit ∧ ∃ j, m.just = some j ∧ j.round = 0 ∧ j.phase = .prepare ∧ j.value = c) ∨
   (m.phase = .decide ∧ ∃ j, m.just = some j ∧ j.round = 0 ∧ j.phase = .commit ∧ j.value = c))

/-- **Safety of the unanimous synchronous run.** In every admissible, synchrony-ordered execution: (a) no node
ever reports a failure effect (`err` / `panic`); (b) every message ever broadcast comes from a member of `H` and is
QUALITY / PREPARE / justified COMMIT / justified DECIDE of round 0 for `c`; (c) every node is still in round 0 and a
node that has a termination value has decided `c`. -/
theorem unanimous_sync_invariant (tbl : Table) (H : List Pid) (c : Chain) (cfg : Pid → Cfg)
    (hnd : H.Nodup) (hin : ∀ p ∈ H, p ∈ tbl.entries.map (·.1))
    (hq : strongQ tbl ((H.map tbl.power).sum) = true) (hc : c ≠ []) (ops : List NetOp)
    (hexec : execOk (initNet tbl H cfg (fun _ => c)) ops = true)
    (hsync : SyncOrdered (initNet tbl H cfg (fun _ => c)) ops) :
    (runNet (initNet tbl H cfg (fun _ => c)) ops).fails = [] ∧
    (∀ m ∈ (runNet (initNet tbl H cfg (fun _ => c)) ops).pool, m.sender ∈ H ∧ UnanimousMsg c m) ∧
    (runNet (initNet tbl H cfg (fun _ => c)) ops).nodes.map (·.1) = H ∧
    (∀ p s, (p, s) ∈ (runNet (initNet tbl H cfg (fun _ => c)) ops).nodes →
      s.round = 0 ∧ ∀ d, s.termination = some d → d.value = c) := by
  have hctx := F3.Sync.ctx_of tbl c H hc hnd hin hq
  have hn := F3.Sync.runNet_inv hctx ops (F3.Sync.initNet_inv tbl c H cfg) hexec hsync
  refine ⟨hn.fails, ?_, hn.ids, ?_⟩
  · intro m hm
    obtain ⟨hs, hH⟩ := hn.pool m hm
    refine ⟨hH, hs.1, hs.2.1, ?_⟩
    obtain ⟨h1, h2, h3, h4⟩ := F3.Sync.shape_just hs
    have hph := hs.2.2.2.2
    cases hp : m.phase <;> rw [hp] at hph
    · exact hph.elim
    · exact Or.inl ⟨rfl, h1 hp⟩
    · exact hph.elim
    · exact Or.inr (Or.inl ⟨rfl, h2 hp⟩)
    · exact Or.inr (Or.inr (Or.inl ⟨rfl, h3 hp⟩))
    · exact Or.inr (Or.inr (Or.inr ⟨rfl, h4 hp⟩))
    · exact hph.elim
  · intro p s hp
    have hno := hn.node p s hp
    exact ⟨hno.sinv.round, hno.sinv.term⟩

/-- **The unanimous chain is decided.** If moreover the execution is *complete* — every member has started and
every message ever broadcast has been handed to every member — then every member has terminated, with decision
`c`. For a base-only chain (`c.length = 1`) QUALITY tallies nothing (`ReceiveEachPrefix` counts proper extensions
of the base only) and ends by its timer alone, so completeness must then include that every QUALITY timer has
fired (`timersFired`); the example after the theorem shows that this cannot be dropped. -/
theorem unanimous_sync_decides (tbl : Table) (H : List Pid) (c : Chain) (cfg : Pid → Cfg)
    (hnd : H.Nodup) (hin : ∀ p ∈ H, p ∈ tbl.entries.map (·.1))
    (hq : strongQ tbl ((H.map tbl.power).sum) = true) (hc : c ≠ []) (ops : List NetOp)
    (hexec : execOk (initNet tbl H cfg (fun _ => c)) ops = true)
    (hsync : SyncOrdered (initNet tbl H cfg (fun _ => c)) ops)
    (hcomplete : complete (runNet (initNet tbl H cfg (fun _ => c)) ops) = true)
    (htimers : 2 ≤ c.length ∨ timersFired (runNet (initNet tbl H cfg (fun _ => c)) ops) = true) :
    (∀ p ∈ H, ∃ s, (p, s) ∈ (runNet (initNet tbl H cfg (fun _ => c)) ops).nodes) ∧
    ∀ p s, (p, s) ∈ (runNet (initNet tbl H cfg (fun _ => c)) ops).nodes →
      s.phase = .terminated ∧ ∃ d, s.termination = some d ∧ d.value = c := by
  have hctx := F3.Sync.ctx_of tbl c H hc hnd hin hq
  have hn := F3.Sync.runNet_inv hctx ops (F3.Sync.initNet_inv tbl c H cfg) hexec hsync
  refine ⟨?_, ?_⟩
  · intro p hp
    rw [← hn.ids] at hp
    obtain ⟨e, he, rfl⟩ := List.mem_map.1 hp
    exact ⟨e.2, he⟩
  · intro p s hp
    have ht := F3.Sync.complete_terminated hctx hn hcomplete htimers p s hp
    exact ⟨ht, F3.Sync.terminated_value hn hp ht⟩

/-! ### non-vacuity -/

def syTbl : Table := { entries := [(1, 10), (2, 10), (3, 10)] }
def syCfg : Cfg := { maxLookahead := 2, rebImmediateAfter := 3, timeout2 := [100], qualityTimeout2 := 100, rebAfter := [50] }
def syNet (c : Chain) : Net := initNet syTbl [1, 2, 3] (fun _ => syCfg) (fun _ => c)
def syQ (c : Chain) (p : Pid) : Msg := { sender := p, round := 0, phase := .quality, value := c }
def syP (c : Chain) (p : Pid) : Msg := { sender := p, round := 0, phase := .prepare, value := c }
def syC (c : Chain) (p : Pid) : Msg :=
  { sender := p, round := 0, phase := .commit, value := c,
    just := some { round := 0, phase := .prepare, value := c, signers := [0, 1] } }
def syD (c : Chain) (p : Pid) : Msg :=
  { sender := p, round := 0, phase := .decide, value := c,
    just := some { round := 0, phase := .commit, value := c, signers := [0, 1] } }

/-- three equal members, input `[7, 8]`. Reorderings: node 2 is handed a PREPARE before any QUALITY, node 3 a
PREPARE between two QUALITYs and a DECIDE before any COMMIT; `alarm 3 10` is a non-expired alarm; DECIDEs arrive
at nodes that have already terminated. -/
def syOps : List NetOp :=
  let c := [7, 8]
  [.start 1 0, .start 2 0, .start 3 0,
   .deliver 1 1 (syQ c 1), .deliver 1 2 (syQ c 2),
   .deliver 2 3 (syP c 1), .deliver 2 4 (syQ c 1), .deliver 2 5 (syQ c 2),
   .alarm 3 10,
   .deliver 3 11 (syQ c 3), .deliver 3 12 (syP c 2), .deliver 3 13 (syQ c 1),
   .deliver 1 14 (syQ c 3), .deliver 2 15 (syQ c 3), .deliver 3 16 (syQ c 2),
   .deliver 1 20 (syP c 1), .deliver 1 21 (syP c 2),
   .deliver 2 22 (syP c 2), .deliver 2 23 (syP c 3),
   .deliver 3 24 (syP c 1), .deliver 3 25 (syP c 3),
   .deliver 1 26 (syP c 3),
   .deliver 1 30 (syC c 1), .deliver 1 31 (syC c 2),
   .deliver 2 32 (syC c 1), .deliver 2 33 (syC c 2),
   .deliver 3 34 (syD c 1), .deliver 3 35 (syC c 1), .deliver 3 36 (syC c 2), .deliver 3 37 (syC c 3),
   .deliver 1 38 (syC c 3), .deliver 2 39 (syC c 3),
   .deliver 1 40 (syD c 1), .deliver 1 41 (syD c 2), .deliver 1 42 (syD c 3),
   .deliver 2 43 (syD c 1), .deliver 2 44 (syD c 2), .deliver 2 45 (syD c 3),
   .deliver 3 46 (syD c 2), .deliver 3 47 (syD c 3)]

/-- Non-vacuity of both theorems: the hypotheses hold of a concrete execution with reordering and a non-expired
alarm, and (as the theorems say) nothing failed and everybody decided `[7, 8]`. -/
example :
    [1, 2, 3].Nodup ∧ (∀ p ∈ [1, 2, 3], p ∈ syTbl.entries.map (·.1)) ∧
    strongQ syTbl (([1, 2, 3].map syTbl.power).sum) = true ∧
    execOk (syNet [7, 8]) syOps = true ∧ SyncOrdered (syNet [7, 8]) syOps ∧
    complete (runNet (syNet [7, 8]) syOps) = true ∧
    (runNet (syNet [7, 8]) syOps).fails = [] ∧
    (runNet (syNet [7, 8]) syOps).nodes.map (fun e => (e.1, e.2.phase, e.2.termination.map (·.value))) =
      [(1, .terminated, some [7, 8]), (2, .terminated, some [7, 8]), (3, .terminated, some [7, 8])] := by
  refine ⟨by decide, by decide, by decide, by decide, ?_, by decide, by decide, by decide⟩
  unfold SyncOrdered
  decide

def syAll (now : Int) (m : Msg) : List NetOp := [.deliver 1 now m, .deliver 2 now m, .deliver 3 now m]

/-- base-only input `[7]`: everybody starts and is handed every QUALITY message — and nothing more happens
until a QUALITY timer fires -/
def syOpsBaseQ : List NetOp :=
  [.start 1 0, .start 2 0, .start 3 0] ++ syAll 1 (syQ [7] 1) ++ syAll 2 (syQ [7] 2) ++ syAll 3 (syQ [7] 3)

/-- ... the timers fire (`alarm 1 50` is a non-expired alarm, the next three are expired and admitted by
`SyncOrdered` because every QUALITY message has been handed over), and the run completes -/
def syOpsBase : List NetOp :=
  syOpsBaseQ ++ [.alarm 1 50, .alarm 1 100, .alarm 2 100, .alarm 3 101] ++
  syAll 110 (syP [7] 1) ++ syAll 111 (syP [7] 2) ++ syAll 112 (syP [7] 3) ++
  syAll 120 (syC [7] 1) ++ syAll 121 (syC [7] 2) ++ syAll 122 (syC [7] 3) ++
  syAll 130 (syD [7] 1) ++ syAll 131 (syD [7] 2) ++ syAll 132 (syD [7] 3)

/-- Non-vacuity of the `timersFired` alternative (base-only chain, expired alarms under `SyncOrdered`). -/
example :
    execOk (syNet [7]) syOpsBase = true ∧ SyncOrdered (syNet [7]) syOpsBase ∧
    complete (runNet (syNet [7]) syOpsBase) = true ∧ timersFired (runNet (syNet [7]) syOpsBase) = true ∧
    (runNet (syNet [7]) syOpsBase).nodes.map (fun e => (e.1, e.2.phase, e.2.termination.map (·.value))) =
      [(1, .terminated, some [7]), (2, .terminated, some [7]), (3, .terminated, some [7])] := by
  refine ⟨by decide, ?_, by decide, by decide, by decide⟩
  unfold SyncOrdered
  decide

/-- The `timersFired` alternative cannot be dropped for a base-only chain: an admissible, synchrony-ordered,
complete execution in which nobody has left QUALITY. -/
example :
    execOk (syNet [7]) syOpsBaseQ = true ∧ SyncOrdered (syNet [7]) syOpsBaseQ ∧
    complete (runNet (syNet [7]) syOpsBaseQ) = true ∧
    (runNet (syNet [7]) syOpsBaseQ).nodes.map (fun e => (e.1, e.2.phase)) =
      [(1, .quality), (2, .quality), (3, .quality)] := by
  refine ⟨by decide, ?_, by decide, by decide⟩
  unfold SyncOrdered
  decide

/-- Why `SyncOrdered` also constrains deliveries: `gpbft.go` re-evaluates the phase timeout at the end of
every `Receive` (`tryQuality`: `foundQuorum || timeoutExpired`). A QUALITY message handed over after the QUALITY
timeout, before the others (no alarm involved), makes node 1 PREPARE the base `[7]` instead of `[7, 8]`; the
execution is admissible but not synchrony-ordered. -/
example :
    execOk (syNet [7, 8]) [.start 1 0, .deliver 1 1000 (syQ [7, 8] 1)] = true ∧
    ¬ SyncOrdered (syNet [7, 8]) [.start 1 0, .deliver 1 1000 (syQ [7, 8] 1)] ∧
    (runNet (syNet [7, 8]) [.start 1 0, .deliver 1 1000 (syQ [7, 8] 1)]).pool.map (fun m => (m.sender, m.phase, m.value)) =
      [(1, .quality, [7, 8]), (1, .prepare, [7])] := by
  refine ⟨by decide, ?_, by decide⟩
  unfold SyncOrdered
  decide

end Sync

/-! ## Unanimous honest input under *real-time* synchrony

`TimedSync Δ n ops` (`F3/Model/NetTimed.lean`) reads the timestamps the events already carry:
* T1 timestamps never decrease;
* T2 a `start` is at most `Δ` after every earlier start, and a `deliver`/`alarm` whose timestamp is `≥ s + Δ` for
  an earlier start time `s` finds every node started;
* T3 before any event with timestamp `≥ max t s + Δ`, the message broadcast at `t` has been handed to the node
  started at `s` (self-delivery included; a late starter has `Δ` from its own start for the earlier messages) —
  i.e. every delay is **strictly** below `Δ`;
* T4 every node's QUALITY timeout and round-0 timeout (`2·δ·multiplier`, `2·δ`) are `≥ 2Δ`;  and `Δ ≥ 0`.

Why strict: `gpbft.go` evaluates `now ≥ phaseTimeout`, so with timeouts of exactly `2Δ` a message that takes exactly
`Δ` and the timer it has to beat fall on the same instant and race (first example below: the alarm wins and the
node PREPAREs the base). Why `2 ≤ c.length`: a base-only chain ends QUALITY by its *timer* only, and the event
list does not force an alarm to be delivered when its timer expires; a node whose alarm is late is still in QUALITY
when a punctual node's PREPARE timer expires (second example: the full statement without `2 ≤ c.length` is false).

The proof (`F3/Proofs/SyncTimed{Node,Inv,Step,Net}.lean`) is a joint induction over the execution of the invariant
of section `Sync` and a timing invariant. With staggered starts it is *not* true that everybody enters a phase
within `Δ` of the first node (a late starter may lag by `2Δ`); what holds, and suffices, is: a node enters PREPARE
(COMMIT) at `e` only after a strong quorum has broadcast QUALITY (PREPARE) by `e`; the members of that quorum have
all of these messages before `e + Δ` and leave the phase by then; their next messages reach the node before
`e + 2Δ`, i.e. before its timer, so a node whose PREPARE / COMMIT timer expires has already left that phase, and a
node whose QUALITY timer expires has every QUALITY message. -/
section Timed
open F3.Instance F3.Net

/-- **Real-time synchrony implies the synchrony order.** Unanimous non-trivial input (`2 ≤ c.length`), strong
honest quorum, no faulty sender (`execOk`), and `TimedSync Δ`: then every node that finds a round-0
QUALITY / PREPARE / COMMIT timeout expired has already been handed that phase's message of every node. -/
theorem timed_sync_ordered (tbl : Table) (H : List Pid) (c : Chain) (cfg : Pid → Cfg) (Δ : Int)
    (hnd : H.Nodup) (hin : ∀ p ∈ H, p ∈ tbl.entries.map (·.1))
    (hq : strongQ tbl ((H.map tbl.power).sum) = true) (hlen : 2 ≤ c.length) (ops : List NetOp)
    (hexec : execOk (initNet tbl H cfg (fun _ => c)) ops = true)
    (htimed : TimedSync Δ (initNet tbl H cfg (fun _ => c)) ops) :
    SyncOrdered (initNet tbl H cfg (fun _ => c)) ops := by
  have hc : c ≠ [] := by
    intro h; rw [h] at hlen; simp at hlen
  exact F3.Sync.timed_sync_ordered_core (F3.Sync.ctx_of tbl c H hc hnd hin hq) hlen ops hexec htimed

/-- **C02, second sentence, in real time.** All honest participants propose the same chain `c` (with at least one
tipset beyond the base), hold a strong quorum, only their messages circulate, and the execution respects the
synchrony bound `Δ` (`TimedSync`): nothing fails, only votes for `c` are ever cast, and once the execution is
complete everybody has terminated with decision `c`. -/
theorem unanimous_timed_decides (tbl : Table) (H : List Pid) (c : Chain) (cfg : Pid → Cfg) (Δ : Int)
    (hnd : H.Nodup) (hin : ∀ p ∈ H, p ∈ tbl.entries.map (·.1))
    (hq : strongQ tbl ((H.map tbl.power).sum) = true) (hlen : 2 ≤ c.length) (ops : List NetOp)
    (hexec : execOk (initNet tbl H cfg (fun _ => c)) ops = true)
    (htimed : TimedSync Δ (initNet tbl H cfg (fun _ => c)) ops) :
    ((runNet (initNet tbl H cfg (fun _ => c)) ops).fails = [] ∧
     ∀ m ∈ (runNet (initNet tbl H cfg (fun _ => c)) ops).pool, m.sender ∈ H ∧ UnanimousMsg c m) ∧
    (complete (runNet (initNet tbl H cfg (fun _ => c)) ops) = true →
      (∀ p ∈ H, ∃ s, (p, s) ∈ (runNet (initNet tbl H cfg (fun _ => c)) ops).nodes) ∧
      ∀ p s, (p, s) ∈ (runNet (initNet tbl H cfg (fun _ => c)) ops).nodes →
        s.phase = .terminated ∧ ∃ d, s.termination = some d ∧ d.value = c) := by
  have hc : c ≠ [] := by
    intro h; rw [h] at hlen; simp at hlen
  have hsync := timed_sync_ordered tbl H c cfg Δ hnd hin hq hlen ops hexec htimed
  obtain ⟨h1, h2, _, _⟩ := unanimous_sync_invariant tbl H c cfg hnd hin hq hc ops hexec hsync
  exact ⟨⟨h1, h2⟩, fun hcomplete =>
    unanimous_sync_decides tbl H c cfg hnd hin hq hc ops hexec hsync hcomplete (Or.inl hlen)⟩

/-- the statement of `timed_sync_ordered` for every non-empty chain — **false** for a base-only chain, see
`timed_sync_ordered_needs_suffix` -/
def TimedSyncOrderedStatement : Prop :=
  ∀ (tbl : Table) (H : List Pid) (c : Chain) (cfg : Pid → Cfg) (Δ : Int),
    H.Nodup → (∀ p ∈ H, p ∈ tbl.entries.map (·.1)) → strongQ tbl ((H.map tbl.power).sum) = true → c ≠ [] →
    ∀ ops : List NetOp, execOk (initNet tbl H cfg (fun _ => c)) ops = true →
      TimedSync Δ (initNet tbl H cfg (fun _ => c)) ops → SyncOrdered (initNet tbl H cfg (fun _ => c)) ops

/-! ### non-vacuity and the two boundaries -/

def tyTbl : Table := { entries := [(1, 10), (2, 10), (3, 10)] }
/-- `Δ = 10` below; both timeouts are exactly `2Δ` -/
def tyCfg : Cfg := { maxLookahead := 2, rebImmediateAfter := 3, timeout2 := [20], qualityTimeout2 := 20, rebAfter := [50] }
def tyNet (c : Chain) : Net := initNet tyTbl [1, 2, 3] (fun _ => tyCfg) (fun _ => c)

/-- `Δ = 10`, three equal members (any two are a strong quorum), input `[7, 8]`. Node 2 starts at 3 and node 3
at 10 (exactly `Δ` after node 1), when nodes 1 and 2 are already in PREPARE; every message is handed over less than
10 after `max (broadcast, start of the receiver)`; `alarm 2 8`, `alarm 3 20` are non-expired alarms, `alarm 1 60` an
alarm after termination; the last DECIDE reaches instances that have terminated. -/
def tyOps : List NetOp :=
  let c := [7, 8]
  [.start 1 0, .start 2 3,
   .deliver 1 4 (syQ c 1), .deliver 1 5 (syQ c 2),
   .deliver 2 6 (syQ c 1), .deliver 2 7 (syQ c 2), .alarm 2 8,
   .start 3 10,
   .deliver 1 11 (syP c 1), .deliver 1 12 (syP c 2),
   .deliver 2 13 (syP c 1), .deliver 2 14 (syP c 2),
   .deliver 3 15 (syQ c 1), .deliver 3 16 (syQ c 2), .deliver 3 17 (syQ c 3),
   .deliver 1 18 (syQ c 3), .deliver 2 19 (syQ c 3),
   .deliver 3 19 (syP c 1), .deliver 3 19 (syP c 2),
   .deliver 1 20 (syC c 1), .deliver 1 20 (syC c 2), .alarm 3 20,
   .deliver 2 21 (syC c 1), .deliver 2 21 (syC c 2),
   .deliver 3 21 (syC c 1), .deliver 3 21 (syC c 2)] ++
  syAll 22 (syP c 3) ++ syAll 23 (syC c 3) ++
  [.deliver 1 24 (syD c 1), .deliver 1 24 (syD c 2),
   .deliver 2 25 (syD c 1), .deliver 2 25 (syD c 2),
   .deliver 3 26 (syD c 1), .deliver 3 26 (syD c 2)] ++ syAll 27 (syD c 3) ++ [.alarm 1 60]

/-- Non-vacuity of `timed_sync_ordered` and `unanimous_timed_decides`: a concrete timed execution with staggered
starts meets every hypothesis … -/
theorem ty_hyps :
    [1, 2, 3].Nodup ∧ (∀ p ∈ [1, 2, 3], p ∈ tyTbl.entries.map (·.1)) ∧
    strongQ tyTbl (([1, 2, 3].map tyTbl.power).sum) = true ∧ 2 ≤ [7, 8].length ∧
    execOk (tyNet [7, 8]) tyOps = true ∧ TimedSync 10 (tyNet [7, 8]) tyOps :=
  ⟨by decide, by decide, by decide, by decide, by decide, by decide, by decide, by decide⟩

/-- … so it is synchrony-ordered (by `timed_sync_ordered`; `unfold SyncOrdered; decide` confirms it) … -/
example : SyncOrdered (tyNet [7, 8]) tyOps :=
  timed_sync_ordered tyTbl [1, 2, 3] [7, 8] (fun _ => tyCfg) 10 ty_hyps.1 ty_hyps.2.1 ty_hyps.2.2.1 ty_hyps.2.2.2.1
    tyOps ty_hyps.2.2.2.2.1 ty_hyps.2.2.2.2.2

/-- … and it is complete with everybody decided on `[7, 8]`, as `unanimous_timed_decides` says. -/
example :
    execOk (tyNet [7, 8]) tyOps = true ∧ complete (runNet (tyNet [7, 8]) tyOps) = true ∧
    (runNet (tyNet [7, 8]) tyOps).nodes.map (fun e => (e.1, e.2.phase, e.2.termination.map (·.value))) =
      [(1, .terminated, some [7, 8]), (2, .terminated, some [7, 8]), (3, .terminated, some [7, 8])] := by
  refine ⟨by decide, by decide, by decide⟩

/-- the timestamps the ghost fields record in that execution: who broadcast which phase when -/
example : (trun (initT (tyNet [7, 8]) tyOps) tyOps).stamps.map (fun e => (e.1.sender, e.1.phase, e.2)) =
    [(1, .quality, 0), (2, .quality, 3), (1, .prepare, 5), (2, .prepare, 7), (3, .quality, 10), (1, .commit, 12),
     (2, .commit, 14), (3, .prepare, 16), (3, .commit, 19), (1, .decide, 20), (2, .decide, 21), (3, .decide, 21)] := by
  decide

/-- members 1 and 2 alone are no strong quorum here -/
def rcTbl : Table := { entries := [(1, 10), (2, 10), (3, 20)] }
def rcNet : Net := initNet rcTbl [1, 2, 3] (fun _ => tyCfg) (fun _ => [7, 8])
def rcPre : List NetOp :=
  let c := [7, 8]
  [.start 1 0, .start 2 0, .deliver 1 1 (syQ c 1), .deliver 2 1 (syQ c 1), .deliver 1 2 (syQ c 2), .deliver 2 2 (syQ c 2),
   .start 3 10, .deliver 3 11 (syQ c 1), .deliver 3 11 (syQ c 2), .deliver 2 12 (syQ c 3), .deliver 3 12 (syQ c 3)]

/-- **The boundary is a real race in the code** (why T3 is strict). `Δ = 10`, QUALITY timeout `2Δ = 20`; node 3
starts at 10 and its QUALITY vote takes *exactly* `Δ` to reach node 1, i.e. arrives at 20 — the instant node 1's
QUALITY timer expires (`phaseTimeoutElapsed` is `now ≥ timeout`). If the alarm is handled first, node 1 PREPAREs the
base `[7]` although everybody proposed `[7, 8]`; the execution is not `TimedSync` (and not `SyncOrdered`). With the
vote one tick earlier it is `TimedSync` and node 1 PREPAREs `[7, 8]`. -/
example :
    execOk rcNet (rcPre ++ [.alarm 1 20, .deliver 1 20 (syQ [7, 8] 3)]) = true ∧
    ¬ TimedSync 10 rcNet (rcPre ++ [.alarm 1 20, .deliver 1 20 (syQ [7, 8] 3)]) ∧
    ¬ SyncOrdered rcNet (rcPre ++ [.alarm 1 20, .deliver 1 20 (syQ [7, 8] 3)]) ∧
    (1, Instance.Phase.prepare, [7]) ∈
      (runNet rcNet (rcPre ++ [.alarm 1 20, .deliver 1 20 (syQ [7, 8] 3)])).pool.map (fun m => (m.sender, m.phase, m.value)) ∧
    TimedSync 10 rcNet (rcPre ++ [.deliver 1 19 (syQ [7, 8] 3), .alarm 1 20]) ∧
    (1, Instance.Phase.prepare, [7, 8]) ∈
      (runNet rcNet (rcPre ++ [.deliver 1 19 (syQ [7, 8] 3), .alarm 1 20])).pool.map (fun m => (m.sender, m.phase, m.value)) := by
  refine ⟨by decide, ?_, ?_, by decide, ⟨by decide, by decide, by decide⟩, by decide⟩
  · rintro ⟨_, _, h⟩
    revert h
    decide
  · unfold SyncOrdered
    decide

/-- base-only input `[7]`, `Δ = 10`: node 1 starts at 0, nodes 2 and 3 at 10; all messages are prompt. Node 1's
QUALITY alarm is delivered on time (20) and it enters PREPARE; nodes 2 and 3 (timers at 30) are never given an alarm
and see no event after 30, so they are still in QUALITY when node 1's PREPARE timer expires at 40. -/
def tyOpsBase : List NetOp :=
  let c := [7]
  [.start 1 0, .deliver 1 1 (syQ c 1), .start 2 10, .start 3 10,
   .deliver 2 11 (syQ c 1), .deliver 3 11 (syQ c 1)] ++ syAll 12 (syQ c 2) ++ syAll 13 (syQ c 3) ++
  [.alarm 1 20] ++ syAll 21 (syP c 1) ++ [.alarm 1 40]

/-- **`2 ≤ c.length` cannot be dropped** from `timed_sync_ordered`: for a base-only chain QUALITY ends by the timer
alone and `TimedSync` does not make alarms punctual. (Nothing goes wrong in this run — node 1 just keeps waiting in
PREPARE; it is the *sufficient* condition `SyncOrdered` that fails. A base-only unanimous input additionally needs
"every expired QUALITY timer is followed by its alarm within the bound", cf. `timersFired` in `unanimous_sync_decides`.) -/
theorem timed_sync_ordered_needs_suffix : ¬ TimedSyncOrderedStatement := by
  intro h
  have h1 := h tyTbl [1, 2, 3] [7] (fun _ => tyCfg) 10 (by decide) (by decide) (by decide) (by decide) tyOpsBase
    (by decide) ⟨by decide, by decide, by decide⟩
  revert h1
  unfold SyncOrdered
  decide

end Timed

/-! ## Arbitrary honest inputs sharing the base, under synchrony: what is decided is backed by a strong quorum of inputs

Section `Sync` assumes one common input chain. With one input chain `inp p` per participant (all participants honest
and exactly the members of the power table, positive total power, common base `b`) the network of model participants
decides, in round 0, the *longest prefix supported by a strong quorum of input power*
(`SyncGeneral.longestQuorumPrefix`; the termination statement is `C06.general_sync_decides`, the invariant
`C06.general_sync_invariant`, proofs in `F3/Proofs/SyncGeneral*.lean`). The validity content: a decided value is
non-empty, starts at the base and is a prefix of the inputs of participants holding a strong quorum — stronger than the
"prefix of the input of *some* honest participant" of `validity_model`, and it specialises to the unanimous case. -/
section GeneralInputs
open F3.Instance F3.Net F3.SyncGeneral

/-- **Validity of the synchronous run with arbitrary inputs.** In every admissible, synchrony-ordered execution a value
decided by any participant is the longest quorum-supported prefix; it is non-empty, starts at the base, and the
participants whose input it is a prefix of hold a strong quorum of power (the model's `strongQ`). -/
theorem general_sync_validity (tbl : Table) (H : List Pid) (inp : Pid → Chain) (cfg : Pid → Cfg) (b : Nat)
    (hH : tbl.entries.map (·.1) = H) (hnd : H.Nodup) (hpos : 0 < tbl.total)
    (hbase : ∀ p ∈ H, (inp p).head? = some b) (ops : List NetOp)
    (hexec : execOk (initNet tbl H cfg inp) ops = true) (hsync : SyncOrdered (initNet tbl H cfg inp) ops)
    (p : Pid) (s : State) (hp : (p, s) ∈ (runNet (initNet tbl H cfg inp) ops).nodes) (d : Just)
    (hd : s.termination = some d) :
    d.value = longestQuorumPrefix tbl H inp ∧ d.value ≠ [] ∧ d.value.head? = some b ∧
    strongQ tbl (((H.filter (fun h => d.value.isPrefixOf (inp h))).map tbl.power).sum) = true ∧
    ∀ k, k ≠ [] → strongQ tbl (((H.filter (fun h => k.isPrefixOf (inp h))).map tbl.power).sum) = true → k <+: d.value := by
  have g := gctx_of tbl H inp b hH hnd hpos hbase
  have hn := general_invariant_core g cfg ops hexec hsync
  have hv := (hn.node p s hp).inv.term d hd
  rw [hv]
  refine ⟨rfl, g.pstar_ne, g.pstar_head, ?_, ?_⟩
  · rw [← F3.Sync.sumP_eq_sum]; exact g.pstar_sq
  · intro k hk hs
    rw [← F3.Sync.sumP_eq_sum] at hs
    exact g.sq_le_pstar hk hs

/-- with unanimous inputs that value is the common chain, as in `unanimous_sync_invariant` -/
theorem longestQuorumPrefix_unanimous (tbl : Table) (H : List Pid) (c : Chain)
    (hH : tbl.entries.map (·.1) = H) (hnd : H.Nodup) (hpos : 0 < tbl.total) (hc : c ≠ []) :
    longestQuorumPrefix tbl H (fun _ => c) = c := by
  obtain ⟨a, as, rfl⟩ : ∃ a as, c = a :: as := by
    cases c with
    | nil => exact absurd rfl hc
    | cons a as => exact ⟨a, as, rfl⟩
  exact pstar_unanimous (gctx_of tbl H (fun _ => a :: as) a hH hnd hpos (fun _ _ => rfl))

/-- Non-vacuity: `syNet [7, 8]` with `syOps` (section `Sync`) is an instance of the general setting. -/
example : longestQuorumPrefix syTbl [1, 2, 3] (fun _ => [7, 8]) = [7, 8] :=
  longestQuorumPrefix_unanimous syTbl [1, 2, 3] [7, 8] (by decide) (by decide) (by decide) (by decide)

end GeneralInputs

/-! ## AUDIT2 M1 / M4: the base clause without a shared-base hypothesis; quiet honest members

M1. The property's clause "the decided chain starts at the base that participant entered the instance with" is local
and unconditional: `receiveOne` refuses a vote on another base before it reaches any tally (gpbft.go:224-228).
`validity_model_base` above derives it only when *all* honest inputs share a base. `decision_starts_at_own_base` is the
local statement for any run of the instance model, with no hypothesis on what is delivered; `validity_model_base_own`
is `validity_model_base` without `hbase`.

M4. `validity_model_quiet`: the same for networks in which honest members may never begin the instance. -/
section Audit2
open F3.Instance F3.Bridge F3.Audit2

/-- **The decision is on the participant's own base** — for every configuration, table, input chain and every list of
`Start` / `Receive` / `ReceiveAlarm` calls whatsoever (unvalidated, Byzantine, any order): a reported decision is
bottom or starts at the tipset the participant's input chain starts at. -/
theorem decision_starts_at_own_base (cfg : Cfg) (t : Table) (input : Chain) (ops : List Op) (d : Just)
    (hd : (run (init cfg t input) ops).1.termination = some d) :
    d.value = [] ∨ d.value.head? = input.head? :=
  decision_on_own_base cfg t input ops d hd

/-- … and when every delivery is validated (or foreign, hence refused) it is not bottom, so it starts exactly there -/
theorem validated_decision_starts_at_own_base (W : Instance.Votes) (cfg : Cfg) (t : Table) (input : Chain)
    (ops : List Op) (hv : ∀ op ∈ ops, foreign op = true ∨ OpValidG W t op) (d : Just)
    (hd : (run (init cfg t input) ops).1.termination = some d) :
    d.value ≠ [] ∧ d.value.head? = input.head? := by
  refine decision_head_own_base W cfg t input ops ?_ d hd
  intro op hop
  rcases hv op hop with h | h
  · cases op with
    | recv now m => exact Or.inl h
    | start _ => trivial
    | alarm _ => trivial
  · exact opValidG_toF h

/-- **`validity_model_base` without `hbase`**: in every `Network`, whatever the bases of the other honest members'
inputs, a decision reported by honest `p` is not bottom and starts at the base of `p`'s own input. -/
theorem validity_model_base_own {t : Table} {F : Finset Pid} {W : Instance.Votes} (N : Network t F W)
    (p : Pid) (hp : p ∈ (ids t).toFinset) (hpF : p ∉ F) (d : Just)
    (hd : (run (init (N.runs p hp hpF).cfg t (N.runs p hp hpF).input) (N.runs p hp hpF).ops).1.termination = some d) :
    d.value ≠ [] ∧ d.value.head? = (N.runs p hp hpF).input.head? := by
  have hne := (model_validity N p hp hpF d hd).1
  rcases decision_on_own_base _ t _ _ d hd with h | h
  · exact absurd h hne
  · exact ⟨hne, h⟩

/-- consequence: the honest member whose input the decision is a prefix of entered the instance on `p`'s base — so
`hbase` of `validity_model_base` is needed for *no* pair of honest members one of which decides a prefix of the
other's input -/
theorem validity_model_supporter_shares_base {t : Table} {F : Finset Pid} {W : Instance.Votes} (N : Network t F W)
    (p : Pid) (hp : p ∈ (ids t).toFinset) (hpF : p ∉ F) (d : Just)
    (hd : (run (init (N.runs p hp hpF).cfg t (N.runs p hp hpF).input) (N.runs p hp hpF).ops).1.termination = some d) :
    ∃ h, ∃ hh : h ∈ (ids t).toFinset, ∃ hF : h ∉ F, d.value <+: (N.runs h hh hF).input ∧
      (N.runs h hh hF).input.head? = (N.runs p hp hpF).input.head? := by
  obtain ⟨hne, h, hh, hF, hpre⟩ := model_validity N p hp hpF d hd
  refine ⟨h, hh, hF, hpre, ?_⟩
  obtain ⟨_, hhead⟩ := validity_model_base_own N p hp hpF d hd
  obtain ⟨tl, htl⟩ := hpre
  rw [← hhead, ← htl]
  cases hv : d.value with
  | nil => exact absurd hv hne
  | cons a l => rfl

/-- `validity_model_base` is a corollary (kept for comparison) -/
example {t : Table} {F : Finset Pid} {W : Instance.Votes} (N : Network t F W) (b : Nat)
    (hbase : ∀ h (hh : h ∈ (ids t).toFinset) (hF : h ∉ F), (N.runs h hh hF).input.head? = some b)
    (p : Pid) (hp : p ∈ (ids t).toFinset) (hpF : p ∉ F) (d : Just)
    (hd : (run (init (N.runs p hp hpF).cfg t (N.runs p hp hpF).input) (N.runs p hp hpF).ops).1.termination = some d) :
    d.value.head? = some b := by
  rw [(validity_model_base_own N p hp hpF d hd).2]; exact hbase p hp hpF

/-- **Validity with no hypothesis on errors (`NetworkV`)**, base clause included. -/
theorem validity_model_unconditional {t : Table} {F : Finset Pid} {W : Instance.Votes} (N : NetworkV t F W)
    (p : Pid) (hp : p ∈ (ids t).toFinset) (hpF : p ∉ F) (d : Just)
    (hd : (run (init (N.runs p hp hpF).cfg t (N.runs p hp hpF).input)
      (.start (N.runs p hp hpF).start :: (N.runs p hp hpF).ops)).1.termination = some d) :
    d.value ≠ [] ∧ d.value.head? = (N.runs p hp hpF).input.head? ∧
    ∃ h, ∃ hh : h ∈ (ids t).toFinset, ∃ hF : h ∉ F, d.value <+: (N.runs h hh hF).input :=
  ⟨(validity_model_base_own N.toNetwork p hp hpF d hd).1, (validity_model_base_own N.toNetwork p hp hpF d hd).2,
    (model_validity N.toNetwork p hp hpF d hd).2⟩

/-- **Validity with honest members that never begin the instance (`NetworkV'`, AUDIT2 M4).** A decision reported by
an honest member is not bottom, starts at that member's own base, and is a prefix of the input chain of an honest
member **that began the instance**. -/
theorem validity_model_quiet {t : Table} {F : Finset Pid} {W : Instance.Votes} (N : NetworkV' t F W)
    (p : Pid) (hp : p ∈ (ids t).toFinset) (hpF : p ∉ F) (d : Just)
    (hd : (run (init (N.runs p hp hpF).cfg t (N.runs p hp hpF).input) (N.runs p hp hpF).ops).1.termination = some d) :
    d.value ≠ [] ∧ d.value.head? = (N.runs p hp hpF).input.head? ∧
    ∃ h, ∃ hh : h ∈ (ids t).toFinset, ∃ hF : h ∉ F, ¬ (N.runs h hh hF).quiet ∧ d.value <+: (N.runs h hh hF).input :=
  model_validity_quiet N p hp hpF d hd

open F3.Msg F3.Spec.ValidMsg F3.ValidBridge in
/-- **Validity from assumptions about key usage only** (see `C01.agreement_from_key_usage`). -/
theorem validity_from_key_usage {Signed : Nat → SigMsg → Prop} {Wire : Msg.Msg → Prop} {net inst supp : Nat}
    {c : Committee} {F : Finset Pid} {runs : SignedRuns Wire net inst supp c F}
    (K : KeyUsage Signed Wire net inst supp c F runs) (hu : (c.entries.map (·.id)).Nodup)
    (hT : 0 < c.total) (hF : 3 * (∑ p ∈ F, (tableOf c).power p) < c.total)
    (p : Pid) (hp : p ∈ (ids (tableOf c)).toFinset) (hpF : p ∉ F) (d : Instance.Just)
    (hd : (run (init (runs p hp hpF).cfg (tableOf c) (runs p hp hpF).input) (runs p hp hpF).ops).1.termination = some d) :
    d.value ≠ [] ∧ d.value.head? = (runs p hp hpF).input.head? ∧
    ∃ h, ∃ hh : h ∈ (ids (tableOf c)).toFinset, ∃ hhF : h ∉ F,
      (runs h hh hhF).ops ≠ [] ∧ d.value <+: (runs h hh hhF).input :=
  validity_signed K hu hT hF p hp hpF d hd

/-! ### non-vacuity -/

/-- `validity_model_base_own` / `validity_model_unconditional` on the example network: member 1 decides `[7, 8]`, which
starts where its input `[7, 8]` starts. -/
example : ∃ d, (run (init (exNetV.runs 1 (by decide) (by decide)).cfg exTbl (exNetV.runs 1 (by decide) (by decide)).input)
      (.start (exNetV.runs 1 (by decide) (by decide)).start :: (exNetV.runs 1 (by decide) (by decide)).ops)).1.termination
        = some d ∧ d.value ≠ [] ∧ d.value.head? = (exNetV.runs 1 (by decide) (by decide)).input.head? := by
  obtain ⟨d, hd, _⟩ := ex_networkV_decides
  exact ⟨d, hd, (validity_model_unconditional exNetV 1 (by decide) (by decide) d hd).1,
    (validity_model_unconditional exNetV 1 (by decide) (by decide) d hd).2.1⟩

/-- `validity_model_quiet` on the network with a quiet honest member (`F3.Audit2.qNet`). -/
example : ∃ d, (run (init (qNet.runs 1 (by decide) (by decide)).cfg exTbl (qNet.runs 1 (by decide) (by decide)).input)
      (qNet.runs 1 (by decide) (by decide)).ops).1.termination = some d ∧ d.value = [7, 8] ∧
    (qNet.runs 3 (by decide) (by decide)).quiet ∧
    ∃ h, ∃ hh : h ∈ (ids exTbl).toFinset, ∃ hF : h ∉ exF, ¬ (qNet.runs h hh hF).quiet ∧ d.value <+: (qNet.runs h hh hF).input := by
  obtain ⟨d, hd, hv⟩ := qNet_facts.2.2.2.2.1
  exact ⟨d, hd, hv, qNet_facts.1, (validity_model_quiet qNet 1 (by decide) (by decide) d hd).2.2⟩

/-- `decision_starts_at_own_base` with *unvalidated* deliveries: (a) two DECIDEs on a foreign base are refused
(`wrongBase`), nothing is tallied or decided; (b) the same two DECIDEs on the own base — unjustified, unvalidated — do
terminate the instance, on the own base as the theorem says. -/
example :
    let bad : List Op :=
      [.start 0, .recv 1 { sender := 1, round := 0, phase := .decide, value := [9, 9] },
       .recv 2 { sender := 2, round := 0, phase := .decide, value := [9, 9] },
       .recv 3 { sender := 3, round := 0, phase := .decide, value := [9, 9] }]
    let own : List Op :=
      [.start 0, .recv 1 { sender := 1, round := 0, phase := .decide, value := [7, 5] },
       .recv 2 { sender := 2, round := 0, phase := .decide, value := [7, 5] },
       .recv 3 { sender := 3, round := 0, phase := .decide, value := [7, 5] }]
    (run (init exCfg exTbl [7, 8]) bad).1.termination = none ∧
    (run (init exCfg exTbl [7, 8]) bad).1.decision.support = [] ∧
    ((run (init exCfg exTbl [7, 8]) own).1.termination.map (·.value)) = some [7, 5] := by decide

end Audit2

/-! ## AUDIT2 M3: the synchronous theorems with a non-degenerate table

`F3.Net` has no validator, and `ctx_of` asks of the table only `hq : strongQ tbl (Σ_H power)`. Two degenerate cases
slip through (examples below, from the audit's E4):
* a member of `H` with **zero** scaled power: its votes are pool messages, `execOk` admits delivering them,
  `complete` / `SyncOrdered` *require* handing them to everybody — but no validator lets them through
  (`MsgValid` needs `0 < power`, validator.go:213-216), so no real run is such an execution;
* an **all-zero** table: `strongQ _ 0 = true` when `total = 0`, `hq` holds trivially, and a node decides on its own
  votes alone.
The `_pos` variants add `0 < tbl.total` and `∀ p ∈ H, 0 < tbl.power p` and conclude, in addition, that every message
ever broadcast comes from a table member with positive power (the validator's sender check passes for everything the
net delivers) and that `hq` is then a real two-thirds bound on a non-empty `H`. (That the *justifications* carried by
pool messages aggregate a strong quorum of existing votes — the rest of `MsgValid` — is not part of the `Sync`
invariant and is not shown here.) -/
section Audit2Sync
open F3.Instance F3.Net

/-- with a positive total the quorum hypothesis is a real bound: `H` is not empty and holds ≥ 2/3 of the total -/
theorem quorum_nondegenerate (tbl : Table) (H : List Pid) (hT : 0 < tbl.total)
    (hq : strongQ tbl ((H.map tbl.power).sum) = true) :
    H ≠ [] ∧ 0 < (H.map tbl.power).sum ∧ 3 * (H.map tbl.power).sum ≥ 2 * tbl.total := by
  have h : 3 * (H.map tbl.power).sum ≥ 2 * tbl.total := by
    unfold strongQ F3.Spec.Quorum.strong at hq
    simp only [decide_eq_true_eq] at hq
    exact_mod_cast hq
  refine ⟨?_, by omega, h⟩
  rintro rfl
  simp at h
  omega

/-- with `total = 0` everything is a strong quorum -/
theorem strongQ_of_total_zero (tbl : Table) (h0 : tbl.total = 0) (p : Nat) : strongQ tbl p = true := by
  unfold strongQ F3.Spec.Quorum.strong
  simp only [decide_eq_true_eq, h0]
  omega

/-- **`unanimous_sync_invariant` for a non-degenerate table**: additionally, every message ever broadcast comes from
a table member with positive scaled power. -/
theorem unanimous_sync_invariant_pos (tbl : Table) (H : List Pid) (c : Chain) (cfg : Pid → Cfg)
    (hnd : H.Nodup) (hin : ∀ p ∈ H, p ∈ tbl.entries.map (·.1)) (hT : 0 < tbl.total)
    (hpow : ∀ p ∈ H, 0 < tbl.power p)
    (hq : strongQ tbl ((H.map tbl.power).sum) = true) (hc : c ≠ []) (ops : List NetOp)
    (hexec : execOk (initNet tbl H cfg (fun _ => c)) ops = true)
    (hsync : SyncOrdered (initNet tbl H cfg (fun _ => c)) ops) :
    (H ≠ [] ∧ 3 * (H.map tbl.power).sum ≥ 2 * tbl.total) ∧
    (runNet (initNet tbl H cfg (fun _ => c)) ops).fails = [] ∧
    (∀ m ∈ (runNet (initNet tbl H cfg (fun _ => c)) ops).pool,
      m.sender ∈ H ∧ 0 < tbl.power m.sender ∧ m.value ≠ [] ∧ UnanimousMsg c m) ∧
    (∀ p s, (p, s) ∈ (runNet (initNet tbl H cfg (fun _ => c)) ops).nodes →
      s.round = 0 ∧ ∀ d, s.termination = some d → d.value = c) := by
  obtain ⟨h1, h2, _, h4⟩ := unanimous_sync_invariant tbl H c cfg hnd hin hq hc ops hexec hsync
  have hn := quorum_nondegenerate tbl H hT hq
  refine ⟨⟨hn.1, hn.2.2⟩, h1, ?_, h4⟩
  intro m hm
  obtain ⟨hs, hu⟩ := h2 m hm
  exact ⟨hs, hpow _ hs, by rw [hu.2.1]; exact hc, hu⟩

/-- **`unanimous_sync_decides` for a non-degenerate table.** -/
theorem unanimous_sync_decides_pos (tbl : Table) (H : List Pid) (c : Chain) (cfg : Pid → Cfg)
    (hnd : H.Nodup) (hin : ∀ p ∈ H, p ∈ tbl.entries.map (·.1)) (hT : 0 < tbl.total)
    (hpow : ∀ p ∈ H, 0 < tbl.power p)
    (hq : strongQ tbl ((H.map tbl.power).sum) = true) (hc : c ≠ []) (ops : List NetOp)
    (hexec : execOk (initNet tbl H cfg (fun _ => c)) ops = true)
    (hsync : SyncOrdered (initNet tbl H cfg (fun _ => c)) ops)
    (hcomplete : complete (runNet (initNet tbl H cfg (fun _ => c)) ops) = true)
    (htimers : 2 ≤ c.length ∨ timersFired (runNet (initNet tbl H cfg (fun _ => c)) ops) = true) :
    (∀ m ∈ (runNet (initNet tbl H cfg (fun _ => c)) ops).pool, m.sender ∈ H ∧ 0 < tbl.power m.sender) ∧
    (∃ p, p ∈ H) ∧
    (∀ p ∈ H, ∃ s, (p, s) ∈ (runNet (initNet tbl H cfg (fun _ => c)) ops).nodes) ∧
    ∀ p s, (p, s) ∈ (runNet (initNet tbl H cfg (fun _ => c)) ops).nodes →
      s.phase = .terminated ∧ ∃ d, s.termination = some d ∧ d.value = c := by
  obtain ⟨⟨hne, _⟩, _, h2, _⟩ :=
    unanimous_sync_invariant_pos tbl H c cfg hnd hin hT hpow hq hc ops hexec hsync
  obtain ⟨h5, h6⟩ := unanimous_sync_decides tbl H c cfg hnd hin hq hc ops hexec hsync hcomplete htimers
  refine ⟨fun m hm => ⟨(h2 m hm).1, (h2 m hm).2.1⟩, ?_, h5, h6⟩
  cases H with
  | nil => exact absurd rfl hne
  | cons a l => exact ⟨a, List.mem_cons_self⟩

/-- **`unanimous_timed_decides` for a non-degenerate table.** -/
theorem unanimous_timed_decides_pos (tbl : Table) (H : List Pid) (c : Chain) (cfg : Pid → Cfg) (Δ : Int)
    (hnd : H.Nodup) (hin : ∀ p ∈ H, p ∈ tbl.entries.map (·.1)) (hT : 0 < tbl.total)
    (hpow : ∀ p ∈ H, 0 < tbl.power p)
    (hq : strongQ tbl ((H.map tbl.power).sum) = true) (hlen : 2 ≤ c.length) (ops : List NetOp)
    (hexec : execOk (initNet tbl H cfg (fun _ => c)) ops = true)
    (htimed : TimedSync Δ (initNet tbl H cfg (fun _ => c)) ops) :
    ((runNet (initNet tbl H cfg (fun _ => c)) ops).fails = [] ∧
     ∀ m ∈ (runNet (initNet tbl H cfg (fun _ => c)) ops).pool,
       m.sender ∈ H ∧ 0 < tbl.power m.sender ∧ UnanimousMsg c m) ∧
    (complete (runNet (initNet tbl H cfg (fun _ => c)) ops) = true →
      (∃ p, p ∈ H) ∧
      (∀ p ∈ H, ∃ s, (p, s) ∈ (runNet (initNet tbl H cfg (fun _ => c)) ops).nodes) ∧
      ∀ p s, (p, s) ∈ (runNet (initNet tbl H cfg (fun _ => c)) ops).nodes →
        s.phase = .terminated ∧ ∃ d, s.termination = some d ∧ d.value = c) := by
  obtain ⟨⟨h1, h2⟩, h3⟩ := unanimous_timed_decides tbl H c cfg Δ hnd hin hq hlen ops hexec htimed
  have hne := (quorum_nondegenerate tbl H hT hq).1
  refine ⟨⟨h1, fun m hm => ⟨(h2 m hm).1, hpow _ (h2 m hm).1, (h2 m hm).2⟩⟩, fun hc => ⟨?_, h3 hc⟩⟩
  cases H with
  | nil => exact absurd rfl hne
  | cons a l => exact ⟨a, List.mem_cons_self⟩

/-! ### non-vacuity, and what goes wrong without the two hypotheses -/

/-- the `_pos` hypotheses hold of the concrete executions of sections `Sync` / `Timed` -/
example : 0 < syTbl.total ∧ (∀ p ∈ [1, 2, 3], 0 < syTbl.power p) ∧
    0 < tyTbl.total ∧ (∀ p ∈ [1, 2, 3], 0 < tyTbl.power p) := by decide

example : ∀ m ∈ (runNet (syNet [7, 8]) syOps).pool, m.sender ∈ [1, 2, 3] ∧ 0 < syTbl.power m.sender := by
  have h1 : [1, 2, 3].Nodup := by decide
  have h2 : ∀ p ∈ [1, 2, 3], p ∈ syTbl.entries.map (·.1) := by decide
  have h3 : 0 < syTbl.total := by decide
  have h4 : ∀ p ∈ [1, 2, 3], 0 < syTbl.power p := by decide
  have h5 : strongQ syTbl (([1, 2, 3].map syTbl.power).sum) = true := by decide
  have h6 : execOk (syNet [7, 8]) syOps = true := by decide
  have h7 : SyncOrdered (syNet [7, 8]) syOps := by unfold SyncOrdered; decide
  have h8 : complete (runNet (syNet [7, 8]) syOps) = true := by decide
  exact (unanimous_sync_decides_pos syTbl [1, 2, 3] [7, 8] (fun _ => syCfg) h1 h2 h3 h4 h5 (by decide) syOps h6 h7 h8
    (Or.inl (by decide))).1

/-- member 3 has zero scaled power -/
def zTbl : Table := { entries := [(1, 10), (2, 10), (3, 0)] }
def zNet : Net := initNet zTbl [1, 2, 3] (fun _ => syCfg) (fun _ => [7, 8])

/-- **E4 (zero-power member).** All hypotheses of `unanimous_sync_decides` other than completeness hold; `execOk` admits
handing member 3's QUALITY to node 1, whose tally records sender 3; yet that message is `MsgValid` under **no** `W`
(the validator rejects zero-power senders), and `complete` *demands* that 3's messages be handed to everybody (an
execution that hands over everything except 3's messages is not complete). -/
example :
    [1, 2, 3].Nodup ∧ (∀ p ∈ [1, 2, 3], p ∈ zTbl.entries.map (·.1)) ∧
    strongQ zTbl (([1, 2, 3].map zTbl.power).sum) = true ∧
    execOk zNet [.start 1 0, .start 2 0, .start 3 0, .deliver 1 1 (syQ [7, 8] 3)] = true ∧
    SyncOrdered zNet [.start 1 0, .start 2 0, .start 3 0, .deliver 1 1 (syQ [7, 8] 3)] ∧
    ((runNet zNet [.start 1 0, .start 2 0, .start 3 0, .deliver 1 1 (syQ [7, 8] 3)]).nodes.map
      (fun e => (e.1, e.2.quality.senders))) = [(1, [3]), (2, []), (3, [])] ∧
    (∀ W, ¬ MsgValid W zTbl (syQ [7, 8] 3)) ∧
    complete (runNet zNet ([.start 1 0, .start 2 0, .start 3 0] ++ syAll 1 (syQ [7, 8] 1) ++ syAll 1 (syQ [7, 8] 2)))
      = false ∧
    ¬ (∀ p ∈ [1, 2, 3], 0 < zTbl.power p) := by
  refine ⟨by decide, by decide, by decide, by decide, ?_, by decide, ?_, by decide, by decide⟩
  · unfold SyncOrdered; decide
  · intro W h
    exact absurd h.2.1 (by decide)

/-- an all-zero table -/
def oTbl : Table := { entries := [(1, 0), (2, 0), (3, 0)] }
def oNet : Net := initNet oTbl [1, 2, 3] (fun _ => syCfg) (fun _ => [7, 8])
def oOps : List NetOp :=
  [.start 1 0, .deliver 1 1 (syQ [7, 8] 1), .deliver 1 2 (syP [7, 8] 1),
   .deliver 1 3 { sender := 1, round := 0, phase := .commit, value := [7, 8],
                  just := some { round := 0, phase := .prepare, value := [7, 8], signers := [0] } },
   .deliver 1 4 { sender := 1, round := 0, phase := .decide, value := [7, 8],
                  just := some { round := 0, phase := .commit, value := [7, 8], signers := [0] } }]

/-- **E4 (zero total).** With an all-zero table `hq` is `strongQ _ 0 = true`; the hypotheses of
`unanimous_sync_invariant` hold, and node 1 **terminates on its own four messages alone**, nodes 2 and 3 not even
started — a "strong quorum" of zero power. `0 < tbl.total` excludes it. -/
example :
    oTbl.total = 0 ∧ strongQ oTbl (([1, 2, 3].map oTbl.power).sum) = true ∧
    (∀ p ∈ [1, 2, 3], p ∈ oTbl.entries.map (·.1)) ∧
    execOk oNet oOps = true ∧ SyncOrdered oNet oOps ∧
    (runNet oNet oOps).nodes.map (fun e => (e.1, e.2.phase, e.2.termination.map (fun d => (d.value, d.signers)))) =
      [(1, .terminated, some ([7, 8], [0])), (2, .initial, none), (3, .initial, none)] := by
  refine ⟨by decide, by decide, by decide, by decide, ?_, by decide⟩
  unfold SyncOrdered; decide

end Audit2Sync

end F3.Props.C02

namespace F3.Props.C02
section Skeletons

/-- **The Go functions this property's models mirror still have the statement structure the models were written
against**: each regenerated skeleton (pre-order list of statement kinds, `tools/go2lean/skel.go`) equals the pinned
expectation of `F3/Proofs/SkelTie*.lean`. An added early return, cap, loop or dropped branch in one of these functions
breaks this obligation even when no regenerated *expression* changes. -/
theorem code_structure_as_modelled :
    F3.Gen.SkelGpbft.skelQueueAdd = F3.SkelTie.SkelGpbft.skelQueueAddExpected ∧
    F3.Gen.SkelGpbft.skelQueueDrain = F3.SkelTie.SkelGpbft.skelQueueDrainExpected ∧
    F3.Gen.SkelGpbft.skelReceiveMessage = F3.SkelTie.SkelGpbft.skelReceiveMessageExpected ∧
    F3.Gen.SkelGpbft.skelHandleDecision = F3.SkelTie.SkelGpbft.skelHandleDecisionExpected ∧
    F3.Gen.SkelGpbft.skelReceiveOne = F3.SkelTie.SkelGpbft.skelReceiveOneExpected ∧
    F3.Gen.SkelGpbft.skelPostReceive = F3.SkelTie.SkelGpbft.skelPostReceiveExpected ∧
    F3.Gen.SkelGpbft.skelTryQuality = F3.SkelTie.SkelGpbft.skelTryQualityExpected ∧
    F3.Gen.SkelGpbft.skelTryConverge = F3.SkelTie.SkelGpbft.skelTryConvergeExpected ∧
    F3.Gen.SkelGpbft.skelTryPrepare = F3.SkelTie.SkelGpbft.skelTryPrepareExpected ∧
    F3.Gen.SkelGpbft.skelTryCommit = F3.SkelTie.SkelGpbft.skelTryCommitExpected ∧
    F3.Gen.SkelGpbft.skelTryDecide = F3.SkelTie.SkelGpbft.skelTryDecideExpected ∧
    F3.Gen.SkelGpbft.skelBeginDecide = F3.SkelTie.SkelGpbft.skelBeginDecideExpected ∧
    F3.Gen.SkelGpbft.skelSkipToRound = F3.SkelTie.SkelGpbft.skelSkipToRoundExpected ∧
    F3.Gen.SkelGpbft.skelTryRebroadcast = F3.SkelTie.SkelGpbft.skelTryRebroadcastExpected ∧
    F3.Gen.SkelGpbft.skelReceiveEachPrefix = F3.SkelTie.SkelGpbft.skelReceiveEachPrefixExpected ∧
    F3.Gen.SkelGpbft.skelFindStrongQuorumFor = F3.SkelTie.SkelGpbft.skelFindStrongQuorumForExpected ∧
    F3.Gen.SkelGpbft.skelBeginInstance = F3.SkelTie.SkelGpbft.skelBeginInstanceExpected ∧
    F3.Gen.SkelGpbft.skelReceiveAlarm = F3.SkelTie.SkelGpbft.skelReceiveAlarmExpected ∧
    F3.Gen.SkelGpbft.skelHasBase = F3.SkelTie.SkelGpbft.skelHasBaseExpected ∧
    F3.Gen.SkelGpbft.skelTipSetEqual = F3.SkelTie.SkelGpbft.skelTipSetEqualExpected ∧
    F3.Gen.SkelGpbft.skelChainEq = F3.SkelTie.SkelGpbft.skelChainEqExpected ∧
    F3.Gen.SkelGpbft.skelReceiveMany = F3.SkelTie.SkelGpbft.skelReceiveManyExpected ∧
    F3.Gen.SkelGpbft.skelShouldSkipToRound = F3.SkelTie.SkelGpbft.skelShouldSkipToRoundExpected ∧
    F3.Gen.SkelPower.skelScalePower = F3.SkelTie.SkelPower.skelScalePowerExpected ∧
    F3.Gen.SkelPower.skelPowerTableCopy = F3.SkelTie.SkelPower.skelPowerTableCopyExpected ∧
    F3.Gen.SkelPower.skelRescale = F3.SkelTie.SkelPower.skelRescaleExpected :=
  ⟨F3.SkelTie.SkelGpbft.skelQueueAdd_expected, F3.SkelTie.SkelGpbft.skelQueueDrain_expected, F3.SkelTie.SkelGpbft.skelReceiveMessage_expected, F3.SkelTie.SkelGpbft.skelHandleDecision_expected, F3.SkelTie.SkelGpbft.skelReceiveOne_expected, F3.SkelTie.SkelGpbft.skelPostReceive_expected, F3.SkelTie.SkelGpbft.skelTryQuality_expected, F3.SkelTie.SkelGpbft.skelTryConverge_expected, F3.SkelTie.SkelGpbft.skelTryPrepare_expected, F3.SkelTie.SkelGpbft.skelTryCommit_expected, F3.SkelTie.SkelGpbft.skelTryDecide_expected, F3.SkelTie.SkelGpbft.skelBeginDecide_expected, F3.SkelTie.SkelGpbft.skelSkipToRound_expected, F3.SkelTie.SkelGpbft.skelTryRebroadcast_expected, F3.SkelTie.SkelGpbft.skelReceiveEachPrefix_expected, F3.SkelTie.SkelGpbft.skelFindStrongQuorumFor_expected, F3.SkelTie.SkelGpbft.skelBeginInstance_expected, F3.SkelTie.SkelGpbft.skelReceiveAlarm_expected, F3.SkelTie.SkelGpbft.skelHasBase_expected, F3.SkelTie.SkelGpbft.skelTipSetEqual_expected, F3.SkelTie.SkelGpbft.skelChainEq_expected, F3.SkelTie.SkelGpbft.skelReceiveMany_expected, F3.SkelTie.SkelGpbft.skelShouldSkipToRound_expected, F3.SkelTie.SkelPower.skelScalePower_expected, F3.SkelTie.SkelPower.skelPowerTableCopy_expected, F3.SkelTie.SkelPower.skelRescale_expected⟩

end Skeletons
end F3.Props.C02
