import F3.Proofs.CodecBytes
import F3.Proofs.CodecMerkle
import F3.Proofs.CodecPayload
import F3.Proofs.CodecCbor
import F3.Proofs.CodecAlloc
import F3.Gen.Schema
import F3.Proofs.CodecDemo
import F3.Proofs.CodecCollision
import F3.Proofs.CodecHashLen
/-!
# C14 — Encodings: signed bytes bind every field, chain keys agree, codecs round-trip

Models: `F3.Payload` (signing payload, tipset, VRF input, chain key), `F3.Merkle` (`Tree`,
`BatchTree`), `F3.Cbor` (generic cbor-gen codec) over the schema table `F3.Gen.Schema`, which is
re-extracted from the Go struct definitions, cborgen tags and generated limits on every run. The
driver `Driver/Codec.lean` executes these same definitions against the implementation.

Hash functions are parameters (`H` = keccak-256 for the merkle tree, `B` = blake2b-256 for the
tipset-key CID). **No theorem that is meant to apply to the real code assumes anything false of them.**
"The key determines the chain" is stated as a *collision-resistance reduction*: two different chains
with the same key (two different payloads with the same signed bytes) **exhibit**, among the finitely
many strings the two computations actually hashed (`F3.HashInputs.hashed`, `keyHashedH`, `keyHashedB`),
either two different strings with the same digest, or a string with the all-zero digest (which
merkle.go uses as the empty-subtree marker and chain.go as the key of the zero chain), or a digest
whose length is not 32 (impossible for the executable hashes: `keccak256_length`, `blake2b256_length`).
These are the primary results: `tree_collision_extract`, `tree_find_collision` (the colliding pair is
*computed* by `findCollision`), `tipset_collision_extract`, `chainKey_collision_extract`,
`signed_bytes_collision_extract`, and their instances at the executable hashes the driver runs
(`chainKey_collision_extract_real`, `signed_bytes_collision_extract_real`).

`tipset_inj`, `tree_inj`, `chainKey_inj`, `signed_bytes_sensitive` are kept as **idealised-hash
corollaries**: they assume `HashOK H` / `CidHashOK B`, i.e. *global injectivity* of a function with
32-byte output, which no real hash (and in particular neither executable hash) satisfies; the witness
`demoHash` exists only because `Bytes = List Nat` has non-byte elements. They are derived from the
reductions (injective ⇒ no collision in the list ⇒ equality) and say what the encoding *layout* achieves
once the hash is taken out of the picture. `tree_inj_or_collision` is kept for reference only: its
alternatives quantify over all strings and are therefore trivially true of every real hash.

Key agreement (`batch_eq_tree`, `keys_agree`) holds for every function `H`, `B` whatsoever.

Runtime sub-claim NOT proved here (validated by the malformed stream of `h_codec` only): that the
*Go* decoders and zstd do not panic and that the Go allocator's measured total stays below
`Schema.allocBound`. What is proved is the model-level counterpart (`decode_alloc_bounded`): the
`make` requests of the decoder model, which mirrors the generated code's check-then-allocate order.
-/
namespace F3.Props.C14
open F3.Codec F3.Merkle F3.Payload F3.Cbor F3.HashInputs
open F3.Codec.Hash (keccak256 blake2b256)

/-! ## (a) what is signed -/

/-- For a fixed network name the bytes of `MarshalForSigningWithValueKey` determine phase, round,
instance, commitments, chain key and power-table CID (no assumption on the CID's length). -/
theorem payload_inj_fixed_net {p q : SigInput} (hp : p.WF) (hq : q.WF) (hnet : p.net = q.net)
    (h : payloadBytes p = payloadBytes q) : p = q :=
  F3.Payload.payload_inj_fixed_net hp hq hnet h

/-- With power-table CIDs of equal length the bytes determine *all* fields, network name included. -/
theorem payload_inj_cidlen {p q : SigInput} (hp : p.WF) (hq : q.WF) (hcid : p.ptCid.length = q.ptCid.length)
    (h : payloadBytes p = payloadBytes q) : p = q :=
  F3.Payload.payload_inj_cidlen hp hq hcid h

/-- Single-field sensitivity: two different inputs that agree on the network name, or whose CIDs have
the same length, never give the same signed bytes. Every change of exactly one field is covered. -/
theorem payload_sensitive {p q : SigInput} (hp : p.WF) (hq : q.WF) (hne : p ≠ q)
    (hside : p.net = q.net ∨ p.ptCid.length = q.ptCid.length) : payloadBytes p ≠ payloadBytes q :=
  F3.Payload.payload_sensitive hp hq hne hside

/-- Changing only the network name changes the signed bytes. -/
theorem payload_net_sensitive (p : SigInput) (hp : p.WF) (net' : Bytes) (hne : net' ≠ p.net) :
    payloadBytes { p with net := net' } ≠ payloadBytes p := by
  apply F3.Payload.payload_sensitive (p := { p with net := net' }) (q := p)
    ⟨hp.phase, hp.round, hp.inst, hp.commitments, hp.key⟩ hp
  · intro h; exact hne (congrArg SigInput.net h)
  · exact Or.inr rfl

/-- The caveat is real: network name and power-table CID are two variable-length fields separated by
fixed-width data only, so when the CID lengths differ two different inputs can collide. -/
theorem payload_not_jointly_injective :
    ∃ p q : SigInput, p.WF ∧ q.WF ∧ p ≠ q ∧ payloadBytes p = payloadBytes q := by
  refine ⟨⟨[97], 58, 0, 0, List.replicate 32 0, List.replicate 32 0, [0]⟩,
          ⟨[97, 58], 0, 0, 0, List.replicate 32 0, List.replicate 32 0, []⟩, ?_, ?_, ?_, ?_⟩
  · exact ⟨by decide, by norm_num, by norm_num, by decide, by decide⟩
  · exact ⟨by decide, by norm_num, by norm_num, by decide, by decide⟩
  · decide
  · decide

/-- `TipSet.MarshalForSigning`, reduction form (no hypothesis on the CID hash `B`): equal bytes give equal
epoch and commitments outright, and equal tipsets (key and power-table CID too) unless blake2b is
exhibited to fail on the two tipset keys: the two CBOR-encoded keys are different strings with the
same digest, or one of their digests is not 32 bytes long. The key enters the signed bytes only
through its CID, so this is the best possible. -/
theorem tipset_collision_extract (B : Bytes → Bytes) {s t : TipSet} (hs : s.WF) (ht : t.WF)
    (h : tipsetBytes B s = tipsetBytes B t) :
    s.epoch = t.epoch ∧ s.commitments = t.commitments ∧
    (s = t ∨
     (tsKeyPreimage s.key ≠ tsKeyPreimage t.key ∧ B (tsKeyPreimage s.key) = B (tsKeyPreimage t.key)) ∨
     (B (tsKeyPreimage s.key)).length ≠ 32 ∨ (B (tsKeyPreimage t.key)).length ≠ 32) :=
  F3.HashInputs.tipset_extract B hs ht h

/-- Idealised-hash corollary of `tipset_collision_extract` (`CidHashOK B` = globally injective with
32-byte output; false of every real hash): `TipSet.MarshalForSigning` determines epoch, commitments,
tipset key and power-table CID. -/
theorem tipset_inj {B : Bytes → Bytes} (hB : CidHashOK B) {s t : TipSet} (hs : s.WF) (ht : t.WF)
    (h : tipsetBytes B s = tipsetBytes B t) : s = t := by
  rcases (tipset_collision_extract B hs ht h).2.2 with e | ⟨hne, he⟩ | hl | hl
  · exact e
  · exact absurd (hB.inj _ _ he) hne
  · exact absurd (hB.len _) hl
  · exact absurd (hB.len _) hl

/-- The VRF input determines beacon, instance and round for a fixed network name. -/
theorem vrf_inj_fixed_net {v w : VrfInput} (hv : v.WF) (hw : w.WF) (hnet : v.net = w.net)
    (h : vrfBytes v = vrfBytes w) : v = w :=
  F3.Payload.vrf_inj_fixed_net hv hw hnet h

/-- With beacons of equal length it determines the network name too. -/
theorem vrf_inj_beaconlen {v w : VrfInput} (hv : v.WF) (hw : w.WF) (hlen : v.beacon.length = w.beacon.length)
    (h : vrfBytes v = vrfBytes w) : v = w :=
  F3.Payload.vrf_inj_beaconlen hv hw hlen h

/-- Changing any one of beacon, instance, round, network name changes the VRF input. -/
theorem vrf_sensitive {v w : VrfInput} (hv : v.WF) (hw : w.WF) (hne : v ≠ w)
    (hside : v.net = w.net ∨ v.beacon.length = w.beacon.length) : vrfBytes v ≠ vrfBytes w :=
  F3.Payload.vrf_sensitive hv hw hne hside

/-- Network name and beacon meet at a `:` and are not jointly determined. -/
theorem vrf_not_jointly_injective : ∃ v w : VrfInput, v.WF ∧ w.WF ∧ v ≠ w ∧ vrfBytes v = vrfBytes w := by
  refine ⟨⟨[97], [98, 58, 99], 0, 0⟩, ⟨[97, 58, 98], [99], 0, 0⟩, ?_, ?_, ?_, ?_⟩
  · exact ⟨by norm_num, by norm_num⟩
  · exact ⟨by norm_num, by norm_num⟩
  · decide
  · decide

/-! ## (b) chain keys -/

/-- `merkle.BatchTree(values)[k] = merkle.Tree(values[:k+1])` for every list and every `k`. -/
theorem batch_eq_tree (H : Bytes → Bytes) (vs : List Bytes) (k : Nat) (hk : k < vs.length) :
    (batchTree H vs)[k]? = some (tree H (vs.take (k + 1))) :=
  batchTree_get H vs k hk

/-- **Merkle reduction** (no hypothesis on `H`). If two lists have the same root then they are the same
list — same number, order and content of values — or the hash is exhibited to fail *on the strings the
two computations hashed* (`hashed H vs`: one `1 :: value` per leaf, one `0 :: left ++ right` per
internal node): two different hashed strings with the same digest, a hashed string with the all-zero
digest (the empty-subtree marker), or a digest that is not 32 bytes long. -/
theorem tree_collision_extract (H : Bytes → Bytes) (vs ws : List Bytes) (h : tree H vs = tree H ws) :
    vs = ws ∨
    (∃ a ∈ hashed H vs, ∃ b ∈ hashed H ws, a ≠ b ∧ H a = H b) ∨
    (∃ a ∈ hashed H vs ++ hashed H ws, H a = zeroDigest) ∨
    (∃ a ∈ hashed H vs ++ hashed H ws, (H a).length ≠ 32) :=
  F3.HashInputs.tree_extract H vs ws h

/-- The reduction is effective: for two *different* lists with the same root, if none of the hashed
strings has the zero digest or a digest of the wrong length (finitely many decidable checks), the
search `findCollision` over the two lists of hashed strings **returns** a collision. -/
theorem tree_find_collision (H : Bytes → Bytes) (vs ws : List Bytes) (h : tree H vs = tree H ws) (hne : vs ≠ ws)
    (hz : ∀ a ∈ hashed H vs ++ hashed H ws, H a ≠ zeroDigest)
    (hlen : ∀ a ∈ hashed H vs ++ hashed H ws, (H a).length = 32) :
    ∃ a b, findCollision H (hashed H vs) (hashed H ws) = some (a, b) ∧
      a ∈ hashed H vs ∧ b ∈ hashed H ws ∧ a ≠ b ∧ H a = H b := by
  rcases tree_collision_extract H vs ws h with e | hc | ⟨a, ha, hza⟩ | ⟨a, ha, hla⟩
  · exact absurd e hne
  · exact findCollision_of_collision H hc
  · exact absurd hza (hz a ha)
  · exact absurd (hlen a ha) hla

/-- Whatever `findCollision` returns is a collision between the two lists (soundness of the search). -/
theorem find_collision_sound (H : Bytes → Bytes) (X Y : List Bytes) (a b : Bytes)
    (h : findCollision H X Y = some (a, b)) : a ∈ X ∧ b ∈ Y ∧ a ≠ b ∧ H a = H b :=
  findCollision_sound H h

/-- Idealised-hash corollary of `tree_collision_extract` (`HashOK H` = globally injective, 32-byte,
never zero; false of every real hash): the root determines the list. -/
theorem tree_inj {H : Bytes → Bytes} (hH : HashOK H) (vs ws : List Bytes) (h : tree H vs = tree H ws) : vs = ws := by
  rcases tree_collision_extract H vs ws h with e | ⟨a, _, b, _, hne, he⟩ | ⟨a, _, hz⟩ | ⟨a, _, hl⟩
  · exact e
  · exact absurd (hH.inj a b he) hne
  · exact absurd hz (hH.nonzero a)
  · exact absurd (hH.len a) hl

/-- Weak form kept for reference (corollary of `tree_collision_extract`): the alternatives range over
*all* strings, so for every real hash the second one holds by counting and the statement carries no
information. Use `tree_collision_extract` / `tree_find_collision`. -/
theorem tree_inj_or_collision (H : Bytes → Bytes) (vs ws : List Bytes) (h : tree H vs = tree H ws) :
    vs = ws ∨ (∃ a b, a ≠ b ∧ H a = H b) ∨ (∃ a, (H a).length ≠ 32) ∨ (∃ a, H a = zeroDigest) := by
  rcases tree_collision_extract H vs ws h with e | ⟨a, _, b, _, hne, he⟩ | ⟨a, _, hz⟩ | ⟨a, _, hl⟩
  · exact Or.inl e
  · exact Or.inr (Or.inl ⟨a, b, hne, he⟩)
  · exact Or.inr (Or.inr (Or.inr ⟨a, hz⟩))
  · exact Or.inr (Or.inr (Or.inl ⟨a, hl⟩))

/-- `merkle.Tree` never reaches its panic for the depth it computes. -/
theorem tree_never_panics (vs : List Bytes) : panics (depth vs.length) vs = false :=
  F3.Merkle.tree_never_panics vs

/-- **Chain-key reduction** (no hypothesis on `H`, `B`). Two chains with the same `ECChain.Key()` are the
same chain — length, order, and epoch / key / power-table CID / commitments of every tipset — or
`HashBreak H B c d` holds: among the strings hashed by the two key computations (`keyHashedH`: the
leaf strings `1 :: TipSet.MarshalForSigning` and node strings of the merkle tree; `keyHashedB`: the
CBOR-encoded tipset keys that go into the tipset CIDs) there is a keccak collision between the two
sides, a string with the zero keccak digest, a blake2b collision between the two sides, or a digest
of the wrong length. -/
theorem chainKey_collision_extract (H B : Bytes → Bytes) (c d : List TipSet)
    (hc : ∀ t ∈ c, t.WF) (hd : ∀ t ∈ d, t.WF) (h : chainKey H B c = chainKey H B d) :
    c = d ∨
    Collision H (keyHashedH H B c) (keyHashedH H B d) ∨
    ZeroPreimage H (keyHashedH H B c ++ keyHashedH H B d) ∨
    Collision B (keyHashedB c) (keyHashedB d) ∨
    WrongLen H (keyHashedH H B c ++ keyHashedH H B d) ∨
    WrongLen B (keyHashedB c ++ keyHashedB d) :=
  F3.HashInputs.chainKey_extract H B c d hc hd h

/-- The chain-key reduction at the hashes the driver executes (`F3.Codec.Hash.keccak256`,
`blake2b256`; their output length is a lemma): two *different* chains with the same key make
`findCollision` return a keccak-256 collision among the hashed merkle strings, or a blake2b-256
collision among the encoded tipset keys, or one of the hashed merkle strings is a keccak-256 preimage
of the all-zero digest. -/
theorem chainKey_collision_extract_real (c d : List TipSet) (hc : ∀ t ∈ c, t.WF) (hd : ∀ t ∈ d, t.WF)
    (h : chainKey keccak256 blake2b256 c = chainKey keccak256 blake2b256 d) (hne : c ≠ d) :
    (∃ a b, findCollision keccak256 (keyHashedH keccak256 blake2b256 c) (keyHashedH keccak256 blake2b256 d) = some (a, b) ∧
        a ≠ b ∧ keccak256 a = keccak256 b) ∨
    (∃ a b, findCollision blake2b256 (keyHashedB c) (keyHashedB d) = some (a, b) ∧
        a ≠ b ∧ blake2b256 a = blake2b256 b) ∨
    (∃ a ∈ keyHashedH keccak256 blake2b256 c ++ keyHashedH keccak256 blake2b256 d, keccak256 a = zeroDigest) := by
  rcases chainKey_collision_extract keccak256 blake2b256 c d hc hd h with e | hb
  · exact absurd e hne
  · rcases hashBreak_real hb with hk | hz | hbl
    · obtain ⟨a, b, hf, _, _, hab, he⟩ := findCollision_of_collision keccak256 hk
      exact Or.inl ⟨a, b, hf, hab, he⟩
    · exact Or.inr (Or.inr hz)
    · obtain ⟨a, b, hf, _, _, hab, he⟩ := findCollision_of_collision blake2b256 hbl
      exact Or.inr (Or.inl ⟨a, b, hf, hab, he⟩)

/-- The strings in question are genuine byte strings: for chains whose tipsets carry byte values
(every element `< 256`) and hashes with byte output — in particular the executable ones — every string
hashed by the key computation has all its elements `< 256`. So an exhibited collision is a collision
of the real function on real inputs, not an artefact of `Bytes = List Nat`. -/
theorem hashed_inputs_are_bytes (c : List TipSet)
    (hc : ∀ t ∈ c, IsBytes t.key ∧ IsBytes t.commitments ∧ IsBytes t.powerTable) :
    (∀ a ∈ keyHashedH keccak256 blake2b256 c, IsBytes a) ∧ (∀ a ∈ keyHashedB c, IsBytes a) :=
  keyHashed_isBytes keccak256 blake2b256 keccak256_isBytes blake2b256_isBytes c hc

/-- The executable hashes return 32 bytes on every input. -/
theorem real_hash_length (a : Bytes) : (keccak256 a).length = 32 ∧ (blake2b256 a).length = 32 :=
  ⟨keccak256_length a, blake2b256_length a⟩

/-- Idealised-hash corollary of `chainKey_collision_extract` (`HashOK H`, `CidHashOK B`: globally
injective; false of every real hash): the chain key determines the chain. -/
theorem chainKey_inj {H B : Bytes → Bytes} (hH : HashOK H) (hB : CidHashOK B) (c d : List TipSet)
    (hc : ∀ t ∈ c, t.WF) (hd : ∀ t ∈ d, t.WF) (h : chainKey H B c = chainKey H B d) : c = d := by
  rcases chainKey_collision_extract H B c d hc hd h with e | hb
  · exact e
  · exact absurd hb (not_hashBreak_of_ok hH hB c d)

/-- Direct, batch and cached keys agree: entry `i` of `KeysForPrefixes()` — which is also what
`AllPrefixes()` stores in the key cache of its `i`-th prefix — is `Prefix(i).Key()`. -/
theorem keys_agree (H B : Bytes → Bytes) (c : List TipSet) (i : Nat) (hi : i < c.length) :
    (keysForPrefixes H B c)[i]? = some (chainKey H B (chainPrefix c i)) :=
  keysForPrefixes_get H B c i hi

/-- Phase, round, instance and commitments of the complete signed bytes (`Payload.MarshalForSigning`)
sit at fixed offsets after the network name: for a fixed network name they are determined by the
signed bytes whatever the hashes and whatever the chains. -/
theorem signed_bytes_scalars_fixed_net (H B : Bytes → Bytes)
    (net : Bytes) (ph1 ph2 r1 r2 i1 i2 : Nat) (cm1 cm2 pt1 pt2 : Bytes) (c1 c2 : List TipSet)
    (hph : ph1 < 256 ∧ ph2 < 256) (hr : r1 < 2 ^ 64 ∧ r2 < 2 ^ 64) (hi : i1 < 2 ^ 64 ∧ i2 < 2 ^ 64)
    (hcm : cm1.length = 32 ∧ cm2.length = 32)
    (h : signedBytes H B net ph1 r1 i1 cm1 pt1 c1 = signedBytes H B net ph2 r2 i2 cm2 pt2 c2) :
    ph1 = ph2 ∧ r1 = r2 ∧ i1 = i2 ∧ cm1 = cm2 := by
  unfold signedBytes at h
  obtain ⟨e1, e2, e3, e4, _⟩ := payload_scalars_fixed_net
    (p := ⟨net, ph1, r1, i1, cm1, chainKey H B c1, pt1⟩) (q := ⟨net, ph2, r2, i2, cm2, chainKey H B c2, pt2⟩)
    hph.1 hph.2 hr.1 hr.2 hi.1 hi.2 hcm.1 hcm.2 rfl h
  exact ⟨e1, e2, e3, e4⟩

/-- **Signed-payload reduction.** The complete signed bytes as a function of network, phase, round,
instance, supplemental data and the *content of the chain*. For a fixed network name and a merkle hash
with 32-byte output (a lemma for the executable keccak-256, the `Digest` array type in Go): equal
signed bytes give equal phase, round, instance, commitments and power-table CID, and equal chains —
every tipset's epoch, key, power-table CID and commitments, the chain's length and order — unless
`HashBreak H B c1 c2` is exhibited among the strings hashed for the two chain keys. -/
theorem signed_bytes_collision_extract (H B : Bytes → Bytes) (hlen : ∀ a, (H a).length = 32)
    (net : Bytes) (ph1 ph2 r1 r2 i1 i2 : Nat) (cm1 cm2 pt1 pt2 : Bytes) (c1 c2 : List TipSet)
    (hph : ph1 < 256 ∧ ph2 < 256) (hr : r1 < 2 ^ 64 ∧ r2 < 2 ^ 64) (hi : i1 < 2 ^ 64 ∧ i2 < 2 ^ 64)
    (hcm : cm1.length = 32 ∧ cm2.length = 32) (hc1 : ∀ t ∈ c1, t.WF) (hc2 : ∀ t ∈ c2, t.WF)
    (h : signedBytes H B net ph1 r1 i1 cm1 pt1 c1 = signedBytes H B net ph2 r2 i2 cm2 pt2 c2) :
    ph1 = ph2 ∧ r1 = r2 ∧ i1 = i2 ∧ cm1 = cm2 ∧ pt1 = pt2 ∧ (c1 = c2 ∨ HashBreak H B c1 c2) :=
  signed_extract_fixed_net H B hlen net ph1 ph2 r1 r2 i1 i2 cm1 cm2 pt1 pt2 c1 c2 hph hr hi hcm hc1 hc2 h

/-- The general form, without any hypothesis on the hashes and with the side condition under which the
payload layout is injective at all (same network name, or power-table CIDs of equal length): equal
signed bytes give equal inputs — network, phase, round, instance, commitments, power-table CID, chain —
or `HashBreak H B c1 c2`. -/
theorem signed_bytes_collision_extract_side (H B : Bytes → Bytes)
    (net1 net2 : Bytes) (ph1 ph2 r1 r2 i1 i2 : Nat) (cm1 cm2 pt1 pt2 : Bytes) (c1 c2 : List TipSet)
    (hph : ph1 < 256 ∧ ph2 < 256) (hr : r1 < 2 ^ 64 ∧ r2 < 2 ^ 64) (hi : i1 < 2 ^ 64 ∧ i2 < 2 ^ 64)
    (hcm : cm1.length = 32 ∧ cm2.length = 32) (hc1 : ∀ t ∈ c1, t.WF) (hc2 : ∀ t ∈ c2, t.WF)
    (hside : net1 = net2 ∨ pt1.length = pt2.length)
    (h : signedBytes H B net1 ph1 r1 i1 cm1 pt1 c1 = signedBytes H B net2 ph2 r2 i2 cm2 pt2 c2) :
    (net1, ph1, r1, i1, cm1, pt1, c1) = (net2, ph2, r2, i2, cm2, pt2, c2) ∨ HashBreak H B c1 c2 :=
  signed_extract H B net1 net2 ph1 ph2 r1 r2 i1 i2 cm1 cm2 pt1 pt2 c1 c2 hph hr hi hcm hc1 hc2 hside h

/-- The signed-payload reduction at the hashes the driver executes: two payloads for the same network
with the same signed bytes agree on phase, round, instance, commitments and power-table CID, and on
the chain unless a keccak-256 collision, a keccak-256 preimage of the zero digest, or a blake2b-256
collision is exhibited among the strings hashed for the two chain keys. -/
theorem signed_bytes_collision_extract_real
    (net : Bytes) (ph1 ph2 r1 r2 i1 i2 : Nat) (cm1 cm2 pt1 pt2 : Bytes) (c1 c2 : List TipSet)
    (hph : ph1 < 256 ∧ ph2 < 256) (hr : r1 < 2 ^ 64 ∧ r2 < 2 ^ 64) (hi : i1 < 2 ^ 64 ∧ i2 < 2 ^ 64)
    (hcm : cm1.length = 32 ∧ cm2.length = 32) (hc1 : ∀ t ∈ c1, t.WF) (hc2 : ∀ t ∈ c2, t.WF)
    (h : signedBytes keccak256 blake2b256 net ph1 r1 i1 cm1 pt1 c1 =
         signedBytes keccak256 blake2b256 net ph2 r2 i2 cm2 pt2 c2) :
    ph1 = ph2 ∧ r1 = r2 ∧ i1 = i2 ∧ cm1 = cm2 ∧ pt1 = pt2 ∧
    (c1 = c2 ∨
     Collision keccak256 (keyHashedH keccak256 blake2b256 c1) (keyHashedH keccak256 blake2b256 c2) ∨
     ZeroPreimage keccak256 (keyHashedH keccak256 blake2b256 c1 ++ keyHashedH keccak256 blake2b256 c2) ∨
     Collision blake2b256 (keyHashedB c1) (keyHashedB c2)) := by
  obtain ⟨e1, e2, e3, e4, e5, hc⟩ := signed_bytes_collision_extract keccak256 blake2b256 keccak256_length
    net ph1 ph2 r1 r2 i1 i2 cm1 cm2 pt1 pt2 c1 c2 hph hr hi hcm hc1 hc2 h
  refine ⟨e1, e2, e3, e4, e5, ?_⟩
  rcases hc with e | hb
  · exact Or.inl e
  · exact Or.inr (hashBreak_real hb)

/-- Idealised-hash corollary of `signed_bytes_collision_extract_side` (`HashOK H`, `CidHashOK B`:
globally injective; false of every real hash): two inputs that differ anywhere — in any tipset's epoch,
key, power-table CID or commitments, in the chain's length or order, or in any scalar — and that agree
on the network name or on the CID length, are signed differently. -/
theorem signed_bytes_sensitive {H B : Bytes → Bytes} (hH : HashOK H) (hB : CidHashOK B)
    (net1 net2 : Bytes) (ph1 ph2 r1 r2 i1 i2 : Nat) (cm1 cm2 pt1 pt2 : Bytes) (c1 c2 : List TipSet)
    (hph : ph1 < 256 ∧ ph2 < 256) (hr : r1 < 2 ^ 64 ∧ r2 < 2 ^ 64) (hi : i1 < 2 ^ 64 ∧ i2 < 2 ^ 64)
    (hcm : cm1.length = 32 ∧ cm2.length = 32) (hc1 : ∀ t ∈ c1, t.WF) (hc2 : ∀ t ∈ c2, t.WF)
    (hne : (net1, ph1, r1, i1, cm1, pt1, c1) ≠ (net2, ph2, r2, i2, cm2, pt2, c2))
    (hside : net1 = net2 ∨ pt1.length = pt2.length) :
    signedBytes H B net1 ph1 r1 i1 cm1 pt1 c1 ≠ signedBytes H B net2 ph2 r2 i2 cm2 pt2 c2 := by
  intro h
  rcases signed_bytes_collision_extract_side H B net1 net2 ph1 ph2 r1 r2 i1 i2 cm1 cm2 pt1 pt2 c1 c2
    hph hr hi hcm hc1 hc2 hside h with e | hb
  · exact hne e
  · exact not_hashBreak_of_ok hH hB c1 c2 hb

/-! ## (c) codecs -/

/-- Decoding an encoding gives the value back and leaves exactly the bytes that followed it. -/
theorem decode_encode (s : Schema) (hwf : s.wf = true) (v : Value) (b rest : Bytes)
    (h : encode s v = some b) : decode s (b ++ rest) = .ok (v, rest) :=
  F3.Cbor.decode_encode s hwf v b rest h

/-- No encoding is a proper prefix of another one (streams of values need no framing). -/
theorem encode_prefix_free (s : Schema) (hwf : s.wf = true) (v1 v2 : Value) (b1 b2 t : Bytes)
    (h1 : encode s v1 = some b1) (h2 : encode s v2 = some b2) (hp : b2 = b1 ++ t) : v1 = v2 ∧ t = [] :=
  F3.Cbor.encode_prefix_free s hwf v1 v2 b1 b2 t h1 h2 hp

/-- Encoding is a function of the value (determinism) and different values have different encodings. -/
theorem encode_det (s : Schema) (hwf : s.wf = true) (v1 v2 : Value) (b1 b2 : Bytes)
    (h1 : encode s v1 = some b1) (h2 : encode s v2 = some b2) : v1 = v2 ↔ b1 = b2 := by
  constructor
  · intro hv; subst hv; rw [h1] at h2; exact Option.some.inj h2
  · intro hb; subst hb; exact F3.Cbor.encode_inj s hwf v1 v2 b1 h1 h2

/-- A length above the limit is refused from the head alone, whatever follows (nothing, in
particular): byte strings, fixed arrays, slices. -/
theorem decode_rejects_overlimit (l : Lim) (e : Schema) (a b maj n : Nat) (hm : maj < 8) (hn : n < 2 ^ 64)
    (h : n > l.dec) (rest : Bytes) :
    decode (.bytes l) (hdr maj n ++ rest) = .error .overlimit ∧
    decode (.fixed a b l) (hdr maj n ++ rest) = .error .overlimit ∧
    decode (.array l e) (hdr maj n ++ rest) = .error .overlimit :=
  ⟨decode_bytes_overlimit l maj n hm hn h rest, decode_fixed_overlimit a b l maj n hm hn h rest,
   decode_array_overlimit l e maj n hm hn h rest⟩

/-- The same for the library leaf codecs: bit fields (32 KiB), big integers (128 B), CIDs (512 B),
and the `uint8` range check. -/
theorem decode_rejects_overlimit_leaf (n : Nat) (hn : n < 2 ^ 64) (rest : Bytes) :
    (n > 32768 → ∀ maj < 8, decode .bitfield (hdr maj n ++ rest) = .error .overlimit) ∧
    (n > 128 → decode .bigint (hdr 2 n ++ rest) = .error .overlimit) ∧
    (n > 512 → decode .cid (hdr 6 42 ++ (hdr 2 n ++ rest)) = .error .overlimit) ∧
    (∀ max, n > max → decode (.uint max) (hdr 0 n ++ rest) = .error .overlimit) :=
  ⟨fun h maj hm => decode_bitfield_overlimit maj n hm hn h rest, fun h => decode_bigint_overlimit n hn h rest,
   fun h => decode_cid_overlimit n hn h rest, fun max h => decode_uint_overlimit max n hn h rest⟩

/-- Oversized input is never accepted, at any nesting depth: whatever the decoder returns has the shape
of the schema and every length in it (byte strings, slices, CIDs, bit fields, integers' ranges) is
within the limit the decoder enforces — which on the extracted table is the documented one
(`documented_is_enforced`). -/
theorem decode_accepts_only_within_limits (s : Schema) (hwf : s.wf = true) (b : Bytes) (v : Value) (rest : Bytes)
    (h : decode s b = .ok (v, rest)) : Value.within s v = true :=
  decode_ok_within s hwf b v rest h

/-- Allocation, model level: on *any* input (accepted, truncated, oversized, garbage) the requests of
the decoder (`allocReq`: every `make` of the generated code, placed after its limit check) sum to at
most `allocPerByte · |input| + staticPrealloc`: they are backed by consumed input or are one of the
finitely many limit-checked buffers. -/
theorem decode_alloc_bounded (s : Schema) (hwf : s.wf = true) (b : Bytes) :
    allocReq s b ≤ s.allocPerByte * b.length + s.staticPrealloc :=
  allocReq_le s hwf s.allocPerByte (Nat.le_refl _) b

/-- On accepted input nothing is allocated that the consumed bytes do not pay for. -/
theorem decode_alloc_backed (s : Schema) (hwf : s.wf = true) (b : Bytes) (v : Value) (r : Bytes)
    (h : decode s b = .ok (v, r)) : allocReq s b + s.allocPerByte * r.length ≤ s.allocPerByte * b.length :=
  alloc_backed s hwf s.allocPerByte (Nat.le_refl _) b v r h

/-- The facts extracted from the working tree are consistent: every generated codec has the same
limits on the encoding side, on the decoding side and in the struct tag; struct, encoder and decoder
list the fields in the same order; nothing in the generated code was left unmapped; `ECChain` goes
through `LegacyECChain`. -/
theorem schema_table_wf :
    (∀ p ∈ Gen.Schema.table, p.2.wf = true) ∧ (∀ p ∈ Gen.Schema.fieldOrderOk, p.2 = true) ∧
    Gen.Schema.problems = [] ∧ Gen.Schema.ecchainViaLegacy = true ∧ Gen.Schema.table.length = 16 := by
  decide

/-- Every wire and storage type round-trips through its generated codec. -/
theorem roundtrip_every_type (name : String) (s : Schema) (hmem : (name, s) ∈ Gen.Schema.table)
    (v : Value) (b rest : Bytes) (h : encode s v = some b) : decode s (b ++ rest) = .ok (v, rest) :=
  F3.Cbor.decode_encode s (schema_table_wf.1 (name, s) hmem) v b rest h

/-- … and for each of them the oracle's allocation bound (`Schema.allocBound`) dominates what the model
decoder can request. -/
theorem alloc_bound_every_type (name : String) (s : Schema) (hmem : (name, s) ∈ Gen.Schema.table) (b : Bytes) :
    allocReq s b ≤ s.allocBound b.length := by
  have := decode_alloc_bounded s (schema_table_wf.1 (name, s) hmem) b
  unfold Schema.allocBound; omega

/-- … and on each of them the documented limits are the enforced ones. -/
theorem documented_is_enforced (name : String) (s : Schema) (hmem : (name, s) ∈ Gen.Schema.table) :
    s.documented = s :=
  Schema.documented_eq_of_wf s (schema_table_wf.1 (name, s) hmem)

/-- The limits the property names, as found in the source now. -/
theorem documented_limits :
    Gen.Schema.gpbft_TipSet =
      .tuple 4 4 (.tcons .int64 (.tcons (.bytes ⟨760, 760, 760⟩) (.tcons .cid (.tcons (.fixed 32 32 ⟨32, 32, 32⟩) .tnil)))) ∧
    Gen.Schema.gpbft_GMessage =
      .tuple 5 5 (.tcons (.uint 18446744073709551615) (.tcons Gen.Schema.gpbft_Payload (.tcons (.bytes ⟨96, 96, 96⟩)
        (.tcons (.bytes ⟨96, 96, 96⟩) (.tcons (.nullable Gen.Schema.gpbft_Justification) .tnil))))) ∧
    Gen.Schema.gpbft_Justification =
      .tuple 3 3 (.tcons Gen.Schema.gpbft_Payload (.tcons .bitfield (.tcons (.bytes ⟨96, 96, 96⟩) .tnil))) ∧
    Gen.Schema.gpbft_PowerEntry =
      .tuple 3 3 (.tcons (.uint 18446744073709551615) (.tcons .bigint (.tcons (.bytes ⟨48, 48, 48⟩) .tnil))) ∧
    Gen.Schema.gpbft_PartialGMessage =
      .tuple 2 2 (.tcons (.nullable Gen.Schema.gpbft_GMessage) (.tcons (.fixed 32 32 ⟨32, 32, 32⟩) .tnil)) ∧
    Gen.Schema.tipsetKeyMaxLen = 760 ∧ Gen.Schema.chainMaxLen = 128 ∧ Gen.Schema.cidMaxLen = 38 ∧
    Gen.Schema.digestLength = 32 ∧ Gen.Schema.maxDecompressedSize = 1048576 := by
  decide

/-- The domain-separation tags of the source are the ones the payload model writes. -/
theorem domain_tags_match :
    Gen.Schema.domainSeparationTag = Payload.domainTag ∧
    Gen.Schema.domainSeparationTagVRF = Payload.domainTagVRF := by
  decide

/-- Through the compressing codec: if zstd inverts itself on inputs up to the cap, values round-trip. -/
theorem zstd_roundtrip (z : Zstd) (hz : ∀ x, x.length ≤ z.cap → z.decompress (z.compress x) = some x)
    (s : Schema) (hwf : s.wf = true) (v : Value) (c : Bytes) (h : z.encode s v = some c) :
    z.decode s c = .ok (v, []) :=
  Zstd.decode_encode z hz s hwf v c h

/-- `ZSTD.Encode` only emits frames whose content the bounded decoder is allowed to expand. -/
theorem zstd_encode_within_cap (z : Zstd) (s : Schema) (v : Value) (c : Bytes) (h : z.encode s v = some c) :
    ∃ b, encode s v = some b ∧ b.length ≤ z.cap ∧ c = z.compress b :=
  Zstd.encode_within_cap z s v c h

/-! ## non-vacuity -/

/-! ### the idealised-hash corollaries

An injective "hash" with 32-element, non-zero output exists in the model (`F3.Codec.demoHash`) only
because `Bytes = List Nat` has infinitely many 32-element lists; this shows the hypotheses `HashOK` /
`CidHashOK` of the idealised corollaries consistent, nothing more. -/

example : HashOK demoHash :=
  ⟨fun a b h => by
      simp only [demoHash, List.cons.injEq, and_true] at h
      exact Encodable.encode_injective (by omega),
   fun a => by simp [demoHash],
   fun a h => by
      simp only [demoHash, zeroDigest] at h
      have := List.head_eq_of_cons_eq (h.trans (by rfl : List.replicate 32 0 = 0 :: List.replicate 31 0))
      omega⟩

example : CidHashOK demoHash :=
  ⟨fun a b h => by
      simp only [demoHash, List.cons.injEq, and_true] at h
      exact Encodable.encode_injective (by omega),
   fun a => by simp [demoHash]⟩

/-! ### the reductions at the executable hashes -/

/-- `tree_find_collision` instantiated with the executable keccak-256: the length side condition is
discharged by `keccak256_length`; what remains is "no hashed string has the zero digest", a finite
decidable check on the two lists. -/
example (vs ws : List Bytes) (h : tree keccak256 vs = tree keccak256 ws) (hne : vs ≠ ws)
    (hz : ∀ a ∈ hashed keccak256 vs ++ hashed keccak256 ws, keccak256 a ≠ zeroDigest) :
    ∃ a b, findCollision keccak256 (hashed keccak256 vs) (hashed keccak256 ws) = some (a, b) ∧
      a ≠ b ∧ keccak256 a = keccak256 b := by
  obtain ⟨a, b, hf, _, _, hab, he⟩ :=
    tree_find_collision keccak256 vs ws h hne hz (fun a _ => keccak256_length a)
  exact ⟨a, b, hf, hab, he⟩

/-- the global hypothesis of `signed_bytes_collision_extract` holds of the executable keccak-256 -/
example : ∀ a, (keccak256 a).length = 32 := keccak256_length

/-! ### the reductions evaluated (toy hash, see `F3.Codec.toyHash`)

The hypotheses "same root / same key / same signed bytes, different inputs" cannot be exhibited for
keccak-256 or blake2b-256 — that would be a break of the hash — so the branch of the reductions that
returns a collision is exercised with `toyHash`, whose collisions are known. -/

/-- the global hypothesis of `signed_bytes_collision_extract` holds of the toy hash -/
example : ∀ a, (toyHash a).length = 32 := by simp [toyHash]

open F3.Codec.Demo

/-- the tipsets used below are well-typed -/
example : ∀ t ∈ [tsA, tsA', tsA'', tsB, tsB'], t.WF := by
  intro t ht
  simp only [List.mem_cons, List.not_mem_nil, or_false] at ht
  rcases ht with rfl | rfl | rfl | rfl | rfl <;> exact ⟨by norm_num [tsA, tsA', tsA'', tsB, tsB'], by decide⟩

/-- all hypotheses of `tree_find_collision` hold of a concrete pair of different lists, and the search
returns the collision between the two leaf strings -/
example :
    tree toyHash [[1, 2], [3]] = tree toyHash [[2, 1], [3]] ∧ [[1, 2], [3]] ≠ [[2, 1], [3]] ∧
    (∀ a ∈ hashed toyHash [[1, 2], [3]] ++ hashed toyHash [[2, 1], [3]], toyHash a ≠ zeroDigest) ∧
    (∀ a ∈ hashed toyHash [[1, 2], [3]] ++ hashed toyHash [[2, 1], [3]], (toyHash a).length = 32) ∧
    findCollision toyHash (hashed toyHash [[1, 2], [3]]) (hashed toyHash [[2, 1], [3]]) = some ([1, 1, 2], [1, 2, 1]) := by
  decide +kernel

/-- a change of length: one value against three gives different roots -/
example : tree toyHash [[1, 2]] ≠ tree toyHash [[1, 2], [3], [4]] := by decide +kernel

/-- two different chains (first tipset key `[1,2,3]` / `[3,2,1]`) with the same chain key: the
hypotheses of `chainKey_collision_extract` hold and the exhibited failure is the collision of the CID
hash on the two encoded tipset keys -/
example :
    chainKey toyHash toyHash [tsA, tsB] = chainKey toyHash toyHash [tsA', tsB] ∧ [tsA, tsB] ≠ [tsA', tsB] ∧
    findCollision toyHash (keyHashedB [tsA, tsB]) (keyHashedB [tsA', tsB]) = some ([67, 1, 2, 3], [67, 3, 2, 1]) := by
  decide +kernel

/-- … and a pair that differs in a power-table CID: the exhibited failure is a collision of the merkle
hash on the two leaf strings -/
example :
    chainKey toyHash toyHash [tsA, tsB] = chainKey toyHash toyHash [tsA'', tsB] ∧ [tsA, tsB] ≠ [tsA'', tsB] ∧
    (findCollision toyHash (keyHashedH toyHash toyHash [tsA, tsB]) (keyHashedH toyHash toyHash [tsA'', tsB])).isSome = true ∧
    findCollision toyHash (keyHashedB [tsA, tsB]) (keyHashedB [tsA'', tsB]) = none := by
  decide +kernel

/-- distinct chains whose keys differ (a changed tipset key; a changed length), and on which the
decidable event `HashBreak` evaluates to false -/
example :
    chainKey toyHash toyHash [tsA, tsB] ≠ chainKey toyHash toyHash [tsA, tsB'] ∧
    chainKey toyHash toyHash [tsA, tsB, tsA] ≠ chainKey toyHash toyHash [tsA, tsB] ∧
    ¬ HashBreak toyHash toyHash [tsA, tsB] [tsA, tsB'] := by
  decide +kernel

/-- the hypotheses of `signed_bytes_collision_extract` hold of two payloads with different chains and the
same signed bytes -/
example :
    signedBytes toyHash toyHash [102] 3 7 12 (List.replicate 32 1) [1, 113, 0, 0] [tsA, tsB] =
    signedBytes toyHash toyHash [102] 3 7 12 (List.replicate 32 1) [1, 113, 0, 0] [tsA', tsB] ∧
    HashBreak toyHash toyHash [tsA, tsB] [tsA', tsB] := by
  decide +kernel

/-- the hypothesis of `hashed_inputs_are_bytes` holds of a concrete chain -/
example : ∀ t ∈ [tsA, tsB], IsBytes t.key ∧ IsBytes t.commitments ∧ IsBytes t.powerTable := by
  unfold IsBytes; decide

/-! ### well-typed inputs and codec values exist -/

example : SigInput.WF ⟨[102], 3, 7, 12, List.replicate 32 1, List.replicate 32 2, [1, 113, 0, 0]⟩ :=
  ⟨by decide, by norm_num, by norm_num, by decide, by decide⟩

example : TipSet.WF ⟨-5, [1, 2, 3], [1, 113, 0, 0], List.replicate 32 9⟩ :=
  ⟨by norm_num, by decide⟩

/-- a concrete tipset value is in the domain of the extracted `TipSet` codec and round-trips -/
example : encode Gen.Schema.gpbft_TipSet
    (.cons (.int (-3)) (.cons (.bytes [1, 2, 3]) (.cons (.bytes [1, 113, 0, 2, 7, 7]) (.cons (.bytes (List.replicate 32 9)) .nil)))) =
    some ([132, 34, 67, 1, 2, 3, 216, 42, 71, 0, 1, 113, 0, 2, 7, 7, 88, 32] ++ List.replicate 32 9) := by
  decide

/-- an over-limit head exists for every finite limit: the hypotheses of `decode_rejects_overlimit` are satisfiable -/
example : decode (.bytes ⟨760, 760, 760⟩) (hdr 2 761) = .error .overlimit := by decide

end F3.Props.C14
