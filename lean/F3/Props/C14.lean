import F3.Proofs.CodecBytes
import F3.Proofs.CodecMerkle
import F3.Proofs.CodecPayload
import F3.Proofs.CodecCbor
import F3.Proofs.CodecAlloc
import F3.Gen.Schema
import F3.Proofs.CodecDemo
/-!
# C14 — Encodings: signed bytes bind every field, chain keys agree, codecs round-trip

Models: `F3.Payload` (signing payload, tipset, VRF input, chain key), `F3.Merkle` (`Tree`,
`BatchTree`), `F3.Cbor` (generic cbor-gen codec) over the schema table `F3.Gen.Schema`, which is
re-extracted from the Go struct definitions, cborgen tags and generated limits on every run. The
driver `Driver/Codec.lean` executes these same definitions against the implementation.

Hash functions are parameters. `HashOK H` (keccak-256) and `CidHashOK B` (blake2b-256) say:
collision-free, 32-byte output, (keccak) never the zero digest. `tree_inj_or_collision` gives the
collision-extraction form that needs no such hypothesis.

Runtime sub-claim NOT proved here (validated by the malformed stream of `h_codec` only): that the
*Go* decoders and zstd do not panic and that the Go allocator's measured total stays below
`Schema.allocBound`. What is proved is the model-level counterpart (`decode_alloc_bounded`): the
`make` requests of the decoder model, which mirrors the generated code's check-then-allocate order.
-/
namespace F3.Props.C14
open F3.Codec F3.Merkle F3.Payload F3.Cbor

/-! ## (a) what is signed -/

/-- For a fixed network name the bytes of `MarshalForSigningWithValueKey` determine phase, round,
instance, commitments, chain key and power-table CID (no assumption on the CID's length). -/
theorem payload_inj_fixed_net {p q : SigInput} (hp : p.WF) (hq : q.WF) (hnet : p.net = q.net)
    (h : payloadBytes p = payloadBytes q) : p = q :=
  F3.Payload.payload_inj_fixed_net hp hq hnet h

/-- With power-table CIDs of equal length the bytes determine *all* fields, network name included. -/
theorem payload_inj_cidlen {p q : SigInput} (hp : p.WF) (hq : q.WF) (hcid : p.ptCid.length = q.ptCid.length)
    (h : payloadBytes p = payloadBytes q) : p = q :=
  F3.Payload.payload_inj_cidlen hp hq hcid h

/-- Single-field sensitivity: two different inputs that agree on the network name, or whose CIDs have
the same length, never give the same signed bytes. Every change of exactly one field is covered. -/
theorem payload_sensitive {p q : SigInput} (hp : p.WF) (hq : q.WF) (hne : p ≠ q)
    (hside : p.net = q.net ∨ p.ptCid.length = q.ptCid.length) : payloadBytes p ≠ payloadBytes q :=
  F3.Payload.payload_sensitive hp hq hne hside

/-- Changing only the network name changes the signed bytes. -/
theorem payload_net_sensitive (p : SigInput) (hp : p.WF) (net' : Bytes) (hne : net' ≠ p.net) :
    payloadBytes { p with net := net' } ≠ payloadBytes p := by
  apply F3.Payload.payload_sensitive (p := { p with net := net' }) (q := p)
    ⟨hp.phase, hp.round, hp.inst, hp.commitments, hp.key⟩ hp
  · intro h; exact hne (congrArg SigInput.net h)
  · exact Or.inr rfl

/-- The caveat is real: network name and power-table CID are two variable-length fields separated by
fixed-width data only, so when the CID lengths differ two different inputs can collide. -/
theorem payload_not_jointly_injective :
    ∃ p q : SigInput, p.WF ∧ q.WF ∧ p ≠ q ∧ payloadBytes p = payloadBytes q := by
  refine ⟨⟨[97], 58, 0, 0, List.replicate 32 0, List.replicate 32 0, [0]⟩,
          ⟨[97, 58], 0, 0, 0, List.replicate 32 0, List.replicate 32 0, []⟩, ?_, ?_, ?_, ?_⟩
  · exact ⟨by decide, by norm_num, by norm_num, by decide, by decide⟩
  · exact ⟨by decide, by norm_num, by norm_num, by decide, by decide⟩
  · decide
  · decide

/-- `TipSet.MarshalForSigning` determines epoch, commitments, tipset key and power-table CID. -/
theorem tipset_inj {B : Bytes → Bytes} (hB : CidHashOK B) {s t : TipSet} (hs : s.WF) (ht : t.WF)
    (h : tipsetBytes B s = tipsetBytes B t) : s = t :=
  F3.Payload.tipset_inj hB hs ht h

/-- The VRF input determines beacon, instance and round for a fixed network name. -/
theorem vrf_inj_fixed_net {v w : VrfInput} (hv : v.WF) (hw : w.WF) (hnet : v.net = w.net)
    (h : vrfBytes v = vrfBytes w) : v = w :=
  F3.Payload.vrf_inj_fixed_net hv hw hnet h

/-- With beacons of equal length it determines the network name too. -/
theorem vrf_inj_beaconlen {v w : VrfInput} (hv : v.WF) (hw : w.WF) (hlen : v.beacon.length = w.beacon.length)
    (h : vrfBytes v = vrfBytes w) : v = w :=
  F3.Payload.vrf_inj_beaconlen hv hw hlen h

/-- Changing any one of beacon, instance, round, network name changes the VRF input. -/
theorem vrf_sensitive {v w : VrfInput} (hv : v.WF) (hw : w.WF) (hne : v ≠ w)
    (hside : v.net = w.net ∨ v.beacon.length = w.beacon.length) : vrfBytes v ≠ vrfBytes w :=
  F3.Payload.vrf_sensitive hv hw hne hside

/-- Network name and beacon meet at a `:` and are not jointly determined. -/
theorem vrf_not_jointly_injective : ∃ v w : VrfInput, v.WF ∧ w.WF ∧ v ≠ w ∧ vrfBytes v = vrfBytes w := by
  refine ⟨⟨[97], [98, 58, 99], 0, 0⟩, ⟨[97, 58, 98], [99], 0, 0⟩, ?_, ?_, ?_, ?_⟩
  · exact ⟨by norm_num, by norm_num⟩
  · exact ⟨by norm_num, by norm_num⟩
  · decide
  · decide

/-! ## (b) chain keys -/

/-- `merkle.BatchTree(values)[k] = merkle.Tree(values[:k+1])` for every list and every `k`. -/
theorem batch_eq_tree (H : Bytes → Bytes) (vs : List Bytes) (k : Nat) (hk : k < vs.length) :
    (batchTree H vs)[k]? = some (tree H (vs.take (k + 1))) :=
  batchTree_get H vs k hk

/-- The root determines the list: number, order and content of the values. -/
theorem tree_inj {H : Bytes → Bytes} (hH : HashOK H) (vs ws : List Bytes) (h : tree H vs = tree H ws) : vs = ws :=
  F3.Merkle.tree_inj H hH vs ws h

/-- The same without idealising the hash: equal roots of different lists yield a hash collision, a
non-32-byte digest or a preimage of the zero digest. -/
theorem tree_inj_or_collision (H : Bytes → Bytes) (vs ws : List Bytes) (h : tree H vs = tree H ws) :
    vs = ws ∨ (∃ a b, a ≠ b ∧ H a = H b) ∨ (∃ a, (H a).length ≠ 32) ∨ (∃ a, H a = zeroDigest) := by
  by_cases h1 : ∃ a b, a ≠ b ∧ H a = H b
  · exact Or.inr (Or.inl h1)
  · by_cases h2 : ∃ a, (H a).length ≠ 32
    · exact Or.inr (Or.inr (Or.inl h2))
    · by_cases h3 : ∃ a, H a = zeroDigest
      · exact Or.inr (Or.inr (Or.inr h3))
      · left
        refine F3.Merkle.tree_inj H ⟨?_, ?_, ?_⟩ vs ws h
        · intro a b hab; by_contra hne; exact h1 ⟨a, b, hne, hab⟩
        · intro a; by_contra hne; exact h2 ⟨a, hne⟩
        · intro a hz; exact h3 ⟨a, hz⟩

/-- `merkle.Tree` never reaches its panic for the depth it computes. -/
theorem tree_never_panics (vs : List Bytes) : panics (depth vs.length) vs = false :=
  F3.Merkle.tree_never_panics vs

/-- The chain key determines the chain: length, order, and epoch / key / power-table CID / commitments
of every tipset. -/
theorem chainKey_inj {H B : Bytes → Bytes} (hH : HashOK H) (hB : CidHashOK B) (c d : List TipSet)
    (hc : ∀ t ∈ c, t.WF) (hd : ∀ t ∈ d, t.WF) (h : chainKey H B c = chainKey H B d) : c = d :=
  F3.Payload.chainKey_inj hH hB c d hc hd h

/-- Direct, batch and cached keys agree: entry `i` of `KeysForPrefixes()` — which is also what
`AllPrefixes()` stores in the key cache of its `i`-th prefix — is `Prefix(i).Key()`. -/
theorem keys_agree (H B : Bytes → Bytes) (c : List TipSet) (i : Nat) (hi : i < c.length) :
    (keysForPrefixes H B c)[i]? = some (chainKey H B (chainPrefix c i)) :=
  keysForPrefixes_get H B c i hi

/-- The complete signed bytes (`Payload.MarshalForSigning`) as a function of network, phase, round,
instance, supplemental data and the *content of the chain*: two inputs that differ anywhere — in any
tipset's epoch, key, power-table CID or commitments, in the chain's length or order, or in any scalar —
and that agree on the network name or on the CID length, are signed differently. -/
theorem signed_bytes_sensitive {H B : Bytes → Bytes} (hH : HashOK H) (hB : CidHashOK B)
    (net1 net2 : Bytes) (ph1 ph2 r1 r2 i1 i2 : Nat) (cm1 cm2 pt1 pt2 : Bytes) (c1 c2 : List TipSet)
    (hph : ph1 < 256 ∧ ph2 < 256) (hr : r1 < 2 ^ 64 ∧ r2 < 2 ^ 64) (hi : i1 < 2 ^ 64 ∧ i2 < 2 ^ 64)
    (hcm : cm1.length = 32 ∧ cm2.length = 32) (hc1 : ∀ t ∈ c1, t.WF) (hc2 : ∀ t ∈ c2, t.WF)
    (hne : (net1, ph1, r1, i1, cm1, pt1, c1) ≠ (net2, ph2, r2, i2, cm2, pt2, c2))
    (hside : net1 = net2 ∨ pt1.length = pt2.length) :
    signedBytes H B net1 ph1 r1 i1 cm1 pt1 c1 ≠ signedBytes H B net2 ph2 r2 i2 cm2 pt2 c2 := by
  intro h
  unfold signedBytes at h
  have w1 : SigInput.WF ⟨net1, ph1, r1, i1, cm1, chainKey H B c1, pt1⟩ :=
    ⟨hph.1, hr.1, hi.1, hcm.1, chainKey_length hH c1⟩
  have w2 : SigInput.WF ⟨net2, ph2, r2, i2, cm2, chainKey H B c2, pt2⟩ :=
    ⟨hph.2, hr.2, hi.2, hcm.2, chainKey_length hH c2⟩
  have heq : (⟨net1, ph1, r1, i1, cm1, chainKey H B c1, pt1⟩ : SigInput) = ⟨net2, ph2, r2, i2, cm2, chainKey H B c2, pt2⟩ := by
    rcases hside with hn | hl
    · exact F3.Payload.payload_inj_fixed_net w1 w2 hn h
    · exact F3.Payload.payload_inj_cidlen w1 w2 hl h
  simp only [SigInput.mk.injEq] at heq
  obtain ⟨e1, e2, e3, e4, e5, e6, e7⟩ := heq
  have ec := F3.Payload.chainKey_inj hH hB c1 c2 hc1 hc2 e6
  exact hne (by rw [e1, e2, e3, e4, e5, e7, ec])

/-! ## (c) codecs -/

/-- Decoding an encoding gives the value back and leaves exactly the bytes that followed it. -/
theorem decode_encode (s : Schema) (hwf : s.wf = true) (v : Value) (b rest : Bytes)
    (h : encode s v = some b) : decode s (b ++ rest) = .ok (v, rest) :=
  F3.Cbor.decode_encode s hwf v b rest h

/-- No encoding is a proper prefix of another one (streams of values need no framing). -/
theorem encode_prefix_free (s : Schema) (hwf : s.wf = true) (v1 v2 : Value) (b1 b2 t : Bytes)
    (h1 : encode s v1 = some b1) (h2 : encode s v2 = some b2) (hp : b2 = b1 ++ t) : v1 = v2 ∧ t = [] :=
  F3.Cbor.encode_prefix_free s hwf v1 v2 b1 b2 t h1 h2 hp

/-- Encoding is a function of the value (determinism) and different values have different encodings. -/
theorem encode_det (s : Schema) (hwf : s.wf = true) (v1 v2 : Value) (b1 b2 : Bytes)
    (h1 : encode s v1 = some b1) (h2 : encode s v2 = some b2) : v1 = v2 ↔ b1 = b2 := by
  constructor
  · intro hv; subst hv; rw [h1] at h2; exact Option.some.inj h2
  · intro hb; subst hb; exact F3.Cbor.encode_inj s hwf v1 v2 b1 h1 h2

/-- A length above the limit is refused from the head alone, whatever follows (nothing, in
particular): byte strings, fixed arrays, slices. -/
theorem decode_rejects_overlimit (l : Lim) (e : Schema) (a b maj n : Nat) (hm : maj < 8) (hn : n < 2 ^ 64)
    (h : n > l.dec) (rest : Bytes) :
    decode (.bytes l) (hdr maj n ++ rest) = .error .overlimit ∧
    decode (.fixed a b l) (hdr maj n ++ rest) = .error .overlimit ∧
    decode (.array l e) (hdr maj n ++ rest) = .error .overlimit :=
  ⟨decode_bytes_overlimit l maj n hm hn h rest, decode_fixed_overlimit a b l maj n hm hn h rest,
   decode_array_overlimit l e maj n hm hn h rest⟩

/-- The same for the library leaf codecs: bit fields (32 KiB), big integers (128 B), CIDs (512 B),
and the `uint8` range check. -/
theorem decode_rejects_overlimit_leaf (n : Nat) (hn : n < 2 ^ 64) (rest : Bytes) :
    (n > 32768 → ∀ maj < 8, decode .bitfield (hdr maj n ++ rest) = .error .overlimit) ∧
    (n > 128 → decode .bigint (hdr 2 n ++ rest) = .error .overlimit) ∧
    (n > 512 → decode .cid (hdr 6 42 ++ (hdr 2 n ++ rest)) = .error .overlimit) ∧
    (∀ max, n > max → decode (.uint max) (hdr 0 n ++ rest) = .error .overlimit) :=
  ⟨fun h maj hm => decode_bitfield_overlimit maj n hm hn h rest, fun h => decode_bigint_overlimit n hn h rest,
   fun h => decode_cid_overlimit n hn h rest, fun max h => decode_uint_overlimit max n hn h rest⟩

/-- Oversized input is never accepted, at any nesting depth: whatever the decoder returns has the shape
of the schema and every length in it (byte strings, slices, CIDs, bit fields, integers' ranges) is
within the limit the decoder enforces — which on the extracted table is the documented one
(`documented_is_enforced`). -/
theorem decode_accepts_only_within_limits (s : Schema) (hwf : s.wf = true) (b : Bytes) (v : Value) (rest : Bytes)
    (h : decode s b = .ok (v, rest)) : Value.within s v = true :=
  decode_ok_within s hwf b v rest h

/-- Allocation, model level: on *any* input (accepted, truncated, oversized, garbage) the requests of
the decoder (`allocReq`: every `make` of the generated code, placed after its limit check) sum to at
most `allocPerByte · |input| + staticPrealloc`: they are backed by consumed input or are one of the
finitely many limit-checked buffers. -/
theorem decode_alloc_bounded (s : Schema) (hwf : s.wf = true) (b : Bytes) :
    allocReq s b ≤ s.allocPerByte * b.length + s.staticPrealloc :=
  allocReq_le s hwf s.allocPerByte (Nat.le_refl _) b

/-- On accepted input nothing is allocated that the consumed bytes do not pay for. -/
theorem decode_alloc_backed (s : Schema) (hwf : s.wf = true) (b : Bytes) (v : Value) (r : Bytes)
    (h : decode s b = .ok (v, r)) : allocReq s b + s.allocPerByte * r.length ≤ s.allocPerByte * b.length :=
  alloc_backed s hwf s.allocPerByte (Nat.le_refl _) b v r h

/-- The facts extracted from the working tree are consistent: every generated codec has the same
limits on the encoding side, on the decoding side and in the struct tag; struct, encoder and decoder
list the fields in the same order; nothing in the generated code was left unmapped; `ECChain` goes
through `LegacyECChain`. -/
theorem schema_table_wf :
    (∀ p ∈ Gen.Schema.table, p.2.wf = true) ∧ (∀ p ∈ Gen.Schema.fieldOrderOk, p.2 = true) ∧
    Gen.Schema.problems = [] ∧ Gen.Schema.ecchainViaLegacy = true ∧ Gen.Schema.table.length = 16 := by
  decide

/-- Every wire and storage type round-trips through its generated codec. -/
theorem roundtrip_every_type (name : String) (s : Schema) (hmem : (name, s) ∈ Gen.Schema.table)
    (v : Value) (b rest : Bytes) (h : encode s v = some b) : decode s (b ++ rest) = .ok (v, rest) :=
  F3.Cbor.decode_encode s (schema_table_wf.1 (name, s) hmem) v b rest h

/-- … and for each of them the oracle's allocation bound (`Schema.allocBound`) dominates what the model
decoder can request. -/
theorem alloc_bound_every_type (name : String) (s : Schema) (hmem : (name, s) ∈ Gen.Schema.table) (b : Bytes) :
    allocReq s b ≤ s.allocBound b.length := by
  have := decode_alloc_bounded s (schema_table_wf.1 (name, s) hmem) b
  unfold Schema.allocBound; omega

/-- … and on each of them the documented limits are the enforced ones. -/
theorem documented_is_enforced (name : String) (s : Schema) (hmem : (name, s) ∈ Gen.Schema.table) :
    s.documented = s :=
  Schema.documented_eq_of_wf s (schema_table_wf.1 (name, s) hmem)

/-- The limits the property names, as found in the source now. -/
theorem documented_limits :
    Gen.Schema.gpbft_TipSet =
      .tuple 4 4 (.tcons .int64 (.tcons (.bytes ⟨760, 760, 760⟩) (.tcons .cid (.tcons (.fixed 32 32 ⟨32, 32, 32⟩) .tnil)))) ∧
    Gen.Schema.gpbft_GMessage =
      .tuple 5 5 (.tcons (.uint 18446744073709551615) (.tcons Gen.Schema.gpbft_Payload (.tcons (.bytes ⟨96, 96, 96⟩)
        (.tcons (.bytes ⟨96, 96, 96⟩) (.tcons (.nullable Gen.Schema.gpbft_Justification) .tnil))))) ∧
    Gen.Schema.gpbft_Justification =
      .tuple 3 3 (.tcons Gen.Schema.gpbft_Payload (.tcons .bitfield (.tcons (.bytes ⟨96, 96, 96⟩) .tnil))) ∧
    Gen.Schema.gpbft_PowerEntry =
      .tuple 3 3 (.tcons (.uint 18446744073709551615) (.tcons .bigint (.tcons (.bytes ⟨48, 48, 48⟩) .tnil))) ∧
    Gen.Schema.gpbft_PartialGMessage =
      .tuple 2 2 (.tcons (.nullable Gen.Schema.gpbft_GMessage) (.tcons (.fixed 32 32 ⟨32, 32, 32⟩) .tnil)) ∧
    Gen.Schema.tipsetKeyMaxLen = 760 ∧ Gen.Schema.chainMaxLen = 128 ∧ Gen.Schema.cidMaxLen = 38 ∧
    Gen.Schema.digestLength = 32 ∧ Gen.Schema.maxDecompressedSize = 1048576 := by
  decide

/-- The domain-separation tags of the source are the ones the payload model writes. -/
theorem domain_tags_match :
    Gen.Schema.domainSeparationTag = Payload.domainTag ∧
    Gen.Schema.domainSeparationTagVRF = Payload.domainTagVRF := by
  decide

/-- Through the compressing codec: if zstd inverts itself on inputs up to the cap, values round-trip. -/
theorem zstd_roundtrip (z : Zstd) (hz : ∀ x, x.length ≤ z.cap → z.decompress (z.compress x) = some x)
    (s : Schema) (hwf : s.wf = true) (v : Value) (c : Bytes) (h : z.encode s v = some c) :
    z.decode s c = .ok (v, []) :=
  Zstd.decode_encode z hz s hwf v c h

/-- `ZSTD.Encode` only emits frames whose content the bounded decoder is allowed to expand. -/
theorem zstd_encode_within_cap (z : Zstd) (s : Schema) (v : Value) (c : Bytes) (h : z.encode s v = some c) :
    ∃ b, encode s v = some b ∧ b.length ≤ z.cap ∧ c = z.compress b :=
  Zstd.encode_within_cap z s v c h

/-! ## non-vacuity -/

/-! an injective "hash" with 32-element, non-zero output exists in the model (`F3.Codec.demoHash`) -/

example : HashOK demoHash :=
  ⟨fun a b h => by
      simp only [demoHash, List.cons.injEq, and_true] at h
      exact Encodable.encode_injective (by omega),
   fun a => by simp [demoHash],
   fun a h => by
      simp only [demoHash, zeroDigest] at h
      have := List.head_eq_of_cons_eq (h.trans (by rfl : List.replicate 32 0 = 0 :: List.replicate 31 0))
      omega⟩

example : CidHashOK demoHash :=
  ⟨fun a b h => by
      simp only [demoHash, List.cons.injEq, and_true] at h
      exact Encodable.encode_injective (by omega),
   fun a => by simp [demoHash]⟩

example : SigInput.WF ⟨[102], 3, 7, 12, List.replicate 32 1, List.replicate 32 2, [1, 113, 0, 0]⟩ :=
  ⟨by decide, by norm_num, by norm_num, by decide, by decide⟩

example : TipSet.WF ⟨-5, [1, 2, 3], [1, 113, 0, 0], List.replicate 32 9⟩ :=
  ⟨by norm_num, by decide⟩

/-- a concrete tipset value is in the domain of the extracted `TipSet` codec and round-trips -/
example : encode Gen.Schema.gpbft_TipSet
    (.cons (.int (-3)) (.cons (.bytes [1, 2, 3]) (.cons (.bytes [1, 113, 0, 2, 7, 7]) (.cons (.bytes (List.replicate 32 9)) .nil)))) =
    some ([132, 34, 67, 1, 2, 3, 216, 42, 71, 0, 1, 113, 0, 2, 7, 7, 88, 32] ++ List.replicate 32 9) := by
  decide

/-- an over-limit head exists for every finite limit: the hypotheses of `decode_rejects_overlimit` are satisfiable -/
example : decode (.bytes ⟨760, 760, 760⟩) (hdr 2 761) = .error .overlimit := by decide

end F3.Props.C14
