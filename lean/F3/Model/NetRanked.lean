import F3.Model.Net
/-!
# The network of honest model participants, with CONVERGE tickets (`NetRanked`)

`F3.Net` (`F3/Model/Net.lean`) turns every `Eff.broadcast` into a wire message with `rank := 0`; it is only used for
round 0, where no CONVERGE is sent. From round 1 on the order of the CONVERGE tickets decides which value everybody
PREPAREs: `Conv.findBest` keeps the value with the *lowest* rank (`rankLt`, strict — on a tie the value inserted first
wins, and the first value a node inserts is its own, `Conv.setSelf`, whose rank `none` = `+Inf` is overwritten when the
node is handed its own CONVERGE). With all ranks equal every node keeps its own value and no round converges.

Here the ticket of participant `p` for round `r` has rank `rankOf p r` (a parameter: in Go the rank is
`ComputeTicketRank(VRF ticket, power)`, a function of the sender, the round, the instance and the beacon — not of the
value). Everything else — the `Net` record and its ghost fields, the events `NetOp`, admissibility `opOk` — is
`F3.Net`'s; `netStepR rankOf` differs from `Net.netStep` only in the rank stamped on CONVERGE broadcasts.
-/
namespace F3.NetRanked
open F3.Instance F3.Net

/-- the wire message a broadcast effect of node `p` becomes: as `Net.msgOf`, CONVERGE carrying `p`'s ticket rank for
the round -/
def msgOfR (rankOf : Pid → Nat → Nat) (p : Pid) : Eff → Option Msg
  | .broadcast r ph v _ j =>
    some { sender := p, round := r, phase := ph, value := v, rank := if ph == .converge then rankOf p r else 0, just := j }
  | _ => none

def sentR (rankOf : Pid → Nat → Nat) (p : Pid) (es : List Eff) : List Msg := es.filterMap (msgOfR rankOf p)

/-- `Net.apply` with ranked CONVERGE messages -/
def applyR (rankOf : Pid → Nat → Nat) (n : Net) (p : Pid) (s : State) (op : Op) : Net :=
  let r := step s op
  { n with nodes := setNode n.nodes p r.1, pool := n.pool ++ sentR rankOf p r.2, fails := n.fails ++ failuresOf p r.2 }

/-- `Net.netStep` with ranked CONVERGE messages -/
def netStepR (rankOf : Pid → Nat → Nat) (n : Net) : NetOp → Net
  | .start p now =>
    match n.node? p with
    | none => n
    | some s => applyR rankOf { n with started := n.started ++ [p] } p s (.start now)
  | .deliver p now m =>
    match n.node? p with
    | none => n
    | some s =>
      let n1 := { n with delivered := n.delivered ++ [(p, m)] }
      if s.phase == .terminated then n1 else applyR rankOf n1 p s (.recv now m)
  | .alarm p now =>
    match n.node? p with
    | none => n
    | some s =>
      let n1 := if s.phase == .quality && s.phaseTimeoutElapsed now then { n with fired := n.fired ++ [p] } else n
      applyR rankOf n1 p s (.alarm now)

def runNetR (rankOf : Pid → Nat → Nat) (n : Net) (ops : List NetOp) : Net := ops.foldl (netStepR rankOf) n

/-- admissible executions: `Net.opOk` at every event (only pool messages are delivered: no faulty sender, and a
delivered CONVERGE carries the rank its sender's ticket has) -/
def execOkR (rankOf : Pid → Nat → Nat) (n : Net) : List NetOp → Bool
  | [] => true
  | op :: ops => opOk n op && execOkR rankOf (netStepR rankOf n op) ops

/-- hand every pool message of `(round, phase)` to every node of `targets` (the pool is read when the list is built) -/
def floodOps (n : Net) (now : Int) (targets : List Pid) (r : Nat) (ph : Phase) : List NetOp :=
  targets.flatMap (fun p => (n.pool.filter (fun m => m.round == r && m.phase == ph)).map (fun m => NetOp.deliver p now m))

/-- run a script of stages, each stage computing its events from the network it finds; returns the final network and
the events executed -/
def runScript (rankOf : Pid → Nat → Nat) (n : Net) (script : List (Net → List NetOp)) : Net × List NetOp :=
  script.foldl (fun (acc : Net × List NetOp) f => let ops := f acc.1; (runNetR rankOf acc.1 ops, acc.2 ++ ops)) (n, [])

/-- the best (lowest) ticket of round `r` among `ids` belongs to `w`, strictly -/
def bestTicket (rankOf : Pid → Nat → Nat) (ids : List Pid) (r : Nat) (w : Pid) : Bool :=
  ids.contains w && ids.all (fun q => q == w || decide (rankOf w r < rankOf q r))

/-- with rank 0 everywhere the ranked network is `F3.Net` -/
theorem msgOfR_zero (p : Pid) (e : Eff) : msgOfR (fun _ _ => 0) p e = msgOf p e := by
  cases e <;> simp [msgOfR, msgOf]

theorem netStepR_zero (n : Net) (op : NetOp) : netStepR (fun _ _ => 0) n op = netStep n op := by
  have hs : ∀ p es, sentR (fun _ _ => 0) p es = sent p es := by
    intro p es; unfold sentR sent; congr 1; funext e; exact msgOfR_zero p e
  cases op with
  | start p now => cases h : n.node? p <;> simp only [netStepR, netStep, applyR, Net.apply, hs, h]
  | deliver p now m => cases h : n.node? p <;> simp only [netStepR, netStep, applyR, Net.apply, hs, h]
  | alarm p now => cases h : n.node? p <;> simp only [netStepR, netStep, applyR, Net.apply, hs, h]

theorem runNetR_zero (n : Net) (ops : List NetOp) : runNetR (fun _ _ => 0) n ops = runNet n ops := by
  induction ops generalizing n with
  | nil => rfl
  | cons op ops ih => simp only [runNetR, runNet, List.foldl_cons] at ih ⊢; rw [netStepR_zero]; exact ih _

end F3.NetRanked
