import F3.Model.CodecBytes
/-! Executable Keccak-256 (legacy padding, as `go-keccak.NewLegacyKeccak256`) and BLAKE2b-256, used by
the C14 driver to instantiate the abstract hash parameters of `F3.Merkle` / `F3.Payload` so that chain
keys are recomputed from the chain's content and compared byte-for-byte with the implementation.
They are validated against the Go libraries by the correspondence run itself. Proved about them
(`F3/Proofs/CodecHashLen.lean`): both return 32 values `< 256` on every input; the collision-extraction
theorems of C14 (`chainKey_collision_extract_real`, `signed_bytes_collision_extract_real`) are stated
for exactly these two functions. Nothing is (or could be) proved about their collision resistance.
Core-only. -/
namespace F3.Codec.Hash

def rotl (x : UInt64) (n : Nat) : UInt64 :=
  if n % 64 = 0 then x else (x <<< (n % 64).toUInt64) ||| (x >>> (64 - n % 64).toUInt64)
def rotr (x : UInt64) (n : Nat) : UInt64 := rotl x (64 - n % 64)

/-- little-endian load of 8 bytes at offset `o` (missing bytes are zero) -/
def load64 (b : Array UInt8) (o : Nat) : UInt64 := Id.run do
  let mut r : UInt64 := 0
  for i in [0:8] do
    r := r ||| ((b.getD (o + i) 0).toUInt64 <<< (8 * i).toUInt64)
  return r

def store64 (x : UInt64) : List Nat :=
  (List.range 8).map fun i => ((x >>> (8 * i).toUInt64) &&& 0xff).toNat

/-! ## Keccak-f[1600] -/

def keccakRC : Array UInt64 := #[
  0x0000000000000001, 0x0000000000008082, 0x800000000000808A, 0x8000000080008000,
  0x000000000000808B, 0x0000000080000001, 0x8000000080008081, 0x8000000000008009,
  0x000000000000008A, 0x0000000000000088, 0x0000000080008009, 0x000000008000000A,
  0x000000008000808B, 0x800000000000008B, 0x8000000000008089, 0x8000000000008003,
  0x8000000000008002, 0x8000000000000080, 0x000000000000800A, 0x800000008000000A,
  0x8000000080008081, 0x8000000000008080, 0x0000000080000001, 0x8000000080008008]

/-- rotation offsets indexed by `x + 5*y` -/
def keccakRot : Array Nat := #[
  0, 1, 62, 28, 27,
  36, 44, 6, 55, 20,
  3, 10, 43, 25, 39,
  41, 45, 15, 21, 8,
  18, 2, 61, 56, 14]

def keccakF (a0 : Array UInt64) : Array UInt64 := Id.run do
  let mut a := a0
  for rnd in [0:24] do
    -- theta
    let mut c : Array UInt64 := Array.replicate 5 0
    for x in [0:5] do
      c := c.set! x (a[x]! ^^^ a[x + 5]! ^^^ a[x + 10]! ^^^ a[x + 15]! ^^^ a[x + 20]!)
    for x in [0:5] do
      let d := c[(x + 4) % 5]! ^^^ rotl c[(x + 1) % 5]! 1
      for y in [0:5] do
        a := a.set! (x + 5 * y) (a[x + 5 * y]! ^^^ d)
    -- rho, pi
    let mut b : Array UInt64 := Array.replicate 25 0
    for x in [0:5] do
      for y in [0:5] do
        b := b.set! (y + 5 * ((2 * x + 3 * y) % 5)) (rotl a[x + 5 * y]! keccakRot[x + 5 * y]!)
    -- chi
    for x in [0:5] do
      for y in [0:5] do
        a := a.set! (x + 5 * y) (b[x + 5 * y]! ^^^ ((~~~ b[(x + 1) % 5 + 5 * y]!) &&& b[(x + 2) % 5 + 5 * y]!))
    -- iota
    a := a.set! 0 (a[0]! ^^^ keccakRC[rnd]!)
  return a

/-- Keccak-256 with the original (pre-SHA-3) padding `0x01 … 0x80`, rate 136. -/
def keccak256 (msg : Bytes) : Bytes := Id.run do
  let rate := 136
  let m0 : Array UInt8 := (msg.map (·.toUInt8)).toArray
  let padLen := rate - m0.size % rate
  let mut m := m0
  for i in [0:padLen] do
    let first : UInt8 := if i = 0 then 0x01 else 0
    let last : UInt8 := if i + 1 = padLen then 0x80 else 0
    m := m.push (first ||| last)
  let mut st : Array UInt64 := Array.replicate 25 0
  for blk in [0:m.size / rate] do
    for i in [0:rate / 8] do
      st := st.set! i (st[i]! ^^^ load64 m (blk * rate + 8 * i))
    st := keccakF st
  return (store64 st[0]! ++ store64 st[1]! ++ store64 st[2]! ++ store64 st[3]!)

/-! ## BLAKE2b -/

def blakeIV : Array UInt64 := #[
  0x6a09e667f3bcc908, 0xbb67ae8584caa73b, 0x3c6ef372fe94f82b, 0xa54ff53a5f1d36f1,
  0x510e527fade682d1, 0x9b05688c2b3e6c1f, 0x1f83d9abfb41bd6b, 0x5be0cd19137e2179]

def blakeSigma : Array (Array Nat) := #[
  #[0, 1, 2, 3, 4, 5, 6, 7, 8, 9, 10, 11, 12, 13, 14, 15],
  #[14, 10, 4, 8, 9, 15, 13, 6, 1, 12, 0, 2, 11, 7, 5, 3],
  #[11, 8, 12, 0, 5, 2, 15, 13, 10, 14, 3, 6, 7, 1, 9, 4],
  #[7, 9, 3, 1, 13, 12, 11, 14, 2, 6, 5, 10, 4, 0, 15, 8],
  #[9, 0, 5, 7, 2, 4, 10, 15, 14, 1, 11, 12, 6, 8, 3, 13],
  #[2, 12, 6, 10, 0, 11, 8, 3, 4, 13, 7, 5, 15, 14, 1, 9],
  #[12, 5, 1, 15, 14, 13, 4, 10, 0, 7, 6, 3, 9, 2, 8, 11],
  #[13, 11, 7, 14, 12, 1, 3, 9, 5, 0, 15, 4, 8, 6, 2, 10],
  #[6, 15, 14, 9, 11, 3, 0, 8, 12, 2, 13, 7, 1, 4, 10, 5],
  #[10, 2, 8, 4, 7, 6, 1, 5, 15, 11, 9, 14, 3, 12, 13, 0]]

def blakeG (v : Array UInt64) (a b c d : Nat) (x y : UInt64) : Array UInt64 := Id.run do
  let mut v := v
  v := v.set! a (v[a]! + v[b]! + x)
  v := v.set! d (rotr (v[d]! ^^^ v[a]!) 32)
  v := v.set! c (v[c]! + v[d]!)
  v := v.set! b (rotr (v[b]! ^^^ v[c]!) 24)
  v := v.set! a (v[a]! + v[b]! + y)
  v := v.set! d (rotr (v[d]! ^^^ v[a]!) 16)
  v := v.set! c (v[c]! + v[d]!)
  v := v.set! b (rotr (v[b]! ^^^ v[c]!) 63)
  return v

def blakeCompress (h : Array UInt64) (m : Array UInt8) (off : Nat) (t : Nat) (last : Bool) : Array UInt64 := Id.run do
  let mut w : Array UInt64 := Array.replicate 16 0
  for i in [0:16] do
    w := w.set! i (load64 m (off + 8 * i))
  let mut v : Array UInt64 := h ++ blakeIV
  v := v.set! 12 (v[12]! ^^^ (t % 2 ^ 64).toUInt64)
  v := v.set! 13 (v[13]! ^^^ (t / 2 ^ 64).toUInt64)
  if last then v := v.set! 14 (~~~ v[14]!)
  for r in [0:12] do
    let s := blakeSigma[r % 10]!
    v := blakeG v 0 4 8 12 w[s[0]!]! w[s[1]!]!
    v := blakeG v 1 5 9 13 w[s[2]!]! w[s[3]!]!
    v := blakeG v 2 6 10 14 w[s[4]!]! w[s[5]!]!
    v := blakeG v 3 7 11 15 w[s[6]!]! w[s[7]!]!
    v := blakeG v 0 5 10 15 w[s[8]!]! w[s[9]!]!
    v := blakeG v 1 6 11 12 w[s[10]!]! w[s[11]!]!
    v := blakeG v 2 7 8 13 w[s[12]!]! w[s[13]!]!
    v := blakeG v 3 4 9 14 w[s[14]!]! w[s[15]!]!
  let mut h' := h
  for i in [0:8] do
    h' := h'.set! i (h[i]! ^^^ v[i]! ^^^ v[i + 8]!)
  return h'

/-- Unkeyed BLAKE2b with a 32-byte digest (multihash code 0xb220). -/
def blake2b256 (msg : Bytes) : Bytes := Id.run do
  let m : Array UInt8 := (msg.map (·.toUInt8)).toArray
  let n := m.size
  let mut h := blakeIV
  h := h.set! 0 (h[0]! ^^^ 0x01010020)
  let nblocks := if n = 0 then 1 else (n + 127) / 128
  for i in [0:nblocks] do
    let last := i + 1 = nblocks
    let t := if last then n else 128 * (i + 1)
    h := blakeCompress h m (128 * i) t last
  return (store64 h[0]! ++ store64 h[1]! ++ store64 h[2]! ++ store64 h[3]!)

end F3.Codec.Hash
