import F3.Model.GoInt
/-!
# Model of the consensus inputs (C15) and of the certificate-chain generator's committee rule (C19b)

`consensus_inputs.go` (`collectChain`, `GetProposal`, `GetCommittee`) over an EC that is a finite
parent-pointer tree, and `certchain.GetCommittee`. Tipset keys, power tables (by CID) and beacons are
interned natural numbers; a block's key is its index in `EC.blocks`.
-/
namespace F3.Inputs

structure Block where
  epoch : Int
  parent : Option Nat      -- none: genesis (GetParent fails)
  pt : Nat                 -- EC's power table at this tipset (canonical id)
  time : Int               -- timestamp, ns
deriving Repr, BEq, DecidableEq

/-- the EC backend: a finite tree and the current head -/
structure EC where
  blocks : List Block
  head : Nat
deriving Repr

def EC.get (ec : EC) (k : Nat) : Option Block := ec.blocks[k]?

/-- `GetTipsetByEpoch`: walk back from the head to the first tipset at or before the epoch -/
def EC.byEpochFrom (ec : EC) (epoch : Int) : Nat → Nat → Option Nat
  | 0, _ => none
  | fuel + 1, k =>
    match ec.get k with
    | none => none
    | some b =>
      if b.epoch ≤ epoch then some k
      else match b.parent with
        | none => none
        | some p => ec.byEpochFrom epoch fuel p

def EC.byEpoch (ec : EC) (epoch : Int) : Option Nat :=
  match ec.get ec.head with
  | none => none
  | some h => if epoch > h.epoch then none else ec.byEpochFrom epoch (ec.blocks.length + 1) ec.head

structure Manifest where
  initialInstance : Nat
  bootstrapEpoch : Int
  finality : Int
  headLookback : Nat
  period : Int
  chainProposedLength : Int
  committeeLookback : Nat
deriving Repr

def ChainMaxLen : Int := 128

/-- what the inputs read from a stored certificate -/
structure Cert where
  base : Nat        -- key of ECChain.Base()
  head : Nat        -- key of ECChain.Head()
  supp : Nat        -- SupplementalData.PowerTable (canonical table id) = the table of the next inst
deriving Repr, BEq, DecidableEq

/-- the certificate store as the inputs see it: certificates of instances `first, first+1, …` -/
structure Store where
  first : Nat
  initialTable : Nat
  certs : List Cert
deriving Repr

def Store.get (s : Store) (i : Nat) : Option Cert := if i < s.first then none else s.certs[i - s.first]?

/-- `certstore.GetPowerTable`: the table an inst is validated with — the initial table for the
first inst, otherwise the table committed by the previous certificate -/
def Store.powerTable (s : Store) (i : Nat) : Option Nat :=
  if i < s.first then none
  else if i = s.first then some s.initialTable
  else (s.certs[i - s.first - 1]?).map (·.supp)

inductive Res (α : Type) where
  | ok (a : α)
  | err (kind : String)
deriving Repr, DecidableEq

/-- result of `collectChain`: `none` = nil (propose just the base), `some l` = tipsets after the base
up to and including the head, oldest first -/
def collectFrom (ec : EC) (baseKey : Nat) (baseEpoch : Int) : Nat → Nat → List Nat → Res (Option (List Nat))
  | 0, _, _ => .err "fuel"
  | fuel + 1, cur, acc =>
    if cur = baseKey then .ok (some acc)
    else match ec.get cur with
      | none => .err "collect"
      | some b =>
        if b.epoch < baseEpoch then .ok none
        else match b.parent with
          | none => .err "collect"
          | some p =>
            match ec.get p with
            | none => .err "collect"
            | some _ => collectFrom ec baseKey baseEpoch fuel p (cur :: acc)

def collectChain (ec : EC) (baseKey : Nat) (base head : Block) : Res (Option (List Nat)) :=
  if head.epoch < base.epoch then .ok none
  else collectFrom ec baseKey base.epoch (ec.blocks.length + 1) ec.head []

/-- where a committee comes from -/
structure Committee where
  table : Nat
  beacon : Nat     -- key of the tipset whose beacon is used
deriving Repr, BEq, DecidableEq

/-- `gpbftInputs.GetCommittee` -/
def getCommittee (m : Manifest) (s : Store) (ec : EC) (inst : Nat) : Res Committee :=
  if inst < m.initialInstance + m.committeeLookback then
    match s.powerTable m.initialInstance with
    | none => .err "powerTable"
    | some tbl =>
      if s.certs.isEmpty then
        match ec.byEpoch (m.bootstrapEpoch - m.finality) with
        | none => .err "bootstrapTS"
        | some k => .ok { table := tbl, beacon := k }
      else
        match s.get m.initialInstance with
        | none => .err "cert"
        | some c =>
          match ec.get c.base with
          | none => .err "tipset"
          | some _ => .ok { table := tbl, beacon := c.base }
  else
    match s.get (inst - m.committeeLookback) with
    | none => .err "cert"
    | some c =>
      let tbl := match s.powerTable inst with
        | some t => some t
        | none => (ec.get c.head).map (·.pt)
      match tbl with
      | none => .err "powerTable"
      | some t =>
        match ec.get c.head with
        | none => .err "tipset"
        | some _ => .ok { table := t, beacon := c.head }

/-- one tipset of a proposal: key, epoch, power-table id -/
structure Tip where
  key : Nat
  epoch : Int
  pt : Nat
deriving Repr, BEq, DecidableEq

def tipOf (ec : EC) (k : Nat) : Option Tip := (ec.get k).map fun b => { key := k, epoch := b.epoch, pt := b.pt }

def epochsIncreasing : List Tip → Bool
  | [] => true
  | [_] => true
  | a :: b :: rest => decide (a.epoch < b.epoch) && epochsIncreasing (b :: rest)

/-- the trimming steps of `GetProposal` on the collected chain (keys), given the clock -/
def trim (m : Manifest) (ec : EC) (now : Int) (collected : List Nat) : List Nat :=
  let c1 := if m.headLookback > 0 then collected.take (collected.length - m.headLookback) else collected
  let c2 := match c1.getLast? with
    | none => c1
    | some last =>
      match ec.get last with
      | none => c1
      | some b => if now - b.time < m.period then c1.dropLast else c1
  c2

/-- tipsets for a list of keys (`none` if EC does not know one of them) -/
def tipsOf (ec : EC) : List Nat → Option (List Tip)
  | [] => some []
  | k :: ks =>
    match tipOf ec k, tipsOf ec ks with
    | some t, some ts => some (t :: ts)
    | _, _ => none

/-- the base of the proposal for an instance: the bootstrap tipset for the first instance, the head
finalized by the previous instance otherwise -/
def baseKeyOf (m : Manifest) (s : Store) (ec : EC) (inst : Nat) : Res Nat :=
  if inst = m.initialInstance then
    match ec.byEpoch (m.bootstrapEpoch - m.finality) with
    | none => .err "bootstrapBase"
    | some k => .ok k
  else if inst = 0 then .err "prevCert"
  else match s.get (inst - 1) with
    | none => .err "prevCert"
    | some c => .ok c.head

/-- `gpbftInputs.GetProposal`: supplemental power table (canonical id) and the proposed chain.
`panic` models the negative `make` length for a proposal length below one. -/
def getProposal (m : Manifest) (s : Store) (ec : EC) (now : Int) (inst : Nat) : Res (Nat × List Tip) :=
  match baseKeyOf m s ec inst with
  | .err e => .err e
  | .ok baseKey =>
    match ec.get baseKey, ec.get ec.head with
    | none, _ => .err "baseTS"
    | _, none => .err "headTS"
    | some base, some head =>
      match collectChain ec baseKey base head with
      | .err e => .err e
      | .ok col =>
        let collected := trim m ec now (col.getD [])
        let suffixLen := min ChainMaxLen m.chainProposedLength - 1
        if suffixLen < 0 then .err "panic"
        else
          let suffixKeys := collected.take (min suffixLen collected.length).toNat
          match tipOf ec baseKey, tipsOf ec suffixKeys with
          | some b, some sfx =>
            let chain := b :: sfx
            if !(epochsIncreasing chain) || decide (base.epoch < 0) then .err "newChain"
            else match getCommittee m s ec (inst + 1) with
              | .err _ => .err "nextCommittee"
              | .ok c => .ok (c.table, chain)
          | _, _ => .err "suffixPT"

/-! ## certchain (C19b) -/

/-- which certificate's head (or the bootstrap tipset) a committee is taken from -/
inductive Source where
  | bootstrap
  | certHead (inst : Nat)
deriving Repr, BEq, DecidableEq

/-- the node's rule (`consensus_inputs.go`) -/
def nodeSource (initial lookback inst : Nat) : Source :=
  if inst < initial + lookback then .bootstrap else .certHead (inst - lookback)

/-- certchain's look-back index (uint64 arithmetic) as executed by the driver; proved equal to the
expression regenerated from `certchain.go` in `F3.Props.C19.certchain_index_is_regenerated` -/
def certchainLookbackIndexHand (lookback initial inst : Int) : Int :=
  F3.GoInt.u64 (F3.GoInt.u64 (inst - lookback) - initial)

/-- `certchain.GetCommittee` given the look-back index the code computes (uint64 arithmetic) and the
certificates it holds (instances `initial, initial+1, …`): epoch-addressed -/
def certchainCommittee (m : Manifest) (lookbackIndex : Int) (certs : List Cert) (ec : EC) (inst : Nat) :
    Res Committee :=
  let epoch? : Res Int :=
    if inst < m.initialInstance + m.committeeLookback then .ok (m.bootstrapEpoch - m.finality)
    else if lookbackIndex ≥ certs.length then .err "noPriorCert"
    else match certs[lookbackIndex.toNat]? with
      | none => .err "noPriorCert"
      | some c => match ec.get c.head with
        | none => .err "other"
        | some b => .ok b.epoch
  match epoch? with
  | .err e => .err e
  | .ok e =>
    match ec.byEpoch e with
    | none => .err "other"
    | some k =>
      match ec.get k with
      | none => .err "other"
      | some b => .ok { table := b.pt, beacon := k }

end F3.Inputs
