import F3.Model.Lru
/-!
# Model of `chainexchange/pubsub.go` (`PubSubChainExchange`)

Core-only, executable; the driver `Driver/ChainX.lean` runs exactly these definitions.

* A tipset is an interned id (`Tip := Nat`), a chain is `List Tip`, `[]` is the zero chain, the
  chain **key is the chain itself** (DESIGN §3: collision-freeness of the merkle key is C14's
  theorem; the harness additionally recomputes the real `Key()` of every returned chain).
* Per instance two LRU caches (`Model.Lru`): *wanted* (capacity `maxWanted`, may hold the
  placeholder) and *discovered* (capacity `maxDiscovered`). The Go maps `chainsWanted` /
  `chainsDiscovered` are association lists keyed by instance.
* One op = one call of the Go API or one delivery of a pubsub message through
  `validatePubSubMessage` followed (on accept) by `cacheAsDiscoveredChain` — the body of the
  subscription loop in `Start`.

`cacheAsDiscovered` mirrors `cacheAsDiscoveredChain` **with `wanted` taken from the wanted map**
(`getChainsWantedAt`). The pinned tree fetched it from the discovered map (DESIGN §7, S6); see
`cacheAsDiscoveredS6` below, kept only to state what the defect does (`Props/C18.lean`).
-/
namespace F3.ChainX
open F3.Lru

abbrev Tip := Nat
abbrev Chain := List Tip
abbrev Key := Chain

/-- `*chainPortion`: the shared placeholder pointer, or a portion holding a chain. -/
inductive Portion where
  | placeholder
  | chain (c : Chain)
deriving DecidableEq, Repr

/-- `portion.chain` (nil for the placeholder). -/
def Portion.chainOf : Portion → Chain
  | .placeholder => []
  | .chain c => c

def Portion.isPlaceholder : Portion → Bool
  | .placeholder => true
  | .chain _ => false

abbrev PCache := Cache Key Portion

/-- The options that matter (chainexchange/options.go). `maxAgeMs = maxTimestampAge.Milliseconds()`. -/
structure Opts where
  maxWanted : Nat
  maxDiscovered : Nat
  lookahead : Nat
  maxAgeMs : Int
deriving Repr

/-- `map[uint64]*lru.Cache` -/
abbrev IMap := List (Nat × PCache)

namespace IMap

def find? : IMap → Nat → Option PCache
  | [], _ => none
  | (j, c) :: t, i => if j = i then some c else find? t i

def set : IMap → Nat → PCache → IMap
  | [], i, c => [(i, c)]
  | (j, c') :: t, i, c => if j = i then (j, c) :: t else (j, c') :: set t i c

/-- the cache of instance `i`, as `getChains…At` would return it (a fresh one if absent) -/
def cacheAt (m : IMap) (i : Nat) (cap : Nat) : PCache := (find? m i).getD (Lru.empty cap)

/-- `delete(m, i)` for every `i < n` -/
def prune (m : IMap) (n : Nat) : IMap := m.filter (fun e => !(decide (e.1 < n)))

def instances (m : IMap) : List Nat := m.map Prod.fst

end IMap

structure State where
  opts : Opts
  wanted : IMap
  discovered : IMap
deriving Repr

def init (o : Opts) : State := ⟨o, [], []⟩

/-- All non-empty prefixes, **longest first**: the order in which both caching loops visit
`AllPrefixes()` (`for i := len-1; i >= 0; i--`). -/
def prefixes (c : Chain) : List Chain :=
  (List.range c.length).reverse.map (fun i => c.take (i + 1))

/-! ## GetChainByInstance -/

/-- Result: new state, the returned chain (`none` = `(nil,false)`), listener notifications. -/
def getChain (s : State) (i : Nat) (k : Key) : State × Option Chain × List Chain :=
  if k = [] then (s, none, [])                              -- key.IsZero()
  else
    let w := IMap.cacheAt s.wanted i s.opts.maxWanted                 -- getChainsWantedAt (creates)
    let rw := Cache.get w k                                       -- wanted.Get: promotes
    match rw.2 with
    | some (.chain c) => ({ s with wanted := IMap.set s.wanted i rw.1 }, some c, [])
    | _ =>
      let d := IMap.cacheAt s.discovered i s.opts.maxDiscovered       -- getChainsDiscoveredAt (creates)
      let rd := Cache.get d k
      match rd.2 with
      | some p =>
        let w2 := (rw.1.add k p).1                           -- wanted.Add(key, portion)
        let d2 := (rd.1.remove k).1                          -- discovered.Remove(key)
        ({ s with wanted := IMap.set s.wanted i w2, discovered := IMap.set s.discovered i d2 },
          some p.chainOf, [p.chainOf])
      | none =>
        let w2 := (rw.1.containsOrAdd k .placeholder).1
        ({ s with wanted := IMap.set s.wanted i w2, discovered := IMap.set s.discovered i rd.1 }, none, [])

/-! ## The pubsub validator -/

/-- What `TipSet.Validate` and the epoch rule look at, plus the interned identity. -/
structure TipD where
  id : Tip
  epoch : Int
  keyLen : Nat
  ptLen : Nat      -- `PowerTable.ByteLen()`, 0 for an undefined CID
deriving Repr, DecidableEq

structure Msg where
  inst : Nat
  chain : List TipD
  ts : Int
deriving Repr

/-- `gpbft.InstanceProgress`: `ID` and `Input` (nil ↦ `none`). -/
structure Progress where
  id : Nat
  input : Option Chain
deriving Repr

inductive Reason where
  | undecodable | empty | malformed | past | tooDistant | wrongBase | tsOld | tsFuture
deriving DecidableEq, Repr

inductive Verdict where
  | accept
  | reject (r : Reason)    -- pubsub.ValidationReject
  | ignore (r : Reason)    -- pubsub.ValidationIgnore
deriving DecidableEq, Repr

def chainMaxLen : Nat := 128
def tipsetKeyMaxLen : Nat := 760
def cidMaxLen : Nat := 38

/-- `TipSet.Validate` -/
def tipValid (t : TipD) : Bool :=
  decide (0 < t.keyLen) && decide (t.keyLen ≤ tipsetKeyMaxLen) && decide (0 < t.ptLen) && decide (t.ptLen ≤ cidMaxLen)

/-- the loop of `ECChain.Validate`: every tipset valid and `lastEpoch < epoch`, starting at `-1` -/
def tipsOk : Int → List TipD → Bool
  | _, [] => true
  | last, t :: ts => tipValid t && decide (last < t.epoch) && tipsOk t.epoch ts

/-- `ECChain.Validate` on a non-zero chain -/
def chainValid (c : List TipD) : Bool := decide (c.length ≤ chainMaxLen) && tipsOk (-1) c

def chainIds (c : List TipD) : Chain := c.map (·.id)

def u64 : Nat := 18446744073709551616

/-- `validatePubSubMessage` as a function of (options, progress, clock reading, decoded message);
`none` is a message that does not decode. -/
def validate (o : Opts) (p : Progress) (now : Int) : Option Msg → Verdict
  | none => .reject .undecodable
  | some m =>
    if m.chain = [] then .reject .empty
    else if !chainValid m.chain then .reject .malformed
    else if m.inst < p.id then .ignore .past
    else if m.inst > (p.id + o.lookahead) % u64 then .ignore .tooDistant      -- uint64 addition wraps
    else if p.input.isSome = true ∧ m.inst = p.id ∧ (p.input.getD []).head? ≠ (chainIds m.chain).head? then
      .reject .wrongBase
    else if now - o.maxAgeMs > m.ts then .ignore .tsOld
    else if m.ts > now then .ignore .tsFuture
    else .accept

/-! ## cacheAsDiscoveredChain / cacheAsWantedChain -/

/-- one iteration of the loop of `cacheAsDiscoveredChain` for prefix `p`, on (wanted, discovered) -/
def discStep (st : PCache × PCache) (p : Chain) : PCache × PCache :=
  match st.1.peek p with
  | none => (st.1, (st.2.containsOrAdd p (.chain p)).1)
  | some .placeholder => ((st.1.add p (.chain p)).1, st.2)
  | some (.chain _) => st

def cacheAsDiscovered (s : State) (i : Nat) (c : Chain) : State :=
  let w := IMap.cacheAt s.wanted i s.opts.maxWanted
  let d := IMap.cacheAt s.discovered i s.opts.maxDiscovered
  let r := (prefixes c).foldl discStep (w, d)
  { s with wanted := IMap.set s.wanted i r.1, discovered := IMap.set s.discovered i r.2 }

/-- The pinned tree's variant (S6): `wanted := p.getChainsDiscoveredAt(...)`, so the `Peek` and the
`Add` of the loop act on the *discovered* cache and the wanted cache is never touched. -/
def discStepS6 (d : PCache) (p : Chain) : PCache :=
  match d.peek p with
  | none => (d.containsOrAdd p (.chain p)).1
  | some .placeholder => (d.add p (.chain p)).1
  | some (.chain _) => d

def cacheAsDiscoveredS6 (s : State) (i : Nat) (c : Chain) : State :=
  let d := IMap.cacheAt s.discovered i s.opts.maxDiscovered
  { s with discovered := IMap.set s.discovered i ((prefixes c).foldl discStepS6 d) }

/-- one iteration of the loop of `cacheAsWantedChain`: (wanted, notifications) -/
def wantStep (st : PCache × List Chain) (p : Chain) : PCache × List Chain :=
  match st.1.peek p with
  | some (.chain _) => st
  | _ => ((st.1.add p (.chain p)).1, st.2 ++ [p])

/-- `Broadcast` of an own chain as far as the caches go: `cacheAsWantedChain`. -/
def cacheAsWanted (s : State) (i : Nat) (c : Chain) : State × List Chain :=
  let w := IMap.cacheAt s.wanted i s.opts.maxWanted
  let r := (prefixes c).foldl wantStep (w, [])
  ({ s with wanted := IMap.set s.wanted i r.1 }, r.2)

/-- `RemoveChainsByInstance` -/
def prune (s : State) (n : Nat) : State :=
  { s with wanted := IMap.prune s.wanted n, discovered := IMap.prune s.discovered n }

/-! ## Operations -/

inductive Op where
  | get (i : Nat) (k : Key)
  | feed (p : Progress) (now : Int) (m : Option Msg)
  | bcast (i : Nat) (c : Chain)
  | prune (n : Nat)
deriving Repr

inductive Out where
  | got (r : Option Chain) (notified : List Chain)
  | verdict (v : Verdict)
  | bcasted (notified : List Chain)
  | pruned
deriving Repr

/-- Delivery of one pubsub message: validator, then (on accept) the subscription loop's caching. -/
def feed (s : State) (p : Progress) (now : Int) (m : Option Msg) : State × Verdict :=
  match validate s.opts p now m, m with
  | .accept, some msg => (cacheAsDiscovered s msg.inst (chainIds msg.chain), .accept)
  | v, _ => (s, v)

def step (s : State) : Op → State × Out
  | .get i k => let r := getChain s i k; (r.1, .got r.2.1 r.2.2)
  | .feed p now m => let r := feed s p now m; (r.1, .verdict r.2)
  | .bcast i c => let r := cacheAsWanted s i c; (r.1, .bcasted r.2)
  | .prune n => (prune s n, .pruned)

def run (s : State) : List Op → State
  | [] => s
  | o :: os => run (step s o).1 os

end F3.ChainX
