/-! Go integer conventions shared by generated and hand-written models. -/
namespace F3.GoInt

/-- wrap to uint64 -/
def u64 (x : Int) : Int := x % (2 ^ 64)

/-- reinterpret a uint64 value (in [0,2^64)) as int64 (two's complement) -/
def i64ofU64 (x : Int) : Int := if x < 2 ^ 63 then x else x - 2 ^ 64

/-- wrap to int64 -/
def i64 (x : Int) : Int := i64ofU64 (u64 x)

def fits64 (x : Int) : Prop := -(2 ^ 63) ≤ x ∧ x < 2 ^ 63

instance (x : Int) : Decidable (fits64 x) := by unfold fits64; infer_instance

end F3.GoInt
