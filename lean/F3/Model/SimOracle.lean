import F3.Spec.Quorum
/-!
# Model of the simulator's decision oracle (C19a): `sim/ec.go`, `sim/host.go`, loop head of `sim/sim.go`

Tipsets are interned (`Tip := Nat`), a chain value is `none` (nil pointer), `some []` (empty chain) or
`some (base :: suffix)`. Signatures are symbolic: an aggregate is the token "(who signed, which
payload)", `none` for bytes nobody produced; it verifies against a claimed signer list and payload
iff the token equals them (FakeBackend hashes exactly these, collision-freeness assumed).
The quorum rule is the specification predicate `F3.Spec.Quorum.strong` on scaled powers — what the
node applies (C08) and what the repaired simulator calls (`gpbft.IsStrongQuorum`).
-/
namespace F3.SimOracle

abbrev Tip := Nat

structure Payload where
  inst : Nat
  round : Nat
  phase : Nat
  supp : Nat
  value : Option (List Tip)
deriving Repr, BEq, DecidableEq

def DECIDE : Nat := 5

structure Decision where
  vote : Payload
  signers : List Nat                       -- bitfield iteration order: ascending, distinct
  sig : Option (List Nat × Payload)        -- aggregate token
deriving Repr, BEq, DecidableEq

/-- one `ECInstance` -/
structure Inst where
  id : Nat
  base : List Tip        -- BaseChain (non-empty in every reachable state)
  ids : List Nat         -- actor ids in power-table order
  scaled : List Nat      -- scaled powers in power-table order
deriving Repr, BEq, DecidableEq

def Inst.total (i : Inst) : Nat := i.scaled.foldl (· + ·) 0

def Inst.baseHead (i : Inst) : Option Tip := i.base.getLast?

inductive Verdict where
  | ok | noInstance | instanceMismatch | wrongPhase | wrongRound | emptyValue | wrongBase
  | badSigner | noQuorum | badSig
deriving Repr, BEq, DecidableEq

def Verdict.name : Verdict → String
  | .ok => "ok" | .noInstance => "noInstance" | .instanceMismatch => "instanceMismatch"
  | .wrongPhase => "wrongPhase" | .wrongRound => "wrongRound" | .emptyValue => "emptyValue"
  | .wrongBase => "wrongBase" | .badSigner => "badSigner" | .noQuorum => "noQuorum" | .badSig => "badSig"

/-- scaled power of a signer list -/
def signerPower (scaled : List Nat) (signers : List Nat) : Nat :=
  signers.foldl (fun acc s => acc + scaled.getD s 0) 0

def isZeroValue : Option (List Tip) → Bool
  | none => true
  | some [] => true
  | some (_ :: _) => false

def valueBase : Option (List Tip) → Option Tip
  | some (b :: _) => some b
  | _ => none

/-- `ECInstance.validateDecision`, check by check in the code's order -/
def validateDecision (i : Inst) (d : Decision) : Verdict :=
  if i.id ≠ d.vote.inst then .instanceMismatch
  else if d.vote.phase ≠ DECIDE then .wrongPhase
  else if d.vote.round ≠ 0 then .wrongRound
  else if isZeroValue d.vote.value then .emptyValue
  else if valueBase d.vote.value ≠ i.baseHead then .wrongBase
  else if d.signers.any (fun s => decide (s ≥ i.scaled.length)) then .badSigner
  else if !(F3.Spec.Quorum.strong (signerPower i.scaled d.signers) i.total) then .noQuorum
  else if d.sig ≠ some (d.signers, d.vote) then .badSig
  else .ok

/-- state of the simulated EC together with the loop-head bookkeeping of `Simulation.Run` -/
structure St where
  insts : List Inst := []
  /-- every `NotifyDecision`, newest first: (instance named by the decision, participant, decision) -/
  notes : List (Nat × Nat × Decision) := []
  errs : Nat := 0            -- len(ec.errors)
  cur : Nat := 0             -- index of Run's currentInstance
  failed : Bool := false     -- Run returned an error
  /-- ghost: number of notifications that had happened at the last loop-head check -/
  checked : Nat := 0
  /-- ghost: instances the loop head declared complete: (instance, agreed value, #notifications then, excluded ids) -/
  completed : List (Nat × Option (List Tip) × Nat × List Nat) := []
deriving Repr

/-- `simEC.NotifyDecision` + `ECInstance.NotifyDecision`: look the instance up by the decision's own
instance number, validate, count an error, and record the decision in any case. -/
def notifyVerdict (s : St) (d : Decision) : Verdict :=
  match s.insts[d.vote.inst]? with
  | some i => validateDecision i d
  | none => .noInstance

def notify (s : St) (p : Nat) (d : Decision) : St :=
  let v := notifyVerdict s d
  { s with notes := (d.vote.inst, p, d) :: s.notes, errs := if v = .ok then s.errs else s.errs + 1 }

/-- latest recorded decision of a participant in an instance (`eci.decisions[p]`). The code records
nothing for a decision that names a non-existing instance, the model keeps it in `notes`; this
cannot be observed: such a notification raises `errs`, after which no instance is ever begun
(`beginEarly` refuses, `loopHead` fails), so no instance with that number will exist. -/
def latest (notes : List (Nat × Nat × Decision)) (inst p : Nat) : Option Decision :=
  (notes.find? (fun n => n.1 == inst && n.2.1 == p)).map (·.2.2)

def participants (i : Inst) (excl : List Nat) : List Nat := i.ids.filter (fun p => !excl.contains p)

/-- `HasCompleted` -/
def hasCompleted (notes : List (Nat × Nat × Decision)) (i : Inst) (excl : List Nat) : Bool :=
  (participants i excl).all (fun p => (latest notes i.id p).isSome)

/-- the loop of `HasReachedConsensus`: `consensus` starts nil, is set by the first decision whose value
pointer is non-nil, every decision is compared with it by `ECChain.Eq` (nil and empty are equal) -/
def consensusLoop (notes : List (Nat × Nat × Decision)) (inst : Nat) :
    List Nat → Option (List Tip) → Option (Option (List Tip))
  | [], c => some c
  | p :: ps, c =>
    match latest notes inst p with
    | none => none
    | some d =>
      let c' := match c with
        | none => d.vote.value
        | some x => some x
      let eq := match d.vote.value, c' with
        | some a, some b => a == b
        | none, none => true
        | none, some b => b.isEmpty
        | some a, none => a.isEmpty
      if eq then consensusLoop notes inst ps c' else none

/-- `HasReachedConsensus`: `some v` = (v, true) -/
def reachedConsensus (notes : List (Nat × Nat × Decision)) (i : Inst) (excl : List Nat) : Option (Option (List Tip)) :=
  consensusLoop notes i.id (participants i excl) none

/-- one evaluation of the head of `Run`'s loop; `next` is the instance the loop would begin (table
and ids supplied by the environment; its base chain is the decided value) -/
def loopHead (s : St) (excl : List Nat) (nextIds nextScaled : List Nat) : St :=
  if s.failed then s
  else if s.errs > 0 then { s with failed := true, checked := s.notes.length }
  else
    let s := { s with checked := s.notes.length }
    match s.insts[s.cur]? with
    | none => s
    | some ci =>
      if hasCompleted s.notes ci excl then
        match reachedConsensus s.notes ci excl with
        | none => { s with failed := true }
        | some v =>
          let s := { s with completed := (ci.id, v, s.notes.length, excl) :: s.completed }
          match s.insts[s.cur + 1]? with
          | some ni =>
            if some ni.base == v then { s with cur := s.cur + 1 } else { s with failed := true }
          | none =>
            { s with insts := s.insts ++ [{ id := s.insts.length, base := v.getD [], ids := nextIds, scaled := nextScaled }],
                     cur := s.cur + 1 }
      else s

/-- a participant's `GetProposal` begins the next instance early (only when no error is pending) -/
def beginEarly (s : St) (base : List Tip) (ids scaled : List Nat) : St :=
  if s.errs > 0 then s
  else { s with insts := s.insts ++ [{ id := s.insts.length, base := base, ids := ids, scaled := scaled }] }

inductive Ev where
  | notify (p : Nat) (d : Decision)
  | loopHead (excl : List Nat) (nextIds nextScaled : List Nat)
  | beginEarly (base : List Tip) (ids scaled : List Nat)
deriving Repr

def exec : St → List Ev → St
  | s, [] => s
  | s, .notify p d :: es => exec (notify s p d) es
  | s, .loopHead x a b :: es => exec (loopHead s x a b) es
  | s, .beginEarly b i sc :: es => exec (beginEarly s b i sc) es

/-- the state `Run` starts from: instance 0 begun on the configured base chain -/
def start (base : List Tip) (ids scaled : List Nat) : St :=
  { insts := [{ id := 0, base := base, ids := ids, scaled := scaled }] }

end F3.SimOracle
