/-!
# Model of the self-equivocation filter and of the broadcast path (C12)

Core-only, executable.  Mirrors `equivocation.go` (`equivocationFilter.ProcessBroadcast`,
`ProcessReceive`, `equivSenders.addSender`) and the parts of `host.go` that decide what reaches the
pubsub topic: `gpbftRunner.BroadcastMessage` (filter → WAL append → selfMessages → publish),
`rebroadcastMessage` (filter → publish), the WAL replay in `newRunner` (every WAL entry is fed to
`ProcessBroadcast`; `selfMessages` keeps the newest instance only) and the purge / trim done when a
certificate arrives.

A signature is an interned number; peers are numbers ordered like their IDs.
-/
namespace F3.Equiv

structure Msg where
  inst : Nat
  sender : Nat
  round : Nat
  phase : Nat
  sig : Nat
deriving DecidableEq, Repr

abbrev Peer := Nat

/-- `equivocationKey` -/
structure Key where
  sender : Nat
  round : Nat
  phase : Nat
deriving DecidableEq, Repr

def Msg.key (m : Msg) : Key := ⟨m.sender, m.round, m.phase⟩

/-- The slot a message occupies on the wire. -/
def Msg.slot (m : Msg) : Nat × Nat × Nat × Nat := (m.inst, m.sender, m.round, m.phase)

/-- `equivMessage` -/
structure Seen where
  sig : Nat
  origin : Peer
deriving DecidableEq, Repr

/-- `equivSenders` -/
structure Senders where
  origins : List Peer
  equivocation : Bool
deriving DecidableEq, Repr

/-- association lists standing for Go maps -/
def alookup {κ ν : Type} [DecidableEq κ] (k : κ) : List (κ × ν) → Option ν
  | [] => none
  | (k', v) :: t => if k' = k then some v else alookup k t

def aset {κ ν : Type} [DecidableEq κ] (k : κ) (v : ν) : List (κ × ν) → List (κ × ν)
  | [] => [(k, v)]
  | (k', v') :: t => if k' = k then (k, v) :: t else (k', v') :: aset k v t

structure Filter where
  localPID : Peer
  cur : Nat
  seen : List (Key × Seen)
  active : List (Nat × Senders)
deriving DecidableEq, Repr

def Filter.new (localPID : Peer) : Filter := ⟨localPID, 0, [], []⟩

def insertPeer (p : Peer) : List Peer → List Peer
  | [] => [p]
  | q :: t => if p ≤ q then p :: q :: t else q :: insertPeer p t

def sortPeers (l : List Peer) : List Peer := l.foldr insertPeer []

/-- `addSender`: append if new, cut to ten entries (*before* sorting), sort. -/
def Senders.add (es : Senders) (id : Peer) (equivocation : Bool) : Senders :=
  { origins := if es.origins.contains id then es.origins else sortPeers ((es.origins ++ [id]).take 10)
    equivocation := es.equivocation || equivocation }

/-- `ProcessBroadcast`: new filter state and whether the message may be published. -/
def Filter.processBroadcast (f : Filter) (m : Msg) : Filter × Bool :=
  if m.inst < f.cur then (f, false)
  else
    let f1 : Filter := if m.inst > f.cur then { f with cur := m.inst, seen := [], active := [] } else f
    let key := m.key
    let known := alookup key f1.seen
    match known with
    | some info =>
      if info.sig ≠ m.sig ∧ info.origin = f1.localPID then (f1, false)
      else
        let detected := decide (info.sig ≠ m.sig)
        let senders := ((alookup m.sender f1.active).getD ⟨[], false⟩).add f1.localPID detected
        let f2 := { f1 with active := aset m.sender senders f1.active }
        (f2, if !senders.equivocation then true else senders.origins.head? == some f1.localPID)
    | none =>
      let senders := ((alookup m.sender f1.active).getD ⟨[], false⟩).add f1.localPID false
      let f2 := { f1 with seen := f1.seen ++ [(key, ⟨m.sig, f1.localPID⟩)], active := aset m.sender senders f1.active }
      (f2, if !senders.equivocation then true else senders.origins.head? == some f1.localPID)

/-- `ProcessReceive` -/
def Filter.processReceive (f : Filter) (p : Peer) (m : Msg) : Filter :=
  if m.inst ≠ f.cur then f
  else
    match alookup m.sender f.active with
    | none => f
    | some senders =>
      match alookup m.key f.seen with
      | some info =>
        if info.sig ≠ m.sig then { f with active := aset m.sender (senders.add p true) f.active } else f
      | none => { f with seen := f.seen ++ [(m.key, ⟨m.sig, p⟩)] }

/-- `newRunner`: every WAL entry is passed through `ProcessBroadcast` of a fresh filter. -/
def rearm (localPID : Peer) (wal : List Msg) : Filter :=
  wal.foldl (fun f m => (f.processBroadcast m).1) (Filter.new localPID)

def maxInst (l : List Msg) : Nat := l.foldl (fun a m => max a m.inst) 0

/-! ## The node: filter + WAL + selfMessages + wire -/

structure Sys where
  filter : Filter
  /-- durable: the WAL content as `All()` returns it -/
  wal : List Msg
  /-- `selfMessages`, insertion order -/
  self : List Msg
  /-- everything handed to `Topic.Publish`, chronological -/
  wire : List Msg
  up : Bool
  /-- ghost: every message ever appended to the WAL -/
  ever : List Msg
  /-- ghost: largest purge epoch so far -/
  purged : Nat
  /-- ghost: `purged` as of the last restart (requests after a restart are at or above it) -/
  floor : Nat
deriving Repr

def Sys.init (localPID : Peer) : Sys :=
  { filter := Filter.new localPID, wal := [], self := [], wire := [], up := true, ever := [], purged := 0, floor := 0 }

inductive Op where
  /-- `BroadcastMessage m`; `crash = 0`: runs to completion, `1`: the process dies after the filter,
  `2`: after the WAL append, `3`: after the publish. -/
  | broadcast (m : Msg) (crash : Nat)
  /-- `RequestRebroadcast` for an instant -/
  | rebroadcast (inst round phase : Nat)
  | receive (p : Peer) (m : Msg)
  /-- process start: re-arm the filter and `selfMessages` from the WAL -/
  | restart
  /-- the process stops or dies between two operations -/
  | stop
  /-- `wal.Purge k`: entries at or above `k` stay; of those below, the ones in `keep` happen to stay
  (whole files are deleted, and never the active one) -/
  | purge (k : Nat) (keep : List Msg)
  /-- selfMessages of instances below `c` are dropped (certificate `c` arrived) -/
  | trim (c : Nat)
deriving Repr

/-- `wal.Purge k` seen at entry level: entries at or above `k` stay; an entry below `k` stays as often
as it occurs in `keep` (whole files are deleted, the active file never is). -/
def purgeWal (k : Nat) : List Msg → List Msg → List Msg
  | [], _ => []
  | e :: t, keep =>
    if k ≤ e.inst then e :: purgeWal k t keep
    else if keep.contains e then e :: purgeWal k t (keep.erase e)
    else purgeWal k t keep

/-- one rebroadcast: filter, then publish -/
def rebroadcastOne (st : Filter × List Msg) (m : Msg) : Filter × List Msg :=
  let (f, ok) := st.1.processBroadcast m
  (f, if ok then st.2 ++ [m] else st.2)

def step (s : Sys) (op : Op) : Sys :=
  match op with
  | .restart =>
    let mx := maxInst s.wal
    { s with filter := rearm s.filter.localPID s.wal, self := s.wal.filter (fun m => m.inst == mx),
             up := true, floor := s.purged }
  | .stop => { s with up := false }
  | .broadcast m crash =>
    if !s.up then s else
    let (f1, ok) := s.filter.processBroadcast m
    if !ok then { s with filter := f1, up := crash == 0 }
    else if crash == 1 then { s with filter := f1, up := false }
    else
      let s2 := { s with filter := f1, wal := s.wal ++ [m], ever := s.ever ++ [m], self := s.self ++ [m] }
      if crash == 2 then { s2 with up := false }
      else { s2 with wire := s.wire ++ [m], up := crash == 0 }
  | .rebroadcast i r p =>
    if !s.up then s else
    let sel := s.self.filter (fun m => m.inst == i && m.round == r && m.phase == p)
    let (f, w) := sel.foldl rebroadcastOne (s.filter, s.wire)
    { s with filter := f, wire := w }
  | .receive p m => if !s.up then s else { s with filter := s.filter.processReceive p m }
  | .purge k keep =>
    if !s.up then s else
    { s with wal := purgeWal k s.wal keep, purged := max s.purged k }
  | .trim c => if !s.up then s else { s with self := s.self.filter (fun m => decide (c ≤ m.inst)) }

def run (s : Sys) : List Op → Sys
  | [] => s
  | op :: ops => run (step s op) ops

/-! ## The property -/

/-- never two messages for one slot with different signatures -/
def NoEquiv (w : List Msg) : Prop := ∀ a ∈ w, ∀ b ∈ w, a.slot = b.slot → a.sig = b.sig

/-- never a message for an instance older than one already on the wire (`w` is chronological) -/
def InstMonotone (w : List Msg) : Prop := w.Pairwise (fun a b => a.inst ≤ b.inst)

/-- executable versions, used by the driver on the implementation's own wire -/
def noEquivB (w : List Msg) : Bool := w.all (fun a => w.all (fun b => a.slot != b.slot || a.sig == b.sig))

def instMonotoneB : List Msg → Bool
  | [] => true
  | a :: t => t.all (fun b => a.inst ≤ b.inst) && instMonotoneB t

/-- Environment hypotheses of the property, per operation: requests (broadcast, rebroadcast) are for
instances at or above the floor (after a restart the participant never runs an instance whose WAL
entries may have been purged: the certificate store already holds a later certificate); only the
node itself signs with its identities (`own`). -/
def OpOk (own : Nat → Bool) (s : Sys) : Op → Prop
  | .broadcast m _ => s.floor ≤ m.inst ∧ own m.sender = true
  | .rebroadcast i _ _ => s.floor ≤ i
  | .receive _ m => own m.sender = false
  | _ => True

def RunOk (own : Nat → Bool) : Sys → List Op → Prop
  | _, [] => True
  | s, op :: ops => OpOk own s op ∧ RunOk own (step s op) ops

end F3.Equiv
