/-!
# Symbolic GossiPBFT messages (types shared by `Model.Validator` and `Spec.ValidMsg`). Core-only.

Conventions (DESIGN §3):
* a tipset is its interned identity plus the attributes `TipSet.Validate`/`ECChain.Validate` look at;
  a chain is a list of tipsets, `[]` is bottom (Go: nil or empty `ECChain`);
* the chain key (`ECChain.Key`, a merkle root) is symbolic: `VKey.ofChain c`, so equal keys ⇔ equal
  chains (collision-freeness of the merkle tree / keccak is C14's theorem and trusted here), the zero
  digest is the key of bottom, and a 32-byte string that is the key of no known chain is `junk n`;
* a signature is the token `(public key, signed bytes)`, an aggregate is `(list of (index, key), bytes)`;
  signed bytes are symbolic too (`SigMsg`): injectivity of `MarshalForSigningWithValueKey` /
  `vrfSerializeSigInput` in these fields is C14's theorem. Unknown bytes are `garbage n`.
-/
namespace F3.Msg

/-- One EC tipset: `id` is the interned identity of `(epoch, key, powertable, commitments)`; the other
fields are what validation inspects: epoch, `len(Key)`, `PowerTable.ByteLen()` (0 = undefined CID). -/
structure Tip where
  id : Nat
  epoch : Int
  keyLen : Nat
  ptLen : Nat
  deriving DecidableEq, Repr

abbrev Chain := List Tip

/-- `ECChainKey`. -/
inductive VKey where
  | ofChain (c : Chain)
  | junk (n : Nat)
  deriving DecidableEq, Repr

/-- `ECChain.Key()`. -/
def keyOf (c : Chain) : VKey := .ofChain c
/-- `merkle.ZeroDigest`. -/
def VKey.zero : VKey := .ofChain []
/-- `ECChainKey.IsZero`. -/
def VKey.isZero (k : VKey) : Bool := k == VKey.zero

/-- Phases are `uint8` on the wire, so any number may arrive; they are plain `Nat`s in the model. -/
abbrev INITIAL : Nat := 0
abbrev QUALITY : Nat := 1
abbrev CONVERGE : Nat := 2
abbrev PREPARE : Nat := 3
abbrev COMMIT : Nat := 4
abbrev DECIDE : Nat := 5
abbrev TERMINATED : Nat := 6

/-- `gpbft.Payload`; `supp` is the interned supplemental data. -/
structure Payload where
  inst : Nat
  round : Nat
  phase : Nat
  supp : Nat
  value : Chain
  deriving DecidableEq, Repr

/-- The byte strings that get signed. -/
inductive SigMsg where
  /-- `Payload.MarshalForSigningWithValueKey(network, key)` -/
  | vote (net inst round : Nat) (phase : Nat) (supp : Nat) (key : VKey)
  /-- `vrfSerializeSigInput(beacon, instance, round, network)` -/
  | vrf (net beacon inst round : Nat)
  | other (n : Nat)
  deriving DecidableEq, Repr

inductive Sig where
  | tok (pub : Nat) (m : SigMsg)
  | garbage (n : Nat)
  deriving DecidableEq, Repr

inductive Agg where
  | tok (signers : List (Nat × Nat)) (m : SigMsg)
  | garbage (n : Nat)
  deriving DecidableEq, Repr

/-- `gpbft.Justification`. `signers` lists the set bits of the bitfield in iteration (ascending) order.
`enc` records whether `MarshalCBOR` succeeds (length limits; only decides whether a cache key exists). -/
structure Just where
  vote : Payload
  signers : List Nat
  agg : Agg
  enc : Bool
  deriving DecidableEq, Repr

/-- `gpbft.GMessage`. `enc`: whether the message (for partial validation: the `PartialGMessage`)
can be CBOR-marshalled, i.e. whether a cache key exists. -/
structure Msg where
  sender : Nat
  vote : Payload
  sig : Sig
  ticket : Sig
  just : Option Just
  enc : Bool
  deriving DecidableEq, Repr

/-- `gpbft.PartialGMessage`. -/
structure PMsg where
  msg : Msg
  key : VKey
  deriving DecidableEq, Repr

/-- One power-table entry: actor id, *scaled* power, public key. -/
structure Entry where
  id : Nat
  power : Nat
  pub : Nat
  deriving DecidableEq, Repr

/-- `gpbft.Committee`: power table in table order (signer indices refer to it) and beacon. The
aggregate verifier is the one built over the table's public keys. -/
structure Committee where
  entries : List Entry
  beacon : Nat
  deriving DecidableEq, Repr

def sumNat : List Nat → Nat
  | [] => 0
  | x :: xs => x + sumNat xs

/-- `PowerTable.ScaledTotal`. -/
def Committee.total (c : Committee) : Nat := sumNat (c.entries.map (·.power))

/-- `InstanceProgress` (without the input chain). -/
structure Progress where
  id : Nat
  round : Nat
  phase : Nat
  deriving DecidableEq, Repr

inductive Verdict where
  | accept | invalid | tooOld | notRelevant | noCommittee
  deriving DecidableEq, Repr

def maxU64 : Nat := 2 ^ 64 - 1

end F3.Msg
