/-! Byte-string helpers shared by the encoding models (C14). Core-only.

A byte string is a `List Nat`; every producer in the models emits values `< 256`, consumers
(decoders) are total on all lists. Theorems quantify over all lists, a superset of real inputs. -/
namespace F3.Codec

abbrev Bytes := List Nat

/-- `k` big-endian base-256 digits of `n` (the low `k` bytes; Go `binary.BigEndian.PutUintN`). -/
def beN : Nat → Nat → Bytes
  | 0, _ => []
  | k + 1, n => beN k (n / 256) ++ [n % 256]

/-- Big-endian value of a byte string (Go `binary.BigEndian.UintN`). -/
def fromBE (b : Bytes) : Nat := b.foldl (fun a x => a * 256 + x) 0

/-- `binary.Write(&buf, binary.BigEndian, x)` for a `uint64` `x` (the value is wrapped to 64 bits). -/
def be64 (n : Nat) : Bytes := beN 8 (n % 2 ^ 64)

/-- A Go `int64` reinterpreted as `uint64` (two's complement). -/
def i64bits (e : Int) : Nat := (e % 2 ^ 64).toNat

/-- `binary.Write(&buf, binary.BigEndian, x)` for an `int64`. -/
def be64i (e : Int) : Bytes := be64 (i64bits e)

/-- CBOR head: `cbg.WriteMajorTypeHeader(maj, n)` — shortest form (n < 2^64). -/
def hdr (maj n : Nat) : Bytes :=
  if n < 24 then [maj * 32 + n]
  else if n < 256 then [maj * 32 + 24, n]
  else if n < 65536 then (maj * 32 + 25) :: beN 2 n
  else if n < 4294967296 then (maj * 32 + 26) :: beN 4 n
  else (maj * 32 + 27) :: beN 8 n

def hexDigit (n : Nat) : Char :=
  if n < 10 then Char.ofNat (48 + n) else Char.ofNat (87 + n)

def toHex (b : Bytes) : String :=
  String.ofList (b.flatMap fun x => [hexDigit (x / 16 % 16), hexDigit (x % 16)])

def hexVal (c : Char) : Option Nat :=
  if '0' ≤ c ∧ c ≤ '9' then some (c.toNat - 48)
  else if 'a' ≤ c ∧ c ≤ 'f' then some (c.toNat - 87)
  else if 'A' ≤ c ∧ c ≤ 'F' then some (c.toNat - 55)
  else none

def ofHexChars : List Char → Option Bytes
  | [] => some []
  | [_] => none
  | a :: b :: t =>
    match hexVal a, hexVal b, ofHexChars t with
    | some x, some y, some r => some ((x * 16 + y) :: r)
    | _, _, _ => none

/-- `-` or the empty string denote the empty byte string. -/
def ofHex (s : String) : Option Bytes :=
  if s = "-" then some [] else ofHexChars s.toList

end F3.Codec
