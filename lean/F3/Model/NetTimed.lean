import F3.Model.Net
/-!
# Real-time admissibility of a network execution (`TimedSync`)

The events of `F3.Net` already carry a timestamp (`now`). This file says when a list of events respects the
*real-time* synchrony assumption with bound `Δ` — the hypothesis of property C02's second sentence — so that
`F3.Props.C02.timed_sync_ordered` can derive the untimed `SyncOrdered` of `F3/Model/Net.lean` from it.

`TNet` adds three ghost fields to a `Net`: for every pool message the timestamp of the event whose step broadcast
it (`stamps`), for every started node the timestamp of its `start` (`starts`), and the timestamp of the last
event (`clock`). `timedOpOk Δ` is checked *before* each event, on the state the event finds:

* **T1 (global time)** timestamps never decrease: `clock ≤ now`.
* **T2 (staggered starts ≤ Δ)** a `start` at `now` is at most `Δ` after every earlier start; a `deliver`/`alarm`
  at a time `now ≥ s + Δ` for some earlier start time `s` finds every node started (every participant starts at
  most `Δ` after the first one; at the boundary instant the starts come first).
* **T3 (delay < Δ, no loss, self-delivery included)** a message broadcast at time `t` has been handed to every
  node started at time `s` *before* any event whose timestamp is `≥ max t s + Δ` (a late starter is given `Δ` from
  its own start for the earlier messages). Hence the delivery itself happens at a time `< max t s + Δ`: delays are
  strictly below `Δ`. The strictness is essential, see `C02` (section `Timed`): the code evaluates
  `now ≥ phaseTimeout`, so a message and a timer falling on the same instant race.
* **T4 (timeouts ≥ 2Δ)** `timeoutsOk`: every node's QUALITY timeout and round-0 timeout are at least `2Δ`
  (`alarmAfterSynchrony` arms `2·δ·multiplier`).
-/
namespace F3.Net
open F3.Instance

def opTime : NetOp → Int
  | .start _ now => now
  | .deliver _ now _ => now
  | .alarm _ now => now

structure TNet where
  net : Net
  /-- ghost: `(m, t)` — pool message `m` was broadcast by the event with timestamp `t` (parallel to `net.pool`) -/
  stamps : List (Msg × Int) := []
  /-- ghost: `(p, t)` — node `p` was started by the event with timestamp `t` -/
  starts : List (Pid × Int) := []
  /-- ghost: timestamp of the last event -/
  clock : Int
  deriving Repr

/-- one network event (`netStep`) with the ghost timestamps kept up to date -/
def tstep (tn : TNet) (op : NetOp) : TNet :=
  let n' := netStep tn.net op
  { net := n'
    stamps := tn.stamps ++ (n'.pool.drop tn.net.pool.length).map (fun m => (m, opTime op))
    starts := match op with
      | .start p now => if (tn.net.node? p).isSome then tn.starts ++ [(p, now)] else tn.starts
      | _ => tn.starts
    clock := opTime op }

def allStarted (n : Net) : Bool := n.nodes.all (fun q => n.started.contains q.1)

/-- T1 ∧ T2 ∧ T3 for one event, evaluated on the state the event finds -/
def timedOpOk (Δ : Int) (tn : TNet) (op : NetOp) : Bool :=
  let now := opTime op
  decide (tn.clock ≤ now) &&
  (match op with
   | .start _ _ => tn.starts.all (fun e => decide (now ≤ e.2 + Δ))
   | _ => !(tn.starts.any (fun e => decide (e.2 + Δ ≤ now))) || allStarted tn.net) &&
  tn.stamps.all (fun e => tn.starts.all (fun st =>
    !(decide (e.2 + Δ ≤ now) && decide (st.2 + Δ ≤ now)) || tn.net.delivered.contains (st.1, e.1)))

def timedOk (Δ : Int) (tn : TNet) : List NetOp → Bool
  | [] => true
  | op :: ops => timedOpOk Δ tn op && timedOk Δ (tstep tn op) ops

def trun (tn : TNet) (ops : List NetOp) : TNet := ops.foldl tstep tn

def firstTime : List NetOp → Int
  | [] => 0
  | op :: _ => opTime op

/-- the timed network at the beginning of the execution `ops` -/
def initT (n : Net) (ops : List NetOp) : TNet := { net := n, clock := firstTime ops }

/-- T4: every node's QUALITY timeout and round-0 phase timeout are at least `2Δ` -/
def timeoutsOk (Δ : Int) (n : Net) : Bool :=
  n.nodes.all (fun e => decide (2 * Δ ≤ e.2.cfg.qualityTimeout2) && decide (2 * Δ ≤ tableGet e.2.cfg.timeout2 0))

/-- **synchrony, real time**: `Δ ≥ 0`, T4 on the nodes of `n`, and T1–T3 at every event of `ops` -/
def TimedSync (Δ : Int) (n : Net) (ops : List NetOp) : Prop :=
  0 ≤ Δ ∧ timeoutsOk Δ n = true ∧ timedOk Δ (initT n ops) ops = true

instance (Δ : Int) (n : Net) (ops : List NetOp) : Decidable (TimedSync Δ n ops) := by
  unfold TimedSync; infer_instance

end F3.Net
