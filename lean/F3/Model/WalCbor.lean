import F3.Model.Wal
import F3.Model.Cbor
/-!
# The WAL record codec of the real log: cbor-gen records (C11 × C14)

Core-only, executable.  `F3.Wal` is parametric in a record codec (`Codec α β`); the deployed log stores
CBOR records written by a generated `MarshalCBOR` and read back by `UnmarshalCBOR` through a
`cbg.CborReader` over the file (`readLogFile`).  This file instantiates the codec with the generic
cbor-gen model `F3.Cbor` for an arbitrary schema:

* records `Rec sch` = the values the generated encoder of `sch` accepts (`encode sch v ≠ none`):
  `Append` returns the encoder's error *before* anything is written, so only such values ever
  reach a file;
* tokens = bytes (`F3.Codec.Bytes = List Nat`);
* `enc` = `F3.Cbor.encode sch`; `dec1` = `F3.Cbor.decode sch`, which returns the value **and the
  unread rest** of the buffer.

`Codec.dec1` has to return a *record*, i.e. a value together with the fact that the encoder accepts it.
`cborCodec.dec1` therefore re-checks the decoded value; `rawCodec` is the reader without that check
(literally `UnmarshalCBOR` until the first error).  `F3.Proofs.WalCbor.readFile_raw_eq` /
`F3.Props.C11.reads_are_plain_cbor_decoding` prove that on every file a reachable directory can
contain the two readers return the same values, so the check is never exercised.
-/
namespace F3.Wal
open F3.Cbor F3.Codec

/-- The values the generated `MarshalCBOR` of `sch` accepts (right Go type, every length within the
encoder's limit). -/
abbrev Rec (sch : Schema) : Type := { v : Value // (encode sch v).isSome = true }

/-- cbor-gen records as a WAL codec. -/
def cborCodec (sch : Schema) : Codec (Rec sch) Nat where
  enc r := (encode sch r.1).getD []
  dec1 b :=
    match decode sch b with
    | .ok (v, rest) => if h : (encode sch v).isSome = true then some (⟨v, h⟩, rest) else none
    | .error _ => none

/-- The reader of the Go code as it is: `UnmarshalCBOR`, no re-check of the decoded value. -/
def rawCodec (sch : Schema) : Codec Value Nat where
  enc v := (encode sch v).getD []
  dec1 b :=
    match decode sch b with
    | .ok (v, rest) => some (v, rest)
    | .error _ => none

end F3.Wal

namespace F3.Cbor

/-- A schema of a Go *type* (anything but a bare field list `tnil`/`tcons`, which only occurs inside a
`tuple`). -/
def Schema.isRecord : Schema → Bool
  | .tnil => false
  | .tcons _ _ => false
  | _ => true

/-- `GMessage.Vote.Instance` of a value of the `GMessage` schema (`walEntry.WALEpoch`). -/
def gmsgInstance : Value → Nat
  | .cons _ (.cons (.cons (.uint i) _) _) => i
  | _ => 0

end F3.Cbor
