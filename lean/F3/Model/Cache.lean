/-!
# Model of `internal/caching`: `Set` (flip/flop) and `GroupedSet` (group LRU). Core-only.

Keys are abstract (`κ` with decidable equality): the Go code stores `blake2b(namespace-keyed, bytes)`;
the model stores the pre-image (collision-freeness of blake2b-256 is trusted, DESIGN §5).
-/
namespace F3.Cache

/-- `caching.Set`: two generations. Insertion goes to `flip`; when `flip` reaches `maxSize` it becomes
`flop` and the previous `flop` is dropped. `maxSize` is already `max 1 _`. -/
structure FlipFlop (κ : Type) where
  maxSize : Nat
  flip : List κ
  flop : List κ

variable {κ : Type} [DecidableEq κ]

/-- `NewSet(maxSize)` -/
def FlipFlop.new (maxSize : Nat) : FlipFlop κ := ⟨max 1 maxSize, [], []⟩

/-- `Set.Contains` -/
def FlipFlop.contains (s : FlipFlop κ) (k : κ) : Bool := s.flip.contains k || s.flop.contains k

/-- `Set.ContainsOrAdd`: returns (was contained, new set). -/
def FlipFlop.containsOrAdd (s : FlipFlop κ) (k : κ) : Bool × FlipFlop κ :=
  if s.contains k then (true, s)
  else
    let flip := k :: s.flip
    if flip.length ≥ s.maxSize then (false, { s with flip := [], flop := flip })
    else (false, { s with flip := flip })

/-- `caching.GroupedSet`; `groups` is kept in recency order, most recently used first (the Go code
has a map plus a `container/list`; `order` elements and the map are in bijection). -/
structure GroupedSet (κ : Type) where
  maxGroups : Nat
  maxSetSize : Nat
  groups : List (Nat × FlipFlop κ)

def GroupedSet.new (maxGroups maxSetSize : Nat) : GroupedSet κ := ⟨maxGroups, maxSetSize, []⟩

def lookup (gs : List (Nat × FlipFlop κ)) (g : Nat) : Option (FlipFlop κ) :=
  match gs with
  | [] => none
  | (g', s) :: t => if g' = g then some s else lookup t g

/-- `GroupedSet.Contains`: a hit *or miss* on an existing group moves that group to the front. -/
def GroupedSet.contains (c : GroupedSet κ) (g : Nat) (k : κ) : Bool × GroupedSet κ :=
  match lookup c.groups g with
  | some s => (s.contains k, { c with groups := (g, s) :: c.groups.filter (fun p => p.1 ≠ g) })
  | none => (false, c)

def replaceGroup (gs : List (Nat × FlipFlop κ)) (g : Nat) (s : FlipFlop κ) : List (Nat × FlipFlop κ) :=
  match gs with
  | [] => []
  | (g', s') :: t => if g' = g then (g, s) :: t else (g', s') :: replaceGroup t g s

/-- `GroupedSet.Add`: returns (newly added, new cache). A new group evicts the least recently used
group when `maxGroups` groups exist; adding to an existing group does not touch recency. -/
def GroupedSet.add (c : GroupedSet κ) (g : Nat) (k : κ) : Bool × GroupedSet κ :=
  match lookup c.groups g with
  | some s =>
    let r := s.containsOrAdd k
    (!r.1, { c with groups := replaceGroup c.groups g r.2 })
  | none =>
    let kept := if c.groups.length ≥ c.maxGroups then c.groups.dropLast else c.groups
    let r := (FlipFlop.new c.maxSetSize : FlipFlop κ).containsOrAdd k
    (!r.1, { c with groups := (g, r.2) :: kept })

/-- `GroupedSet.RemoveGroupsLessThan` -/
def GroupedSet.removeLessThan (c : GroupedSet κ) (n : Nat) : GroupedSet κ :=
  { c with groups := c.groups.filter (fun p => decide (n ≤ p.1)) }

/-- Membership: some group `g` holds `k` in one of its two generations. -/
def GroupedSet.mem (c : GroupedSet κ) (g : Nat) (k : κ) : Prop :=
  ∃ s, (g, s) ∈ c.groups ∧ s.contains k = true

/-- Executable peek (no recency update) used by the driver to compare with the real cache. -/
def GroupedSet.peek (c : GroupedSet κ) (g : Nat) (k : κ) : Bool :=
  match lookup c.groups g with
  | some s => s.contains k
  | none => false

end F3.Cache
