/-!
# Model of `github.com/hashicorp/golang-lru/v2` (`lru.Cache` over `simplelru.LRU`), v2.0.7

Core-only, executable. The cache is a list of `(key, value)` pairs, **head = most recently used**,
together with its capacity. The Go implementation keeps a doubly linked `evictList` (front = most
recent) and a map from keys to list entries; the model list is that `evictList` read from the front.

Semantics mirrored (simplelru/lru.go):
* `Add`: existing key → move to front and overwrite the value, no eviction; new key → push front, and
  if the length now exceeds `size` remove the back entry (the oldest) and report `evicted = true`;
* `Get`: existing key → move to front and return the value; `Peek` / `Contains`: no reordering;
* `ContainsOrAdd` (lru.go): `Contains` (no reordering) and only when absent `Add`;
* `Remove`: delete the entry if present; `Keys`: keys from oldest to newest.

`remove` is written with `filter` (drop every entry with that key); on caches with unique keys —
the only ones reachable (`F3.Proofs.Lru.WF`) — this is the deletion of the one entry.
-/
namespace F3.Lru

structure Cache (κ : Type) (ν : Type) where
  cap : Nat
  items : List (κ × ν)
deriving Repr

variable {κ ν : Type} [DecidableEq κ]

def empty (cap : Nat) : Cache κ ν := ⟨cap, []⟩

/-- insert into a duplicate-free list (used by the history tracker of `F3.ChainX.Spec`) -/
def insNew {α : Type} [DecidableEq α] (k : α) (l : List α) : List α := if k ∈ l then l else k :: l

/-- first value stored under `k` -/
def find? : List (κ × ν) → κ → Option ν
  | [], _ => none
  | (k', v) :: t, k => if k' = k then some v else find? t k

/-- all entries whose key differs from `k`, order kept -/
def without (l : List (κ × ν)) (k : κ) : List (κ × ν) := l.filter (fun e => decide (e.1 ≠ k))

namespace Cache

def peek (c : Cache κ ν) (k : κ) : Option ν := find? c.items k

def contains (c : Cache κ ν) (k : κ) : Bool := (find? c.items k).isSome

def len (c : Cache κ ν) : Nat := c.items.length

/-- `Get`: promotes on a hit. -/
def get (c : Cache κ ν) (k : κ) : Cache κ ν × Option ν :=
  match find? c.items k with
  | none => (c, none)
  | some v => ({ c with items := (k, v) :: without c.items k }, some v)

/-- `Add`: returns the new cache and whether an eviction occurred. -/
def add (c : Cache κ ν) (k : κ) (v : ν) : Cache κ ν × Bool :=
  match find? c.items k with
  | some _ => ({ c with items := (k, v) :: without c.items k }, false)
  | none =>
    if c.items.length + 1 > c.cap then ({ c with items := ((k, v) :: c.items).dropLast }, true)
    else ({ c with items := (k, v) :: c.items }, false)

/-- `ContainsOrAdd`: returns (cache, found, evicted). -/
def containsOrAdd (c : Cache κ ν) (k : κ) (v : ν) : Cache κ ν × Bool × Bool :=
  if c.contains k then (c, true, false)
  else let r := c.add k v; (r.1, false, r.2)

/-- `Remove`: returns the new cache and whether the key was present. -/
def remove (c : Cache κ ν) (k : κ) : Cache κ ν × Bool :=
  ({ c with items := without c.items k }, c.contains k)

/-- `Keys()`: oldest to newest. -/
def keys (c : Cache κ ν) : List κ := (c.items.map Prod.fst).reverse

/-- `Values()`: oldest to newest. -/
def values (c : Cache κ ν) : List ν := (c.items.map Prod.snd).reverse

end Cache

/-- The operations of the differential test, and of the induction over op lists in the proofs. -/
inductive Op (κ ν : Type) where
  | add (k : κ) (v : ν)
  | get (k : κ)
  | peek (k : κ)
  | contains (k : κ)
  | containsOrAdd (k : κ) (v : ν)
  | remove (k : κ)
deriving Repr

/-- Observable result of one operation. -/
inductive Res (ν : Type) where
  | evicted (b : Bool)
  | value (v : Option ν)
  | found (b : Bool)
  | foundEvicted (found evicted : Bool)
deriving Repr, DecidableEq

def step (c : Cache κ ν) : Op κ ν → Cache κ ν × Res ν
  | .add k v => let r := c.add k v; (r.1, .evicted r.2)
  | .get k => let r := c.get k; (r.1, .value r.2)
  | .peek k => (c, .value (c.peek k))
  | .contains k => (c, .found (c.contains k))
  | .containsOrAdd k v => let r := c.containsOrAdd k v; (r.1, .foundEvicted r.2.1 r.2.2)
  | .remove k => let r := c.remove k; (r.1, .found r.2)

def run (c : Cache κ ν) : List (Op κ ν) → Cache κ ν
  | [] => c
  | o :: os => run (step c o).1 os

end F3.Lru
