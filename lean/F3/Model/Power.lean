/-! Model of `gpbft/powertable.go` scaling: `scalePower` and `PowerEntries.Scaled`. Core-only. -/
namespace F3.Power

def maxPower : Nat := 0xffff

/-- `scalePower(power,total)`: `maxPower*power/total` (big-integer arithmetic, so no wrap). -/
def scalePower (power total : Nat) : Nat := maxPower * power / total

def sum : List Nat → Nat
  | [] => 0
  | x :: xs => x + sum xs

/-- `PowerEntries.Scaled`: error (none) if any power is non-positive; else scaled list and its sum.
Powers are `Int` here because the Go type is a signed big integer. -/
def scaled (ps : List Int) : Option (List Nat × Nat) :=
  if ps.all (fun p => decide (0 < p)) then
    let ns := ps.map Int.toNat
    let tot := sum ns
    let sc := ns.map (fun p => scalePower p tot)
    some (sc, sum sc)
  else none

end F3.Power
