import F3.Model.Instance
/-!
# An executable validity checker for delivered messages

`msgValidB votes t m` decides, against an explicit list of the votes in existence, what the guard proofs
(`F3.Instance.MsgValid`) assume of every delivered message: the vote exists, the sender has power, the
message has the shape its phase requires and its justification is a strong quorum of members that cast the
justifying vote.  `F3.Proofs.BridgeEx.msgValidB_sound` proves the checker implies `MsgValid`; the consensus
driver runs the structural half of it on every message the real validator let through.
-/
namespace F3.Instance

abbrev Vote := Pid × Nat × Phase × Chain

def increasing : List Nat → Bool
  | [] => true
  | [_] => true
  | a :: b :: l => decide (a < b) && increasing (b :: l)

def justOkB (votes : List Vote) (t : Table) (j : Just) : Bool :=
  increasing j.signers &&
  j.signers.all (fun i =>
    match t.entries[i]? with
    | some e => decide (0 < e.2) && t.index? e.1 == some i && votes.contains (e.1, j.round, j.phase, j.value)
    | none => false) &&
  strongQ t ((j.signers.map t.powerAt).foldl (· + ·) 0)

def convJustB (votes : List Vote) (t : Table) (r : Nat) (c : Chain) (j : Just) : Bool :=
  justOkB votes t j && j.round + 1 == r &&
    ((j.phase == .prepare && j.value == c) || (j.phase == .commit && j.value.isEmpty))

/-- shape of a message and of its justification, by phase (`validator.go`) -/
def msgShapeB (check : Just → Bool) (m : Msg) : Bool :=
  match m.phase with
  | .quality => m.round == 0 && !m.value.isEmpty && true
  | .converge => decide (0 < m.round) && !m.value.isEmpty &&
      (match m.just with | some j => check j | none => false)
  | .prepare =>
      (if m.round == 0 then m.just.isNone else match m.just with | some j => check j | none => false)
  | .commit =>
      if m.value.isEmpty then m.just.isNone else (match m.just with | some j => check j | none => false)
  | .decide => m.round == 0 && !m.value.isEmpty &&
      (match m.just with | some j => check j | none => false)
  | _ => false

/-- what the justification of `m` must be, given a predicate deciding that an aggregate verifies -/
def justFor (ok : Just → Bool) (m : Msg) (j : Just) : Bool :=
  match m.phase with
  | .converge | .prepare =>
      ok j && j.round + 1 == m.round &&
        ((j.phase == .prepare && j.value == m.value) || (j.phase == .commit && j.value.isEmpty))
  | .commit => ok j && j.round == m.round && j.phase == .prepare && j.value == m.value
  | .decide => ok j && j.phase == .commit && j.value == m.value
  | _ => true

def msgValidB (votes : List Vote) (t : Table) (m : Msg) : Bool :=
  votes.contains (m.sender, m.round, m.phase, m.value) && decide (0 < t.power m.sender) &&
    msgShapeB (justFor (justOkB votes t) m) m

/-- the part of `msgValidB` that needs no knowledge of the votes in existence: shapes, rounds, phases and
values of justifications, signers increasing, in the table with power, and strong -/
def justShapeB (t : Table) (j : Just) : Bool :=
  increasing j.signers &&
  j.signers.all (fun i => match t.entries[i]? with | some e => decide (0 < e.2) | none => false) &&
  strongQ t ((j.signers.map t.powerAt).foldl (· + ·) 0)

def msgStructB (t : Table) (m : Msg) : Bool :=
  decide (0 < t.power m.sender) && msgShapeB (justFor (justShapeB t) m) m

end F3.Instance
