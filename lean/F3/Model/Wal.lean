/-!
# Model of `internal/writeaheadlog/wal.go` (C11)

Core-only, executable.  A WAL directory is a list of `(file name, content)` pairs in creation
order; a file's content is a list of *tokens* `β` (bytes in the intended reading; the driver uses a
two-token-per-record abstraction whose weights add up to the real encoded size).  The record codec
is abstract (`Codec`), its two properties used by the theorems are `Codec.Ok`.

What is mirrored from the Go code (quirks included):

* `Open` = `hydrate`: every file of the directory, **sorted by name**, is read with `readLogFile`,
  which decodes records until the first failure and keeps what precedes it; the per-file `maxEpoch`
  is the maximum over the decodable records (0 for none).  All files found become *closed* files;
  there is no active file after `Open` — the first `Append` creates a fresh one (`O_EXCL`).
* `Append` = `maybeRotate` (no active file → `rotate`; active file larger than `rotateAt` → `rotate`),
  write the encoding to the active file, fsync, bump `active.maxEpoch`.  File names come from the
  wall clock; they are an input (`nm`) of the operation here.
* `Rotate` and `Close` are both `flush`: the active file is moved to the closed list.
* `Purge k` deletes the closed files with `maxEpoch < k`, never the active one.
* `All` reads the closed files in list order, then the active file.
* a crash loses the in-memory object only (every acknowledged append was fsynced); a crash *during*
  an append leaves any prefix of the record's encoding at the end of the active file
  (`crashAppend … n`).

Ghost fields (`acked`, `inflight`) are never read by `step`.
-/
namespace F3.Wal

abbrev Name := String

/-- Record codec: `enc` one record; `dec1` decodes one record from the front of a buffer and returns
the remaining buffer, or fails (truncated / garbage input). -/
structure Codec (α β : Type) where
  enc : α → List β
  dec1 : List β → Option (α × List β)

/-- The codec facts the WAL relies on: encodings are non-empty, self-delimiting round trip, and *no
strict prefix of an encoding decodes* (a torn record is detected). -/
structure Codec.Ok {α β : Type} (c : Codec α β) : Prop where
  nonempty : ∀ e, c.enc e ≠ []
  roundtrip : ∀ e rest, c.dec1 (c.enc e ++ rest) = some (e, rest)
  torn : ∀ e n, n < (c.enc e).length → c.dec1 ((c.enc e).take n) = none

structure Cfg (α β : Type) where
  codec : Codec α β
  epoch : α → Nat
  weight : β → Nat
  rotateAt : Nat

/-- `readLogFile`'s decode loop: stop at the first failure, keep what precedes it. -/
def decAll {α β : Type} (c : Codec α β) : Nat → List β → List α
  | 0, _ => []
  | fuel + 1, bs =>
    match c.dec1 bs with
    | none => []
    | some (e, rest) => e :: decAll c fuel rest

def readFile {α β : Type} (c : Codec α β) (bs : List β) : List α := decAll c (bs.length + 1) bs

def encAll {α β : Type} (c : Codec α β) (es : List α) : List β := es.flatMap c.enc

def maxEpochOf {α β : Type} (cfg : Cfg α β) (es : List α) : Nat :=
  es.foldl (fun a e => max a (cfg.epoch e)) 0

abbrev Dir (β : Type) := List (Name × List β)

def Dir.names {β : Type} (d : Dir β) : List Name := d.map (·.1)

def Dir.get {β : Type} : Dir β → Name → Option (List β)
  | [], _ => none
  | (n, bs) :: t, nm => if n = nm then some bs else Dir.get t nm

def Dir.appendTo {β : Type} (d : Dir β) (nm : Name) (bs : List β) : Dir β :=
  d.map (fun f => if f.1 = nm then (f.1, f.2 ++ bs) else f)

structure Stat where
  name : Name
  maxEpoch : Nat
deriving DecidableEq, Repr

/-- The in-memory `WriteAheadLog` object. -/
structure Mem where
  logFiles : List Stat
  active : Option Stat
deriving DecidableEq, Repr

def Mem.files (m : Mem) : List Name := m.logFiles.map (·.name) ++ m.active.toList.map (·.name)

structure State (α β : Type) where
  dir : Dir β
  mem : Option Mem
  /-- ghost: acknowledged appends whose file has not been purged, tagged with their file. -/
  acked : List (Name × α)
  /-- ghost: appends cut short by a crash (whatever prefix reached the file), tagged with their file. -/
  inflight : List (Name × α)

def init {α β : Type} : State α β := ⟨[], none, [], []⟩

inductive Op (α : Type) where
  | open
  | append (e : α) (nm : Name)
  | rotate
  | close
  | purge (k : Nat)
  | all
  | crash
  | crashAppend (e : α) (nm : Name) (n : Nat)

inductive Res (α : Type) where
  | ok
  | entries (l : List (Name × α))
  | err
  | down
deriving DecidableEq

def fileSize {α β : Type} (cfg : Cfg α β) (bs : List β) : Nat := (bs.map cfg.weight).sum

def flush (m : Mem) : Mem :=
  match m.active with
  | none => m
  | some st => ⟨m.logFiles ++ [st], none⟩

/-- `rotate()`: finalize the active file, then create `nm` with `O_EXCL`. -/
def rotate {β : Type} (d : Dir β) (m : Mem) (nm : Name) : Dir β × Mem × Bool :=
  let m1 := flush m
  if nm ∈ d.names then (d, m1, false)
  else (d ++ [(nm, [])], { m1 with active := some ⟨nm, 0⟩ }, true)

def maybeRotate {α β : Type} (cfg : Cfg α β) (d : Dir β) (m : Mem) (nm : Name) : Dir β × Mem × Bool :=
  match m.active with
  | none => rotate d m nm
  | some st =>
    if fileSize cfg ((d.get st.name).getD []) > cfg.rotateAt then rotate d m nm else (d, m, true)

/-- Insertion into a name-sorted directory listing (structural recursion, so that concrete histories
reduce by `decide`). -/
def insertFile {β : Type} (f : Name × List β) : Dir β → Dir β
  | [] => [f]
  | g :: t => if f.1 ≤ g.1 then f :: g :: t else g :: insertFile f t

/-- `slices.SortFunc(dirEntries, by name)`; names are unique, so the sorted order is unique. -/
def sortByName {β : Type} (d : Dir β) : Dir β := d.foldr insertFile []

def hydrate {α β : Type} (cfg : Cfg α β) (d : Dir β) : Mem :=
  let sorted := sortByName d
  ⟨sorted.map (fun f => ⟨f.1, maxEpochOf cfg (readFile cfg.codec f.2)⟩), none⟩

def readAll {α β : Type} (cfg : Cfg α β) (d : Dir β) : List Name → Option (List (Name × α))
  | [] => some []
  | nm :: rest =>
    match d.get nm, readAll cfg d rest with
    | some bs, some r => some ((readFile cfg.codec bs).map (fun e => (nm, e)) ++ r)
    | _, _ => none

/-- The shared front part of `Append`: rotate if needed and write `bs` to the active file. Returns the
directory, the memory object and the name + stat of the file written to, or `none` on failure. -/
def writeRec {α β : Type} (cfg : Cfg α β) (d : Dir β) (m : Mem) (nm : Name) (bs : List β) :
    Dir β × Mem × Option Stat :=
  let (d1, m1, ok) := maybeRotate cfg d m nm
  if ok then
    match m1.active with
    | none => (d1, m1, none)
    | some st => (d1.appendTo st.name bs, m1, some st)
  else (d1, m1, none)

def step {α β : Type} (cfg : Cfg α β) (s : State α β) : Op α → State α β × Res α
  | .open => ({ s with mem := some (hydrate cfg s.dir) }, .ok)
  | .crash => ({ s with mem := none }, .ok)
  | .rotate | .close =>
    match s.mem with
    | none => (s, .down)
    | some m => ({ s with mem := some (flush m) }, .ok)
  | .append e nm =>
    match s.mem with
    | none => (s, .down)
    | some m =>
      match writeRec cfg s.dir m nm (cfg.codec.enc e) with
      | (d, m1, none) => ({ s with dir := d, mem := some m1 }, .err)
      | (d, m1, some st) =>
        ({ dir := d
           mem := some { m1 with active := some { st with maxEpoch := max st.maxEpoch (cfg.epoch e) } }
           acked := s.acked ++ [(st.name, e)]
           inflight := s.inflight }, .ok)
  | .crashAppend e nm n =>
    match s.mem with
    | none => (s, .down)
    | some m =>
      match writeRec cfg s.dir m nm ((cfg.codec.enc e).take n) with
      | (d, _, none) => ({ s with dir := d, mem := none }, .err)
      | (d, _, some st) =>
        ({ dir := d, mem := none, acked := s.acked, inflight := s.inflight ++ [(st.name, e)] }, .ok)
  | .purge k =>
    match s.mem with
    | none => (s, .down)
    | some m =>
      let del := (m.logFiles.filter (fun st => st.maxEpoch < k)).map (·.name)
      ({ dir := s.dir.filter (fun f => !(del.contains f.1))
         mem := some { m with logFiles := m.logFiles.filter (fun st => !(decide (st.maxEpoch < k))) }
         acked := s.acked.filter (fun p => !(del.contains p.1))
         inflight := s.inflight.filter (fun p => !(del.contains p.1)) }, .ok)
  | .all =>
    match s.mem with
    | none => (s, .down)
    | some m =>
      match readAll cfg s.dir m.files with
      | none => (s, .err)
      | some r => (s, .entries r)

def run {α β : Type} (cfg : Cfg α β) (s : State α β) : List (Op α) → State α β
  | [] => s
  | op :: ops => run cfg (step cfg s op).1 ops

/-- Acknowledged (and unpurged) entries of one file, in acknowledgement order. -/
def ackedOf {α β : Type} (s : State α β) (nm : Name) : List α :=
  (s.acked.filter (fun p => p.1 = nm)).map (·.2)

def inflightOf {α β : Type} (s : State α β) (nm : Name) : List α :=
  (s.inflight.filter (fun p => p.1 = nm)).map (·.2)

/-! ## Concrete codecs (non-vacuity; the second one is what the driver runs) -/

/-- Length-prefixed byte strings over `Nat` "bytes": `enc p = |p| :: p`. -/
def lpCodec : Codec (List Nat) Nat where
  enc p := p.length :: p
  dec1
    | [] => none
    | n :: rest => if n ≤ rest.length then some (rest.take n, rest.drop n) else none

/-- A record as the driver sees it: identity, epoch, encoded size in bytes. -/
structure DEntry where
  id : Nat
  epoch : Nat
  size : Nat
deriving DecidableEq, Repr

/-- Record-level token abstraction of the byte stream: a record is `[head, tail]`; any proper prefix of
its bytes is `[]` or `[head]`. Weights add up to the encoded size. -/
inductive Tok where
  | head (e : DEntry)
  | tail (e : DEntry)
deriving DecidableEq, Repr

def tokCodec : Codec DEntry Tok where
  enc e := [.head e, .tail e]
  dec1
    | .head e :: .tail e' :: rest => if e = e' then some (e, rest) else none
    | _ => none

def tokCfg (rotateAt : Nat) : Cfg DEntry Tok where
  codec := tokCodec
  epoch := (·.epoch)
  weight
    | .head _ => 1
    | .tail e => e.size - 1
  rotateAt := rotateAt

end F3.Wal
