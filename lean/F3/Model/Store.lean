/-!
# Model of the certificate store (`certstore/certstore.go`, `certstore/snapshot.go`) and of the
power-table arithmetic it calls (`certs.ApplyPowerTableDiffs`). Core-only, executable.

Conventions (DESIGN §3): instances are `Nat`; big-integer powers are `Int`; public keys, certificate
bytes and CIDs are interned by the harness (equal bytes ⇔ equal id; key id `0` is the empty key).
A CID is modelled by the value it is the hash of (`Commit.known t`): collision-freeness of
blake2b-256 and injectivity of the CBOR encoding are part of the trusted base.

The datastore is an association list `Key → Val` with atomic single-key put / delete and a key
query. The key layout and, for every mutating operation, the *sequence of datastore writes* are kept
exact: C10 quantifies over every prefix of that sequence.
-/
deriving instance DecidableEq for Except

namespace F3.Store

/-! ## Power tables (`gpbft.PowerEntries`, `certs.PowerTableDiff`) -/

structure Entry where
  id : Nat
  power : Int
  key : Nat
deriving DecidableEq, Repr, Inhabited

abbrev Table := List Entry

structure Delta where
  id : Nat
  dpower : Int
  key : Nat
deriving DecidableEq, Repr, Inhabited

abbrev Diff := List Delta

/-- The Go map `map[ActorID]PowerEntry`, represented canonically: sorted by id, no duplicates. -/
abbrev PMap := List Entry

def pmLookup : PMap → Nat → Option Entry
  | [], _ => none
  | e :: m, i => if e.id = i then some e else pmLookup m i

def pmInsert : PMap → Entry → PMap
  | [], e => [e]
  | x :: m, e =>
    if e.id < x.id then e :: x :: m
    else if e.id = x.id then e :: m
    else x :: pmInsert m e

def pmErase : PMap → Nat → PMap
  | [], _ => []
  | x :: m, i => if x.id = i then m else x :: pmErase m i

/-- `PowerTableArrayToMap` (later entries win). -/
def toMap (t : Table) : PMap := t.foldl pmInsert []

/-- `PowerEntries.Less` as a total preorder: power descending, then id ascending. -/
def entryLe (a b : Entry) : Bool :=
  decide (b.power < a.power) || (decide (a.power = b.power) && decide (a.id ≤ b.id))

def insertEntry (e : Entry) : Table → Table
  | [] => [e]
  | x :: r => if entryLe e x then e :: x :: r else x :: insertEntry e r

/-- `PowerTableMapToArray`: collect in map order, `sort.Sort` (an insertion sort here; with unique ids
the order is strict and total, so every correct sort yields the same array). -/
def toArray (m : PMap) : Table := m.foldr insertEntry []

inductive DErr where
  | notSorted | emptyDelta | unchangedKey | zeroWithKey | newNonPositive | newNoKey | negative
deriving DecidableEq, Repr

def finishEntry (m : PMap) (pe : Entry) : Except DErr PMap :=
  if pe.power = 0 then .ok (pmErase m pe.id)
  else if 0 < pe.power then .ok (pmInsert m pe)
  else .error .negative

/-- Body of the inner loop of `ApplyPowerTableDiffsToMap` for one delta. -/
def applyDelta (m : PMap) (d : Delta) : Except DErr PMap :=
  if d.dpower = 0 ∧ d.key = 0 then .error .emptyDelta else
  match pmLookup m d.id with
  | some pe =>
    if d.key = pe.key then .error .unchangedKey else
    if d.key ≠ 0 ∧ pe.power + d.dpower = 0 then .error .zeroWithKey else
    finishEntry m { id := pe.id, power := pe.power + d.dpower, key := if d.key ≠ 0 then d.key else pe.key }
  | none =>
    if d.dpower ≤ 0 then .error .newNonPositive else
    if d.key = 0 then .error .newNoKey else
    finishEntry m { id := d.id, power := d.dpower, key := d.key }

/-- `i > 0 && d.ParticipantID <= lastActorId` (`last = none` for the first element of a diff). -/
def outOfOrder : Option Nat → Nat → Bool
  | some l, id => decide (id ≤ l)
  | none, _ => false

/-- One diff, from its element after `last`. -/
def applyDiffFrom (m : PMap) (last : Option Nat) : Diff → Except DErr PMap
  | [] => .ok m
  | d :: ds =>
    if outOfOrder last d.id then .error .notSorted else
    match applyDelta m d with
    | .error e => .error e
    | .ok m' => applyDiffFrom m' (some d.id) ds

def applyDiffMap (m : PMap) (d : Diff) : Except DErr PMap := applyDiffFrom m none d

/-- `ApplyPowerTableDiffsToMap` over several diffs. -/
def applyDiffsMap (m : PMap) : List Diff → Except DErr PMap
  | [] => .ok m
  | d :: ds =>
    match applyDiffMap m d with
    | .error e => .error e
    | .ok m' => applyDiffsMap m' ds

/-- `ApplyPowerTableDiffs`. -/
def applyDiffs (t : Table) (ds : List Diff) : Except DErr Table :=
  match applyDiffsMap (toMap t) ds with
  | .error e => .error e
  | .ok m => .ok (toArray m)

/-- What `Store.Put` does with a certificate's delta: untouched table when the delta is empty. -/
def tableStep (t : Table) (d : Diff) : Except DErr Table :=
  if d = [] then .ok t else applyDiffs t [d]

/-! ## Certificates and the datastore -/

inductive Commit where
  | known (t : Table)      -- the CID of the CBOR encoding of `t`
  | opaque (n : Nat)       -- some other CID
deriving DecidableEq, Repr

inductive ChainKind where
  | ok | zero | invalid
deriving DecidableEq, Repr

structure Cert where
  inst : Nat
  id : Nat               -- interned CBOR bytes
  delta : Diff
  commit : Commit        -- `SupplementalData.PowerTable`
  chain : ChainKind
deriving DecidableEq, Repr

instance : Inhabited Cert := ⟨⟨0, 0, [], .opaque 0, .ok⟩⟩

inductive Key where
  | latest | first | cert (i : Nat) | power (i : Nat) | tomb   -- under `/certstore`
  | rootTomb                                                   -- `/tombstone` of the datastore handed to the store
  | foreign (n : Nat)                                          -- any other key outside `/certstore`
deriving DecidableEq, Repr

def Key.inner : Key → Bool
  | .rootTomb | .foreign _ => false
  | _ => true

inductive Val where
  | num (n : Nat)        -- 8-byte big-endian instance number
  | tbl (t : Table)
  | cert (c : Cert)
  | tomb
  | junk (n : Nat)
deriving DecidableEq, Repr

abbrev DS := List (Key × Val)

def dsGet (ds : DS) (k : Key) : Option Val :=
  match ds with
  | [] => none
  | (k', v) :: r => if k' = k then some v else dsGet r k

def dsDel (ds : DS) (k : Key) : DS := ds.filter (fun kv => decide (kv.1 ≠ k))

def dsPut (ds : DS) (k : Key) (v : Val) : DS := (k, v) :: dsDel ds k

def dsKeys (ds : DS) : List Key := ds.map (·.1)

inductive W where
  | put (k : Key) (v : Val)
  | del (k : Key)
deriving DecidableEq, Repr

def applyW (ds : DS) : W → DS
  | .put k v => dsPut ds k v
  | .del k => dsDel ds k

def applyWs (ds : DS) (ws : List W) : DS := ws.foldl applyW ds

inductive Err where
  | emptyInitial | badOrder | corrupt | loadLatest | notInitialized | alreadyInitialized
  | firstMismatch | tableMismatch | noTable | beforeFirst | future | notFound (i : Nat)
  | applyDelta | bottom | invalidChain | gap | cidMismatch | emptyTable
  | rangeOrder | rangeTooLarge | noHandle | unknownLatest
  -- snapshot import
  | snapHeader | manifestFirst | manifestTable | snapDecode | snapMissing | snapSurplus
  | snapNoCert | snapLatest | wouldBlock
deriving DecidableEq, Repr

/-- Result of an operation: the datastore writes it performed (in order; also on failure) and its
outcome. The datastore afterwards is `applyWs ds ws`. -/
structure Out (α : Type) where
  ws : List W
  res : Except Err α

structure Cfg where
  freq : Nat              -- powerTableFrequency of an opened store
  openFreq : Nat          -- powerTableFrequency in force *while* a store is being opened (the package
                          -- default; production: `openFreq = freq`; a test accessor lowers `freq` afterwards)
  resumeInner : Bool      -- does `open` also continue a wipe whose tombstone is inside `/certstore`?
  lenientEOF : Bool       -- does the snapshot reader report a block cut right after its length prefix as a
                          -- clean end of stream (`io.ReadFull` returns plain `io.EOF` when no byte was read)?
deriving Repr

/-- The configuration in force inside `OpenStore` / `OpenOrCreateStore`. -/
def Cfg.opening (cfg : Cfg) : Cfg := { cfg with freq := cfg.openFreq }

def maxInt : Nat := 2 ^ 63 - 1

/-! ### Reads -/

def getNum (ds : DS) (k : Key) : Except Err (Option Nat) :=
  match dsGet ds k with
  | none => .ok none
  | some (.num n) => .ok (some n)
  | some _ => .error .corrupt

def getCert (ds : DS) (i : Nat) : Except Err Cert :=
  match dsGet ds (.cert i) with
  | none => .error (.notFound i)
  | some (.cert c) => .ok c
  | some _ => .error .corrupt

def readTable (ds : DS) (i : Nat) : Except Err Table :=
  match dsGet ds (.power i) with
  | some (.tbl t) => .ok t
  | _ => .error .noTable

/-- The collecting loop of `GetRange`: stops at the first missing key. -/
def rangeFrom (ds : DS) (a : Nat) : Nat → Except Err (List Cert)
  | 0 => .ok []
  | n + 1 =>
    match getCert ds a with
    | .ok c =>
      match rangeFrom ds (a + 1) n with
      | .ok cs => .ok (c :: cs)
      | .error e => .error e
    | .error (.notFound _) => .ok []
    | .error e => .error e

/-- `GetRange`: the certificates found and, when incomplete, the `ErrCertNotFound` instance. -/
def getRange (ds : DS) (a b : Nat) : Except Err (List Cert × Option Nat) :=
  if b < a then .error .rangeOrder
  else if b - a ≥ maxInt then .error .rangeTooLarge
  else match rangeFrom ds a (b - a + 1) with
    | .error e => .error e
    | .ok cs => if cs.length < b - a + 1 then .ok (cs, some (a + cs.length)) else .ok (cs, none)

/-! ### The store handle -/

structure Mem where
  first : Nat
  latest : Option Cert
  latestTable : Table
  subs : List (Nat × List Cert) := []   -- subscriber id, channel contents (capacity 1)
  nextSub : Nat := 0
deriving Repr

def Mem.next (m : Mem) : Nat :=
  match m.latest with
  | some c => c.inst + 1
  | none => m.first

def getPowerTable (cfg : Cfg) (m : Mem) (ds : DS) (i : Nat) : Except Err Table :=
  if i < m.first then .error .beforeFirst
  else if i > m.next then .error .future
  else if i = m.next ∧ m.latestTable ≠ [] then .ok m.latestTable
  else
    let start := max (i - i % cfg.freq) m.first
    match readTable ds start with
    | .error e => .error e
    | .ok pt =>
      if start = i then .ok pt
      else match getRange ds start (i - 1) with
        | .error e => .error e
        | .ok (_, some j) => .error (.notFound j)
        | .ok (cs, none) =>
          match applyDiffs pt (cs.map (·.delta)) with
          | .error _ => .error .applyDelta
          | .ok t => .ok t

/-! ### Resumable wipe -/

inductive Scope where
  | raw | inner
deriving DecidableEq, Repr

def Scope.tomb : Scope → Key
  | .raw => .rootTomb
  | .inner => .tomb

def scopeKeys (sc : Scope) (ds : DS) : List Key :=
  match sc with
  | .raw => dsKeys ds
  | .inner => (dsKeys ds).filter Key.inner

/-- `maybeContinueDelete` on the raw datastore (`raw`) or on the namespaced one (`inner`). `order` is
the key order in which the datastore's query returned the keys; it must be a permutation of the keys
in scope (`none` otherwise — a correspondence failure, not an implementation outcome). -/
def continueDelete (sc : Scope) (order : List Key) (ds : DS) : Option (List W) :=
  if (dsGet ds sc.tomb).isNone then some []
  else if order.isPerm (scopeKeys sc ds) then
    some ((order.filter (fun k => decide (k ≠ sc.tomb))).map W.del ++ [W.del sc.tomb])
  else none

/-- Query orders needed by one `open`: raw scan, then (fixed tree only) namespaced scan. -/
structure Orders where
  raw : List Key := []
  inner : List Key := []
deriving Repr

/-- `open`: continue an interrupted wipe, then load the latest certificate. -/
def openCore (cfg : Cfg) (ds : DS) (o : Orders) : Out (Option Cert) :=
  match continueDelete .raw o.raw ds with
  | none => ⟨[], .error .badOrder⟩
  | some w1 =>
    let ds1 := applyWs ds w1
    match (if cfg.resumeInner then continueDelete .inner o.inner ds1 else some []) with
    | none => ⟨w1, .error .badOrder⟩
    | some w2 =>
      let ds2 := applyWs ds1 w2
      match getNum ds2 .latest with
      | .error e => ⟨w1 ++ w2, .error e⟩
      | .ok none => ⟨w1 ++ w2, .ok none⟩
      | .ok (some n) =>
        match getCert ds2 n with
        | .ok c => ⟨w1 ++ w2, .ok (some c)⟩
        | .error (.notFound _) => ⟨w1 ++ w2, .error .loadLatest⟩
        | .error e => ⟨w1 ++ w2, .error e⟩

/-- `OpenStore`. -/
def openStore (cfg : Cfg) (ds : DS) (o : Orders) : Out Mem :=
  let oc := openCore cfg ds o
  match oc.res with
  | .error e => ⟨oc.ws, .error e⟩
  | .ok latest =>
    let ds' := applyWs ds oc.ws
    match getNum ds' .first with
    | .error e => ⟨oc.ws, .error e⟩
    | .ok none => ⟨oc.ws, .error .notInitialized⟩
    | .ok (some f) =>
      let m0 : Mem := { first := f, latest := latest, latestTable := [] }
      match getPowerTable cfg.opening m0 ds' m0.next with
      | .error e => ⟨oc.ws, .error e⟩
      | .ok t => ⟨oc.ws, .ok { m0 with latestTable := t }⟩

/-- `CreateStore`. -/
def createStore (cfg : Cfg) (ds : DS) (o : Orders) (first : Nat) (init : Table) : Out Mem :=
  if init = [] then ⟨[], .error .emptyInitial⟩ else
  let oc := openCore cfg ds o
  match oc.res with
  | .error e => ⟨oc.ws, .error e⟩
  | .ok latest =>
    let ds' := applyWs ds oc.ws
    match getNum ds' .first with
    | .ok (some _) => ⟨oc.ws, .error .alreadyInitialized⟩
    | _ =>
      ⟨oc.ws ++ [W.put (.power first) (.tbl init), W.put .first (.num first)],
       .ok { first := first, latest := latest, latestTable := init }⟩

/-- `OpenOrCreateStore`. -/
def openOrCreateStore (cfg : Cfg) (ds : DS) (o : Orders) (first : Nat) (init : Table) : Out Mem :=
  if init = [] then ⟨[], .error .emptyInitial⟩ else
  let oc := openCore cfg ds o
  match oc.res with
  | .error e => ⟨oc.ws, .error e⟩
  | .ok latest =>
    let ds' := applyWs ds oc.ws
    match getNum ds' .first with
    | .error e => ⟨oc.ws, .error e⟩
    | .ok (some f) =>
      if first ≠ f then ⟨oc.ws, .error .firstMismatch⟩ else
      match dsGet ds' (.power first) with
      | none => ⟨oc.ws, .error .noTable⟩
      | some v =>
        if v ≠ .tbl init then ⟨oc.ws, .error .tableMismatch⟩ else
        let m0 : Mem := { first := first, latest := latest, latestTable := [] }
        match latest with
        | none => ⟨oc.ws, .ok { m0 with latestTable := init }⟩
        | some c =>
          match getPowerTable cfg.opening m0 ds' (c.inst + 1) with
          | .error e => ⟨oc.ws, .error e⟩
          | .ok t => ⟨oc.ws, .ok { m0 with latestTable := t }⟩
    | .ok none =>
      let ws := oc.ws ++ [W.put (.power first) (.tbl init), W.put .first (.num first)]
      let m0 : Mem := { first := first, latest := latest, latestTable := [] }
      match latest with
      | none => ⟨ws, .ok { m0 with latestTable := init }⟩
      | some c =>
        match getPowerTable cfg.opening m0 (applyWs ds ws) (c.inst + 1) with
        | .error e => ⟨ws, .error e⟩
        | .ok t => ⟨ws, .ok { m0 with latestTable := t }⟩

/-! ### Put and subscribers -/

/-- Non-blocking receive (`select { case <-ch: default: }`). -/
def chanDrain (buf : List Cert) : List Cert := buf.drop 1

/-- Send on a channel of capacity 1: `none` = the send would block. -/
def chanSend (buf : List Cert) (c : Cert) : Option (List Cert) :=
  if buf.length < 1 then some (buf ++ [c]) else none

/-- The notification loop of `Put`: drain, then send. `none` = some send would block. -/
def notifyAll : List (Nat × List Cert) → Cert → Option (List (Nat × List Cert))
  | [], _ => some []
  | (i, buf) :: r, c =>
    match chanSend (chanDrain buf) c, notifyAll r c with
    | some b, some r' => some ((i, b) :: r')
    | _, _ => none

/-- Outcome of `Put`: new handle state (unchanged on rejection / stale re-put). -/
def put (cfg : Cfg) (m : Mem) (c : Cert) : Out Mem :=
  if c.inst < m.first then ⟨[], .error .beforeFirst⟩
  else if c.chain = .zero then ⟨[], .error .bottom⟩
  else if c.chain = .invalid then ⟨[], .error .invalidChain⟩
  else if c.inst > m.next then ⟨[], .error .gap⟩
  else if c.inst < m.next then ⟨[], .ok m⟩
  else
    match tableStep m.latestTable c.delta with
    | .error _ => ⟨[], .error .applyDelta⟩
    | .ok t =>
      if c.commit ≠ Commit.known t then ⟨[], .error .cidMismatch⟩
      else if t = [] then ⟨[], .error .emptyTable⟩
      else
        let ws := [W.put (.cert c.inst) (.cert c)]
          ++ (if (c.inst + 1) % cfg.freq = 0 then [W.put (.power (c.inst + 1)) (.tbl t)] else [])
          ++ [W.put .latest (.num c.inst)]
        match notifyAll m.subs c with
        | none => ⟨ws, .error .wouldBlock⟩
        | some subs => ⟨ws, .ok { m with latest := some c, latestTable := t, subs := subs }⟩

/-- `Subscribe`: a fresh channel pre-loaded with the latest certificate, if any. -/
def subscribe (m : Mem) : Mem × Nat :=
  ({ m with subs := m.subs ++ [(m.nextSub, m.latest.toList)], nextSub := m.nextSub + 1 }, m.nextSub)

/-- Subscriber side: non-blocking receive on subscription `i` (`none`: no such subscription). -/
def recv (m : Mem) (i : Nat) : Option (Mem × Option Cert) :=
  match m.subs.find? (·.1 = i) with
  | none => none
  | some (_, buf) =>
    some ({ m with subs := m.subs.map (fun s => if s.1 = i then (s.1, chanDrain s.2) else s) }, buf.head?)

def unsubscribe (m : Mem) (i : Nat) : Mem :=
  { m with subs := m.subs.filter (fun s => decide (s.1 ≠ i)) }

/-- `DeleteAll`: tombstone inside the namespace, then the namespaced wipe. -/
def deleteAll (ds : DS) (order : List Key) : Out Unit :=
  let w0 := W.put .tomb .tomb
  match continueDelete .inner order (applyW ds w0) with
  | none => ⟨[w0], .error .badOrder⟩
  | some ws => ⟨w0 :: ws, .ok ()⟩

/-! ## Snapshots (`snapshot.go`) -/

structure Header where
  version : Nat
  first : Nat
  latest : Nat
  init : Table
deriving DecidableEq, Repr

/-- What the bytes of one length-prefixed block decode to. -/
inductive Body where
  | header (h : Header)
  | cert (c : Cert)
  | junk
deriving DecidableEq, Repr

/-- A block on the wire: `vlen` bytes of uvarint length prefix, `blen` bytes of body. -/
structure Block where
  vlen : Nat
  blen : Nat
  body : Body
deriving DecidableEq, Repr

def Block.size (b : Block) : Nat := b.vlen + b.blen

/-- How a (possibly truncated) stream ends. -/
inductive Tail where
  | clean          -- at a block boundary: `ReadUvarint` sees `io.EOF`
  | midVarint      -- inside a length prefix: `io.ErrUnexpectedEOF`
  | afterVarint    -- prefix complete, no body byte: `io.ReadFull` reports plain `io.EOF`
  | midBody        -- inside a body: `io.ErrUnexpectedEOF`
deriving DecidableEq, Repr

structure Stream where
  blocks : List Block
  tail : Tail
deriving DecidableEq, Repr

/-- The first `n` bytes of a stream of complete blocks. -/
def truncateBlocks : List Block → Nat → Stream
  | [], _ => ⟨[], .clean⟩
  | b :: r, n =>
    if n = 0 then ⟨[], .clean⟩
    else if n < b.vlen then ⟨[], .midVarint⟩
    else if n = b.vlen then (if b.blen = 0 then ⟨[b], .clean⟩ else ⟨[], .afterVarint⟩)
    else if n < b.vlen + b.blen then ⟨[], .midBody⟩
    else
      let s := truncateBlocks r (n - (b.vlen + b.blen))
      ⟨b :: s.blocks, s.tail⟩

def totalSize : List Block → Nat
  | [] => 0
  | b :: r => b.size + totalSize r

/-- `readSnapshotBlockBytes` at the end of the complete blocks: `true` = reported as `io.EOF`, which the
importer's loop takes for the end of the snapshot. -/
def Tail.isEOF (lenient : Bool) : Tail → Bool
  | .clean => true
  | .afterVarint => lenient
  | _ => false

structure Manifest where
  first : Nat
  init : Option Commit     -- `InitialPowerTable` CID, if defined
deriving Repr

structure ImpSt where
  ws : List W
  pm : PMap
  last : Option Cert

/-- The certificate loop of the import, from expected instance `i`. -/
def importLoop (cfg : Cfg) (h : Header) (tail : Tail) : Nat → ImpSt → List Block → ImpSt × Option Err
  | _, st, [] => if tail.isEOF cfg.lenientEOF then (st, none) else (st, some .snapDecode)
  | i, st, b :: r =>
    match b.body with
    | .cert c =>
      let st := { st with last := some c }
      if i ≠ c.inst then (st, some .snapMissing)
      else if i > h.latest then (st, some .snapSurplus)
      else
        let st := { st with ws := st.ws ++ [W.put (.cert c.inst) (.cert c)] }
        match applyDiffMap st.pm c.delta with
        | .error _ => (st, some .applyDelta)
        | .ok pm =>
          let st := { st with pm := pm }
          if (c.inst + 1) % cfg.freq = 0 then
            let pt := toArray pm
            if c.commit ≠ Commit.known pt then (st, some .cidMismatch)
            else importLoop cfg h tail (i + 1) { st with ws := st.ws ++ [W.put (.power (c.inst + 1)) (.tbl pt)] } r
          else importLoop cfg h tail (i + 1) st r
    | _ => (st, some .snapDecode)

/-- Validation of the header against the manifest, if one is supplied. -/
def manifestCheck (mf : Option Manifest) (h : Header) : Option Err :=
  match mf with
  | none => none
  | some m =>
    if m.first ≠ h.first then some .manifestFirst
    else match m.init with
      | none => none
      | some c => if c ≠ Commit.known h.init then some .manifestTable else none

/-- `importSnapshotToDatastoreWithTestingPowerTableFrequency` into datastore `ds`. -/
def importSnapshot (cfg : Cfg) (ds : DS) (o : Orders) (s : Stream) (mf : Option Manifest) : Out Unit :=
  match s.blocks with
  | [] => ⟨[], .error .snapHeader⟩
  | hb :: rest =>
    match hb.body with
    | .header h =>
      match manifestCheck mf h with
      | some e => ⟨[], .error e⟩
      | none =>
        let oc := openOrCreateStore cfg ds o h.first h.init
        match oc.res with
        | .error e => ⟨oc.ws, .error e⟩
        | .ok _ =>
          let (st, err) := importLoop cfg h s.tail h.first ⟨oc.ws, toMap h.init, none⟩ rest
          match err with
          | some e => ⟨st.ws, .error e⟩
          | none =>
            match st.last with
            | none => ⟨st.ws, .error .snapNoCert⟩
            | some c =>
              if c.inst ≠ h.latest then ⟨st.ws, .error .snapLatest⟩
              else if c.commit ≠ Commit.known (toArray st.pm) then ⟨st.ws, .error .cidMismatch⟩
              else ⟨st.ws ++ [W.put .latest (.num h.latest)], .ok ()⟩
    | _ => ⟨[], .error .snapHeader⟩

/-- Certificate bodies written by `ExportSnapshot` for instances `a, a+1, …` (`n` of them), and the
error if one is missing (the bodies written before it stay in the output). -/
def exportCerts (ds : DS) (a : Nat) : Nat → List Cert × Option Err
  | 0 => ([], none)
  | n + 1 =>
    match getCert ds a with
    | .error e => ([], some e)
    | .ok c => let (cs, e) := exportCerts ds (a + 1) n; (c :: cs, e)

/-- `ExportSnapshot`: header and certificate bodies in output order. -/
def exportSnapshot (cfg : Cfg) (m : Mem) (ds : DS) (latest : Nat) : Except Err (Header × List Cert) :=
  match getPowerTable cfg m ds m.first with
  | .error e => .error e
  | .ok init =>
    let h : Header := ⟨1, m.first, latest, init⟩
    match exportCerts ds m.first (latest + 1 - m.first) with
    | (cs, none) => .ok (h, cs)
    | (_, some e) => .error e

/-- `ExportLatestSnapshot`. -/
def exportLatest (cfg : Cfg) (m : Mem) (ds : DS) : Except Err (Header × List Cert) :=
  match m.latest with
  | none => .error .unknownLatest
  | some c => exportSnapshot cfg m ds c.inst

/-- Wire form of an export given the encoded sizes of the header and of each certificate. -/
def frame (h : Header) (hsz : Nat × Nat) (cs : List Cert) (szs : List (Nat × Nat)) : List Block :=
  ⟨hsz.1, hsz.2, .header h⟩ :: (cs.zip szs).map (fun (c, s) => ⟨s.1, s.2, .cert c⟩)

end F3.Store
