import F3.Model.Instance
import F3.Model.Equiv
/-!
# What a restarting participant puts on the wire (C01 ∘ C12)

Core-only, executable.  A participant that crashes inside an instance is rebuilt from scratch
(`newInstance`); what it *asks* to broadcast (`Eff.broadcast`, `host.RequestBroadcast`) passes through the
self-equivocation filter, which is re-armed from the WAL at every start (C12, `F3.Equiv`).  For a fixed key
the signature of a vote is a function of (instance, round, phase, value), so at the level of votes the
filter is: the first value requested for a slot `(round, phase)` wins, a repeat of the same vote passes, a
request for another value is dropped and never leaves the node.
-/
namespace F3.Restart
open F3.Instance

/-- a broadcast request: (round, phase, value) -/
abbrev Req := Nat × Phase × Chain

def reqOf : Eff → Option Req
  | .broadcast r ph v _ _ => some (r, ph, v)
  | _ => none

/-- the broadcast requests of one incarnation, in the order they were made -/
def requests (es : List Eff) : List Req := es.filterMap reqOf

def sameSlot (a b : Req) : Bool := a.1 == b.1 && a.2.1 == b.2.1

/-- the filter at the level of votes: no vote for the same slot with another value has passed before -/
def allowed (seen : List Req) (q : Req) : Bool := seen.all (fun s => !sameSlot s q || s.2.2 == q.2.2)

/-- sequential scan with the table of what has passed so far (the table survives restarts: it is the WAL) -/
def scan (seen : List Req) : List Req → List Req
  | [] => seen
  | q :: qs => scan (if allowed seen q then seen ++ [q] else seen) qs

/-- everything the incarnations of one participant publish, given the requests of each incarnation in order -/
def published (segs : List (List Req)) : List Req := scan [] segs.flatten

/-- the message of `F3.Equiv` a request stands for: `sig` is the signature of the vote under the
participant's key -/
def toMsg (inst sender : Nat) (sig : Req → Nat) (q : Req) : Equiv.Msg :=
  { inst := inst, sender := sender, round := q.1, phase := q.2.1.toNat, sig := sig q }

/-- the crash-free history of the broadcast path: every incarnation starts by re-arming the filter from
the WAL and then makes its requests -/
def history (inst sender : Nat) (sig : Req → Nat) (segs : List (List Req)) : List Equiv.Op :=
  segs.flatMap (fun s => Equiv.Op.restart :: s.map (fun q => Equiv.Op.broadcast (toMsg inst sender sig q) 0))

end F3.Restart
