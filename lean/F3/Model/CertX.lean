import F3.Model.Certs
/-!
# Model of certificate exchange and polling (C16)

* `Store` — the part of `certstore.Store` the exchange uses: contiguous certificates from `first`,
  the initial power table, `Latest`, `GetRange`, `GetPowerTable`, `Put`;
* `serve` — `certexchange.Server.handleRequest`;
* `clientRecv` — the receive loop of `certexchange.Client.Request`;
* `poll` — `polling.Poller.Poll` (with `CatchUp`), against an arbitrary responder.

`serve` models the range computation *with the minimal repair of defect S8 applied* (an exclusive
end: `first + limit - 1`, nothing for `limit = 0`, clamp also on wrap-around); on a tree without the
repair the oracle `count ≤ limit` fails at the wire level.
Core-only, executable.
-/
namespace F3.CertX
open F3.Certs

def maxResponseLen : Nat := 256
def maxRequestLength : Nat := 256

/-! ## The certificate store as seen by the exchange -/

structure Store where
  first : Nat
  init : Table
  certs : List Cert
deriving DecidableEq, Repr

/-- instance of `Latest()`, if any -/
def Store.latest? (s : Store) : Option Nat :=
  if s.certs.isEmpty then none else some (s.first + s.certs.length - 1)

/-- the instance the next `Put` must have -/
def Store.nextInst (s : Store) : Nat := s.first + s.certs.length

def deltasBefore (s : Store) (i : Nat) : List Diff := (s.certs.take (i - s.first)).map (·.delta)

/-- `GetPowerTable` (checkpointing is transparent: C09) -/
def Store.getPowerTable (s : Store) (i : Nat) : Option Table :=
  if i < s.first then none
  else if s.nextInst < i then none
  else if i = s.first then some s.init
  else match applyDiffs s.init (deltasBefore s i) with
    | .ok t => some t
    | .error _ => none

def Store.latestTable (s : Store) : Option Table := s.getPowerTable s.nextInst

/-- `GetRange(start, end)` restricted to what the server does with it: the certificates it found
(an error with no certificates when `start > end`) -/
def Store.getRange (s : Store) (start stop : Nat) : List Cert :=
  if stop < start then []
  else if start < s.first then []
  else (s.certs.drop (start - s.first)).take (stop - start + 1)

inductive PutErr where
  | beforeFirst | bottom | badChain | gap | diff | cid | emptyTable | noTable
deriving DecidableEq, Repr

/-- `Store.Put` -/
def Store.put (s : Store) (c : Cert) : Except PutErr Store :=
  if c.inst < s.first then .error .beforeFirst
  else if c.chain.isEmpty then .error .bottom
  else if !chainValid c.chain then .error .badChain
  else if s.nextInst < c.inst then .error .gap
  else if c.inst < s.nextInst then .ok s
  else match s.latestTable with
    | none => .error .noTable
    | some lt =>
      let nt : Except DiffErr Table := if c.delta.isEmpty then .ok lt else applyDiff lt c.delta
      match nt with
      | .error _ => .error .diff
      | .ok nt =>
        if c.pt != .table nt then .error .cid
        else if nt.isEmpty then .error .emptyTable
        else .ok { s with certs := s.certs ++ [c] }

/-! ## Server -/

structure Request where
  first : Nat
  limit : Nat
  includePT : Bool
deriving DecidableEq, Repr

structure Header where
  pending : Nat
  pt : Option Table
deriving DecidableEq, Repr

/-- `PendingInstance` the server advertises -/
def Store.pending (s : Store) : Nat :=
  match s.latest? with
  | some l => u64 (l + 1)
  | none => 0

/-- inclusive end of the served range (`handleRequest`, repaired S8) for `pending > first`,
`0 < limit ≤ 256` -/
def serveEnd (first limit pending : Nat) : Nat :=
  let e := u64 (first + limit - 1)
  if pending ≤ e || e < first then pending - 1 else e

/-- `handleRequest`: `none` = the stream is reset before a header is written -/
def serve (s : Store) (r : Request) : Option (Header × List Cert) :=
  let limit := min r.limit maxResponseLen
  let pending := s.pending
  let pt : Option (Option Table) :=
    if r.first ≤ pending && r.includePT then
      match s.getPowerTable r.first with
      | none => none
      | some t => some (some t)
    else some none
  match pt with
  | none => none
  | some pt =>
    let certs :=
      if r.first < pending && 0 < limit then s.getRange r.first (serveEnd r.first limit pending)
      else []
    some (⟨pending, pt⟩, certs)

/-! ## Client -/

/-- what `Client.Request` hands to its caller from a stream of decoded items (`none` = bytes that
do not decode as a certificate within the size limit): stops at the first undecodable item, at the
first out-of-sequence instance, and after `limit` certificates. `i` = certificates accepted so far. -/
def clientRecv (first limit : Nat) (i : Nat) : List (Option Cert) → List Cert
  | [] => []
  | none :: _ => []
  | some c :: rest =>
    if limit ≤ i then []
    else if c.inst != u64 (first + i) then []
    else c :: clientRecv first limit (i + 1) rest

/-! ## Poller -/

structure PState where
  next : Nat
  table : Table
  store : Store
deriving DecidableEq, Repr

inductive Resp where
  /-- `Request` returned an error (dial failure, reset before / undecodable header) -/
  | fail
  | ok (pending : Nat) (items : List (Option Cert))
deriving DecidableEq, Repr

inductive Status where
  | miss | hit | failed | illegal
deriving DecidableEq, Repr

structure PollRes where
  status : Status := .miss
  received : Nat := 0
  newCerts : Nat := 0
  /-- `Poll` returned `(nil, err)`: the store refused a validated certificate / could not give a table -/
  internal : Bool := false
deriving DecidableEq, Repr

/-- `NewPoller` -/
def newPoller (s : Store) : Option PState :=
  let next := match s.latest? with | some l => u64 (l + 1) | none => 0
  match s.getPowerTable next with
  | some t => some ⟨next, t, s⟩
  | none => none

/-- `CatchUp`: `none` = internal error -/
def catchUp (st : PState) : Option PState :=
  match st.store.latest? with
  | none => some st
  | some l =>
    let next := u64 (l + 1)
    if next = st.next then some st
    else match st.store.getPowerTable next with
      | some t => some { st with next := next, table := t }
      | none => none

inductive CertOutcome where
  | cont | illegal | internal
deriving DecidableEq, Repr

/-- `l := p.Store.Latest(); l == nil || cert.GPBFTInstance > l.GPBFTInstance` -/
def isFresh (s : Store) (c : Cert) : Bool :=
  match s.latest? with
  | none => true
  | some l => decide (l < c.inst)

/-- the body of `for cert := range ch` -/
def pollCert (net : Nat) (st : PState) (res : PollRes) (c : Cert) : PState × PollRes × CertOutcome :=
  match stepCert net ⟨st.next, [], st.table, none⟩ c with
  | .error _ => (st, { res with status := .illegal }, .illegal)
  | .ok v =>
    let res := { res with received := res.received + 1 }
    if isFresh st.store c then
      match st.store.put c with
      | .error _ => (st, { res with internal := true }, .internal)
      | .ok s' => ({ next := v.next, table := v.table, store := s' }, { res with newCerts := res.newCerts + 1 }, .cont)
    else ({ st with next := v.next, table := v.table }, res, .cont)

def pollCerts (net : Nat) (st : PState) (res : PollRes) : List Cert → PState × PollRes × CertOutcome
  | [] => (st, res, .cont)
  | c :: cs =>
    match pollCert net st res c with
    | (st', res', .cont) => pollCerts net st' res' cs
    | r => r

/-- `Poll` against a responder `respond reqNo firstInstance`; `fuel` bounds the number of requests.
Every response is judged on its own: one that carries no certificate while advertising more ends the poll as
`failed` (`received == 0` counts the certificates of THIS response — before the repair recorded as S14 in
known_findings.json the Go loop tested the cumulative `res.ReceivedCertificates`, so a peer that had handed over
one certificate could keep the poll spinning by advertising more and sending nothing). Running out of fuel
reports `failed`. -/
def poll (net : Nat) (respond : Nat → Nat → Resp) : Nat → Nat → PState → PollRes → PState × PollRes
  | 0, _, st, res => (st, { res with status := .failed })
  | fuel + 1, n, st, res =>
    match catchUp st with
    | none => (st, { res with internal := true })
    | some st =>
      match respond n st.next with
      | .fail => (st, { res with status := .failed })
      | .ok pending items =>
        let resH := if st.next ≤ pending then { res with status := .hit } else res
        match pollCerts net st resH (clientRecv st.next maxRequestLength 0 items) with
        | (st', res', .cont) =>
          if pending ≤ st'.next then (st', res')
          else if res'.received = res.received then (st', { res' with status := .failed })
          else poll net respond fuel (n + 1) st' res'
        | (st', res', _) => (st', res')

/-- `Poll` while certificates also reach the local store through another channel (GPBFT deciding the instance
itself): `arrivals` are put into the store after `CatchUp` of the first request and before its response is read —
the window in which a received certificate can already be in the store (`isFresh = false`). Later requests
behave as in `poll`. -/
def pollWithArrivals (net : Nat) (respond : Nat → Nat → Resp) (fuel : Nat) (arrivals : List Cert)
    (st : PState) (res : PollRes) : PState × PollRes :=
  match catchUp st with
  | none => (st, { res with internal := true })
  | some st =>
    let st := { st with store := arrivals.foldl (fun s c => match s.put c with | .ok s' => s' | .error _ => s) st.store }
    match respond 0 st.next with
    | .fail => (st, { res with status := .failed })
    | .ok pending items =>
      let resH := if st.next ≤ pending then { res with status := .hit } else res
      match pollCerts net st resH (clientRecv st.next maxRequestLength 0 items) with
      | (st', res', .cont) =>
        if pending ≤ st'.next then (st', res')
        else if res'.received = res.received then (st', { res' with status := .failed })
        else poll net respond fuel 1 st' res'
      | (st', res', _) => (st', res')

/-- responder given by a finite script; past its end every request fails -/
def scriptResponder (script : List Resp) : Nat → Nat → Resp :=
  fun n _ => script.getD n .fail

/-- the honest server over `srv` as a responder to the poller's requests -/
def serverResponder (srv : Store) : Nat → Nat → Resp :=
  fun _ first =>
    match serve srv ⟨first, maxRequestLength, false⟩ with
    | none => .fail
    | some (h, cs) => .ok h.pending (cs.map some)

end F3.CertX
