import F3.Model.CodecBytes
import F3.Model.Merkle
/-! Byte-level model of what a participant signs (C14a):
`Payload.MarshalForSigningWithValueKey` (`gpbft/types.go`), `TipSet.MarshalForSigning` and
`ECChain.Key / KeysForPrefixes / AllPrefixes` (`gpbft/chain.go`), `vrfSerializeSigInput`
(`gpbft/vrf.go`). Core-only, executable. Hash functions are parameters:
`H` = keccak-256 (merkle tree), `B` = blake2b-256 (tipset-key CID). -/
namespace F3.Payload
open F3.Codec F3.Merkle

/-- `DomainSeparationTag = "GPBFT"`. -/
def domainTag : Bytes := [71, 80, 66, 70, 84]
/-- `DomainSeparationTagVRF = "VRF"`. -/
def domainTagVRF : Bytes := [86, 82, 70]
/-- `separator = ":"`. -/
def sep : Nat := 58

/-- The fields that `MarshalForSigningWithValueKey` serialises. `phase` is a Go `uint8`, `round` and
`inst` are `uint64` (the model wraps them like `binary.Write` would), `commitments` is a `[32]byte`,
`key` an `ECChainKey` (`[32]byte`), `ptCid` the bytes of the supplemental power-table CID
(variable length; empty for `cid.Undef`). -/
structure SigInput where
  net : Bytes
  phase : Nat
  round : Nat
  inst : Nat
  commitments : Bytes
  key : Bytes
  ptCid : Bytes
deriving DecidableEq, Repr

/-- `Payload.MarshalForSigningWithValueKey(nn, key)`:
`"GPBFT" ":" nn ":" phase(1) round(8,BE) instance(8,BE) commitments(32) key(32) powerTableCid`. -/
def payloadBytes (p : SigInput) : Bytes :=
  domainTag ++ [sep] ++ p.net ++ [sep] ++
    ([p.phase % 256] ++ be64 p.round ++ be64 p.inst ++ p.commitments ++ p.key ++ p.ptCid)

/-- `gpbft.TipSet`. -/
structure TipSet where
  epoch : Int
  key : Bytes
  powerTable : Bytes
  commitments : Bytes
deriving DecidableEq, Repr

/-- Bytes of `gpbft.CidPrefix` (CIDv1, dag-cbor 0x71, blake2b-256 0xb220 as varint, length 32). -/
def cidPrefix : Bytes := [0x01, 0x71, 0xa0, 0xe4, 0x02, 0x20]

/-- `MakeCid(cbg.WriteByteArray(key))`: the CID of the CBOR byte-string encoding of the tipset key. -/
def tsCid (B : Bytes → Bytes) (key : Bytes) : Bytes := cidPrefix ++ B (hdr 2 key.length ++ key)

/-- `TipSet.MarshalForSigning`: `epoch(8,BE) commitments(32) tipsetCid(38) powerTableCid`. -/
def tipsetBytes (B : Bytes → Bytes) (ts : TipSet) : Bytes :=
  be64i ts.epoch ++ (ts.commitments ++ (tsCid B ts.key ++ ts.powerTable))

/-- `ECChain.Key()`: zero digest for the zero chain, else the merkle root of the tipset encodings. -/
def chainKey (H B : Bytes → Bytes) (c : List TipSet) : Bytes :=
  match c with
  | [] => zeroDigest
  | _ :: _ => tree H (c.map (tipsetBytes B))

/-- `ECChain.KeysForPrefixes()` (`nil` for the zero chain); also the keys that `AllPrefixes()` stores in
the prefix objects' key caches. Entry `i` is the key of `Prefix(i)`. -/
def keysForPrefixes (H B : Bytes → Bytes) (c : List TipSet) : List Bytes :=
  batchTree H (c.map (tipsetBytes B))

/-- `ECChain.Prefix(to)`: `TipSets[:min(to+1, len)]` (zero chain stays zero). -/
def chainPrefix (c : List TipSet) (to : Nat) : List TipSet := c.take (to + 1)

/-- The complete signed bytes as a function of everything the property names: network, instance,
round, phase, supplemental data and the full chain. (`Payload.MarshalForSigning`.) -/
def signedBytes (H B : Bytes → Bytes) (net : Bytes) (phase round inst : Nat)
    (commitments ptCid : Bytes) (chain : List TipSet) : Bytes :=
  payloadBytes ⟨net, phase, round, inst, commitments, chainKey H B chain, ptCid⟩

/-- Arguments of `vrfSerializeSigInput`. -/
structure VrfInput where
  net : Bytes
  beacon : Bytes
  inst : Nat
  round : Nat
deriving DecidableEq, Repr

/-- `vrfSerializeSigInput`: `"VRF" ":" nn ":" beacon ":" instance(8,BE) round(8,BE)`. -/
def vrfBytes (v : VrfInput) : Bytes :=
  domainTagVRF ++ [sep] ++ v.net ++ [sep] ++ v.beacon ++ [sep] ++ (be64 v.inst ++ be64 v.round)

end F3.Payload
