import F3.Model.Instance
/-!
# A message-passing network of honest model participants

Executable (core-only) composition of several copies of the instance model `F3.Instance.step`: every
node is an honest participant created by `init cfg_p tbl input_p`; every `Eff.broadcast` a node emits becomes
a message in the `pool`; a delivery hands a pool message to the `step` of the receiving node.

*No faulty sender*: only pool messages can be delivered, i.e. only messages really broadcast by an honest
node of the network circulate (duplicates and every order of delivery are allowed).

*Ghost fields* (`delivered`, `started`, `fired`, `fails`) record what happened; they do not influence the
nodes. They are what the execution predicates below and the theorems of `F3.Props.C02` (section `Sync`)
talk about.

## The synchrony assumption in untimed form (`SyncOrdered`)

Real-time statement: messages between honest participants take less than `Δ`, all honest participants start
the instance within `Δ` of each other, and the timeout of a phase is at least `2Δ` after the phase was entered.
`F3/Model/NetTimed.lean` states this on the timestamps the events carry (`TimedSync`) and
`C02.timed_sync_ordered` proves that it implies the condition below for every chain with a tipset beyond the
base (what holds is not "everybody enters a phase within `Δ` of the first" — a late starter can lag by `2Δ` — but:
a node enters PREPARE / COMMIT at time `e` only after a strong quorum has broadcast the previous phase's vote by
`e`; those members leave their phase before `e + Δ` and their next votes arrive before `e + 2Δ`, so a node whose
PREPARE or COMMIT timer expires has already left that phase, and a node whose QUALITY timer expires holds every
QUALITY vote; a delay of exactly `Δ` against a timeout of exactly `2Δ` is a genuine race in the code, and for a
base-only chain the implication is refuted — QUALITY then ends by timer only).
What the instance can observe of this is only the *order* of
events at each node: **whenever node `p` evaluates a phase timeout as expired (`phaseTimeoutElapsed now`)
while in QUALITY / PREPARE / COMMIT of round 0, it has already been handed the message of that phase of
every honest node.** That is `SyncOrdered`. Note that `gpbft.go` evaluates the timeout not only in
`ReceiveAlarm` but in every `tryCurrentPhase`, which also runs at the end of `Receive` (`tryQuality`:
`foundQuorum || timeoutExpired`), so the condition is imposed on `alarm` *and* `deliver` operations whose
timestamp `now` is at or after the node's phase timeout (for a delivery the message being delivered counts
as handed over: it is tallied before the timeout is looked at). Operations whose `now` is before the
timeout (rebroadcast alarms, early deliveries) are unrestricted. (The proofs use the QUALITY part in earnest —
a QUALITY timeout that expires before the votes are in makes the node PREPARE a shorter prefix, see the last
example of `C02` — and the PREPARE/COMMIT parts only to exclude "timeout expired and a strong quorum of senders
heard" with an empty tally, which can happen only for a power table of total power zero.)
-/
namespace F3.Net
open F3.Instance

inductive NetOp
  | start (p : Pid) (now : Int)
  | deliver (p : Pid) (now : Int) (m : Msg)
  | alarm (p : Pid) (now : Int)
  deriving Repr, DecidableEq

structure Net where
  nodes : List (Pid × State)
  /-- every message broadcast so far, in emission order -/
  pool : List Msg := []
  /-- ghost: `(p, m)` — `m` has been handed to node `p` -/
  delivered : List (Pid × Msg) := []
  /-- ghost: nodes whose `Start` has been called -/
  started : List Pid := []
  /-- ghost: nodes whose alarm was received while they were in QUALITY with the QUALITY timeout expired -/
  fired : List Pid := []
  /-- ghost: every failure effect (`err` / `panic`) any node ever reported -/
  fails : List (Pid × Eff) := []
  deriving Repr

def isFailure : Eff → Bool
  | .err _ => true
  | .panic _ => true
  | _ => false

/-- the wire message a broadcast effect of node `p` becomes (signatures are symbolic in the model: the
message *is* the token; `suppOk`/`instOk` hold since it is a message of this instance; the ticket rank is
only looked at for CONVERGE) -/
def msgOf (p : Pid) : Eff → Option Msg
  | .broadcast r ph v _ j => some { sender := p, round := r, phase := ph, value := v, rank := 0, just := j }
  | _ => none

/-- the messages a list of effects of node `p` puts on the wire; `rebroadcast` effects re-send messages
that are already in the pool and add nothing -/
def sent (p : Pid) (es : List Eff) : List Msg := es.filterMap (msgOf p)

def failuresOf (p : Pid) (es : List Eff) : List (Pid × Eff) := (es.filter isFailure).map (fun e => (p, e))

def Net.node? (n : Net) (p : Pid) : Option State := (n.nodes.find? (·.1 == p)).map (·.2)

def setNode (l : List (Pid × State)) (p : Pid) (s : State) : List (Pid × State) :=
  l.map (fun e => if e.1 == p then (e.1, s) else e)

/-- run one API call of the instance model on node `p` (whose state is `s`) and put its broadcasts in the pool -/
def Net.apply (n : Net) (p : Pid) (s : State) (op : Op) : Net :=
  let r := step s op
  { n with nodes := setNode n.nodes p r.1, pool := n.pool ++ sent p r.2, fails := n.fails ++ failuresOf p r.2 }

/-- One network event. A delivery to a node whose instance has terminated is recorded but not handed to the
instance: `Participant.ReceiveMessage` drops messages of finished instances (`participant.go`, "Drop messages
for past instances"; the instance itself would refuse with `ErrReceivedAfterTermination`, which is
`step`'s `afterTermination`, cf. `C07.terminated_absorbing`). Events addressed to a non-existent node do nothing. -/
def netStep (n : Net) : NetOp → Net
  | .start p now =>
    match n.node? p with
    | none => n
    | some s => { n with started := n.started ++ [p] }.apply p s (.start now)
  | .deliver p now m =>
    match n.node? p with
    | none => n
    | some s =>
      let n1 := { n with delivered := n.delivered ++ [(p, m)] }
      if s.phase == .terminated then n1 else n1.apply p s (.recv now m)
  | .alarm p now =>
    match n.node? p with
    | none => n
    | some s =>
      let n1 := if s.phase == .quality && s.phaseTimeoutElapsed now then { n with fired := n.fired ++ [p] } else n
      n1.apply p s (.alarm now)

def runNet (n : Net) (ops : List NetOp) : Net := ops.foldl netStep n

/-- the initial network: node `p` runs `init (cfg p) tbl (input p)` -/
def initNet (tbl : Table) (ids : List Pid) (cfg : Pid → Cfg) (input : Pid → Chain) : Net :=
  { nodes := ids.map (fun p => (p, init (cfg p) tbl (input p))) }

/-! ## which executions are considered -/

/-- admissibility of one event: a node starts at most once; only started nodes are handed messages or alarms
(the real participant queues earlier messages until `Start`); only pool messages are delivered -/
def opOk (n : Net) : NetOp → Bool
  | .start p _ => (n.node? p).isSome && !n.started.contains p
  | .deliver p _ m => n.started.contains p && n.pool.contains m
  | .alarm p _ => n.started.contains p

def execOk (n : Net) : List NetOp → Bool
  | [] => true
  | op :: ops => opOk n op && execOk (netStep n op) ops

/-- node `p` has been handed the round-0 message of phase `ph` of every node -/
def allHanded (n : Net) (dl : List (Pid × Msg)) (p : Pid) (ph : Phase) : Bool :=
  n.nodes.all (fun q => dl.any (fun d => d.1 == p && d.2.sender == q.1 && d.2.phase == ph && d.2.round == 0))

def timedPhase : Phase → Bool
  | .quality | .prepare | .commit => true
  | _ => false

/-- the synchrony condition at node `p` about to handle an event with timestamp `now`; `dl` is what has been
handed over, the message being delivered included -/
def syncAt (n : Net) (dl : List (Pid × Msg)) (p : Pid) (now : Int) : Bool :=
  match n.node? p with
  | none => true
  | some s =>
    if s.round == 0 && timedPhase s.phase && s.phaseTimeoutElapsed now then allHanded n dl p s.phase else true

def syncOpOk (n : Net) : NetOp → Bool
  | .start _ _ => true
  | .deliver p now m => syncAt n (n.delivered ++ [(p, m)]) p now
  | .alarm p now => syncAt n n.delivered p now

def syncOk (n : Net) : List NetOp → Bool
  | [] => true
  | op :: ops => syncOpOk n op && syncOk (netStep n op) ops

/-- **synchrony, untimed** (see the header): a node that finds a round-0 QUALITY/PREPARE/COMMIT timeout expired
has been handed that phase's message of every node -/
def SyncOrdered (n : Net) (ops : List NetOp) : Prop := syncOk n ops = true

/-- a complete execution: everybody has started and every message ever broadcast has been handed to everybody -/
def complete (n : Net) : Bool :=
  n.nodes.all (fun q => n.started.contains q.1) &&
  n.pool.all (fun m => n.nodes.all (fun q => n.delivered.contains (q.1, m)))

/-- every node's QUALITY timer has fired while it was still in QUALITY (only needed for a base-only input
chain, for which QUALITY tallies nothing and ends by its timer alone) -/
def timersFired (n : Net) : Bool := n.nodes.all (fun q => n.fired.contains q.1)

end F3.Net
