import F3.Model.Certs
/-! Text form of the values of `F3.Certs` in the harness logs (shared by the `Certs` and `CertX`
drivers). Core-only.

```
table  := '-' | entry (',' entry)*          entry := id ':' power ':' key
diff   := '-' | delta (',' delta)*          delta := id ':' powerDelta ':' key
chain  := '-' | tip (';' tip)*              tip   := epoch ':' key ':' keyLen ':' pt ':' ptLen ':' comm
cidtok := natural (resolved through the `cid <id> <table>` dictionary; unknown ids are opaque)
sig    := 'g' natural | 'a/' net '/' inst '/' round '/' phase '/' comm '/' cidtok '/' chain '/' pairs
pairs  := '-' | index ':' key (',' index ':' key)*
cert   := inst '|' chain '|' comm '|' cidtok '|' signers '|' sig '|' diff
signers:= '-' | '!' | index (',' index)*
```
-/
namespace F3.Certs.Parse
open F3.Certs

/-- resolves an interned power-table CID to the table it is the CID of -/
abbrev CidDict := Nat → Option Table

def listOf {α} (sep : String) (f : String → Option α) (s : String) : Option (List α) :=
  if s = "-" || s = "" then some [] else (s.splitOn sep).mapM f

def entry? (s : String) : Option Entry :=
  match s.splitOn ":" with
  | [i, p, k] => do some ⟨← i.toNat?, ← p.toInt?, ← k.toNat?⟩
  | _ => none

def table? (s : String) : Option Table := listOf "," entry? s

def delta? (s : String) : Option Delta :=
  match s.splitOn ":" with
  | [i, p, k] => do some ⟨← i.toNat?, ← p.toInt?, ← k.toNat?⟩
  | _ => none

def diff? (s : String) : Option Diff := listOf "," delta? s

/-- `~` = no diffs at all, else diffs separated by `/` -/
def diffs? (s : String) : Option (List Diff) :=
  if s = "~" then some [] else (s.splitOn "/").mapM diff?

def tip? (s : String) : Option Tip :=
  match s.splitOn ":" with
  | [e, k, kl, p, pl, c] => do
    some ⟨← e.toInt?, ← k.toNat?, ← kl.toNat?, ← p.toNat?, ← pl.toNat?, ← c.toNat?⟩
  | _ => none

def chain? (s : String) : Option (List Tip) := listOf ";" tip? s

def optTip? (s : String) : Option (Option Tip) :=
  if s = "-" then some none else (tip? s).map some

def cidTok (d : CidDict) (n : Nat) : CidTok :=
  match d n with
  | some t => .table t
  | none => .opaque n

def pair? (s : String) : Option (Nat × Nat) :=
  match s.splitOn ":" with
  | [i, k] => do some (← i.toNat?, ← k.toNat?)
  | _ => none

def sig? (d : CidDict) (s : String) : Option SigTok :=
  if s.startsWith "g" then (s.drop 1).toNat?.map .garbage
  else match s.splitOn "/" with
    | ["a", net, inst, round, phase, comm, pt, chain, pairs] => do
      let ps ← listOf "," pair? pairs
      some (.agg ps ⟨← net.toNat?, ← inst.toNat?, ← round.toNat?, ← phase.toNat?, ← comm.toNat?,
        cidTok d (← pt.toNat?), ← chain? chain⟩)
    | _ => none

/-- the signer indices as `Signers.ForEach` yields them: a bitfield is a set iterated in strictly
increasing order, so a list with a repeated or out-of-order index cannot come from the Go code and
is unparseable (a harness bug), not a model input -/
def bitfieldList (ss : List Nat) : Option (List Nat) := if increasing ss then some ss else none

def signers? (s : String) : Option (Option (List Nat)) :=
  if s = "!" then some none
  else ((listOf "," String.toNat? s).bind bitfieldList).map some

def cert? (d : CidDict) (s : String) : Option Cert :=
  match s.splitOn "|" with
  | [inst, chain, comm, pt, signers, sig, delta] => do
    some ⟨← inst.toNat?, ← chain? chain, ← comm.toNat?, cidTok d (← pt.toNat?), ← signers? signers,
      ← sig? d sig, ← diff? delta⟩
  | _ => none

def diffErrName : DiffErr → String
  | .notSorted => "notSorted" | .emptyDelta => "emptyDelta" | .unchangedKey => "unchangedKey"
  | .removeWithKey => "removeWithKey" | .newNonPositive => "newNonPositive" | .newNoKey => "newNoKey"
  | .negative => "negative"

def vErrName : VErr → String
  | .instance => "instance" | .badChain => "badChain" | .emptyChain => "emptyChain"
  | .baseMismatch => "baseMismatch" | .scale => "scale" | .signerBits => "signerBits"
  | .signerRange => "signerRange" | .signerZero => "signerZero" | .noQuorum => "noQuorum"
  | .badSig => "badSig" | .diff e => "diff:" ++ diffErrName e | .cidMismatch => "cidMismatch"
  | .signerOrder => "signerOrder"

def optErrName : Option VErr → String
  | none => "ok"
  | some e => vErrName e

def showEntry (e : Entry) : String := s!"{e.id}:{e.power}:{e.key}"
def showTable (t : Table) : String := if t.isEmpty then "-" else ",".intercalate (t.map showEntry)
def showDelta (e : Delta) : String := s!"{e.id}:{e.delta}:{e.key}"
def showDiff (t : Diff) : String := if t.isEmpty then "-" else ",".intercalate (t.map showDelta)

end F3.Certs.Parse
