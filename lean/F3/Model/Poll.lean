import F3.Gen.Core
/-!
# Model of the certificate-polling cadence (C20)

`predictor.update` and the `delay += …` statement of `Subscriber.run` are NOT written here: they are
`F3.Gen.predictorUpdate` / `F3.Gen.subscriberDelay`, regenerated from
`certexchange/polling/{predictor,subscriber}.go` on every run. This file adds the glue of one
iteration of `Subscriber.run` (catch-up first, poll only when that made no progress, offset rule,
timer arithmetic) and the value `Subscriber.poll` returns. Durations are `Int` nanoseconds, instance
numbers are `Int` in `[0, 2^64)` with explicit `u64` wrap.
-/
namespace F3.Poll
open F3.GoInt

/-- state of `predictor` (plus its two constants) -/
structure PState where
  minI : Int
  maxI : Int
  backoff : Int
  explore : Int
  interval : Int
  wasInc : Bool
deriving Repr, BEq, DecidableEq

/-- `newPredictor` -/
def PState.init (minI initI maxI : Int) : PState :=
  { minI := minI, maxI := maxI, backoff := 0, explore := Int.tdiv initI 2, interval := initI, wasInc := false }

/-- one call of `predictor.update`: the regenerated definition, repackaged -/
def update (s : PState) (progress : Int) : Int × PState :=
  let r := F3.Gen.predictorUpdate progress s.backoff s.explore s.interval s.maxI s.minI s.wasInc
  (r.1, { s with backoff := r.2.1, explore := r.2.2.1, interval := r.2.2.2.1, wasInc := r.2.2.2.2 })

/-- `Poller.CatchUp`: progress found in the local store without any request -/
def catchUp (next storeNext : Int) : Int := u64 (storeNext - next)

/-- value returned by `Subscriber.poll`: `NextInstance` at the end minus `NextInstance` at the start
(uint64 arithmetic). -/
def pollProgress (start next' : Int) : Int := u64 (next' - start)

/-- what one timer firing of `Subscriber.run` sees -/
structure RoundIn where
  pollTime : Int   -- time carried by the timer tick
  next0 : Int      -- poller.NextInstance when the timer fires
  store0 : Int     -- store.Latest()+1 when the timer fires
  next1 : Int      -- poller.NextInstance when `poll` returns (ignored on the catch-up path)
  newCert : Bool   -- some polled peer delivered a certificate the store did not have yet
  now : Int        -- clock reading after `poll` (equals `pollTime` on the catch-up path)
deriving Repr

structure RoundOut where
  polled : Bool
  progress : Int      -- value fed to the predictor
  requestTime : Int
  offset : Int
  nextInterval : Int
  remaining : Int         -- clock.Until(pollTime + nextInterval), clamped at 0
  delay : Int         -- value the timer is reset to
  st : PState
deriving Repr

def round (s : PState) (i : RoundIn) : RoundOut :=
  let cu := catchUp i.next0 i.store0
  let polled := cu == 0
  let progress := if polled then pollProgress i.next0 i.next1 else cu
  let requestTime := if polled then i.now - i.pollTime else 0
  let offset := if polled && decide (progress > 0) && !i.newCert then requestTime else 0
  let r := update s progress
  let remaining := max ((i.pollTime + r.1) - i.now) 0
  { polled := polled, progress := progress, requestTime := requestTime, offset := offset,
    nextInterval := r.1, remaining := remaining, delay := F3.Gen.subscriberDelay remaining offset, st := r.2 }

/-- Invariant of the predictor state (established by `newPredictor` for sane settings, preserved by
`update`: theorem `predictor_bounds`). -/
def PInv (s : PState) : Prop :=
  0 < s.minI ∧ s.minI ≤ s.maxI ∧ s.minI ≤ s.interval ∧ s.interval ≤ s.maxI ∧
  0 ≤ s.explore ∧ s.explore ≤ Int.tdiv s.maxI 2 ∧
  (s.backoff = 0 ∨ (s.minI ≤ s.backoff ∧ s.backoff ≤ 10 * s.maxI))

instance (s : PState) : Decidable (PInv s) := by unfold PInv; infer_instance

/-- iterate the predictor over a list of progress values, collecting the predicted waits -/
def runPredictor : PState → List Int → List Int × PState
  | s, [] => ([], s)
  | s, p :: ps =>
    let r := update s p
    let rest := runPredictor r.2 ps
    (r.1 :: rest.1, rest.2)

/-- an idealised steady producer: one certificate every `period`, the first at time `phase`;
`produced t` certificates exist at time `t` -/
def produced (period phase t : Int) : Int := if t < phase then 0 else (t - phase) / period + 1

/-- closed loop of the predictor against the steady producer, ignoring request time: poll at `t`,
feed the number of new certificates, wait the returned interval -/
def closedLoop (period phase : Int) : Nat → PState → Int → Int → List Int
  | 0, _, _, _ => []
  | n + 1, s, t, seen =>
    let now := produced period phase t
    let r := update s (now - seen)
    r.1 :: closedLoop period phase n r.2 (t + r.1) now

/-- executable form of the closed-loop envelope used in validation: in the second half of `n` polls
at least nine waits in ten are within a factor two of the production period (the search makes
isolated excursions — the explore distance doubles at every isolated poll without progress until the
next change of direction — which die out only slowly; `SettlesStatement` is about the limit). -/
def settlesWithin (mn ini mx period phase : Int) (n : Nat) : Bool :=
  let ws := (closedLoop period phase n (PState.init mn ini mx) ini 0).drop (n / 2)
  let good := (ws.filter (fun w => decide (period ≤ 2 * w) && decide (w ≤ 2 * period))).length
  decide (10 * good ≥ 9 * ws.length)

end F3.Poll
