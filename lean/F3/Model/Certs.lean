import F3.Model.SMap
import F3.Model.Power
import F3.Spec.Quorum
import F3.Gen.Core
/-!
# Model of `certs/certs.go` (C04): power-table deltas and finality-certificate validation

Core-only and executable: `lean/Driver/Certs.lean` runs exactly these definitions against the Go
code; `lean/F3/Props/C04.lean` proves the theorems about them.

Conventions
* actor ids, instances: `Nat` (uint64; the only arithmetic is `nextInstance++`, modelled with wrap);
* powers: `Int` (Go: arbitrary-precision signed `big.Int`);
* byte strings whose *content* never matters (public keys, tipset keys, commitments, tipset
  power-table CIDs) are interned by the harness as `Nat`, `0` = the empty string / undefined CID,
  together with their length where the code looks at it;
* a power-table CID is the token `CidTok.table t` (blake2b collision-freeness: CID = identity of
  the serialized table) or an opaque id;
* an aggregate signature is the token `(list of (table index, key) it was aggregated for, payload)`.
-/
namespace F3.Certs
open F3.SMap

/-! ## Power tables and deltas -/

structure Entry where
  id : Nat
  power : Int
  key : Nat
deriving DecidableEq, Repr, Inhabited

abbrev Table := List Entry

structure Delta where
  id : Nat
  delta : Int
  key : Nat
deriving DecidableEq, Repr, Inhabited

abbrev Diff := List Delta

/-- `PowerTableDelta.IsZero` -/
def Delta.isZero (d : Delta) : Bool := d.delta == 0 && d.key == 0

/-- `PowerEntries.Less` as a `≤` (power descending, then id ascending). -/
def entryLe (a b : Entry) : Bool :=
  decide (a.power > b.power) || (a.power == b.power && decide (a.id ≤ b.id))

/-- insertion sort (structural recursion, so that closed terms evaluate in the kernel). The Go code
sorts slices whose elements are pairwise distinct under the order, so the result does not depend on
the sorting algorithm. -/
def insertBy {α : Type} (le : α → α → Bool) (x : α) : List α → List α
  | [] => [x]
  | y :: ys => if le x y then x :: y :: ys else y :: insertBy le x ys

def sortBy {α : Type} (le : α → α → Bool) (l : List α) : List α := l.foldr (insertBy le) []

/-- `sort.Sort(pt)`: canonical table order. -/
def canon (t : Table) : Table := sortBy entryLe t

/-- `PowerTableArrayToMap` -/
def toMap (t : Table) : Table := ofList Entry.id t

inductive DiffErr where
  | notSorted | emptyDelta | unchangedKey | removeWithKey | newNonPositive | newNoKey | negative
deriving DecidableEq, Repr

/-- body of the inner loop of `ApplyPowerTableDiffsToMap` after the order / zero checks -/
def applyDelta (m : Table) (d : Delta) : Except DiffErr Table :=
  match lookup Entry.id m d.id with
  | some pe =>
    if d.key == pe.key then .error .unchangedKey
    else
      let power := pe.power + d.delta
      if d.key != 0 && power == 0 then .error .removeWithKey
      else
        let key := if d.key != 0 then d.key else pe.key
        if power == 0 then .ok (erase Entry.id d.id m)
        else if power > 0 then .ok (insert Entry.id ⟨d.id, power, key⟩ m)
        else .error .negative
  | none =>
    if d.delta ≤ 0 then .error .newNonPositive
    else if d.key == 0 then .error .newNoKey
    else .ok (insert Entry.id ⟨d.id, d.delta, d.key⟩ m)

/-- `i > 0 && d.ParticipantID <= lastActorId`; `prev` is `lastActorId` (`none` while `i = 0`) -/
def outOfOrder (prev : Option Nat) (id : Nat) : Bool :=
  match prev with
  | some p => decide (id ≤ p)
  | none => false

/-- one diff -/
def applyLoop (m : Table) (prev : Option Nat) : Diff → Except DiffErr Table
  | [] => .ok m
  | d :: ds =>
    if outOfOrder prev d.id then .error .notSorted
    else if d.isZero then .error .emptyDelta
    else match applyDelta m d with
      | .error e => .error e
      | .ok m' => applyLoop m' (some d.id) ds

/-- `ApplyPowerTableDiffsToMap` -/
def applyDiffsMap (m : Table) : List Diff → Except DiffErr Table
  | [] => .ok m
  | d :: ds => match applyLoop m none d with
    | .error e => .error e
    | .ok m' => applyDiffsMap m' ds

/-- `ApplyPowerTableDiffs` -/
def applyDiffs (t : Table) (ds : List Diff) : Except DiffErr Table :=
  match applyDiffsMap (toMap t) ds with
  | .error e => .error e
  | .ok m => .ok (canon m)

def applyDiff (t : Table) (d : Diff) : Except DiffErr Table := applyDiffs t [d]

/-- the delta `MakePowerTableDiff` computes for a participant present in both tables -/
def deltaFor (o e : Entry) : Delta :=
  ⟨e.id, e.power - o.power, if e.key != o.key then e.key else 0⟩

/-- the loop over `newPowerTable` of `MakePowerTableDiff`: state = (remaining old map, diff so far) -/
def makeDiffStep (st : Table × Diff) (e : Entry) : Table × Diff :=
  match lookup Entry.id st.1 e.id with
  | some o =>
    (erase Entry.id e.id st.1, if (deltaFor o e).isZero then st.2 else st.2 ++ [deltaFor o e])
  | none => (st.1, st.2 ++ [⟨e.id, e.power, e.key⟩])

def sortDeltas (l : Diff) : Diff := sortBy (fun a b => decide (a.id ≤ b.id)) l

/-- `MakePowerTableDiff` (result order is determined when the new table has distinct ids) -/
def makeDiff (old new : Table) : Diff :=
  let st := new.foldl makeDiffStep (toMap old, [])
  sortDeltas (st.2 ++ st.1.map (fun e => ⟨e.id, -e.power, 0⟩))

/-- well-formed table: distinct ids, positive powers, non-empty keys (order is free) -/
def WF (t : Table) : Prop :=
  (t.map Entry.id).Nodup ∧ ∀ e ∈ t, 0 < e.power ∧ e.key ≠ 0

def wfB (t : Table) : Bool :=
  decide ((t.map Entry.id).Nodup) && t.all (fun e => decide (0 < e.power) && e.key != 0)

/-! ## Tipsets and chains -/

structure Tip where
  epoch : Int
  key : Nat
  keyLen : Nat
  pt : Nat
  ptLen : Nat
  comm : Nat
deriving DecidableEq, Repr, Inhabited

/-- `TipSet.Equal` (lengths are functions of the interned ids) -/
def Tip.eq (a b : Tip) : Bool :=
  a.epoch == b.epoch && a.key == b.key && a.pt == b.pt && a.comm == b.comm

/-- `TipSet.Validate` -/
def Tip.valid (t : Tip) : Bool :=
  t.keyLen != 0 && decide (t.keyLen ≤ 760) && t.ptLen != 0 && decide (t.ptLen ≤ 38)

def epochsOk (last : Int) : List Tip → Bool
  | [] => true
  | t :: ts => t.valid && decide (last < t.epoch) && epochsOk t.epoch ts

/-- `ECChain.Validate` (the zero chain is valid) -/
def chainValid (c : List Tip) : Bool := decide (c.length ≤ 128) && epochsOk (-1) c

/-! ## Certificates -/

inductive CidTok where
  | table (t : Table)
  | opaque (n : Nat)
deriving DecidableEq, Repr, Inhabited

structure Payload where
  net : Nat
  inst : Nat
  round : Nat
  phase : Nat
  comm : Nat
  pt : CidTok
  chain : List Tip
deriving DecidableEq, Repr, Inhabited

inductive SigTok where
  | garbage (n : Nat)
  | agg (signers : List (Nat × Nat)) (p : Payload)
deriving DecidableEq, Repr, Inhabited

structure Cert where
  inst : Nat
  chain : List Tip
  comm : Nat
  pt : CidTok
  /-- indices set in the bitfield in iteration order; `none` = the bitfield cannot be iterated -/
  signers : Option (List Nat)
  sig : SigTok
  delta : Diff
deriving DecidableEq, Repr, Inhabited

def decidePhase : Nat := 5

/-- the payload `verifyFinalityCertificateSignature` rebuilds -/
def Cert.payload (net : Nat) (c : Cert) : Payload :=
  ⟨net, c.inst, 0, decidePhase, c.comm, c.pt, c.chain⟩

inductive VErr where
  | instance | badChain | emptyChain | baseMismatch | scale | signerBits | signerRange | signerZero
  | noQuorum | badSig | diff (e : DiffErr) | cidMismatch
  /-- the signer list is not strictly increasing. NOT an error of the Go code: `cert.Signers` is a
  bitfield (a *set*), and `Signers.ForEach` yields the set bits in strictly increasing order, so a list
  with a repeated or out-of-order index is not an input the Go code can see. The model's certificate
  carries an arbitrary `List Nat`, so it has to refuse the lists that are no bitfield (see
  `increasing`, `verifySig`); this branch is unreachable from every decoded certificate. -/
  | signerOrder
deriving DecidableEq, Repr

/-- "this list is the iteration of a bitfield": strictly increasing (hence duplicate-free). Every
list `Signers.ForEach` can produce satisfies it. -/
def increasing : List Nat → Bool
  | [] => true
  | [_] => true
  | a :: b :: rest => decide (a < b) && increasing (b :: rest)

/-- the `Signers.ForEach` callback: range check, zero scaled power check, sum -/
def checkSigners (sc : List Nat) : List Nat → Int → Except VErr Int
  | [], acc => .ok acc
  | i :: is, acc =>
    if sc.length ≤ i then .error .signerRange
    else if sc.getD i 0 == 0 then .error .signerZero
    else checkSigners sc is (acc + (sc.getD i 0 : Nat))

def keyAt (t : Table) (i : Nat) : Nat := (t.getD i default).key

/-- the token a valid aggregate over `payload` by the signers `ss` of table `t` must equal -/
def expectedSig (net : Nat) (t : Table) (c : Cert) (ss : List Nat) : SigTok :=
  .agg (ss.map (fun i => (i, keyAt t i))) (c.payload net)

/-- `verifyFinalityCertificateSignature`.

The signers of a Go certificate are a bitfield, i.e. a set of table indices which `ForEach` visits in
strictly increasing order; the model's `signers` is a list. To make the model mirror exactly what Go
can see, a list that is not strictly increasing (a repeated signer would otherwise be *counted twice*
towards the quorum) is rejected with the dedicated error `signerOrder`. A decoded bitfield is always
strictly increasing, so this branch is unreachable from the Go code and no Go error corresponds to it
(the log parser `F3.Certs.Parse.signers?` refuses such lines as unparseable for the same reason). -/
def verifySig (net : Nat) (t : Table) (c : Cert) : Except VErr Unit :=
  match Power.scaled (t.map (·.power)) with
  | none => .error .scale
  | some (sc, tot) =>
    match c.signers with
    | none => .error .signerBits
    | some ss =>
      if !(increasing ss) then .error .signerOrder
      else match checkSigners sc ss 0 with
      | .error e => .error e
      | .ok p =>
        if !(Gen.isStrongQuorum p tot) then .error .noQuorum
        else if c.sig == expectedSig net t c ss then .ok ()
        else .error .badSig

def u64 (n : Nat) : Nat := n % 2 ^ 64

/-- loop state of `ValidateFinalityCertificates` -/
structure VState where
  next : Nat
  chain : List Tip
  table : Table
  base : Option Tip
deriving DecidableEq, Repr

/-- `base != nil && !base.Equal(cert.ECChain.Base())` -/
def baseMismatch (base : Option Tip) (chain : List Tip) : Bool :=
  match base with
  | some b => !(match chain.head? with | some h => Tip.eq b h | none => false)
  | none => false

/-- one iteration of the loop of `ValidateFinalityCertificates` -/
def stepCert (net : Nat) (s : VState) (c : Cert) : Except VErr VState :=
  if c.inst != s.next then .error .instance
  else if !chainValid c.chain then .error .badChain
  else if c.chain.isEmpty then .error .emptyChain
  else if baseMismatch s.base c.chain then .error .baseMismatch
  else match verifySig net s.table c with
    | .error e => .error e
    | .ok _ =>
      match applyDiff s.table c.delta with
      | .error e => .error (.diff e)
      | .ok nt =>
        if c.pt != .table nt then .error .cidMismatch
        else .ok ⟨u64 (s.next + 1), s.chain ++ c.chain.tail, nt, c.chain.getLast?⟩

def validateLoop (net : Nat) (s : VState) : List Cert → VState × Option VErr
  | [] => (s, none)
  | c :: cs => match stepCert net s c with
    | .error e => (s, some e)
    | .ok s' => validateLoop net s' cs

structure VResult where
  next : Nat
  chain : List Tip
  table : Table
  err : Option VErr
deriving DecidableEq, Repr

/-- `ValidateFinalityCertificates`. Quirk mirrored: on success the *named result* `newPowerTable`
is returned, which is still nil when no certificate was passed. -/
def validateCerts (net : Nat) (table : Table) (next : Nat) (base : Option Tip) (cs : List Cert) :
    VResult :=
  let r := validateLoop net ⟨next, [], table, base⟩ cs
  match r.2 with
  | some e => ⟨r.1.next, r.1.chain, r.1.table, some e⟩
  | none => ⟨r.1.next, r.1.chain, if cs.isEmpty then [] else r.1.table, none⟩

/-! ## The property, written independently of the code's control flow (used as the oracle on the
implementation's observations and as the right-hand side of `validate_sound`) -/

def sumScaled (sc : List Nat) (ss : List Nat) : Int :=
  ss.foldr (fun i acc => (sc.getD i 0 : Nat) + acc) 0

/-- "certificate `c` is valid for instance `next` under table `t`, extends `base`, and commits to
table `nt`" — executable. -/
def certValidB (net : Nat) (t : Table) (next : Nat) (base : Option Tip) (c : Cert) (nt : Table) :
    Bool :=
  c.inst == next &&
  chainValid c.chain && !c.chain.isEmpty &&
  !(baseMismatch base c.chain) &&
  (match Power.scaled (t.map (·.power)), c.signers with
    | some (sc, tot), some ss =>
      increasing ss &&
      ss.all (fun i => decide (i < t.length) && decide (0 < sc.getD i 0)) &&
      Spec.Quorum.strong (sumScaled sc ss) tot &&
      c.sig == .agg (ss.map (fun i => (i, keyAt t i))) ⟨net, c.inst, 0, decidePhase, c.comm, c.pt, c.chain⟩
    | _, _ => false) &&
  (match applyDiff t c.delta with
    | .ok r => r == nt
    | .error _ => false) &&
  c.pt == .table nt

/-- the longest valid prefix, by the specification: returns the state after it and the number of
certificates in it -/
def specPrefix (net : Nat) (s : VState) : List Cert → VState × Nat
  | [] => (s, 0)
  | c :: cs =>
    match applyDiff s.table c.delta with
    | .ok nt =>
      if certValidB net s.table s.next s.base c nt then
        let r := specPrefix net ⟨u64 (s.next + 1), s.chain ++ c.chain.tail, nt, c.chain.getLast?⟩ cs
        (r.1, r.2 + 1)
      else (s, 0)
    | .error _ => (s, 0)

end F3.Certs
