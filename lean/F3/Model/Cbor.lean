import F3.Model.CodecBytes
/-! Generic model of the `cbor-gen` tuple codecs used by go-f3 (C14c). Core-only, executable.

A `Schema` describes one Go type as the generated `MarshalCBOR` / `UnmarshalCBOR` pair treats it.
Every length limit is a triple `Lim` = (documented limit from the struct tag or the cbor-gen default,
limit enforced by the generated encoder, limit enforced by the generated decoder). The table of
schemas of the real types (`F3.Gen.Schema`) is extracted from the Go sources on every run, so the
three numbers are what the code says *now*; `Schema.wf` demands they coincide, and the round-trip
theorem needs `wf`.

Sequences (tuple fields, array elements) are Lisp-style (`tnil`/`tcons`, `nil`/`cons`) so that
`Schema` and `Value` are plain (non-nested) inductive types. -/
namespace F3.Cbor
open F3.Codec

structure Lim where
  tag : Nat
  enc : Nat
  dec : Nat
deriving DecidableEq, Repr

def Lim.ok (l : Lim) : Bool := l.tag == l.enc && l.enc == l.dec && decide (l.enc < 2 ^ 64)
/-- the limit as documented, applied on both sides -/
def Lim.documented (l : Lim) : Lim := ⟨l.tag, l.tag, l.tag⟩

inductive Schema where
  /-- Go `uint64` (`max = 2^64-1`) / `uint8` (`max = 255`, checked by the decoder). -/
  | uint (max : Nat)
  /-- Go `int64`: major type 0 or 1. -/
  | int64
  | bool
  /-- `[]byte` with a `maxlen`. -/
  | bytes (l : Lim)
  /-- `[n]byte`: written as a byte string of `encN` bytes; the decoder insists on exactly `decN`. -/
  | fixed (encN decN : Nat) (l : Lim)
  /-- `cid.Cid` via `cbg.WriteCid` / `cbg.ReadCid` (tag 42, identity multibase prefix, ≤ 512). -/
  | cid
  /-- `go-state-types/big.Int`: byte string ≤ 128, sign byte then big-endian magnitude, zero is empty. -/
  | bigint
  /-- `go-bitfield.BitField`: byte string ≤ 32 KiB holding the RLE+ bytes (kept opaque; the decoder
  only checks the two version bits). -/
  | bitfield
  /-- slice of structs with a maximum length -/
  | array (l : Lim) (elem : Schema)
  /-- struct encoded as an array of exactly `n` fields; `fields` is a `tcons`-list -/
  | tuple (encN decN : Nat) (fields : Schema)
  | tnil
  | tcons (hd tl : Schema)
  /-- pointer to struct: `0xf6` for nil -/
  | nullable (s : Schema)
  /-- `*ECChain`: the encoder writes nil as the empty array, the decoder additionally accepts `0xf6`;
  both denote the zero chain. -/
  | nullAsEmpty (s : Schema)
deriving DecidableEq, Repr

inductive Value where
  | uint (n : Nat)
  | int (i : Int)
  | bool (b : Bool)
  | bytes (b : Bytes)
  | big (i : Int)
  | null
  | nil
  | cons (hd tl : Value)
deriving DecidableEq, Repr

inductive Err where
  | eof | overlimit | wrongType | nonCanonical | invalid
deriving DecidableEq, Repr

def Err.name : Err → String
  | .eof => "eof" | .overlimit => "overlimit" | .wrongType => "wrongtype"
  | .nonCanonical => "noncanonical" | .invalid => "invalid"

/-- `n` bytes from the front, or `none` when the input is shorter (`io.ReadFull` failing). -/
def takeN : Nat → Bytes → Option (Bytes × Bytes)
  | 0, b => some ([], b)
  | _ + 1, [] => none
  | n + 1, x :: b =>
    match takeN n b with
    | some (h, t) => some (x :: h, t)
    | none => none

/-- `cbg.CborReadHeader`: major type, argument, rest. Non-minimal arguments are rejected. -/
def readHdr : Bytes → Except Err (Nat × Nat × Bytes)
  | [] => .error .eof
  | b :: rest =>
    let maj := b / 32 % 8
    let low := b % 32
    if low < 24 then .ok (maj, low, rest)
    else if low = 24 then
      match rest with
      | [] => .error .eof
      | x :: r => if x < 24 then .error .nonCanonical else .ok (maj, x, r)
    else if low = 25 then
      match takeN 2 rest with
      | none => .error .eof
      | some (v, r) => if fromBE v ≤ 255 then .error .nonCanonical else .ok (maj, fromBE v, r)
    else if low = 26 then
      match takeN 4 rest with
      | none => .error .eof
      | some (v, r) => if fromBE v ≤ 65535 then .error .nonCanonical else .ok (maj, fromBE v, r)
    else if low = 27 then
      match takeN 8 rest with
      | none => .error .eof
      | some (v, r) => if fromBE v ≤ 4294967295 then .error .nonCanonical else .ok (maj, fromBE v, r)
    else .error .invalid

/-! ### CIDs (`cid.Cast`) -/

/-- `varint.FromUvarint`: at most 9 bytes, minimal. Returns value and rest. -/
def uvarintGo (i s x : Nat) : Bytes → Option (Nat × Bytes)
  | [] => none
  | c :: r =>
    if (i = 8 ∧ c ≥ 128) ∨ i ≥ 9 then none
    else if c < 128 then (if c = 0 ∧ s > 0 then none else some (x + c * 2 ^ s, r))
    else uvarintGo (i + 1) (s + 7) (x + (c % 128) * 2 ^ s) r

def uvarint (b : Bytes) : Option (Nat × Bytes) := uvarintGo 0 0 0 b

/-- `multihash.readMultihashFromBuf`: rest after the multihash. -/
def readMultihash (b : Bytes) : Option Bytes :=
  if b.length < 2 then none else
  match uvarint b with
  | none => none
  | some (_, r1) =>
    match uvarint r1 with
    | none => none
    | some (len, r2) => if len > 2147483647 ∨ len > r2.length then none else some (r2.drop len)

/-- `cid.CidFromBytes`: the rest after one CID. -/
def cidFromBytes (d : Bytes) : Option Bytes :=
  match d with
  | 18 :: 32 :: _ :: _ => if d.length < 34 then none else some (d.drop 34)
  | _ =>
    match uvarint d with
    | none => none
    | some (vers, r1) =>
      if vers ≠ 1 then none else
      match uvarint r1 with
      | none => none
      | some (_, r2) => readMultihash r2

/-- `cid.Cast` succeeds: exactly one CID and nothing after it. -/
def cidValid (d : Bytes) : Bool :=
  match cidFromBytes d with
  | some [] => true
  | _ => false

/-! ### big.Int -/

/-- minimal big-endian digits (`big.Int.Bytes`) with fuel -/
def magBytesFuel : Nat → Nat → Bytes
  | 0, _ => []
  | f + 1, n => if n = 0 then [] else magBytesFuel f (n / 256) ++ [n % 256]

def magBytes (n : Nat) : Bytes := magBytesFuel n n

/-- `big.Int.Bytes()` of go-state-types: empty for zero, else sign byte (0 / 1) and magnitude. -/
def bigBytes (i : Int) : Bytes :=
  if i = 0 then [] else (if i < 0 then 1 else 0) :: magBytes i.natAbs

/-! ### encoder -/

/-- element-wise encoding of a `cons`-list; returns the element count and the concatenation -/
def encodeList (f : Value → Option Bytes) : Value → Option (Nat × Bytes)
  | .nil => some (0, [])
  | .cons v vs =>
    match f v, encodeList f vs with
    | some b, some (n, bs) => some (n + 1, b ++ bs)
    | _, _ => none
  | _ => none

/-- The generated `MarshalCBOR`. `none` = the Go encoder returns an error, or the value is not of the
Go type the schema describes. -/
def encode : Schema → Value → Option Bytes
  | .uint max, .uint n => if n ≤ max then some (hdr 0 n) else none
  | .int64, .int i =>
    if 0 ≤ i ∧ i < 2 ^ 63 then some (hdr 0 i.toNat)
    else if -(2 ^ 63) ≤ i ∧ i < 0 then some (hdr 1 (-i - 1).toNat)
    else none
  | .bool, .bool b => some [if b then 245 else 244]
  | .bytes l, .bytes b => if b.length ≤ l.enc then some (hdr 2 b.length ++ b) else none
  | .fixed encN _ l, .bytes b =>
    if b.length = encN ∧ encN ≤ l.enc then some (hdr 2 encN ++ b) else none
  | .cid, .bytes c =>
    -- `WriteCid` itself has no length check; the model's value domain are CIDs that `ReadCid` can read
    -- back (≤ 511 bytes; validated go-f3 values carry ≤ 38 bytes, `CidMaxLen`).
    if cidValid c ∧ c.length < 512 then some (hdr 6 42 ++ (hdr 2 (c.length + 1) ++ 0 :: c)) else none
  | .bigint, .big i =>
    if (bigBytes i).length ≤ 128 then some (hdr 2 (bigBytes i).length ++ bigBytes i) else none
  | .bitfield, .bytes b =>
    if b.length ≤ 32768 ∧ (b = [] ∨ b.headD 0 % 4 = 0) then some (hdr 2 b.length ++ b) else none
  | .array l e, vs =>
    match encodeList (encode e) vs with
    | some (n, bs) => if n ≤ l.enc then some (hdr 4 n ++ bs) else none
    | none => none
  | .tuple encN _ fs, vs =>
    match encode fs vs with
    | some bs => some (hdr 4 encN ++ bs)
    | none => none
  | .tnil, .nil => some []
  | .tcons h t, .cons v vs =>
    match encode h v, encode t vs with
    | some a, some b => some (a ++ b)
    | _, _ => none
  | .nullable _, .null => some [246]
  | .nullable s, v => encode s v
  | .nullAsEmpty s, v => encode s v
  | _, _ => none

/-! ### decoder -/

/-- `n` elements decoded by `f`, as a `cons`-list -/
def decodeN (f : Bytes → Except Err (Value × Bytes)) : Nat → Bytes → Except Err (Value × Bytes)
  | 0, b => .ok (.nil, b)
  | n + 1, b =>
    match f b with
    | .error e => .error e
    | .ok (v, r) =>
      match decodeN f n r with
      | .error e => .error e
      | .ok (vs, r') => .ok (.cons v vs, r')

/-- byte-string body after a header that announced `n` bytes -/
def readBody (n : Nat) (r : Bytes) : Except Err (Value × Bytes) :=
  match takeN n r with
  | none => .error .eof
  | some (b, r') => .ok (.bytes b, r')

/-- The generated `UnmarshalCBOR`, returning the value and the unread rest (the Go decoders do not
demand end of input). The order of checks is that of the generated code (limit before major type). -/
def decode : Schema → Bytes → Except Err (Value × Bytes)
  | .uint max, b =>
    match readHdr b with
    | .error e => .error e
    | .ok (maj, n, r) =>
      if maj ≠ 0 then .error .wrongType else if n > max then .error .overlimit else .ok (.uint n, r)
  | .int64, b =>
    match readHdr b with
    | .error e => .error e
    | .ok (maj, n, r) =>
      if maj = 0 then (if n ≥ 2 ^ 63 then .error .invalid else .ok (.int n, r))
      else if maj = 1 then (if n ≥ 2 ^ 63 then .error .invalid else .ok (.int (-1 - (n : Int)), r))
      else .error .wrongType
  | .bool, b =>
    match readHdr b with
    | .error e => .error e
    | .ok (maj, n, r) =>
      if maj ≠ 7 then .error .wrongType
      else if n = 20 then .ok (.bool false, r) else if n = 21 then .ok (.bool true, r) else .error .invalid
  | .bytes l, b =>
    match readHdr b with
    | .error e => .error e
    | .ok (maj, n, r) =>
      if n > l.dec then .error .overlimit else if maj ≠ 2 then .error .wrongType else readBody n r
  | .fixed _ decN l, b =>
    match readHdr b with
    | .error e => .error e
    | .ok (maj, n, r) =>
      if n > l.dec then .error .overlimit else if maj ≠ 2 then .error .wrongType
      else if n ≠ decN then .error .invalid else readBody n r
  | .cid, b =>
    match readHdr b with
    | .error e => .error e
    | .ok (maj, n, r) =>
      if maj ≠ 6 then .error .wrongType else if n ≠ 42 then .error .invalid else
      match readHdr r with
      | .error e => .error e
      | .ok (maj2, n2, r2) =>
        if maj2 ≠ 2 then .error .wrongType else if n2 > 512 then .error .overlimit else
        match takeN n2 r2 with
        | none => .error .eof
        | some (buf, r3) =>
          match buf with
          | 0 :: c => if cidValid c then .ok (.bytes c, r3) else .error .invalid
          | _ => .error .invalid
  | .bigint, b =>
    match readHdr b with
    | .error e => .error e
    | .ok (maj, n, r) =>
      if maj ≠ 2 then .error .wrongType else if n = 0 then .ok (.big 0, r)
      else if n > 128 then .error .overlimit else
      match takeN n r with
      | none => .error .eof
      | some (buf, r') =>
        match buf with
        | 0 :: m => .ok (.big (fromBE m), r')
        | 1 :: m => .ok (.big (-(fromBE m : Int)), r')
        | _ => .error .invalid
  | .bitfield, b =>
    match readHdr b with
    | .error e => .error e
    | .ok (maj, n, r) =>
      if n > 32768 then .error .overlimit else if maj ≠ 2 then .error .wrongType else
      match takeN n r with
      | none => .error .eof
      | some (buf, r') => if buf = [] ∨ buf.headD 0 % 4 = 0 then .ok (.bytes buf, r') else .error .invalid
  | .array l e, b =>
    match readHdr b with
    | .error err => .error err
    | .ok (maj, n, r) =>
      if n > l.dec then .error .overlimit else if maj ≠ 4 then .error .wrongType
      else decodeN (decode e) n r
  | .tuple _ decN fs, b =>
    match readHdr b with
    | .error e => .error e
    | .ok (maj, n, r) =>
      if maj ≠ 4 then .error .wrongType else if n ≠ decN then .error .invalid else decode fs r
  | .tnil, b => .ok (.nil, b)
  | .tcons h t, b =>
    match decode h b with
    | .error e => .error e
    | .ok (v, r) =>
      match decode t r with
      | .error e => .error e
      | .ok (vs, r') => .ok (.cons v vs, r')
  | .nullable s, b =>
    match b with
    | [] => .error .eof
    | x :: r => if x = 246 then .ok (.null, r) else decode s b
  | .nullAsEmpty s, b =>
    match b with
    | [] => .error .eof
    | x :: r => if x = 246 then .ok (.nil, r) else decode s b

/-! ### well-formedness of a schema, documented limits -/

/-- Encoder and decoder agree with each other and with the documented limits; a `nullable` never wraps
something that could itself start with `0xf6`. -/
def Schema.wf : Schema → Bool
  | .uint max => decide (max < 2 ^ 64)
  | .bytes l => l.ok
  | .fixed encN decN l => encN == decN && l.ok && decide (encN ≤ l.enc)
  | .array l e => l.ok && e.wf && (match e with | .tuple _ _ _ => true | _ => false)
  | .tuple encN decN fs => encN == decN && decide (encN < 2 ^ 64) && fs.wf
  | .tcons h t => h.wf && t.wf
  | .nullable s => s.wf && (match s with | .tuple _ _ _ => true | _ => false)
  | .nullAsEmpty s => s.wf && (match s with | .array _ _ => true | _ => false)
  | _ => true

/-- The schema with every limit replaced by its documented value on both sides. -/
def Schema.documented : Schema → Schema
  | .bytes l => .bytes l.documented
  | .fixed encN decN l => .fixed encN decN l.documented
  | .array l e => .array l.documented e.documented
  | .tuple encN decN fs => .tuple encN decN fs.documented
  | .tcons h t => .tcons h.documented t.documented
  | .nullable s => .nullable s.documented
  | .nullAsEmpty s => .nullAsEmpty s.documented
  | s => s

/-- number of fields of a `tcons`-list -/
def Schema.fieldCount : Schema → Nat
  | .tcons _ t => t.fieldCount + 1
  | _ => 0

/-! ### the zstd wrapper (`internal/encoding.ZSTD`)

`klauspost/compress/zstd` is abstract: a pair of functions with a size cap on the decoder's output. -/
structure Zstd where
  compress : Bytes → Bytes
  /-- `DecodeAll` with `WithDecoderMaxMemory(cap)` and `WithDecodeAllCapLimit` on a `cap`-sized buffer:
  `none` = error (malformed frame or output larger than the cap). -/
  decompress : Bytes → Option Bytes
  cap : Nat

/-- `ZSTD.Encode`: CBOR-encode, refuse more than `cap` bytes, compress. -/
def Zstd.encode (z : Zstd) (s : Schema) (v : Value) : Option Bytes :=
  match F3.Cbor.encode s v with
  | none => none
  | some b => if b.length > z.cap then none else some (z.compress b)

/-- `ZSTD.Decode`: decompress (bounded), then CBOR-decode. -/
def Zstd.decode (z : Zstd) (s : Schema) (c : Bytes) : Except Err (Value × Bytes) :=
  match z.decompress c with
  | none => .error .invalid
  | some b => F3.Cbor.decode s b

end F3.Cbor

namespace F3.Cbor
/-! ### sizes used by the allocation bound

`memSize` is the in-memory size of the Go value a schema describes (checked against `unsafe.Sizeof` by
the driver); `staticPrealloc` sums, over every node of the schema once, the largest buffer the decoder
may allocate for it *before* the corresponding input has been read (`make([]T, extra)` after the limit
check). `allocReq_le` (F3.Proofs.CodecAlloc) proves: the model decoder requests at most
`allocPerByte * input length + staticPrealloc` bytes on any input; the oracle adds `allocSlack`. -/

def Schema.memSize : Schema → Nat
  | .uint _ => 8
  | .int64 => 8
  | .bool => 8
  | .bytes _ => 24
  | .fixed n _ _ => n
  | .cid => 16
  | .bigint => 8
  | .bitfield => 48
  | .array _ _ => 24
  | .tuple _ _ fs => fs.memSize
  | .tnil => 0
  | .tcons h t => h.memSize + t.memSize
  | .nullable _ => 8
  | .nullAsEmpty _ => 8

def Schema.staticPrealloc : Schema → Nat
  | .bytes l => l.tag
  | .cid => 1024
  | .bigint => 512
  | .bitfield => 32768 + 512
  | .array l e => l.tag * e.memSize + e.staticPrealloc
  | .tuple _ _ fs => fs.staticPrealloc
  | .tcons h t => h.staticPrealloc + t.staticPrealloc
  | .nullable s => s.memSize + s.staticPrealloc
  | .nullAsEmpty s => 8 * (match s with | .array l _ => l.tag | _ => 0) + 64 + s.staticPrealloc
  | _ => 0

def allocSlack : Nat := 65536

end F3.Cbor

namespace F3.Cbor
/-! ### values within the decoder's limits -/

/-- number of elements of a `cons`-list -/
def Value.len : Value → Nat
  | .cons _ t => t.len + 1
  | _ => 0

/-- `f` holds of every element of a `cons`-list (and the list is proper) -/
def Value.all (f : Value → Bool) : Value → Bool
  | .nil => true
  | .cons v t => f v && t.all f
  | _ => false

/-- The value has the shape the schema describes and every length in it respects the limit the
*decoder* enforces. `decode_ok_within`: the decoder only ever returns such values. -/
def Value.within : Schema → Value → Bool
  | .uint max, .uint n => decide (n ≤ max)
  | .int64, .int i => decide (-(2 ^ 63) ≤ i ∧ i < 2 ^ 63)
  | .bool, .bool _ => true
  | .bytes l, .bytes b => decide (b.length ≤ l.dec)
  | .fixed _ decN l, .bytes b => decide (b.length = decN ∧ decN ≤ l.dec)
  | .cid, .bytes c => decide (c.length < 512) && cidValid c
  | .bigint, .big _ => true
  | .bitfield, .bytes b => decide (b.length ≤ 32768)
  | .array l e, vs => decide (vs.len ≤ l.dec) && vs.all (Value.within e)
  | .tuple _ _ fs, vs => Value.within fs vs
  | .tnil, .nil => true
  | .tcons h t, .cons v vs => Value.within h v && Value.within t vs
  | .nullable _, .null => true
  | .nullable s, v => Value.within s v
  | .nullAsEmpty s, v => Value.within s v
  | _, _ => false

end F3.Cbor

namespace F3.Cbor
open F3.Codec
/-! ### allocation requests of the decoder (model of the `make` calls of the generated code)

`allocReq s b` = number of bytes the generated `UnmarshalCBOR` asks the allocator for while it
processes input `b` — on accepted *and* on rejected input. Every `make([]byte, extra)` /
`make([]T, extra)` of the generated code comes after the limit check on `extra`; leaf library codecs
(CID, big.Int, bit field) copy their payload at most twice. Scalars and fixed arrays are decoded in
place. -/

/-- requests made while decoding up to `n` elements in sequence (stops at the first failing element) -/
def allocN (a : Bytes → Nat) (dec : Bytes → Except Err (Value × Bytes)) : Nat → Bytes → Nat
  | 0, _ => 0
  | n + 1, b => a b + (match dec b with
                       | .ok (_, r) => allocN a dec n r
                       | .error _ => 0)

def allocReq : Schema → Bytes → Nat
  | .bytes l, b =>
    match readHdr b with
    | .ok (maj, n, _) => if n > l.dec ∨ maj ≠ 2 then 0 else n
    | .error _ => 0
  | .cid, b =>
    match readHdr b with
    | .ok (maj, n, r) =>
      if maj ≠ 6 ∨ n ≠ 42 then 0 else
      match readHdr r with
      | .ok (maj2, n2, _) => if maj2 ≠ 2 ∨ n2 > 512 then 0 else 2 * n2
      | .error _ => 0
    | .error _ => 0
  | .bigint, b =>
    match readHdr b with
    | .ok (maj, n, _) => if maj ≠ 2 ∨ n > 128 then 0 else 2 * n
    | .error _ => 0
  | .bitfield, b =>
    match readHdr b with
    | .ok (maj, n, _) => if n > 32768 ∨ maj ≠ 2 then 0 else n
    | .error _ => 0
  | .array l e, b =>
    match readHdr b with
    | .ok (maj, n, r) => if n > l.dec ∨ maj ≠ 4 then 0 else n * e.memSize + allocN (allocReq e) (decode e) n r
    | .error _ => 0
  | .tuple _ decN fs, b =>
    match readHdr b with
    | .ok (maj, n, r) => if maj ≠ 4 ∨ n ≠ decN then 0 else allocReq fs r
    | .error _ => 0
  | .tcons h t, b =>
    allocReq h b + (match decode h b with
                    | .ok (_, r) => allocReq t r
                    | .error _ => 0)
  | .nullable s, b =>
    match b with
    | [] => 0
    | x :: _ => if x = 246 then 0 else s.memSize + allocReq s b
  | .nullAsEmpty s, b =>
    match b with
    | [] => 0
    | x :: _ =>
      if x = 246 then 0 else
      -- the ECChain object, the `[]*TipSet` of the decoded length, and the legacy slice itself
      64 + 8 * (match decode s b with | .ok (v, _) => v.len | .error _ => 0) + allocReq s b
  | _, _ => 0

/-- bytes requested per byte of input that is actually consumed: every element of a slice and every
pointer target costs its in-memory size and consumes at least one byte (its array head) -/
def Schema.allocPerByte : Schema → Nat
  | .array _ e => e.memSize + e.allocPerByte
  | .tuple _ _ fs => fs.allocPerByte
  | .tcons h t => max h.allocPerByte t.allocPerByte
  | .nullable s => s.memSize + s.allocPerByte
  | .nullAsEmpty s => 72 + s.allocPerByte
  | _ => 2

/-- the oracle's bound on what the Go decoder may allocate for an input of the given length:
`allocReq_le` (proved) plus a constant for readers, error values and allocator rounding -/
def Schema.allocBound (s : Schema) (inputLen : Nat) : Nat :=
  s.allocPerByte * inputLen + s.staticPrealloc + allocSlack

end F3.Cbor
