import F3.Model.Instance
/-!
# Participant wrapper (`gpbft/participant.go`) around one instance

Messages that arrive for the current instance before it has begun are queued (`messageQueue.Add`:
spam filter beyond the look-ahead, one message per sender/round/phase), drained on start ordered by
(round, phase) (stable; senders in first-arrival order here — Go: map order) and fed to
`instance.ReceiveMany`.
-/
namespace F3.Instance

structure PState where
  inst : State
  started : Bool := false
  queue : List Msg := []
  deriving Repr, Inhabited

/-- `messageQueue.Add` -/
def PState.queueAdd (p : PState) (m : Msg) : PState :=
  if m.round > p.inst.cfg.maxLookahead && isSpammable m then p
  else if p.queue.any (fun q => q.sender == m.sender && q.round == m.round && q.phase == m.phase) then p
  else { p with queue := p.queue ++ [m] }

def msgLe (a b : Msg) : Bool :=
  a.round < b.round || (a.round == b.round && a.phase.toNat ≤ b.phase.toNat)

/-- stable insertion (after all elements that are ≤) -/
def insertStable (m : Msg) : List Msg → List Msg
  | [] => [m]
  | x :: xs => if msgLe x m then x :: insertStable m xs else m :: x :: xs

def sortStable (l : List Msg) : List Msg := l.foldl (fun acc m => insertStable m acc) []

/-- senders in first-arrival order -/
def sendersOf (l : List Msg) : List Pid :=
  l.foldl (fun acc m => if acc.contains m.sender then acc else acc ++ [m.sender]) []

/-- `messageQueue.Drain` with an explicit sender order (Go: map iteration order). Senders missing from
`order` come last in first-arrival order. -/
def drainWith (order : List Pid) (l : List Msg) : List Msg :=
  let ss := order.filter (sendersOf l).contains ++ (sendersOf l).filter (fun s => !order.contains s)
  sortStable (ss.flatMap (fun s => l.filter (·.sender == s)))

def drain (l : List Msg) : List Msg := drainWith [] l

def isLateBinding (es : List Eff) : Bool :=
  es.any (fun e => match e with | .err .wrongBase => true | .err .wrongSupp => true | _ => false)

/-- `instance.ReceiveMany` -/
def State.receiveMany (s : State) (now : Int) (ms : List Msg) : R :=
  if s.phase == .terminated then (s, [.err .afterTermination])
  else
    let acc := ms.foldl (fun (acc : State × List Eff × List Nat × Bool) m =>
      let (st, effs, rounds, failed) := acc
      if failed then acc
      else
        let (r, changed) := st.receiveOne now m
        if isLateBinding r.2 then (st, effs, rounds, false)   -- dropped, state unchanged
        else if hasFailure r.2 then (r.1, effs ++ r.2, rounds, true)
        else (r.1, effs ++ r.2, if changed && !rounds.contains m.round then rounds ++ [m.round] else rounds, false))
      (s, [], [], false)
    let (st, effs, rounds, failed) := acc
    if failed then (st, effs)
    else
      let desc := (sortNat rounds).reverse
      let rec go (st : State) : List Nat → R
        | [] => (st, [])
        | r :: rs =>
          let res := st.postReceive now r
          if res.2.isEmpty then go st rs else res
      let r2 := go st desc
      (r2.1, effs ++ r2.2)

inductive POp
  | alarm (now : Int)
  | recv (now : Int) (m : Msg)
  deriving Repr

/-- `Participant.ReceiveAlarm` / `ReceiveMessage` for the current instance; `order` is the sender order in
which the queue is drained when the instance begins (any order is possible in Go). -/
def pstepWith (order : List Pid) (p : PState) : POp → PState × List Eff
  | .alarm now =>
    if !p.started then
      let r1 := p.inst.beginQuality now
      if hasFailure r1.2 then ({ p with inst := r1.1, started := true, queue := [] }, r1.2)
      else
        let r2 := r1.1.receiveMany now (drainWith order p.queue)
        ({ inst := r2.1, started := true, queue := [] }, r1.2 ++ r2.2)
    else
      let r := step p.inst (.alarm now)
      ({ p with inst := r.1 }, r.2)
  | .recv now m =>
    if !p.started then (p.queueAdd m, [])
    else
      let r := step p.inst (.recv now m)
      ({ p with inst := r.1 }, r.2)

def pstep (p : PState) (op : POp) : PState × List Eff := pstepWith [] p op

end F3.Instance
