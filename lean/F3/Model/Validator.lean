import F3.Model.Msg
import F3.Model.Cache
import F3.Gen.Core
/-!
# Model of `gpbft/validator.go` (`cachingValidator`) and of `pmsg` strip / complete. Core-only.

Every function names the Go code it mirrors. The strong-quorum test is the definition *generated*
from `gpbft.go` (`F3.Gen.isStrongQuorum`), so the theorems are re-checked against the source's
arithmetic on every run (C08 ties it to `3p ≥ 2w`).

Layout: the checks are first given as pure functions (`preMsg`, `preJust`, `sigJust`), i.e. the
statements of `validateMessageWithVoteValueKey` / `validateJustification` /
`validateJustificationSignature` with the cache look-ups removed; the cached validator
(`validateJust`, `validateBody`, `validateMsgK`) threads the `GroupedSet` through exactly the look-up
and insert points of the Go code. `checkMsg` is the cache-free composition; that the cached validator
computes `checkMsg` for every reachable cache is the theorem `validate_history_independent` (C05).
-/
namespace F3.Validator
open F3.Msg F3.Cache

structure Cfg where
  /-- network name (interned) -/
  net : Nat
  /-- `committeeLookback` -/
  lookback : Nat

/-- uint64 wrap -/
def u64 (n : Nat) : Nat := n % 18446744073709551616

/-! ## `ECChain.Validate` -/

/-- `TipSet.Validate` -/
def tipValid (t : Tip) : Bool :=
  decide (t.keyLen ≠ 0) && decide (t.keyLen ≤ 760) && decide (t.ptLen ≠ 0) && decide (t.ptLen ≤ 38)

/-- the loop of `ECChain.Validate` (`lastEpoch` starts at −1) -/
def epochsOk : Int → Chain → Bool
  | _, [] => true
  | last, t :: ts => tipValid t && decide (last < t.epoch) && epochsOk t.epoch ts

/-- `ECChain.Validate` (`ChainMaxLen = 128`; the zero chain is valid) -/
def chainValid (c : Chain) : Bool :=
  c.isEmpty || (decide (c.length ≤ 128) && epochsOk (-1) c)

/-! ## `validateByProgress` -/

/-- `none` = proceed with validation; `some e` = the sentinel error returned. -/
def byProgress (cfg : Cfg) (cur : Progress) (v : Payload) : Option Verdict :=
  if v.inst ≥ u64 (cur.id + cfg.lookback) then some .noCommittee
  else if v.inst > cur.id ∨ (u64 (v.inst + 1) = cur.id ∧ v.phase = DECIDE) then none
  else if v.inst = cur.id then
    if cur.phase = DECIDE ∧ v.phase ≠ DECIDE then some .notRelevant
    else if v.phase = QUALITY ∨ v.phase = DECIDE ∨ v.round ≥ cur.round ∨ u64 (v.round + 1) = cur.round then none
    else some .notRelevant
  else some .tooOld

/-! ## Committee access -/

def findEntry (es : List Entry) (id : Nat) : Option Entry :=
  match es with
  | [] => none
  | e :: t => if e.id = id then some e else findEntry t id

/-- `PowerTable.Get`: (scaled power, public key), `(0, _)` when absent. -/
def _root_.F3.Msg.Committee.get (c : Committee) (id : Nat) : Nat × Nat :=
  match findEntry c.entries id with
  | some e => (e.power, e.pub)
  | none => (0, 0)

def _root_.F3.Msg.Committee.pubAt (c : Committee) (i : Nat) : Nat := (c.entries[i]?.map (·.pub)).getD 0

/-- `Justification.GetSigners`: total scaled power of the signers; `none` when an index is out of
range or a signer has zero scaled power. -/
def signersPower (c : Committee) : List Nat → Option Nat
  | [] => some 0
  | i :: is =>
    match c.entries[i]? with
    | none => none
    | some e => if e.power = 0 then none else (signersPower c is).map (e.power + ·)

/-- the payload bytes `Payload.MarshalForSigningWithValueKey(net, key)` -/
def votePayload (net : Nat) (v : Payload) (key : VKey) : SigMsg :=
  .vote net v.inst v.round v.phase v.supp key

/-- `validateJustificationSignature`: signers, strong quorum (generated predicate), aggregate. -/
def sigJust (cfg : Cfg) (c : Committee) (j : Just) (ek : VKey) : Bool :=
  match signersPower c j.signers with
  | none => false
  | some p =>
    F3.Gen.isStrongQuorum (p : Int) (c.total : Int) &&
      (j.agg == Agg.tok (j.signers.map (fun i => (i, c.pubAt i))) (votePayload cfg.net j.vote ek))

/-! ## The expectation table of `validateJustification` -/

/-- message phase → justification phase → (expected round, `true` = the message's value key /
`false` = the zero key). The DECIDE row's round (`math.MaxUint64` in the Go table) is never compared, see `anyRound`. -/
def expectation (ph : Nat) (round : Nat) (jph : Nat) : Option (Nat × Bool) :=
  if ph = CONVERGE ∨ ph = PREPARE then
    if jph = COMMIT then some (u64 (round + maxU64), false)
    else if jph = PREPARE then some (u64 (round + maxU64), true)
    else none
  else if ph = COMMIT then
    if jph = PREPARE then some (round, true) else none
  else if ph = DECIDE then
    if jph = COMMIT then some (maxU64, true) else none
  else none

/-- When the justification's round is not compared. **As repaired**: only for DECIDE (whose table row
carries no round). The pinned tree tests `expected.Round == math.MaxUint64` instead, which also matches the
COMMIT row of a message whose own round is 2^64−1 (finding UNSOUND-ACCEPT-MAXROUND, see DESIGN / C05). -/
def anyRound (mph : Nat) (_er : Nat) : Bool := decide (mph = DECIDE)

/-- `validateJustification` up to (excluding) the cache look-up: presence, instance, supplemental data,
chain validity, table (phase, round, and — full mode only — value). Returns the justification and the
expected vote-value key. `vk = some k` is partial mode. -/
def preJust (vk : Option VKey) (m : Msg) : Option (Just × VKey) :=
  match m.just with
  | none => none
  | some j =>
    if m.vote.inst ≠ j.vote.inst then none
    else if m.vote.supp ≠ j.vote.supp then none
    else if !chainValid j.vote.value then none
    else
      let msgKey := vk.getD (keyOf m.vote.value)
      match expectation m.vote.phase m.vote.round j.vote.phase with
      | none => none
      | some (er, useMsgKey) =>
        if j.vote.round ≠ er ∧ !anyRound m.vote.phase er then none
        else
          let ek := if useMsgKey then msgKey else VKey.zero
          if vk.isNone ∧ keyOf j.vote.value ≠ ek then none else some (j, ek)

/-! ## `validateMessageWithVoteValueKey`, statements between the cache look-up and the justification -/

/-- `voteForBottom` -/
def voteForBottom (vk : Option VKey) (m : Msg) : Bool :=
  match vk with
  | none => m.vote.value.isEmpty
  | some k => k.isZero

/-- the `switch msg.Vote.Phase` block -/
def phaseRules (cfg : Cfg) (c : Committee) (m : Msg) (bottom : Bool) (pub : Nat) : Bool :=
  if m.vote.phase = QUALITY then decide (m.vote.round = 0) && !bottom
  else if m.vote.phase = CONVERGE then
    decide (m.vote.round ≠ 0) && !bottom &&
      (m.ticket == Sig.tok pub (.vrf cfg.net c.beacon m.vote.inst m.vote.round))
  else if m.vote.phase = DECIDE then decide (m.vote.round = 0) && !bottom
  else if m.vote.phase = PREPARE ∨ m.vote.phase = COMMIT then true
  else false

/-- `needsJustification` -/
def needsJust (m : Msg) (bottom : Bool) : Bool :=
  !(decide (m.vote.phase = QUALITY) || (decide (m.vote.phase = PREPARE) && decide (m.vote.round = 0)) ||
    (decide (m.vote.phase = COMMIT) && bottom))

/-- sender power, chain validity, phase rules, signature. `none` = `ErrValidationInvalid`,
`some b` = passed, `b` = needs a justification. -/
def preMsg (cfg : Cfg) (c : Committee) (vk : Option VKey) (m : Msg) : Option Bool :=
  let sp := c.get m.sender
  if sp.1 = 0 then none
  else if !chainValid m.vote.value then none
  else
    let bottom := voteForBottom vk m
    if !phaseRules cfg c m bottom sp.2 then none
    else if !(m.sig == Sig.tok sp.2 (votePayload cfg.net m.vote (vk.getD (keyOf m.vote.value)))) then none
    else some (needsJust m bottom)

/-! ## Cache-free composition -/

def checkJust (cfg : Cfg) (c : Committee) (vk : Option VKey) (m : Msg) : Bool :=
  match preJust vk m with
  | none => false
  | some (j, ek) => sigJust cfg c j ek

def checkBody (cfg : Cfg) (c : Committee) (vk : Option VKey) (m : Msg) : Bool :=
  match preMsg cfg c vk m with
  | none => false
  | some true => checkJust cfg c vk m
  | some false => m.just.isNone

/-- Validation proper without any cache (committee look-up included). -/
def checkMsg (cfg : Cfg) (comt : Nat → Option Committee) (vk : Option VKey) (m : Msg) : Verdict :=
  match comt m.vote.inst with
  | none => .noCommittee
  | some c => if checkBody cfg c vk m then .accept else .invalid

/-! ## The cached validator -/

/-- What `getCacheKey` + namespace identify: the CBOR bytes of the (partial) message, resp. of the
justification followed by the expected value key, per namespace. -/
inductive CKey where
  | msg (m : Msg)
  | pmsg (k : VKey) (m : Msg)
  | just (j : Just) (ek : VKey)
  | pjust (j : Just) (ek : VKey)
  deriving DecidableEq

abbrev VCache := GroupedSet CKey

/-- `getCacheKey(msg)` in namespace `message` / `partial_message`; `none` when marshalling fails. -/
def msgCKey (vk : Option VKey) (m : Msg) : Option CKey :=
  if m.enc then
    some (match vk with
      | some k => CKey.pmsg k m
      | none => CKey.msg m)
  else none

/-- `getCacheKey(msg.Justification, expectedVoteValueKey)` in namespace `justification` /
`partial_justification`. -/
def justCKey (vk : Option VKey) (j : Just) (ek : VKey) : Option CKey :=
  if j.enc then some (if vk.isSome then CKey.pjust j ek else CKey.just j ek) else none

/-- `validateJustification` -/
def validateJust (cfg : Cfg) (c : Committee) (cache : VCache) (vk : Option VKey) (m : Msg) :
    Bool × VCache :=
  match preJust vk m with
  | none => (false, cache)
  | some (j, ek) =>
    match justCKey vk j ek with
    | none => (sigJust cfg c j ek, cache)
    | some key =>
      let r := cache.contains m.vote.inst key
      if r.1 then (true, r.2)
      else if sigJust cfg c j ek then (true, (r.2.add m.vote.inst key).2)
      else (false, r.2)

/-- `validateMessageWithVoteValueKey` after the committee look-up, before the final insert. -/
def validateBody (cfg : Cfg) (c : Committee) (cache : VCache) (vk : Option VKey) (m : Msg) :
    Bool × VCache :=
  match preMsg cfg c vk m with
  | none => (false, cache)
  | some true => validateJust cfg c cache vk m
  | some false => (m.just.isNone, cache)

/-- `validateMessageWithVoteValueKey` -/
def validateMsgK (cfg : Cfg) (comt : Nat → Option Committee) (cache : VCache) (vk : Option VKey)
    (m : Msg) : Verdict × VCache :=
  let ck := msgCKey vk m
  let r0 : Bool × VCache :=
    match ck with
    | some key => cache.contains m.vote.inst key
    | none => (false, cache)
  if r0.1 then (.accept, r0.2)
  else
    match comt m.vote.inst with
    | none => (.noCommittee, r0.2)
    | some c =>
      let r := validateBody cfg c r0.2 vk m
      if r.1 then
        (.accept, match ck with
          | some key => (r.2.add m.vote.inst key).2
          | none => r.2)
      else (.invalid, r.2)

/-- `cachingValidator.ValidateMessage` -/
def validate (cfg : Cfg) (comt : Nat → Option Committee) (prog : Progress) (cache : VCache) (m : Msg) :
    Verdict × VCache :=
  match byProgress cfg prog m.vote with
  | some e => (e, cache)
  | none => validateMsgK cfg comt cache none m

/-- `cachingValidator.PartiallyValidateMessage` -/
def partially (cfg : Cfg) (comt : Nat → Option Committee) (prog : Progress) (cache : VCache) (pm : PMsg) :
    Verdict × VCache :=
  match byProgress cfg prog pm.msg.vote with
  | some e => (e, cache)
  | none => validateMsgK cfg comt cache (some pm.key) pm.msg

/-! ## `FullyValidateMessage` -/

/-- The "abbreviated" expectation table: `some true` = the vote value, `some false` = bottom. -/
def fullTable (ph jph : Nat) : Option Bool :=
  if ph = CONVERGE then
    if jph = COMMIT then some false else if jph = PREPARE then some true else none
  else if ph = PREPARE then
    if jph = COMMIT then some false else if jph = PREPARE then some true else none
  else if ph = COMMIT then
    if jph = PREPARE then some true else none
  else if ph = DECIDE then
    if jph = COMMIT then some true else none
  else none

/-- The value rules of `FullyValidateMessage` (everything after the progress check): a zero key forces
a zero vote value and a zero justification value; a justification's value must be the one the abbreviated
table prescribes. -/
def fullyRules (pm : PMsg) : Bool :=
  let m := pm.msg
  if pm.key.isZero && (!m.vote.value.isEmpty ||
      (match m.just with
        | some j => !j.vote.value.isEmpty
        | none => false)) then false
  else
    match m.just with
    | none => true
    | some j =>
      match fullTable m.vote.phase j.vote.phase with
      | none => false
      | some useVal => decide (j.vote.value = (if useVal then m.vote.value else []))

/-- `cachingValidator.FullyValidateMessage` on a partially validated message whose `Vote.Value` (and
inferred justification value) has been filled in: chain validity, key consistency, progress, value rules. -/
def fully (cfg : Cfg) (prog : Progress) (pm : PMsg) : Verdict :=
  let m := pm.msg
  if !chainValid m.vote.value then .invalid
  else if pm.key ≠ keyOf m.vote.value then .invalid
  else
    match byProgress cfg prog m.vote with
    | some e => e
    | none => if fullyRules pm then .accept else .invalid

/-! ## `pmsg`: strip, infer, complete -/

/-- `inferJustificationVoteValue` (on the justification of a message of phase `ph` and value `x`) -/
def inferJust (ph : Nat) (x : Chain) (j : Just) : Just :=
  if ph = CONVERGE ∨ ph = PREPARE ∨ ph = COMMIT then
    if j.vote.phase = PREPARE then { j with vote := { j.vote with value := x } } else j
  else if ph = DECIDE then
    if j.vote.phase = COMMIT then { j with vote := { j.vote with value := x } } else j
  else j

/-- `pgmsg.Vote.Value = chain; inferJustificationVoteValue(pgmsg)` — the completion performed in
`PartialMessageManager` when the chain is discovered / found. -/
def complete (pm : PMsg) (x : Chain) : PMsg :=
  { pm with msg := { pm.msg with
      vote := { pm.msg.vote with value := x }
      just := pm.msg.just.map (inferJust pm.msg.vote.phase x) } }

/-- `PartialMessageManager.ToPartialGMessage` -/
def strip (m : Msg) : PMsg :=
  { key := if m.vote.value.isEmpty then VKey.zero else keyOf m.vote.value
    msg := { m with
      vote := { m.vote with value := [] }
      just := m.just.map (fun j => { j with vote := { j.vote with value := [] } }) } }

/-- `PartialMessageManager.CompleteMessage` with the chain store as a parameter. -/
def completeMessage (lookup : VKey → Option Chain) (pm : PMsg) : Option Msg :=
  if pm.key.isZero then some pm.msg
  else
    match lookup pm.key with
    | none => none
    | some x => some (complete pm x).msg

/-- The two-stage path: partial validation at progress `p1` (shared cache), completion with chain `x`,
full validation at progress `p2`. -/
def twoStage (cfg : Cfg) (comt : Nat → Option Committee) (p1 p2 : Progress) (cache : VCache)
    (pm : PMsg) (x : Chain) : Verdict :=
  match (partially cfg comt p1 cache pm).1 with
  | .accept => fully cfg p2 (complete pm x)
  | e => e

/-! ## Reachable caches -/

/-- Operations that touch the validation cache of one participant. -/
inductive CacheOp where
  | validate (prog : Progress) (m : Msg)
  | partially (prog : Progress) (pm : PMsg)
  /-- `finishCurrentInstance` → `RemoveGroupsLessThan` -/
  | prune (n : Nat)

def applyOp (cfg : Cfg) (comt : Nat → Option Committee) (cache : VCache) : CacheOp → VCache
  | .validate p m => (validate cfg comt p cache m).2
  | .partially p pm => (partially cfg comt p cache pm).2
  | .prune n => cache.removeLessThan n

def runOps (cfg : Cfg) (comt : Nat → Option Committee) (cache : VCache) (ops : List CacheOp) : VCache :=
  ops.foldl (applyOp cfg comt) cache

end F3.Validator
