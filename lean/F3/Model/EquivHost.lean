import F3.Model.Equiv
/-!
# Model of the caller of the broadcast path (C12, host level)

`F3/Model/Equiv.lean` models what happens *inside* `gpbftRunner.BroadcastMessage`, `RequestRebroadcast`
and `newRunner`; its theorems assume that every request is for an instance at or above the WAL purge
epoch as of the last restart (`Sys.floor`).  This file models the code that *issues* those requests, so
that the assumption becomes a theorem (`F3/Proofs/EquivHost.lean`).  Core-only, executable.

What the Go code does (pinned tree, line numbers of `/repo`):

* **Certificate store.**  `certstore.Store.Put` (`certstore/certstore.go:363-456`) accepts exactly the
  certificate for `nextCert` = `firstInstance` when the store is empty, `latest+1` otherwise (`:380-389`);
  a certificate below is silently ignored (`:387-389`), one above is an error (`:384-386`).  The store is
  opened from the datastore on every start (`store.go:21-38`, `f3.go:287`), so `latest` survives restarts
  and never decreases.  `firstInstance` is `manifest.InitialInstance` (`store.go:37`).
* **Purge.**  The only call of `wal.Purge` is `host.go:303-309`: `h.wal.Purge(cert.GPBFTInstance - 5)` when
  `cert.GPBFTInstance > 5`, for a certificate `cert` read from a `certStore.Subscribe()` channel
  (`host.go:272-279`), i.e. a certificate that *is in the store* (`certstore.go:439-448`: subscribers
  are fed `cs.latestCertificate`).  It runs in its own goroutine, concurrently with the participant, and
  is followed (not atomically) by the `selfMessages` trim `host.go:310-316`.
* **(Re)start.**  `gpbftRunner.Start` subscribes to the store (`host.go:175`); `Subscribe` puts the latest
  certificate, if any, into the buffered channel *before returning* (`certstore.go:465-472`), so the
  `select` of `host.go:176-185` takes `receiveCertificate(c)` — participant progress is 0 for a fresh
  participant (`gpbft/progress.go:44-49`), hence `startInstanceAt(c.GPBFTInstance+1)` (`host.go:324-335`) —
  exactly when the store is not empty, and `startInstanceAt(manifest.InitialInstance)` (`host.go:182`)
  otherwise.  Both are `next` below.  The WAL is read (`newRunner`, `host.go:105-125`) before `Start`, and
  the purge goroutine of this run is started after the `select` (`host.go:273`).
* **Progress.**  `Participant.StartInstanceAt` (`gpbft/participant.go:73-96`) sets the instance
  *unconditionally* (`beginNextInstance`, `:280-295`, no comparison), so it could move backwards; the host
  calls it in two places only (`host.go:378` via `startInstanceAt`, called at `:182` — once, on a fresh
  participant — and `:334`), and `receiveCertificate` returns early unless `current < cert+1`
  (`host.go:325-329`).  The only other change is `handleDecision` (`participant.go:252-265`):
  `beginNextInstance(current+1)` after `ReceiveDecision` succeeded, i.e. after `certStore.Put` of the
  decision's certificate returned nil (`host.go:796-840`).  So the instance never decreases during a run.
* **Requests.**  `instance.broadcast` builds the `MessageBuilder` with `Instance: i.current.ID`
  (`gpbft/gpbft.go:800-823`) and the instance's ID is the participant's progress ID
  (`participant.go:214,232`).  `RequestBroadcast` (`host.go:755-762`) is **asynchronous**: the builder goes
  into `F3.outboundMessages` (`f3.go:75`, capacity 128), the embedder signs it — once per identity
  it controls (`cmd/f3/run.go:131-145`) — and calls `F3.Broadcast` (`f3.go:95-113`), which calls
  `BroadcastMessage` on the *currently running* runner with the instance stored in the builder.  No code
  compares that instance with the participant's progress; the only check is the equivocation filter.
  `RequestRebroadcast` is synchronous, for `Instant{i.current.ID, round, phase}` (`gpbft.go:952-954`,
  `host.go:690-707`).

`outboundMessages` belongs to the `F3` object (created in `New`), not to the runner, so a builder
requested in one run can be signed in a later run if the same object is stopped and started again.  The
model has this as `restart true`; the theorems exclude it (`HostOk`), `Props/C12.lean` shows why.
-/
namespace F3.EquivHost
open F3.Equiv

/-- what gpbft hands to `RequestBroadcast` (`gpbft.MessageBuilder`): the slot without the sender -/
structure Builder where
  inst : Nat
  round : Nat
  phase : Nat
deriving DecidableEq, Repr

structure HState where
  /-- filter, WAL, `selfMessages`, wire (the state of `Model/Equiv.lean`) -/
  sys : Sys
  /-- `certstore.Store.firstInstance` = `manifest.InitialInstance` -/
  first : Nat
  /-- instance of `certstore.Store.latestCertificate`; durable -/
  latest : Option Nat
  /-- `participant.Progress().ID`; meaningful while `sys.up` -/
  cur : Nat
  /-- builders handed to the embedder and not known to be discarded -/
  out : List Builder
deriving Repr

/-- `nextCert` of `certstore.Put`; also the instance `gpbftRunner.Start` starts the participant at -/
def HState.next (s : HState) : Nat :=
  match s.latest with
  | none => s.first
  | some l => l + 1

/-- the store holds the certificate of instance `k` -/
def HState.hasCert (s : HState) (k : Nat) : Prop := s.first ≤ k ∧ k < s.next

instance (s : HState) (k : Nat) : Decidable (s.hasCert k) := by unfold HState.hasCert; exact inferInstance

/-- first start: empty store, empty WAL, participant at `manifest.InitialInstance` -/
def HState.init (localPID : Peer) (first : Nat) : HState :=
  { sys := Sys.init localPID, first := first, latest := none, cur := first, out := [] }

inductive HostOp where
  /-- the store gains the certificates up to `k` (certificate exchange, snapshot, own decisions of
  `decide` excluded); ignored unless `next ≤ k` -/
  | storePut (k : Nat)
  /-- main loop: `receiveCertificate` for the stored certificate `k` -/
  | certToRunner (k : Nat)
  /-- purge goroutine, first half: `wal.Purge(k - 5)` for the stored certificate `k > 5`, any
  file-granularity outcome -/
  | finalizePurge (k : Nat) (keep : List Msg)
  /-- purge goroutine, second half: `selfMessages` below `k` dropped -/
  | finalizeTrim (k : Nat)
  /-- the current instance terminated: `handleDecision` -/
  | decide
  /-- gpbft calls `RequestBroadcast` for (current instance, round, phase) -/
  | request (round phase : Nat)
  /-- the embedder signs builder number `j` as `sender` (signature `sig`) and calls `F3.Broadcast`; the
  builder stays available (it may be signed for several identities); `crash` as in `Op.broadcast` -/
  | sign (j : Nat) (sender sig : Nat) (crash : Nat)
  /-- gpbft calls `RequestRebroadcast` for (current instance, round, phase) -/
  | rebroadcast (round phase : Nat)
  | peerMsg (p : Peer) (m : Msg)
  | stop
  /-- `newRunner` + `gpbftRunner.Start`.  `keepQueue = false`: new process or new `F3` object (fresh
  `outboundMessages`); `true`: the same `F3` object started again, unsigned builders survive -/
  | restart (keepQueue : Bool)
deriving Repr

/-- the operations of `Model/Equiv.lean` a host operation performs (at most one) -/
def lower (s : HState) : HostOp → List Op
  | .finalizePurge k keep => if s.hasCert k ∧ 5 < k then [.purge (k - 5) keep] else []
  | .finalizeTrim k => if s.hasCert k then [.trim k] else []
  | .sign j sender sig crash =>
    match s.out[j]? with
    | some b => [.broadcast ⟨b.inst, sender, b.round, b.phase, sig⟩ crash]
    | none => []
  | .rebroadcast r p => [.rebroadcast s.cur r p]
  | .peerMsg p m => [.receive p m]
  | .stop => [.stop]
  | .restart _ => [.restart]
  | _ => []

/-- One host step; `startAt` is the instance the runner starts the participant at (`HState.next` in the
code; a parameter so that `Props/C12.lean` can show what goes wrong with another choice). -/
def hstepWith (startAt : HState → Nat) (s : HState) (op : HostOp) : HState :=
  match op with
  | .storePut k => if s.next ≤ k then { s with latest := some k } else s
  | .certToRunner k =>
    if s.sys.up = true ∧ s.hasCert k ∧ s.cur < k + 1 then { s with cur := k + 1 } else s
  | .decide =>
    -- `Put` of the certificate for `cur`: stored when `cur = next`, ignored when below, error when above
    if s.sys.up = true ∧ s.cur ≤ s.next then
      { s with latest := if s.cur = s.next then some s.cur else s.latest, cur := s.cur + 1 }
    else s
  | .request r p => if s.sys.up = true then { s with out := s.out ++ [⟨s.cur, r, p⟩] } else s
  | .restart keep =>
    { s with sys := run s.sys (lower s (.restart keep)), cur := startAt s, out := if keep then s.out else [] }
  | op => { s with sys := run s.sys (lower s op) }

abbrev hstep : HState → HostOp → HState := hstepWith HState.next

def hrunWith (startAt : HState → Nat) (s : HState) : List HostOp → HState
  | [] => s
  | op :: ops => hrunWith startAt (hstepWith startAt s op) ops

abbrev hrun : HState → List HostOp → HState := hrunWith HState.next

/-- the `Model/Equiv.lean` history a host history induces -/
def trace (s : HState) : List HostOp → List Op
  | [] => []
  | op :: ops => lower s op ++ trace (hstep s op) ops

/-- Environment hypotheses, per operation and independent of the state: only the node signs with its
identities; builders are not carried over a restart. -/
def HostOpOk (own : Nat → Bool) : HostOp → Prop
  | .sign _ sender _ _ => own sender = true
  | .peerMsg _ m => own m.sender = false
  | .restart keep => keep = false
  | _ => True

def HostOk (own : Nat → Bool) (ops : List HostOp) : Prop := ∀ op ∈ ops, HostOpOk own op

instance (own : Nat → Bool) (op : HostOp) : Decidable (HostOpOk own op) := by
  cases op <;> simp only [HostOpOk] <;> exact inferInstance

instance (own : Nat → Bool) (ops : List HostOp) : Decidable (HostOk own ops) := by
  unfold HostOk; exact inferInstance

end F3.EquivHost
