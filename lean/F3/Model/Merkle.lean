import F3.Model.CodecBytes
/-! Model of `/repo/merkle/merkle.go` (`Tree`, `BatchTree`, `buildTree`, `depth`, leaf / internal
hashing with domain-separation markers). Core-only and executable.

The hash function `H : Bytes → Bytes` (keccak-256 in the implementation) is a parameter; the driver
instantiates it with `F3.Codec.Hash.keccak256`. The injectivity theorems are collision-resistance
reductions over the strings actually hashed (`F3.HashInputs.hashed`, `F3/Spec/HashInputs.lean`) and hold
for every `H`; the versions that assume an injective `H` are idealised corollaries. -/
namespace F3.Merkle
open F3.Codec

/-- `merkle.ZeroDigest` / `Digest{}`. -/
def zeroDigest : Bytes := List.replicate 32 0

/-- Stands for the Go `panic("expected one value at the leaf")`; not a 32-byte string, so it is
distinguishable from every digest. `tree_never_panics` shows it is unreachable from `tree`. -/
def panicDigest : Bytes := []

/-- `leafHash`: `hash(leafMarker = {1}, value)`. -/
def leafHash (H : Bytes → Bytes) (v : Bytes) : Bytes := H (1 :: v)

/-- `internalHash`: `hash(internalMarker = {0}, left, right)`. -/
def nodeHash (H : Bytes → Bytes) (l r : Bytes) : Bytes := H (0 :: (l ++ r))

/-- `merkle.buildTree(depth, values, nil, hasher)`. -/
def buildTree (H : Bytes → Bytes) : Nat → List Bytes → Bytes
  | _, [] => zeroDigest
  | 0, [v] => leafHash H v
  | 0, _ :: _ :: _ => panicDigest
  | d + 1, v :: vs =>
      nodeHash H (buildTree H d ((v :: vs).take (min (2 ^ d) (v :: vs).length)))
                 (buildTree H d ((v :: vs).drop (min (2 ^ d) (v :: vs).length)))

/-- `depth(length) = bits.Len(uint(length) - 1)`; for `length = 0` the subtraction wraps and the
result is 64 (harmless: `buildTree` returns the zero digest for no values at any depth). -/
def depth (n : Nat) : Nat :=
  if n = 0 then 64 else if n = 1 then 0 else Nat.log2 (n - 1) + 1

/-- `merkle.Tree(values)`. -/
def tree (H : Bytes → Bytes) (vs : List Bytes) : Bytes := buildTree H (depth vs.length) vs

/-- `merkle.BatchTree(values)`, the root for the prefix of length `k` (`roots[k]`). The Go code caches
`buildTreeMemoized` results under the key `(depth, start, end)`, of which the result is a pure
function, so the memo is transparent; the left subtree is the already computed `roots[splitSize]`. -/
def batch (H : Bytes → Bytes) (vs : List Bytes) : Nat → Bytes
  | 0 => zeroDigest
  | 1 => match vs with
         | [] => zeroDigest
         | v :: _ => leafHash H v
  | k + 2 =>
      if h : 2 ^ (depth (k + 2) - 1) < k + 2 then
        nodeHash H (batch H vs (2 ^ (depth (k + 2) - 1)))
          (buildTree H (depth (k + 2) - 1) ((vs.take (k + 2)).drop (2 ^ (depth (k + 2) - 1))))
      else panicDigest
termination_by k => k
decreasing_by exact h

/-- `merkle.BatchTree(values)`: `roots[1:]`, i.e. entry `i` is the root of `values[:i+1]`. -/
def batchTree (H : Bytes → Bytes) (vs : List Bytes) : List Bytes :=
  (List.range vs.length).map fun i => batch H vs (i + 1)

end F3.Merkle
