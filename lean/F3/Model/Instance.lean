import F3.Spec.Quorum
/-!
# Executable model of one GossiPBFT instance (`gpbft/gpbft.go`)

Mirrors `instance`, `quorumState`, `convergeState`: same fields, same control flow, same order of
effects. Core-only so that it is compiled into the driver. Conventions (DESIGN §3):
* a chain is `List Nat` (tipset ids interned by the harness), `[]` is bottom, the head is the base,
  the chain *key* is the chain;
* signatures are symbolic: a validated message from `sender` for `(round, phase, value)` *is* the
  token; a justification is `(round, phase, value, signers)` (signers = power-table indices);
* time is `Int` nanoseconds, `now` is a field of every op;
* Go map iteration order, where it matters, is insertion order here (`Choice` points documented at
  `findBestTicket`, `firstNonZero`, `getJustOfBottom`); the harness avoids or tolerates the
  corresponding ties;
* every `panic` site and returned error of the Go code is an explicit `Eff`.
-/
namespace F3.Instance

abbrev Chain := List Nat
abbrev Pid := Nat

inductive Phase | initial | quality | converge | prepare | commit | decide | terminated
  deriving DecidableEq, Repr, Inhabited

def Phase.toNat : Phase → Nat
  | .initial => 0 | .quality => 1 | .converge => 2 | .prepare => 3 | .commit => 4
  | .decide => 5 | .terminated => 6

structure Just where
  round : Nat
  phase : Phase
  value : Chain
  signers : List Nat
  deriving DecidableEq, Repr, Inhabited

/-- a *validated* message of the current instance as seen by `instance.Receive` -/
structure Msg where
  sender : Pid
  round : Nat
  phase : Phase
  value : Chain
  /-- ticket rank (IEEE bits of the non-negative float computed by `ComputeTicketRank`); CONVERGE only -/
  rank : Nat := 0
  just : Option Just := none
  /-- supplemental data equals the instance's -/
  suppOk : Bool := true
  /-- `msg.Vote.Instance == i.current.ID` -/
  instOk : Bool := true
  deriving DecidableEq, Repr, Inhabited

/-- power table: entries in table order `(id, scaledPower)` -/
structure Table where
  entries : List (Pid × Nat)
  deriving Repr, Inhabited

def Table.total (t : Table) : Nat := (t.entries.map (·.2)).foldl (· + ·) 0

def Table.power (t : Table) (id : Pid) : Nat :=
  match t.entries.find? (·.1 == id) with
  | some e => e.2
  | none => 0

def Table.index? (t : Table) (id : Pid) : Option Nat :=
  t.entries.findIdx? (·.1 == id)

def Table.powerAt (t : Table) (idx : Nat) : Nat :=
  match t.entries[idx]? with
  | some e => e.2
  | none => 0

structure Cfg where
  maxLookahead : Nat
  rebImmediateAfter : Nat
  /-- `2*delta(round)` for `alarmAfterSynchrony` (table index = round; last entry repeats) -/
  timeout2 : List Int
  /-- `2*delta` with the QUALITY multiplier (round 0) -/
  qualityTimeout2 : Int
  /-- `rebroadcastAfter(attempt)` (table index = attempt; last entry repeats) -/
  rebAfter : List Int
  deriving Repr, Inhabited

def tableGet (l : List Int) (i : Nat) : Int :=
  match l[i]? with
  | some v => v
  | none => l.getLast?.getD 0

structure Support where
  chain : Chain
  power : Nat
  /-- senders whose signature is stored, in insertion order -/
  signers : List Pid
  strong : Bool
  deriving Repr, Inhabited

/-- `quorumState` -/
structure Tally where
  senders : List Pid := []
  sendersPower : Nat := 0
  support : List Support := []
  /-- `receivedJustification`, first one per key kept, insertion order -/
  justs : List (Chain × Just) := []
  deriving Repr, Inhabited

structure ConvVal where
  chain : Chain
  just : Just
  /-- `none` = +Inf (self value) -/
  rank : Option Nat
  deriving Repr, Inhabited

/-- `convergeState` -/
structure Conv where
  senders : List Pid := []
  values : List ConvVal := []
  deriving Repr, Inhabited

structure RoundState where
  converged : Conv := {}
  prepared : Tally := {}
  committed : Tally := {}
  deriving Repr, Inhabited

inductive ErrKind
  | afterTermination | wrongInstance | wrongSupp | wrongBase | convergeBottom | convergeNilJust
  | unexpectedPhase | noValuesAtConverge | cannotTransition
  deriving DecidableEq, Repr

inductive PanicSite
  | duplicateMessage | nilJustification | signerNotInTable | invalidSignerIndex | quorumNotFound
  | multipleStrongQuorums | convergeJustRound | commitNoQuorum | decideNoQuorum | tryDecideNoQuorum
  | nextRoundNoJust
  deriving DecidableEq, Repr

inductive Eff
  | broadcast (round : Nat) (phase : Phase) (value : Chain) (ticket : Bool) (just : Option Just)
  | rebroadcast (round : Nat) (phase : Phase)
  | setAlarm (t : Int)
  | progress (round : Nat) (phase : Phase)
  | err (k : ErrKind)
  | panic (s : PanicSite)
  deriving DecidableEq, Repr

structure State where
  cfg : Cfg
  tbl : Table
  input : Chain
  round : Nat := 0
  phase : Phase := .initial
  proposal : Chain
  value : Chain := []
  candidates : List Chain
  quality : Tally := {}
  decision : Tally := {}
  rounds : List (Nat × RoundState) := [(0, {})]
  phaseTimeout : Int := 0
  rebTimeout : Option Int := none
  rebAttempts : Nat := 0
  termination : Option Just := none
  deriving Repr, Inhabited

/-- `newInstance` -/
def init (cfg : Cfg) (tbl : Table) (input : Chain) : State :=
  { cfg := cfg, tbl := tbl, input := input, proposal := input, candidates := [input.take 1] }

/-! ## chains -/

/-- `ECChain.Prefix(to)`: base plus at most `to` suffix tipsets -/
def prefixTo (c : Chain) (to : Nat) : Chain := c.take (to + 1)
def baseChain (c : Chain) : Chain := c.take 1
def hasBase (c : Chain) (b : Option Nat) : Bool := !c.isEmpty && c.head? == b

/-! ## quorumState -/

def strongQ (t : Table) (p : Nat) : Bool := Spec.Quorum.strong (p : Int) (t.total : Int)
def weakQ (t : Table) (p : Nat) : Bool := Spec.Quorum.weak (p : Int) (t.total : Int)

def Tally.findSupport (q : Tally) (c : Chain) : Option Support := q.support.find? (·.chain == c)

def upsertSupport (l : List Support) (s : Support) : List Support :=
  match l with
  | [] => [s]
  | x :: xs => if x.chain == s.chain then s :: xs else x :: upsertSupport xs s

/-- `receiveInner`; returns `none` on the "duplicate message" panic (signature already stored). For
QUALITY (`sig = false`) signatures are nil so the duplicate test never fires. -/
def Tally.receiveInner (t : Table) (q : Tally) (sender : Pid) (c : Chain) (power : Nat) (sig : Bool) :
    Option Tally :=
  let cand := (q.findSupport c).getD { chain := c, power := 0, signers := [], strong := false }
  if sig && cand.signers.contains sender then none
  else
    let p := cand.power + power
    let cand' : Support := { chain := c, power := p,
                             signers := if sig then cand.signers ++ [sender] else cand.signers,
                             strong := strongQ t p }
    some { q with support := upsertSupport q.support cand' }

/-- `Receive` (single value) -/
def Tally.receive (t : Table) (q : Tally) (sender : Pid) (c : Chain) : Option Tally :=
  if q.senders.contains sender then some q
  else
    let pw := t.power sender
    let q' := { q with senders := q.senders ++ [sender], sendersPower := q.sendersPower + pw }
    q'.receiveInner t sender c pw true

/-- prefixes of length 2 … len (the QUALITY vote counts for every proper extension of the base) -/
def qualityPrefixes (c : Chain) : List Chain := (List.range (c.length - 1)).map (fun j => prefixTo c (j + 1))

/-- `ReceiveEachPrefix` -/
def Tally.receiveEachPrefix (t : Table) (q : Tally) (sender : Pid) (c : Chain) : Tally :=
  if q.senders.contains sender then q
  else
    let pw := t.power sender
    let q' := { q with senders := q.senders ++ [sender], sendersPower := q.sendersPower + pw }
    (qualityPrefixes c).foldl (fun acc p => (acc.receiveInner t sender p pw false).getD acc) q'

/-- `ReceiveJustification`: keep only the first per key -/
def Tally.receiveJust (q : Tally) (c : Chain) (j : Just) : Tally :=
  if q.justs.any (·.1 == c) then q else { q with justs := q.justs ++ [(c, j)] }

def Tally.hasStrongFor (q : Tally) (c : Chain) : Bool :=
  match q.findSupport c with
  | some s => s.strong
  | none => false

def Tally.fromStrong (t : Table) (q : Tally) : Bool := strongQ t q.sendersPower
def Tally.fromWeak (t : Table) (q : Tally) : Bool := weakQ t q.sendersPower

/-- `GetJustificationOf(phase, key)`; for the bottom key: the first stored justification whose vote
value is bottom and phase matches (Go: map order — choice point) -/
def Tally.getJustOf (q : Tally) (ph : Phase) (c : Chain) : Option Just :=
  if c.isEmpty then
    (q.justs.find? (fun e => e.2.value.isEmpty && e.2.phase == ph)).map (·.2)
  else
    match q.justs.find? (·.1 == c) with
    | some e => if e.2.phase == ph then some e.2 else none
    | none => none

def Tally.couldReach (t : Table) (q : Tally) (c : Chain) (adv : Bool) : Bool :=
  let sup := match q.findSupport c with | some s => s.power | none => 0
  Spec.Quorum.couldReach adv (t.total : Int) (q.sendersPower : Int) (sup : Int)

/-- insertion sort on power-table indices (`sort.Ints`) -/
def insertSorted (x : Nat) : List Nat → List Nat
  | [] => [x]
  | y :: ys => if x ≤ y then x :: y :: ys else y :: insertSorted x ys
def sortNat (l : List Nat) : List Nat := l.foldr insertSorted []

/-- accumulate sorted signer indices until strong -/
def takeUntilStrong (t : Table) : List Nat → Nat → List Nat → Option (List Nat)
  | [], _, _ => none
  | i :: is, acc, taken =>
    let acc' := acc + t.powerAt i
    if strongQ t acc' then some (taken ++ [i]) else takeUntilStrong t is acc' (taken ++ [i])

inductive QR | none | found (signers : List Nat) | panic (s : PanicSite)

/-- `FindStrongQuorumFor` -/
def Tally.findStrongQuorumFor (t : Table) (q : Tally) (c : Chain) : QR :=
  match q.findSupport c with
  | none => .none
  | some s =>
    if !s.strong then .none
    else
      match s.signers.mapM t.index? with
      | none => .panic .signerNotInTable
      | some idxs =>
        match takeUntilStrong t (sortNat idxs) 0 [] with
        | some sg => .found sg
        | none => .panic .quorumNotFound

/-- `FindStrongQuorumValueForLongestPrefixOf` -/
def Tally.longestPrefixWithQuorum (q : Tally) (preferred : Chain) : Chain :=
  if q.hasStrongFor preferred then preferred
  else
    match ((List.range preferred.length).reverse.map (prefixTo preferred)).find? q.hasStrongFor with
    | some p => p
    | none => baseChain preferred

inductive SQV | none | one (c : Chain) | multiple

/-- `FindStrongQuorumValue` -/
def Tally.findStrongQuorumValue (q : Tally) : SQV :=
  match q.support.filter (·.strong) with
  | [] => .none
  | [s] => .one s.chain
  | _ => .multiple

/-- `ListAllValues` then first non-zero (Go: map order — choice point) -/
def Tally.firstNonZero (q : Tally) : Option Chain :=
  (q.support.find? (fun s => !s.chain.isEmpty)).map (·.chain)

/-! ## convergeState -/

def Conv.setSelf (c : Conv) (v : Chain) (j : Just) : Conv :=
  if c.values.any (·.chain == v) then c
  else { c with values := c.values ++ [{ chain := v, just := j, rank := none }] }

def rankLt (a : Option Nat) (b : Option Nat) : Bool :=
  match a, b with
  | some x, some y => x < y
  | some _, none => true
  | none, _ => false

def updRank (l : List ConvVal) (v : Chain) (r : Nat) : List ConvVal :=
  l.map (fun cv => if cv.chain == v && rankLt (some r) cv.rank then { cv with rank := some r } else cv)

/-- `convergeState.Receive` (value non-bottom and justification present are checked by the caller) -/
def Conv.receive (c : Conv) (sender : Pid) (v : Chain) (rank : Nat) (j : Just) : Conv :=
  if c.senders.contains sender then c
  else
    let c' := { c with senders := c.senders ++ [sender] }
    if c'.values.any (·.chain == v) then { c' with values := updRank c'.values v rank }
    else { c' with values := c'.values ++ [{ chain := v, just := j, rank := some rank }] }

/-- `FindBestTicketProposal`: first minimal-rank value passing the filter (Go: map order on rank ties
— choice point) -/
def Conv.findBest (c : Conv) (filter : ConvVal → Bool) : Option ConvVal :=
  c.values.foldl (fun best cv =>
    let better := match best with
      | none => true
      | some b => rankLt cv.rank b.rank
    if better && filter cv then some cv else best) none

def Conv.getJustOf (c : Conv) (ph : Phase) (v : Chain) : Option Just :=
  if v.isEmpty then
    (c.values.find? (fun cv => cv.just.value.isEmpty && cv.just.phase == ph)).map (·.just)
  else
    match c.values.find? (·.chain == v) with
    | some cv => if cv.just.phase == ph then some cv.just else none
    | none => none

/-! ## instance -/

def State.getRound (s : State) (r : Nat) : RoundState :=
  match s.rounds.find? (·.1 == r) with
  | some e => e.2
  | none => {}

def setAssoc (l : List (Nat × RoundState)) (r : Nat) (rs : RoundState) : List (Nat × RoundState) :=
  match l with
  | [] => [(r, rs)]
  | x :: xs => if x.1 == r then (r, rs) :: xs else x :: setAssoc xs r rs

def State.setRound (s : State) (r : Nat) (rs : RoundState) : State :=
  { s with rounds := setAssoc s.rounds r rs }

def State.isCandidate (s : State) (c : Chain) : Bool := s.candidates.contains c
def State.addCandidate (s : State) (c : Chain) : State × Bool :=
  if s.candidates.contains c then (s, false) else ({ s with candidates := s.candidates ++ [c] }, true)

/-- `addCandidatePrefixes`: `for l := c.Len()-1; l > 0; l--` add `c.Prefix(l)`; reports whether any was new -/
def State.addCandidatePrefixes (s : State) (c : Chain) : State × Bool :=
  ((List.range (c.length - 1)).reverse.map (· + 1)).foldl
    (fun (acc : State × Bool) l =>
      let r := acc.1.addCandidate (prefixTo c l)
      (r.1, acc.2 || r.2)) (s, false)

def State.phaseTimeoutElapsed (s : State) (now : Int) : Bool := decide (now ≥ s.phaseTimeout)
def State.shouldRebroadcast (s : State) (now : Int) : Bool :=
  s.phaseTimeoutElapsed now || decide (s.round > s.cfg.rebImmediateAfter)
def State.resetReb (s : State) : State := { s with rebAttempts := 0, rebTimeout := none }

/-- a step's result: new state and effects in emission order -/
abbrev R := State × List Eff

/-- `alarmAfterSynchronyWithMulti`: `d` is `2*delta` for the round (with the QUALITY multiplier when
called from `beginQuality`) -/
def State.alarmAfter (s : State) (now : Int) (d : Int) : State × List Eff :=
  ({ s with phaseTimeout := now + d }, [.setAlarm (now + d)])

def State.roundTimeout (s : State) : Int := tableGet s.cfg.timeout2 s.round

def rebroadcastEffs (s : State) : List Eff :=
  match s.phase with
  | .quality | .converge | .prepare | .commit =>
    [.rebroadcast 0 .quality, .rebroadcast s.round .commit, .rebroadcast s.round .prepare,
     .rebroadcast s.round .converge] ++
    (if s.round > 0 then
      [.rebroadcast (s.round - 1) .commit, .rebroadcast (s.round - 1) .prepare,
       .rebroadcast (s.round - 1) .converge] else [])
  | .decide => [.rebroadcast 0 .decide]
  | _ => []

/-- `tryRebroadcast` -/
def State.tryRebroadcast (s : State) (now : Int) : R :=
  match s.rebTimeout with
  | none =>
    if s.rebAttempts == 0 then
      let offset := if s.phase == .decide || s.round > s.cfg.rebImmediateAfter then now else s.phaseTimeout
      let rt := offset + tableGet s.cfg.rebAfter 0
      let s1 := { s with rebTimeout := some rt }
      if s.phaseTimeoutElapsed now then (s1, [.setAlarm rt])
      else if rt < s.phaseTimeout then (s1, [.setAlarm rt])
      else (s1.resetReb, [])
    else
      -- attempts > 0 with a zero timeout cannot happen (attempts only grow with a timeout set); treat
      -- as the Go `default`/elapsed evaluation on the zero time: zero time is before any `now`
      let s1 := { s with rebAttempts := s.rebAttempts + 1 }
      let rt := now + tableGet s.cfg.rebAfter s1.rebAttempts
      let s2 := { s1 with rebTimeout := some rt }
      if s.phaseTimeoutElapsed now then (s2, rebroadcastEffs s ++ [.setAlarm rt])
      else if rt < s.phaseTimeout then (s2, rebroadcastEffs s ++ [.setAlarm rt])
      else (s2, rebroadcastEffs s ++ [.setAlarm s.phaseTimeout])
  | some rt0 =>
    if now ≥ rt0 then
      let s1 := { s with rebAttempts := s.rebAttempts + 1 }
      let rt := now + tableGet s.cfg.rebAfter s1.rebAttempts
      let s2 := { s1 with rebTimeout := some rt }
      if s.phaseTimeoutElapsed now then (s2, rebroadcastEffs s ++ [.setAlarm rt])
      else if rt < s.phaseTimeout then (s2, rebroadcastEffs s ++ [.setAlarm rt])
      else (s2, rebroadcastEffs s ++ [.setAlarm s.phaseTimeout])
    else (s, [])

/-- `beginQuality` -/
def State.beginQuality (s : State) (now : Int) : R :=
  if s.phase != .initial then (s, [.err .cannotTransition])
  else
    let s1 := { s with phase := .quality }
    let (s2, a) := s1.alarmAfter now s1.cfg.qualityTimeout2
    let s3 := s2.resetReb
    (s3, [.progress s3.round .quality] ++ a ++ [.broadcast s3.round .quality s3.proposal false none])

/-- `beginPrepare` -/
def State.beginPrepare (s : State) (now : Int) (j : Option Just) : R :=
  let s1 := { s with phase := .prepare }
  let (s2, a) := s1.alarmAfter now s1.roundTimeout
  let s3 := s2.resetReb
  (s3, [.progress s3.round .prepare] ++ a ++ [.broadcast s3.round .prepare s3.value false j])

/-- `beginConverge` -/
def State.beginConverge (s : State) (now : Int) (j : Just) : R :=
  if j.round + 1 != s.round then (s, [.panic .convergeJustRound])
  else
    let s1 := { s with phase := .converge }
    let (s2, a) := s1.alarmAfter now s1.roundTimeout
    let s3 := s2.resetReb
    let rs := s3.getRound s3.round
    let s4 := s3.setRound s3.round { rs with converged := rs.converged.setSelf s3.proposal j }
    (s4, [.progress s4.round .converge] ++ a ++ [.broadcast s4.round .converge s4.proposal true (some j)])

/-- the justification `beginNextRound` attaches to the CONVERGE of the round just entered -/
def State.nextRoundJust (s1 : State) : Except PanicSite Just :=
  let cur := s1.getRound s1.round
  let prev := s1.getRound (s1.round - 1)
  match prev.committed.findStrongQuorumFor s1.tbl [] with
  | .found sg => .ok { round := s1.round - 1, phase := .commit, value := [], signers := sg }
  | .panic p => .error p
  | .none =>
    match cur.prepared.getJustOf .commit [] with
    | some j => .ok j
    | none =>
      match cur.converged.getJustOf .commit [] with
      | some j => .ok j
      | none =>
        match prev.committed.justs.find? (·.1 == s1.proposal) with
        | some e => .ok e.2
        | none => .error .nextRoundNoJust

/-- `beginNextRound` -/
def State.beginNextRound (s : State) (now : Int) : R :=
  let s1 := { s with round := s.round + 1 }
  match s1.nextRoundJust with
  | .ok j => s1.beginConverge now j
  | .error p => (s1, [.panic p])

/-- the justification `beginCommit` attaches to a COMMIT for a non-bottom value -/
def State.commitJust (s3 : State) : Except PanicSite Just :=
  let cur := s3.getRound s3.round
  let nxt := s3.getRound (s3.round + 1)
  match cur.prepared.findStrongQuorumFor s3.tbl s3.value with
  | .found sg => .ok { round := s3.round, phase := .prepare, value := s3.value, signers := sg }
  | .panic p => .error p
  | .none =>
    match cur.committed.getJustOf .prepare s3.value with
    | some j => .ok j
    | none =>
      match nxt.prepared.getJustOf .prepare s3.value with
      | some j => .ok j
      | none =>
        match nxt.converged.getJustOf .prepare s3.value with
        | some j => .ok j
        | none => .error .commitNoQuorum

/-- `beginCommit` -/
def State.beginCommit (s : State) (now : Int) : R :=
  let s1 := { s with phase := .commit }
  let (s2, a) := s1.alarmAfter now s1.roundTimeout
  let s3 := s2.resetReb
  let pre := [Eff.progress s3.round .commit] ++ a
  if s3.value.isEmpty then (s3, pre ++ [.broadcast s3.round .commit s3.value false none])
  else
    match s3.commitJust with
    | .ok j => (s3, pre ++ [.broadcast s3.round .commit s3.value false (some j)])
    | .error p => (s3, pre ++ [.panic p])

/-- `beginDecide(round)` -/
def State.beginDecide (s : State) (round : Nat) : R :=
  let s1 := ({ s with phase := .decide }).resetReb
  match (s1.getRound round).committed.findStrongQuorumFor s1.tbl s1.value with
  | .found sg =>
    (s1, [.progress s1.round .decide,
          .broadcast 0 .decide s1.value false (some { round := round, phase := .commit, value := s1.value, signers := sg })])
  | .panic p => (s1, [.progress s1.round .decide, .panic p])
  | .none => (s1, [.progress s1.round .decide, .panic .decideNoQuorum])

/-- `skipToDecide` -/
def State.skipToDecide (s : State) (v : Chain) (j : Option Just) : R :=
  let s1 := ({ s with phase := .decide, proposal := v, value := v }).resetReb
  (s1, [.progress s1.round .decide, .broadcast 0 .decide v false j])

/-- `terminate` -/
def State.terminate (s : State) (d : Just) : R :=
  let s1 := ({ s with phase := .terminated, value := d.value, termination := some d }).resetReb
  (s1, [.progress s1.round .terminated])

/-- `tryQuality` -/
def State.tryQuality (s : State) (now : Int) : R :=
  if s.phase != .quality then (s, [.err .unexpectedPhase])
  else
    let found := s.quality.hasStrongFor s.proposal
    if found || s.phaseTimeoutElapsed now then
      let p := s.quality.longestPrefixWithQuorum s.input
      let s1 := { s with proposal := p }
      let s2 := (s1.addCandidatePrefixes p).1
      let s3 := { s2 with value := s2.proposal }
      s3.beginPrepare now none
    else (s, [])

/-- `tryConverge` -/
def State.tryConverge (s : State) (now : Int) : R :=
  if s.phase != .converge then (s, [.err .unexpectedPhase])
  else if !s.phaseTimeoutElapsed now then
    if s.shouldRebroadcast now then s.tryRebroadcast now else (s, [])
  else
    let commitPrev := (s.getRound (s.round - 1)).committed
    let valid := fun (cv : ConvVal) =>
      s.isCandidate cv.chain ||
        (cv.just.phase == .prepare && commitPrev.couldReach s.tbl cv.chain true)
    match (s.getRound s.round).converged.findBest valid with
    | none => (s, [.err .noValuesAtConverge])
    | some w =>
      if w.chain.isEmpty then (s, [.err .noValuesAtConverge])
      else
        let s1 := (s.addCandidate w.chain).1
        let s2 := { s1 with proposal := w.chain, value := w.chain }
        s2.beginPrepare now (some w.just)

def State.prepFoundQuorum (s : State) : Bool := (s.getRound s.round).prepared.hasStrongFor s.proposal
def State.prepNotPossible (s : State) : Bool := !(s.getRound s.round).prepared.couldReach s.tbl s.proposal false
def State.prepComplete (s : State) (now : Int) : Bool :=
  s.phaseTimeoutElapsed now && (s.getRound s.round).prepared.fromStrong s.tbl
/-- the proposal is justified by COMMITs of this round or PREPARE/CONVERGE of the next -/
def State.prepFoundJust (s : State) : Bool :=
  ((s.getRound s.round).committed.getJustOf .prepare s.proposal).isSome ||
  ((s.getRound (s.round + 1)).prepared.getJustOf .prepare s.proposal).isSome ||
  ((s.getRound (s.round + 1)).converged.getJustOf .prepare s.proposal).isSome

/-- the value chosen at the end of PREPARE -/
def State.prepareValue (s : State) (now : Int) : State :=
  if s.prepFoundQuorum || s.prepFoundJust then { s with value := s.proposal }
  else if s.prepNotPossible || s.prepComplete now then { s with value := [] } else s

/-- `tryPrepare` -/
def State.tryPrepare (s : State) (now : Int) : R :=
  if s.phase != .prepare then (s, [.err .unexpectedPhase])
  else
    let s1 := s.prepareValue now
    if s.prepFoundQuorum || s.prepFoundJust || s.prepNotPossible || s.prepComplete now then s1.beginCommit now
    else if s1.shouldRebroadcast now then s1.tryRebroadcast now
    else (s1, [])

/-- end of COMMIT without a quorum: adopt some non-bottom committed value as proposal (sway) -/
def State.commitSway (s : State) (committed : Tally) : State :=
  match committed.firstNonZero with
  | some v =>
    let s' := (s.addCandidate v).1
    if v != s'.proposal then { s' with proposal := v } else s'
  | none => s

/-- a strong quorum of COMMIT for bottom in `round` is evidenced by a message of the next round -/
def State.foundJustBottom (s : State) (round : Nat) : Bool :=
  ((s.getRound (round + 1)).prepared.getJustOf .commit []).isSome ||
  ((s.getRound (round + 1)).converged.getJustOf .commit []).isSome

/-- `tryCommit(round)`: the Go `switch` written per outcome of `FindStrongQuorumValue` -/
def State.tryCommit (s : State) (now : Int) (round : Nat) : R :=
  let committed := (s.getRound round).committed
  match committed.findStrongQuorumValue with
  | .multiple => (s, [.panic .multipleStrongQuorums])
  | .one c =>
    if !c.isEmpty then ({ s with value := c }).beginDecide round
    else if s.round != round || s.phase != .commit then (s, [])
    else s.beginNextRound now
  | .none =>
    if s.round != round || s.phase != .commit then (s, [])
    else if s.foundJustBottom round then s.beginNextRound now
    else if s.phaseTimeoutElapsed now && committed.fromStrong s.tbl then
      (s.commitSway committed).beginNextRound now
    else if s.shouldRebroadcast now then s.tryRebroadcast now
    else (s, [])

/-- `tryDecide` -/
def State.tryDecide (s : State) (now : Int) : R :=
  match s.decision.findStrongQuorumValue with
  | .multiple => (s, [.panic .multipleStrongQuorums])
  | .one v =>
    match s.decision.findStrongQuorumFor s.tbl v with
    | .found sg => s.terminate { round := 0, phase := .decide, value := v, signers := sg }
    | .panic p => (s, [.panic p])
    | .none => (s, [.panic .tryDecideNoQuorum])
  | .none => s.tryRebroadcast now

/-- `tryCurrentPhase` -/
def State.tryCurrentPhase (s : State) (now : Int) : R :=
  match s.phase with
  | .quality => s.tryQuality now
  | .converge => s.tryConverge now
  | .prepare => s.tryPrepare now
  | .commit => s.tryCommit now s.round
  | .decide => s.tryDecide now
  | .terminated => (s, [])
  | .initial => (s, [.err .unexpectedPhase])

def hasFailure (es : List Eff) : Bool :=
  es.any (fun e => match e with | .err _ => true | .panic _ => true | _ => false)

/-- sequencing: run `f` on the state unless a failure effect was already produced -/
def andThen (r : R) (f : State → R) : R :=
  if hasFailure r.2 then r else
    let r2 := f r.1
    (r2.1, r.2 ++ r2.2)

def isSpammable (m : Msg) : Bool := m.just.isNone && m.round > 0

/-- `updateCandidatesFromQuality` -/
def State.updateCandidatesFromQuality (s : State) : State :=
  (s.addCandidatePrefixes (s.quality.longestPrefixWithQuorum s.input)).1

/-- QUALITY vote (accepted in any round/phase) -/
def State.recvQuality (s : State) (now : Int) (m : Msg) : R :=
  let s1 := { s with quality := s.quality.receiveEachPrefix s.tbl m.sender m.value }
  if s1.phase != .quality then (s1.updateCandidatesFromQuality, [])
  else s1.tryCurrentPhase now

def State.recvConverge (s : State) (now : Int) (m : Msg) (j : Just) : R :=
  let rs := s.getRound m.round
  let s1 := s.setRound m.round { rs with converged := rs.converged.receive m.sender m.value m.rank j }
  s1.tryCurrentPhase now

def storePrepareJust (q : Tally) (m : Msg) : Tally :=
  match m.just with | some j => q.receiveJust m.value j | none => q

def storeCommitJust (q : Tally) (m : Msg) : Tally :=
  match m.just with
  | some j => if m.value.isEmpty then q else q.receiveJust m.value j
  | none => q

def State.recvPrepare (s : State) (now : Int) (m : Msg) : R :=
  let rs := s.getRound m.round
  match rs.prepared.receive s.tbl m.sender m.value with
  | none => (s, [.panic .duplicateMessage])
  | some q =>
    let s1 := s.setRound m.round { rs with prepared := storePrepareJust q m }
    s1.tryCurrentPhase now

def State.recvCommit (s : State) (now : Int) (m : Msg) : R :=
  let rs := s.getRound m.round
  match rs.committed.receive s.tbl m.sender m.value with
  | none => (s, [.panic .duplicateMessage])
  | some q =>
    if !m.value.isEmpty && m.just.isNone then (s, [.panic .nilJustification])
    else
      let s1 := s.setRound m.round { rs with committed := storeCommitJust q m }
      if s1.phase != .decide then
        let r1 := s1.tryCommit now m.round
        if r1.1.phase == .prepare && r1.1.round == m.round && !m.value.isEmpty then
          andThen r1 (fun st => st.tryCurrentPhase now)
        else r1
      else s1.tryCurrentPhase now

def State.recvDecide (s : State) (now : Int) (m : Msg) : R :=
  match s.decision.receive s.tbl m.sender m.value with
  | none => (s, [.panic .duplicateMessage])
  | some q =>
    let s1 := { s with decision := q }
    if s1.phase != .decide then
      andThen (s1.skipToDecide m.value m.just) (fun st => st.tryCurrentPhase now)
    else s1.tryCurrentPhase now

/-- the checks of `receiveOne` that drop or reject a message before it touches any tally -/
inductive Pre | reject (k : ErrKind) | drop | accept
  deriving DecidableEq, Repr

def State.recvPre (s : State) (m : Msg) : Pre :=
  if !m.instOk then .reject .wrongInstance
  else if !m.suppOk then .reject .wrongSupp
  else if !(m.value.isEmpty || hasBase m.value s.input.head?) then .reject .wrongBase
  else if s.phase == .terminated then .drop
  else if m.round < s.round && (m.phase == .converge || m.phase == .prepare) then .drop
  else if m.round > s.round + s.cfg.maxLookahead && isSpammable m then .drop
  else .accept

/-- `receiveOne`: returns (result, stateChanged) -/
def State.receiveOne (s : State) (now : Int) (m : Msg) : R × Bool :=
  match s.recvPre m with
  | .reject k => ((s, [.err k]), false)
  | .drop => ((s, []), false)
  | .accept =>
    match m.phase with
    | .quality => (s.recvQuality now m, true)
    | .converge =>
      if m.value.isEmpty then ((s, [.err .convergeBottom]), false)
      else match m.just with
        | none => ((s, [.err .convergeNilJust]), false)
        | some j => (s.recvConverge now m j, true)
    | .prepare => (s.recvPrepare now m, true)
    | .commit => (s.recvCommit now m, true)
    | .decide => (s.recvDecide now m, true)
    | _ => ((s, [.err .unexpectedPhase]), false)

/-- `shouldSkipToRound` + `skipToRound` -/
def State.postReceive (s : State) (now : Int) (round : Nat) : R :=
  let rs := s.getRound round
  if round ≤ s.round || s.phase == .decide then (s, [])
  else if !rs.prepared.fromWeak s.tbl then (s, [])
  else
    match rs.converged.findBest (fun _ => true) with
    | none => (s, [])
    | some p =>
      if p.chain.isEmpty then (s, [])
      else
        let s1 := { s with round := round }
        -- QUALITY cut short: conclude it with the votes received so far
        let s1 := if s1.phase == .quality then
            let q := s1.quality.longestPrefixWithQuorum s1.input
            (({ s1 with proposal := q }).addCandidatePrefixes q).1
          else s1
        let s2 := if p.just.phase == .prepare then
            { (s1.addCandidate p.chain).1 with proposal := p.chain } else s1
        s2.beginConverge now p.just

inductive Op
  | start (now : Int)
  | recv (now : Int) (m : Msg)
  | alarm (now : Int)
  deriving Repr

/-- one API call on the instance: `Start`, `Receive`, `ReceiveAlarm` -/
def step (s : State) : Op → R
  | .start now => s.beginQuality now
  | .alarm now => s.tryCurrentPhase now
  | .recv now m =>
    if s.phase == .terminated then (s, [.err .afterTermination])
    else
      let (r, changed) := s.receiveOne now m
      if hasFailure r.2 then r
      else if changed then andThen r (fun st => st.postReceive now m.round)
      else r

/-- the decision reported to the host (`terminationValue`) -/
def State.decided (s : State) : Option Just := s.termination

def run (s : State) (ops : List Op) : State × List Eff :=
  ops.foldl (fun (acc : State × List Eff) op => let r := step acc.1 op; (r.1, acc.2 ++ r.2)) (s, [])

end F3.Instance
