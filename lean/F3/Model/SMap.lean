/-! A Go `map[uint64]V` modelled as an association list kept strictly sorted by key (the normal form
in which two maps with the same contents are *equal* lists). `k` projects the key out of an
element. Core-only; lemmas are in `F3/Proofs/SMap.lean`. -/
namespace F3.SMap

variable {α : Type} (k : α → Nat)

/-- `m[i]` (first element with key `i`) -/
def lookup (l : List α) (i : Nat) : Option α := l.find? (fun x => k x == i)

/-- `m[k x] = x` -/
def insert (x : α) : List α → List α
  | [] => [x]
  | y :: ys =>
    if k x < k y then x :: y :: ys
    else if k x = k y then x :: ys
    else y :: insert x ys

/-- `delete(m, i)` -/
def erase (i : Nat) (l : List α) : List α := l.filter (fun x => k x != i)

/-- build a map from a slice, later elements overriding earlier ones with the same key -/
def ofList (l : List α) : List α := l.foldl (fun m x => insert k x m) []

end F3.SMap
