import F3.Model.Participant
/-!
# The participant across consecutive instances (`gpbft/participant.go`)

`Participant` keeps the id of the current instance (`progression`), the running instance if it has begun
(`p.gpbft`), and a queue of validated messages per *future or not yet begun* instance (`mqueue.messages`).

* `ReceiveMessage`: a message of an instance below the current one is dropped; one of the current instance is
  handed to the running instance if there is one, and queued otherwise; one of a later instance is queued.
* `ReceiveAlarm`: if no instance is running, `beginInstance` fetches proposal and committee from the host,
  creates the instance, starts it and drains the queue of that instance through `ReceiveMany`; otherwise the
  alarm goes to the running instance.
* after every call, `handleDecision`: if the running instance has terminated, the decision is handed to the host
  (`ReceiveDecision`, which answers with the start time of the next instance), the instance is dropped
  (`finishCurrentInstance`) and `beginNextInstance (current + 1)` discards the queues of all instances below the
  new current one.
* `StartInstanceAt k`: finish whatever is running and `beginNextInstance k` (used by the host to skip ahead when
  a finality certificate arrives).

What the host supplies (`GetProposal`, `GetCommittee`) is an input of the alarm that begins an instance. Reuses
`PState` / `pstepWith` of `F3.Model.Participant` for the current instance, so everything proved about those
(`F3.Proofs.Participant*`) applies to each instance of a run of this model (`F3.Proofs.MultiParticipant`).
-/
namespace F3.Instance

/-- a message together with the instance it belongs to (`msg.Vote.Instance`) -/
structure IMsg where
  inst : Nat
  msg : Msg
  deriving Repr

structure MState where
  cfg : Cfg
  /-- `progression`: the current instance -/
  cur : Nat := 0
  /-- `p.gpbft`: the running instance (with its, by then empty, pre-start queue) -/
  active : Option PState := none
  /-- `mqueue.messages`: queued messages per instance, each queue in arrival order -/
  queues : List (Nat × List Msg) := []
  /-- decisions handed to the host, oldest first -/
  decisions : List (Nat × Just) := []
  deriving Repr

/-- `messageQueue.Add` on a bare list (the same rule as `PState.queueAdd`) -/
def queueAddL (look : Nat) (q : List Msg) (m : Msg) : List Msg :=
  if m.round > look && isSpammable m then q
  else if q.any (fun x => x.sender == m.sender && x.round == m.round && x.phase == m.phase) then q
  else q ++ [m]

def queueOf (qs : List (Nat × List Msg)) (k : Nat) : List Msg :=
  match qs.find? (·.1 == k) with
  | some e => e.2
  | none => []

def setQueue (qs : List (Nat × List Msg)) (k : Nat) (q : List Msg) : List (Nat × List Msg) :=
  if qs.any (·.1 == k) then qs.map (fun e => if e.1 == k then (k, q) else e) else qs ++ [(k, q)]

/-- (named `MPOp`: `F3.Instance.MOp` is the micro-operation of `F3.Proofs.ParticipantMicro`) -/
inductive MPOp
  /-- `ReceiveMessage` of a validated message -/
  | recv (now : Int) (m : IMsg)
  /-- `ReceiveAlarm`; `tbl`, `input` are what the host returns if this alarm begins an instance, `order` the
  map order in which the queue is drained -/
  | alarm (now : Int) (tbl : Table) (input : Chain) (order : List Pid)
  /-- `StartInstanceAt` -/
  | startAt (k : Nat)
  deriving Repr

/-- `finishCurrentInstance` + `beginNextInstance next`: drop the running instance and every queue below `next` -/
def MState.beginNext (s : MState) (next : Nat) : MState :=
  { s with cur := next, active := none, queues := s.queues.filter (fun e => decide (next ≤ e.1)) }

/-- `handleDecision` -/
def MState.handleDecision (s : MState) : MState :=
  match s.active with
  | some p =>
    match p.inst.termination with
    | some d => ({ s with decisions := s.decisions ++ [(s.cur, d)] }).beginNext (s.cur + 1)
    | none => s
  | none => s

/-- one API call; the effects are those of the current instance -/
def mpstep (s : MState) : MPOp → MState × List Eff
  | .recv now m =>
    if m.inst < s.cur then (s, [])
    else
      match s.active with
      | some p =>
        if m.inst == s.cur then
          let r := pstepWith [] p (.recv now m.msg)
          (({ s with active := some r.1 }).handleDecision, r.2)
        else ({ s with queues := setQueue s.queues m.inst (queueAddL s.cfg.maxLookahead (queueOf s.queues m.inst) m.msg) }, [])
      | none => ({ s with queues := setQueue s.queues m.inst (queueAddL s.cfg.maxLookahead (queueOf s.queues m.inst) m.msg) }, [])
  | .alarm now tbl input order =>
    match s.active with
    | none =>
      let p0 : PState := { inst := init s.cfg tbl input, started := false, queue := queueOf s.queues s.cur }
      let r := pstepWith order p0 (.alarm now)
      (({ s with active := some r.1, queues := s.queues.filter (fun e => e.1 != s.cur) }).handleDecision, r.2)
    | some p =>
      let r := pstepWith order p (.alarm now)
      (({ s with active := some r.1 }).handleDecision, r.2)
  | .startAt k => (s.beginNext k, [])

def mprun (s : MState) (ops : List MPOp) : MState × List (Nat × Eff) :=
  ops.foldl (fun (acc : MState × List (Nat × Eff)) op =>
    let r := mpstep acc.1 op
    (r.1, acc.2 ++ r.2.map (fun e => (acc.1.cur, e)))) (s, [])

end F3.Instance
