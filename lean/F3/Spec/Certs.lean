import F3.Model.Certs
/-! What C04 *says* about certificate validation, as declarative predicates (independent of the
control flow of `ValidateFinalityCertificates`). Core-only. -/
namespace F3.Spec.Certs
open F3.Certs

/-- Certificate `c` is a valid finality certificate for instance `next` under the power table `t`,
extends `base` (when one is required), and moves the power table to `nt`. -/
structure CertValid (net : Nat) (t : Table) (next : Nat) (base : Option Tip) (c : Cert) (nt : Table) :
    Prop where
  /-- it is for the expected instance -/
  inst : c.inst = next
  /-- its chain is well-formed … -/
  chain_valid : chainValid c.chain = true
  /-- … and not bottom -/
  chain_nonempty : c.chain ≠ []
  /-- it starts at the required base -/
  linked : ∀ b, base = some b → ∃ h, c.chain.head? = some h ∧ Tip.eq b h = true
  /-- its signers are DISTINCT members of `t` (the list of their table indices is strictly increasing:
  it is the iteration of a bitfield, nobody is counted twice) with non-zero scaled power, together
  hold at least two thirds of the scaled total, and the signature is their aggregate over exactly the
  DECIDE payload of `(instance, round 0, supplemental data, chain)` on this network -/
  signed : ∃ sc tot ss, F3.Power.scaled (t.map (·.power)) = some (sc, tot) ∧ c.signers = some ss ∧
    ss.Pairwise (· < ·) ∧
    (∀ i ∈ ss, i < t.length ∧ 0 < sc.getD i 0) ∧
    3 * sumScaled sc ss ≥ 2 * (tot : Int) ∧
    c.sig = .agg (ss.map (fun i => (i, keyAt t i))) ⟨net, c.inst, 0, decidePhase, c.comm, c.pt, c.chain⟩
  /-- applying its delta to `t` gives `nt` … -/
  delta : applyDiff t c.delta = .ok nt
  /-- … which is the table committed in its supplemental data -/
  committed : c.pt = .table nt

/-- the loop state after a valid certificate -/
def advance (s : VState) (c : Cert) (nt : Table) : VState :=
  ⟨u64 (s.next + 1), s.chain ++ c.chain.tail, nt, c.chain.getLast?⟩

/-- `cs` is a valid run of certificates from state `s` (expected instance, chain so far, table in
force, required base) to state `s'`. -/
inductive ValidRun (net : Nat) : VState → List Cert → VState → Prop where
  | nil (s : VState) : ValidRun net s [] s
  | cons {s : VState} {c : Cert} {nt : Table} {cs : List Cert} {s' : VState} :
      CertValid net s.table s.next s.base c nt → ValidRun net (advance s c nt) cs s' →
      ValidRun net s (c :: cs) s'

end F3.Spec.Certs
