import F3.Spec.Granite
/-!
# Message-level network model — Layer N of C01 / C02

State: the set of validly signed votes in existence (monotone). Transitions: a Byzantine member signs
anything; an honest member signs a vote for a slot `(round, phase)` it has not signed yet, and only
under the *guard* of that phase — the evidence the Go participant requires before emitting
(`F3.Props.C07` / Layer B prove the executable model of `gpbft.go` only emits under these guards).
Delivery schedules, delays, losses, duplicates, timers do not appear: every guard is an existential
over votes in existence, hence monotone, so *any* schedule is covered (a participant can only have
received votes that exist).
-/
namespace F3.Granite

variable {P V : Type} [DecidableEq P]

/-- fixed parameters of one instance -/
structure Params (P V : Type) [DecidableEq P] where
  committee : Finset P
  pw : P → Nat
  faulty : Finset P
  bot : V
  /-- the validity predicate on values ("non-bottom prefix of an honest input") -/
  good : P → V → Prop

abbrev Votes (P V : Type) := P → Nat → Phase → V → Prop

def Params.world (c : Params P V) (s : Votes P V) : World P V :=
  { committee := c.committee, pw := c.pw, faulty := c.faulty, bot := c.bot, signed := s }

/-- the guard under which an honest `p` signs `(r, ph, x)` -/
def Guard (c : Params P V) (s : Votes P V) (p : P) (r : Nat) (ph : Phase) (x : V) : Prop :=
  let w := c.world s
  match ph with
  | .quality => True
  | .converge => True
  | .prepare => x ≠ c.bot ∧ (r = 0 ∨ w.J r x) ∧ (c.good p x ∨ ∃ r', r' < r ∧ w.Q .prepare r' x)
  | .commit => (x = c.bot → ∃ y, s p r .prepare y ∧ ∃ s' z, z ≠ y ∧ w.validPrepare s' r z) ∧
               (x ≠ c.bot → w.Q .prepare r x)
  | .decide => r = 0 → (x ≠ c.bot ∧ ∃ r', w.Q .commit r' x)

def add (s : Votes P V) (p : P) (r : Nat) (ph : Phase) (x : V) : Votes P V :=
  fun p' r' ph' x' => s p' r' ph' x' ∨ (p' = p ∧ r' = r ∧ ph' = ph ∧ x' = x)

inductive Step (c : Params P V) : Votes P V → Votes P V → Prop
  | byz (s p r ph x) (hp : p ∈ c.faulty) : Step c s (add s p r ph x)
  | honest (s p r ph x) (hp : p ∉ c.faulty) (fresh : ∀ y, ¬ s p r ph y)
      (guard : Guard c s p r ph x) : Step c s (add s p r ph x)

inductive Reachable (c : Params P V) : Votes P V → Prop
  | init : Reachable c (fun _ _ _ _ => False)
  | step {s s'} : Reachable c s → Step c s s' → Reachable c s'

/-! ### monotonicity -/

omit [DecidableEq P] in
theorem add_mono (s : Votes P V) (p r ph x) : ∀ p' r' ph' x', s p' r' ph' x' → add s p r ph x p' r' ph' x' :=
  fun _ _ _ _ h => Or.inl h

theorem Q_mono (c : Params P V) {s s' : Votes P V} (h : ∀ p r ph x, s p r ph x → s' p r ph x)
    {ph r x} : (c.world s).Q ph r x → (c.world s').Q ph r x := by
  rintro ⟨S, hS, f⟩
  exact ⟨S, hS, fun q hq => h _ _ _ _ (f q hq)⟩

theorem J_mono (c : Params P V) {s s' : Votes P V} (h : ∀ p r ph x, s p r ph x → s' p r ph x)
    {r x} : (c.world s).J r x → (c.world s').J r x := by
  rintro (hp | hc)
  · exact Or.inl (Q_mono c h hp)
  · exact Or.inr (Q_mono c h hc)

theorem validPrepare_mono (c : Params P V) {s s' : Votes P V}
    (h : ∀ p r ph x, s p r ph x → s' p r ph x) {q r z} :
    (c.world s).validPrepare q r z → (c.world s').validPrepare q r z := by
  rintro ⟨h1, h2⟩
  exact ⟨h _ _ _ _ h1, h2.imp id (J_mono c h)⟩

/-- the honest-behaviour invariant, including the validity rule -/
structure Inv (c : Params P V) (s : Votes P V) : Prop where
  rules : (c.world s).Rules
  backed : ∀ p, p ∉ c.faulty → ∀ r x, s p r .prepare x →
      c.good p x ∨ ∃ r', r' < r ∧ (c.world s).Q .prepare r' x

theorem inv_step (c : Params P V) {s s' : Votes P V} (hinv : Inv c s) (hst : Step c s s') : Inv c s' := by
  cases hst with
  | byz p r ph x hp =>
    have mono := add_mono s p r ph x
    have old : ∀ q, q ∉ c.faulty → ∀ r' ph' x', add s p r ph x q r' ph' x' → s q r' ph' x' := by
      intro q hq r' ph' x' h
      rcases h with h | ⟨rfl, _⟩
      · exact h
      · exact absurd hp hq
    refine ⟨⟨hinv.rules.fault_bound, ?_, ?_, ?_, ?_, ?_⟩, ?_⟩
    · intro q hq r' ph' x' y' h1 h2
      exact hinv.rules.one_vote q hq r' ph' x' y' (old q hq _ _ _ h1) (old q hq _ _ _ h2)
    · intro q hq r' x' h
      obtain ⟨a, b⟩ := hinv.rules.prepare_valid q hq r' x' (old q hq _ _ _ h)
      exact ⟨a, b.imp id (J_mono c mono)⟩
    · intro q hq r' x' h
      exact (hinv.rules.commit_valid q hq r' x' (old q hq _ _ _ h)).imp id (Q_mono c mono)
    · intro q hq r' h
      obtain ⟨y, hy, s', z, hne, hv⟩ := hinv.rules.commit_bottom q hq r' (old q hq _ _ _ h)
      exact ⟨y, mono _ _ _ _ hy, s', z, hne, validPrepare_mono c mono hv⟩
    · intro q hq x' h
      obtain ⟨a, r', b⟩ := hinv.rules.decide_valid q hq x' (old q hq _ _ _ h)
      exact ⟨a, r', Q_mono c mono b⟩
    · intro q hq r' x' h
      rcases hinv.backed q hq r' x' (old q hq _ _ _ h) with g | ⟨r'', hlt, hq'⟩
      · exact Or.inl g
      · exact Or.inr ⟨r'', hlt, Q_mono c mono hq'⟩
  | honest p r ph x hp fresh guard =>
    have mono := add_mono s p r ph x
    -- a vote of an honest member in the new state is old, or is the new one
    have split : ∀ q r' ph' x', add s p r ph x q r' ph' x' →
        s q r' ph' x' ∨ (q = p ∧ r' = r ∧ ph' = ph ∧ x' = x) := fun _ _ _ _ h => h
    refine ⟨⟨hinv.rules.fault_bound, ?_, ?_, ?_, ?_, ?_⟩, ?_⟩
    · intro q hq r' ph' x' y' h1 h2
      rcases split _ _ _ _ h1 with o1 | ⟨a1, a2, a3, a4⟩ <;>
        rcases split _ _ _ _ h2 with o2 | ⟨e1, e2, e3, e4⟩
      · exact hinv.rules.one_vote q hq r' ph' x' y' o1 o2
      · subst e1 e2 e3; exact absurd o1 (fresh _)
      · subst a1 a2 a3; exact absurd o2 (fresh _)
      · rw [a4, e4]
    · intro q hq r' x' h
      rcases split _ _ _ _ h with h | ⟨rfl, rfl, rfl, rfl⟩
      · obtain ⟨a, b⟩ := hinv.rules.prepare_valid q hq r' x' h
        exact ⟨a, b.imp id (J_mono c mono)⟩
      · simp only [Guard] at guard
        exact ⟨guard.1, guard.2.1.imp id (J_mono c mono)⟩
    · intro q hq r' x' h
      rcases split _ _ _ _ h with h | ⟨rfl, rfl, rfl, rfl⟩
      · exact (hinv.rules.commit_valid q hq r' x' h).imp id (Q_mono c mono)
      · simp only [Guard] at guard
        by_cases hx : x' = c.bot
        · exact Or.inl hx
        · exact Or.inr (Q_mono c mono (guard.2 hx))
    · intro q hq r' h
      rcases split _ _ _ _ h with h | ⟨rfl, rfl, rfl, hx⟩
      · obtain ⟨y, hy, s', z, hne, hv⟩ := hinv.rules.commit_bottom q hq r' h
        exact ⟨y, mono _ _ _ _ hy, s', z, hne, validPrepare_mono c mono hv⟩
      · simp only [Guard] at guard
        obtain ⟨y, hy, s', z, hne, hv⟩ := guard.1 hx.symm
        exact ⟨y, mono _ _ _ _ hy, s', z, hne, validPrepare_mono c mono hv⟩
    · intro q hq x' h
      rcases split _ _ _ _ h with h | ⟨rfl, rfl, rfl, rfl⟩
      · obtain ⟨a, r', b⟩ := hinv.rules.decide_valid q hq x' h
        exact ⟨a, r', Q_mono c mono b⟩
      · simp only [Guard] at guard
        obtain ⟨a, r', b⟩ := guard trivial
        exact ⟨a, r', Q_mono c mono b⟩
    · intro q hq r' x' h
      rcases split _ _ _ _ h with h | ⟨rfl, rfl, rfl, rfl⟩
      · rcases hinv.backed q hq r' x' h with g | ⟨r'', hlt, hq'⟩
        · exact Or.inl g
        · exact Or.inr ⟨r'', hlt, Q_mono c mono hq'⟩
      · simp only [Guard] at guard
        rcases guard.2.2 with g | ⟨r'', hlt, hq'⟩
        · exact Or.inl g
        · exact Or.inr ⟨r'', hlt, Q_mono c mono hq'⟩

theorem inv_reachable (c : Params P V) (hb : 3 * (c.world (fun _ _ _ _ => False)).power c.faulty <
    (c.world (fun _ _ _ _ => False)).T) {s : Votes P V} (h : Reachable c s) : Inv c s := by
  induction h with
  | init =>
    refine ⟨⟨hb, ?_, ?_, ?_, ?_, ?_⟩, ?_⟩
    · intro p _ r ph x y h; exact h.elim
    · intro p _ r x h; exact h.elim
    · intro p _ r x h; exact h.elim
    · intro p _ r h; exact h.elim
    · intro p _ x h; exact h.elim
    · intro p _ r x h; exact h.elim
  | step _ hst ih => exact inv_step c ih hst

end F3.Granite
