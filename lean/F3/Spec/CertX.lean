import F3.Model.CertX
import F3.Spec.Certs
/-! Declarative notions for C16's poller statements. Core-only. -/
namespace F3.Spec.CertX
open F3.Certs F3.CertX F3.Spec.Certs

/-- `cs` validate one after another starting from instance / table `x`, each on its own (the poller
passes no base tipset), ending with instance / table `y`. -/
inductive PollRun (net : Nat) : Nat × Table → List Cert → Nat × Table → Prop where
  | nil (x : Nat × Table) : PollRun net x [] x
  | cons {n : Nat} {t nt : Table} {c : Cert} {cs : List Cert} {y : Nat × Table} :
      CertValid net t n none c nt → PollRun net (u64 (n + 1), nt) cs y → PollRun net (n, t) (c :: cs) y

/-- the poller's view agrees with its store: `NextInstance` is the store's next instance, `PowerTable`
the store's latest table, which is in canonical form (a fixed point of applying the empty delta) -/
structure Consistent (st : PState) : Prop where
  next : st.next = st.store.nextInst
  table : st.store.latestTable = some st.table
  canon : applyDiff st.table [] = .ok st.table

end F3.Spec.CertX
