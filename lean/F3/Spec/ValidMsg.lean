import F3.Model.Msg
import F3.Spec.Quorum
/-!
# What a valid GossiPBFT message is (C05) — the protocol's validity rules as a declarative predicate.

Written from the protocol description (FIP-0086 / property C05), independently of `validator.go`:
no cache, no progress, no evaluation order. `validMsg net c m` reads: under committee `c` on network
`net`, message `m`
* comes from a committee member with non-zero scaled power whose signature is over exactly the
  message's payload (and, for CONVERGE, whose VRF ticket is over beacon/instance/round);
* carries a well-formed value;
* obeys the constraints of its step (round / non-bottom);
* carries a justification exactly when the step requires one, and that justification is for the same
  instance and supplemental data, for the prescribed step, round and value, and holds a verifying
  aggregate of a strong quorum (≥ 2/3 of the scaled total, `F3.Spec.Quorum.strong`) of distinct
  in-range signers with non-zero scaled power over exactly the justification's payload.
`relevant` is the companion predicate "still relevant to a participant at progress `cur`".
-/
namespace F3.Spec.ValidMsg
open F3.Msg

/-- A tipset has a non-empty key of at most 760 bytes and a defined power-table CID of at most 38. -/
def tipOK (t : Tip) : Prop := 0 < t.keyLen ∧ t.keyLen ≤ 760 ∧ 0 < t.ptLen ∧ t.ptLen ≤ 38

/-- Well-formed value: at most 128 tipsets, each well-formed with a non-negative epoch, epochs
strictly increasing. Bottom (`[]`) is well-formed. -/
def chainWF (c : Chain) : Prop :=
  c.length ≤ 128 ∧ (∀ t ∈ c, tipOK t ∧ 0 ≤ t.epoch) ∧ c.Pairwise (fun a b => a.epoch < b.epoch)

/-- scaled power of the table entry at index `i` (0 when out of range) -/
def powerAt (c : Committee) (i : Nat) : Nat := (c.entries[i]?.map (·.power)).getD 0
def pubAt (c : Committee) (i : Nat) : Nat := (c.entries[i]?.map (·.pub)).getD 0

/-- The signer list names distinct (ascending, as a bit set is read) in-range members with non-zero
scaled power that together hold a strong quorum. -/
def strongSigners (c : Committee) (signers : List Nat) : Prop :=
  signers.Pairwise (· < ·) ∧
  (∀ i ∈ signers, i < c.entries.length ∧ 0 < powerAt c i) ∧
    F3.Spec.Quorum.strong (Int.ofNat (sumNat (signers.map (powerAt c)))) (Int.ofNat c.total) = true

/-- `j` is a verifying strong-quorum certificate: its aggregate is by exactly its signers over
exactly its own payload. -/
def quorumCert (net : Nat) (c : Committee) (j : Just) : Prop :=
  strongSigners c j.signers ∧
    j.agg = Agg.tok (j.signers.map (fun i => (i, pubAt c i)))
      (SigMsg.vote net j.vote.inst j.vote.round j.vote.phase j.vote.supp (keyOf j.vote.value))

/-- The prescribed step, round and value of the evidence `j` for a vote `v`:
CONVERGE and PREPARE (round ≥ 1) by PREPARE for the same value or COMMIT for bottom, from the
previous round; COMMIT by PREPARE of the same round and value; DECIDE by COMMIT for the same value
from any round. -/
def justifies (v j : Payload) : Prop :=
  ((v.phase = CONVERGE ∨ v.phase = PREPARE) ∧ j.round + 1 = v.round ∧
      ((j.phase = PREPARE ∧ j.value = v.value) ∨ (j.phase = COMMIT ∧ j.value = []))) ∨
  (v.phase = COMMIT ∧ j.phase = PREPARE ∧ j.round = v.round ∧ j.value = v.value) ∨
  (v.phase = DECIDE ∧ j.phase = COMMIT ∧ j.value = v.value)

/-- QUALITY, round-0 PREPARE and COMMIT for bottom stand on their own; everything else needs evidence. -/
def needsJustification (v : Payload) : Prop :=
  ¬ (v.phase = QUALITY ∨ (v.phase = PREPARE ∧ v.round = 0) ∨ (v.phase = COMMIT ∧ v.value = []))

/-- Constraints of the step itself. -/
def stepOK (v : Payload) : Prop :=
  (v.phase = QUALITY ∧ v.round = 0 ∧ v.value ≠ []) ∨
  (v.phase = CONVERGE ∧ 1 ≤ v.round ∧ v.value ≠ []) ∨
  v.phase = PREPARE ∨
  v.phase = COMMIT ∨
  (v.phase = DECIDE ∧ v.round = 0 ∧ v.value ≠ [])

/-- Sender is a member with non-zero scaled power; signature (and ticket) by its key over the exact payload. -/
def senderOK (net : Nat) (c : Committee) (m : Msg) : Prop :=
  ∃ e ∈ c.entries, e.id = m.sender ∧ 0 < e.power ∧
    m.sig = Sig.tok e.pub (SigMsg.vote net m.vote.inst m.vote.round m.vote.phase m.vote.supp (keyOf m.vote.value)) ∧
    (m.vote.phase = CONVERGE → m.ticket = Sig.tok e.pub (SigMsg.vrf net c.beacon m.vote.inst m.vote.round))

def justificationOK (net : Nat) (c : Committee) (m : Msg) : Prop :=
  (needsJustification m.vote →
    ∃ j, m.just = some j ∧ j.vote.inst = m.vote.inst ∧ j.vote.supp = m.vote.supp ∧
      chainWF j.vote.value ∧ justifies m.vote j.vote ∧ quorumCert net c j) ∧
  (¬ needsJustification m.vote → m.just = none)

/-- **The validity predicate.** -/
def validMsg (net : Nat) (c : Committee) (m : Msg) : Prop :=
  senderOK net c m ∧ chainWF m.vote.value ∧ stepOK m.vote ∧ justificationOK net c m

/-- Relevance to a participant at progress `cur` with committee look-ahead `lookback`: the instance
is ahead of the current one but within the look-ahead; or it is a DECIDE of the previous instance; or
it belongs to the current instance and is a message that would still be rebroadcast — once the
participant is at DECIDE only DECIDE, otherwise QUALITY, DECIDE, and anything of the previous,
current or a later round. -/
def relevant (lookback : Nat) (cur : Progress) (v : Payload) : Prop :=
  v.inst < cur.id + lookback ∧
  (cur.id < v.inst ∨
   (v.inst + 1 = cur.id ∧ v.phase = DECIDE) ∨
   (v.inst = cur.id ∧ (cur.phase = DECIDE → v.phase = DECIDE) ∧
      (v.phase = QUALITY ∨ v.phase = DECIDE ∨ cur.round ≤ v.round + 1)))

/-! Decidability (the driver *executes* `validMsg` and `relevant` on the symbolic messages). -/

instance (t : Tip) : Decidable (tipOK t) := by unfold tipOK; infer_instance
instance (c : Chain) : Decidable (chainWF c) := by unfold chainWF; infer_instance
instance (c : Committee) (s : List Nat) : Decidable (strongSigners c s) := by
  unfold strongSigners; infer_instance
instance (net : Nat) (c : Committee) (j : Just) : Decidable (quorumCert net c j) := by
  unfold quorumCert; infer_instance
instance (v j : Payload) : Decidable (justifies v j) := by unfold justifies; infer_instance
instance (v : Payload) : Decidable (needsJustification v) := by unfold needsJustification; infer_instance
instance (v : Payload) : Decidable (stepOK v) := by unfold stepOK; infer_instance
instance (net : Nat) (c : Committee) (m : Msg) : Decidable (senderOK net c m) := by
  unfold senderOK; infer_instance
instance (net : Nat) (c : Committee) (m : Msg) : Decidable (justificationOK net c m) := by
  unfold justificationOK
  cases h : m.just with
  | none =>
    exact decidable_of_iff (¬ needsJustification m.vote) (by simp)
  | some j =>
    exact decidable_of_iff
      ((needsJustification m.vote → j.vote.inst = m.vote.inst ∧ j.vote.supp = m.vote.supp ∧
        chainWF j.vote.value ∧ justifies m.vote j.vote ∧ quorumCert net c j) ∧ needsJustification m.vote)
      (by
        constructor
        · rintro ⟨h1, h2⟩
          exact ⟨fun hn => ⟨j, rfl, h1 hn⟩, fun hn => absurd h2 hn⟩
        · rintro ⟨h1, h2⟩
          have hn : needsJustification m.vote := by
            by_cases hn : needsJustification m.vote
            · exact hn
            · exact absurd (h2 hn) (by simp)
          refine ⟨fun hn => ?_, hn⟩
          obtain ⟨j', hj', rest⟩ := h1 hn
          cases hj'
          exact rest)
instance (net : Nat) (c : Committee) (m : Msg) : Decidable (validMsg net c m) := by
  unfold validMsg; infer_instance
instance (l : Nat) (cur : Progress) (v : Payload) : Decidable (relevant l cur v) := by
  unfold relevant; infer_instance

end F3.Spec.ValidMsg
