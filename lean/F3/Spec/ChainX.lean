import F3.Model.ChainX
/-!
# C18 — what the property promises, stated over the *observable history* only

`Tracker` is folded over the sequence of (operation, observed result) pairs; it never looks at a
cache. From it two predicates are read off for every instance `i` and key `k`:

* `mustFind t i k` — the history obliges a lookup of `k` at `i` to succeed now:
  - *wanted*: `k` was looked up (or broadcast by the node itself) at `i`, its chain reached the node
    while `k` was still certainly wanted, and since `k` was last looked up fewer than `capW`
    distinct other keys were solicited at `i` (looked up, own-broadcast, or re-announced while
    wanted). Unsolicited broadcasts never count: this is "chains the node has asked for are
    retained in preference to unsolicited ones up to the configured capacity";
  - *discovered*: `k` was never solicited at `i`, was admitted by the validator (as a prefix of an
    admitted broadcast) and since its first admission fewer than `capD` distinct other keys were
    admitted at `i`: "after a node admits a chain broadcast, that chain and every prefix can be
    retrieved by key" (up to the configured capacity of unsolicited chains);
  and nothing at `i` has been pruned since.
* `mayFind t i k` — a chain for `k` has reached the node for instance `i` (admitted broadcast or own
  broadcast) since the last prune covering `i`. A successful lookup when `¬ mayFind` is a phantom:
  either pruning did not remove the instance or the chain was filed under a wrong key/instance.

`Props/C18.lean` proves that the model satisfies both for every history (`spec_sound`); the driver
evaluates both on the implementation's own answers (the property oracle).
-/
namespace F3.ChainX.Spec
open F3.ChainX

/-- insert into a duplicate-free list -/
abbrev ins (k : Key) (l : List Key) : List Key := F3.Lru.insNew k l

structure WTrack where
  since : List Key       -- distinct other keys solicited at this instance since `k` was last looked up
  hasContent : Bool      -- the chain of `k` is known to sit in the wanted cache
deriving Repr

structure Tracker where
  capW : Nat
  capD : Nat
  w : Nat → Key → Option WTrack
  d : Nat → Key → Option (List Key)
  delivered : Nat → Key → Bool

def Tracker.init (capW capD : Nat) : Tracker :=
  ⟨capW, capD, fun _ _ => none, fun _ _ => none, fun _ _ => false⟩

def mustFindW (t : Tracker) (i : Nat) (k : Key) : Bool :=
  match t.w i k with
  | some wt => wt.hasContent && decide (wt.since.length < t.capW)
  | none => false

def mustFindD (t : Tracker) (i : Nat) (k : Key) : Bool :=
  match t.w i k, t.d i k with
  | none, some ds => decide (ds.length < t.capD)
  | _, _ => false

def mustFind (t : Tracker) (i : Nat) (k : Key) : Bool := mustFindW t i k || mustFindD t i k

def mayFind (t : Tracker) (i : Nat) (k : Key) : Bool := t.delivered i k

/-- `x` was solicited at `i`: every other tracked wanted key now has `x` possibly in front of it. -/
def touchW (t : Tracker) (i : Nat) (x : Key) : Tracker :=
  { t with w := fun i' k' =>
      if i' = i ∧ k' ≠ x then (t.w i' k').map (fun wt => { wt with since := ins x wt.since })
      else t.w i' k' }

/-- `x` may have entered the discovered cache of `i`. -/
def touchD (t : Tracker) (i : Nat) (x : Key) : Tracker :=
  { t with d := fun i' k' =>
      if i' = i ∧ k' ≠ x then (t.d i' k').map (ins x) else t.d i' k' }

def setW (t : Tracker) (i : Nat) (k : Key) (v : Option WTrack) : Tracker :=
  { t with w := fun i' k' => if i' = i ∧ k' = k then v else t.w i' k' }

def setD (t : Tracker) (i : Nat) (k : Key) (v : Option (List Key)) : Tracker :=
  { t with d := fun i' k' => if i' = i ∧ k' = k then v else t.d i' k' }

def setDelivered (t : Tracker) (i : Nat) (k : Key) : Tracker :=
  { t with delivered := fun i' k' => if i' = i ∧ k' = k then true else t.delivered i' k' }

/-- a lookup of the non-zero key `k` at `i` that returned `hit` -/
def onGet (t : Tracker) (i : Nat) (k : Key) (hit : Bool) : Tracker :=
  setD (setW (touchW t i k) i k (some ⟨[], hit⟩)) i k none

/-- the node's own broadcast reaches prefix `p` -/
def onOwnPrefix (i : Nat) (t : Tracker) (p : Key) : Tracker :=
  let nw : WTrack :=
    match t.w i p with
    | none => ⟨[], true⟩
    | some wt => if wt.since.length < t.capW then { wt with hasContent := true } else wt
  setDelivered (setD (setW (touchW t i p) i p (some nw)) i p none) i p

/-- an admitted broadcast reaches prefix `p` -/
def onAdmittedPrefix (i : Nat) (t : Tracker) (p : Key) : Tracker :=
  match t.w i p with
  | some wt =>
    let nw : WTrack := if wt.since.length < t.capW then { wt with hasContent := true } else wt
    setDelivered (setW (touchD (touchW t i p) i p) i p (some nw)) i p
  | none =>
    let nd : List Key := (t.d i p).getD []
    setDelivered (setD (touchD t i p) i p (some nd)) i p

def onPrune (t : Tracker) (n : Nat) : Tracker :=
  { t with
    w := fun i k => if i < n then none else t.w i k
    d := fun i k => if i < n then none else t.d i k
    delivered := fun i k => if i < n then false else t.delivered i k }

/-- One observed operation. For `feed` only the verdict matters (`accept` ⇒ the chain was cached). -/
def observe (t : Tracker) : Op → Out → Tracker
  | .get i k, .got r _ => if k = [] then t else onGet t i k r.isSome
  | .feed _ _ (some m), .verdict .accept => (prefixes (chainIds m.chain)).foldl (onAdmittedPrefix m.inst) t
  | .bcast i c, _ => (prefixes c).foldl (onOwnPrefix i) t
  | .prune n, _ => onPrune t n
  | _, _ => t

/-- The property's verdict on one observed lookup (evaluated *before* `observe`). -/
inductive LookupVerdict where
  | ok
  | keyMismatch          -- returned chain's key ≠ requested key
  | phantom              -- found although nothing was delivered for (i,k) since the last prune
  | wantedNotRetained    -- missed although the wanted guarantee applies
  | admittedNotRetrievable -- missed although the admission guarantee applies
deriving DecidableEq, Repr

def judgeLookup (t : Tracker) (i : Nat) (k : Key) (r : Option Chain) : LookupVerdict :=
  match r with
  | some c =>
    if c ≠ k then .keyMismatch
    else if k = [] then .keyMismatch      -- the zero key never designates a chain
    else if !mayFind t i k then .phantom
    else .ok
  | none =>
    if k = [] then .ok
    else if mustFindW t i k then .wantedNotRetained
    else if mustFindD t i k then .admittedNotRetrievable
    else .ok

/-- The validator clause: a message that is undecodable, empty, malformed, for a past or too
distant instance, outside the timestamp window, or whose base contradicts the current instance's
input must not be admitted. Written independently of `ChainX.validate` (no evaluation order). -/
def mustNotAdmit (o : Opts) (p : Progress) (now : Int) : Option Msg → Option Reason
  | none => some .undecodable
  | some m =>
    if m.chain = [] then some .empty
    else if chainValid m.chain = false then some .malformed
    else if m.inst < p.id then some .past
    else if p.id + o.lookahead < u64 ∧ m.inst > p.id + o.lookahead then some .tooDistant
    else if m.ts > now then some .tsFuture
    else if m.ts < now - o.maxAgeMs then some .tsOld
    else match p.input with
      | some inp => if m.inst = p.id ∧ inp.head? ≠ (chainIds m.chain).head? then some .wrongBase else none
      | none => none

end F3.ChainX.Spec
