/-! Specification-level quorum predicates (what the property says), independent of the code. -/
namespace F3.Spec.Quorum

/-- at least two thirds -/
def strong (p w : Int) : Bool := decide (3 * p ≥ 2 * w)

/-- `part > ⌈whole/3⌉` (the code's exact weak-quorum rule, for non-negative totals) -/
def weak (p w : Int) : Bool := decide (p > (w + 2) / 3)

def couldReach (adv : Bool) (w voted support : Int) : Bool :=
  strong (min (support + (w - voted) + (if adv then w / 3 else 0)) w) w

end F3.Spec.Quorum
