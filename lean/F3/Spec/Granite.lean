import Mathlib.Algebra.BigOperators.Group.Finset.Basic
import Mathlib.Algebra.Order.BigOperators.Group.Finset
import Mathlib.Data.Finset.Basic
/-!
# Abstract GossiPBFT ("Granite") rules — Layer A of C01 / C02

A *world* is a committee with scaled powers, a faulty set, and the relation
`signed p r ph x` ("a validly signed vote of `p` for value `x` in round `r`, phase `ph` exists").
Values are an arbitrary type with a distinguished bottom. Byzantine members' `signed` is arbitrary.
The honest rules are hypotheses here (`Rules`); `F3.Spec.GraniteNet` shows they are an inductive
invariant of the guarded message-level transition system, and Layer B shows the executable model
of `gpbft.go` only takes guarded steps.
-/
namespace F3.Granite

inductive Phase | quality | converge | prepare | commit | decide
deriving DecidableEq, Repr

structure World (P V : Type) [DecidableEq P] where
  committee : Finset P
  pw : P → Nat
  faulty : Finset P
  bot : V
  signed : P → Nat → Phase → V → Prop

variable {P V : Type} [DecidableEq P]

namespace World
variable (w : World P V)

def power (S : Finset P) : Nat := ∑ p ∈ S, w.pw p
/-- total scaled power -/
def T : Nat := w.power w.committee
/-- at least two thirds of the total (`F3.Props.C08.strong_iff`: this is the code's predicate) -/
def strong (S : Finset P) : Prop := S ⊆ w.committee ∧ 3 * w.power S ≥ 2 * w.T
/-- a strong quorum of valid votes for `x` at `(r, ph)` exists -/
def Q (ph : Phase) (r : Nat) (x : V) : Prop :=
  ∃ S, w.strong S ∧ ∀ s ∈ S, w.signed s r ph x
/-- justification of a round-`r` (`r ≥ 1`) CONVERGE / PREPARE for `x` -/
def J (r : Nat) (x : V) : Prop :=
  w.Q .prepare (r - 1) x ∨ w.Q .commit (r - 1) w.bot

/-- a PREPARE vote that passes validation -/
def validPrepare (s : P) (r : Nat) (z : V) : Prop :=
  w.signed s r .prepare z ∧ (r = 0 ∨ w.J r z)

structure Rules : Prop where
  fault_bound : 3 * w.power w.faulty < w.T
  one_vote : ∀ p, p ∉ w.faulty → ∀ r ph x y, w.signed p r ph x → w.signed p r ph y → x = y
  prepare_valid : ∀ p, p ∉ w.faulty → ∀ r x, w.signed p r .prepare x →
      x ≠ w.bot ∧ (r = 0 ∨ w.J r x)
  commit_valid : ∀ p, p ∉ w.faulty → ∀ r x, w.signed p r .commit x →
      (x = w.bot ∨ w.Q .prepare r x)
  commit_bottom : ∀ p, p ∉ w.faulty → ∀ r, w.signed p r .commit w.bot →
      ∃ y, w.signed p r .prepare y ∧ ∃ s z, z ≠ y ∧ w.validPrepare s r z
  decide_valid : ∀ p, p ∉ w.faulty → ∀ x, w.signed p 0 .decide x →
      x ≠ w.bot ∧ ∃ r, w.Q .commit r x

variable {w}

theorem power_mono {S U : Finset P} (h : S ⊆ U) : w.power S ≤ w.power U :=
  Finset.sum_le_sum_of_subset h

theorem inter_power {S1 S2 : Finset P} (h1 : S1 ⊆ w.committee) (h2 : S2 ⊆ w.committee) :
    w.power S1 + w.power S2 ≤ w.T + w.power (S1 ∩ S2) := by
  have hu : w.power (S1 ∪ S2) + w.power (S1 ∩ S2) = w.power S1 + w.power S2 :=
    Finset.sum_union_inter
  have hle : w.power (S1 ∪ S2) ≤ w.T := power_mono (Finset.union_subset h1 h2)
  omega

theorem strong_has_honest (hb : 3 * w.power w.faulty < w.T) {S : Finset P} (hS : w.strong S) :
    ∃ h ∈ S, h ∉ w.faulty := by
  by_contra hc
  push Not at hc
  have hsub : S ⊆ w.faulty := fun x hx => hc x hx
  have := power_mono (w := w) hsub
  have := hS.2
  omega

theorem inter_honest (hb : 3 * w.power w.faulty < w.T) {S1 S2 : Finset P}
    (h1 : w.strong S1) (h2 : w.strong S2) :
    ∃ h, h ∈ S1 ∧ h ∈ S2 ∧ h ∉ w.faulty := by
  by_contra hc
  push Not at hc
  have hsub : S1 ∩ S2 ⊆ w.faulty := by
    intro x hx
    rw [Finset.mem_inter] at hx
    exact hc x hx.1 hx.2
  have h3 := power_mono (w := w) hsub
  have h4 := inter_power (w := w) h1.1 h2.1
  have := h1.2
  have := h2.2
  omega

theorem quorum_unique (R : w.Rules) {ph : Phase} {r : Nat} {x y : V}
    (hx : w.Q ph r x) (hy : w.Q ph r y) : x = y := by
  obtain ⟨S1, hS1, f1⟩ := hx
  obtain ⟨S2, hS2, f2⟩ := hy
  obtain ⟨h, m1, m2, hh⟩ := inter_honest R.fault_bound hS1 hS2
  exact R.one_vote h hh r ph x y (f1 h m1) (f2 h m2)

theorem commitQ_prepareQ (R : w.Rules) {r : Nat} {x : V}
    (hx : w.Q .commit r x) (hne : x ≠ w.bot) : w.Q .prepare r x := by
  obtain ⟨S, hS, f⟩ := hx
  obtain ⟨h, hm, hh⟩ := strong_has_honest R.fault_bound hS
  rcases R.commit_valid h hh r x (f h hm) with h0 | hq
  · exact absurd h0 hne
  · exact hq

/-- The lock: once `v ≠ ⊥` has a COMMIT quorum in round `r`, every justified value in any
later round is `v`. -/
theorem lock (R : w.Rules) {r : Nat} {v : V} (hv : w.Q .commit r v) (hne : v ≠ w.bot) :
    ∀ d z, w.J (r + 1 + d) z → z = v := by
  intro d
  induction d using Nat.strong_induction_on with
  | _ d ih =>
    intro z hJ
    cases d with
    | zero =>
      simp only [Nat.add_zero, J, Nat.add_sub_cancel] at hJ
      rcases hJ with hp | hc
      · exact quorum_unique R hp (commitQ_prepareQ R hv hne)
      · exact absurd (quorum_unique R hv hc) hne
    | succ d' =>
      have hr : r + 1 + (d' + 1) - 1 = r + 1 + d' := by omega
      simp only [J, hr] at hJ
      have ihd := ih d' (Nat.lt_succ_self d')
      have hpos : ¬ (r + 1 + d' = 0) := by omega
      rcases hJ with hp | hc
      · obtain ⟨S, hS, f⟩ := hp
        obtain ⟨h, hm, hh⟩ := strong_has_honest R.fault_bound hS
        rcases (R.prepare_valid h hh _ z (f h hm)).2 with h0 | hj
        · exact absurd h0 hpos
        · exact ihd z hj
      · obtain ⟨S, hS, f⟩ := hc
        obtain ⟨h, hm, hh⟩ := strong_has_honest R.fault_bound hS
        obtain ⟨y, hy, s, z', hne', _, hz'⟩ := R.commit_bottom h hh _ (f h hm)
        have hyv : y = v := by
          rcases (R.prepare_valid h hh _ y hy).2 with h0 | hj
          · exact absurd h0 hpos
          · exact ihd y hj
        have hzv : z' = v := by
          rcases hz' with h0 | hj
          · exact absurd h0 hpos
          · exact ihd z' hj
        exact absurd (hzv.trans hyv.symm) hne'

theorem later_commit_eq (R : w.Rules) {r r' : Nat} {v x : V}
    (hv : w.Q .commit r v) (hne : v ≠ w.bot) (hlt : r < r')
    (hx : w.Q .commit r' x) (hxne : x ≠ w.bot) : x = v := by
  have hp := commitQ_prepareQ R hx hxne
  obtain ⟨S, hS, f⟩ := hp
  obtain ⟨h, hm, hh⟩ := strong_has_honest R.fault_bound hS
  obtain ⟨d, rfl⟩ : ∃ d, r' = r + 1 + d := ⟨r' - r - 1, by omega⟩
  rcases (R.prepare_valid h hh _ x (f h hm)).2 with h0 | hj
  · omega
  · exact lock R hv hne d x hj

/-- Two values each backed by a strong DECIDE quorum are equal. -/
theorem decide_quorums_agree (R : w.Rules) {x y : V}
    (hx : w.Q .decide 0 x) (hy : w.Q .decide 0 y) : x = y := by
  obtain ⟨S1, hS1, f1⟩ := hx
  obtain ⟨S2, hS2, f2⟩ := hy
  obtain ⟨h1, m1, hh1⟩ := strong_has_honest R.fault_bound hS1
  obtain ⟨h2, m2, hh2⟩ := strong_has_honest R.fault_bound hS2
  obtain ⟨hxne, rx, hcx⟩ := R.decide_valid h1 hh1 x (f1 h1 m1)
  obtain ⟨hyne, ry, hcy⟩ := R.decide_valid h2 hh2 y (f2 h2 m2)
  rcases Nat.lt_trichotomy rx ry with hlt | heq | hgt
  · exact (later_commit_eq R hcx hxne hlt hcy hyne).symm
  · subst heq; exact quorum_unique R hcx hcy
  · exact later_commit_eq R hcy hyne hgt hcx hxne

/-- A decided value is never bottom and is backed by COMMIT and PREPARE quorums in some round. -/
theorem decided_nonbot (R : w.Rules) {x : V} (hx : w.Q .decide 0 x) :
    x ≠ w.bot ∧ ∃ r, w.Q .commit r x ∧ w.Q .prepare r x := by
  obtain ⟨S, hS, f⟩ := hx
  obtain ⟨h, m, hh⟩ := strong_has_honest R.fault_bound hS
  obtain ⟨hne, r, hc⟩ := R.decide_valid h hh x (f h m)
  exact ⟨hne, r, hc, commitQ_prepareQ R hc hne⟩

/-! ### Validity (C02) -/

/-- `Good x`: the property validity asks of decided values (instantiated with "non-bottom prefix of
some honest participant's input"). Honest rule `prepare_backed`: an honest PREPARE is for a good
value or for a value that already had a PREPARE quorum in an earlier round. -/
theorem prepareQ_good (R : w.Rules) (Good : V → Prop)
    (prepare_backed : ∀ p, p ∉ w.faulty → ∀ r x, w.signed p r .prepare x →
        Good x ∨ ∃ r', r' < r ∧ w.Q .prepare r' x) :
    ∀ r x, w.Q .prepare r x → Good x := by
  intro r
  induction r using Nat.strong_induction_on with
  | _ r ih =>
    intro x hq
    obtain ⟨S, hS, f⟩ := hq
    obtain ⟨h, hm, hh⟩ := strong_has_honest R.fault_bound hS
    rcases prepare_backed h hh r x (f h hm) with hg | ⟨r', hlt, hq'⟩
    · exact hg
    · exact ih r' hlt x hq'

theorem decided_good (R : w.Rules) (Good : V → Prop)
    (prepare_backed : ∀ p, p ∉ w.faulty → ∀ r x, w.signed p r .prepare x →
        Good x ∨ ∃ r', r' < r ∧ w.Q .prepare r' x)
    {x : V} (hx : w.Q .decide 0 x) : x ≠ w.bot ∧ Good x := by
  obtain ⟨hne, r, _, hp⟩ := decided_nonbot R hx
  exact ⟨hne, prepareQ_good R Good prepare_backed r x hp⟩

end World
end F3.Granite
