import F3.Model.SimOracle
/-! What a passing simulation is supposed to certify about each recorded decision (C19a), stated
independently of the order in which the simulator checks it. -/
namespace F3.Spec.SimOracle
open F3.SimOracle

/-- the decision names this instance, is a round-0 DECIDE for a non-empty chain starting at the
instance's base, its signers are members of the instance's table holding a strong quorum
(`3·power ≥ 2·total` on scaled powers) and the aggregate verifies for exactly those signers over
exactly this vote -/
def decisionSound (i : Inst) (d : Decision) : Prop :=
  d.vote.inst = i.id ∧ d.vote.phase = DECIDE ∧ d.vote.round = 0 ∧
  (∃ b rest, d.vote.value = some (b :: rest) ∧ i.baseHead = some b) ∧
  (∀ s ∈ d.signers, s < i.scaled.length) ∧
  3 * (signerPower i.scaled d.signers : Int) ≥ 2 * (i.total : Int) ∧
  d.sig = some (d.signers, d.vote)

/-- executable form -/
def decisionSoundB (i : Inst) (d : Decision) : Bool :=
  d.vote.inst == i.id && d.vote.phase == DECIDE && d.vote.round == 0 &&
  (match d.vote.value with
   | some (b :: _) => i.baseHead == some b
   | _ => false) &&
  d.signers.all (fun s => decide (s < i.scaled.length)) &&
  decide (3 * (signerPower i.scaled d.signers : Int) ≥ 2 * (i.total : Int)) &&
  decide (d.sig = some (d.signers, d.vote))

end F3.Spec.SimOracle
