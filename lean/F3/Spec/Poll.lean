import F3.Model.GoInt
/-!
# What the interval predictor is supposed to compute (C20), written independently of the code's
statement order. `F3.Props.C20.predictor_matches_spec` proves the definition regenerated from
`predictor.go` equal to `predictorSpec`; every other predictor theorem goes through it.
-/
namespace F3.Spec.Poll
open F3.GoInt

/-- direction logic: shrink the explore distance by 3 on a change of direction, double it when
repeating the direction with progress 0 or 2, and re-estimate the interval when far off. Returns
`(exploreDistance, interval)`. -/
def explore1 (w : Bool) (p e i : Int) : Int × Int :=
  if w == decide (p > 1) then (Int.tdiv e 3, i)
  else if p ≤ 2 then (e * 2, i)
  else (Int.tdiv (Int.tdiv i (i64ofU64 p)) 2, Int.tdiv i (i64ofU64 p))

def clampE (mn mx e : Int) : Int :=
  if e < Int.tdiv mn 100 then Int.tdiv mn 100 else if e > Int.tdiv mx 2 then Int.tdiv mx 2 else e

def clampI (mn mx i : Int) : Int := if i < mn then mn else if i > mx then mx else i

/-- last step: in back-off mode wait the back-off and double it (capped at 10·max) -/
def fin (mx b e i : Int) (w : Bool) : Int × Int × Int × Int × Bool :=
  (if b > 0 then b else i, if b > 0 then min (2 * b) (10 * mx) else b, e, i, w)

/-- `(nextInterval, backoff', exploreDistance', interval', wasIncreasing')` -/
def predictorSpec (p b e i mx mn : Int) (w : Bool) : Int × Int × Int × Int × Bool :=
  if b > 0 then fin mx (if p > 0 then 0 else b) e i w
  else if p ≠ 1 then
    let ei := explore1 w p e i
    let e2 := clampE mn mx ei.1
    if p = 0 then fin mx ei.2 e2 (clampI mn mx (ei.2 + e2)) true
    else fin mx b e2 (clampI mn mx (ei.2 - e2)) false
  else fin mx b e i w

/-- the documented rule for the wait after a poll: the remaining predicted interval, extended by the
time the requests took, but by at most half of it -/
def delayBound (remaining requestTime : Int) : Int := remaining + min requestTime (remaining / 2)

end F3.Spec.Poll
