import F3.Spec.CertX
/-! Declarative notions for C16's statements about `pollWithArrivals` (a poll during which certificates
also reach the local store through another channel). Core-only. -/
namespace F3.Spec.CertX
open F3.Certs F3.CertX F3.Spec.Certs

/-- the store after `arrivals` were offered to it one by one; what `Put` refuses is ignored (this is,
literally, the fold inside `pollWithArrivals`) -/
def putAll (s : Store) (arrivals : List Cert) : Store :=
  arrivals.foldl (fun s c => match s.put c with | .ok s' => s' | .error _ => s) s

/-- the certificates `Client.Request` hands to `Poll` out of the answer to its first request (for `first`) -/
def handedOver (respond : Nat → Nat → Resp) (first : Nat) : List Cert :=
  match respond 0 first with
  | .fail => []
  | .ok _ items => clientRecv first maxRequestLength 0 items

/-- the poller's view is *a point of* its store: `NextInstance` lies between the store's first and next
instance and `PowerTable` is the store's table for that instance, in canonical form. (`Consistent` is the
special case `next = nextInst`; this is what is left of it when the store grows behind the poller's back,
and what `CatchUp` turns into `Consistent` again.) -/
structure InSync (st : PState) : Prop where
  lo : st.store.first ≤ st.next
  hi : st.next ≤ st.store.nextInst
  table : st.store.getPowerTable st.next = some st.table
  canon : applyDiff st.table [] = .ok st.table

/-- **What the peer may not do to instances the store already holds.** Every certificate `c` handed over by
the client for an instance the store `s` already holds carries the same power-table delta as the stored
certificate of that instance. Nothing is asked about its chain, signers or signature (two different quorums
may sign the same decision), and nothing at all about certificates for instances the store does not hold. -/
def Genuine (s : Store) (ds : List Cert) : Prop :=
  ∀ c ∈ ds, s.first ≤ c.inst → c.inst < s.nextInst →
    ∃ stored, s.certs[c.inst - s.first]? = some stored ∧ stored.delta = c.delta

/-- the stronger, more familiar form: the peer sends the stored certificates themselves -/
def GenuineEq (s : Store) (ds : List Cert) : Prop :=
  ∀ c ∈ ds, s.first ≤ c.inst → c.inst < s.nextInst → s.certs[c.inst - s.first]? = some c

end F3.Spec.CertX
