import F3.Model.Store
/-!
# Abstract specification of the certificate store (C09, C10, C17)

The store *is* `{first, initial table, certs}`: a gap-free list of certificates starting at `first`
over an initial power table. Everything observable is a function of that triple. Written
independently of the datastore layout; it shares only the power-table arithmetic (`tableStep`) with
the model, because "the table obtained by applying all earlier deltas to the initial table" is part
of the property's statement. Core-only.
-/
namespace F3.Store

structure Spec where
  first : Nat
  init : Table
  certs : List Cert          -- oldest first; `certs[k]` is instance `first + k`
deriving DecidableEq, Repr

namespace Spec

def next (sp : Spec) : Nat := sp.first + sp.certs.length

def latest (sp : Spec) : Option Cert := sp.certs.getLast?

/-- Apply one certificate's delta to an optional table (`none` = some earlier delta failed). -/
def stepOpt (t : Option Table) (c : Cert) : Option Table :=
  match t with
  | none => none
  | some t =>
    match tableStep t c.delta with
    | .ok t' => some t'
    | .error _ => none

/-- The initial table with the deltas of `cs` applied in order. -/
def foldTables (init : Table) (cs : List Cert) : Option Table := cs.foldl stepOpt (some init)

/-- The power table that validates instance `i` (`first ≤ i ≤ next`). -/
def tableAt (sp : Spec) (i : Nat) : Option Table :=
  if sp.first ≤ i ∧ i ≤ sp.next then foldTables sp.init (sp.certs.take (i - sp.first)) else none

def certAt (sp : Spec) (i : Nat) : Option Cert :=
  if sp.first ≤ i then sp.certs[i - sp.first]? else none

/-- A certificate is admitted iff it is the immediate successor, finalises a valid non-bottom chain,
and its delta takes the current table to a non-empty table whose CID it commits to. -/
def admits (sp : Spec) (c : Cert) : Bool :=
  decide (c.inst = sp.next) && decide (c.chain = .ok) &&
  match foldTables sp.init sp.certs with
  | none => false
  | some t =>
    match tableStep t c.delta with
    | .ok t' => decide (c.commit = Commit.known t') && decide (t' ≠ [])
    | .error _ => false

def push (sp : Spec) (c : Cert) : Spec := { sp with certs := sp.certs ++ [c] }

/-- `Put`: admitted certificates are appended, everything else leaves the store as it is. -/
def put (sp : Spec) (c : Cert) : Spec := if sp.admits c then sp.push c else sp

/-- Certificates of instances `a … b` that exist, in order. -/
def range (sp : Spec) (a b : Nat) : List Cert :=
  if a < sp.first then [] else (sp.certs.drop (a - sp.first)).take (b + 1 - a)

/-- The store truncated to latest instance `n` (what a snapshot with end point `n` carries). -/
def truncateTo (sp : Spec) (n : Nat) : Spec := { sp with certs := sp.certs.take (n + 1 - sp.first) }

/-- Histories the store can be in: created over a non-empty table, then admitted certificates only. -/
inductive Valid : Spec → Prop where
  | create (first : Nat) (init : Table) : init ≠ [] → Valid ⟨first, init, []⟩
  | push {sp : Spec} {c : Cert} : Valid sp → sp.admits c = true → Valid (sp.push c)

end Spec

/-- Everything the API shows for a store in state `sp`: all certificates and all tables. -/
structure Obs where
  first : Nat
  latest : Option Cert
  certs : List (Except Err Cert)
  tables : List (Except Err Table)
deriving DecidableEq, Repr

def Spec.obs (sp : Spec) : Obs :=
  { first := sp.first
    latest := sp.latest
    certs := (List.range sp.certs.length).map (fun k =>
      match sp.certs[k]? with
      | some c => .ok c
      | none => .error (.notFound (sp.first + k)))
    tables := (List.range (sp.certs.length + 1)).map (fun k =>
      match Spec.foldTables sp.init (sp.certs.take k) with
      | some t => .ok t
      | none => .error .applyDelta) }

/-- Observing a store through a handle: `Latest`, `Get` for every instance up to it, `GetPowerTable`
for every instance up to the next. -/
def observe (cfg : Cfg) (m : Mem) (ds : DS) : Obs :=
  let n := m.next - m.first
  { first := m.first
    latest := m.latest
    certs := (List.range n).map (fun k => getCert ds (m.first + k))
    tables := (List.range (n + 1)).map (fun k => getPowerTable cfg m ds (m.first + k)) }

/-! ## Restart: reopen with one of the open variants and look at everything -/

inductive Variant where
  | open
  | ooc (first : Nat) (init : Table)
deriving DecidableEq, Repr

def reopen (cfg : Cfg) (ds : DS) (o : Orders) : Variant → Out Mem
  | .open => openStore cfg ds o
  | .ooc f t => openOrCreateStore cfg ds o f t

/-- What a restart observes: the outcome of the open variant and, if it succeeds, every certificate
and every power table. -/
def reobserve (cfg : Cfg) (ds : DS) (o : Orders) (v : Variant) : Except Err Obs :=
  match (reopen cfg ds o v).res with
  | .error e => .error e
  | .ok m => .ok (observe cfg m (applyWs ds (reopen cfg ds o v).ws))

/-- Abstract state of a datastore: no store, or the history it holds. -/
inductive Desc where
  | notInit
  | hist (sp : Spec)
deriving DecidableEq, Repr

/-- What a restart must observe, as a function of the abstract state only. -/
def specReobserve : Desc → Variant → Except Err Obs
  | .notInit, .open => .error .notInitialized
  | .notInit, .ooc f t => if t = [] then .error .emptyInitial else .ok (Spec.obs ⟨f, t, []⟩)
  | .hist sp, .open => .ok sp.obs
  | .hist sp, .ooc f t =>
    if t = [] then .error .emptyInitial
    else if f ≠ sp.first then .error .firstMismatch
    else if t ≠ sp.init then .error .tableMismatch
    else .ok sp.obs

/-! ## Snapshots: what a well-formed snapshot is (independent of the importer's code) -/

/-- Running tables of a certificate list: every certificate must commit to the table its delta yields. -/
def commitsOk (t : Table) : List Cert → Bool
  | [] => true
  | c :: r =>
    match tableStep t c.delta with
    | .ok t' => decide (c.commit = Commit.known t') && commitsOk t' r
    | .error _ => false

def contiguousFrom (i : Nat) : List Cert → Bool
  | [] => true
  | c :: r => decide (c.inst = i) && contiguousFrom (i + 1) r

def bodiesToCerts : List Block → Option (List Cert)
  | [] => some []
  | b :: r =>
    match b.body, bodiesToCerts r with
    | .cert c, some cs => some (c :: cs)
    | _, _ => none

/-- The property's notion of an acceptable snapshot: complete framing, a header followed by exactly
the certificates `first … latest` in order, agreement with the manifest, and every delta reproducing
the committed table. -/
def snapshotOk (s : Stream) (mf : Option Manifest) : Bool :=
  decide (s.tail = .clean) &&
  match s.blocks with
  | [] => false
  | hb :: rest =>
    match hb.body, bodiesToCerts rest with
    | .header h, some cs =>
      (match mf with
       | none => true
       | some m => decide (m.first = h.first) &&
           (match m.init with | none => true | some c => decide (c = Commit.known h.init))) &&
      decide (cs ≠ []) && contiguousFrom h.first cs && decide (h.first + cs.length = h.latest + 1) &&
      commitsOk h.init cs
    | _, _ => false

end F3.Store
