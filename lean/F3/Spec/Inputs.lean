import F3.Model.Inputs
/-! What C15 says about a proposal, as predicates on the answer (independent of how `GetProposal`
computes it). -/
namespace F3.Spec.Inputs
open F3.Inputs

/-- the tipset finalized by the previous inst, or the bootstrap tipset for the first one -/
def expectedBase (m : Manifest) (s : Store) (ec : EC) (inst : Nat) : Option Nat :=
  if inst = m.initialInstance then ec.byEpoch (m.bootstrapEpoch - m.finality)
  else if inst = 0 then none
  else (s.get (inst - 1)).map (·.head)

/-- `a` is `b` or an ancestor of `b` -/
def ancestorOrEq (ec : EC) (a : Nat) : Nat → Nat → Bool
  | 0, _ => false
  | fuel + 1, b =>
    if a = b then true
    else match ec.get b with
      | none => false
      | some blk => match blk.parent with
        | none => false
        | some p => ancestorOrEq ec a fuel p

/-- each tipset is the EC parent of the next one -/
def parentLinked (ec : EC) : List Tip → Bool
  | [] => true
  | [_] => true
  | a :: b :: rest => ((ec.get b.key).bind (·.parent) == some a.key) && parentLinked ec (b :: rest)

/-- every tipset carries EC's epoch and EC's power table (CID) at that tipset -/
def tipsMatchEC (ec : EC) (tips : List Tip) : Bool :=
  tips.all fun t => tipOf ec t.key == some t

/-- `none` = the proposal has the required shape; `some reason` otherwise -/
def proposalShape (m : Manifest) (s : Store) (ec : EC) (inst : Nat) (_supp : Nat) (tips : List Tip) : Option String :=
  match tips with
  | [] => some "the chain is empty"
  | b :: _ =>
    if some b.key ≠ expectedBase m s ec inst then
      some s!"it starts at tipset {b.key}, the finalized head / bootstrap tipset is {expectedBase m s ec inst}"
    else if !(tipsMatchEC ec tips) then some "a tipset does not carry EC's epoch or EC's power-table CID"
    else if !(parentLinked ec tips) then some "it is not a chain of EC parents"
    else if decide (tips.length > 1) && !(ancestorOrEq ec (tips.getLast?.map (·.key)).get! (ec.blocks.length + 1) ec.head) then
      some "its last tipset is not on the parent chain of EC's head"
    else if !(epochsIncreasing tips) then some "epochs do not strictly increase"
    else if decide ((tips.length : Int) > min ChainMaxLen m.chainProposedLength) then
      some s!"length {tips.length} exceeds min(ChainMaxLen, configured {m.chainProposedLength})"
    else none

end F3.Spec.Inputs
