import F3.Spec.Granite
/-!
# Restart-tolerant honest rules — Layer A for participants that crash and restart inside the instance

`F3.Granite.World.Rules` describes a participant that remembers everything it signed: rule `commit_bottom`
says "an honest COMMIT for ⊥ in round `r` ⇒ *the same member's PREPARE of round `r` exists* (for some `y`)
and a valid PREPARE for some `z ≠ y` exists".  A participant that is rebuilt from scratch after a crash and
whose broadcast requests pass through a first-signature-wins filter (C12) does not satisfy this: the
incarnation that sends COMMIT ⊥ may have *requested* PREPARE `y` without that request ever reaching the wire
(an earlier incarnation had already published a PREPARE for another value in that round).

The agreement proof (`lock`) uses of `commit_bottom` only that **two different values are both justified in
round `r`** (for the member's own `y` it obtained the justification from `prepare_valid`).  `RulesR` states
the rule in exactly that form; the other five rules are unchanged.  Everything that `Rules` proves about
decisions is re-proved here from `RulesR`, and `Rules.toRulesR` shows `RulesR` is the weaker rule set.
-/
namespace F3.Granite
variable {P V : Type} [DecidableEq P]

namespace World
variable (w : World P V)

structure RulesR : Prop where
  fault_bound : 3 * w.power w.faulty < w.T
  one_vote : ∀ p, p ∉ w.faulty → ∀ r ph x y, w.signed p r ph x → w.signed p r ph y → x = y
  prepare_valid : ∀ p, p ∉ w.faulty → ∀ r x, w.signed p r .prepare x →
      x ≠ w.bot ∧ (r = 0 ∨ w.J r x)
  commit_valid : ∀ p, p ∉ w.faulty → ∀ r x, w.signed p r .commit x →
      (x = w.bot ∨ w.Q .prepare r x)
  /-- weakened: the member need not have a PREPARE of its own on the wire -/
  commit_bottom : ∀ p, p ∉ w.faulty → ∀ r, w.signed p r .commit w.bot →
      ∃ y z, z ≠ y ∧ (r = 0 ∨ w.J r y) ∧ (r = 0 ∨ w.J r z)
  decide_valid : ∀ p, p ∉ w.faulty → ∀ x, w.signed p 0 .decide x →
      x ≠ w.bot ∧ ∃ r, w.Q .commit r x

variable {w}

/-- the original rule set implies the restart-tolerant one -/
theorem Rules.toRulesR (R : w.Rules) : w.RulesR where
  fault_bound := R.fault_bound
  one_vote := R.one_vote
  prepare_valid := R.prepare_valid
  commit_valid := R.commit_valid
  commit_bottom := by
    intro p hp r hc
    obtain ⟨y, hy, _, z, hne, hz⟩ := R.commit_bottom p hp r hc
    exact ⟨y, z, hne, (R.prepare_valid p hp r y hy).2, hz.2⟩
  decide_valid := R.decide_valid

namespace RulesR

theorem quorum_unique (R : w.RulesR) {ph : Phase} {r : Nat} {x y : V}
    (hx : w.Q ph r x) (hy : w.Q ph r y) : x = y := by
  obtain ⟨S1, hS1, f1⟩ := hx
  obtain ⟨S2, hS2, f2⟩ := hy
  obtain ⟨h, m1, m2, hh⟩ := inter_honest R.fault_bound hS1 hS2
  exact R.one_vote h hh r ph x y (f1 h m1) (f2 h m2)

theorem commitQ_prepareQ (R : w.RulesR) {r : Nat} {x : V}
    (hx : w.Q .commit r x) (hne : x ≠ w.bot) : w.Q .prepare r x := by
  obtain ⟨S, hS, f⟩ := hx
  obtain ⟨h, hm, hh⟩ := strong_has_honest R.fault_bound hS
  rcases R.commit_valid h hh r x (f h hm) with h0 | hq
  · exact absurd h0 hne
  · exact hq

/-- The lock survives restarts: once `v ≠ ⊥` has a COMMIT quorum in round `r`, every justified value in any
later round is `v` — whatever the members of that quorum remember of it. -/
theorem lock (R : w.RulesR) {r : Nat} {v : V} (hv : w.Q .commit r v) (hne : v ≠ w.bot) :
    ∀ d z, w.J (r + 1 + d) z → z = v := by
  intro d
  induction d using Nat.strong_induction_on with
  | _ d ih =>
    intro z hJ
    cases d with
    | zero =>
      simp only [Nat.add_zero, J, Nat.add_sub_cancel] at hJ
      rcases hJ with hp | hc
      · exact quorum_unique R hp (commitQ_prepareQ R hv hne)
      · exact absurd (quorum_unique R hv hc) hne
    | succ d' =>
      have hr : r + 1 + (d' + 1) - 1 = r + 1 + d' := by omega
      simp only [J, hr] at hJ
      have ihd := ih d' (Nat.lt_succ_self d')
      have hpos : ¬ (r + 1 + d' = 0) := by omega
      rcases hJ with hp | hc
      · obtain ⟨S, hS, f⟩ := hp
        obtain ⟨h, hm, hh⟩ := strong_has_honest R.fault_bound hS
        rcases (R.prepare_valid h hh _ z (f h hm)).2 with h0 | hj
        · exact absurd h0 hpos
        · exact ihd z hj
      · obtain ⟨S, hS, f⟩ := hc
        obtain ⟨h, hm, hh⟩ := strong_has_honest R.fault_bound hS
        obtain ⟨y, z', hne', hy, hz'⟩ := R.commit_bottom h hh _ (f h hm)
        have hyv : y = v := by
          rcases hy with h0 | hj
          · exact absurd h0 hpos
          · exact ihd y hj
        have hzv : z' = v := by
          rcases hz' with h0 | hj
          · exact absurd h0 hpos
          · exact ihd z' hj
        exact absurd (hzv.trans hyv.symm) hne'

theorem later_commit_eq (R : w.RulesR) {r r' : Nat} {v x : V}
    (hv : w.Q .commit r v) (hne : v ≠ w.bot) (hlt : r < r')
    (hx : w.Q .commit r' x) (hxne : x ≠ w.bot) : x = v := by
  have hp := commitQ_prepareQ R hx hxne
  obtain ⟨S, hS, f⟩ := hp
  obtain ⟨h, hm, hh⟩ := strong_has_honest R.fault_bound hS
  obtain ⟨d, rfl⟩ : ∃ d, r' = r + 1 + d := ⟨r' - r - 1, by omega⟩
  rcases (R.prepare_valid h hh _ x (f h hm)).2 with h0 | hj
  · omega
  · exact lock R hv hne d x hj

/-- Two values each backed by a strong DECIDE quorum are equal. -/
theorem decide_quorums_agree (R : w.RulesR) {x y : V}
    (hx : w.Q .decide 0 x) (hy : w.Q .decide 0 y) : x = y := by
  obtain ⟨S1, hS1, f1⟩ := hx
  obtain ⟨S2, hS2, f2⟩ := hy
  obtain ⟨h1, m1, hh1⟩ := strong_has_honest R.fault_bound hS1
  obtain ⟨h2, m2, hh2⟩ := strong_has_honest R.fault_bound hS2
  obtain ⟨hxne, rx, hcx⟩ := R.decide_valid h1 hh1 x (f1 h1 m1)
  obtain ⟨hyne, ry, hcy⟩ := R.decide_valid h2 hh2 y (f2 h2 m2)
  rcases Nat.lt_trichotomy rx ry with hlt | heq | hgt
  · exact (later_commit_eq R hcx hxne hlt hcy hyne).symm
  · subst heq; exact quorum_unique R hcx hcy
  · exact later_commit_eq R hcy hyne hgt hcx hxne

theorem decided_nonbot (R : w.RulesR) {x : V} (hx : w.Q .decide 0 x) :
    x ≠ w.bot ∧ ∃ r, w.Q .commit r x ∧ w.Q .prepare r x := by
  obtain ⟨S, hS, f⟩ := hx
  obtain ⟨h, m, hh⟩ := strong_has_honest R.fault_bound hS
  obtain ⟨hne, r, hc⟩ := R.decide_valid h hh x (f h m)
  exact ⟨hne, r, hc, commitQ_prepareQ R hc hne⟩

theorem prepareQ_good (R : w.RulesR) (Good : V → Prop)
    (prepare_backed : ∀ p, p ∉ w.faulty → ∀ r x, w.signed p r .prepare x →
        Good x ∨ ∃ r', r' < r ∧ w.Q .prepare r' x) :
    ∀ r x, w.Q .prepare r x → Good x := by
  intro r
  induction r using Nat.strong_induction_on with
  | _ r ih =>
    intro x hq
    obtain ⟨S, hS, f⟩ := hq
    obtain ⟨h, hm, hh⟩ := strong_has_honest R.fault_bound hS
    rcases prepare_backed h hh r x (f h hm) with hg | ⟨r', hlt, hq'⟩
    · exact hg
    · exact ih r' hlt x hq'

theorem decided_good (R : w.RulesR) (Good : V → Prop)
    (prepare_backed : ∀ p, p ∉ w.faulty → ∀ r x, w.signed p r .prepare x →
        Good x ∨ ∃ r', r' < r ∧ w.Q .prepare r' x)
    {x : V} (hx : w.Q .decide 0 x) : x ≠ w.bot ∧ Good x := by
  obtain ⟨hne, r, _, hp⟩ := decided_nonbot R hx
  exact ⟨hne, prepareQ_good R Good prepare_backed r x hp⟩

end RulesR
end World
end F3.Granite
