import F3.Model.Merkle
import F3.Model.Payload
/-! What a chain-key computation feeds to its hash functions, and what "the hash was broken on those
inputs" means (C14). Core-only, executable.

The injectivity theorems about `merkle.Tree` / `ECChain.Key` cannot assume that keccak-256 or
blake2b-256 are injective: no function from byte strings to 32 bytes is. The honest statement is a
*reduction*: two different chains with the same key **exhibit** a collision (or a zero-digest preimage)
among the finitely many strings that the two computations actually hashed. This file defines those
finite lists (`hashed`, `keyHashedH`, `keyHashedB`) and the failure events (`Collision`, `ZeroPreimage`,
`WrongLen`, `HashBreak`), all decidable, and a search procedure (`findCollision`) that returns the
colliding pair. -/
namespace F3.HashInputs
open F3.Codec F3.Merkle F3.Payload

/-! ## the preimages hashed by `merkle.buildTree` -/

/-- Every argument passed to the hash `H` by `buildTree H d vs`, in call order root first: the same
recursion as `F3.Merkle.buildTree`, each `leafHash H v = H (1 :: v)` contributing `1 :: v` and each
`nodeHash H l r = H (0 :: (l ++ r))` contributing `0 :: (l ++ r)`. (Padding subtrees and the panic
branch hash nothing.) -/
def hashedAt (H : Bytes → Bytes) : Nat → List Bytes → List Bytes
  | _, [] => []
  | 0, [v] => [1 :: v]
  | 0, _ :: _ :: _ => []
  | d + 1, v :: vs =>
      (0 :: (buildTree H d ((v :: vs).take (min (2 ^ d) (v :: vs).length)) ++
             buildTree H d ((v :: vs).drop (min (2 ^ d) (v :: vs).length)))) ::
        (hashedAt H d ((v :: vs).take (min (2 ^ d) (v :: vs).length)) ++
         hashedAt H d ((v :: vs).drop (min (2 ^ d) (v :: vs).length)))

/-- Every argument passed to `H` while computing `merkle.Tree(values)` (`F3.Merkle.tree H vs`): one
leaf preimage per value and one node preimage per internal node; nothing for the empty list. -/
def hashed (H : Bytes → Bytes) (vs : List Bytes) : List Bytes := hashedAt H (depth vs.length) vs

/-! ## failure events, restricted to finite lists of inputs -/

/-- Two *different* strings, one hashed on each side, with the same digest. -/
def Collision (H : Bytes → Bytes) (X Y : List Bytes) : Prop :=
  ∃ a ∈ X, ∃ b ∈ Y, a ≠ b ∧ H a = H b

/-- One of the hashed strings has the all-zero digest (`merkle.ZeroDigest`, which `buildTree` uses as
the marker of an empty subtree and `ECChain.Key` as the key of the zero chain). -/
def ZeroPreimage (H : Bytes → Bytes) (X : List Bytes) : Prop :=
  ∃ a ∈ X, H a = zeroDigest

/-- One of the hashed strings has a digest that is not 32 bytes long. (Impossible for the Go `Digest`
array type and for the executable hashes, see `keccak256_length` / `blake2b256_length`; it is an
explicit alternative only because the hash is an arbitrary parameter of the model.) -/
def WrongLen (H : Bytes → Bytes) (X : List Bytes) : Prop :=
  ∃ a ∈ X, (H a).length ≠ 32

instance (H : Bytes → Bytes) (X Y : List Bytes) : Decidable (Collision H X Y) := by
  unfold Collision; infer_instance
instance (H : Bytes → Bytes) (X : List Bytes) : Decidable (ZeroPreimage H X) := by
  unfold ZeroPreimage; infer_instance
instance (H : Bytes → Bytes) (X : List Bytes) : Decidable (WrongLen H X) := by
  unfold WrongLen; infer_instance

/-- Search for a collision between the two lists: the first `a` of `X` (and for it the first `b` of
`Y`) with `a ≠ b` and `H a = H b`. -/
def findCollision (H : Bytes → Bytes) (X Y : List Bytes) : Option (Bytes × Bytes) :=
  X.findSome? fun a => (Y.find? fun b => decide (a ≠ b) && decide (H a = H b)).map fun b => (a, b)

/-! ## the preimages hashed by `ECChain.Key` -/

/-- The string whose blake2b-256 digest forms the tipset-key CID inside `TipSet.MarshalForSigning`:
the CBOR byte-string encoding of the tipset key (`tsCid B key = cidPrefix ++ B (tsKeyPreimage key)`). -/
def tsKeyPreimage (key : Bytes) : Bytes := hdr 2 key.length ++ key

/-- Every argument passed to the merkle hash `H` (keccak-256) while computing `chainKey H B c`: the
leaf preimages are `1 :: TipSet.MarshalForSigning`, the node preimages `0 :: left ++ right`. Empty for
the zero chain, whose key is the zero digest without any hashing. -/
def keyHashedH (H B : Bytes → Bytes) (c : List TipSet) : List Bytes := hashed H (c.map (tipsetBytes B))

/-- Every argument passed to the CID hash `B` (blake2b-256) while computing `chainKey H B c`: one
tipset-key encoding per tipset. -/
def keyHashedB (c : List TipSet) : List Bytes := c.map fun t => tsKeyPreimage t.key

/-- "One of the two hashes was broken on the inputs of these two key computations": a keccak collision
between a string hashed for `c` and one hashed for `d`, a hashed string with the zero keccak digest, a
blake2b collision between a tipset key of `c` and one of `d`, or a digest of the wrong length.
Decidable: for concrete chains and the executable hashes it can be evaluated. -/
def HashBreak (H B : Bytes → Bytes) (c d : List TipSet) : Prop :=
  Collision H (keyHashedH H B c) (keyHashedH H B d) ∨
  ZeroPreimage H (keyHashedH H B c ++ keyHashedH H B d) ∨
  Collision B (keyHashedB c) (keyHashedB d) ∨
  WrongLen H (keyHashedH H B c ++ keyHashedH H B d) ∨
  WrongLen B (keyHashedB c ++ keyHashedB d)

instance (H B : Bytes → Bytes) (c d : List TipSet) : Decidable (HashBreak H B c d) := by
  unfold HashBreak; infer_instance

/-- A byte string in the strict sense: every element is `< 256` (the models use `List Nat`). -/
def IsBytes (b : Bytes) : Prop := ∀ x ∈ b, x < 256

end F3.HashInputs
