import F3.Proofs.ValidBridge
import F3.Proofs.NetworkQuiet
/-!
# AUDIT2 M5 (third bullet) — from signed wire messages and key usage to the network of model runs

`F3.Bridge.Network*` take `W` (the validly signed votes in existence) and a table as *parameters* and assume, per
honest member, `valid` (every delivered message is `MsgValid W t`) and `own` (`W p` is exactly what `p` broadcast).
`F3.ValidBridge.validMsg_MsgValid` shows that what C05's validator accepts (`validMsg`) is `MsgValid` for
`W := Wsig Signed …`, `t := tableOf c` — but nothing composed the two. Here `W` and `t` are *instantiated* from a
committee `c` and a relation `Signed pub bytes` ("the holder of key `pub` produced a signature over `bytes`"), the
deliveries are concrete wire messages accepted by `validMsg`, and `valid` / `own` / `nonMembers` are **derived** from
assumptions about key usage only (`KeyUsage`).
-/
namespace F3.Audit2
open F3 F3.Msg F3.Spec.ValidMsg F3.ValidBridge

/-- what is handed to the instance for an accepted wire message `m`: its abstraction, with whatever ticket rank the
host computed (the model's `suppOk` / `instOk` flags are `true`: `m` is of this instance) -/
def handed (m : Msg.Msg) (rk : Nat) : Instance.Msg := { absMsg m with rank := rk }

/-- a call on the instance: `Start`, an alarm, or the delivery of a wire message of this instance
(`inst`, `supp`) that exists on the wire (`Wire`) and that the validator accepts (`validMsg`, C05) -/
def DeliveredOp (Wire : Msg.Msg → Prop) (net inst supp : Nat) (c : Committee) : Instance.Op → Prop
  | .recv _ m' => ∃ m rk, m' = handed m rk ∧ Wire m ∧ validMsg net c m ∧ m.vote.inst = inst ∧ m.vote.supp = supp
  | _ => True

/-- one honest member's execution: it never began the instance, or `Start` once and then alarms and deliveries of
validated wire messages (or of messages of other instances / supplemental data, refused at the door) -/
structure SignedRun (Wire : Msg.Msg → Prop) (net inst supp : Nat) (c : Committee) (p : Instance.Pid) where
  cfg : Instance.Cfg
  input : Instance.Chain
  ops : List Instance.Op
  inputNe : input ≠ []
  shape : StartedOnce ops
  delivered : ∀ op ∈ ops, Bridge.foreign op = true ∨ DeliveredOp Wire net inst supp c op

/-- the effects (broadcast requests among them) of the member's model run -/
def SignedRun.effs {Wire : Msg.Msg → Prop} {net inst supp : Nat} {c : Committee} {p : Instance.Pid}
    (r : SignedRun Wire net inst supp c p) : List Instance.Eff :=
  (Instance.run (Instance.init r.cfg (tableOf c) r.input) r.ops).2

/-- the honest members of committee `c` outside `F`, each with its run -/
abbrev SignedRuns (Wire : Msg.Msg → Prop) (net inst supp : Nat) (c : Committee) (F : Finset Instance.Pid) :=
  ∀ p, p ∈ (Bridge.ids (tableOf c)).toFinset → p ∉ F → SignedRun Wire net inst supp c p

/-- **The assumptions about key usage** (and nothing else about the adversary):
* `tokens` — symbolic unforgeability: a signature token, or a constituent of an aggregate token, that occurs in a
  message on the wire was produced by the key it names;
* `honestOnly` — the key registered for an honest member signs a vote payload of this instance only if that
  member's model run broadcast that vote: *Byzantine participants sign with their own keys only*, and an honest
  participant signs nothing but what `Instance.step` asks it to broadcast;
* `honestAll` — every broadcast an honest member's model run requests is signed with its registered key (needed
  for rule `commit_bottom` only; cf. audit L2).
Nothing is assumed about what the keys of members in `F` sign. -/
structure KeyUsage (Signed : Nat → SigMsg → Prop) (Wire : Msg.Msg → Prop) (net inst supp : Nat) (c : Committee)
    (F : Finset Instance.Pid) (runs : SignedRuns Wire net inst supp c F) : Prop where
  tokens : ∀ m, Wire m → (∀ pub x, m.sig = Sig.tok pub x → Signed pub x) ∧
    ∀ j, m.just = some j → ∀ sg x, j.agg = Agg.tok sg x → ∀ q ∈ sg, Signed q.2 x
  honestOnly : ∀ p hp hF, ∀ e ∈ c.entries, e.id = p → ∀ r phn v',
    Signed e.pub (SigMsg.vote net inst r phn supp (keyOf v')) →
      ∃ tk j, Instance.Eff.broadcast r (absPhase phn) (absChain v') tk j ∈ (runs p hp hF).effs
  honestAll : ∀ p hp hF r ph v tk j, Instance.Eff.broadcast r ph v tk j ∈ (runs p hp hF).effs →
    ∃ e ∈ c.entries, e.id = p ∧ ∃ phn v', absPhase phn = ph ∧ absChain v' = v ∧
      Signed e.pub (SigMsg.vote net inst r phn supp (keyOf v'))

variable {Signed : Nat → SigMsg → Prop} {Wire : Msg.Msg → Prop} {net inst supp : Nat} {c : Committee}
  {F : Finset Instance.Pid} {runs : SignedRuns Wire net inst supp c F}

/-- `MsgValid` does not look at the ticket rank -/
theorem msgValid_handed {W : Instance.Votes} {t : Instance.Table} {m : Msg.Msg} (rk : Nat)
    (h : Instance.MsgValid W t (absMsg m)) : Instance.MsgValid W t (handed m rk) := h

/-- `valid` derived: what `validMsg` accepts, with tokens produced by the keys they name, is `MsgValid` -/
theorem KeyUsage.valid (K : KeyUsage Signed Wire net inst supp c F runs) (hu : (c.entries.map (·.id)).Nodup)
    (p : Instance.Pid) (hp : p ∈ (Bridge.ids (tableOf c)).toFinset) (hF : p ∉ F) :
    ∀ op ∈ (runs p hp hF).ops, Bridge.foreign op = true ∨
      Instance.OpValidG (Wsig Signed net inst supp c) (tableOf c) op := by
  intro op hop
  rcases (runs p hp hF).delivered op hop with h | h
  · exact Or.inl h
  · right
    cases op with
    | recv now m' =>
      obtain ⟨m, rk, rfl, hw, hv, hi, hs⟩ := h
      obtain ⟨ht1, ht2⟩ := K.tokens m hw
      have := validMsg_MsgValid Signed net c hu m hv ht1 ht2
      rw [hi, hs] at this
      exact msgValid_handed rk this
    | start _ => trivial
    | alarm _ => trivial

/-- `own` derived: the votes of an honest member in existence are exactly its model run's broadcasts -/
theorem KeyUsage.own (K : KeyUsage Signed Wire net inst supp c F runs)
    (p : Instance.Pid) (hp : p ∈ (Bridge.ids (tableOf c)).toFinset) (hF : p ∉ F) (r : Nat) (ph : Instance.Phase)
    (v : Instance.Chain) :
    Wsig Signed net inst supp c p r ph v ↔
      ∃ tk j, Instance.Eff.broadcast r ph v tk j ∈ (runs p hp hF).effs := by
  constructor
  · rintro ⟨e, he, hid, phn, v', rfl, rfl, hs⟩
    exact K.honestOnly p hp hF e he hid r phn v' hs
  · rintro ⟨tk, j, hb⟩
    obtain ⟨e, he, hid, phn, v', h1, h2, hs⟩ := K.honestAll p hp hF r ph v tk j hb
    exact ⟨e, he, hid, phn, v', h1, h2, hs⟩

/-- `nonMembers` derived: only keys registered in the committee count -/
theorem wsig_nonMembers (Signed : Nat → SigMsg → Prop) (net inst supp : Nat) (c : Committee) (p : Instance.Pid)
    (hp : p ∉ (Bridge.ids (tableOf c)).toFinset) (r : Nat) (ph : Instance.Phase) (v : Instance.Chain) :
    ¬ Wsig Signed net inst supp c p r ph v := by
  rintro ⟨e, he, hid, _⟩
  apply hp
  rw [List.mem_toFinset, ids_tableOf]
  exact List.mem_map.2 ⟨e, he, hid⟩

/-- the fault bound in plain terms: the members in `F` hold less than a third of the scaled power -/
theorem faultBound_of_sum {t : Instance.Table} {F : Finset Instance.Pid} {W : Instance.Votes}
    (hnd : (Bridge.ids t).Nodup) (h : 3 * (∑ p ∈ F, t.power p) < t.total) :
    3 * (Bridge.world t F W).power F < (Bridge.world t F W).T := by
  rw [Bridge.total_eq t F W hnd]
  exact h

/-- the run of an honest member as a `ValidRun'` w.r.t. the instantiated `W` and table -/
def KeyUsage.validRun (K : KeyUsage Signed Wire net inst supp c F runs) (hu : (c.entries.map (·.id)).Nodup)
    (p : Instance.Pid) (hp : p ∈ (Bridge.ids (tableOf c)).toFinset) (hF : p ∉ F) :
    ValidRun' (Wsig Signed net inst supp c) (tableOf c) p where
  cfg := (runs p hp hF).cfg
  input := (runs p hp hF).input
  ops := (runs p hp hF).ops
  inputNe := (runs p hp hF).inputNe
  shape := (runs p hp hF).shape
  valid := K.valid hu p hp hF
  own := K.own p hp hF

/-- **The network of model runs, from a committee, signed wire messages and key usage.** -/
def KeyUsage.network (K : KeyUsage Signed Wire net inst supp c F runs) (hu : (c.entries.map (·.id)).Nodup)
    (hT : 0 < c.total) (hF : 3 * (∑ p ∈ F, (tableOf c).power p) < c.total) :
    NetworkV' (tableOf c) F (Wsig Signed net inst supp c) where
  idsNodup := by rw [ids_tableOf]; exact hu
  totalPos := by rw [total_tableOf]; exact hT
  faultBound := faultBound_of_sum (by rw [ids_tableOf]; exact hu) (by rw [total_tableOf]; exact hF)
  nonMembers := wsig_nonMembers Signed net inst supp c
  runs := fun p hp hpF => K.validRun hu p hp hpF

/-- **Agreement from key usage.** Committee `c` with distinct ids and positive total scaled power; `F` the Byzantine
members, holding less than a third of it; every other member of `c` runs the instance model (`SignedRun`: possibly
never starting; every delivery is a wire message of this instance accepted by the validator, or foreign and refused);
the adversary is constrained by `KeyUsage` only. Then any two honest members that report a decision report the same
value. -/
theorem agreement_signed (K : KeyUsage Signed Wire net inst supp c F runs) (hu : (c.entries.map (·.id)).Nodup)
    (hT : 0 < c.total) (hF : 3 * (∑ p ∈ F, (tableOf c).power p) < c.total)
    (p q : Instance.Pid) (hp : p ∈ (Bridge.ids (tableOf c)).toFinset) (hpF : p ∉ F)
    (hq : q ∈ (Bridge.ids (tableOf c)).toFinset) (hqF : q ∉ F) (dp dq : Instance.Just)
    (hdp : (Instance.run (Instance.init (runs p hp hpF).cfg (tableOf c) (runs p hp hpF).input)
      (runs p hp hpF).ops).1.termination = some dp)
    (hdq : (Instance.run (Instance.init (runs q hq hqF).cfg (tableOf c) (runs q hq hqF).input)
      (runs q hq hqF).ops).1.termination = some dq) :
    dp.value = dq.value :=
  model_agreement_quiet (K.network hu hT hF) p q hp hpF hq hqF dp dq hdp hdq

/-- **Validity from key usage**: not bottom, on the decider's own base, a prefix of the input of an honest member that
began the instance. -/
theorem validity_signed (K : KeyUsage Signed Wire net inst supp c F runs) (hu : (c.entries.map (·.id)).Nodup)
    (hT : 0 < c.total) (hF : 3 * (∑ p ∈ F, (tableOf c).power p) < c.total)
    (p : Instance.Pid) (hp : p ∈ (Bridge.ids (tableOf c)).toFinset) (hpF : p ∉ F) (d : Instance.Just)
    (hd : (Instance.run (Instance.init (runs p hp hpF).cfg (tableOf c) (runs p hp hpF).input)
      (runs p hp hpF).ops).1.termination = some d) :
    d.value ≠ [] ∧ d.value.head? = (runs p hp hpF).input.head? ∧
    ∃ h, ∃ hh : h ∈ (Bridge.ids (tableOf c)).toFinset, ∃ hhF : h ∉ F,
      (runs h hh hhF).ops ≠ [] ∧ d.value <+: (runs h hh hhF).input :=
  model_validity_quiet (K.network hu hT hF) p hp hpF d hd

/-! ### executable checkers: `KeyUsage` for finite sets of signatures and wire messages -/

/-- the tokens of `m` are in the list `S` of (key, bytes) pairs that were signed -/
def tokOkB (S : List (Nat × SigMsg)) (m : Msg.Msg) : Bool :=
  (match m.sig with | .tok pub x => S.contains (pub, x) | _ => true) &&
  (match m.just with
   | some j => (match j.agg with | .tok sg x => sg.all (fun q => S.contains (q.2, x)) | _ => true)
   | none => true)

theorem tokOkB_sound (S : List (Nat × SigMsg)) (m : Msg.Msg) (h : tokOkB S m = true) :
    (∀ pub x, m.sig = Sig.tok pub x → (pub, x) ∈ S) ∧
    ∀ j, m.just = some j → ∀ sg x, j.agg = Agg.tok sg x → ∀ q ∈ sg, (q.2, x) ∈ S := by
  unfold tokOkB at h
  rw [Bool.and_eq_true] at h
  obtain ⟨h1, h2⟩ := h
  constructor
  · intro pub x hs
    rw [hs] at h1
    simpa using h1
  · intro j hj sg x ha q hq
    rw [hj] at h2
    simp only [ha] at h2
    have := List.all_eq_true.1 h2 q hq
    simpa using this

/-- everything key `pub` signed for this instance is among the broadcasts `bcs` -/
def honestOnlyB (S : List (Nat × SigMsg)) (net inst supp pub : Nat)
    (bcs : List (Nat × Instance.Phase × Instance.Chain)) : Bool :=
  S.all (fun s => s.1 != pub || match s.2 with
    | .vote n i r phn sp (.ofChain v') =>
      !(n == net && i == inst && sp == supp) || bcs.contains (r, absPhase phn, absChain v')
    | _ => true)

theorem honestOnlyB_sound (S : List (Nat × SigMsg)) (net inst supp pub : Nat)
    (bcs : List (Nat × Instance.Phase × Instance.Chain)) (h : honestOnlyB S net inst supp pub bcs = true)
    (r phn : Nat) (v' : Msg.Chain) (hs : (pub, SigMsg.vote net inst r phn supp (keyOf v')) ∈ S) :
    (r, absPhase phn, absChain v') ∈ bcs := by
  have := List.all_eq_true.1 h _ hs
  simpa [keyOf] using this

/-- every broadcast in `bcs` is signed by key `pub` -/
def honestAllB (S : List (Nat × SigMsg)) (net inst supp pub : Nat)
    (bcs : List (Nat × Instance.Phase × Instance.Chain)) : Bool :=
  bcs.all (fun b => S.any (fun s => s.1 == pub && match s.2 with
    | .vote n i r phn sp (.ofChain v') =>
      n == net && i == inst && sp == supp && r == b.1 && absPhase phn == b.2.1 && absChain v' == b.2.2
    | _ => false))

theorem honestAllB_sound (S : List (Nat × SigMsg)) (net inst supp pub : Nat)
    (bcs : List (Nat × Instance.Phase × Instance.Chain)) (h : honestAllB S net inst supp pub bcs = true)
    (r : Nat) (ph : Instance.Phase) (v : Instance.Chain) (hb : (r, ph, v) ∈ bcs) :
    ∃ phn v', absPhase phn = ph ∧ absChain v' = v ∧ (pub, SigMsg.vote net inst r phn supp (keyOf v')) ∈ S := by
  have := List.all_eq_true.1 h _ hb
  obtain ⟨s, hs, hc⟩ := List.any_eq_true.1 this
  obtain ⟨p1, x⟩ := s
  simp only [Bool.and_eq_true, beq_iff_eq] at hc
  obtain ⟨rfl, hx⟩ := hc
  cases x with
  | vote n i r' phn sp k =>
    cases k with
    | ofChain v' =>
      simp only [Bool.and_eq_true, beq_iff_eq] at hx
      obtain ⟨⟨⟨⟨⟨rfl, rfl⟩, rfl⟩, rfl⟩, h1⟩, h2⟩ := hx
      exact ⟨phn, v', h1, h2, hs⟩
    | junk _ => cases hx
  | vrf _ _ _ _ => cases hx
  | other _ => cases hx

/-- `KeyUsage` for a finite list `S` of signatures in existence and a finite list `wire` of wire messages, from the
three checkers -/
theorem KeyUsage.ofLists (S : List (Nat × SigMsg)) (wire : List Msg.Msg) (net inst supp : Nat) (c : Committee)
    (F : Finset Instance.Pid) (runs : SignedRuns (fun m => m ∈ wire) net inst supp c F)
    (htok : wire.all (tokOkB S) = true)
    (hhon : ∀ p hp hF, ∀ e ∈ c.entries, e.id = p →
      honestOnlyB S net inst supp e.pub ((runs p hp hF).effs.filterMap Bridge.bcTriple) = true ∧
      honestAllB S net inst supp e.pub ((runs p hp hF).effs.filterMap Bridge.bcTriple) = true) :
    KeyUsage (fun pub x => (pub, x) ∈ S) (fun m => m ∈ wire) net inst supp c F runs where
  tokens := fun m hm => tokOkB_sound S m (List.all_eq_true.1 htok m hm)
  honestOnly := by
    intro p hp hF e he hid r phn v' hs
    rw [Bridge.bc_iff_triple]
    exact honestOnlyB_sound S net inst supp e.pub _ (hhon p hp hF e he hid).1 r phn v' hs
  honestAll := by
    intro p hp hF r ph v tk j hb
    have hp' := hp
    rw [List.mem_toFinset, ids_tableOf] at hp'
    obtain ⟨e, he, hid⟩ := List.mem_map.1 hp'
    have hb' := (Bridge.bc_iff_triple _ r ph v).1 ⟨tk, j, hb⟩
    obtain ⟨phn, v', h1, h2, hs⟩ := honestAllB_sound S net inst supp e.pub _ (hhon p hp hF e he hid).2 r ph v hb'
    exact ⟨e, he, hid, phn, v', h1, h2, hs⟩

/-! ### a concrete committee, signatures, wire messages and runs

Three members (scaled powers 12, 12, 6) with keys 101, 102, 103; instance 5 of network 1, supplemental data 9. Members 1 and 2
are honest and run the model on the chain `[7, 8]`; member 3 is Byzantine: its QUALITY for `[7, 9]` is delivered, and
it has signed two different PREPAREs (never delivered). -/
namespace SignedEx

def tip (n : Nat) : Tip := ⟨n, n, 8, 38⟩
def cv : Msg.Chain := [tip 7, tip 8]
def cb : Msg.Chain := [tip 7, tip 9]
def com : Committee := { entries := [⟨1, 12, 101⟩, ⟨2, 12, 102⟩, ⟨3, 6, 103⟩], beacon := 0 }
def pl (ph : Nat) (v : Msg.Chain) : Payload := ⟨5, 0, ph, 9, v⟩
def sm (ph : Nat) (v : Msg.Chain) : SigMsg := .vote 1 5 0 ph 9 (keyOf v)
def jOf (ph : Nat) : Msg.Just :=
  { vote := pl ph cv, signers := [0, 1], agg := .tok [(0, 101), (1, 102)] (sm ph cv), enc := true }
def mk (sender pub ph : Nat) (v : Msg.Chain) (j : Option Msg.Just) : Msg.Msg :=
  { sender := sender, vote := pl ph v, sig := .tok pub (sm ph v), ticket := .garbage 0, just := j, enc := true }

/-- the signatures in existence -/
def S : List (Nat × SigMsg) :=
  [(101, sm QUALITY cv), (101, sm PREPARE cv), (101, sm COMMIT cv), (101, sm DECIDE cv),
   (102, sm QUALITY cv), (102, sm PREPARE cv), (102, sm COMMIT cv), (102, sm DECIDE cv),
   (103, sm QUALITY cb), (103, sm PREPARE cb), (103, sm PREPARE cv)]

/-- the deliveries (time, wire message), the same at members 1 and 2 -/
def deliveries : List (Int × Msg.Msg) :=
  [(1, mk 1 101 QUALITY cv none), (2, mk 3 103 QUALITY cb none), (3, mk 2 102 QUALITY cv none),
   (4, mk 1 101 PREPARE cv none), (5, mk 2 102 PREPARE cv none),
   (6, mk 1 101 COMMIT cv (some (jOf PREPARE))), (7, mk 2 102 COMMIT cv (some (jOf PREPARE))),
   (8, mk 1 101 DECIDE cv (some (jOf COMMIT))), (9, mk 2 102 DECIDE cv (some (jOf COMMIT)))]

def wire : List Msg.Msg := deliveries.map (·.2)

def sOps : List Instance.Op := .start 0 :: deliveries.map (fun d => .recv d.1 (handed d.2 0))

def sRun (p : Instance.Pid) : SignedRun (fun m => m ∈ wire) 1 5 9 com p where
  cfg := Bridge.exCfg
  input := [7, 8]
  ops := sOps
  inputNe := by decide
  shape := Or.inr ⟨0, _, rfl, by
    intro op hop
    obtain ⟨d, _, rfl⟩ := List.mem_map.1 hop
    rfl⟩
  delivered := by
    intro op hop
    right
    rcases List.mem_cons.1 hop with rfl | hop
    · trivial
    · obtain ⟨d, hd, rfl⟩ := List.mem_map.1 hop
      have hall : ∀ d ∈ deliveries, validMsg 1 com d.2 ∧ d.2.vote.inst = 5 ∧ d.2.vote.supp = 9 := by decide
      exact ⟨d.2, 0, rfl, List.mem_map.2 ⟨d, hd, rfl⟩, hall d hd⟩

def sF : Finset Instance.Pid := {3}

def sRuns : SignedRuns (fun m => m ∈ wire) 1 5 9 com sF := fun p _ _ => sRun p

theorem s_ids : (Bridge.ids (tableOf com)).toFinset = {1, 2, 3} := by decide

theorem sKey : KeyUsage (fun pub x => (pub, x) ∈ S) (fun m => m ∈ wire) 1 5 9 com sF sRuns := by
  apply KeyUsage.ofLists S wire 1 5 9 com sF sRuns (by decide)
  intro p hp hF e he hid
  rw [s_ids] at hp
  simp only [Finset.mem_insert, Finset.mem_singleton, sF] at hp hF
  have he' : e = ⟨1, 12, 101⟩ ∨ e = ⟨2, 12, 102⟩ ∨ e = ⟨3, 6, 103⟩ := by
    simpa [com] using he
  show honestOnlyB S 1 5 9 e.pub ((sRun p).effs.filterMap Bridge.bcTriple) = true ∧
    honestAllB S 1 5 9 e.pub ((sRun p).effs.filterMap Bridge.bcTriple) = true
  have heff : (sRun p).effs = (sRun 1).effs := rfl
  rw [heff]
  rcases he' with rfl | rfl | rfl
  · decide
  · decide
  · exfalso
    rcases hp with h | h | h
    · exact absurd (hid.trans h) (by decide)
    · exact absurd (hid.trans h) (by decide)
    · exact hF h

/-- Non-vacuity of `agreement_signed` / `validity_signed`: every hypothesis holds of the concrete data, the Byzantine
key has equivocated, and honest member 1 decides `[7, 8]`. -/
theorem signed_example :
    (com.entries.map (·.id)).Nodup ∧ 0 < com.total ∧ 3 * (∑ p ∈ sF, (tableOf com).power p) < com.total ∧
    (103, sm PREPARE cb) ∈ S ∧ (103, sm PREPARE cv) ∈ S ∧
    ∃ d, (Instance.run (Instance.init (sRuns 1 (by decide) (by decide)).cfg (tableOf com)
        (sRuns 1 (by decide) (by decide)).input) (sRuns 1 (by decide) (by decide)).ops).1.termination = some d ∧
      d.value = [7, 8] := by
  refine ⟨by decide, by decide, ?_, by decide, by decide, ?_⟩
  · show 3 * (∑ p ∈ ({3} : Finset Instance.Pid), (tableOf com).power p) < com.total
    rw [Finset.sum_singleton]
    decide
  · exact ⟨{ round := 0, phase := .decide, value := [7, 8], signers := [0, 1] }, by decide, rfl⟩

end SignedEx

end F3.Audit2
