import F3.Model.CodecHash
import F3.Spec.HashInputs
import F3.Proofs.CodecBytes
import F3.Proofs.CodecCollision
/-! Facts about the *executable* hashes (`F3.Codec.Hash.keccak256`, `blake2b256`) that the reductions of
C14 need — both always return 32 bytes — and the observation that all strings hashed for byte-valued
chains are byte strings in the strict sense (every element `< 256`), so that an exhibited collision is
a collision of the real function and not an artefact of `Bytes = List Nat`. -/
namespace F3.HashInputs
open F3.Codec F3.Codec.Hash F3.Merkle F3.Payload

theorem store64_length (x : UInt64) : (store64 x).length = 8 := by
  simp [store64]

theorem store64_lt (v : UInt64) : ∀ x ∈ store64 v, x < 256 := by
  intro x hx
  simp only [store64, List.mem_map] at hx
  obtain ⟨i, _, rfl⟩ := hx
  rw [UInt64.toNat_and]
  have : (0xff : UInt64).toNat = 255 := rfl
  rw [this]
  exact Nat.lt_succ_of_le Nat.and_le_right

theorem digest_isBytes (a b c d : UInt64) : IsBytes (store64 a ++ store64 b ++ store64 c ++ store64 d) := by
  intro x hx
  simp only [List.mem_append] at hx
  rcases hx with ((hx | hx) | hx) | hx <;> exact store64_lt _ x hx

/-- the executable keccak-256 returns 32 bytes on every input -/
theorem keccak256_length (a : Bytes) : (keccak256 a).length = 32 := by
  unfold keccak256
  simp only [Id.run, bind, pure, List.length_append, store64_length]

/-- the executable blake2b-256 returns 32 bytes on every input -/
theorem blake2b256_length (a : Bytes) : (blake2b256 a).length = 32 := by
  unfold blake2b256
  simp only [Id.run, bind, pure, List.length_append, store64_length]

theorem keccak256_isBytes (a : Bytes) : IsBytes (keccak256 a) := by
  unfold keccak256
  simp only [Id.run, bind, pure]
  exact digest_isBytes _ _ _ _

theorem blake2b256_isBytes (a : Bytes) : IsBytes (blake2b256 a) := by
  unfold blake2b256
  simp only [Id.run, bind, pure]
  exact digest_isBytes _ _ _ _

theorem not_wrongLen_keccak (X : List Bytes) : ¬ WrongLen keccak256 X := by
  rintro ⟨a, _, h⟩; exact h (keccak256_length a)

theorem not_wrongLen_blake (X : List Bytes) : ¬ WrongLen blake2b256 X := by
  rintro ⟨a, _, h⟩; exact h (blake2b256_length a)

/-! ### hashed strings are byte strings -/

theorem IsBytes.append {a b : Bytes} (ha : IsBytes a) (hb : IsBytes b) : IsBytes (a ++ b) := by
  intro x hx
  rcases List.mem_append.mp hx with h | h
  · exact ha x h
  · exact hb x h

theorem IsBytes.cons {x : Nat} {b : Bytes} (hx : x < 256) (hb : IsBytes b) : IsBytes (x :: b) := by
  intro y hy
  rcases List.mem_cons.mp hy with h | h
  · exact h ▸ hx
  · exact hb y h

theorem zeroDigest_isBytes : IsBytes zeroDigest := by
  intro x hx
  have := List.eq_of_mem_replicate hx
  omega

theorem buildTree_isBytes (H : Bytes → Bytes) (hH : ∀ a, IsBytes (H a)) (d : Nat) (vs : List Bytes) :
    IsBytes (buildTree H d vs) := by
  cases d with
  | zero =>
    match vs with
    | [] => exact zeroDigest_isBytes
    | [v] => exact hH _
    | _ :: _ :: _ => intro x hx; simp [buildTree, panicDigest] at hx
  | succ d =>
    match vs with
    | [] => exact zeroDigest_isBytes
    | v :: vs => rw [buildTree]; exact hH _

theorem hashedAt_isBytes (H : Bytes → Bytes) (hH : ∀ a, IsBytes (H a)) :
    ∀ (d : Nat) (vs : List Bytes), (∀ v ∈ vs, IsBytes v) → ∀ a ∈ hashedAt H d vs, IsBytes a := by
  intro d
  induction d with
  | zero =>
    intro vs hvs a ha
    match vs, hvs, ha with
    | [], _, ha => simp [hashedAt] at ha
    | [v], hvs, ha =>
      simp only [hashedAt, List.mem_singleton] at ha
      subst ha
      exact IsBytes.cons (by omega) (hvs v (by simp))
    | _ :: _ :: _, _, ha => simp [hashedAt] at ha
  | succ d ih =>
    intro vs hvs a ha
    by_cases hne : vs = []
    · subst hne; simp [hashedAt] at ha
    · rw [hashedAt_succ H d vs hne] at ha
      rcases List.mem_cons.mp ha with h | h
      · subst h
        exact IsBytes.cons (by omega) (IsBytes.append (buildTree_isBytes H hH _ _) (buildTree_isBytes H hH _ _))
      · rcases List.mem_append.mp h with h | h
        · exact ih _ (fun v hv => hvs v (List.mem_of_mem_take hv)) a h
        · exact ih _ (fun v hv => hvs v (List.mem_of_mem_drop hv)) a h

theorem hashed_isBytes (H : Bytes → Bytes) (hH : ∀ a, IsBytes (H a)) (vs : List Bytes)
    (hvs : ∀ v ∈ vs, IsBytes v) : ∀ a ∈ hashed H vs, IsBytes a :=
  hashedAt_isBytes H hH _ vs hvs

theorem beN_isBytes (k n : Nat) : IsBytes (beN k n) := beN_lt k n

theorem hdr2_isBytes (n : Nat) : IsBytes (hdr 2 n) := by
  unfold hdr
  split
  · exact IsBytes.cons (by omega) (fun _ h => by simp at h)
  · split
    · exact IsBytes.cons (by omega) (IsBytes.cons (by omega) (fun _ h => by simp at h))
    · split
      · exact IsBytes.cons (by omega) (beN_isBytes _ _)
      · split
        · exact IsBytes.cons (by omega) (beN_isBytes _ _)
        · exact IsBytes.cons (by omega) (beN_isBytes _ _)

theorem tsKeyPreimage_isBytes {k : Bytes} (hk : IsBytes k) : IsBytes (tsKeyPreimage k) :=
  IsBytes.append (hdr2_isBytes _) hk

theorem tipsetBytes_isBytes (B : Bytes → Bytes) (hB : ∀ a, IsBytes (B a)) (t : TipSet)
    (hc : IsBytes t.commitments) (hp : IsBytes t.powerTable) : IsBytes (tipsetBytes B t) := by
  unfold tipsetBytes be64i be64 tsCid
  refine IsBytes.append (beN_isBytes _ _) (IsBytes.append hc (IsBytes.append (IsBytes.append ?_ (hB _)) hp))
  intro x hx
  simp only [cidPrefix, List.mem_cons, List.not_mem_nil, or_false] at hx
  omega

/-! ### the failure event for the executable hashes -/

/-- For the executable hashes the wrong-length alternatives are impossible: what remains is a keccak
collision, a keccak preimage of the zero digest, or a blake2b collision, each among the hashed strings. -/
theorem hashBreak_real {c d : List TipSet} (h : HashBreak keccak256 blake2b256 c d) :
    Collision keccak256 (keyHashedH keccak256 blake2b256 c) (keyHashedH keccak256 blake2b256 d) ∨
    ZeroPreimage keccak256 (keyHashedH keccak256 blake2b256 c ++ keyHashedH keccak256 blake2b256 d) ∨
    Collision blake2b256 (keyHashedB c) (keyHashedB d) := by
  rcases h with h | h | h | h | h
  · exact Or.inl h
  · exact Or.inr (Or.inl h)
  · exact Or.inr (Or.inr h)
  · exact absurd h (not_wrongLen_keccak _)
  · exact absurd h (not_wrongLen_blake _)

/-- all strings hashed for a chain whose tipsets carry byte values are byte strings -/
theorem keyHashed_isBytes (H B : Bytes → Bytes) (hH : ∀ a, IsBytes (H a)) (hB : ∀ a, IsBytes (B a))
    (c : List TipSet)
    (hc : ∀ t ∈ c, IsBytes t.key ∧ IsBytes t.commitments ∧ IsBytes t.powerTable) :
    (∀ a ∈ keyHashedH H B c, IsBytes a) ∧ (∀ a ∈ keyHashedB c, IsBytes a) := by
  constructor
  · apply hashed_isBytes H hH
    intro v hv
    obtain ⟨t, ht, rfl⟩ := List.mem_map.mp hv
    exact tipsetBytes_isBytes B hB t (hc t ht).2.1 (hc t ht).2.2
  · intro a ha
    obtain ⟨t, ht, rfl⟩ := List.mem_map.mp ha
    exact tsKeyPreimage_isBytes (hc t ht).1

end F3.HashInputs
