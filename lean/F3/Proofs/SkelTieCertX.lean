import F3.Gen.SkelCertX
/-!
# Expected statement skeletons (SkelCertX)

Hand-pinned expectations for the REGENERATED skeletons of `F3.Gen.SkelCertX` (tools/go2lean/skel.go): the pre-order
list of the statements of a Go function as `<depth>:<kind>`. The expression-level tie theorems pin what single
conditions say; these pin that nothing was added around them (an extra early return, a cap, a dropped branch). A
structural change of the function — harmful or not — breaks the `rfl` below and with it the obligation of every
property importing this file; the check then searches for a failing input as for any broken obligation.
-/
namespace F3.SkelTie.SkelCertX
open F3.Gen.SkelCertX

/-- the structure the model of `ClientRequest` was written against -/
def skelClientRequestExpected : List String :=
  ["0:defer", "0:assign:=", "0:defer", "0:decl", "0:defer", "0:assign:=", "0:assign:=", "0:if", "1:return3",
   "0:assign=", "0:assign:=", "0:if", "1:assign=", "0:assign:=", "0:assign:=", "0:if", "1:call:log.Debugw",
   "1:return3", "0:if", "1:return3", "0:if", "1:return3", "0:assign:=", "0:defer", "0:decl", "0:if",
   "1:assign=", "0:assign=", "0:if", "1:call:log.Debugw", "1:return3", "0:if", "1:if", "2:assign=",
   "1:assign:=", "1:call:close", "1:return3", "0:assign:=", "0:assign:=", "0:assign:=", "0:assign=", "0:go",
   "0:return3"]

theorem skelClientRequest_expected : skelClientRequest = skelClientRequestExpected := rfl

/-- the structure the model of `PollerPoll` was written against -/
def skelPollerPollExpected : List String :=
  ["0:assign:=", "0:assign:=", "0:defer", "0:for", "1:if", "2:return2", "1:assign:=", "1:assign:=",
   "1:assign=", "1:if", "2:assign=", "2:assign=", "2:return2", "1:if", "2:assign=", "1:assign:=", "1:range",
   "2:assign:=", "2:if", "3:assign=", "3:assign=", "3:return2", "2:incdec++", "2:incdec++", "2:if", "3:if",
   "4:return2", "3:incdec++", "2:assign=", "2:assign=", "1:if", "2:return2", "1:elseif", "2:assign=",
   "2:return2"]

theorem skelPollerPoll_expected : skelPollerPoll = skelPollerPollExpected := rfl

/-- the structure the model of `NewPoller` was written against -/
def skelNewPollerExpected : List String :=
  ["0:decl", "0:if", "1:assign=", "0:assign:=", "0:if", "1:return2", "0:return2"]

theorem skelNewPoller_expected : skelNewPoller = skelNewPollerExpected := rfl

end F3.SkelTie.SkelCertX
