import F3.Proofs.StoreRepr
/-! What `open` / `create` / `put` do in represented and in uninitialised states. -/
namespace F3.Store

/-- No store has been created in `ds` (stray keys of interrupted creations are allowed). -/
structure NotInit (ds : DS) : Prop where
  noTomb : dsGet ds .tomb = none
  noRootTomb : dsGet ds .rootTomb = none
  first : dsGet ds .first = none
  latest : dsGet ds .latest = none

/-- The handle a successful open returns for history `sp` whose current table is `T`. -/
def memOf (sp : Spec) (T : Table) : Mem := { first := sp.first, latest := sp.latest, latestTable := T }

theorem memOk_memOf {sp : Spec} {T : Table} (h : sp.tbl sp.certs.length = some T) : MemOk (memOf sp T) sp :=
  ⟨rfl, rfl, h.symm⟩

theorem continueDelete_absent (sc : Scope) (o : List Key) (ds : DS) (h : dsGet ds sc.tomb = none) :
    continueDelete sc o ds = some [] := by
  unfold continueDelete; simp [h]

theorem openCore_clean_none (cfg : Cfg) (ds : DS) (o : Orders) (h1 : dsGet ds .rootTomb = none) (h2 : dsGet ds .tomb = none)
    (hn : getNum ds .latest = .ok none) : openCore cfg ds o = ⟨[], .ok none⟩ := by
  unfold openCore
  rw [continueDelete_absent .raw o.raw ds h1]
  simp only [applyWs_nil]
  have : (if cfg.resumeInner = true then continueDelete .inner o.inner ds else some []) = some [] := by
    split
    · exact continueDelete_absent .inner o.inner ds h2
    · rfl
  rw [this]
  simp only [applyWs_nil, List.append_nil, hn]

theorem openCore_clean_some (cfg : Cfg) (ds : DS) (o : Orders) (h1 : dsGet ds .rootTomb = none) (h2 : dsGet ds .tomb = none)
    {n : Nat} {c : Cert} (hn : getNum ds .latest = .ok (some n)) (hc : getCert ds n = .ok c) :
    openCore cfg ds o = ⟨[], .ok (some c)⟩ := by
  unfold openCore
  rw [continueDelete_absent .raw o.raw ds h1]
  simp only [applyWs_nil]
  have : (if cfg.resumeInner = true then continueDelete .inner o.inner ds else some []) = some [] := by
    split
    · exact continueDelete_absent .inner o.inner ds h2
    · rfl
  rw [this]
  simp only [applyWs_nil, List.append_nil, hn, hc]

variable {freq : Nat} {ds : DS} {sp : Spec}

theorem latest_getElem {sp : Spec} {c : Cert} (hc : sp.latest = some c) :
    ∃ h : sp.certs.length - 1 < sp.certs.length, sp.certs[sp.certs.length - 1] = c := by
  unfold Spec.latest at hc
  rw [List.getLast?_eq_getElem?] at hc
  have hlen : sp.certs.length - 1 < sp.certs.length := by
    cases hl : sp.certs with
    | nil => simp [hl] at hc
    | cons x xs => simp
  rw [List.getElem?_eq_getElem hlen] at hc
  exact ⟨hlen, Option.some.inj hc⟩

theorem openCore_repr (cfg : Cfg) (o : Orders) (h : Repr freq ds sp) :
    openCore cfg ds o = ⟨[], .ok sp.latest⟩ := by
  cases hc : sp.latest with
  | none =>
    refine openCore_clean_none cfg ds o h.noRootTomb h.noTomb ?_
    unfold getNum; rw [h.latest, hc]; rfl
  | some c =>
    obtain ⟨hlen, hget⟩ := latest_getElem hc
    have hinst : c.inst = sp.first + (sp.certs.length - 1) := by rw [← hget]; exact h.facts.inst _ hlen
    refine openCore_clean_some cfg ds o h.noRootTomb h.noTomb (n := c.inst) ?_ ?_
    · unfold getNum; rw [h.latest, hc]; rfl
    · rw [hinst, getCert_repr h hlen, hget]

theorem openCore_notInit (cfg : Cfg) (o : Orders) (h : NotInit ds) :
    openCore cfg ds o = ⟨[], .ok none⟩ := by
  refine openCore_clean_none cfg ds o h.noRootTomb h.noTomb ?_
  unfold getNum; rw [h.latest]

/-- The period in force while opening finds no checkpoint boundary the writer did not write. -/
def OpenOk (cfg : Cfg) (sp : Spec) : Prop :=
  cfg.openFreq = cfg.freq ∨ sp.next - sp.next % cfg.openFreq ≤ sp.first

theorem openStore_repr (cfg : Cfg) (o : Orders) (h : Repr cfg.freq ds sp) (ho : OpenOk cfg sp) :
    ∃ T, sp.tbl sp.certs.length = some T ∧ openStore cfg ds o = ⟨[], .ok (memOf sp T)⟩ := by
  obtain ⟨T, hT, _⟩ := h.facts.tbls sp.certs.length (Nat.le_refl _)
  refine ⟨T, hT, ?_⟩
  unfold openStore
  rw [openCore_repr cfg o h]
  simp only [applyWs_nil]
  unfold getNum
  rw [h.first]
  simp only
  have hnext : ({ first := sp.first, latest := sp.latest, latestTable := [] } : Mem).next = sp.first + sp.certs.length :=
    mem_next_eq rfl rfl h.facts
  rw [hnext]
  have := getPowerTable_repr h cfg.opening { first := sp.first, latest := sp.latest, latestTable := [] } rfl rfl (Or.inl rfl)
    (Nat.le_refl sp.certs.length) (by
      rcases ho with ho | ho
      · exact Or.inl ho
      · exact Or.inr ho) hT
  rw [this]
  rfl

theorem openStore_notInit (cfg : Cfg) (o : Orders) (h : NotInit ds) :
    openStore cfg ds o = ⟨[], .error .notInitialized⟩ := by
  unfold openStore
  rw [openCore_notInit cfg o h]
  simp only [applyWs_nil]
  unfold getNum; rw [h.first]

/-- Writes of a creation. -/
def createWrites (first : Nat) (init : Table) : List W :=
  [W.put (.power first) (.tbl init), W.put .first (.num first)]

theorem createStore_notInit (cfg : Cfg) (o : Orders) (h : NotInit ds) (first : Nat) {init : Table} (hne : init ≠ []) :
    createStore cfg ds o first init = ⟨createWrites first init, .ok { first := first, latest := none, latestTable := init }⟩ := by
  unfold createStore
  rw [if_neg hne, openCore_notInit cfg o h]
  simp only [applyWs_nil]
  unfold getNum; rw [h.first]
  rfl

theorem createStore_repr (cfg : Cfg) (o : Orders) (h : Repr freq ds sp) (first : Nat) {init : Table} (hne : init ≠ []) :
    createStore cfg ds o first init = ⟨[], .error .alreadyInitialized⟩ := by
  unfold createStore
  rw [if_neg hne, openCore_repr cfg o h]
  simp only [applyWs_nil]
  unfold getNum; rw [h.first]

theorem openOrCreate_notInit (cfg : Cfg) (o : Orders) (h : NotInit ds) (first : Nat) {init : Table} (hne : init ≠ []) :
    openOrCreateStore cfg ds o first init = ⟨createWrites first init, .ok { first := first, latest := none, latestTable := init }⟩ := by
  unfold openOrCreateStore
  rw [if_neg hne, openCore_notInit cfg o h]
  simp only [applyWs_nil]
  unfold getNum; rw [h.first]
  rfl

theorem openOrCreate_repr (cfg : Cfg) (o : Orders) (h : Repr cfg.freq ds sp) (ho : OpenOk cfg sp) :
    ∃ T, sp.tbl sp.certs.length = some T ∧
      openOrCreateStore cfg ds o sp.first sp.init = ⟨[], .ok (memOf sp T)⟩ := by
  obtain ⟨T, hT, _⟩ := h.facts.tbls sp.certs.length (Nat.le_refl _)
  refine ⟨T, hT, ?_⟩
  unfold openOrCreateStore
  rw [if_neg h.facts.initNe, openCore_repr cfg o h]
  simp only [applyWs_nil]
  unfold getNum; rw [h.first]
  simp only [ne_eq, not_true_eq_false, if_false, h.init]
  cases hc : sp.latest with
  | none =>
    have hnil := (Spec.latest_none_iff sp).1 hc
    have : sp.tbl sp.certs.length = some sp.init := by rw [hnil]; exact Spec.tbl_zero sp
    rw [hT] at this; cases this
    simp [memOf, hc]
  | some c =>
    simp only
    have hinst := Spec.latest_inst h.facts hc
    rw [hinst]
    have := getPowerTable_repr h cfg.opening { first := sp.first, latest := some c, latestTable := [] } rfl hc.symm (Or.inl rfl)
      (Nat.le_refl sp.certs.length) (by
        rcases ho with ho | ho
        · exact Or.inl ho
        · exact Or.inr ho) hT
    unfold Spec.next
    rw [this]
    simp [memOf, hc]

theorem openOrCreate_repr_mismatch (cfg : Cfg) (o : Orders) (h : Repr freq ds sp) (first : Nat) {init : Table}
    (hne : init ≠ []) (hm : first ≠ sp.first ∨ init ≠ sp.init) :
    ∃ e, openOrCreateStore cfg ds o first init = ⟨[], .error e⟩ ∧ (e = .firstMismatch ∨ e = .tableMismatch) := by
  unfold openOrCreateStore
  rw [if_neg hne, openCore_repr cfg o h]
  simp only [applyWs_nil]
  unfold getNum; rw [h.first]
  simp only
  by_cases hf : first = sp.first
  · subst hf
    have hi : init ≠ sp.init := by rcases hm with hm | hm; exact absurd rfl hm; exact hm
    simp only [ne_eq, not_true_eq_false, if_false, h.init]
    have : Val.tbl sp.init ≠ Val.tbl init := fun e => hi (Val.tbl.inj e).symm
    exact ⟨.tableMismatch, by simp [this], Or.inr rfl⟩
  · exact ⟨.firstMismatch, by simp [hf], Or.inl rfl⟩

/-! ### The datastore after a creation -/

theorem repr_create {ds : DS} (freq : Nat) (h : NotInit ds) (first : Nat) {init : Table} (hne : init ≠ []) (hc : Canon init) :
    Repr freq (applyWs ds (createWrites first init)) ⟨first, init, []⟩ := by
  have hmax : (0 : Nat) < maxInt := by decide
  simp only [createWrites, applyWs_cons, applyWs_nil, applyW]
  refine ⟨?_, ?_, ?_, ?_, ?_, ?_, ?_, Spec.Facts.create first hne, hc, hmax⟩
  · rw [dsGet_dsPut_other _ _ (by decide), dsGet_dsPut_other _ _ (by intro e; cases e)]; exact h.noTomb
  · rw [dsGet_dsPut_other _ _ (by decide), dsGet_dsPut_other _ _ (by intro e; cases e)]; exact h.noRootTomb
  · exact dsGet_dsPut_same _ _ _
  · rw [dsGet_dsPut_other _ _ (by intro e; cases e)]; exact dsGet_dsPut_same _ _ _
  · rw [dsGet_dsPut_other _ _ (by decide), dsGet_dsPut_other _ _ (by intro e; cases e)]
    simpa [Spec.latest] using h.latest
  · intro k hk; simp at hk
  · intro k hk1 hk2; simp at hk2; omega

/-- A prefix of the creation writes that is not complete leaves the datastore uninitialised. -/
theorem notInit_create_prefix {ds : DS} (h : NotInit ds) (first : Nat) (init : Table) :
    NotInit (applyWs ds ((createWrites first init).take 1)) := by
  simp only [createWrites, List.take_succ_cons, List.take_zero, applyWs_cons, applyWs_nil, applyW]
  refine ⟨?_, ?_, ?_, ?_⟩
  · rw [dsGet_dsPut_other _ _ (by intro e; cases e)]; exact h.noTomb
  · rw [dsGet_dsPut_other _ _ (by intro e; cases e)]; exact h.noRootTomb
  · rw [dsGet_dsPut_other _ _ (by intro e; cases e)]; exact h.first
  · rw [dsGet_dsPut_other _ _ (by intro e; cases e)]; exact h.latest

end F3.Store
