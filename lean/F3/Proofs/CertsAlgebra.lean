import F3.Proofs.CertsDiff
/-! The pointwise algebra behind `apply_make` / `apply_unique`, and facts about `canon`. -/
namespace F3.Certs
open F3.SMap

/-- an optional entry at id `i` of a well-formed table -/
def EntOK (i : Nat) (o : Option Entry) : Prop :=
  ∀ e, o = some e → e.id = i ∧ 0 < e.power ∧ e.key ≠ 0

theorem entOK_of_wf {a : Table} (ha : WF a) (i : Nat) : EntOK i (L a i) := by
  intro e he
  have hm := lookup_mem Entry.id he
  exact ⟨lookup_key Entry.id he, ha.2 e hm⟩

theorem entOK_none (i : Nat) : EntOK i none := by intro e he; cases he

theorem dspec_self (o : Option Entry) : dspec o o = none := by
  cases o with
  | none => rfl
  | some e => simp [dspec, deltaFor, Delta.isZero]

theorem stepSpec_dspec {i : Nat} {o n : Option Entry} {δ : Delta} (ho : EntOK i o) (hn : EntOK i n)
    (h : dspec o n = some δ) : δ.isZero = false ∧ stepSpec o δ = .ok n := by
  cases o with
  | none =>
    cases n with
    | none => simp [dspec] at h
    | some e =>
      obtain ⟨_, hp, hk⟩ := hn e rfl
      simp only [dspec, Option.some.injEq] at h
      subst h
      refine ⟨?_, ?_⟩
      · simp [Delta.isZero, hk]
      · have h1 : ¬ e.power ≤ 0 := by omega
        simp [stepSpec, h1, hk]
  | some pe =>
    obtain ⟨hpi, hpp, hpk⟩ := ho pe rfl
    cases n with
    | none =>
      simp only [dspec, Option.some.injEq] at h
      subst h
      refine ⟨?_, ?_⟩
      · have : -pe.power ≠ 0 := by omega
        simp [Delta.isZero, this]
      · have hk : ((0 : Nat) == pe.key) = false := by
          simp only [beq_eq_false_iff_ne, ne_eq]; exact fun e => hpk e.symm
        have h0 : pe.power + -pe.power = 0 := by omega
        simp [stepSpec, hk, h0]
    | some e =>
      obtain ⟨hei, hep, hek⟩ := hn e rfl
      simp only [dspec] at h
      split at h
      · cases h
      · rename_i hz
        simp only [Option.some.injEq] at h
        subst h
        refine ⟨by simpa using hz, ?_⟩
        unfold stepSpec deltaFor
        simp only
        have hpow : pe.power + (e.power - pe.power) = e.power := by omega
        by_cases hkk : e.key = pe.key
        · have h1 : ((e.key != pe.key) = true) = False := by simp [hkk]
          have hk0 : ((0 : Nat) == pe.key) = false := by
            simp only [beq_eq_false_iff_ne, ne_eq]; exact fun e => hpk e.symm
          have hne : ¬ e.power = 0 := by omega
          simp only [h1, if_false, hk0, hpow, bne_self_eq_false, Bool.false_and, Bool.false_eq_true,
            beq_iff_eq, hne, gt_iff_lt, hep, if_true]
          congr 2
          cases e; cases pe; simp_all
        · have h1 : (e.key != pe.key) = true := by simpa using hkk
          have hk0 : (e.key == pe.key) = false := by simpa using hkk
          have hne : ¬ e.power = 0 := by omega
          have hk1 : (e.key != 0) = true := by simpa using hek
          have hne' : (e.power == 0) = false := by simpa using hne
          simp only [h1, if_true, hk0, hpow, Bool.false_eq_true, if_false, hne',
            Bool.and_false, gt_iff_lt, hep, hk1]

theorem dspec_none {i : Nat} {o n : Option Entry} (ho : EntOK i o) (hn : EntOK i n)
    (h : dspec o n = none) : o = n := by
  cases o with
  | none =>
    cases n with
    | none => rfl
    | some e => simp [dspec] at h
  | some pe =>
    cases n with
    | none => simp [dspec] at h
    | some e =>
      obtain ⟨hpi, _, _⟩ := ho pe rfl
      obtain ⟨hei, _, hek⟩ := hn e rfl
      simp only [dspec] at h
      split at h
      · rename_i hz
        simp only [Delta.isZero, deltaFor, Bool.and_eq_true, beq_iff_eq] at hz
        obtain ⟨hz1, hz2⟩ := hz
        have hkk : e.key = pe.key := by
          by_cases hkk : e.key = pe.key
          · exact hkk
          · have h1 : (e.key != pe.key) = true := by simpa using hkk
            rw [h1] at hz2; simp only [if_true] at hz2; exact absurd hz2 hek
        have hpw : e.power = pe.power := by omega
        congr 1
        cases e; cases pe; simp_all
      · cases h

/-- the converse: whatever a non-zero delta does to an entry of a well-formed table, the canonical
delta between before and after is that delta -/
theorem dspec_stepSpec {i : Nat} {o r : Option Entry} {δ : Delta} (ho : EntOK i o) (hδ : δ.id = i)
    (hz : δ.isZero = false) (h : stepSpec o δ = .ok r) : dspec o r = some δ ∧ EntOK i r := by
  cases o with
  | none =>
    unfold stepSpec at h
    simp only at h
    split at h; · cases h
    split at h; · cases h
    rename_i hd hk
    cases h
    refine ⟨by simp [dspec], ?_⟩
    intro e he
    cases he
    refine ⟨hδ, ?_, by simpa using hk⟩
    show 0 < δ.delta
    omega
  | some pe =>
    obtain ⟨hpi, hpp, hpk⟩ := ho pe rfl
    unfold stepSpec at h
    simp only at h
    split at h; · cases h
    rename_i huk
    split at h; · cases h
    rename_i hrk
    split at h
    · -- removed
      rename_i hp0
      cases h
      have hp0' : pe.power + δ.delta = 0 := by simpa using hp0
      have hk0 : δ.key = 0 := by
        by_cases hk : δ.key = 0
        · exact hk
        · exfalso; apply hrk; simp [hk, hp0']
      refine ⟨?_, entOK_none i⟩
      simp only [dspec, Option.some.injEq]
      cases δ with
      | mk did dd dk =>
        simp only at hδ hk0 hp0'
        subst hk0
        have : dd = -pe.power := by omega
        rw [this, hpi, hδ]
    · split at h
      · rename_i hp0 hpos
        cases h
        have hp0' : ¬ pe.power + δ.delta = 0 := by simpa using hp0
        refine ⟨?_, ?_⟩
        · simp only [dspec]
          have hdf : deltaFor pe ⟨δ.id, pe.power + δ.delta, if (δ.key != 0) = true then δ.key else pe.key⟩ = δ := by
            unfold deltaFor
            cases δ with
            | mk did dd dk =>
              simp only
              have h1 : pe.power + dd - pe.power = dd := by omega
              rw [h1]
              congr 1
              by_cases hk : dk = 0
              · subst hk; simp
              · have h2 : (dk != 0) = true := by simpa using hk
                have h3 : ¬ dk = pe.key := by simpa using huk
                have h4 : (dk != pe.key) = true := by simpa using h3
                simp [h2, h4]
          rw [hdf, hz]; rfl
        · intro e he
          cases he
          refine ⟨hδ, by omega, ?_⟩
          simp only
          by_cases hk : δ.key = 0
          · simp [hk]; exact hpk
          · have h2 : (δ.key != 0) = true := by simpa using hk
            simp [h2]; exact hk
      · cases h

theorem stepSpec_ok_iff (o : Option Entry) (δ : Delta) :
    (∃ r, stepSpec o δ = .ok r) ↔
      match o with
      | some pe => δ.key ≠ pe.key ∧ 0 ≤ pe.power + δ.delta ∧ (δ.key ≠ 0 → pe.power + δ.delta ≠ 0)
      | none => 0 < δ.delta ∧ δ.key ≠ 0 := by
  cases o with
  | none =>
    simp only [stepSpec]
    by_cases h1 : δ.delta ≤ 0
    · simp only [h1, if_true]
      constructor
      · rintro ⟨r, hr⟩; cases hr
      · rintro ⟨h, _⟩; omega
    · by_cases h2 : δ.key = 0
      · simp only [h1, if_false, h2, beq_self_eq_true, if_true]
        constructor
        · rintro ⟨r, hr⟩; cases hr
        · rintro ⟨_, h⟩; exact absurd rfl h
      · have h2' : (δ.key == 0) = false := by simpa using h2
        simp only [h1, if_false, h2', Bool.false_eq_true]
        exact ⟨fun _ => ⟨by omega, h2⟩, fun _ => ⟨_, rfl⟩⟩
  | some pe =>
    simp only [stepSpec]
    by_cases h1 : δ.key = pe.key
    · simp only [h1, beq_self_eq_true, if_true]
      constructor
      · rintro ⟨r, hr⟩; cases hr
      · rintro ⟨h, _⟩; exact absurd rfl h
    · have h1' : (δ.key == pe.key) = false := by simpa using h1
      simp only [h1', Bool.false_eq_true, if_false]
      by_cases h2 : pe.power + δ.delta = 0
      · by_cases h3 : δ.key = 0
        · simp only [h3, bne_self_eq_false, Bool.false_and, Bool.false_eq_true, if_false, h2,
            beq_self_eq_true, if_true]
          refine ⟨fun _ => ⟨by rw [← h3]; exact h1, by omega, fun h => absurd rfl h⟩, fun _ => ⟨_, rfl⟩⟩
        · have h3' : (δ.key != 0) = true := by simpa using h3
          simp only [h3', h2, beq_self_eq_true, Bool.and_self, if_true]
          constructor
          · rintro ⟨r, hr⟩; cases hr
          · rintro ⟨_, _, h⟩; exact absurd rfl (h h3)
      · have h2' : (pe.power + δ.delta == 0) = false := by simpa using h2
        simp only [h2', Bool.and_false, Bool.false_eq_true, if_false]
        by_cases h4 : pe.power + δ.delta > 0
        · simp only [h4, if_true]
          exact ⟨fun _ => ⟨h1, by omega, fun _ => h2⟩, fun _ => ⟨_, rfl⟩⟩
        · simp only [h4, if_false]
          constructor
          · rintro ⟨r, hr⟩; cases hr
          · rintro ⟨_, h, _⟩; omega

/-! ## canonical order -/

theorem entryLe_trans (a b c : Entry) (h1 : entryLe a b = true) (h2 : entryLe b c = true) :
    entryLe a c = true := by
  unfold entryLe at *
  simp only [Bool.or_eq_true, decide_eq_true_eq, Bool.and_eq_true, beq_iff_eq] at *
  omega

theorem entryLe_total (a b : Entry) : (entryLe a b || entryLe b a) = true := by
  unfold entryLe
  simp only [Bool.or_eq_true, decide_eq_true_eq, Bool.and_eq_true, beq_iff_eq]
  omega

theorem canon_perm (t : Table) : (canon t).Perm t := sortBy_perm _ _

theorem canon_sorted (t : Table) : (canon t).Pairwise (fun a b => entryLe a b = true) :=
  sortBy_pairwise entryLe entryLe_trans entryLe_total t

theorem eq_of_id_eq {t : Table} (hnd : (t.map Entry.id).Nodup) {a b : Entry} (ha : a ∈ t) (hb : b ∈ t)
    (h : a.id = b.id) : a = b := by
  have h1 := lookup_of_mem_nodup Entry.id hnd ha
  have h2 := lookup_of_mem_nodup Entry.id hnd hb
  rw [h] at h1
  rw [h1] at h2
  exact Option.some.inj h2

/-- a table with distinct ids has exactly one canonical ordering -/
theorem sorted_unique {t₁ t₂ : Table} (hp : t₁.Perm t₂) (hnd : (t₁.map Entry.id).Nodup)
    (h1 : t₁.Pairwise (fun a b => entryLe a b = true)) (h2 : t₂.Pairwise (fun a b => entryLe a b = true)) :
    t₁ = t₂ := by
  apply List.Perm.eq_of_pairwise (le := fun a b => entryLe a b = true) _ h1 h2 hp
  intro a b ha hb hab hba
  have hb' : b ∈ t₁ := hp.mem_iff.mpr hb
  apply eq_of_id_eq hnd ha hb'
  unfold entryLe at hab hba
  simp only [Bool.or_eq_true, decide_eq_true_eq, Bool.and_eq_true, beq_iff_eq] at hab hba
  omega

theorem canon_eq_of_perm {t₁ t₂ : Table} (hp : t₁.Perm t₂) (hnd : (t₁.map Entry.id).Nodup) :
    canon t₁ = canon t₂ := by
  have hp' : (canon t₁).Perm (canon t₂) := (canon_perm t₁).trans (hp.trans (canon_perm t₂).symm)
  have hnd' : ((canon t₁).map Entry.id).Nodup := ((canon_perm t₁).map Entry.id).nodup_iff.mpr hnd
  exact sorted_unique hp' hnd' (canon_sorted t₁) (canon_sorted t₂)

theorem canon_toMap {t : Table} (hnd : (t.map Entry.id).Nodup) : canon (toMap t) = canon t := by
  have hp : (toMap t).Perm t := ofList_perm Entry.id hnd
  exact canon_eq_of_perm hp ((hp.map Entry.id).nodup_iff.mpr hnd)

theorem canon_idem (t : Table) (hnd : (t.map Entry.id).Nodup) : canon (canon t) = canon t :=
  canon_eq_of_perm (canon_perm t) (((canon_perm t).map Entry.id).nodup_iff.mpr hnd)

theorem wf_perm {t₁ t₂ : Table} (hp : t₁.Perm t₂) (h : WF t₁) : WF t₂ :=
  ⟨(hp.map Entry.id).nodup_iff.mp h.1, fun e he => h.2 e (hp.mem_iff.mpr he)⟩

theorem wf_canon {t : Table} (h : WF t) : WF (canon t) := wf_perm (canon_perm t).symm h

theorem wfB_iff (t : Table) : wfB t = true ↔ WF t := by
  unfold wfB WF
  simp only [Bool.and_eq_true, decide_eq_true_eq, List.all_eq_true, bne_iff_ne, ne_eq]

end F3.Certs
