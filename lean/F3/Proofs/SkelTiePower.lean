import F3.Gen.SkelPower
/-!
# Expected statement skeletons (SkelPower)

Hand-pinned expectations for the REGENERATED skeletons of `F3.Gen.SkelPower` (tools/go2lean/skel.go): the pre-order
list of the statements of a Go function as `<depth>:<kind>`. The expression-level tie theorems pin what single
conditions say; these pin that nothing was added around them (an extra early return, a cap, a dropped branch). A
structural change of the function — harmful or not — breaks the `rfl` below and with it the obligation of every
property importing this file; the check then searches for a failing input as for any broken obligation.
-/
namespace F3.SkelTie.SkelPower
open F3.Gen.SkelPower

/-- the structure the model of `ScalePower` was written against -/
def skelScalePowerExpected : List String :=
  ["0:decl", "0:if", "1:return2", "0:assign:=", "0:assign=", "0:assign=", "0:return2"]

theorem skelScalePower_expected : skelScalePower = skelScalePowerExpected := rfl

/-- the structure the model of `PowerTableCopy` was written against -/
def skelPowerTableCopyExpected : List String :=
  ["0:assign:=", "0:assign=", "0:assign=", "0:assign=", "0:assign=", "0:assign=", "0:return1"]

theorem skelPowerTableCopy_expected : skelPowerTableCopy = skelPowerTableCopyExpected := rfl

/-- the structure the model of `Rescale` was written against -/
def skelRescaleExpected : List String :=
  ["0:assign=", "0:range", "1:assign:=", "1:if", "2:return1", "1:assign=", "1:assign+=", "0:return1"]

theorem skelRescale_expected : skelRescale = skelRescaleExpected := rfl

end F3.SkelTie.SkelPower
