import F3.Proofs.InstanceRun
/-! The decision reported by the instance is built from a well-formed DECIDE tally (C03). -/
namespace F3.Instance

def sumPow (t : Table) (l : List Nat) : Nat := (l.map t.powerAt).foldl (· + ·) 0

theorem foldl_add_init (l : List Nat) (a : Nat) : l.foldl (· + ·) a = a + l.foldl (· + ·) 0 := by
  induction l generalizing a with
  | nil => simp
  | cons x xs ih => simp only [List.foldl_cons]; rw [ih (a + x), ih (0 + x)]; omega

theorem sumPow_append (t : Table) (a b : List Nat) : sumPow t (a ++ b) = sumPow t a + sumPow t b := by
  unfold sumPow
  rw [List.map_append, List.foldl_append, foldl_add_init]

theorem sumPow_single (t : Table) (i : Nat) : sumPow t [i] = t.powerAt i := by simp [sumPow]

/-- `takeUntilStrong` returns `taken` extended by a non-empty prefix of the remaining indices whose
accumulated power is a strong quorum -/
theorem takeUntilStrong_spec (t : Table) (l : List Nat) (acc : Nat) (taken sg : List Nat)
    (h : takeUntilStrong t l acc taken = some sg) :
    ∃ k, 0 < k ∧ k ≤ l.length ∧ sg = taken ++ l.take k ∧ strongQ t (acc + sumPow t (l.take k)) = true := by
  induction l generalizing acc taken with
  | nil => simp [takeUntilStrong] at h
  | cons i is ih =>
    unfold takeUntilStrong at h
    dsimp only at h
    split at h
    · rename_i hs
      refine ⟨1, by omega, by simp, ?_, ?_⟩
      · simp at h; simp [← h]
      · simpa [sumPow_single] using hs
    · obtain ⟨k, hk, hkl, hsg, hst⟩ := ih _ _ h
      refine ⟨k + 1, by omega, by simp; omega, ?_, ?_⟩
      · simp [hsg, List.take_succ_cons]
      · rw [List.take_succ_cons, show i :: is.take k = [i] ++ is.take k from rfl, sumPow_append, sumPow_single]
        rw [Nat.add_assoc] at hst; exact hst

theorem insertSorted_mem (x : Nat) (l : List Nat) (y : Nat) : y ∈ insertSorted x l ↔ y = x ∨ y ∈ l := by
  induction l with
  | nil => simp [insertSorted]
  | cons a as ih =>
    unfold insertSorted
    split
    · simp
    · simp [ih]; constructor
      · rintro (h | h | h) <;> simp [h]
      · rintro (h | h | h) <;> simp [h]

theorem insertSorted_sorted (x : Nat) (l : List Nat) (h : l.Pairwise (· ≤ ·)) : (insertSorted x l).Pairwise (· ≤ ·) := by
  induction l with
  | nil => simp [insertSorted]
  | cons a as ih =>
    unfold insertSorted
    split
    · rename_i hxa
      simp only [List.pairwise_cons] at h ⊢
      exact ⟨fun y hy => by
        rcases List.mem_cons.1 hy with rfl | hy
        · exact hxa
        · exact Nat.le_trans hxa (h.1 y hy), h⟩
    · rename_i hxa
      simp only [List.pairwise_cons] at h ⊢
      refine ⟨fun y hy => ?_, ih h.2⟩
      rcases (insertSorted_mem x as y).1 hy with rfl | hy
      · omega
      · exact h.1 y hy

theorem sortNat_sorted (l : List Nat) : (sortNat l).Pairwise (· ≤ ·) := by
  induction l with
  | nil => simp [sortNat]
  | cons a as ih => exact insertSorted_sorted a _ ih

theorem sortNat_mem (l : List Nat) (y : Nat) : y ∈ sortNat l ↔ y ∈ l := by
  induction l with
  | nil => simp [sortNat]
  | cons a as ih => simp [sortNat, insertSorted_mem] at ih ⊢; rw [ih]

theorem insertSorted_nodup (x : Nat) (l : List Nat) (h : l.Nodup) (hx : x ∉ l) : (insertSorted x l).Nodup := by
  induction l with
  | nil => simp [insertSorted]
  | cons a as ih =>
    unfold insertSorted
    split
    · exact List.nodup_cons.2 ⟨hx, h⟩
    · have h' := List.nodup_cons.1 h
      refine List.nodup_cons.2 ⟨fun hm => ?_, ih h'.2 (fun hm => hx (List.mem_cons_of_mem _ hm))⟩
      rcases (insertSorted_mem x as a).1 hm with rfl | hm
      · exact hx (List.mem_cons_self)
      · exact h'.1 hm

theorem sortNat_nodup (l : List Nat) (h : l.Nodup) : (sortNat l).Nodup := by
  induction l with
  | nil => simp [sortNat]
  | cons a as ih =>
    have h' := List.nodup_cons.1 h
    exact insertSorted_nodup a _ (ih h'.2) (fun hm => h'.1 ((sortNat_mem as a).1 hm))

theorem sorted_nodup_lt (l : List Nat) (hs : l.Pairwise (· ≤ ·)) (hn : l.Nodup) : l.Pairwise (· < ·) := by
  induction l with
  | nil => simp
  | cons a as ih =>
    simp only [List.pairwise_cons, List.nodup_cons] at hs hn ⊢
    exact ⟨fun y hy => Nat.lt_of_le_of_ne (hs.1 y hy) (fun h => hn.1 (h ▸ hy)), ih hs.2 hn.2⟩

theorem pairwise_take {α} {R : α → α → Prop} (l : List α) (k : Nat) (h : l.Pairwise R) : (l.take k).Pairwise R :=
  h.sublist (List.take_sublist k l)


theorem mapM_spec {α β} (f : α → Option β) (l : List α) (r : List β) (h : l.mapM f = some r) :
    r.length = l.length ∧ ∀ i (hi : i < l.length) (hr : i < r.length), f l[i] = some r[i] := by
  induction l generalizing r with
  | nil => simp at h; subst h; simp
  | cons a as ih =>
    simp only [List.mapM_cons] at h
    cases hfa : f a with
    | none => simp [hfa] at h
    | some b =>
      cases hm : as.mapM f with
      | none => simp [hfa, hm] at h
      | some bs =>
        simp [hfa, hm] at h
        subst h
        obtain ⟨hl, hg⟩ := ih bs hm
        refine ⟨by simp [hl], ?_⟩
        intro i hi hr
        cases i with
        | zero => simpa using hfa
        | succ n => simpa using hg n (by simpa using hi) (by simpa using hr)

theorem index_spec (t : Table) (x : Pid) (i : Nat) (h : t.index? x = some i) :
    ∃ hi : i < t.entries.length, (t.entries[i]).1 = x ∧ t.powerAt i = t.power x := by
  unfold Table.index? at h
  rw [List.findIdx?_eq_some_iff_getElem] at h
  obtain ⟨hi, hp, hbefore⟩ := h
  refine ⟨hi, by simpa using hp, ?_⟩
  unfold Table.powerAt Table.power
  simp only [List.getElem?_eq_getElem hi]
  have : t.entries.find? (fun e => e.1 == x) = some t.entries[i] := by
    rw [List.find?_eq_some_iff_getElem]
    exact ⟨hp, i, hi, rfl, fun j hj => by simpa using hbefore j hj⟩
  rw [this]

def sumP (t : Table) (l : List Pid) : Nat := (l.map t.power).foldl (· + ·) 0

theorem sumP_append (t : Table) (a b : List Pid) : sumP t (a ++ b) = sumP t a + sumP t b := by
  unfold sumP
  rw [List.map_append, List.foldl_append, foldl_add_init]

theorem sumP_single (t : Table) (x : Pid) : sumP t [x] = t.power x := by simp [sumP]
theorem sumP_nil (t : Table) : sumP t [] = 0 := rfl
theorem sumP_cons (t : Table) (x : Pid) (l : List Pid) : sumP t (x :: l) = t.power x + sumP t l := by
  rw [show x :: l = [x] ++ l from rfl, sumP_append, sumP_single]

theorem upsert_find_same (l : List Support) (s : Support) :
    (upsertSupport l s).find? (fun x => x.chain == s.chain) = some s := by
  induction l with
  | nil => simp [upsertSupport]
  | cons a as ih =>
    unfold upsertSupport
    split
    · simp
    · rename_i h
      rw [List.find?_cons]
      simp only [h]
      exact ih

theorem upsert_find_other (l : List Support) (s : Support) (c : Chain) (hc : c ≠ s.chain) :
    (upsertSupport l s).find? (fun x => x.chain == c) = l.find? (fun x => x.chain == c) := by
  induction l with
  | nil =>
    simp only [upsertSupport, List.find?_cons, List.find?_nil]
    have : (s.chain == c) = false := by simpa using fun h => hc h.symm
    simp [this]
  | cons a as ih =>
    unfold upsertSupport
    split
    · rename_i h
      have ha : a.chain = s.chain := by simpa using h
      simp only [List.find?_cons]
      have h1 : (s.chain == c) = false := by simpa using fun h => hc h.symm
      have h2 : (a.chain == c) = false := by rw [ha]; exact h1
      simp [h1, h2]
    · simp only [List.find?_cons]
      split
      · rfl
      · exact ih

/-- if every element of a nodup list `a` is in `b` then its power sum is at most `b`'s -/
theorem sumP_le_of_subset (t : Table) (a b : List Pid) (ha : a.Nodup) (hsub : ∀ x ∈ a, x ∈ b) : sumP t a ≤ sumP t b := by
  induction a generalizing b with
  | nil => simp [sumP]
  | cons x xs ih =>
    have hx : x ∈ b := hsub x List.mem_cons_self
    obtain ⟨b1, b2, rfl⟩ := List.append_of_mem hx
    have hnd := List.nodup_cons.1 ha
    have := ih (b1 ++ b2) hnd.2 (by
      intro y hy
      have hyb := hsub y (List.mem_cons_of_mem _ hy)
      simp only [List.mem_append, List.mem_cons] at hyb ⊢
      rcases hyb with h | h | h
      · exact Or.inl h
      · subst h; exact absurd hy hnd.1
      · exact Or.inr h)
    rw [sumP_cons, sumP_append, sumP_cons]
    rw [sumP_append] at this
    omega


theorem find_of_mem_nodup (l : List Support) (hnd : (l.map (·.chain)).Nodup) (sup : Support) (hm : sup ∈ l) :
    l.find? (fun x => x.chain == sup.chain) = some sup := by
  induction l with
  | nil => simp at hm
  | cons a as ih =>
    simp only [List.map_cons, List.nodup_cons] at hnd
    rcases List.mem_cons.1 hm with rfl | hm
    · simp
    · have hne : a.chain ≠ sup.chain := by
        intro heq
        exact hnd.1 (heq ▸ List.mem_map.2 ⟨sup, hm, rfl⟩)
      rw [List.find?_cons]
      have : (a.chain == sup.chain) = false := by simpa using hne
      simp only [this]
      exact ih hnd.2 hm

theorem upsert_mem_iff (l : List Support) (hnd : (l.map (·.chain)).Nodup) (s s' : Support) :
    s' ∈ upsertSupport l s ↔ s' = s ∨ (s' ∈ l ∧ s'.chain ≠ s.chain) := by
  induction l with
  | nil => simp [upsertSupport]
  | cons a as ih =>
    simp only [List.map_cons, List.nodup_cons] at hnd
    unfold upsertSupport
    split
    · rename_i h
      have ha : a.chain = s.chain := by simpa using h
      simp only [List.mem_cons]
      constructor
      · rintro (h | h)
        · exact Or.inl h
        · right
          refine ⟨Or.inr h, ?_⟩
          intro heq
          exact hnd.1 (by rw [ha, ← heq]; exact List.mem_map.2 ⟨s', h, rfl⟩)
      · rintro (h | ⟨h | h, hne⟩)
        · exact Or.inl h
        · subst h; exact absurd ha hne
        · exact Or.inr h
    · rename_i h
      have ha : a.chain ≠ s.chain := by simpa using h
      simp only [List.mem_cons, ih hnd.2]
      constructor
      · rintro (h | h | ⟨h, hne⟩)
        · subst h; exact Or.inr ⟨Or.inl rfl, ha⟩
        · exact Or.inl h
        · exact Or.inr ⟨Or.inr h, hne⟩
      · rintro (h | ⟨h | h, hne⟩)
        · exact Or.inr (Or.inl h)
        · exact Or.inl h
        · exact Or.inr (Or.inr ⟨h, hne⟩)

theorem upsert_chains_nodup (l : List Support) (hnd : (l.map (·.chain)).Nodup) (s : Support) :
    ((upsertSupport l s).map (·.chain)).Nodup := by
  induction l with
  | nil => simp [upsertSupport]
  | cons a as ih =>
    simp only [List.map_cons, List.nodup_cons] at hnd
    unfold upsertSupport
    split
    · rename_i h
      have ha : a.chain = s.chain := by simpa using h
      simp only [List.map_cons, List.nodup_cons]
      exact ⟨ha ▸ hnd.1, hnd.2⟩
    · rename_i h
      have ha : a.chain ≠ s.chain := by simpa using h
      simp only [List.map_cons, List.nodup_cons]
      refine ⟨?_, ih hnd.2⟩
      intro hm
      obtain ⟨x, hx, hxc⟩ := List.mem_map.1 hm
      rcases (upsert_mem_iff as hnd.2 s x).1 hx with rfl | ⟨hx', _⟩
      · exact ha hxc.symm
      · exact hnd.1 (hxc ▸ List.mem_map.2 ⟨x, hx', rfl⟩)

/-- well-formedness of a single-vote tally: stored signers are distinct senders with positive power -/
structure TallyWF (V : Pid → Chain → Prop) (t : Table) (q : Tally) : Prop where
  nodup : ∀ sup ∈ q.support, sup.signers.Nodup
  sub : ∀ sup ∈ q.support, ∀ x ∈ sup.signers, x ∈ q.senders
  pos : ∀ x ∈ q.senders, 0 < t.power x
  /-- provenance: a stored signature of `x` under chain `c` comes from a delivered vote of `x` for `c` -/
  voted : ∀ sup ∈ q.support, ∀ x ∈ sup.signers, V x sup.chain
  /-- power accounting -/
  sendersNodup : q.senders.Nodup
  sendersPow : q.sendersPower = sumP t q.senders
  supPow : ∀ sup ∈ q.support, sup.power = sumP t sup.signers
  /-- every sender is filed under exactly one chain -/
  covered : ∀ x ∈ q.senders, ∃ sup ∈ q.support, x ∈ sup.signers
  chains : (q.support.map (·.chain)).Nodup
  strongOk : ∀ sup ∈ q.support, sup.strong = strongQ t sup.power


theorem TallyWF_empty (V : Pid → Chain → Prop) (t : Table) : TallyWF V t {} :=
  ⟨by simp, by simp, by simp, by simp, by simp, rfl, by simp, by simp, by simp, by simp⟩

theorem upsertSupport_mem (l : List Support) (s s' : Support) (h : s' ∈ upsertSupport l s) : s' = s ∨ s' ∈ l := by
  induction l with
  | nil => simp [upsertSupport] at h; exact Or.inl h
  | cons a as ih =>
    unfold upsertSupport at h
    split at h
    · rcases List.mem_cons.1 h with h | h
      · exact Or.inl h
      · exact Or.inr (List.mem_cons_of_mem _ h)
    · rcases List.mem_cons.1 h with h | h
      · exact Or.inr (h ▸ List.mem_cons_self)
      · rcases ih h with h | h
        · exact Or.inl h
        · exact Or.inr (List.mem_cons_of_mem _ h)

theorem findSupport_mem (q : Tally) (c : Chain) (s : Support) (h : q.findSupport c = some s) : s ∈ q.support :=
  List.mem_of_find?_eq_some h

theorem findSupport_chain (q : Tally) (c : Chain) (s : Support) (h : q.findSupport c = some s) : s.chain = c := by
  have := List.find?_some h
  simpa using this

theorem cand_signers {V : Pid → Chain → Prop} (t : Table) (q : Tally) (c : Chain) (hwf : TallyWF V t q) :
    ((q.findSupport c).getD { chain := c, power := 0, signers := [], strong := false }).signers.Nodup ∧
    (∀ x ∈ ((q.findSupport c).getD { chain := c, power := 0, signers := [], strong := false }).signers, x ∈ q.senders) ∧
    (∀ x ∈ ((q.findSupport c).getD { chain := c, power := 0, signers := [], strong := false }).signers, V x c) ∧
    ((q.findSupport c).getD { chain := c, power := 0, signers := [], strong := false }).power =
      sumP t ((q.findSupport c).getD { chain := c, power := 0, signers := [], strong := false }).signers := by
  cases hf : q.findSupport c with
  | none => simp [sumP]
  | some sup =>
    simp only [Option.getD_some]
    refine ⟨hwf.nodup sup (findSupport_mem q c sup hf), hwf.sub sup (findSupport_mem q c sup hf), fun x hx => ?_,
      hwf.supPow sup (findSupport_mem q c sup hf)⟩
    have := hwf.voted sup (findSupport_mem q c sup hf) x hx
    rwa [findSupport_chain q c sup hf] at this

theorem receive_wf {V : Pid → Chain → Prop} (t : Table) (q q' : Tally) (sender : Pid) (c : Chain) (hwf : TallyWF V t q)
    (hpos : 0 < t.power sender) (hv : V sender c) (h : q.receive t sender c = some q') : TallyWF V t q' := by
  unfold Tally.receive at h
  split at h
  · cases h; exact hwf
  · rename_i hns
    have hns' : sender ∉ q.senders := by simpa using hns
    unfold Tally.receiveInner at h
    dsimp only at h
    split at h
    · cases h
    · cases h
      -- the candidate's signers before the update
      have hc := cand_signers t q c hwf
      have hcand : ∀ x ∈ ((q.findSupport c).getD { chain := c, power := 0, signers := [], strong := false }).signers,
          x ∈ q.senders ∧ True := fun x hx => ⟨hc.2.1 x hx, trivial⟩
      have hcandnd := hc.1
      -- membership in the updated support list
      have hmem := fun s' => upsert_mem_iff q.support hwf.chains
        { chain := c, power := ((q.findSupport c).getD { chain := c, power := 0, signers := [], strong := false }).power + t.power sender,
          signers := ((q.findSupport c).getD { chain := c, power := 0, signers := [], strong := false }).signers ++ [sender],
          strong := strongQ t (((q.findSupport c).getD { chain := c, power := 0, signers := [], strong := false }).power + t.power sender) } s'
      refine ⟨?_, ?_, ?_, ?_, ?_, ?_, ?_, ?_, ?_, ?_⟩
      · intro sup hsup
        rcases upsertSupport_mem _ _ _ hsup with rfl | hsup
        · simp only [if_true]
          rw [List.nodup_append]
          refine ⟨hcandnd, by simp, ?_⟩
          intro a ha b hb
          simp at hb; subst hb
          intro heq; subst heq
          exact hns' (hcand _ ha).1
        · exact hwf.nodup sup hsup
      · intro sup hsup x hx
        rcases upsertSupport_mem _ _ _ hsup with rfl | hsup
        · simp only [if_true, List.mem_append, List.mem_singleton] at hx
          rcases hx with hx | rfl
          · exact List.mem_append_left _ (hcand x hx).1
          · simp
        · exact List.mem_append_left _ (hwf.sub sup hsup x hx)
      · intro x hx
        simp only [List.mem_append, List.mem_singleton] at hx
        rcases hx with hx | rfl
        · exact hwf.pos x hx
        · exact hpos
      · intro sup hsup x hx
        rcases upsertSupport_mem _ _ _ hsup with rfl | hsup
        · simp only [if_true, List.mem_append, List.mem_singleton] at hx
          rcases hx with hx | rfl
          · exact hc.2.2.1 x hx
          · exact hv
        · exact hwf.voted sup hsup x hx
      · -- senders nodup
        rw [List.nodup_append]
        exact ⟨hwf.sendersNodup, by simp, fun a ha b hb => by simp at hb; subst hb; intro heq; subst heq; exact hns' ha⟩
      · -- senders power
        show q.sendersPower + t.power sender = sumP t (q.senders ++ [sender])
        rw [sumP_append, sumP_single, hwf.sendersPow]
      · -- support power
        intro sup hsup
        rcases upsertSupport_mem _ _ _ hsup with rfl | hsup
        · simp only [if_true]
          rw [sumP_append, sumP_single]
          exact congrArg (· + t.power sender) hc.2.2.2
        · exact hwf.supPow sup hsup
      · -- covered
        intro x hx
        simp only [List.mem_append, List.mem_singleton] at hx
        rcases hx with hx | rfl
        · obtain ⟨sup, hsup, hxs⟩ := hwf.covered x hx
          by_cases hch : sup.chain = c
          · -- `sup` is the entry being replaced
            have hfs : q.findSupport c = some sup := by
              have := find_of_mem_nodup q.support hwf.chains sup hsup
              rw [hch] at this; exact this
            refine ⟨_, (hmem _).2 (Or.inl rfl), ?_⟩
            simp only [if_true, hfs, Option.getD_some, List.mem_append]
            exact Or.inl hxs
          · exact ⟨sup, (hmem sup).2 (Or.inr ⟨hsup, hch⟩), hxs⟩
        · refine ⟨_, (hmem _).2 (Or.inl rfl), ?_⟩
          simp
      · exact upsert_chains_nodup q.support hwf.chains _
      · intro sup hsup
        rcases upsertSupport_mem _ _ _ hsup with rfl | hsup
        · rfl
        · exact hwf.strongOk sup hsup

/-- what C03 asks of a reported decision's justification -/
structure DecisionOK (V : Pid → Chain → Prop) (t : Table) (d : Just) : Prop where
  round : d.round = 0
  phase : d.phase = .decide
  increasing : d.signers.Pairwise (· < ·)
  members : ∀ i ∈ d.signers, i < t.entries.length ∧ 0 < t.powerAt i
  strong : strongQ t (sumPow t d.signers) = true
  /-- every listed signer is a committee member from whom a DECIDE vote for exactly the decided value
  was delivered: the aggregate is over exactly the decided value -/
  signed : ∀ i ∈ d.signers, ∃ x, t.index? x = some i ∧ V x d.value

theorem findStrongQuorumFor_spec {V : Pid → Chain → Prop} (t : Table) (q : Tally) (c : Chain) (sg : List Nat) (hwf : TallyWF V t q)
    (h : q.findStrongQuorumFor t c = .found sg) :
    sg.Pairwise (· < ·) ∧ (∀ i ∈ sg, i < t.entries.length ∧ 0 < t.powerAt i) ∧ strongQ t (sumPow t sg) = true ∧
    (∀ i ∈ sg, ∃ x, t.index? x = some i ∧ V x c) := by
  unfold Tally.findStrongQuorumFor at h
  split at h
  · cases h
  · rename_i sup hsup
    split at h
    · cases h
    · split at h
      · cases h
      · rename_i idxs hidx
        split at h
        · rename_i sg' htake
          cases h
          obtain ⟨k, _, _, hsg, hst⟩ := takeUntilStrong_spec t _ 0 [] sg htake
          simp only [List.nil_append] at hsg
          obtain ⟨hlen, hget⟩ := mapM_spec _ _ _ hidx
          have hsupm := findSupport_mem q c sup hsup
          -- every index belongs to a distinct signer
          have hidx_of : ∀ i ∈ idxs, ∃ x ∈ sup.signers, t.index? x = some i := by
            intro i hi
            obtain ⟨n, hn, rfl⟩ := List.getElem_of_mem hi
            exact ⟨sup.signers[n]'(by omega), List.getElem_mem _, hget n (by omega) hn⟩
          have hnd : idxs.Nodup := by
            unfold List.Nodup
            rw [List.pairwise_iff_getElem]
            intro a b ha hb hab heq
            have h1 := hget a (by omega) ha
            have h2 := hget b (by omega) hb
            rw [heq] at h1
            obtain ⟨_, e1, _⟩ := index_spec t _ _ h1
            obtain ⟨_, e2, _⟩ := index_spec t _ _ h2
            have hsn := hwf.nodup sup hsupm
            unfold List.Nodup at hsn
            rw [List.pairwise_iff_getElem] at hsn
            exact hsn a b (by omega) (by omega) hab (by rw [← e1, ← e2])
          refine ⟨?_, ?_, ?_, ?_⟩
          · rw [hsg]
            exact pairwise_take _ k (sorted_nodup_lt _ (sortNat_sorted idxs) (sortNat_nodup idxs hnd))
          · intro i hi
            rw [hsg] at hi
            have hi' : i ∈ idxs := (sortNat_mem idxs i).1 (List.mem_of_mem_take hi)
            obtain ⟨x, hx, hix⟩ := hidx_of i hi'
            obtain ⟨hlt, _, hpw⟩ := index_spec t x i hix
            exact ⟨hlt, by rw [hpw]; exact hwf.pos x (hwf.sub sup hsupm x hx)⟩
          · rw [hsg]; simpa using hst
          · intro i hi
            rw [hsg] at hi
            have hi' : i ∈ idxs := (sortNat_mem idxs i).1 (List.mem_of_mem_take hi)
            obtain ⟨x, hx, hix⟩ := hidx_of i hi'
            refine ⟨x, hix, ?_⟩
            have := hwf.voted sup hsupm x hx
            rwa [findSupport_chain q c sup hsup] at this
        · cases h


/-- the decision-side invariant: the DECIDE tally is well formed and a stored termination value is a
well-formed decision -/
def DecInv (V : Pid → Chain → Prop) (s : State) : Prop :=
  TallyWF V s.tbl s.decision ∧ ∀ d, s.termination = some d → DecisionOK V s.tbl d

variable {V : Pid → Chain → Prop}

theorem DecInv_frame {s s' : State} (h : FrameD s s') (hi : DecInv V s) : DecInv V s' := by
  unfold DecInv
  rw [h.tbl, h.decision, h.termination]; exact hi

theorem DecInv_of_eq {s s' : State} (ht : s'.tbl = s.tbl) (hd : s'.decision = s.decision)
    (hte : s'.termination = s.termination) (hi : DecInv V s) : DecInv V s' := by
  unfold DecInv
  rw [ht, hd, hte]; exact hi

theorem tryDecide_decinv (s : State) (now : Int) (hi : DecInv V s) : DecInv V (s.tryDecide now).1 := by
  unfold State.tryDecide
  split
  · exact hi
  · rename_i v hv
    split
    · rename_i sg hsg
      obtain ⟨h1, h2, h3, h4⟩ := findStrongQuorumFor_spec s.tbl s.decision v sg hi.1 hsg
      unfold State.terminate State.resetReb
      refine ⟨hi.1, ?_⟩
      intro d hd
      simp at hd
      subst hd
      exact ⟨rfl, rfl, h1, h2, h3, h4⟩
    · exact hi
    · exact hi
  · exact DecInv_frame (tryRebroadcast_frame s now) hi

theorem tryCurrentPhase_decinv (s : State) (now : Int) (hi : DecInv V s) : DecInv V (s.tryCurrentPhase now).1 := by
  unfold State.tryCurrentPhase
  split
  · exact DecInv_frame (tryQuality_frame s now) hi
  · exact DecInv_frame (tryConverge_frame s now) hi
  · exact DecInv_frame (tryPrepare_frame s now) hi
  · exact DecInv_frame (tryCommit_frame s now _) hi
  · exact tryDecide_decinv s now hi
  · exact hi
  · exact hi

theorem andThen_decinv {r : R} {f : State → R} (h1 : DecInv V r.1) (h2 : ∀ st, DecInv V st → DecInv V (f st).1) :
    DecInv V (andThen r f).1 := by
  unfold andThen; split
  · exact h1
  · exact h2 _ h1

theorem recvQuality_decinv (s : State) (now : Int) (m : Msg) (hi : DecInv V s) : DecInv V (s.recvQuality now m).1 := by
  unfold State.recvQuality State.updateCandidatesFromQuality
  dsimp only
  split
  · exact DecInv_frame (addCandidatePrefixes_frame _ _) (DecInv_of_eq rfl rfl rfl hi)
  · exact tryCurrentPhase_decinv _ now (DecInv_of_eq rfl rfl rfl hi)

theorem recvConverge_decinv (s : State) (now : Int) (m : Msg) (j) (hi : DecInv V s) : DecInv V (s.recvConverge now m j).1 := by
  unfold State.recvConverge
  exact tryCurrentPhase_decinv _ now (DecInv_of_eq rfl rfl rfl hi)

theorem recvPrepare_decinv (s : State) (now : Int) (m : Msg) (hi : DecInv V s) : DecInv V (s.recvPrepare now m).1 := by
  unfold State.recvPrepare
  dsimp only
  split
  · exact hi
  · exact tryCurrentPhase_decinv _ now (DecInv_of_eq rfl rfl rfl hi)

theorem recvCommit_decinv (s : State) (now : Int) (m : Msg) (hi : DecInv V s) : DecInv V (s.recvCommit now m).1 := by
  unfold State.recvCommit
  dsimp only
  split
  · exact hi
  · split
    · exact hi
    · split
      · split
        · exact andThen_decinv (DecInv_frame (tryCommit_frame _ now _) (DecInv_of_eq rfl rfl rfl hi))
            (fun st h => tryCurrentPhase_decinv st now h)
        · exact DecInv_frame (tryCommit_frame _ now _) (DecInv_of_eq rfl rfl rfl hi)
      · exact tryCurrentPhase_decinv _ now (DecInv_of_eq rfl rfl rfl hi)

theorem recvDecide_decinv (s : State) (now : Int) (m : Msg) (hi : DecInv V s) (hpos : 0 < s.tbl.power m.sender)
    (hv : V m.sender m.value) :
    DecInv V (s.recvDecide now m).1 := by
  unfold State.recvDecide
  dsimp only
  split
  · exact hi
  · rename_i q hq
    have hi1 : DecInv V ({ s with decision := q } : State) := ⟨receive_wf s.tbl s.decision q _ _ hi.1 hpos hv hq, hi.2⟩
    split
    · exact andThen_decinv (DecInv_frame (skipToDecide_frame _ _ _) hi1) (fun st h => tryCurrentPhase_decinv st now h)
    · exact tryCurrentPhase_decinv _ now hi1

/-- a delivered message is a validated one: its sender has positive scaled power, and DECIDE is for round 0 -/
def OpValid (V : Pid → Chain → Prop) (t : Table) : Op → Prop
  | .recv _ m => MsgOk m ∧ 0 < t.power m.sender ∧ (m.phase = .decide → V m.sender m.value)
  | _ => True

theorem step_decinv (s : State) (op : Op) (hi : DecInv V s) (hop : OpValid V s.tbl op) : DecInv V (step s op).1 := by
  cases op with
  | start now => exact DecInv_frame (beginQuality_frame s now) hi
  | alarm now => exact tryCurrentPhase_decinv s now hi
  | recv now m =>
    unfold step
    dsimp only
    split
    · exact hi
    · have h1 : DecInv V (s.receiveOne now m).1.1 := by
        unfold State.receiveOne
        split
        · exact hi
        · exact hi
        · split
          · exact recvQuality_decinv s now m hi
          · split
            · exact hi
            · split
              · exact hi
              · exact recvConverge_decinv s now m _ hi
          · exact recvPrepare_decinv s now m hi
          · exact recvCommit_decinv s now m hi
          · rename_i hph; exact recvDecide_decinv s now m hi hop.2.1 (hop.2.2 hph)
          · exact hi
      generalize s.receiveOne now m = ro at *
      obtain ⟨r, changed⟩ := ro
      dsimp only at *
      split
      · exact h1
      · split
        · exact andThen_decinv h1 (fun st h => DecInv_frame (postReceive_frame st now m.round) h)
        · exact h1

theorem step_tbl (s : State) (op : Op) : (step s op).1.tbl = s.tbl := by
  cases op with
  | start now => simp [step]
  | alarm now =>
    simp only [step]
    unfold State.tryCurrentPhase
    split <;> try simp
    · unfold State.tryDecide State.terminate State.resetReb
      repeat' split
      all_goals simp
  | recv now m =>
    -- every handler keeps the table; reuse the invariant machinery through a direct computation
    unfold step
    dsimp only
    split
    · rfl
    · have key : ∀ st : State, (st.tryCurrentPhase now).1.tbl = st.tbl := by
        intro st
        unfold State.tryCurrentPhase
        split <;> try simp
        · unfold State.tryDecide State.terminate State.resetReb
          repeat' split
          all_goals simp
      have h1 : (s.receiveOne now m).1.1.tbl = s.tbl := by
        unfold State.receiveOne
        split
        · rfl
        · rfl
        · split
          · unfold State.recvQuality State.updateCandidatesFromQuality
            dsimp only
            split
            · simp
            · rw [key]
          · split
            · rfl
            · split
              · rfl
              · unfold State.recvConverge; rw [key]; rfl
          · unfold State.recvPrepare
            dsimp only
            split
            · rfl
            · rw [key]; rfl
          · unfold State.recvCommit
            dsimp only
            split
            · rfl
            · split
              · rfl
              · split
                · split
                  · unfold andThen; split
                    · simp; rfl
                    · rw [key]; simp; rfl
                  · simp; rfl
                · rw [key]; rfl
          · unfold State.recvDecide
            dsimp only
            split
            · rfl
            · split
              · unfold andThen; split
                · simp
                · rw [key]; simp
              · rw [key]
          · rfl
      generalize s.receiveOne now m = ro at *
      obtain ⟨r, changed⟩ := ro
      dsimp only at *
      split
      · exact h1
      · split
        · unfold andThen; split
          · exact h1
          · simp; exact h1
        · exact h1

theorem runFrom_tbl (s : State) (ops : List Op) : (runFrom s ops).1.tbl = s.tbl := by
  induction ops generalizing s with
  | nil => rfl
  | cons op ops ih => rw [runFrom_cons]; simp only; rw [ih, step_tbl]

theorem runFrom_decinv (s : State) (ops : List Op) (hi : DecInv V s) (hops : ∀ op ∈ ops, OpValid V s.tbl op) :
    DecInv V (runFrom s ops).1 := by
  induction ops generalizing s with
  | nil => exact hi
  | cons op ops ih =>
    rw [runFrom_cons]
    simp only
    apply ih _ (step_decinv s op hi (hops op (by simp)))
    intro o ho
    rw [step_tbl]
    exact hops o (by simp [ho])

theorem DecInv_init (cfg : Cfg) (tbl : Table) (input : Chain) : DecInv V (init cfg tbl input) :=
  ⟨TallyWF_empty V tbl, fun d hd => by simp [init] at hd⟩

end F3.Instance
