import F3.Proofs.CodecCbor
import F3.Proofs.CodecAllocLen
/-! Allocation bound of the cbor-gen decoder model (C14c): requests are backed by consumed input or
bounded by a limit that was checked before the allocation. -/
namespace F3.Cbor
open F3.Codec

theorem mul_mono {K r b : Nat} (h : r ≤ b) : K * r ≤ K * b := Nat.mul_le_mul_left K h

theorem leaf_helper {K n r b : Nat} (hK : 1 ≤ K) (h : n + r + 1 ≤ b) : n + K * r ≤ K * b := by
  obtain ⟨e, rfl⟩ := Nat.exists_eq_add_of_le h
  have h1 : K * (n + r + 1 + e) = K * n + K * r + K + K * e := by ring
  have h2 : n ≤ K * n := Nat.le_mul_of_pos_left n hK
  omega

theorem leaf_helper2 {K n r b : Nat} (hK : 2 ≤ K) (h : n + r + 1 ≤ b) : 2 * n + K * r ≤ K * b := by
  obtain ⟨e, rfl⟩ := Nat.exists_eq_add_of_le h
  have h1 : K * (n + r + 1 + e) = K * n + K * r + K + K * e := by ring
  have h2 : 2 * n ≤ K * n := Nat.mul_le_mul_right n hK
  omega

theorem slack_helper {a A K r b : Nat} (h : a + A * r ≤ A * b) (hK : A ≤ K) (hc : r + 1 ≤ b) :
    a + K * r + (K - A) ≤ K * b := by
  obtain ⟨d, rfl⟩ := Nat.exists_eq_add_of_le hK
  obtain ⟨e, rfl⟩ := Nat.exists_eq_add_of_le hc
  have h1 : (A + d) * (r + 1 + e) = A * (r + 1 + e) + d * r + d + d * e := by ring
  have h2 : (A + d) * r = A * r + d * r := by ring
  simp only [Nat.add_sub_cancel_left]
  omega

theorem slack_helper72 {a A K r b c : Nat} (h : a + A * r ≤ A * b) (hK : A + 72 ≤ K) (hc : r + c ≤ b) :
    a + 72 * c + K * r ≤ K * b := by
  obtain ⟨d, rfl⟩ := Nat.exists_eq_add_of_le hK
  obtain ⟨e, rfl⟩ := Nat.exists_eq_add_of_le hc
  have h1 : (A + 72 + d) * (r + c + e) = A * (r + c + e) + 72 * r + 72 * c + 72 * e + d * r + d * c + d * e := by ring
  have h2 : (A + 72 + d) * r = A * r + 72 * r + d * r := by ring
  omega

/-- elements decoded in sequence: each consumes at least one byte -/
theorem decodeN_count (dec : Bytes → Except Err (Value × Bytes))
    (h : ∀ b v r, dec b = .ok (v, r) → r.length + 1 ≤ b.length) :
    ∀ n b vs r, decodeN dec n b = .ok (vs, r) → vs.len + r.length ≤ b.length := by
  intro n
  induction n with
  | zero => intro b vs r hd; simp [decodeN] at hd; obtain ⟨rfl, rfl⟩ := hd; simp [Value.len]
  | succ n ih =>
    intro b vs r hd
    simp only [decodeN] at hd
    cases h1 : dec b with
    | error e => simp [h1] at hd
    | ok p =>
      obtain ⟨v, r1⟩ := p
      simp only [h1] at hd
      cases h2 : decodeN dec n r1 with
      | error e => simp [h2] at hd
      | ok q =>
        obtain ⟨vs', r2⟩ := q
        simp only [h2] at hd
        simp at hd
        obtain ⟨rfl, rfl⟩ := hd
        have := ih r1 vs' r2 h2
        have := h b v r1 h1
        simp only [Value.len]; omega

/-- requests of a successfully decoded run of elements are backed by the bytes it consumed -/
theorem allocN_backed (a : Bytes → Nat) (dec : Bytes → Except Err (Value × Bytes)) (K m : Nat)
    (hstep : ∀ b v r, dec b = .ok (v, r) → a b + K * r.length + m ≤ K * b.length) :
    ∀ n b vs r, decodeN dec n b = .ok (vs, r) → n * m + allocN a dec n b + K * r.length ≤ K * b.length := by
  intro n
  induction n with
  | zero => intro b vs r hd; simp [decodeN] at hd; obtain ⟨_, rfl⟩ := hd; simp [allocN]
  | succ n ih =>
    intro b vs r hd
    simp only [decodeN] at hd
    cases h1 : dec b with
    | error e => simp [h1] at hd
    | ok p =>
      obtain ⟨v, r1⟩ := p
      simp only [h1] at hd
      cases h2 : decodeN dec n r1 with
      | error e => simp [h2] at hd
      | ok q =>
        obtain ⟨vs', r2⟩ := q
        simp only [h2] at hd
        simp at hd
        obtain ⟨_, rfl⟩ := hd
        have i1 := ih r1 vs' r2 h2
        have i2 := hstep b v r1 h1
        simp only [allocN, h1, Nat.succ_mul]
        omega


/-- the schema of a struct -/
def Schema.isTuple : Schema → Bool
  | .tuple _ _ _ => true
  | _ => false

/-- On accepted input every request of the decoder is backed by consumed bytes:
`allocReq ≤ K · (bytes consumed)` for every `K ≥ allocPerByte`. -/
theorem alloc_backed : ∀ (s : Schema), s.wf = true → ∀ (K : Nat), s.allocPerByte ≤ K → ∀ (b : Bytes) (v : Value) (r : Bytes),
    decode s b = .ok (v, r) → allocReq s b + K * r.length ≤ K * b.length := by
  intro s
  induction s with
  | uint max =>
    intro _ K _ b v r h
    simp only [allocReq, Nat.zero_add]; exact mul_mono (decode_len _ b v r h)
  | int64 =>
    intro _ K _ b v r h
    simp only [allocReq, Nat.zero_add]; exact mul_mono (decode_len _ b v r h)
  | bool =>
    intro _ K _ b v r h
    simp only [allocReq, Nat.zero_add]; exact mul_mono (decode_len _ b v r h)
  | fixed a d l =>
    intro _ K _ b v r h
    simp only [allocReq, Nat.zero_add]; exact mul_mono (decode_len _ b v r h)
  | tnil =>
    intro _ K _ b v r h
    simp only [allocReq, Nat.zero_add]; exact mul_mono (decode_len _ b v r h)
  | bytes l =>
    intro _ K hK b v r h
    simp only [Schema.allocPerByte] at hK
    simp only [decode] at h
    simp only [allocReq]
    cases hr : readHdr b with
    | error e => simp [hr] at h
    | ok p =>
      obtain ⟨maj, n, r0⟩ := p
      have h0 := readHdr_len hr
      simp only [hr] at h ⊢
      split at h
      · simp at h
      · split at h
        · simp at h
        · rename_i h1 h2
          obtain ⟨x, _, hl, hx⟩ := readBody_ok h
          rw [hx, List.length_append] at h0
          have : ¬ (n > l.dec ∨ maj ≠ 2) := by omega
          simp only [this, if_false]
          exact leaf_helper (by omega) (by omega)
  | cid =>
    intro _ K hK b v r h
    simp only [Schema.allocPerByte] at hK
    simp only [decode] at h
    simp only [allocReq]
    cases hr : readHdr b with
    | error e => simp [hr] at h
    | ok p =>
      obtain ⟨maj, n, r0⟩ := p
      have h0 := readHdr_len hr
      simp only [hr] at h ⊢
      split at h
      · simp at h
      · split at h
        · simp at h
        · rename_i h1 h2
          have : ¬ (maj ≠ 6 ∨ n ≠ 42) := by omega
          simp only [this, if_false]
          cases hr2 : readHdr r0 with
          | error e => simp [hr2] at h
          | ok p2 =>
            obtain ⟨maj2, n2, r2⟩ := p2
            have h2' := readHdr_len hr2
            simp only [hr2] at h ⊢
            split at h
            · simp at h
            · split at h
              · simp at h
              · rename_i h3 h4
                have : ¬ (maj2 ≠ 2 ∨ n2 > 512) := by omega
                simp only [this, if_false]
                cases ht : takeN n2 r2 with
                | none => simp [ht] at h
                | some q =>
                  obtain ⟨buf, r3⟩ := q
                  simp only [ht] at h
                  have h5 := takeN_len ht
                  split at h
                  · split at h
                    · simp at h; obtain ⟨_, rfl⟩ := h
                      exact leaf_helper2 hK (by omega)
                    · simp at h
                  · simp at h
  | bigint =>
    intro _ K hK b v r h
    simp only [Schema.allocPerByte] at hK
    simp only [decode] at h
    simp only [allocReq]
    cases hr : readHdr b with
    | error e => simp [hr] at h
    | ok p =>
      obtain ⟨maj, n, r0⟩ := p
      have h0 := readHdr_len hr
      simp only [hr] at h ⊢
      split at h
      · simp at h
      · rename_i h1
        split at h
        · rename_i hz
          simp at h; obtain ⟨_, rfl⟩ := h
          have : ¬ (maj ≠ 2 ∨ n > 128) := by omega
          simp only [this, if_false]
          subst hz
          simp only [Nat.mul_zero, Nat.zero_add]
          exact mul_mono (by omega)
        · split at h
          · simp at h
          · rename_i h3
            have : ¬ (maj ≠ 2 ∨ n > 128) := by omega
            simp only [this, if_false]
            cases ht : takeN n r0 with
            | none => simp [ht] at h
            | some q =>
              obtain ⟨buf, r3⟩ := q
              simp only [ht] at h
              have h5 := takeN_len ht
              split at h
              · simp at h; obtain ⟨_, rfl⟩ := h; exact leaf_helper2 hK (by omega)
              · simp at h; obtain ⟨_, rfl⟩ := h; exact leaf_helper2 hK (by omega)
              · simp at h
  | bitfield =>
    intro _ K hK b v r h
    simp only [Schema.allocPerByte] at hK
    simp only [decode] at h
    simp only [allocReq]
    cases hr : readHdr b with
    | error e => simp [hr] at h
    | ok p =>
      obtain ⟨maj, n, r0⟩ := p
      have h0 := readHdr_len hr
      simp only [hr] at h ⊢
      split at h
      · simp at h
      · split at h
        · simp at h
        · rename_i h1 h2
          have : ¬ (n > 32768 ∨ maj ≠ 2) := by omega
          simp only [this, if_false]
          cases ht : takeN n r0 with
          | none => simp [ht] at h
          | some q =>
            obtain ⟨buf, r3⟩ := q
            simp only [ht] at h
            have h5 := takeN_len ht
            split at h
            · simp at h; obtain ⟨_, rfl⟩ := h; exact leaf_helper (by omega) (by omega)
            · simp at h
  | array l e ih =>
    intro hwf K hK b v r h
    simp only [Schema.wf, Bool.and_eq_true] at hwf
    obtain ⟨⟨_, hwe⟩, hshape⟩ := hwf
    simp only [Schema.allocPerByte] at hK
    simp only [decode] at h
    simp only [allocReq]
    cases hr : readHdr b with
    | error e => simp [hr] at h
    | ok p =>
      obtain ⟨maj, n, r0⟩ := p
      have h0 := readHdr_len hr
      simp only [hr] at h ⊢
      split at h
      · simp at h
      · split at h
        · simp at h
        · rename_i h1 h2
          have : ¬ (n > l.dec ∨ maj ≠ 4) := by omega
          simp only [this, if_false]
          have hstep : ∀ b v r, decode e b = .ok (v, r) →
              allocReq e b + K * r.length + e.memSize ≤ K * b.length := by
            intro b' v' r' hd
            have hb := ih hwe e.allocPerByte (Nat.le_refl _) b' v' r' hd
            have hc : r'.length + 1 ≤ b'.length := by
              cases e with
              | tuple a d fs => exact decode_tuple_len hd
              | _ => simp at hshape
            have := slack_helper hb (by omega : e.allocPerByte ≤ K) hc
            omega
          have := allocN_backed (allocReq e) (decode e) K e.memSize hstep n r0 v r h
          have := mul_mono (K := K) (by omega : r0.length ≤ b.length)
          omega
  | tuple a d fs ih =>
    intro hwf K hK b v r h
    simp only [Schema.wf, Bool.and_eq_true] at hwf
    simp only [Schema.allocPerByte] at hK
    simp only [decode] at h
    simp only [allocReq]
    cases hr : readHdr b with
    | error e => simp [hr] at h
    | ok p =>
      obtain ⟨maj, n, r0⟩ := p
      have h0 := readHdr_len hr
      simp only [hr] at h ⊢
      split at h
      · simp at h
      · split at h
        · simp at h
        · rename_i h1 h2
          have : ¬ (maj ≠ 4 ∨ n ≠ d) := by omega
          simp only [this, if_false]
          have := ih hwf.2 K hK r0 v r h
          have := mul_mono (K := K) (by omega : r0.length ≤ b.length)
          omega
  | tcons x y ihx ihy =>
    intro hwf K hK b v r h
    simp only [Schema.wf, Bool.and_eq_true] at hwf
    simp only [Schema.allocPerByte] at hK
    simp only [decode] at h
    simp only [allocReq]
    cases h1 : decode x b with
    | error e => simp [h1] at h
    | ok p =>
      obtain ⟨v1, r1⟩ := p
      simp only [h1] at h ⊢
      cases h2 : decode y r1 with
      | error e => simp [h2] at h
      | ok q =>
        obtain ⟨v2, r2⟩ := q
        simp only [h2] at h
        simp at h; obtain ⟨_, rfl⟩ := h
        have := ihx hwf.1 K (by omega) b v1 r1 h1
        have := ihy hwf.2 K (by omega) r1 v2 r2 h2
        omega
  | nullable s ih =>
    intro hwf K hK b v r h
    simp only [Schema.wf, Bool.and_eq_true] at hwf
    simp only [Schema.allocPerByte] at hK
    cases b with
    | nil => simp [decode] at h
    | cons x r0 =>
      simp only [decode] at h
      simp only [allocReq]
      split at h
      · rename_i hx
        simp at h; obtain ⟨_, rfl⟩ := h
        simp only [hx, if_true, Nat.zero_add]
        exact mul_mono (by simp)
      · rename_i hx
        simp only [hx, if_false]
        have hb := ih hwf.1 s.allocPerByte (Nat.le_refl _) (x :: r0) v r h
        have hc : r.length + 1 ≤ (x :: r0).length := by
          cases s with
          | tuple a d fs => exact decode_tuple_len h
          | _ => simp at hwf
        have := slack_helper hb (by omega : s.allocPerByte ≤ K) hc
        omega
  | nullAsEmpty s ih =>
    intro hwf K hK b v r h
    simp only [Schema.wf, Bool.and_eq_true] at hwf
    simp only [Schema.allocPerByte] at hK
    cases b with
    | nil => simp [decode] at h
    | cons x r0 =>
      simp only [decode] at h
      simp only [allocReq]
      split at h
      · rename_i hx
        simp at h; obtain ⟨_, rfl⟩ := h
        simp only [hx, if_true, Nat.zero_add]
        exact mul_mono (by simp)
      · rename_i hx
        simp only [hx, if_false, h]
        have hb := ih hwf.1 s.allocPerByte (Nat.le_refl _) (x :: r0) v r h
        -- every element and the array head consumed at least one byte
        have hc : r.length + (v.len + 1) ≤ (x :: r0).length := by
          cases s with
          | array l e =>
            simp only [Schema.wf, Bool.and_eq_true] at hwf
            simp only [decode] at h
            cases hr : readHdr (x :: r0) with
            | error e => simp [hr] at h
            | ok p =>
              obtain ⟨maj, n, r1⟩ := p
              have h0 := readHdr_len hr
              simp only [hr] at h
              split at h
              · simp at h
              · split at h
                · simp at h
                · have hel : ∀ b v r, decode e b = .ok (v, r) → r.length + 1 ≤ b.length := by
                    intro b' v' r' hd
                    cases e with
                    | tuple a d fs => exact decode_tuple_len hd
                    | _ => simp at hwf
                  have := decodeN_count (decode e) hel n r1 v r h
                  omega
          | _ => simp at hwf
        have := slack_helper72 hb (by omega : s.allocPerByte + 72 ≤ K) hc
        omega


/-- requests of a run of elements on arbitrary input: consumed bytes back the accepted elements, the
first rejected element costs at most its own static budget -/
theorem allocN_le (a : Bytes → Nat) (dec : Bytes → Except Err (Value × Bytes)) (K S : Nat)
    (hok : ∀ b v r, dec b = .ok (v, r) → a b + K * r.length ≤ K * b.length)
    (hany : ∀ b, a b ≤ K * b.length + S) :
    ∀ n b, allocN a dec n b ≤ K * b.length + S := by
  intro n
  induction n with
  | zero => intro b; simp [allocN]
  | succ n ih =>
    intro b
    simp only [allocN]
    cases h1 : dec b with
    | error e => simpa using hany b
    | ok p =>
      obtain ⟨v, r1⟩ := p
      have := hok b v r1 h1
      have := ih r1
      simp only
      omega

theorem Value.len_le_of_within {l : Lim} {e : Schema} {v : Value} (h : Value.within (.array l e) v = true) :
    v.len ≤ l.dec := by
  simp only [Value.within, Bool.and_eq_true, decide_eq_true_eq] at h
  exact h.1

/-- **Allocation bound of the model decoder.** On *any* input — accepted, truncated, oversized,
garbage — the decoder requests at most `allocPerByte · |input| + staticPrealloc` bytes: what it
allocates is either backed by input it has consumed or is one of the finitely many buffers whose size
was checked against the documented limit before `make`. -/
theorem allocReq_le : ∀ (s : Schema), s.wf = true → ∀ (K : Nat), s.allocPerByte ≤ K → ∀ (b : Bytes),
    allocReq s b ≤ K * b.length + s.staticPrealloc := by
  intro s
  induction s with
  | uint max => intro _ K _ b; simp [allocReq]
  | int64 => intro _ K _ b; simp [allocReq]
  | bool => intro _ K _ b; simp [allocReq]
  | fixed a d l => intro _ K _ b; simp [allocReq]
  | tnil => intro _ K _ b; simp [allocReq]
  | bytes l =>
    intro hwf K _ b
    simp only [Schema.wf, Lim.ok_iff] at hwf
    simp only [allocReq, Schema.staticPrealloc]
    cases hr : readHdr b with
    | error e => simp
    | ok p =>
      obtain ⟨maj, n, r0⟩ := p
      simp only
      split
      · omega
      · omega
  | cid =>
    intro _ K _ b
    simp only [allocReq, Schema.staticPrealloc]
    cases hr : readHdr b with
    | error e => simp
    | ok p =>
      obtain ⟨maj, n, r0⟩ := p
      simp only
      split
      · omega
      · cases hr2 : readHdr r0 with
        | error e => simp
        | ok p2 =>
          obtain ⟨maj2, n2, r2⟩ := p2
          simp only
          split <;> omega
  | bigint =>
    intro _ K _ b
    simp only [allocReq, Schema.staticPrealloc]
    cases hr : readHdr b with
    | error e => simp
    | ok p =>
      obtain ⟨maj, n, r0⟩ := p
      simp only
      split <;> omega
  | bitfield =>
    intro _ K _ b
    simp only [allocReq, Schema.staticPrealloc]
    cases hr : readHdr b with
    | error e => simp
    | ok p =>
      obtain ⟨maj, n, r0⟩ := p
      simp only
      split <;> omega
  | array l e ih =>
    intro hwf K hK b
    have hwf0 := hwf
    simp only [Schema.wf, Bool.and_eq_true, Lim.ok_iff] at hwf
    obtain ⟨⟨⟨htag, hed, _⟩, hwe⟩, hshape⟩ := hwf
    simp only [Schema.allocPerByte] at hK
    simp only [allocReq, Schema.staticPrealloc]
    cases hr : readHdr b with
    | error e => simp
    | ok p =>
      obtain ⟨maj, n, r0⟩ := p
      have h0 := readHdr_len hr
      simp only
      split
      · omega
      · rename_i hc
        have hn : n ≤ l.tag := by omega
        have h1 : n * e.memSize ≤ l.tag * e.memSize := Nat.mul_le_mul_right _ hn
        have h2 := allocN_le (allocReq e) (decode e) K e.staticPrealloc
          (fun b' v' r' hd => alloc_backed e hwe K (by omega) b' v' r' hd)
          (fun b' => ih hwe K (by omega) b') n r0
        have := mul_mono (K := K) (by omega : r0.length ≤ b.length)
        omega
  | tuple a d fs ih =>
    intro hwf K hK b
    simp only [Schema.wf, Bool.and_eq_true] at hwf
    simp only [Schema.allocPerByte] at hK
    simp only [allocReq, Schema.staticPrealloc]
    cases hr : readHdr b with
    | error e => simp
    | ok p =>
      obtain ⟨maj, n, r0⟩ := p
      have h0 := readHdr_len hr
      simp only
      split
      · omega
      · have := ih hwf.2 K hK r0
        have := mul_mono (K := K) (by omega : r0.length ≤ b.length)
        omega
  | tcons x y ihx ihy =>
    intro hwf K hK b
    simp only [Schema.wf, Bool.and_eq_true] at hwf
    simp only [Schema.allocPerByte] at hK
    simp only [allocReq, Schema.staticPrealloc]
    cases h1 : decode x b with
    | error e =>
      have := ihx hwf.1 K (by omega) b
      simp only; omega
    | ok p =>
      obtain ⟨v1, r1⟩ := p
      have := alloc_backed x hwf.1 K (by omega) b v1 r1 h1
      have := ihy hwf.2 K (by omega) r1
      simp only; omega
  | nullable s ih =>
    intro hwf K hK b
    simp only [Schema.wf, Bool.and_eq_true] at hwf
    simp only [Schema.allocPerByte] at hK
    simp only [Schema.staticPrealloc]
    cases b with
    | nil => simp [allocReq]
    | cons x r0 =>
      simp only [allocReq]
      split
      · omega
      · have := ih hwf.1 K (by omega) (x :: r0)
        omega
  | nullAsEmpty s ih =>
    intro hwf K hK b
    simp only [Schema.wf, Bool.and_eq_true] at hwf
    simp only [Schema.allocPerByte] at hK
    cases b with
    | nil => simp [allocReq]
    | cons x r0 =>
      simp only [allocReq]
      split
      · omega
      · have hi := ih hwf.1 K (by omega) (x :: r0)
        cases s with
        | array l e =>
          simp only [Schema.staticPrealloc] at hi ⊢
          have hwf1 := hwf.1
          simp only [Schema.wf, Bool.and_eq_true, Lim.ok_iff] at hwf1
          cases hd : decode (.array l e) (x :: r0) with
          | error e => simp only; omega
          | ok p =>
            obtain ⟨v, r⟩ := p
            have hw := decode_ok_within _ hwf.1 _ _ _ hd
            have := Value.len_le_of_within hw
            simp only
            omega
        | _ => simp at hwf

end F3.Cbor
