import F3.Model.CodecBytes
import Mathlib.Logic.Equiv.List
/-! A witness used by the non-vacuity examples of C14: in the model (byte strings are `List Nat`) an
injective "hash" with 32-element, non-zero output exists, so the hypotheses `HashOK` / `CidHashOK`
are satisfiable. -/
namespace F3.Codec

def demoHash (x : Bytes) : Bytes := (Encodable.encode x + 1) :: List.replicate 31 0

end F3.Codec
