import F3.Model.CodecBytes
import F3.Model.Payload
import Mathlib.Logic.Equiv.List
/-! Witnesses used by the non-vacuity examples of C14.

`demoHash`: in the model (byte strings are `List Nat`, which has non-byte elements) an injective
"hash" with 32-element, non-zero output exists, so the hypotheses `HashOK` / `CidHashOK` of the
*idealised-hash corollaries* are satisfiable. No real hash satisfies them.

`toyHash`: a deliberately weak 32-byte hash (sum of the input mod 251, plus one, in the last byte) that
the kernel evaluates quickly and whose collisions are known (any permutation of the input). Used to
*evaluate* the collision-extraction theorems on concrete inputs: both on inputs whose keys differ and
on inputs where a collision really is exhibited. (The executable keccak-256 of `F3.Model.CodecHash`
needs about 100 s of kernel reduction per call, so it is instantiated but not evaluated in examples.) -/
namespace F3.Codec

def demoHash (x : Bytes) : Bytes := (Encodable.encode x + 1) :: List.replicate 31 0

/-- 31 zero bytes followed by `(Σ input) % 251 + 1`: 32 bytes, never the zero digest, many collisions. -/
def toyHash (x : Bytes) : Bytes := List.replicate 31 0 ++ [x.foldl (· + ·) 0 % 251 + 1]

/-! concrete tipsets for the evaluated examples: `tsA'` permutes the tipset key of `tsA`, `tsA''` permutes
its power-table CID (both collide with `tsA` under `toyHash`); `tsB'` changes the key of `tsB` by value -/
namespace Demo
open F3.Payload
def tsA : TipSet := ⟨10, [1, 2, 3], [1, 113, 0, 0], List.replicate 32 9⟩
def tsA' : TipSet := ⟨10, [3, 2, 1], [1, 113, 0, 0], List.replicate 32 9⟩
def tsA'' : TipSet := ⟨10, [1, 2, 3], [113, 1, 0, 0], List.replicate 32 9⟩
def tsB : TipSet := ⟨11, [4, 5], [1, 113, 0, 0], List.replicate 32 7⟩
def tsB' : TipSet := ⟨11, [4, 6], [1, 113, 0, 0], List.replicate 32 7⟩
end Demo

end F3.Codec
