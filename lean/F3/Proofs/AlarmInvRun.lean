import F3.Proofs.AlarmInvStep
/-!
# `alarm_pending_inv` and `no_stuck_phase` at run level
-/
namespace F3.Liveness
open F3.Instance

/-- one call of a host run keeps the timer armed: the call is a refusal at the door (state untouched) or reports no
failure -/
theorem hostStep_armed {h : Host} {op : Op} (ha : Armed h.st h.timer h.clock) (hok : hostOpOk h op = true)
    (hs : refusedOp h.st op = true ∨ hasFailure (step h.st op).2 = false) :
    Armed (hostStep h op).st (hostStep h op).timer (hostStep h op).clock := by
  unfold hostOpOk at hok
  rw [Bool.and_eq_true, decide_eq_true_eq] at hok
  obtain ⟨hclk, hal⟩ := hok
  by_cases hr : refusedOp h.st op = true
  · obtain ⟨k, hk, _⟩ := step_refusedOp hr
    cases op with
    | recv now m =>
      simp only [hostStep, hk, timerBefore, lastAlarm_cons, alarmUpd, lastAlarm_nil]
      exact ha.same (SameT.refl _) hclk
    | start _ => cases hr
    | alarm _ => cases hr
  · have hnf : hasFailure (step h.st op).2 = false := hs.resolve_left hr
    cases op with
    | alarm now =>
      cases htm : h.timer with
      | none => rw [htm] at hal; cases hal
      | some t =>
        rw [htm] at hal ha
        have ht : t ≤ now := by simpa using hal
        rcases step_alarmOK h.st now with hf | hgood
        · rw [hnf] at hf; cases hf
        · exact hgood t h.clock hclk ht ha
    | start now =>
      rcases step_recvOK h.st (.start now) (fun _ hh => by cases hh) with hf | hgood
      · rw [hnf] at hf; cases hf
      · exact hgood h.timer h.clock hclk ha
    | recv now m =>
      rcases step_recvOK h.st (.recv now m) (fun _ hh => by cases hh) with hf | hgood
      · rw [hnf] at hf; cases hf
      · exact hgood h.timer h.clock hclk ha

theorem hostRun_armed (h : Host) (ops : List Op) (ha : Armed h.st h.timer h.clock) (hok : hostOk h ops = true)
    (hrun : okRunI h.st ops = true) :
    Armed (hostRun h ops).st (hostRun h ops).timer (hostRun h ops).clock := by
  induction ops generalizing h with
  | nil => exact ha
  | cons op ops ih =>
    simp only [hostOk, Bool.and_eq_true] at hok
    simp only [okRunI, Bool.and_eq_true, Bool.or_eq_true, Bool.not_eq_true'] at hrun
    rw [hostRun_cons]
    exact ih _ (hostStep_armed ha hok.1 hrun.1) hok.2 hrun.2

/-- the host of a freshly created instance: nothing armed -/
def initHost (cfg : Cfg) (t : Table) (input : Chain) (now0 : Int) : Host :=
  { st := init cfg t input, timer := none, clock := now0 }

/-- **The host's timer is armed in every reachable state of QUALITY / CONVERGE / PREPARE / COMMIT of a round up to
`rebroadcastImmediatelyAfterRound`.** `ops` is arbitrary, so this covers every state the run passes through. The run
hypothesis `okRunI` (every call a refusal at the door or failure-free) is what `C07.no_internal_error_or_panic` proves
for validated deliveries (see `C06.alarm_pending_validated`). -/
theorem alarm_pending_inv (cfg : Cfg) (t : Table) (input : Chain) (now0 : Int) (ops : List Op)
    (hrun : okRunI (init cfg t input) (.start now0 :: ops) = true)
    (hhost : hostOk (initHost cfg t input now0) (.start now0 :: ops) = true) :
    Armed (hostRun (initHost cfg t input now0) (.start now0 :: ops)).st
      (hostRun (initHost cfg t input now0) (.start now0 :: ops)).timer
      (hostRun (initHost cfg t input now0) (.start now0 :: ops)).clock := by
  apply hostRun_armed _ _ _ hhost hrun
  apply Armed.of_out
  intro hs
  rcases hs.2 with h | h | h | h <;> cases h

/-- ... in particular some alarm is pending there, so an `alarm` call is still to come -/
theorem alarm_pending (cfg : Cfg) (t : Table) (input : Chain) (now0 : Int) (ops : List Op)
    (hrun : okRunI (init cfg t input) (.start now0 :: ops) = true)
    (hhost : hostOk (initHost cfg t input now0) (.start now0 :: ops) = true)
    (hs : InScope (hostRun (initHost cfg t input now0) (.start now0 :: ops)).st) :
    ∃ tm, (hostRun (initHost cfg t input now0) (.start now0 :: ops)).timer = some tm :=
  (alarm_pending_inv cfg t input now0 ops hrun hhost).some hs

/-- every prefix of an admissible host run is one -/
theorem hostOk_take (h : Host) (ops : List Op) (k : Nat) (hok : hostOk h ops = true) : hostOk h (ops.take k) = true := by
  induction ops generalizing h k with
  | nil => simp [hostOk]
  | cons op ops ih =>
    cases k with
    | zero => rfl
    | succ k =>
      simp only [hostOk, Bool.and_eq_true, List.take_succ_cons] at hok ⊢
      exact ⟨hok.1, ih _ k hok.2⟩

theorem okRunI_take (s : State) (ops : List Op) (k : Nat) (hok : okRunI s ops = true) : okRunI s (ops.take k) = true := by
  induction ops generalizing s k with
  | nil => simp [okRunI]
  | cons op ops ih =>
    cases k with
    | zero => rfl
    | succ k =>
      simp only [okRunI, Bool.and_eq_true, List.take_succ_cons] at hok ⊢
      exact ⟨hok.1, ih _ k hok.2⟩

theorem okRunI_snoc (s : State) (ops : List Op) (op : Op) (h : okRunI s (ops ++ [op]) = true) :
    okRunI s ops = true ∧
    (refusedOp (runFrom s ops).1 op = true ∨ hasFailure (step (runFrom s ops).1 op).2 = false) := by
  induction ops generalizing s with
  | nil =>
    simp only [List.nil_append, okRunI, Bool.and_eq_true, Bool.or_eq_true, Bool.not_eq_true'] at h
    exact ⟨rfl, h.1⟩
  | cons o ops ih =>
    simp only [List.cons_append, okRunI, Bool.and_eq_true, Bool.or_eq_true, Bool.not_eq_true'] at h ⊢
    obtain ⟨h1, h2⟩ := ih _ h.2
    refine ⟨⟨h.1, h1⟩, ?_⟩
    rw [runFrom_cons]; exact h2

theorem hostOk_snoc (h : Host) (ops : List Op) (op : Op) (hok : hostOk h (ops ++ [op]) = true) :
    hostOk h ops = true ∧ hostOpOk (hostRun h ops) op = true := by
  induction ops generalizing h with
  | nil =>
    simp only [List.nil_append, hostOk, Bool.and_eq_true] at hok
    exact ⟨rfl, hok.1⟩
  | cons o ops ih =>
    simp only [List.cons_append, hostOk, Bool.and_eq_true] at hok ⊢
    obtain ⟨h1, h2⟩ := ih _ hok.2
    exact ⟨⟨hok.1, h1⟩, h2⟩

/-! ## `no_stuck_phase`: what the due alarm does -/

/-- the instance stayed in its phase and round, requested the rebroadcast round when one was scheduled, scheduled the
next rebroadcast and set the timer to it -/
def Rearmed (s : State) (r : R) : Prop :=
  r.1.phase = s.phase ∧ r.1.round = s.round ∧
  (s.rebTimeout ≠ none → ∀ e ∈ rebroadcastEffs s, e ∈ r.2) ∧
  ∃ rt, r.1.rebTimeout = some rt ∧ lastAlarm none r.2 = some rt

theorem armed_due_elapsed {s : State} {t c now : Int} (ha : Armed s (some t) c) (hs : InScope s) (hc : c ≤ now)
    (ht : t ≤ now) : s.phaseTimeoutElapsed now = true := by
  rw [elapsed_iff]
  rcases ha hs with ⟨_, _, h⟩ | ⟨rt, _, _, h⟩
  · injection h with h; omega
  · omega

theorem reb_rearm {s s' : State} {t c now : Int} (hT : SameT s s') (hre : rebroadcastEffs s' = rebroadcastEffs s)
    (ha : Armed s (some t) c) (hs : InScope s) (ht : t ≤ now) (hel : s'.phaseTimeoutElapsed now = true) :
    Rearmed s (s'.tryRebroadcast now) := by
  obtain ⟨_, h2, h3, _⟩ := tryRebroadcast_same s' now
  refine ⟨h3.trans hT.phase, h2.trans hT.round, ?_⟩
  rcases ha hs with ⟨h1, h2, _⟩ | ⟨rt0, h1, h2, _⟩
  · obtain ⟨rt, hr1, hr2⟩ := reb_first s' now (by rw [hT.rt, h1]) (by rw [hT.att, h2]) hel
    exact ⟨fun hne => absurd h1 hne, rt, hr1, by rw [hr2]; rfl⟩
  · have hd : rt0 ≤ now := by
      injection h2 with h2; omega
    obtain ⟨rt, hr1, hr2, _⟩ := reb_due s' now rt0 (by rw [hT.rt, h1]) hd hel
    refine ⟨fun _ e he => ?_, rt, hr1, ?_⟩
    · rw [hr2, hre]; exact List.mem_append_left _ he
    · rw [hr2, lastAlarm_append, lastAlarm_rebroadcastEffs]; rfl

theorem elapsed_should {s : State} {now : Int} (h : s.phaseTimeoutElapsed now = true) : s.shouldRebroadcast now = true := by
  unfold State.shouldRebroadcast; rw [h]; rfl

theorem rebroadcastEffs_congr {s s' : State} (h1 : s'.phase = s.phase) (h2 : s'.round = s.round) :
    rebroadcastEffs s' = rebroadcastEffs s := by
  unfold rebroadcastEffs; rw [h1, h2]

theorem beginPrepare_phase_round (s : State) (now : Int) (j : Option Just) :
    (s.beginPrepare now j).1.phase = .prepare ∧ (s.beginPrepare now j).1.round = s.round := by
  unfold State.beginPrepare State.alarmAfter State.resetReb
  exact ⟨rfl, rfl⟩

theorem beginCommit_phase_round (s : State) (now : Int) :
    (s.beginCommit now).1.phase = .commit ∧ (s.beginCommit now).1.round = s.round := by
  unfold State.beginCommit State.alarmAfter State.resetReb
  dsimp only
  split
  · exact ⟨rfl, rfl⟩
  · split <;> exact ⟨rfl, rfl⟩

theorem beginNextRound_phase_round (s : State) (now : Int) (hnf : hasFailure (s.beginNextRound now).2 = false) :
    (s.beginNextRound now).1.phase = .converge ∧ (s.beginNextRound now).1.round = s.round + 1 := by
  unfold State.beginNextRound at hnf ⊢
  dsimp only at hnf ⊢
  split
  · rename_i j hj
    simp only [hj] at hnf
    unfold State.beginConverge State.alarmAfter State.resetReb State.setRound at hnf ⊢
    dsimp only at hnf ⊢
    split
    · rename_i hc; simp [hc, hasFailure] at hnf
    · exact ⟨rfl, rfl⟩
  · rename_i p hp
    simp [hp, hasFailure] at hnf

theorem beginDecide_phase (s : State) (round : Nat) : (s.beginDecide round).1.phase = .decide := by
  unfold State.beginDecide State.resetReb
  dsimp only
  split <;> rfl

/-- QUALITY: the due alarm ends the phase, whatever was received -/
theorem quality_alarm_leaves {s : State} {now : Int} (hp : s.phase = .quality) (hel : s.phaseTimeoutElapsed now = true) :
    (step s (.alarm now)).1.phase = .prepare ∧ (step s (.alarm now)).1.round = s.round := by
  show (s.tryCurrentPhase now).1.phase = .prepare ∧ (s.tryCurrentPhase now).1.round = s.round
  unfold State.tryCurrentPhase
  simp only [hp]
  unfold State.tryQuality
  simp only [hp, hel, bne_self_eq_false, Bool.false_eq_true, if_false, Bool.or_true, if_true]
  refine ⟨(beginPrepare_phase_round _ _ _).1, (beginPrepare_phase_round _ _ _).2.trans ?_⟩
  exact (addCandidatePrefixes_sameT _ _).round

/-- CONVERGE: the due alarm ends the phase (the alternative, `noValuesAtConverge`, is a failure) -/
theorem converge_alarm_leaves {s : State} {now : Int} (hp : s.phase = .converge)
    (hel : s.phaseTimeoutElapsed now = true) (hnf : hasFailure (step s (.alarm now)).2 = false) :
    (step s (.alarm now)).1.phase = .prepare ∧ (step s (.alarm now)).1.round = s.round := by
  have hnf' : hasFailure (s.tryCurrentPhase now).2 = false := hnf
  show (s.tryCurrentPhase now).1.phase = .prepare ∧ (s.tryCurrentPhase now).1.round = s.round
  unfold State.tryCurrentPhase at hnf' ⊢
  simp only [hp] at hnf' ⊢
  unfold State.tryConverge at hnf' ⊢
  simp only [hp, hel, bne_self_eq_false, Bool.false_eq_true, if_false, Bool.not_true] at hnf' ⊢
  split
  · rename_i h; simp [h, hasFailure] at hnf'
  · rename_i w h
    simp only [h] at hnf'
    split
    · rename_i hw; simp [hw, hasFailure] at hnf'
    · refine ⟨(beginPrepare_phase_round _ _ _).1, (beginPrepare_phase_round _ _ _).2.trans ?_⟩
      exact (addCandidate_sameT _ _).round

/-- PREPARE: the due alarm ends the phase, or — no strong quorum of senders heard, proposal still possible — the
rebroadcast path re-arms the timer -/
theorem prepare_alarm {s : State} {t c now : Int} (hp : s.phase = .prepare) (ha : Armed s (some t) c) (hs : InScope s)
    (ht : t ≤ now) (hel : s.phaseTimeoutElapsed now = true) :
    ((step s (.alarm now)).1.phase = .commit ∧ (step s (.alarm now)).1.round = s.round) ∨
    (Rearmed s (step s (.alarm now)) ∧ (s.getRound s.round).prepared.fromStrong s.tbl = false) := by
  show ((s.tryCurrentPhase now).1.phase = .commit ∧ (s.tryCurrentPhase now).1.round = s.round) ∨
    (Rearmed s (s.tryCurrentPhase now) ∧ _)
  unfold State.tryCurrentPhase
  simp only [hp]
  unfold State.tryPrepare
  simp only [hp, bne_self_eq_false, Bool.false_eq_true, if_false]
  have hT := prepareValue_sameT s now
  split
  · left
    have := beginCommit_phase_round (s.prepareValue now) now
    exact ⟨this.1, this.2.trans hT.round⟩
  · rename_i hcond
    right
    have hel' : (s.prepareValue now).phaseTimeoutElapsed now = true := by
      unfold State.phaseTimeoutElapsed at hel ⊢; rwa [hT.pt]
    rw [if_pos (elapsed_should hel')]
    refine ⟨reb_rearm hT (rebroadcastEffs_congr hT.phase hT.round) ha hs ht hel', ?_⟩
    cases hq : (s.getRound s.round).prepared.fromStrong s.tbl
    · rfl
    · exfalso; apply hcond
      simp [State.prepComplete, hel, hq]

/-- COMMIT: the due alarm ends the phase (DECIDE, or CONVERGE of the next round), or — no strong quorum of senders
heard — the rebroadcast path re-arms the timer -/
theorem commit_alarm {s : State} {t c now : Int} (hp : s.phase = .commit) (ha : Armed s (some t) c) (hs : InScope s)
    (ht : t ≤ now) (hel : s.phaseTimeoutElapsed now = true) (hnf : hasFailure (step s (.alarm now)).2 = false) :
    (step s (.alarm now)).1.phase = .decide ∨
    ((step s (.alarm now)).1.phase = .converge ∧ (step s (.alarm now)).1.round = s.round + 1) ∨
    (Rearmed s (step s (.alarm now)) ∧ (s.getRound s.round).committed.fromStrong s.tbl = false) := by
  have hnf' : hasFailure (s.tryCurrentPhase now).2 = false := hnf
  show (s.tryCurrentPhase now).1.phase = .decide ∨
    ((s.tryCurrentPhase now).1.phase = .converge ∧ (s.tryCurrentPhase now).1.round = s.round + 1) ∨
    (Rearmed s (s.tryCurrentPhase now) ∧ _)
  unfold State.tryCurrentPhase at hnf' ⊢
  simp only [hp] at hnf' ⊢
  have hcond : (s.round != s.round || s.phase != Phase.commit) = false := by simp [hp]
  unfold State.tryCommit at hnf' ⊢
  dsimp only at hnf' ⊢
  split
  · rename_i h; simp [h, hasFailure] at hnf'
  · rename_i cq h
    simp only [h] at hnf'
    split
    · exact Or.inl (beginDecide_phase _ _)
    · rename_i hc
      simp only [hc, hcond, Bool.false_eq_true, if_false] at hnf' ⊢
      exact Or.inr (Or.inl (beginNextRound_phase_round s now hnf'))
  · rename_i h
    simp only [h, hcond, Bool.false_eq_true, if_false] at hnf' ⊢
    split
    · rename_i hj
      simp only [hj, if_true] at hnf'
      exact Or.inr (Or.inl (beginNextRound_phase_round s now hnf'))
    · rename_i hj
      simp only [hj, Bool.false_eq_true, if_false, hel, Bool.true_and] at hnf' ⊢
      split
      · rename_i hq
        simp only [hq, if_true] at hnf'
        have := beginNextRound_phase_round _ now hnf'
        exact Or.inr (Or.inl ⟨this.1, this.2.trans (by rw [(commitSway_sameT s _).round])⟩)
      · rename_i hq
        rw [if_pos (elapsed_should hel)]
        refine Or.inr (Or.inr ⟨reb_rearm (SameT.refl s) rfl ha hs ht hel, ?_⟩)
        cases hq' : (s.getRound s.round).committed.fromStrong s.tbl
        · rfl
        · exact absurd hq' hq

theorem tryCurrentPhase_cfg (s : State) (now : Int) : (s.tryCurrentPhase now).1.cfg = s.cfg := by
  unfold State.tryCurrentPhase
  split <;> try simp
  · unfold State.tryDecide State.terminate State.resetReb
    repeat' split
    all_goals simp

/-- **No stuck phase.** In a state of QUALITY / CONVERGE / PREPARE / COMMIT (round up to
`rebroadcastImmediatelyAfterRound`) whose timer is armed as the invariant says, the alarm — fired when due, time not
running backwards — finds the phase timeout expired, and: QUALITY and CONVERGE are left for PREPARE; PREPARE is left for
COMMIT and COMMIT for DECIDE or the next round, unless no strong quorum of senders has been heard, in which case the
instance stays, requests the rebroadcast round that was scheduled, and re-arms the timer; in every case an alarm is
pending afterwards unless the instance is now in DECIDE. -/
theorem no_stuck_phase (s : State) (t c now : Int) (ha : Armed s (some t) c) (hs : InScope s) (hc : c ≤ now)
    (ht : t ≤ now) (hnf : hasFailure (step s (.alarm now)).2 = false) :
    s.phaseTimeoutElapsed now = true ∧
    (s.phase = .quality → (step s (.alarm now)).1.phase = .prepare ∧ (step s (.alarm now)).1.round = s.round) ∧
    (s.phase = .converge → (step s (.alarm now)).1.phase = .prepare ∧ (step s (.alarm now)).1.round = s.round) ∧
    (s.phase = .prepare →
      ((step s (.alarm now)).1.phase = .commit ∧ (step s (.alarm now)).1.round = s.round) ∨
      (Rearmed s (step s (.alarm now)) ∧ (s.getRound s.round).prepared.fromStrong s.tbl = false)) ∧
    (s.phase = .commit →
      (step s (.alarm now)).1.phase = .decide ∨
      ((step s (.alarm now)).1.phase = .converge ∧ (step s (.alarm now)).1.round = s.round + 1) ∨
      (Rearmed s (step s (.alarm now)) ∧ (s.getRound s.round).committed.fromStrong s.tbl = false)) ∧
    ((step s (.alarm now)).1.phase = .decide ∨ ∃ t', lastAlarm none (step s (.alarm now)).2 = some t') := by
  have hel := armed_due_elapsed ha hs hc ht
  refine ⟨hel, fun hp => quality_alarm_leaves hp hel, fun hp => converge_alarm_leaves hp hel hnf,
    fun hp => prepare_alarm hp ha hs ht hel, fun hp => commit_alarm hp ha hs ht hel hnf, ?_⟩
  rcases step_alarmOK s now with hf | hgood
  · rw [hnf] at hf; cases hf
  · have harm := hgood t c hc ht ha
    have hcfg : (step s (.alarm now)).1.cfg = s.cfg := tryCurrentPhase_cfg s now
    by_cases hs' : InScope (step s (.alarm now)).1
    · exact Or.inr (harm.some hs')
    · -- left the scope: DECIDE, or a round beyond `rebImmediateAfter` entered by `beginNextRound` (fresh alarm)
      rcases hs.2 with hp | hp | hp | hp
      · exact absurd ⟨by rw [(quality_alarm_leaves hp hel).2, hcfg]; exact hs.1, Or.inr (Or.inr (Or.inl (quality_alarm_leaves hp hel).1))⟩ hs'
      · exact absurd ⟨by rw [(converge_alarm_leaves hp hel hnf).2, hcfg]; exact hs.1,
          Or.inr (Or.inr (Or.inl (converge_alarm_leaves hp hel hnf).1))⟩ hs'
      · rcases prepare_alarm hp ha hs ht hel with h | ⟨h, _⟩
        · exact absurd ⟨by rw [h.2, hcfg]; exact hs.1, Or.inr (Or.inr (Or.inr h.1))⟩ hs'
        · obtain ⟨_, _, _, rt, _, h4⟩ := h; exact Or.inr ⟨rt, h4⟩
      · rcases commit_alarm hp ha hs ht hel hnf with h | h | ⟨h, _⟩
        · exact Or.inl h
        · -- entered the next round: `beginConverge` requested the phase timeout
          right
          rcases tryCurrentPhase_outcome s now with hf | ho | hfr | ⟨hsame, _, _⟩ | ⟨s', hT, _, heq⟩
          · have : hasFailure (s.tryCurrentPhase now).2 = false := hnf
            rw [this] at hf; cases hf
          · exfalso
            have h1 : (s.tryCurrentPhase now).1.phase = .converge := h.1
            rcases ho with ho | ho | ho <;> rw [h1] at ho <;> cases ho
          · exact ⟨_, hfr.2.2 none⟩
          · exfalso
            have h2 : (s.tryCurrentPhase now).1.round = s.round + 1 := h.2
            rw [hsame.round] at h2; omega
          · exfalso
            have h2 : (s.tryCurrentPhase now).1.round = s.round + 1 := h.2
            rw [heq, (tryRebroadcast_same s' now).2.1, hT.round] at h2; omega
        · obtain ⟨_, _, _, rt, _, h4⟩ := h; exact Or.inr ⟨rt, h4⟩

end F3.Liveness
