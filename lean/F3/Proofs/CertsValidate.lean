import F3.Spec.Certs
import F3.Props.C08
/-! `stepCert` / `validateLoop` against the declarative `CertValid` / `ValidRun`. -/
namespace F3.Certs
open F3.Spec.Certs

theorem scaled_length {ps : List Int} {sc : List Nat} {tot : Nat}
    (h : F3.Power.scaled ps = some (sc, tot)) : sc.length = ps.length := by
  unfold F3.Power.scaled at h
  split at h
  · simp only [Option.some.injEq, Prod.mk.injEq] at h
    rw [← h.1]; simp
  · cases h

theorem sumScaled_cons (sc : List Nat) (i : Nat) (is : List Nat) :
    sumScaled sc (i :: is) = (sc.getD i 0 : Nat) + sumScaled sc is := rfl

theorem checkSigners_ok (sc : List Nat) (ss : List Nat) (acc p : Int) :
    checkSigners sc ss acc = .ok p ↔
      (∀ i ∈ ss, i < sc.length ∧ 0 < sc.getD i 0) ∧ p = acc + sumScaled sc ss := by
  induction ss generalizing acc with
  | nil =>
    simp only [checkSigners, Except.ok.injEq, List.not_mem_nil, false_implies, implies_true, true_and]
    unfold sumScaled
    simp only [List.foldr_nil]
    constructor <;> intro h <;> omega
  | cons i is ih =>
    unfold checkSigners
    by_cases h1 : sc.length ≤ i
    · simp only [h1, if_true]
      constructor
      · intro h; cases h
      · rintro ⟨h, _⟩; have := (h i (List.mem_cons_self ..)).1; omega
    · by_cases h2 : sc.getD i 0 = 0
      · simp only [h1, if_false, h2, beq_self_eq_true, if_true]
        constructor
        · intro h; cases h
        · rintro ⟨h, _⟩; have := (h i (List.mem_cons_self ..)).2; omega
      · have h2' : (sc.getD i 0 == 0) = false := by simpa using h2
        simp only [h1, if_false, h2', Bool.false_eq_true]
        rw [ih, sumScaled_cons]
        constructor
        · rintro ⟨h, hp⟩
          refine ⟨?_, by omega⟩
          intro j hj
          rcases List.mem_cons.mp hj with hj | hj
          · rw [hj]; exact ⟨by omega, by omega⟩
          · exact h j hj
        · rintro ⟨h, hp⟩
          exact ⟨fun j hj => h j (List.mem_cons_of_mem _ hj), by omega⟩

/-- the executable "is the iteration of a bitfield" test is strict sortedness -/
theorem increasing_iff : ∀ l : List Nat, increasing l = true ↔ l.Pairwise (· < ·)
  | [] => by simp [increasing]
  | [_] => by simp [increasing]
  | a :: b :: l => by
    have ih := increasing_iff (b :: l)
    simp only [increasing, Bool.and_eq_true, decide_eq_true_eq]
    rw [ih]
    constructor
    · rintro ⟨hab, hp⟩
      refine List.Pairwise.cons ?_ hp
      intro x hx
      rcases List.mem_cons.1 hx with rfl | hx
      · exact hab
      · exact Nat.lt_trans hab ((List.pairwise_cons.1 hp).1 x hx)
    · intro hp
      have := List.pairwise_cons.1 hp
      exact ⟨this.1 b (List.mem_cons_self ..), this.2⟩

theorem verifySig_ok_iff (net : Nat) (t : Table) (c : Cert) :
    verifySig net t c = .ok () ↔
      ∃ sc tot ss, F3.Power.scaled (t.map (·.power)) = some (sc, tot) ∧ c.signers = some ss ∧
        ss.Pairwise (· < ·) ∧
        (∀ i ∈ ss, i < t.length ∧ 0 < sc.getD i 0) ∧
        3 * sumScaled sc ss ≥ 2 * (tot : Int) ∧
        c.sig = .agg (ss.map (fun i => (i, keyAt t i))) ⟨net, c.inst, 0, decidePhase, c.comm, c.pt, c.chain⟩ := by
  unfold verifySig
  cases hsc : F3.Power.scaled (t.map (·.power)) with
  | none =>
    simp only
    constructor
    · intro h; cases h
    · rintro ⟨_, _, _, h, _⟩; cases h
  | some r =>
    obtain ⟨sc, tot⟩ := r
    have hlen : sc.length = t.length := by rw [scaled_length hsc]; simp
    simp only
    cases hss : c.signers with
    | none =>
      simp only
      constructor
      · intro h; cases h
      · rintro ⟨_, _, _, _, h, _⟩; cases h
    | some ss =>
      simp only
      by_cases hinc : increasing ss = true
      case neg =>
        have hinc' : increasing ss = false := by simpa using hinc
        simp only [hinc', Bool.not_false, if_true]
        constructor
        · intro h; cases h
        · rintro ⟨sc', tot', ss', h1, h2, h0, _⟩
          simp only [Option.some.injEq] at h2
          subst h2
          exact absurd ((increasing_iff _).mpr h0) hinc
      have hpw := (increasing_iff ss).mp hinc
      simp only [hinc, Bool.not_true, Bool.false_eq_true, if_false]
      cases hcs : checkSigners sc ss 0 with
      | error e =>
        simp only
        constructor
        · intro h; cases h
        · rintro ⟨sc', tot', ss', h1, h2, _, h3, _⟩
          simp only [Option.some.injEq, Prod.mk.injEq] at h1 h2
          obtain ⟨rfl, rfl⟩ := h1
          subst h2
          have := (checkSigners_ok sc ss 0 (0 + sumScaled sc ss)).mpr ⟨by rw [hlen]; exact h3, rfl⟩
          rw [hcs] at this; cases this
      | ok p =>
        simp only
        obtain ⟨hall, hp⟩ := (checkSigners_ok sc ss 0 p).mp hcs
        have hp' : p = sumScaled sc ss := by omega
        have hq := F3.Props.C08.strong_iff p tot (by omega)
        by_cases hstrong : F3.Gen.isStrongQuorum p tot = true
        · simp only [hstrong, Bool.not_true, Bool.false_eq_true, if_false]
          by_cases hsig : c.sig = expectedSig net t c ss
          · simp only [hsig, beq_self_eq_true, if_true, true_iff]
            refine ⟨sc, tot, ss, rfl, rfl, hpw, by rw [← hlen]; exact hall, ?_, rfl⟩
            rw [← hp']; exact hq.mp hstrong
          · have hsig' : (c.sig == expectedSig net t c ss) = false := by simpa using hsig
            simp only [hsig', Bool.false_eq_true, if_false]
            constructor
            · intro h; cases h
            · rintro ⟨sc', tot', ss', h1, h2, _, _, _, h5⟩
              simp only [Option.some.injEq, Prod.mk.injEq] at h1 h2
              obtain ⟨rfl, rfl⟩ := h1
              subst h2
              exact absurd h5 hsig
        · have hs' : F3.Gen.isStrongQuorum p tot = false := by simpa using hstrong
          simp only [hs', Bool.not_false, if_true]
          constructor
          · intro h; cases h
          · rintro ⟨sc', tot', ss', h1, h2, _, _, h4, _⟩
            simp only [Option.some.injEq, Prod.mk.injEq] at h1 h2
            obtain ⟨rfl, rfl⟩ := h1
            subst h2
            rw [← hp'] at h4
            exact absurd (hq.mpr h4) hstrong

theorem baseMismatch_false_iff (base : Option Tip) (chain : List Tip) :
    baseMismatch base chain = false ↔
      ∀ b, base = some b → ∃ h, chain.head? = some h ∧ Tip.eq b h = true := by
  unfold baseMismatch
  cases base with
  | none => simp
  | some b =>
    cases chain.head? with
    | none => simp
    | some h => simp

theorem stepCert_ok_iff (net : Nat) (s : VState) (c : Cert) (s' : VState) :
    stepCert net s c = .ok s' ↔
      ∃ nt, CertValid net s.table s.next s.base c nt ∧ s' = advance s c nt := by
  unfold stepCert
  by_cases h1n : ¬ c.inst = s.next
  · have h1 := h1n
    have : (c.inst != s.next) = true := by simpa using h1
    simp only [this, if_true]
    constructor
    · intro h; cases h
    · rintro ⟨nt, hv, _⟩; exact absurd hv.inst h1
  have h1 : c.inst = s.next := Decidable.not_not.mp h1n
  have h1' : (c.inst != s.next) = false := by simpa using h1
  simp only [h1', Bool.false_eq_true, if_false]
  by_cases h2n : ¬ chainValid c.chain = true
  · have h2 := h2n
    have : (!chainValid c.chain) = true := by simpa using h2
    simp only [this, if_true]
    constructor
    · intro h; cases h
    · rintro ⟨nt, hv, _⟩; exact absurd hv.chain_valid h2
  have h2 : chainValid c.chain = true := Decidable.not_not.mp h2n
  simp only [h2, Bool.not_true, Bool.false_eq_true, if_false]
  by_cases h3 : c.chain = []
  · simp only [h3, List.isEmpty_nil, if_true]
    constructor
    · intro h; cases h
    · rintro ⟨nt, hv, _⟩; exact absurd h3 hv.chain_nonempty
  have h3' : c.chain.isEmpty = false := by
    cases hc : c.chain with
    | nil => exact absurd hc h3
    | cons x xs => rfl
  simp only [h3', Bool.false_eq_true, if_false]
  -- base link
  have hlink := baseMismatch_false_iff s.base c.chain
  by_cases h4 : baseMismatch s.base c.chain = true
  · simp only [h4, if_true]
    constructor
    · intro h; cases h
    · rintro ⟨nt, hv, _⟩
      have := hlink.mpr hv.linked
      rw [h4] at this; cases this
  have h4' := Bool.eq_false_iff.mpr h4
  simp only [h4', Bool.false_eq_true, if_false]
  have hlinked := hlink.mp h4'
  cases hvs : verifySig net s.table c with
  | error e =>
    simp only
    constructor
    · intro h; cases h
    · rintro ⟨nt, hv, _⟩
      have := (verifySig_ok_iff net s.table c).mpr hv.signed
      rw [hvs] at this; cases this
  | ok u =>
    have hsigned := (verifySig_ok_iff net s.table c).mp (by rw [hvs])
    simp only
    cases had : applyDiff s.table c.delta with
    | error e =>
      simp only
      constructor
      · intro h; cases h
      · rintro ⟨nt, hv, _⟩
        have := hv.delta; rw [had] at this; cases this
    | ok nt =>
      simp only
      by_cases h5 : c.pt = .table nt
      · have h5' : (c.pt != .table nt) = false := by simpa using h5
        simp only [h5', Bool.false_eq_true, if_false, Except.ok.injEq]
        constructor
        · intro h
          exact ⟨nt, ⟨h1, h2, h3, hlinked, hsigned, had, h5⟩, h.symm⟩
        · rintro ⟨nt', hv, hs'⟩
          have := hv.delta; rw [had] at this
          simp only [Except.ok.injEq] at this
          subst this
          exact hs'.symm
      · have h5' : (c.pt != .table nt) = true := by simpa using h5
        simp only [h5', if_true]
        constructor
        · intro h; cases h
        · rintro ⟨nt', hv, _⟩
          have := hv.delta; rw [had] at this
          simp only [Except.ok.injEq] at this
          subst this
          exact absurd hv.committed h5

/-- `CertValid` determines the next table -/
theorem certValid_unique {net : Nat} {t : Table} {next : Nat} {base : Option Tip} {c : Cert} {nt nt' : Table}
    (h : CertValid net t next base c nt) (h' : CertValid net t next base c nt') : nt = nt' := by
  have := h.delta; rw [h'.delta] at this
  simpa using this.symm

theorem validateLoop_ok_iff (net : Nat) (s : VState) (cs : List Cert) (s' : VState) :
    validateLoop net s cs = (s', none) ↔ ValidRun net s cs s' := by
  induction cs generalizing s with
  | nil =>
    simp only [validateLoop, Prod.mk.injEq, and_true]
    constructor
    · intro h; rw [h]; exact ValidRun.nil _
    · intro h; cases h; rfl
  | cons c cs ih =>
    unfold validateLoop
    cases hst : stepCert net s c with
    | error e =>
      simp only [Prod.mk.injEq, reduceCtorEq, and_false, false_iff]
      intro h
      cases h with
      | cons hv _ =>
        have := (stepCert_ok_iff net s c _).mpr ⟨_, hv, rfl⟩
        rw [hst] at this; cases this
    | ok s1 =>
      simp only
      obtain ⟨nt, hv, hs1⟩ := (stepCert_ok_iff net s c s1).mp hst
      rw [ih]
      constructor
      · intro h; rw [hs1] at h; exact ValidRun.cons hv h
      · intro h
        cases h with
        | cons hv' hrun =>
          have := certValid_unique hv hv'
          subst this
          rw [hs1]; exact hrun

theorem validRun_unique {net : Nat} {s : VState} {cs : List Cert} {s₁ s₂ : VState}
    (h₁ : ValidRun net s cs s₁) (h₂ : ValidRun net s cs s₂) : s₁ = s₂ := by
  have a := (validateLoop_ok_iff net s cs s₁).mpr h₁
  have b := (validateLoop_ok_iff net s cs s₂).mpr h₂
  rw [a] at b
  simpa using b

/-- shape of a rejection: a valid prefix, then a certificate that is not valid in the state reached -/
theorem validateLoop_err (net : Nat) (s : VState) (cs : List Cert) (sf : VState) (e : VErr)
    (h : validateLoop net s cs = (sf, some e)) :
    ∃ cs₁ c cs₂, cs = cs₁ ++ c :: cs₂ ∧ ValidRun net s cs₁ sf ∧ stepCert net sf c = .error e := by
  induction cs generalizing s with
  | nil => simp [validateLoop] at h
  | cons c cs ih =>
    unfold validateLoop at h
    cases hst : stepCert net s c with
    | error e' =>
      rw [hst] at h
      simp only [Prod.mk.injEq, Option.some.injEq] at h
      obtain ⟨rfl, rfl⟩ := h
      exact ⟨[], c, cs, rfl, ValidRun.nil _, hst⟩
    | ok s1 =>
      rw [hst] at h
      simp only at h
      obtain ⟨cs₁, c', cs₂, hcs, hrun, hstep⟩ := ih s1 h
      obtain ⟨nt, hv, hs1⟩ := (stepCert_ok_iff net s c s1).mp hst
      refine ⟨c :: cs₁, c', cs₂, by rw [hcs]; rfl, ?_, hstep⟩
      rw [hs1] at hrun
      exact ValidRun.cons hv hrun

theorem validRun_append {net : Nat} {s s₁ s₂ : VState} {cs₁ cs₂ : List Cert}
    (h₁ : ValidRun net s cs₁ s₁) (h₂ : ValidRun net s₁ cs₂ s₂) : ValidRun net s (cs₁ ++ cs₂) s₂ := by
  induction h₁ with
  | nil => exact h₂
  | cons hv _ ih => exact ValidRun.cons hv (ih h₂)

theorem validRun_split {net : Nat} {s s₂ : VState} {cs₁ cs₂ : List Cert}
    (h : ValidRun net s (cs₁ ++ cs₂) s₂) : ∃ s₁, ValidRun net s cs₁ s₁ ∧ ValidRun net s₁ cs₂ s₂ := by
  induction cs₁ generalizing s with
  | nil => exact ⟨s, ValidRun.nil _, h⟩
  | cons c cs ih =>
    cases h with
    | cons hv hrun =>
      obtain ⟨s₁, h1, h2⟩ := ih hrun
      exact ⟨s₁, ValidRun.cons hv h1, h2⟩

end F3.Certs

namespace F3.Certs
open F3.Spec.Certs

theorem certValidB_iff (net : Nat) (t : Table) (next : Nat) (base : Option Tip) (c : Cert) (nt : Table) :
    certValidB net t next base c nt = true ↔ CertValid net t next base c nt := by
  unfold certValidB
  simp only [Bool.and_eq_true, beq_iff_eq, Bool.not_eq_true', List.isEmpty_eq_false_iff]
  constructor
  · rintro ⟨⟨⟨⟨⟨⟨h1, h2⟩, h3⟩, h4⟩, h5⟩, h6⟩, h7⟩
    refine ⟨h1, h2, h3, (baseMismatch_false_iff base c.chain).mp h4, ?_, ?_, h7⟩
    · cases hsc : F3.Power.scaled (t.map (·.power)) with
      | none => rw [hsc] at h5; cases h5
      | some r =>
        obtain ⟨sc, tot⟩ := r
        cases hss : c.signers with
        | none => rw [hsc, hss] at h5; cases h5
        | some ss =>
          rw [hsc, hss] at h5
          simp only [Bool.and_eq_true, List.all_eq_true, decide_eq_true_eq, beq_iff_eq] at h5
          obtain ⟨⟨⟨hi, ha⟩, hq⟩, hs⟩ := h5
          refine ⟨sc, tot, ss, rfl, rfl, (increasing_iff ss).mp hi, ha, ?_, hs⟩
          unfold F3.Spec.Quorum.strong at hq
          simpa using hq
    · cases had : applyDiff t c.delta with
      | error e => rw [had] at h6; cases h6
      | ok r => rw [had] at h6; simp only [beq_iff_eq] at h6; rw [h6]
  · intro hv
    obtain ⟨sc, tot, ss, hsc, hss, hi, ha, hq, hs⟩ := hv.signed
    refine ⟨⟨⟨⟨⟨⟨hv.inst, hv.chain_valid⟩, hv.chain_nonempty⟩,
      (baseMismatch_false_iff base c.chain).mpr hv.linked⟩, ?_⟩, ?_⟩, hv.committed⟩
    · rw [hsc, hss]
      simp only [Bool.and_eq_true, List.all_eq_true, decide_eq_true_eq, beq_iff_eq]
      refine ⟨⟨⟨(increasing_iff ss).mpr hi, ha⟩, ?_⟩, hs⟩
      unfold F3.Spec.Quorum.strong
      simpa using hq
    · rw [hv.delta]; simp

/-- the oracle's longest-valid-prefix computation agrees with the model's loop -/
theorem specPrefix_eq (net : Nat) (s : VState) (cs : List Cert) :
    (specPrefix net s cs).1 = (validateLoop net s cs).1 ∧
    ((specPrefix net s cs).2 = cs.length ↔ (validateLoop net s cs).2 = none) ∧
    (specPrefix net s cs).2 ≤ cs.length := by
  induction cs generalizing s with
  | nil => simp [specPrefix, validateLoop]
  | cons c cs ih =>
    unfold specPrefix validateLoop
    cases hst : stepCert net s c with
    | error e =>
      simp only
      have hno : ∀ nt, ¬ CertValid net s.table s.next s.base c nt := by
        intro nt hv
        have := (stepCert_ok_iff net s c _).mpr ⟨nt, hv, rfl⟩
        rw [hst] at this; cases this
      cases had : applyDiff s.table c.delta with
      | error e' => simp
      | ok nt =>
        simp only
        have : certValidB net s.table s.next s.base c nt = false := by
          rw [Bool.eq_false_iff]; intro h
          exact hno nt ((certValidB_iff ..).mp h)
        simp [this]
    | ok s1 =>
      obtain ⟨nt, hv, hs1⟩ := (stepCert_ok_iff net s c s1).mp hst
      rw [hv.delta]
      simp only
      rw [(certValidB_iff ..).mpr hv]
      simp only [if_true]
      have := ih (advance s c nt)
      rw [hs1]
      unfold advance at this ⊢
      refine ⟨this.1, ?_, ?_⟩
      · rw [List.length_cons]
        constructor
        · intro h; exact this.2.1.mp (by omega)
        · intro h; have := this.2.1.mpr h; omega
      · rw [List.length_cons]; have := this.2.2; omega

end F3.Certs
