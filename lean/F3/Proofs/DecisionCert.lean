import F3.Proofs.InstanceDecision
import F3.Props.C04
/-!
# From a decision of the instance model to a certificate the certificate model accepts

`F3.Instance` (model of `gpbft/gpbft.go`) reports a decision as a justification
`d = (round, phase, value, signers)`; `F3.Certs` (model of `certs/certs.go`) validates certificates
`(instance, chain, supplemental data, signers, aggregate, delta)`. This file is the glue: the certificate
`host.saveDecision` / `certs.NewFinalityCertificate` assemble from a decision, the translation between the
two models' power tables, chains and symbolic aggregates, and the arithmetic that turns `DecisionOK` into
the hypotheses of `F3.Props.C04.honest_cert_accepted`. The property theorems are in
`F3/Props/C03.lean`, `section Certificate`.

## The two symbolic signature models, and what is assumed of the real scheme

* Instance model: a validated message *is* its signature, and a justification `(round, phase, value,
  signers)` *is* the aggregate, by the members at the table indices `signers`, of their signatures over the
  payload `(instance, round, phase, supplemental data, value)` — instance id and supplemental data are the
  instance's own and implicit (`Msg.instOk`, `Msg.suppOk`).
* Certificate model: an aggregate is the token `.agg [(index, key)…] payload`; `verifySig` accepts exactly
  the token aggregated for the listed signers' keys over exactly the payload it rebuilds.

`aggOf` maps the first to the second (definitional: same signer indices, the keys the certificate model's
table has at those indices, the payload with the implicit fields made explicit and the interned tipset ids
resolved by `tipOf`). What acceptance of an honestly assembled certificate needs of the real BLS scheme is
only *correctness of aggregation*: the aggregate of valid individual signatures over one payload, by the keys
at `mask`, passes `VerifyAggregate(mask, payload, ·)`. That each aggregated signature exists is the
`signed` field of `DecisionOK` (every listed signer is a member from whom a validated DECIDE vote for
exactly the decided value was delivered) — restated on the certificate as `Backed`. *Unforgeability* (the
converse: only such an aggregate verifies) is what the token equality in `verifySig` stands for in the
soundness direction (`F3.Props.C04.validate_sound`); it is not used here.
-/
namespace F3.DecisionCert
open F3.Certs

/-- The power table of the two models is the same table: the same members at the same indices, and
`PowerEntries.Scaled` of the raw powers (what `verifyFinalityCertificateSignature` computes) yields, index
by index, the scaled powers the instance's tally works with (the committee's `ScaledPower`). The scaled
totals then agree as well (`TablesAgree.total`). -/
structure TablesAgree (tbl : F3.Instance.Table) (t : Table) : Prop where
  ids : t.map (·.id) = tbl.entries.map (·.1)
  scaled : ∃ tot, F3.Power.scaled (t.map (·.power)) = some (tbl.entries.map (·.2), tot)

/-- executable form (for examples and drivers) -/
def tablesAgreeB (tbl : F3.Instance.Table) (t : Table) : Bool :=
  t.map (·.id) == tbl.entries.map (·.1) &&
    (match F3.Power.scaled (t.map (·.power)) with
      | some (sc, _) => sc == tbl.entries.map (·.2)
      | none => false)

theorem tablesAgreeB_iff (tbl : F3.Instance.Table) (t : Table) :
    tablesAgreeB tbl t = true ↔ TablesAgree tbl t := by
  unfold tablesAgreeB
  simp only [Bool.and_eq_true, beq_iff_eq]
  constructor
  · rintro ⟨h1, h2⟩
    refine ⟨h1, ?_⟩
    cases hs : F3.Power.scaled (t.map (·.power)) with
    | none => rw [hs] at h2; cases h2
    | some r =>
      obtain ⟨sc, tot⟩ := r
      rw [hs] at h2
      simp only [beq_iff_eq] at h2
      exact ⟨tot, by rw [h2]⟩
  · rintro ⟨h1, tot, h2⟩
    refine ⟨h1, ?_⟩
    rw [h2]
    simp

/-- the payload a justification of the instance model is a signature over, made explicit: network,
instance id and supplemental data `(comm, pt)` are the instance's own; tipset ids are resolved by `tipOf` -/
def payloadOf (net inst comm : Nat) (pt : CidTok) (tipOf : Nat → Tip) (j : F3.Instance.Just) : Payload :=
  ⟨net, inst, j.round, j.phase.toNat, comm, pt, j.value.map tipOf⟩

/-- **The bridge between the two aggregate notions**: the certificate model's token for the aggregate that
the justification `j` of the instance model stands for — the signatures of exactly the members at the
indices `j.signers` (with the keys `t` holds for them), over exactly the payload of `j`. -/
def aggOf (net inst comm : Nat) (pt : CidTok) (tipOf : Nat → Tip) (t : Table) (j : F3.Instance.Just) :
    SigTok :=
  .agg (j.signers.map (fun i => (i, keyAt t i))) (payloadOf net inst comm pt tipOf j)

/-- The finality certificate assembled from a decision `d` of instance `inst` (`certs.NewFinalityCertificate`):
the decided chain, the instance's supplemental data — whose power-table commitment is the CID of the next
table in canonical order —, the decision's signers and aggregate, and the delta from the table in force to
the next table. -/
def decisionCert (net inst comm : Nat) (tipOf : Nat → Tip) (t nt : Table) (d : F3.Instance.Just) : Cert :=
  { inst := inst
    chain := d.value.map tipOf
    comm := comm
    pt := .table (canon nt)
    signers := some d.signers
    sig := aggOf net inst comm (.table (canon nt)) tipOf t d
    delta := makeDiff t nt }

/-- An aggregate token is *backed* by votes: everything it aggregates is the signature of a member of `t`
(at that index, with that key) whose vote exists — the aggregate can be assembled from delivered
messages, nothing has to be forged. -/
def Backed (Voted : Nat → Prop) (t : Table) : SigTok → Prop
  | .agg sg _ => ∀ ik ∈ sg, ∃ e, t[ik.1]? = some e ∧ e.key = ik.2 ∧ Voted e.id
  | .garbage _ => False

/-! ## Arithmetic glue -/

theorem power_sum_eq_foldl (l : List Nat) : F3.Power.sum l = l.foldl (· + ·) 0 := by
  induction l with
  | nil => rfl
  | cons x xs ih =>
    simp only [F3.Power.sum, List.foldl_cons]
    rw [F3.Instance.foldl_add_init xs (0 + x), ih]
    omega

/-- the scaled total the certificate model computes is the instance table's total -/
theorem scaled_total {tbl : F3.Instance.Table} {t : Table} {tot : Nat}
    (h : F3.Power.scaled (t.map (·.power)) = some (tbl.entries.map (·.2), tot)) : tot = tbl.total := by
  unfold F3.Power.scaled at h
  split at h
  · simp only [Option.some.injEq, Prod.mk.injEq] at h
    obtain ⟨h1, h2⟩ := h
    rw [← h2, h1, power_sum_eq_foldl]
    rfl
  · cases h

theorem TablesAgree.total {tbl : F3.Instance.Table} {t : Table} (h : TablesAgree tbl t) :
    F3.Power.scaled (t.map (·.power)) = some (tbl.entries.map (·.2), tbl.total) := by
  obtain ⟨tot, hs⟩ := h.scaled
  rw [hs, scaled_total hs]

theorem TablesAgree.length {tbl : F3.Instance.Table} {t : Table} (h : TablesAgree tbl t) :
    t.length = tbl.entries.length := by
  have := congrArg List.length h.ids
  simpa using this

/-- the scaled power the certificate model looks up at index `i` is the instance model's `powerAt i` -/
theorem getD_powerAt (tbl : F3.Instance.Table) (i : Nat) :
    (tbl.entries.map (·.2)).getD i 0 = tbl.powerAt i := by
  unfold F3.Instance.Table.powerAt
  rw [List.getD_eq_getElem?_getD, List.getElem?_map]
  cases tbl.entries[i]? <;> rfl

theorem sumScaled_eq_sumPow (tbl : F3.Instance.Table) (ss : List Nat) :
    sumScaled (tbl.entries.map (·.2)) ss = (F3.Instance.sumPow tbl ss : Nat) := by
  induction ss with
  | nil => rfl
  | cons i is ih =>
    rw [sumScaled_cons, ih, getD_powerAt]
    unfold F3.Instance.sumPow
    simp only [List.map_cons, List.foldl_cons]
    rw [F3.Instance.foldl_add_init _ (0 + tbl.powerAt i)]
    omega

theorem ids_getElem {tbl : F3.Instance.Table} {t : Table} (h : TablesAgree tbl t) (i : Nat)
    (hi : i < tbl.entries.length) :
    ∃ e, t[i]? = some e ∧ e.id = (tbl.entries[i]).1 ∧ keyAt t i = e.key := by
  have hlt : i < t.length := by rw [h.length]; exact hi
  refine ⟨t[i], List.getElem?_eq_getElem hlt, ?_, ?_⟩
  · have := congrArg (fun l => l[i]?) h.ids
    simp only [List.getElem?_map, List.getElem?_eq_getElem hlt, List.getElem?_eq_getElem hi,
      Option.map_some, Option.some.injEq] at this
    exact this
  · unfold keyAt
    rw [List.getD_eq_getElem?_getD, List.getElem?_eq_getElem hlt]
    rfl

/-! ## The composition -/

/-- everything `F3.Props.C04.honest_cert_accepted` asks of the signers, from `DecisionOK` and `TablesAgree` -/
theorem signer_facts {V : F3.Instance.Pid → F3.Instance.Chain → Prop} {tbl : F3.Instance.Table}
    {d : F3.Instance.Just} {t : Table} (hok : F3.Instance.DecisionOK V tbl d) (hag : TablesAgree tbl t) :
    (∀ i ∈ d.signers, i < t.length ∧ 0 < (tbl.entries.map (·.2)).getD i 0) ∧
    3 * sumScaled (tbl.entries.map (·.2)) d.signers ≥ 2 * (tbl.total : Int) := by
  constructor
  · intro i hi
    obtain ⟨h1, h2⟩ := hok.members i hi
    rw [getD_powerAt, hag.length]
    exact ⟨h1, h2⟩
  · rw [sumScaled_eq_sumPow]
    have := hok.strong
    unfold F3.Instance.strongQ F3.Spec.Quorum.strong at this
    simpa using this

theorem decisionCert_accepted {V : F3.Instance.Pid → F3.Instance.Chain → Prop}
    {tbl : F3.Instance.Table} {d : F3.Instance.Just} (hok : F3.Instance.DecisionOK V tbl d)
    (net inst comm : Nat) (tipOf : Nat → Tip) (t nt : Table) (base : Option Tip)
    (hag : TablesAgree tbl t) (ht : WF t) (hnt : WF nt)
    (hne : d.value ≠ []) (hcv : chainValid (d.value.map tipOf) = true)
    (hbase : ∀ b, base = some b → ∃ h, (d.value.map tipOf).head? = some h ∧ Tip.eq b h = true) :
    validateCerts net t inst base [decisionCert net inst comm tipOf t nt d] =
      ⟨u64 (inst + 1), (d.value.map tipOf).tail, canon nt, none⟩ := by
  obtain ⟨hmem, hq⟩ := signer_facts hok hag
  have hsig : (decisionCert net inst comm tipOf t nt d).sig =
      .agg (d.signers.map (fun i => (i, keyAt t i)))
        ⟨net, inst, 0, decidePhase, comm, .table (canon nt), d.value.map tipOf⟩ := by
    show aggOf net inst comm (.table (canon nt)) tipOf t d = _
    unfold aggOf payloadOf
    rw [hok.round, hok.phase]
    rfl
  exact F3.Props.C04.honest_cert_accepted net t nt inst base (decisionCert net inst comm tipOf t nt d)
    (tbl.entries.map (·.2)) tbl.total d.signers ht hnt rfl hcv
    (by intro h; exact hne (List.map_eq_nil_iff.mp h)) hbase hag.total rfl hok.increasing hmem hq hsig rfl rfl

theorem decisionCert_backed {V : F3.Instance.Pid → F3.Instance.Chain → Prop}
    {tbl : F3.Instance.Table} {d : F3.Instance.Just} (hok : F3.Instance.DecisionOK V tbl d)
    (net inst comm : Nat) (tipOf : Nat → Tip) (t nt : Table) (hag : TablesAgree tbl t) :
    Backed (fun x => V x d.value) t (decisionCert net inst comm tipOf t nt d).sig := by
  show Backed _ t (aggOf net inst comm (.table (canon nt)) tipOf t d)
  unfold aggOf Backed
  intro ik hik
  obtain ⟨i, hi, rfl⟩ := List.mem_map.mp hik
  obtain ⟨x, hx, hv⟩ := hok.signed i hi
  obtain ⟨hlt, hid, _⟩ := F3.Instance.index_spec tbl x i hx
  obtain ⟨e, he, heid, hkey⟩ := ids_getElem hag i hlt
  exact ⟨e, he, hkey.symm, by rw [heid, hid]; exact hv⟩

end F3.DecisionCert
