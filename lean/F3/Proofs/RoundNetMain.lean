import F3.Proofs.RoundNetNet
/-!
# `round_r_decides`: from the Bool-valued hypotheses of `F3/Proofs/RoundNetDefs.lean` to the network invariant and back

`StartSpec` is `roundStartB = true` as propositions (`roundStart_spec`); `rctxOf` packs it, together with
`bestTicket … w`, into the context `RCtx` of the node- and network-level proofs; `start_inv` establishes `NInvR` at the
start of the round; `round_r_invariant` / `round_r_decides` are the statements re-exported by `F3.Props.C06` (section
`RoundR`).
-/
namespace F3.Liveness
open F3.Instance F3.Net F3.NetRanked F3.Sync

structure StartSpec (rankOf : Pid → Nat → Nat) (t : Table) (H : List Pid) (r b : Nat) (val : Pid → Chain)
    (jst : Pid → Just) (n : Net) : Prop where
  rpos : 1 ≤ r
  tpos : 0 < t.total
  inTbl : ∀ x ∈ H, ∃ i, t.index? x = some i
  strong : strongQ t (sumP t H) = true
  nodupH : H.Nodup
  nodupN : (n.nodes.map (·.1)).Nodup
  node : ∀ p ∈ H, ∃ x, n.node? p = some x ∧ nodeStartB t r b val jst p x = true
  base : ∀ p ∈ H, (val p).head? = some b
  sent : ∀ p ∈ H, ∃ m ∈ n.pool, relevant r m = true ∧ m.sender = p ∧ m.phase = .converge
  pool : ∀ m ∈ n.pool, relevant r m = true → m.phase = .converge ∧ m.sender ∈ H ∧ m.value = val m.sender ∧
    m.rank = rankOf m.sender r ∧ m.just = some (jst m.sender) ∧ m.suppOk = true ∧ m.instOk = true
  deliv : ∀ d ∈ n.delivered, d.1 ∈ H → relevant r d.2 = true → False

theorem roundStart_spec {rankOf : Pid → Nat → Nat} {t : Table} {H : List Pid} {r b : Nat} {val : Pid → Chain}
    {jst : Pid → Just} {n : Net} (h : roundStartB rankOf t H r b val jst n = true) :
    StartSpec rankOf t H r b val jst n := by
  unfold roundStartB at h
  simp only [Bool.and_eq_true, decide_eq_true_eq, List.all_eq_true] at h
  obtain ⟨⟨⟨⟨⟨⟨⟨⟨⟨⟨h1, h2⟩, h3⟩, h4⟩, h5⟩, h6⟩, h7⟩, h8⟩, h9⟩, h10⟩, h11⟩ := h
  refine ⟨h1, h2, ?_, h4, h5, h6, ?_, ?_, ?_, ?_, ?_⟩
  · intro x hx
    have := h3 x hx
    cases hi : t.index? x with
    | none => rw [hi] at this; cases this
    | some i => exact ⟨i, rfl⟩
  · intro p hp
    have := h7 p hp
    cases hn : n.node? p with
    | none => rw [hn] at this; cases this
    | some x => rw [hn] at this; exact ⟨x, rfl, this⟩
  · intro p hp
    simpa using h8 p hp
  · intro p hp
    have := h9 p hp
    rw [List.any_eq_true] at this
    obtain ⟨m, hm, hc⟩ := this
    simp only [Bool.and_eq_true, beq_iff_eq] at hc
    exact ⟨m, hm, hc.1.1, hc.1.2, hc.2⟩
  · intro m hm hrel
    have := h10 m hm
    rw [hrel] at this
    simp only [Bool.not_true, Bool.false_or, Bool.and_eq_true, beq_iff_eq, List.contains_eq_mem,
      decide_eq_true_eq] at this
    obtain ⟨⟨⟨⟨⟨⟨a1, a2⟩, a3⟩, a4⟩, a5⟩, a6⟩, a7⟩ := this
    exact ⟨a1, a2, a3, a4, a5, a6, a7⟩
  · intro d hd hdH hrel
    have := h11 d hd
    simp [hdH, hrel] at this

/-- the context of the round proofs, from the start condition and the best ticket -/
def rctxOf (rankOf : Pid → Nat → Nat) (t : Table) (H : List Pid) (r b : Nat) (val : Pid → Chain) (jst : Pid → Just)
    (w : Pid) (n : Net) (h : roundStartB rankOf t H r b val jst n = true) (hb : bestTicket rankOf H r w = true) : RCtx :=
  { rankOf := rankOf, t := t, H := H, r := r, b := b, val := val, jst := jst, w := w,
    rpos := (roundStart_spec h).rpos, tpos := (roundStart_spec h).tpos, nodup := (roundStart_spec h).nodupH,
    inTbl := (roundStart_spec h).inTbl, strong := (roundStart_spec h).strong,
    wH := by
      unfold bestTicket at hb
      simp only [Bool.and_eq_true, List.contains_eq_mem, decide_eq_true_eq] at hb
      exact hb.1,
    best := by
      unfold bestTicket at hb
      simp only [Bool.and_eq_true, List.all_eq_true, Bool.or_eq_true, beq_iff_eq, decide_eq_true_eq] at hb
      exact hb.2,
    base := (roundStart_spec h).base }

theorem table_ext {a b : Table} (h : a.entries = b.entries) : a = b := by
  cases a; cases b; simp_all

theorem tallyEmpty_ut {t : Table} {c : Chain} {H : List Pid} {T : Tally} (h : tallyEmpty T = true) :
    UTally t c H T ∧ T.senders = [] := by
  unfold tallyEmpty at h
  simp only [Bool.and_eq_true, List.isEmpty_iff, beq_iff_eq] at h
  obtain ⟨⟨h1, h2⟩, h3⟩ := h
  exact ⟨⟨by rw [h1]; simp, by rw [h1]; simp, by rw [h1, h2]; rfl, by rw [h1, h3]; simp⟩, h1⟩

structure NodeStart (g : RCtx) (p : Pid) (x : State) : Prop where
  inv : RInv g x
  phase : x.phase = .converge
  b2 : B2 g p x
  b3 : B3 g x
  b4 : B4 x

theorem nodeStart_spec (g : RCtx) (p : Pid) (hp : p ∈ g.H) (x : State)
    (h : nodeStartB g.t g.r g.b g.val g.jst p x = true) : NodeStart g p x := by
  unfold nodeStartB at h
  simp only [Bool.and_eq_true, beq_iff_eq, List.isEmpty_iff, Option.isNone_iff_eq_none] at h
  obtain ⟨⟨⟨⟨⟨⟨⟨⟨⟨⟨h1, h2⟩, h3⟩, h4⟩, h5⟩, h6⟩, h7⟩, h8⟩, h9⟩, h10⟩, h11⟩ := h
  obtain ⟨hP, hPs⟩ := tallyEmpty_ut (t := g.t) (c := g.v) (H := g.H) h8
  obtain ⟨hC, hCs⟩ := tallyEmpty_ut (t := g.t) (c := g.v) (H := g.H) h9
  obtain ⟨hD, hDs⟩ := tallyEmpty_ut (t := g.t) (c := g.v) (H := g.H) h10
  -- the converge state holds the member's own value only
  obtain ⟨cv, hv, hc1, hc2, hc3⟩ : ∃ cv, (x.getRound g.r).converged.values = [cv] ∧ cv.chain = g.val p ∧
      cv.just = g.jst p ∧ cv.rank = none := by
    cases hv : (x.getRound g.r).converged.values with
    | nil => rw [hv] at h7; simp at h7
    | cons cv rest =>
      cases rest with
      | nil =>
        rw [hv] at h7
        simp only [List.map_cons, List.map_nil, List.cons.injEq, Prod.mk.injEq, and_true] at h7
        exact ⟨cv, rfl, h7.1, h7.2.1, h7.2.2⟩
      | cons c2 r2 => rw [hv] at h7; simp at h7
  have hnext : x.getRound (g.r + 1) = {} := by
    unfold State.getRound
    rw [h5]
  refine ⟨⟨table_ext h1, h2, h3, hnext, ⟨?_, ?_, ?_⟩, ?_, ?_, hP, hC, hD, ?_⟩, h4, ?_, ?_, hDs⟩
  · rw [hv]; simp
  · intro cv' hcv' k hk
    rw [hv] at hcv'
    simp only [List.mem_singleton] at hcv'
    subst hcv'
    rw [hc3] at hk; cases hk
  · intro q hq
    rw [h6] at hq; cases hq
  · intro q hq
    rw [h6] at hq; cases hq
  · intro cv' hcv'
    rw [hv] at hcv'
    simp only [List.mem_singleton] at hcv'
    subst hcv'
    exact ⟨p, hp, hc1, hc2⟩
  · intro d hd
    rw [h11] at hd; cases hd
  · show p ∉ (x.getRound g.r).prepared.senders
    rw [hPs]; simp
  · show (x.getRound g.r).committed.hasStrongFor g.v = false
    rw [hC.hasStrongFor, hCs]; simp

theorem admAll_spec {H : List Pid} {w : Pid} {val : Pid → Chain} {jst : Pid → Just} {n : Net}
    (h : admAllB H w val jst n = true) {p : Pid} (hp : p ∈ H) {x : State} (hx : n.node? p = some x) :
    ∀ q ∈ H, val q = val w → admAt x (val w) (jst q) = true := by
  unfold admAllB at h
  rw [List.all_eq_true] at h
  have := h p hp
  rw [hx] at this
  dsimp only at this
  rw [List.all_eq_true] at this
  intro q hq hv
  have := this q hq
  simpa [hv] using this

/-- **the invariant holds at the start of the round** -/
theorem start_inv (g : RCtx) (n : Net) (hs : StartSpec g.rankOf g.t g.H g.r g.b g.val g.jst n)
    (hadm : admAllB g.H g.w g.val g.jst n = true) : NInvR g n.fails n := by
  refine ⟨hs.nodupN, ?_, rfl, ?_, ?_⟩
  · intro q hq
    obtain ⟨x, hx, _⟩ := hs.node q hq
    exact List.mem_map.2 ⟨(q, x), node?_mem hx, rfl⟩
  · intro m hm hrel
    obtain ⟨a1, a2, a3, a4, a5, a6, a7⟩ := hs.pool m hm hrel
    refine ⟨a6, a7, a2, ?_⟩
    rw [a1]
    have hr : m.round = g.r := by
      unfold relevant at hrel
      simp only [a1, Bool.or_eq_true, Bool.and_eq_true, beq_iff_eq] at hrel
      rcases hrel with h | h
      · exact h.1
      · cases h
    exact ⟨hr, a3, a4, a5⟩
  · intro q x hqH hq
    obtain ⟨x', hx', hns⟩ := hs.node q hqH
    have hxx : x' = x := nodes_unique hs.nodupN (node?_mem hx') hq
    subst hxx
    have ns := nodeStart_spec g q hqH x' hns
    refine ⟨ns.inv, ?_, ?_, ?_, ?_, ?_, ?_, ?_⟩
    · rw [ns.phase]
      exact ⟨ns.b2, ns.b3, ns.b4, admAll_spec hadm hqH hx'⟩
    · intro m hm hrel _
      exact (hs.deliv (q, m) hm hqH hrel).elim
    · exact hs.sent q hqH
    · intro h; rw [ns.phase] at h; rcases h with h | h <;> cases h
    · intro h; rw [ns.phase] at h; cases h
    · intro h; rw [ns.phase] at h; rcases h with h | h <;> cases h
    · rintro ⟨m, hm, hrel, _, hph⟩
      have := (hs.pool m hm hrel).1
      rw [hph] at this; cases this

/-! ## the theorems -/

/-- what holds after every admissible, round-synchronous execution from the start of the round -/
structure RoundFacts (H : List Pid) (r : Nat) (v : Chain) (f0 : List (Pid × Eff)) (n : Net) : Prop where
  /-- no new failure effect -/
  fails : n.fails = f0
  /-- every PREPARE / COMMIT of round `r` and every DECIDE on the wire is for `v`, from a member -/
  pool : ∀ m ∈ n.pool, (m.round = r ∧ (m.phase = .prepare ∨ m.phase = .commit)) ∨ m.phase = .decide →
    m.value = v ∧ m.sender ∈ H
  /-- every member is still in round `r`, past CONVERGE only after broadcasting PREPARE `v` (or on a COMMIT quorum /
  a DECIDE), in COMMIT only after broadcasting COMMIT `v`, in DECIDE or terminated only after broadcasting DECIDE `v`,
  and a decision is `v` -/
  node : ∀ p ∈ H, ∃ x, n.node? p = some x ∧ x.round = r ∧
    (x.phase = .converge ∨ x.phase = .prepare ∨ x.phase = .commit ∨ x.phase = .decide ∨ x.phase = .terminated) ∧
    (x.phase = .prepare ∨ x.phase = .commit → x.phase = .commit ∨ x.proposal = v) ∧
    (x.phase = .prepare ∨ x.phase = .commit →
      ∃ m ∈ n.pool, m.sender = p ∧ m.round = r ∧ m.phase = .prepare ∧ m.value = v) ∧
    (x.phase = .commit → ∃ m ∈ n.pool, m.sender = p ∧ m.round = r ∧ m.phase = .commit ∧ m.value = v) ∧
    (x.phase = .decide ∨ x.phase = .terminated → ∃ m ∈ n.pool, m.sender = p ∧ m.phase = .decide ∧ m.value = v) ∧
    (∀ d, x.termination = some d → d.value = v)

theorem roundFacts_of_inv {g : RCtx} {f0 : List (Pid × Eff)} {n : Net} (hn : NInvR g f0 n) :
    RoundFacts g.H g.r g.v f0 n := by
  refine ⟨hn.fails, ?_, ?_⟩
  · intro m hm hc
    have hrel : relevant g.r m = true := by
      unfold relevant
      rcases hc with ⟨h1, h2 | h2⟩ | h2
      · simp [h1, h2]
      · simp [h1, h2]
      · simp [h2]
    have hsh := hn.pool m hm hrel
    rcases hc with ⟨_, h2 | h2⟩ | h2
    · exact ⟨(hsh.prep h2).2, hsh.2.2.1⟩
    · exact ⟨(hsh.comm h2).2.1, hsh.2.2.1⟩
    · exact ⟨(hsh.dec h2).2, hsh.2.2.1⟩
  · intro p hp
    obtain ⟨x, hx, hmem⟩ := node?_ex hn hp
    have hno := hn.node p x hp hmem
    have hmsg : ∀ ph, ph = .prepare ∨ ph = .commit → hasMsgR g.r n.pool p ph →
        ∃ m ∈ n.pool, m.sender = p ∧ m.round = g.r ∧ m.phase = ph ∧ m.value = g.v := by
      rintro ph hph ⟨m, hm, hrel, h1, h2⟩
      have hsh := hn.pool m hm hrel
      rcases hph with rfl | rfl
      · exact ⟨m, hm, h1, (hsh.prep h2).1, h2, (hsh.prep h2).2⟩
      · exact ⟨m, hm, h1, (hsh.comm h2).1, h2, (hsh.comm h2).2.1⟩
    refine ⟨x, hx, hno.inv.round, ?_, ?_, ?_, ?_, ?_, hno.inv.term⟩
    · have hpi := hno.pi
      cases hph : x.phase <;> rw [hph] at hpi <;> first | exact hpi.elim | simp
    · intro h
      have hpi := hno.pi
      rcases h with h | h
      · rw [h] at hpi; exact Or.inr hpi.1
      · exact Or.inl h
    · exact fun h => hmsg _ (Or.inl rfl) (hno.sentP h)
    · exact fun h => hmsg _ (Or.inr rfl) (hno.sentC h)
    · intro h
      obtain ⟨m, hm, hrel, h1, h2⟩ := hno.sentD h
      exact ⟨m, hm, h1, h2, ((hn.pool m hm hrel).dec h2).2⟩

/-- **Round `r` decides, from any state of the round.** `RoundStart` is only one way to establish the network
invariant `NInvR` (all members have entered round `r` and nothing of round `r` has been handed over yet); the invariant
itself also describes every later state of the round (members in different phases, CONVERGEs partly handed over), and
from any such state a complete round-synchronous continuation in which nobody is left waiting for the CONVERGE timer ends
with every member terminated with `g.v = val w`. -/
theorem round_r_decides_of_inv {g : RCtx} {f0 : List (Pid × Eff)} {n : Net} (hn0 : NInvR g f0 n) (ops : List NetOp)
    (hexec : execOkR g.rankOf n ops = true) (hsync : syncOkR g.rankOf g.r g.H n ops = true)
    (hcomplete : completeR g.r g.H (runNetR g.rankOf n ops) = true)
    (hconv : noneInConverge g.H (runNetR g.rankOf n ops) = true) :
    (runNetR g.rankOf n ops).fails = f0 ∧
    ∀ p ∈ g.H, ∃ x d, (runNetR g.rankOf n ops).node? p = some x ∧ x.phase = .terminated ∧ x.round = g.r ∧
      x.termination = some d ∧ d.value = g.v := by
  have hn := runNetR_inv ops hn0 hexec hsync
  refine ⟨hn.fails, fun p hp => ?_⟩
  obtain ⟨x, hx, hmem⟩ := node?_ex hn hp
  have hterm := complete_terminatedR hn hcomplete hconv p x hp hmem
  obtain ⟨d, hd, hdv⟩ := terminated_valueR hn hp hmem hterm
  exact ⟨x, d, hx, hterm, (hn.node p x hp hmem).inv.round, hd, hdv⟩

/-- **Round `r`, safety part.** From a `RoundStart` whose strictly best ticket holder `w` has a value admissible at
every member, every admissible (`execOkR`) and round-synchronous (`SyncOrderedR`) execution keeps `RoundFacts`. -/
theorem round_r_invariant (rankOf : Pid → Nat → Nat) (t : Table) (H : List Pid) (r b : Nat) (val : Pid → Chain)
    (jst : Pid → Just) (w : Pid) (n : Net) (ops : List NetOp)
    (hstart : RoundStart rankOf t H r b val jst n) (hbest : bestTicket rankOf H r w = true)
    (hadm : admAllB H w val jst n = true)
    (hexec : execOkR rankOf n ops = true) (hsync : SyncOrderedR rankOf r H n ops) :
    RoundFacts H r (val w) n.fails (runNetR rankOf n ops) := by
  have hn0 := start_inv (rctxOf rankOf t H r b val jst w n hstart hbest) n (roundStart_spec hstart) hadm
  exact roundFacts_of_inv (runNetR_inv (g := rctxOf rankOf t H r b val jst w n hstart hbest) ops hn0 hexec hsync)

/-- **Round `r` decides.** If moreover the execution is complete for round `r` (every CONVERGE / PREPARE / COMMIT of
round `r` and every DECIDE in the pool has been handed to every member) and no member is left waiting for its CONVERGE
timer, then every member has terminated, in round `r`, with decision `val w`. -/
theorem round_r_decides (rankOf : Pid → Nat → Nat) (t : Table) (H : List Pid) (r b : Nat) (val : Pid → Chain)
    (jst : Pid → Just) (w : Pid) (n : Net) (ops : List NetOp)
    (hstart : RoundStart rankOf t H r b val jst n) (hbest : bestTicket rankOf H r w = true)
    (hadm : admAllB H w val jst n = true)
    (hexec : execOkR rankOf n ops = true) (hsync : SyncOrderedR rankOf r H n ops)
    (hcomplete : completeR r H (runNetR rankOf n ops) = true)
    (hconv : noneInConverge H (runNetR rankOf n ops) = true) :
    ∀ p ∈ H, ∃ x d, (runNetR rankOf n ops).node? p = some x ∧ x.phase = .terminated ∧ x.round = r ∧
      x.termination = some d ∧ d.value = val w ∧
      ∃ m ∈ (runNetR rankOf n ops).pool, m.sender = p ∧ m.phase = .decide ∧ m.value = val w := by
  have hn0 := start_inv (rctxOf rankOf t H r b val jst w n hstart hbest) n (roundStart_spec hstart) hadm
  have hn := runNetR_inv (g := rctxOf rankOf t H r b val jst w n hstart hbest) ops hn0 hexec hsync
  intro p hp
  obtain ⟨x, hx, hmem⟩ := node?_ex hn hp
  have hterm := complete_terminatedR hn hcomplete hconv p x hp hmem
  obtain ⟨d, hd, hdv⟩ := terminated_valueR hn hp hmem hterm
  obtain ⟨_, _, _, _, _, _, hD, _⟩ := (roundFacts_of_inv hn).node p hp |>.choose_spec
  have hno := hn.node p x hp hmem
  obtain ⟨m, hm, hrel, h1, h2⟩ := hno.sentD (Or.inr hterm)
  exact ⟨x, d, hx, hterm, hno.inv.round, hd, hdv, m, hm, h1, h2, ((hn.pool m hm hrel).dec h2).2⟩

end F3.Liveness
