import F3.Model.Cache
/-!
Lemmas about the cache model (`F3.Cache`): what can be a member after each operation. These carry the
validation-cache invariant of C05 *through evictions*: every operation (look-up with its recency update,
insert with flip/flop rotation and group eviction, pruning) only ever keeps old members or adds the one
key being inserted.
-/
set_option linter.unusedSectionVars false
set_option linter.unusedSimpArgs false
namespace F3.Cache

variable {κ : Type}

theorem lookup_mem {gs : List (Nat × FlipFlop κ)} {g : Nat} {s : FlipFlop κ}
    (h : lookup gs g = some s) : (g, s) ∈ gs := by
  induction gs with
  | nil => simp [lookup] at h
  | cons p t ih =>
    obtain ⟨g', s'⟩ := p
    unfold lookup at h
    split at h
    · rename_i hg
      cases h
      subst hg
      exact List.mem_cons_self
    · exact List.mem_cons_of_mem _ (ih h)

theorem lookup_none_not_mem {gs : List (Nat × FlipFlop κ)} {g : Nat}
    (h : lookup gs g = none) (s : FlipFlop κ) : (g, s) ∉ gs := by
  induction gs with
  | nil => simp
  | cons p t ih =>
    obtain ⟨g', s'⟩ := p
    unfold lookup at h
    split at h
    · simp at h
    · rename_i hg
      intro hm
      rcases List.mem_cons.mp hm with h1 | h1
      · cases h1; exact hg rfl
      · exact ih h h1

variable [DecidableEq κ]

/-- A hit is a member. -/
theorem mem_of_contains {c : GroupedSet κ} {g : Nat} {k : κ}
    (h : (c.contains g k).1 = true) : c.mem g k := by
  unfold GroupedSet.contains at h
  split at h
  · rename_i s hs
    exact ⟨s, lookup_mem hs, h⟩
  · simp at h

/-- A look-up only reorders groups. -/
theorem mem_after_contains {c : GroupedSet κ} {g : Nat} {k : κ} {g' : Nat} {k' : κ}
    (h : (c.contains g k).2.mem g' k') : c.mem g' k' := by
  unfold GroupedSet.contains at h
  split at h
  · rename_i s hs
    obtain ⟨s', hm, hc⟩ := h
    simp only [List.mem_cons] at hm
    rcases hm with hm | hm
    · cases hm
      exact ⟨s, lookup_mem hs, hc⟩
    · exact ⟨s', (List.mem_filter.mp hm).1, hc⟩
  · exact h

theorem FlipFlop.contains_new (n : Nat) (k : κ) : (FlipFlop.new n : FlipFlop κ).contains k = false := by
  simp [FlipFlop.new, FlipFlop.contains]

theorem FlipFlop.containsOrAdd_hit {s : FlipFlop κ} {k : κ} (h : s.contains k = true) :
    s.containsOrAdd k = (true, s) := by
  unfold FlipFlop.containsOrAdd; simp [h]

theorem FlipFlop.containsOrAdd_rotate {s : FlipFlop κ} {k : κ} (h : ¬ s.contains k = true)
    (hl : (k :: s.flip).length ≥ s.maxSize) :
    s.containsOrAdd k = (false, { s with flip := [], flop := k :: s.flip }) := by
  unfold FlipFlop.containsOrAdd; simp [h]; simpa using hl

theorem FlipFlop.containsOrAdd_keep {s : FlipFlop κ} {k : κ} (h : ¬ s.contains k = true)
    (hl : ¬ (k :: s.flip).length ≥ s.maxSize) :
    s.containsOrAdd k = (false, { s with flip := k :: s.flip }) := by
  unfold FlipFlop.containsOrAdd; simp [h]; simpa using hl

/-- Insertion into a flip/flop set keeps old members (possibly dropping the old generation) or adds `k`. -/
theorem FlipFlop.mem_after_containsOrAdd {s : FlipFlop κ} {k k' : κ}
    (h : (s.containsOrAdd k).2.contains k' = true) : s.contains k' = true ∨ k' = k := by
  by_cases hc : s.contains k = true
  · rw [FlipFlop.containsOrAdd_hit hc] at h
    exact Or.inl h
  · by_cases hl : (k :: s.flip).length ≥ s.maxSize
    · rw [FlipFlop.containsOrAdd_rotate hc hl] at h
      simp only [FlipFlop.contains, List.contains_nil, Bool.false_or, List.contains_cons,
        Bool.or_eq_true, beq_iff_eq] at h
      rcases h with h | h
      · exact Or.inr h
      · left
        unfold FlipFlop.contains; rw [Bool.or_eq_true]; exact Or.inl h
    · rw [FlipFlop.containsOrAdd_keep hc hl] at h
      simp only [FlipFlop.contains, List.contains_cons, Bool.or_eq_true, beq_iff_eq] at h
      rcases h with (h | h) | h
      · exact Or.inr h
      · left; unfold FlipFlop.contains; rw [Bool.or_eq_true]; exact Or.inl h
      · left; unfold FlipFlop.contains; rw [Bool.or_eq_true]; exact Or.inr h

/-- After an insertion the key is present (the newest key always survives the rotation). -/
theorem FlipFlop.contains_after_containsOrAdd (s : FlipFlop κ) (k : κ) :
    (s.containsOrAdd k).2.contains k = true := by
  by_cases hc : s.contains k = true
  · rw [FlipFlop.containsOrAdd_hit hc]; exact hc
  · by_cases hl : (k :: s.flip).length ≥ s.maxSize
    · rw [FlipFlop.containsOrAdd_rotate hc hl]; simp [FlipFlop.contains]
    · rw [FlipFlop.containsOrAdd_keep hc hl]; simp [FlipFlop.contains]

omit [DecidableEq κ] in
theorem mem_replaceGroup {gs : List (Nat × FlipFlop κ)} {g : Nat} {s : FlipFlop κ}
    {p : Nat × FlipFlop κ} (h : p ∈ replaceGroup gs g s) : p ∈ gs ∨ p = (g, s) := by
  induction gs with
  | nil => simp [replaceGroup] at h
  | cons q t ih =>
    obtain ⟨g', s'⟩ := q
    unfold replaceGroup at h
    split at h
    · rcases List.mem_cons.mp h with h1 | h1
      · exact Or.inr h1
      · exact Or.inl (List.mem_cons_of_mem _ h1)
    · rcases List.mem_cons.mp h with h1 | h1
      · exact Or.inl (h1 ▸ List.mem_cons_self)
      · rcases ih h1 with h2 | h2
        · exact Or.inl (List.mem_cons_of_mem _ h2)
        · exact Or.inr h2

/-- An insert keeps old members (minus whatever flip/flop rotation or group eviction drops) or adds
exactly `(g, k)`. -/
theorem mem_after_add {c : GroupedSet κ} {g : Nat} {k : κ} {g' : Nat} {k' : κ}
    (h : (c.add g k).2.mem g' k') : c.mem g' k' ∨ (g' = g ∧ k' = k) := by
  unfold GroupedSet.add at h
  split at h
  · rename_i s hs
    obtain ⟨s', hm, hc⟩ := h
    rcases mem_replaceGroup hm with h1 | h1
    · exact Or.inl ⟨s', h1, hc⟩
    · cases h1
      rcases FlipFlop.mem_after_containsOrAdd hc with h2 | h2
      · exact Or.inl ⟨s, lookup_mem hs, h2⟩
      · exact Or.inr ⟨rfl, h2⟩
  · obtain ⟨s', hm, hc⟩ := h
    simp only [List.mem_cons] at hm
    rcases hm with hm | hm
    · cases hm
      rcases FlipFlop.mem_after_containsOrAdd hc with h2 | h2
      · rw [FlipFlop.contains_new] at h2; cases h2
      · exact Or.inr ⟨rfl, h2⟩
    · left
      refine ⟨s', ?_, hc⟩
      split at hm
      · exact List.dropLast_subset _ hm
      · exact hm

theorem mem_after_removeLessThan {c : GroupedSet κ} {n g : Nat} {k : κ}
    (h : (c.removeLessThan n).mem g k) : c.mem g k := by
  obtain ⟨s, hm, hc⟩ := h
  exact ⟨s, (List.mem_filter.mp hm).1, hc⟩

/-- Pruning really removes: nothing below the bound stays. -/
theorem removeLessThan_bound {c : GroupedSet κ} {n g : Nat} {k : κ}
    (h : (c.removeLessThan n).mem g k) : n ≤ g := by
  obtain ⟨s, hm, _⟩ := h
  have := (List.mem_filter.mp hm).2
  simpa using this

theorem not_mem_new (a b g : Nat) (k : κ) : ¬ (GroupedSet.new a b : GroupedSet κ).mem g k := by
  rintro ⟨s, hm, _⟩
  simp [GroupedSet.new] at hm

/-- `peek` decides membership when group ids are unique; in general a `peek` hit is a member. -/
theorem mem_of_peek {c : GroupedSet κ} {g : Nat} {k : κ} (h : c.peek g k = true) : c.mem g k := by
  unfold GroupedSet.peek at h
  split at h
  · rename_i s hs
    exact ⟨s, lookup_mem hs, h⟩
  · cases h

/-! ### capacity -/

/-- Size invariant of a flip/flop set: the young generation is strictly below `maxSize`, the old one at most `maxSize`. -/
def FlipFlop.bounded (s : FlipFlop κ) : Prop :=
  1 ≤ s.maxSize ∧ s.flip.length < s.maxSize ∧ s.flop.length ≤ s.maxSize

theorem FlipFlop.bounded_new (n : Nat) : (FlipFlop.new n : FlipFlop κ).bounded := by
  unfold FlipFlop.new FlipFlop.bounded
  simp only [List.length_nil]
  omega

theorem FlipFlop.bounded_containsOrAdd {s : FlipFlop κ} (h : s.bounded) (k : κ) :
    (s.containsOrAdd k).2.bounded ∧ (s.containsOrAdd k).2.maxSize = s.maxSize := by
  obtain ⟨h1, h2, h3⟩ := h
  by_cases hc : s.contains k = true
  · rw [FlipFlop.containsOrAdd_hit hc]; exact ⟨⟨h1, h2, h3⟩, rfl⟩
  · by_cases hl : (k :: s.flip).length ≥ s.maxSize
    · rw [FlipFlop.containsOrAdd_rotate hc hl]
      simp only [List.length_cons] at hl
      refine ⟨⟨h1, ?_, ?_⟩, rfl⟩
      · show 0 < s.maxSize
        omega
      · show (k :: s.flip).length ≤ s.maxSize
        simp only [List.length_cons]
        omega
    · rw [FlipFlop.containsOrAdd_keep hc hl]
      simp only [List.length_cons] at hl
      refine ⟨⟨h1, ?_, h3⟩, rfl⟩
      show (k :: s.flip).length < s.maxSize
      simp only [List.length_cons]
      omega

/-- Size invariant of the grouped cache: at most `max 1 maxGroups` groups, each a bounded set of the configured size. -/
def GroupedSet.bounded (c : GroupedSet κ) : Prop :=
  c.groups.length ≤ max 1 c.maxGroups ∧
    ∀ p ∈ c.groups, p.2.bounded ∧ p.2.maxSize = max 1 c.maxSetSize

theorem bounded_new (a b : Nat) : (GroupedSet.new a b : GroupedSet κ).bounded := by
  unfold GroupedSet.new GroupedSet.bounded
  simp

omit [DecidableEq κ] in
theorem filter_ne_length_lt {l : List (Nat × FlipFlop κ)} {g : Nat} {s : FlipFlop κ} (h : (g, s) ∈ l) :
    (l.filter (fun p => p.1 ≠ g)).length < l.length := by
  induction l with
  | nil => simp at h
  | cons x t ih =>
    rcases List.mem_cons.mp h with h1 | h1
    · subst h1
      simp only [ne_eq, not_true_eq_false, decide_false, Bool.false_eq_true, not_false_eq_true,
        List.filter_cons_of_neg, List.length_cons]
      have := List.length_filter_le (fun p : Nat × FlipFlop κ => decide (¬ p.1 = g)) t
      omega
    · have := ih h1
      by_cases hx : x.1 ≠ g
      · simp only [ne_eq, hx, not_false_eq_true, decide_true, List.filter_cons_of_pos, List.length_cons]
        simp only [ne_eq] at this
        omega
      · simp only [ne_eq, hx, decide_false, Bool.false_eq_true, not_false_eq_true, List.filter_cons_of_neg, List.length_cons]
        simp only [ne_eq] at this
        omega

theorem bounded_contains {c : GroupedSet κ} (h : c.bounded) (g : Nat) (k : κ) :
    (c.contains g k).2.bounded ∧ (c.contains g k).2.maxGroups = c.maxGroups ∧
      (c.contains g k).2.maxSetSize = c.maxSetSize := by
  unfold GroupedSet.contains
  split
  · rename_i s hs
    have hm := lookup_mem hs
    refine ⟨⟨?_, ?_⟩, rfl, rfl⟩
    · simp only [List.length_cons]
      have := filter_ne_length_lt hm
      have := h.1
      omega
    · intro p hp
      simp only [List.mem_cons] at hp
      rcases hp with hp | hp
      · subst hp; exact h.2 _ hm
      · exact h.2 _ (List.mem_filter.mp hp).1
  · exact ⟨h, rfl, rfl⟩

omit [DecidableEq κ] in
theorem length_replaceGroup (gs : List (Nat × FlipFlop κ)) (g : Nat) (s : FlipFlop κ) :
    (replaceGroup gs g s).length = gs.length := by
  induction gs with
  | nil => rfl
  | cons x t ih =>
    obtain ⟨g', s'⟩ := x
    unfold replaceGroup
    split <;> simp [ih]

theorem bounded_add {c : GroupedSet κ} (h : c.bounded) (g : Nat) (k : κ) :
    (c.add g k).2.bounded ∧ (c.add g k).2.maxGroups = c.maxGroups ∧
      (c.add g k).2.maxSetSize = c.maxSetSize := by
  unfold GroupedSet.add
  split
  · rename_i s hs
    have hm := lookup_mem hs
    have hsb := h.2 _ hm
    have hnew := FlipFlop.bounded_containsOrAdd hsb.1 k
    refine ⟨⟨?_, ?_⟩, rfl, rfl⟩
    · simp only [length_replaceGroup]; exact h.1
    · intro p hp
      rcases mem_replaceGroup hp with h1 | h1
      · exact h.2 _ h1
      · subst h1
        exact ⟨hnew.1, hnew.2.trans hsb.2⟩
  · have hnew := FlipFlop.bounded_containsOrAdd (FlipFlop.bounded_new (κ := κ) c.maxSetSize) k
    refine ⟨⟨?_, ?_⟩, rfl, rfl⟩
    · simp only [List.length_cons]
      split
      · rename_i hge
        simp only [List.length_dropLast]
        have := h.1
        omega
      · rename_i hlt
        omega
    · intro p hp
      simp only [List.mem_cons] at hp
      rcases hp with hp | hp
      · subst hp
        exact ⟨hnew.1, hnew.2⟩
      · refine h.2 _ ?_
        split at hp
        · exact List.dropLast_subset _ hp
        · exact hp

theorem bounded_removeLessThan {c : GroupedSet κ} (h : c.bounded) (n : Nat) :
    (c.removeLessThan n).bounded := by
  unfold GroupedSet.removeLessThan GroupedSet.bounded
  refine ⟨Nat.le_trans (List.length_filter_le _ _) h.1, ?_⟩
  intro p hp
  exact h.2 _ (List.mem_filter.mp hp).1

end F3.Cache
