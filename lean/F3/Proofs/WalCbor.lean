import F3.Model.WalCbor
import F3.Proofs.WalCborTorn
import F3.Proofs.WalCodec
/-!
# cbor-gen records satisfy the codec facts the WAL relies on (C11 × C14)

`cborCodec_ok`: for every well-formed schema of a Go type, `cborCodec sch` is `Codec.Ok`:
non-empty encodings, self-delimiting round trip with arbitrary trailing bytes, and **no strict prefix
of an encoding decodes** (torn at any byte).  `readFile_raw_eq`: on every file content the WAL can
produce (complete records, possibly followed by a prefix of one more record) the reader with and
without the re-check of `cborCodec.dec1` return the same values.
-/
namespace F3.Wal
open F3.Cbor F3.Codec

theorem Rec.enc_spec {sch : Schema} (r : Rec sch) : encode sch r.1 = some ((cborCodec sch).enc r) := by
  obtain ⟨v, h⟩ := r
  simp only [cborCodec]
  cases he : encode sch v with
  | none => simp [he] at h
  | some b => rfl

/-- what the encoder accepts is within the limits the decoder enforces -/
theorem Rec.within {sch : Schema} (hwf : sch.wf = true) (r : Rec sch) : Value.within sch r.1 = true :=
  decode_ok_within sch hwf _ r.1 [] (decode_encode sch hwf r.1 _ [] r.enc_spec)

theorem cborCodec_roundtrip {sch : Schema} (hwf : sch.wf = true) (r : Rec sch) (rest : Bytes) :
    (cborCodec sch).dec1 ((cborCodec sch).enc r ++ rest) = some (r, rest) := by
  have hd := decode_encode sch hwf r.1 _ rest r.enc_spec
  simp only [cborCodec] at hd ⊢
  rw [hd]
  simp [r.2]

theorem cborCodec_torn {sch : Schema} (hwf : sch.wf = true) (r : Rec sch) (n : Nat)
    (hn : n < ((cborCodec sch).enc r).length) : (cborCodec sch).dec1 (((cborCodec sch).enc r).take n) = none := by
  have hd := decode_torn sch hwf r.1 _ r.enc_spec _ (sprefix_take _ n hn)
  simp only [cborCodec] at hd ⊢
  rw [hd]

/-- **cbor-gen records are a WAL codec.** For every well-formed schema of a Go type (in particular
every entry of the regenerated table): encodings are non-empty, `decode (encode v ++ rest) = (v, rest)`,
and the decoder fails on every strict prefix of an encoding. -/
theorem cborCodec_ok (sch : Schema) (hwf : sch.wf = true) (hr : sch.isRecord = true) : (cborCodec sch).Ok where
  nonempty := fun r => encode_ne_nil sch hwf hr r.1 _ r.enc_spec
  roundtrip := cborCodec_roundtrip hwf
  torn := cborCodec_torn hwf

/-! ### the reader without the re-check -/

theorem rawCodec_roundtrip {sch : Schema} (hwf : sch.wf = true) (r : Rec sch) (rest : Bytes) :
    (rawCodec sch).dec1 ((cborCodec sch).enc r ++ rest) = some (r.1, rest) := by
  have hd := decode_encode sch hwf r.1 _ rest r.enc_spec
  simp only [rawCodec]
  rw [hd]

theorem rawCodec_torn {sch : Schema} (hwf : sch.wf = true) (r : Rec sch) (n : Nat)
    (hn : n < ((cborCodec sch).enc r).length) : (rawCodec sch).dec1 (((cborCodec sch).enc r).take n) = none := by
  have hd := decode_torn sch hwf r.1 _ r.enc_spec _ (sprefix_take _ n hn)
  simp only [rawCodec]
  rw [hd]

theorem rawCodec_nil {sch : Schema} (hr : sch.isRecord = true) : (rawCodec sch).dec1 [] = none := by
  simp only [rawCodec, decode_nil sch hr]

theorem decAll_raw_append {sch : Schema} (hwf : sch.wf = true) (es : List (Rec sch)) (t : Bytes) (n : Nat) :
    decAll (rawCodec sch) (es.length + n) (encAll (cborCodec sch) es ++ t) =
      es.map (·.1) ++ decAll (rawCodec sch) n t := by
  induction es with
  | nil => simp [encAll]
  | cons e es ih =>
    have : (e :: es).length + n = (es.length + n) + 1 := by simp; omega
    rw [this, encAll_cons, List.append_assoc]
    simp only [decAll, rawCodec_roundtrip hwf]
    rw [ih]; rfl

theorem decAll_raw_nil {sch : Schema} (hr : sch.isRecord = true) (n : Nat) : decAll (rawCodec sch) n [] = [] := by
  cases n with
  | zero => rfl
  | succ n => simp [decAll, rawCodec_nil hr]

/-- **The re-check of `cborCodec.dec1` is never exercised**: on complete records followed by any prefix
(`take k`, torn or complete) of one more record, plain `UnmarshalCBOR`-until-error returns exactly the
values the codec reader returns. -/
theorem readFile_raw_eq {sch : Schema} (hwf : sch.wf = true) (hr : sch.isRecord = true)
    (es : List (Rec sch)) (e : Rec sch) (k : Nat) :
    readFile (rawCodec sch) (encAll (cborCodec sch) es ++ ((cborCodec sch).enc e).take k) =
      (readFile (cborCodec sch) (encAll (cborCodec sch) es ++ ((cborCodec sch).enc e).take k)).map (·.1) := by
  have hok := cborCodec_ok sch hwf hr
  rw [readFile_encAll_take hok]
  by_cases hk : k < ((cborCodec sch).enc e).length
  · rw [if_pos hk]
    unfold readFile
    have hl := encAll_length_ge hok es
    obtain ⟨n, hn⟩ : ∃ n, (encAll (cborCodec sch) es ++ ((cborCodec sch).enc e).take k).length + 1 = es.length + n :=
      ⟨(encAll (cborCodec sch) es ++ ((cborCodec sch).enc e).take k).length + 1 - es.length, by
        rw [List.length_append]; omega⟩
    rw [hn, decAll_raw_append hwf]
    cases n with
    | zero => simp [decAll]
    | succ n => simp [decAll, rawCodec_torn hwf e k hk]
  · rw [if_neg hk, List.take_of_length_le (by omega)]
    have hcat : encAll (cborCodec sch) es ++ (cborCodec sch).enc e = encAll (cborCodec sch) (es ++ [e]) ++ [] := by
      rw [encAll_append, encAll_singleton, List.append_nil]
    rw [hcat]
    unfold readFile
    have hl := encAll_length_ge hok (es ++ [e])
    obtain ⟨n, hn⟩ : ∃ n, (encAll (cborCodec sch) (es ++ [e]) ++ []).length + 1 = (es ++ [e]).length + n :=
      ⟨(encAll (cborCodec sch) (es ++ [e]) ++ []).length + 1 - (es ++ [e]).length, by
        rw [List.append_nil]; omega⟩
    rw [hn, decAll_raw_append hwf, decAll_raw_nil hr, List.append_nil]

/-- the same for a file of complete records only -/
theorem readFile_raw_eq_complete {sch : Schema} (hwf : sch.wf = true) (hr : sch.isRecord = true)
    (es : List (Rec sch)) :
    readFile (rawCodec sch) (encAll (cborCodec sch) es) =
      (readFile (cborCodec sch) (encAll (cborCodec sch) es)).map (·.1) := by
  have hok := cborCodec_ok sch hwf hr
  rw [readFile_encAll hok]
  unfold readFile
  have hl := encAll_length_ge hok es
  obtain ⟨n, hn⟩ : ∃ n, (encAll (cborCodec sch) es).length + 1 = es.length + n :=
    ⟨(encAll (cborCodec sch) es).length + 1 - es.length, by omega⟩
  have h := decAll_raw_append hwf es [] n
  rw [List.append_nil] at h
  rw [hn, h, decAll_raw_nil hr, List.append_nil]

end F3.Wal
