import F3.Proofs.InstanceGuards
/-! Layer B, per-function lemmas: every function of the model keeps `GInv` and emits only guarded broadcasts. -/
namespace F3.Instance

variable {W : Votes} {me : Pid}

/-- the core survives any change that leaves table, input, rounds, decision tally alone, only adds justified
candidates, keeps the proposal non-bottom and moves the progress point forward -/
theorem GCore.mono {s s' : State} (h : GCore W s) (ht : s'.tbl = s.tbl) (hi : s'.input = s.input)
    (hr : s'.rounds = s.rounds) (hd : s'.decision = s.decision) (hle : ptLe s.pt s'.pt)
    (hc : ∀ c ∈ s'.candidates, c ∈ s.candidates ∨ CandOK W s' c) (hp : s'.proposal ≠ []) : GCore W s' := by
  refine ⟨by rw [ht, hr]; exact h.rounds, by rw [ht, hd]; exact h.decision, ?_, by rw [hi]; exact h.inputNe, hp,
    by rw [ht]; exact h.totalPos⟩
  intro c hc'
  rcases hc c hc' with hold | hnew
  · exact (h.cands c hold).mono ht hi hle
  · exact hnew

theorem ptLe_refl (a : Pt) : ptLe a a := Or.inl rfl

theorem ptLe_same_round {s s' : State} (hr : s'.round = s.round) (hp : s.phase.toNat ≤ s'.phase.toNat)
    (h5 : s.phase.toNat < 5 ∨ s'.phase = s.phase) : ptLe s.pt s'.pt := by
  by_cases heq : s'.phase.toNat = s.phase.toNat
  · left; simp [State.pt, hr, heq]
  · right
    refine ⟨Or.inr ⟨by simp [State.pt, hr], by simp only [State.pt]; omega⟩, fun h => by simp [State.pt, hr]⟩

/-! ### effects of the `begin*` functions -/

theorem beginPrepare_bc (s : State) (now : Int) (j : Option Just) (r : Nat) (ph : Phase) (v : Chain) (tk : Bool)
    (j' : Option Just) (h : Eff.broadcast r ph v tk j' ∈ (s.beginPrepare now j).2) :
    r = s.round ∧ ph = .prepare ∧ v = s.value := by
  unfold State.beginPrepare State.alarmAfter State.resetReb at h
  simp at h
  exact ⟨h.1, h.2.1, h.2.2.1⟩

theorem beginCommit_bc (s : State) (now : Int) (r : Nat) (ph : Phase) (v : Chain) (tk : Bool)
    (j' : Option Just) (h : Eff.broadcast r ph v tk j' ∈ (s.beginCommit now).2) :
    r = s.round ∧ ph = .commit ∧ v = s.value ∧
      (v ≠ [] → ∃ j, j' = some j ∧ ({ s with phase := .commit, phaseTimeout := now + s.roundTimeout } : State).resetReb.commitJust = .ok j) := by
  unfold State.beginCommit State.alarmAfter at h
  dsimp only at h
  split at h
  · rename_i he
    simp at h
    refine ⟨h.1, h.2.1, h.2.2.1, fun hne => ?_⟩
    rw [h.2.2.1] at hne
    exact absurd (by simpa [State.resetReb] using he) hne
  · split at h
    · rename_i j hj
      simp at h
      refine ⟨h.1, h.2.1, h.2.2.1, fun _ => ⟨j, h.2.2.2.2, ?_⟩⟩
      simpa [State.roundTimeout] using hj
    · simp at h

theorem beginDecide_bc (s : State) (round : Nat) (r : Nat) (ph : Phase) (v : Chain) (tk : Bool)
    (j' : Option Just) (h : Eff.broadcast r ph v tk j' ∈ (s.beginDecide round).2) :
    r = 0 ∧ ph = .decide ∧ v = s.value ∧
      ∃ sg, (s.getRound round).committed.findStrongQuorumFor s.tbl s.value = .found sg := by
  unfold State.beginDecide State.resetReb at h
  dsimp only at h
  split at h
  · rename_i sg hsg
    simp at h
    exact ⟨h.1, h.2.1, h.2.2.1, sg, by simpa [State.getRound] using hsg⟩
  · simp at h
  · simp at h

theorem beginConverge_bc (s : State) (now : Int) (j : Just) (r : Nat) (ph : Phase) (v : Chain) (tk : Bool)
    (j' : Option Just) (h : Eff.broadcast r ph v tk j' ∈ (s.beginConverge now j).2) : ph = .converge := by
  unfold State.beginConverge State.alarmAfter State.resetReb State.setRound at h
  dsimp only at h
  split at h
  · simp at h
  · simp at h; exact h.2.1

/-! ### tryRebroadcast -/

theorem tryRebroadcast_ginv {s : State} (now : Int) (h : GInv W me s) : GInv W me (s.tryRebroadcast now).1 := by
  have hph := tryRebroadcast_phase s now
  have hrd := tryRebroadcast_round s now
  refine ⟨h.core.mono (by simp) (by simp) (by simp) (by simp) (by rw [tryRebroadcast_pt]; exact ptLe_refl _)
    (fun c hc => Or.inl (by simpa using hc)) (by simpa using h.core.propNe), ?_, ?_⟩
  · intro hp
    rw [hph] at hp
    simpa [hrd] using h.ownPrep hp
  · intro he
    rw [hph] at he
    rw [hrd]; exact h.early he

theorem tryRebroadcast_gok {s : State} (now : Int) (h : GInv W me s) : GOK W me s (s.tryRebroadcast now) :=
  Or.inr fun _ => ⟨tryRebroadcast_ginv now h, Guarded_of_evs_nil (tryRebroadcast_evs s now)⟩


/-! ### tryQuality -/

theorem tryQuality_gok {s : State} (now : Int) (h : GInv W me s) : GOK W me s (s.tryQuality now) := by
  unfold State.tryQuality
  dsimp only
  split
  · exact GOK.fail (by simp)
  · rename_i hph
    have hq : s.phase = .quality := by simpa using hph
    have hr0 : s.round = 0 := h.early (by simp [hq, Phase.toNat])
    split
    · refine Or.inr fun hown => ?_
      -- the intermediate state
      generalize hs3 : ({ (({ s with proposal := s.quality.longestPrefixWithQuorum s.input } : State).addCandidatePrefixes
        (s.quality.longestPrefixWithQuorum s.input)).1 with
          value := (({ s with proposal := s.quality.longestPrefixWithQuorum s.input } : State).addCandidatePrefixes
            (s.quality.longestPrefixWithQuorum s.input)).1.proposal } : State) = s3 at *
      have hprop : s3.proposal = s.quality.longestPrefixWithQuorum s.input := by rw [← hs3]; simp
      have hval : s3.value = s3.proposal := by rw [← hs3]
      have hrd : s3.round = s.round := by rw [← hs3]; simp
      have hph3 : s3.phase = s.phase := by rw [← hs3]; simp
      obtain ⟨hpre, hpne⟩ := longest_prefix_facts s.quality s.input h.core.inputNe
      have hres_round : (s3.beginPrepare now none).1.round = s.round := by
        unfold State.beginPrepare State.alarmAfter State.resetReb; simpa using hrd
      have hres_phase : (s3.beginPrepare now none).1.phase = .prepare := by
        unfold State.beginPrepare State.alarmAfter State.resetReb; rfl
      have hres_prop : (s3.beginPrepare now none).1.proposal = s.quality.longestPrefixWithQuorum s.input := by
        simp [hprop]
      -- own vote
      have hbc : Eff.broadcast s3.round .prepare s3.value false none ∈ (s3.beginPrepare now none).2 := by
        unfold State.beginPrepare State.alarmAfter State.resetReb; simp
      have hW := hown _ _ _ _ _ hbc
      rw [hval, hprop, hrd] at hW
      have hle : ptLe s.pt (s3.beginPrepare now none).1.pt := by
        apply ptLe_same_round hres_round
        · rw [hres_phase, hq]; simp [Phase.toNat]
        · left; rw [hq]; simp [Phase.toNat]
      refine ⟨⟨?_, ?_, ?_⟩, ?_⟩
      · refine h.core.mono (by simp [← hs3]) (by simp [← hs3]) (by simp [← hs3]) (by simp [← hs3]) hle ?_
          (by rw [hres_prop]; exact hpne)
        intro c hc
        have hc' : c ∈ (({ s with proposal := s.quality.longestPrefixWithQuorum s.input } : State).addCandidatePrefixes
            (s.quality.longestPrefixWithQuorum s.input)).1.candidates := by
          simpa [← hs3] using hc
        rcases addCandidatePrefixes_mem _ _ _ hc' with hold | hnew
        · exact Or.inl hold
        · obtain ⟨hne, hp⟩ := quality_cands_ok s h.core.inputNe c hnew
          exact Or.inr ⟨hne, Or.inl (by simpa [← hs3] using hp)⟩
      · intro _; rw [hres_round, hres_prop]; exact hW
      · intro he; rw [hres_phase] at he; simp [Phase.toNat] at he
      · intro r ph v tk j hm
        obtain ⟨rfl, rfl, rfl⟩ := beginPrepare_bc _ _ _ _ _ _ _ _ hm
        rw [hval, hprop]
        exact ⟨hpne, Or.inl (by rw [hrd]; exact hr0), Or.inl hpre⟩
    · exact GOK.nil h

/-! ### tryConverge -/

theorem tryConverge_gok {s : State} (now : Int) (h : GInv W me s) : GOK W me s (s.tryConverge now) := by
  unfold State.tryConverge
  dsimp only
  split
  · exact GOK.fail (by simp)
  · rename_i hph
    have hq : s.phase = .converge := by simpa using hph
    split
    · split
      · exact tryRebroadcast_gok now h
      · exact GOK.nil h
    · split
      · exact GOK.fail (by simp)
      · rename_i w hw
        split
        · exact GOK.fail (by simp)
        · refine Or.inr fun hown => ?_
          obtain ⟨hmem, hvalid⟩ := findBest_mem _ _ _ hw
          have hro := getRound_ok h.core.rounds s.round
          obtain ⟨hwne, hcj⟩ := hro.conv w hmem
          generalize hs2 : ({ (s.addCandidate w.chain).1 with proposal := w.chain, value := w.chain } : State) = s2 at *
          have hrd : s2.round = s.round := by rw [← hs2]; simp
          have hval : s2.value = w.chain := by rw [← hs2]
          have hprop : s2.proposal = w.chain := by rw [← hs2]
          have hres_round : (s2.beginPrepare now (some w.just)).1.round = s.round := by
            unfold State.beginPrepare State.alarmAfter State.resetReb; simpa using hrd
          have hres_phase : (s2.beginPrepare now (some w.just)).1.phase = .prepare := by
            unfold State.beginPrepare State.alarmAfter State.resetReb; rfl
          have hres_prop : (s2.beginPrepare now (some w.just)).1.proposal = w.chain := by simp [hprop]
          have hbc : Eff.broadcast s2.round .prepare s2.value false (some w.just) ∈ (s2.beginPrepare now (some w.just)).2 := by
            unfold State.beginPrepare State.alarmAfter State.resetReb; simp
          have hW := hown _ _ _ _ _ hbc
          rw [hval, hrd] at hW
          have hle : ptLe s.pt (s2.beginPrepare now (some w.just)).1.pt := by
            apply ptLe_same_round hres_round
            · rw [hres_phase, hq]; simp [Phase.toNat]
            · left; rw [hq]; simp [Phase.toNat]
          -- evidence for the adopted value
          have hback : w.chain <+: s.input ∨ ∃ r', r' < s.round ∧ QL W s.tbl r' .prepare w.chain := by
            simp only [Bool.or_eq_true, Bool.and_eq_true, beq_iff_eq] at hvalid
            rcases hvalid with hcand | ⟨hjp, _⟩
            · have hc : w.chain ∈ s.candidates := by simpa [State.isCandidate] using hcand
              obtain ⟨_, hev⟩ := h.core.cands _ hc
              rcases hev with hp | ⟨r', hql, hb⟩
              · exact Or.inl hp
              · right
                refine ⟨r', ?_, hql⟩
                rcases hb with hb | ⟨_, hb⟩
                · exact hb
                · simp [State.pt, hq, Phase.toNat] at hb
            · right
              obtain ⟨hok, hjr, hcase⟩ := hcj
              rcases hcase with ⟨_, hv⟩ | ⟨hc, _⟩
              · refine ⟨w.just.round, by omega, ?_⟩
                have := hok.ql; rw [hjp, hv] at this; exact this
              · rw [hjp] at hc; cases hc
          refine ⟨⟨?_, ?_, ?_⟩, ?_⟩
          · refine h.core.mono (by simp [← hs2]) (by simp [← hs2]) (by simp [← hs2]) (by simp [← hs2]) hle ?_
              (by rw [hres_prop]; exact hwne)
            intro c hc
            have hc' : c ∈ (s.addCandidate w.chain).1.candidates := by simpa [← hs2] using hc
            rcases addCandidate_mem _ _ _ hc' with hold | rfl
            · exact Or.inl hold
            · refine Or.inr ⟨hwne, ?_⟩
              rcases hback with hp | ⟨r', hlt, hql⟩
              · exact Or.inl (by simpa [← hs2] using hp)
              · exact Or.inr ⟨r', by simpa [← hs2] using hql, Or.inl (by simp only [State.pt]; rw [hres_round]; exact hlt)⟩
          · intro _; rw [hres_round, hres_prop]; exact hW
          · intro he; rw [hres_phase] at he; simp [Phase.toNat] at he
          · intro r ph v tk j hm
            obtain ⟨rfl, rfl, rfl⟩ := beginPrepare_bc _ _ _ _ _ _ _ _ hm
            rw [hval, hrd]
            exact ⟨hwne, Or.inr hcj.jl, hback⟩


/-! ### the dissent behind a COMMIT for bottom (rule H4) -/

theorem strongQ_mono (t : Table) {p p' : Nat} (h : p ≤ p') (hs : strongQ t p = true) : strongQ t p' = true := by
  unfold strongQ Spec.Quorum.strong at *
  simp only [decide_eq_true_eq] at *
  omega

/-- If the tally holds no strong quorum for `c`, and either a strong quorum of senders has been heard or `c`
can no longer reach one, then some sender voted for a different value. -/
theorem dissent {V : Pid → Chain → Prop} {t : Table} {q : Tally} (hwf : TallyWF V t q) (hT : 0 < t.total) (c : Chain)
    (hno : q.hasStrongFor c = false)
    (hcase : q.couldReach t c false = false ∨ q.fromStrong t = true) :
    ∃ x z, z ≠ c ∧ V x z := by
  by_cases hex : ∃ x ∈ q.senders, ∃ sup ∈ q.support, x ∈ sup.signers ∧ sup.chain ≠ c
  · obtain ⟨x, _, sup, hsup, hxs, hne⟩ := hex
    exact ⟨x, sup.chain, hne, hwf.voted sup hsup x hxs⟩
  · exfalso
    -- otherwise every sender is filed under `c`
    have hall : ∀ x ∈ q.senders, ∀ sup ∈ q.support, x ∈ sup.signers → sup.chain = c := by
      intro x hx sup hsup hxs
      by_cases hch : sup.chain = c
      · exact hch
      · exact absurd ⟨x, hx, sup, hsup, hxs, hch⟩ hex
    cases hf : q.findSupport c with
    | none =>
      -- no entry: there cannot be any sender
      have hnos : q.senders = [] := by
        cases hs : q.senders with
        | nil => rfl
        | cons x xs =>
          exfalso
          obtain ⟨sup, hsup, hx⟩ := hwf.covered x (by rw [hs]; exact List.mem_cons_self)
          have hch := hall x (by rw [hs]; exact List.mem_cons_self) sup hsup hx
          have := find_of_mem_nodup q.support hwf.chains sup hsup
          rw [hch] at this
          unfold Tally.findSupport at hf
          rw [hf] at this; cases this
      have hsp0 : q.sendersPower = 0 := by rw [hwf.sendersPow, hnos]; simp [sumP]
      rcases hcase with hcr | hfs
      · unfold Tally.couldReach Spec.Quorum.couldReach Spec.Quorum.strong at hcr
        simp only [hf, hsp0, decide_eq_false_iff_not, Bool.false_eq_true, if_false] at hcr
        apply hcr
        have hT' : (0 : Int) < (t.total : Int) := by exact_mod_cast hT
        simp only [Int.natCast_zero, Int.zero_add, Int.sub_zero, Int.add_zero, Int.min_self]
        omega
      · unfold Tally.fromStrong at hfs
        rw [hsp0] at hfs
        unfold strongQ Spec.Quorum.strong at hfs
        simp only [decide_eq_true_eq] at hfs
        have hT' : (0 : Int) < (t.total : Int) := by exact_mod_cast hT
        omega
    | some ent =>
      have hent := findSupport_mem q c ent hf
      have hdom : q.sendersPower ≤ ent.power := by
        rw [hwf.sendersPow, hwf.supPow ent hent]
        apply sumP_le_of_subset t _ _ hwf.sendersNodup
        intro x hx
        obtain ⟨sup, hsup, hxs⟩ := hwf.covered x hx
        have hch := hall x hx sup hsup hxs
        have h1 := find_of_mem_nodup q.support hwf.chains sup hsup
        rw [hch] at h1
        unfold Tally.findSupport at hf
        rw [hf] at h1
        cases h1; exact hxs
      rcases hcase with hcr | hfs
      · unfold Tally.couldReach Spec.Quorum.couldReach Spec.Quorum.strong at hcr
        simp only [hf, decide_eq_false_iff_not, Bool.false_eq_true, if_false] at hcr
        apply hcr
        have hsp : (q.sendersPower : Int) ≤ (ent.power : Int) := by exact_mod_cast hdom
        have hT' : (0 : Int) < (t.total : Int) := by exact_mod_cast hT
        have hmin : min ((ent.power : Int) + ((t.total : Int) - (q.sendersPower : Int)) + 0) (t.total : Int) = (t.total : Int) := by
          apply Int.min_eq_right; omega
        rw [hmin]; omega
      · unfold Tally.fromStrong at hfs
        have hstrong := strongQ_mono t hdom hfs
        unfold Tally.hasStrongFor at hno
        rw [hf] at hno
        simp only at hno
        rw [hwf.strongOk ent hent] at hno
        rw [hstrong] at hno; cases hno


/-! ### tryPrepare -/

/-- evidence of a strong PREPARE quorum for `v` in the current round behind a successful `commitJust` -/
theorem commitJust_ql {s : State} (hr : RoundsOK W s.tbl s.rounds) (hv : s.value ≠ []) (j : Just)
    (h : s.commitJust = .ok j) : QL W s.tbl s.round .prepare s.value := by
  unfold State.commitJust at h
  dsimp only at h
  have hcur := getRound_ok hr s.round
  have hnxt := getRound_ok hr (s.round + 1)
  split at h
  · rename_i sg hsg
    exact hcur.prep.found_ql _ _ hsg
  · cases h
  · split at h
    · rename_i j1 hj1
      obtain ⟨e, he, hej, hph, _, hkey⟩ := TallyOK.getJustOf_mem hj1
      obtain ⟨_, hcj⟩ := (hcur.comm.justs e he).2 rfl
      have hq := hcj.1.ql
      rw [hcj.2.1, hcj.2.2.1, hcj.2.2.2, hkey hv] at hq
      exact hq
    · split at h
      · rename_i j2 hj2
        obtain ⟨e, he, hej, hph, _, hkey⟩ := TallyOK.getJustOf_mem hj2
        have hcj := (hnxt.prep.justs e he).1 rfl
        obtain ⟨hok, hjr, hcase⟩ := hcj
        have hq := hok.ql
        rcases hcase with ⟨hp, hvv⟩ | ⟨hp, _⟩
        · rw [hp, hvv, hkey hv] at hq
          have : e.2.round = s.round := by omega
          rw [this] at hq; exact hq
        · rw [hej, hph] at hp; cases hp
      · split at h
        · rename_i j3 hj3
          obtain ⟨v, hvm, hvj, hph, _, hkey⟩ := Conv.getJustOf_mem hj3
          obtain ⟨_, hok, hjr, hcase⟩ := hnxt.conv v hvm
          have hq := hok.ql
          rcases hcase with ⟨hp, hvv⟩ | ⟨hp, _⟩
          · rw [hp, hvv, hkey hv] at hq
            have : v.just.round = s.round := by omega
            rw [this] at hq; exact hq
          · rw [hvj, hph] at hp; cases hp
        · cases h

theorem tryPrepare_gok {s : State} (now : Int) (h : GInv W me s) : GOK W me s (s.tryPrepare now) := by
  unfold State.tryPrepare
  dsimp only
  split
  · exact GOK.fail (by simp)
  · rename_i hph
    have hq : s.phase = .prepare := by simpa using hph
    -- facts about the intermediate state (only `value` may differ)
    have hpv_round : (s.prepareValue now).round = s.round := by simp
    have hpv_phase : (s.prepareValue now).phase = s.phase := by simp
    have hpv_inv : GInv W me (s.prepareValue now) := by
      refine ⟨h.core.mono (by simp) (by simp) (by simp) (by simp) (by simp [State.pt]; exact ptLe_refl _)
        (fun c hc => Or.inl (by simpa using hc)) (by simpa using h.core.propNe), ?_, ?_⟩
      · intro hp; simpa using h.ownPrep hq
      · intro he; simp at he; simpa using h.early he
    split
    · rename_i hdone
      by_cases hfail : hasFailure ((s.prepareValue now).beginCommit now).2 = true
      · exact Or.inl hfail
      · refine Or.inr fun hown => ?_
        have hres_round : ((s.prepareValue now).beginCommit now).1.round = s.round := by
          unfold State.beginCommit State.alarmAfter State.resetReb
          dsimp only
          split
          · simp
          · split <;> simp
        have hres_phase : ((s.prepareValue now).beginCommit now).1.phase = .commit := by
          unfold State.beginCommit State.alarmAfter State.resetReb
          dsimp only
          split
          · rfl
          · split <;> rfl
        have hle : ptLe s.pt ((s.prepareValue now).beginCommit now).1.pt := by
          apply ptLe_same_round hres_round
          · rw [hres_phase, hq]; simp [Phase.toNat]
          · left; rw [hq]; simp [Phase.toNat]
        refine ⟨⟨h.core.mono (by simp) (by simp) (by simp) (by simp) hle
          (fun c hc => Or.inl (by simpa using hc)) (by simpa using h.core.propNe), ?_, ?_⟩, ?_⟩
        · intro hp; rw [hres_phase] at hp; cases hp
        · intro he; rw [hres_phase] at he; simp [Phase.toNat] at he
        · intro r ph v tk j hm
          obtain ⟨rfl, rfl, rfl, hjust⟩ := beginCommit_bc _ _ _ _ _ _ _ hm
          rw [hpv_round]
          refine ⟨?_, ?_⟩
          · -- bottom: the dissent
            intro hbot
            -- value bottom means neither quorum nor forwarded evidence, and (impossible or complete)
            have hvals : s.prepFoundQuorum = false ∧ s.prepFoundJust = false ∧
                (s.prepNotPossible = true ∨ s.prepComplete now = true) := by
              unfold State.prepareValue at hbot
              split at hbot
              · exact absurd hbot h.core.propNe
              · rename_i h1
                simp only [Bool.or_eq_true, not_or, Bool.not_eq_true] at h1
                split at hbot
                · rename_i h2; exact ⟨h1.1, h1.2, by simpa using h2⟩
                · rename_i h2
                  simp only [Bool.or_eq_true, not_or, Bool.not_eq_true] at h2
                  simp [h1.1, h1.2, h2.1, h2.2] at hdone
            have hro := getRound_ok h.core.rounds s.round
            have hcase : (s.getRound s.round).prepared.couldReach s.tbl s.proposal false = false ∨
                (s.getRound s.round).prepared.fromStrong s.tbl = true := by
              rcases hvals.2.2 with hnp | hc
              · left; simpa [State.prepNotPossible] using hnp
              · right
                unfold State.prepComplete at hc
                simp only [Bool.and_eq_true] at hc
                exact hc.2
            obtain ⟨x, z, hne, hev⟩ := dissent hro.prep.wf h.core.totalPos s.proposal
              (by simpa [State.prepFoundQuorum] using hvals.1) hcase
            exact ⟨s.proposal, h.ownPrep hq, x, z, hne, hev.1, hev.2 rfl⟩
          · -- non-bottom: the attached justification is evidence of a PREPARE quorum
            intro hne
            obtain ⟨j', _, hcj⟩ := hjust hne
            have hrs := hpv_inv.core.rounds
            have htb : (s.prepareValue now).tbl = s.tbl := by simp
            generalize s.prepareValue now = sp at *
            have hrs' : RoundsOK W (({ sp with phase := .commit, phaseTimeout := now + sp.roundTimeout } : State).resetReb).tbl
                (({ sp with phase := .commit, phaseTimeout := now + sp.roundTimeout } : State).resetReb).rounds := hrs
            have := commitJust_ql (W := W) hrs' (by simpa [State.resetReb] using hne) j' hcj
            rw [← htb]
            simpa [State.resetReb, hpv_round] using this
    · split
      · exact (tryRebroadcast_gok now hpv_inv).elim (fun hf => Or.inl hf) (fun hk => Or.inr fun hown => by
          obtain ⟨hi, hg⟩ := hk hown
          exact ⟨hi, by simpa using hg⟩)
      · exact Or.inr fun _ => ⟨hpv_inv, Guarded_nil⟩


/-! ### entering a round: `beginConverge`, `beginNextRound` -/

theorem GCore.mono_rounds {s s' : State} (h : GCore W s) (ht : s'.tbl = s.tbl) (hi : s'.input = s.input)
    (hr : RoundsOK W s'.tbl s'.rounds) (hd : s'.decision = s.decision) (hle : ptLe s.pt s'.pt)
    (hc : ∀ c ∈ s'.candidates, c ∈ s.candidates ∨ CandOK W s' c) (hp : s'.proposal ≠ []) : GCore W s' := by
  refine ⟨hr, by rw [ht, hd]; exact h.decision, ?_, by rw [hi]; exact h.inputNe, hp, by rw [ht]; exact h.totalPos⟩
  intro c hc'
  rcases hc c hc' with hold | hnew
  · exact (h.cands c hold).mono ht hi hle
  · exact hnew

/-- `beginConverge` from a state whose round has just been set: keeps the core (with the self value recorded),
enters CONVERGE, broadcasts only CONVERGE -/
theorem beginConverge_core {s0 s : State} (now : Int) (j : Just) (h0 : GCore W s0)
    (ht : s.tbl = s0.tbl) (hi : s.input = s0.input) (hrs : RoundsOK W s.tbl s.rounds) (hd : s.decision = s0.decision)
    (hle : ptLe s0.pt (s.round, Phase.converge.toNat))
    (hc : ∀ c ∈ s.candidates, c ∈ s0.candidates ∨ (c ≠ [] ∧ (c <+: s.input ∨ ∃ r', QL W s.tbl r' .prepare c ∧ r' < s.round)))
    (hp : s.proposal ≠ []) (hj : ConvJust W s.tbl s.round s.proposal j)
    (hnf : hasFailure (s.beginConverge now j).2 = false) :
    GCore W (s.beginConverge now j).1 ∧ (s.beginConverge now j).1.phase = .converge ∧
      (s.beginConverge now j).1.round = s.round := by
  unfold State.beginConverge State.alarmAfter State.resetReb at *
  dsimp only at *
  split
  · rename_i hbad; simp [hbad] at hnf
  · refine ⟨?_, rfl, rfl⟩
    refine h0.mono_rounds ht hi ?_ hd (by simpa [State.pt] using hle) ?_ hp
    · -- rounds with the self value
      have hro := getRound_ok hrs s.round
      have : RoundsOK W (s.setRound s.round { (s.getRound s.round) with
          converged := (s.getRound s.round).converged.setSelf s.proposal j }).tbl
          (s.setRound s.round { (s.getRound s.round) with
          converged := (s.getRound s.round).converged.setSelf s.proposal j }).rounds :=
        setRound_ok hrs s.round _ ⟨hro.conv.setSelf _ _ hp hj, hro.prep, hro.comm⟩
      simpa [State.setRound, State.getRound] using this
    · intro c hc'
      have hc'' : c ∈ s.candidates := by simpa [State.setRound] using hc'
      rcases hc c hc'' with hold | ⟨hne, hev⟩
      · exact Or.inl hold
      · refine Or.inr ⟨hne, ?_⟩
        rcases hev with hpre | ⟨r', hql, hlt⟩
        · exact Or.inl (by simpa [State.setRound] using hpre)
        · exact Or.inr ⟨r', by simpa [State.setRound] using hql, Or.inl (by simpa [State.pt, State.setRound] using hlt)⟩

/-- the justification chosen by `beginNextRound` justifies a CONVERGE for the proposal in the new round -/
theorem nextRoundJust_conv {s1 : State} (hr : RoundsOK W s1.tbl s1.rounds) (hpos : 0 < s1.round) (j : Just)
    (h : s1.nextRoundJust = .ok j) : ConvJust W s1.tbl s1.round s1.proposal j := by
  unfold State.nextRoundJust at h
  dsimp only at h
  have hcur := getRound_ok hr s1.round
  have hprev := getRound_ok hr (s1.round - 1)
  split at h
  · rename_i sg hsg
    cases h
    obtain ⟨h1, h2, h3, h4⟩ := findStrongQuorumFor_spec s1.tbl _ [] sg hprev.comm.wf hsg
    exact ⟨⟨h1, h2, h3, fun i hi => by obtain ⟨x, hx, hv⟩ := h4 i hi; exact ⟨x, hx, hv.1⟩⟩, by simp; omega,
      Or.inr ⟨rfl, rfl⟩⟩
  · cases h
  · split at h
    · rename_i j1 hj1
      cases h
      obtain ⟨e, he, hej, hph, hbot, _⟩ := TallyOK.getJustOf_mem hj1
      obtain ⟨hok, hjr, hcase⟩ := (hcur.prep.justs e he).1 rfl
      rw [hej] at hok hjr
      exact ⟨hok, hjr, Or.inr ⟨hph, hbot rfl⟩⟩
    · split at h
      · rename_i j2 hj2
        cases h
        obtain ⟨v, hvm, hvj, hph, hbot, _⟩ := Conv.getJustOf_mem hj2
        obtain ⟨_, hok, hjr, _⟩ := hcur.conv v hvm
        rw [hvj] at hok hjr
        exact ⟨hok, hjr, Or.inr ⟨hph, hbot rfl⟩⟩
      · split at h
        · rename_i e he
          cases h
          have hem := List.mem_of_find?_eq_some he
          have hk : e.1 = s1.proposal := by simpa using List.find?_some he
          obtain ⟨_, hok, hjr, hph, hv⟩ := (hprev.comm.justs e hem).2 rfl
          exact ⟨hok, by omega, Or.inl ⟨hph, by rw [hv, hk]⟩⟩
        · cases h

theorem beginNextRound_gok {s0 s : State} (now : Int) (h0 : GInv W me s0) (hcore : GCore W s)
    (ht : s.tbl = s0.tbl) (hi : s.input = s0.input) (hrd : s.round = s0.round) (hph : s.phase = s0.phase)
    (hcom : s0.phase = .commit)
    (hc : ∀ c ∈ s.candidates, c ∈ s0.candidates ∨ (c ≠ [] ∧ (c <+: s.input ∨ ∃ r', QL W s.tbl r' .prepare c ∧ r' ≤ s.round)))
    (hd : s.decision = s0.decision) :
    GOK W me s0 (s.beginNextRound now) := by
  unfold State.beginNextRound
  dsimp only
  split
  · rename_i j hj
    by_cases hfail : hasFailure (({ s with round := s.round + 1 } : State).beginConverge now j).2 = true
    · exact Or.inl hfail
    · refine Or.inr fun _ => ?_
      have hj' := nextRoundJust_conv (W := W) (s1 := { s with round := s.round + 1 }) hcore.rounds (by simp) j hj
      have hle : ptLe s0.pt (s.round + 1, Phase.converge.toNat) := by
        right
        refine ⟨Or.inl (by simp [State.pt, hrd]), fun h5 => ?_⟩
        simp [State.pt, hcom, Phase.toNat] at h5
      obtain ⟨hc', hp', hr'⟩ := beginConverge_core (W := W) (s0 := s0) (s := { s with round := s.round + 1 }) now j h0.core
        ht hi hcore.rounds hd hle
        (by
          intro c hcm
          rcases hc c hcm with hold | ⟨hne, hev⟩
          · exact Or.inl hold
          · refine Or.inr ⟨hne, ?_⟩
            rcases hev with hp | ⟨r', hq, hle'⟩
            · exact Or.inl hp
            · exact Or.inr ⟨r', hq, by simp; omega⟩)
        hcore.propNe hj' (by simpa using hfail)
      refine ⟨⟨hc', ?_, ?_⟩, ?_⟩
      · intro hp; rw [hp'] at hp; cases hp
      · intro he; rw [hp'] at he; simp [Phase.toNat] at he
      · intro r ph v tk j' hm
        have := beginConverge_bc _ _ _ _ _ _ _ _ hm
        subst this
        trivial
  · exact GOK.fail (by simp)


/-! ### tryCommit -/

theorem addCandidate_proposal' (s : State) (c : Chain) : (s.addCandidate c).1.proposal = s.proposal := by
  unfold State.addCandidate; split <;> rfl

theorem beginDecide_res (s : State) (round : Nat) :
    (s.beginDecide round).1.phase = .decide ∧ (s.beginDecide round).1.round = s.round := by
  unfold State.beginDecide State.resetReb
  dsimp only
  split <;> exact ⟨rfl, rfl⟩

theorem firstNonZero_mem (q : Tally) (v : Chain) (h : q.firstNonZero = some v) :
    v ≠ [] ∧ ∃ sup ∈ q.support, sup.chain = v := by
  unfold Tally.firstNonZero at h
  cases hf : q.support.find? (fun s => !s.chain.isEmpty) with
  | none => simp [hf] at h
  | some sup =>
    simp [hf] at h
    have hp := List.find?_some hf
    refine ⟨?_, sup, List.mem_of_find?_eq_some hf, h⟩
    rw [← h]; simpa using hp

theorem commitSway_cases (s : State) (q : Tally) :
    (q.firstNonZero = none ∧ s.commitSway q = s) ∨
    ∃ v, q.firstNonZero = some v ∧ (s.commitSway q).candidates = (s.addCandidate v).1.candidates ∧
      ((s.commitSway q).proposal = v ∨ (s.commitSway q).proposal = s.proposal) := by
  unfold State.commitSway
  split
  · rename_i v hv
    right
    refine ⟨v, hv, ?_, ?_⟩
    · dsimp only; split <;> rfl
    · dsimp only; split
      · exact Or.inl rfl
      · exact Or.inr (addCandidate_proposal' s v)
  · rename_i hv; exact Or.inl ⟨hv, rfl⟩

theorem tryCommit_gok {s : State} (now : Int) (round : Nat) (h : GInv W me s) (h5 : s.phase.toNat < 5) :
    GOK W me s (s.tryCommit now round) := by
  unfold State.tryCommit
  dsimp only
  split
  · exact GOK.fail (by simp)
  · rename_i c hone
    split
    · -- strong quorum for a non-bottom value: decide
      rename_i hne
      have hcne : c ≠ [] := by simpa using hne
      by_cases hfail : hasFailure (({ s with value := c } : State).beginDecide round).2 = true
      · exact Or.inl hfail
      · refine Or.inr fun _ => ?_
        obtain ⟨hp, hr⟩ := beginDecide_res ({ s with value := c } : State) round
        have hle : ptLe s.pt (({ s with value := c } : State).beginDecide round).1.pt := by
          apply ptLe_same_round (by rw [hr])
          · rw [hp]; have : Phase.decide.toNat = 5 := rfl; omega
          · exact Or.inl h5
        refine ⟨⟨h.core.mono (by simp) (by simp) (by simp) (by simp) hle
          (fun x hx => Or.inl (by simpa using hx)) (by simpa using h.core.propNe), ?_, ?_⟩, ?_⟩
        · intro hpp; rw [hp] at hpp; cases hpp
        · intro he; rw [hp] at he; simp [Phase.toNat] at he
        · intro r ph v tk j hm
          obtain ⟨rfl, rfl, rfl, sg, hsg⟩ := beginDecide_bc _ _ _ _ _ _ _ hm
          intro _
          have hro := getRound_ok h.core.rounds round
          exact ⟨hcne, round, hro.comm.found_ql _ _ (by simpa [State.getRound] using hsg)⟩
    · split
      · exact GOK.nil h
      · rename_i hg
        simp only [Bool.or_eq_true, bne_iff_ne, ne_eq, not_or, Decidable.not_not] at hg
        exact beginNextRound_gok now h h.core rfl rfl rfl rfl hg.2 (fun x hx => Or.inl hx) rfl
  · split
    · exact GOK.nil h
    · rename_i hg
      simp only [Bool.or_eq_true, bne_iff_ne, ne_eq, not_or, Decidable.not_not] at hg
      split
      · exact beginNextRound_gok now h h.core rfl rfl rfl rfl hg.2 (fun x hx => Or.inl hx) rfl
      · split
        · -- end of COMMIT without quorum: sway to a committed value, next round
          have hro := getRound_ok h.core.rounds round
          have hsw_core : GCore W (s.commitSway (s.getRound round).committed) := by
            refine h.core.mono (by simp) (by simp) (by simp) (by simp) (by simp [State.pt]; exact ptLe_refl _) ?_ ?_
            · intro x hx
              rcases commitSway_cases s (s.getRound round).committed with ⟨_, heq⟩ | ⟨v, hv, hcands, _⟩
              · rw [heq] at hx; exact Or.inl hx
              · obtain ⟨hvne, sup, hsup, hch⟩ := firstNonZero_mem _ _ hv
                rw [hcands] at hx
                rcases addCandidate_mem _ _ _ hx with hold | rfl
                · exact Or.inl hold
                · obtain ⟨e, he, hek⟩ := hro.comm.cover rfl sup hsup (by rw [hch]; exact hvne)
                  obtain ⟨_, hok, hjr, hph, hvv⟩ := (hro.comm.justs e he).2 rfl
                  have hq := hok.ql
                  rw [hjr, hph, hvv, hek, hch] at hq
                  refine Or.inr ⟨hvne, Or.inr ⟨round, by simpa using hq, ?_⟩⟩
                  right
                  simp only [State.pt, commitSway_round, commitSway_phase]
                  exact ⟨hg.1.symm, by rw [hg.2]; simp [Phase.toNat]⟩
            · rcases commitSway_cases s (s.getRound round).committed with ⟨_, heq⟩ | ⟨v, hv, _, hprop⟩
              · rw [heq]; exact h.core.propNe
              · obtain ⟨hvne, _⟩ := firstNonZero_mem _ _ hv
                rcases hprop with hp | hp
                · rw [hp]; exact hvne
                · rw [hp]; exact h.core.propNe
          refine beginNextRound_gok now h hsw_core (by simp) (by simp) (by simp) (by simp) hg.2 ?_ (by simp)
          intro x hx
          by_cases hold : x ∈ s.candidates
          · exact Or.inl hold
          · right
            obtain ⟨hne, hev⟩ := hsw_core.cands x hx
            refine ⟨hne, ?_⟩
            rcases hev with hp | ⟨r', hq, hb⟩
            · exact Or.inl hp
            · refine Or.inr ⟨r', hq, ?_⟩
              simp only [State.pt, commitSway_round, commitSway_phase] at hb
              rcases hb with hb | ⟨hb, _⟩
              · simp; omega
              · simp; omega
        · split
          · exact tryRebroadcast_gok now h
          · exact GOK.nil h

end F3.Instance
