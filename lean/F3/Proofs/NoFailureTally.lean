import F3.Proofs.SyncTally
import F3.Proofs.InstanceGuards2
/-!
# Failure-freedom, tally level

What makes the `panic` sites inside `quorumState` / `convergeState` unreachable on well-formed tallies:

* `Tally.receive` never meets a stored signature of a new sender (`receive_some`: no "duplicate message");
* `findStrongQuorumFor` never panics and finds a quorum exactly when the support is strong
  (`findStrongQuorumFor_total`: no "signer not in table", no "quorum not found");
* two different values never both hold a strong quorum (`fsqv_not_multiple`), which needs the one fact that
  `TallyWF` does not record: a sender's signature is stored under at most one chain (`TallyDisj`);
* `findStrongQuorumValue = .one c` is a strong support for `c` (`fsqv_one_strong`);
* a strong quorum of senders without any strong support has a vote for a non-bottom value
  (`firstNonZero_some`);
* `findBest` finds something as soon as one value passes the filter (`findBest_some`).
-/
namespace F3.Instance

/-! ### the power of distinct members never exceeds the total -/

theorem total_cons (a : Pid) (p : Nat) (E : List (Pid × Nat)) :
    Table.total ⟨(a, p) :: E⟩ = p + Table.total ⟨E⟩ := by
  unfold Table.total
  simp only [List.map_cons, List.foldl_cons]
  rw [foldl_add_init]; omega

theorem power_cons (a : Pid) (p : Nat) (E : List (Pid × Nat)) (x : Pid) :
    Table.power ⟨(a, p) :: E⟩ x = if a = x then p else Table.power ⟨E⟩ x := by
  unfold Table.power
  simp only [List.find?_cons]
  by_cases h : a = x
  · simp [h]
  · have : (a == x) = false := by simpa using h
    simp [this, h]

theorem sumP_congr (t t' : Table) (l : List Pid) (h : ∀ x ∈ l, t.power x = t'.power x) : sumP t l = sumP t' l := by
  induction l with
  | nil => rfl
  | cons a as ih =>
    rw [sumP_cons, sumP_cons, h a List.mem_cons_self, ih (fun x hx => h x (List.mem_cons_of_mem _ hx))]

theorem sumP_le_total_aux (E : List (Pid × Nat)) : ∀ l : List Pid, l.Nodup → sumP ⟨E⟩ l ≤ Table.total ⟨E⟩ := by
  induction E with
  | nil =>
    intro l _
    have : ∀ l : List Pid, sumP ⟨[]⟩ l = 0 := by
      intro l
      induction l with
      | nil => rfl
      | cons a as ih => rw [sumP_cons, ih]; simp [Table.power]
    rw [this]; exact Nat.zero_le _
  | cons e E ih =>
    intro l hnd
    obtain ⟨a, p⟩ := e
    rw [total_cons]
    by_cases ha : a ∈ l
    · obtain ⟨l1, l2, rfl⟩ := List.append_of_mem ha
      have hnd' : (l1 ++ l2).Nodup := by
        have := hnd
        rw [List.nodup_append] at this ⊢
        refine ⟨this.1, (List.nodup_cons.1 this.2.1).2, fun x hx y hy => this.2.2 x hx y (List.mem_cons_of_mem _ hy)⟩
      have ha1 : a ∉ l1 := by
        intro h1
        rw [List.nodup_append] at hnd
        exact hnd.2.2 a h1 a List.mem_cons_self rfl
      have ha2 : a ∉ l2 := by
        rw [List.nodup_append] at hnd
        exact (List.nodup_cons.1 hnd.2.1).1
      have e1 : sumP ⟨(a, p) :: E⟩ l1 = sumP ⟨E⟩ l1 := sumP_congr _ _ _ (fun x hx => by
        rw [power_cons]; simp [show a ≠ x from fun h => ha1 (h ▸ hx)])
      have e2 : sumP ⟨(a, p) :: E⟩ l2 = sumP ⟨E⟩ l2 := sumP_congr _ _ _ (fun x hx => by
        rw [power_cons]; simp [show a ≠ x from fun h => ha2 (h ▸ hx)])
      have e3 : Table.power ⟨(a, p) :: E⟩ a = p := by rw [power_cons]; simp
      have := ih (l1 ++ l2) hnd'
      rw [sumP_append] at this
      rw [sumP_append, sumP_cons, e1, e2, e3]
      omega
    · have e1 : sumP ⟨(a, p) :: E⟩ l = sumP ⟨E⟩ l := sumP_congr _ _ _ (fun x hx => by
        rw [power_cons]; simp [show a ≠ x from fun h => ha (h ▸ hx)])
      have := ih l hnd
      rw [e1]; omega

/-- distinct members together hold at most the total power -/
theorem sumP_le_total (t : Table) (l : List Pid) (h : l.Nodup) : sumP t l ≤ t.total :=
  sumP_le_total_aux t.entries l h

/-! ### `Tally.receive` never panics -/

theorem receive_some {V : Pid → Chain → Prop} (t : Table) (q : Tally) (sender : Pid) (c : Chain)
    (hwf : TallyWF V t q) : ∃ q', q.receive t sender c = some q' := by
  unfold Tally.receive
  split
  · exact ⟨q, rfl⟩
  · rename_i hns
    have hns' : sender ∉ q.senders := by simpa using hns
    unfold Tally.receiveInner
    dsimp only
    split
    · rename_i hdup
      exfalso
      simp only [Bool.true_and, List.contains_eq_mem, decide_eq_true_eq] at hdup
      exact hns' ((cand_signers t q c hwf).2.1 _ hdup)
    · exact ⟨_, rfl⟩

/-! ### `findStrongQuorumFor` never panics -/

theorem index_some (t : Table) (x : Pid) (h : 0 < t.power x) : ∃ i, t.index? x = some i := by
  unfold Table.index?
  cases hf : t.entries.findIdx? (fun e => e.1 == x) with
  | some i => exact ⟨i, rfl⟩
  | none =>
    exfalso
    rw [List.findIdx?_eq_none_iff] at hf
    have : t.entries.find? (fun e => e.1 == x) = none := by
      rw [List.find?_eq_none]; intro e he; simpa using hf e he
    unfold Table.power at h
    rw [this] at h
    exact Nat.lt_irrefl _ h

theorem strongQ_zero (t : Table) (hT : 0 < t.total) : strongQ t 0 = false := by
  unfold strongQ Spec.Quorum.strong
  simp only [decide_eq_false_iff_not]
  have : (0 : Int) < (t.total : Int) := by exact_mod_cast hT
  omega

/-- `findStrongQuorumFor` on a well-formed tally: `.none` exactly when the value holds no strong quorum,
`.found` otherwise — never a panic -/
theorem findStrongQuorumFor_total {V : Pid → Chain → Prop} (t : Table) (q : Tally) (c : Chain)
    (hwf : TallyWF V t q) (hT : 0 < t.total) :
    (q.hasStrongFor c = false ∧ q.findStrongQuorumFor t c = .none) ∨
    (q.hasStrongFor c = true ∧ ∃ sg, q.findStrongQuorumFor t c = .found sg) := by
  unfold Tally.hasStrongFor Tally.findStrongQuorumFor
  cases hf : q.findSupport c with
  | none => exact Or.inl ⟨rfl, rfl⟩
  | some s =>
    have hsm := findSupport_mem q c s hf
    cases hs : s.strong with
    | false => exact Or.inl ⟨hs, by simp [hs]⟩
    | true =>
      right
      refine ⟨hs, ?_⟩
      simp only [hs, Bool.not_true, Bool.false_eq_true, if_false]
      obtain ⟨idxs, hidx, _⟩ := F3.Sync.mapM_some t.index? s.signers (fun x hx =>
        index_some t x (hwf.pos x (hwf.sub s hsm x hx)))
      rw [hidx]
      simp only
      have hpow : sumPow t (sortNat idxs) = s.power := by
        rw [F3.Sync.sumPow_sortNat, F3.Sync.sumPow_mapM t _ _ hidx, hwf.supPow s hsm]
      have hstrong : strongQ t s.power = true := by rw [← hwf.strongOk s hsm]; exact hs
      have hne : sortNat idxs ≠ [] := by
        intro he
        rw [he] at hpow
        have : s.power = 0 := by rw [← hpow]; rfl
        rw [this, strongQ_zero t hT] at hstrong
        cases hstrong
      obtain ⟨sg, hsg⟩ := F3.Sync.takeUntilStrong_some t (sortNat idxs) 0 [] hne (by rw [Nat.zero_add, hpow]; exact hstrong)
      rw [hsg]
      exact ⟨sg, rfl⟩

theorem findStrongQuorumFor_found {V : Pid → Chain → Prop} (t : Table) (q : Tally) (c : Chain)
    (hwf : TallyWF V t q) (hT : 0 < t.total) (hs : q.hasStrongFor c = true) :
    ∃ sg, q.findStrongQuorumFor t c = .found sg := by
  rcases findStrongQuorumFor_total t q c hwf hT with ⟨h, _⟩ | ⟨_, h⟩
  · rw [hs] at h; cases h
  · exact h

/-! ### at most one value holds a strong quorum -/

/-- a sender's signature is stored under at most one chain -/
def TallyDisj (q : Tally) : Prop :=
  ∀ s1 ∈ q.support, ∀ s2 ∈ q.support, ∀ x, x ∈ s1.signers → x ∈ s2.signers → s1.chain = s2.chain

theorem TallyDisj_empty : TallyDisj {} := by
  intro s1 h1; simp at h1

theorem TallyDisj.of_support {q q' : Tally} (h : TallyDisj q) (hs : q'.support = q.support) : TallyDisj q' := by
  unfold TallyDisj; rw [hs]; exact h

theorem receive_disj {V : Pid → Chain → Prop} (t : Table) (q q' : Tally) (sender : Pid) (c : Chain)
    (hwf : TallyWF V t q) (hd : TallyDisj q) (h : q.receive t sender c = some q') : TallyDisj q' := by
  unfold Tally.receive at h
  split at h
  · cases h; exact hd
  · rename_i hns
    have hns' : sender ∉ q.senders := by simpa using hns
    unfold Tally.receiveInner at h
    dsimp only at h
    split at h
    · cases h
    · cases h
      have hmem := fun s' => upsert_mem_iff q.support hwf.chains
        { chain := c, power := ((q.findSupport c).getD { chain := c, power := 0, signers := [], strong := false }).power + t.power sender,
          signers := ((q.findSupport c).getD { chain := c, power := 0, signers := [], strong := false }).signers ++ [sender],
          strong := strongQ t (((q.findSupport c).getD { chain := c, power := 0, signers := [], strong := false }).power + t.power sender) } s'
      -- a signer of the updated entry that is also filed under an old entry: the old entry is for `c`
      have hmix : ∀ s2 ∈ q.support, ∀ x,
          x ∈ ((q.findSupport c).getD { chain := c, power := 0, signers := [], strong := false }).signers ++ [sender] →
          x ∈ s2.signers → s2.chain = c := by
        intro s2 hs2 x hx hx2
        simp only [List.mem_append, List.mem_singleton] at hx
        rcases hx with hx | rfl
        · cases hf : q.findSupport c with
          | none => rw [hf] at hx; simp at hx
          | some sup =>
            rw [hf] at hx
            simp only [Option.getD_some] at hx
            have := hd sup (findSupport_mem q c sup hf) s2 hs2 x hx hx2
            rw [← this]; exact findSupport_chain q c sup hf
        · exact absurd (hwf.sub s2 hs2 x hx2) hns'
      intro s1 h1 s2 h2 x hx1 hx2
      have h1' := (hmem s1).1 h1
      have h2' := (hmem s2).1 h2
      rcases h1' with rfl | ⟨h1o, h1c⟩ <;> rcases h2' with rfl | ⟨h2o, h2c⟩
      · rfl
      · exact absurd (hmix s2 h2o x hx1 hx2) h2c
      · exact absurd (hmix s1 h1o x hx2 hx1) h1c
      · exact hd s1 h1o s2 h2o x hx1 hx2

theorem storePrepareJust_support (q : Tally) (m : Msg) : (storePrepareJust q m).support = q.support := by
  unfold storePrepareJust
  split
  · exact (receiveJust_justs q m.value _).2.2.2.1
  · rfl

theorem storeCommitJust_support (q : Tally) (m : Msg) : (storeCommitJust q m).support = q.support := by
  unfold storeCommitJust
  split
  · split
    · rfl
    · exact (receiveJust_justs q m.value _).2.2.2.1
  · rfl

theorem strong_pair_false (t : Table) (hT : 0 < t.total) (p1 p2 : Nat) (hle : p1 + p2 ≤ t.total)
    (h1 : strongQ t p1 = true) (h2 : strongQ t p2 = true) : False := by
  unfold strongQ Spec.Quorum.strong at h1 h2
  simp only [decide_eq_true_eq] at h1 h2
  have hT' : (0 : Int) < (t.total : Int) := by exact_mod_cast hT
  have hle' : (p1 : Int) + (p2 : Int) ≤ (t.total : Int) := by exact_mod_cast hle
  omega

/-- two different chains never both hold a strong quorum -/
theorem strong_unique {V : Pid → Chain → Prop} (t : Table) (q : Tally) (hwf : TallyWF V t q) (hd : TallyDisj q)
    (hT : 0 < t.total) (s1 s2 : Support) (h1 : s1 ∈ q.support) (h2 : s2 ∈ q.support)
    (hs1 : s1.strong = true) (hs2 : s2.strong = true) : s1.chain = s2.chain := by
  by_cases hc : s1.chain = s2.chain
  · exact hc
  · exfalso
    have hnd : (s1.signers ++ s2.signers).Nodup := by
      rw [List.nodup_append]
      refine ⟨hwf.nodup s1 h1, hwf.nodup s2 h2, ?_⟩
      intro a ha b hb hab
      subst hab
      exact hc (hd s1 h1 s2 h2 a ha hb)
    have hsub : ∀ x ∈ s1.signers ++ s2.signers, x ∈ q.senders := by
      intro x hx
      rcases List.mem_append.1 hx with hx | hx
      · exact hwf.sub s1 h1 x hx
      · exact hwf.sub s2 h2 x hx
    have hle := sumP_le_of_subset t _ _ hnd hsub
    rw [sumP_append, ← hwf.supPow s1 h1, ← hwf.supPow s2 h2] at hle
    have htot := sumP_le_total t q.senders hwf.sendersNodup
    refine strong_pair_false t hT s1.power s2.power (by omega) ?_ ?_
    · rw [← hwf.strongOk s1 h1]; exact hs1
    · rw [← hwf.strongOk s2 h2]; exact hs2

/-- the outcomes of `findStrongQuorumValue` -/
theorem fsqv_cases (q : Tally) :
    (q.findStrongQuorumValue = .none ∧ ∀ s ∈ q.support, s.strong = false) ∨
    (∃ s, q.findStrongQuorumValue = .one s.chain ∧ s ∈ q.support ∧ s.strong = true) ∨
    (q.findStrongQuorumValue = .multiple ∧ ∃ s1 s2 rest, q.support.filter (·.strong) = s1 :: s2 :: rest) := by
  unfold Tally.findStrongQuorumValue
  cases hf : q.support.filter (·.strong) with
  | nil =>
    left
    refine ⟨rfl, fun s hs => ?_⟩
    cases hst : s.strong with
    | false => rfl
    | true =>
      have : s ∈ q.support.filter (·.strong) := List.mem_filter.2 ⟨hs, hst⟩
      rw [hf] at this; cases this
  | cons a as =>
    cases as with
    | nil =>
      right; left
      have : a ∈ q.support.filter (·.strong) := by rw [hf]; exact List.mem_cons_self
      obtain ⟨h1, h2⟩ := List.mem_filter.1 this
      exact ⟨a, rfl, h1, h2⟩
    | cons b bs =>
      right; right
      exact ⟨rfl, a, b, bs, rfl⟩

theorem fsqv_not_multiple {V : Pid → Chain → Prop} (t : Table) (q : Tally) (hwf : TallyWF V t q) (hd : TallyDisj q)
    (hT : 0 < t.total) (h : q.findStrongQuorumValue = .multiple) : False := by
  rcases fsqv_cases q with ⟨h', _⟩ | ⟨s, h', _⟩ | ⟨_, s1, s2, rest, hf⟩
  · rw [h'] at h; cases h
  · rw [h'] at h; cases h
  · have hsub : (s1 :: s2 :: rest).Sublist q.support := by rw [← hf]; exact List.filter_sublist
    have hch : ((s1 :: s2 :: rest).map (·.chain)).Nodup := (hsub.map _).nodup hwf.chains
    have hm1 : s1 ∈ q.support.filter (·.strong) := by rw [hf]; simp
    have hm2 : s2 ∈ q.support.filter (·.strong) := by rw [hf]; simp
    obtain ⟨h1, hs1⟩ := List.mem_filter.1 hm1
    obtain ⟨h2, hs2⟩ := List.mem_filter.1 hm2
    have := strong_unique t q hwf hd hT s1 s2 h1 h2 hs1 hs2
    simp only [List.map_cons, List.nodup_cons, List.mem_cons, not_or] at hch
    exact hch.1.1 this

theorem fsqv_one_strong {V : Pid → Chain → Prop} (t : Table) (q : Tally) (hwf : TallyWF V t q) (c : Chain)
    (h : q.findStrongQuorumValue = .one c) : q.hasStrongFor c = true := by
  rcases fsqv_cases q with ⟨h', _⟩ | ⟨s, h', hs, hst⟩ | ⟨h', _⟩
  · rw [h'] at h; cases h
  · rw [h'] at h
    have hc : s.chain = c := by injection h
    have := find_of_mem_nodup q.support hwf.chains s hs
    unfold Tally.hasStrongFor Tally.findSupport
    rw [← hc, this]; exact hst
  · rw [h'] at h; cases h

theorem fsqv_none_strong (q : Tally) (c : Chain) (h : q.findStrongQuorumValue = .none) : q.hasStrongFor c = false := by
  rcases fsqv_cases q with ⟨_, hall⟩ | ⟨s, h', _⟩ | ⟨h', _⟩
  · unfold Tally.hasStrongFor
    cases hf : q.findSupport c with
    | none => rfl
    | some s => exact hall s (findSupport_mem q c s hf)
  · rw [h'] at h; cases h
  · rw [h'] at h; cases h

/-! ### a strong quorum of senders without a quorum value has voted for something non-bottom -/

theorem firstNonZero_some {V : Pid → Chain → Prop} (t : Table) (q : Tally) (hwf : TallyWF V t q) (hT : 0 < t.total)
    (hnone : q.findStrongQuorumValue = .none) (hfs : q.fromStrong t = true) : ∃ v, q.firstNonZero = some v := by
  cases hfz : q.firstNonZero with
  | some v => exact ⟨v, rfl⟩
  | none =>
    exfalso
    unfold Tally.firstNonZero at hfz
    have hall : ∀ s ∈ q.support, s.chain = [] := by
      cases hfd : q.support.find? (fun s => !s.chain.isEmpty) with
      | some s => rw [hfd] at hfz; cases hfz
      | none =>
        rw [List.find?_eq_none] at hfd
        intro s hs
        simpa using hfd s hs
    have hweak : ∀ s ∈ q.support, s.strong = false := by
      rcases fsqv_cases q with ⟨_, h⟩ | ⟨s, h', _⟩ | ⟨h', _⟩
      · exact h
      · rw [h'] at hnone; cases hnone
      · rw [h'] at hnone; cases hnone
    unfold Tally.fromStrong at hfs
    cases hsd : q.senders with
    | nil =>
      rw [hwf.sendersPow, hsd, sumP_nil, strongQ_zero t hT] at hfs
      cases hfs
    | cons x xs =>
      obtain ⟨sup0, hsup0, _⟩ := hwf.covered x (by rw [hsd]; exact List.mem_cons_self)
      have hdom : q.sendersPower ≤ sup0.power := by
        rw [hwf.sendersPow, hwf.supPow sup0 hsup0]
        apply sumP_le_of_subset t _ _ hwf.sendersNodup
        intro y hy
        obtain ⟨sup, hsup, hys⟩ := hwf.covered y hy
        have h1 := find_of_mem_nodup q.support hwf.chains sup hsup
        have h2 := find_of_mem_nodup q.support hwf.chains sup0 hsup0
        rw [hall sup hsup] at h1
        rw [hall sup0 hsup0] at h2
        rw [h1] at h2
        cases h2; exact hys
      have := strongQ_mono t hdom hfs
      rw [← hwf.strongOk sup0 hsup0, hweak sup0 hsup0] at this
      cases this

/-! ### `findBest` -/

theorem findBest_some (cv : Conv) (f : ConvVal → Bool) (x : ConvVal) (hx : x ∈ cv.values) (hf : f x = true) :
    ∃ w, cv.findBest f = some w := by
  unfold Conv.findBest
  suffices hgen : ∀ (l : List ConvVal) (init : Option ConvVal),
      (init.isSome = true ∨ ∃ y ∈ l, f y = true) →
      ∃ w, l.foldl (fun best cv' =>
        let better := match best with
          | none => true
          | some b => rankLt cv'.rank b.rank
        if better && f cv' then some cv' else best) init = some w from
    hgen cv.values none (Or.inr ⟨x, hx, hf⟩)
  intro l
  induction l with
  | nil =>
    intro init h
    rcases h with h | ⟨y, hy, _⟩
    · cases init with
      | none => cases h
      | some b => exact ⟨b, rfl⟩
    · cases hy
  | cons a as ih =>
    intro init h
    simp only [List.foldl_cons]
    apply ih
    cases init with
    | some b =>
      left
      dsimp only
      split <;> rfl
    | none =>
      rcases h with h | ⟨y, hy, hfy⟩
      · cases h
      · by_cases hfa : f a = true
        · left; simp [hfa]
        · right
          rcases List.mem_cons.1 hy with rfl | hy
          · exact absurd hfy hfa
          · exact ⟨y, hy, hfy⟩

end F3.Instance
