import F3.Model.SMap
/-! Lemmas about the sorted-association-list model of Go maps. -/
namespace F3.SMap

variable {α : Type} (k : α → Nat)

/-- strictly sorted by key -/
def SSorted (l : List α) : Prop := l.Pairwise (fun a b => k a < k b)

theorem lookup_nil (i : Nat) : lookup k ([] : List α) i = none := rfl

theorem lookup_cons (x : α) (l : List α) (i : Nat) :
    lookup k (x :: l) i = if k x = i then some x else lookup k l i := by
  unfold lookup
  rw [List.find?_cons]
  by_cases h : k x = i
  · simp [h]
  · have hb : (k x == i) = false := by simpa using h
    simp [hb, h]

theorem lookup_key {l : List α} {i : Nat} {x : α} (h : lookup k l i = some x) : k x = i := by
  unfold lookup at h
  have := List.find?_some h
  simpa using this

theorem lookup_mem {l : List α} {i : Nat} {x : α} (h : lookup k l i = some x) : x ∈ l := by
  unfold lookup at h
  exact List.mem_of_find?_eq_some h

theorem lookup_none_iff {l : List α} {i : Nat} : lookup k l i = none ↔ ∀ x ∈ l, k x ≠ i := by
  unfold lookup
  simp [List.find?_eq_none]

theorem insert_cons_lt {x y : α} {ys : List α} (h : k x < k y) :
    insert k x (y :: ys) = x :: y :: ys := by
  simp [insert, h]

theorem insert_cons_eq {x y : α} {ys : List α} (h : k x = k y) :
    insert k x (y :: ys) = x :: ys := by
  simp [insert, h]

theorem insert_cons_gt {x y : α} {ys : List α} (h : k y < k x) :
    insert k x (y :: ys) = y :: insert k x ys := by
  have h1 : ¬ k x < k y := by omega
  have h2 : ¬ k x = k y := by omega
  simp [insert, h1, h2]

theorem lookup_insert (x : α) (l : List α) (i : Nat) :
    lookup k (insert k x l) i = if k x = i then some x else lookup k l i := by
  induction l with
  | nil => simp [insert, lookup_cons, lookup_nil]
  | cons y ys ih =>
    rcases Nat.lt_trichotomy (k x) (k y) with h | h | h
    · rw [insert_cons_lt k h, lookup_cons]
    · rw [insert_cons_eq k h, lookup_cons, lookup_cons]
      by_cases h3 : k x = i
      · simp [h3]
      · have : k y ≠ i := by omega
        simp [h3, this]
    · rw [insert_cons_gt k h, lookup_cons, ih, lookup_cons]
      by_cases h3 : k y = i
      · have : k x ≠ i := by omega
        simp [h3, this]
      · simp [h3]

theorem erase_cons_eq {y : α} {ys : List α} {j : Nat} (h : k y = j) :
    erase k j (y :: ys) = erase k j ys := by
  simp [erase, List.filter, h]

theorem erase_cons_ne {y : α} {ys : List α} {j : Nat} (h : k y ≠ j) :
    erase k j (y :: ys) = y :: erase k j ys := by
  have hb : (k y != j) = true := by simpa using h
  simp [erase, List.filter, hb]

theorem lookup_erase (j : Nat) (l : List α) (i : Nat) :
    lookup k (erase k j l) i = if i = j then none else lookup k l i := by
  induction l with
  | nil => simp [erase, lookup_nil]
  | cons y ys ih =>
    by_cases h : k y = j
    · rw [erase_cons_eq k h, ih, lookup_cons]
      by_cases h2 : i = j
      · simp [h2]
      · have : k y ≠ i := by omega
        simp [h2, this]
    · rw [erase_cons_ne k h, lookup_cons, ih, lookup_cons]
      by_cases h2 : i = j
      · have : k y ≠ i := by omega
        rw [if_neg this, if_pos h2, if_pos h2]
      · rw [if_neg h2, if_neg h2]

theorem ssorted_cons {x : α} {l : List α} :
    SSorted k (x :: l) ↔ (∀ y ∈ l, k x < k y) ∧ SSorted k l := by
  unfold SSorted; exact List.pairwise_cons

theorem mem_insert {x y : α} {l : List α} (h : y ∈ insert k x l) : y = x ∨ y ∈ l := by
  induction l with
  | nil => simp [insert] at h; exact Or.inl h
  | cons z zs ih =>
    rcases Nat.lt_trichotomy (k x) (k z) with h1 | h1 | h1
    · rw [insert_cons_lt k h1] at h
      rcases List.mem_cons.mp h with h | h
      · exact Or.inl h
      · exact Or.inr h
    · rw [insert_cons_eq k h1] at h
      rcases List.mem_cons.mp h with h | h
      · exact Or.inl h
      · exact Or.inr (List.mem_cons.mpr (Or.inr h))
    · rw [insert_cons_gt k h1] at h
      rcases List.mem_cons.mp h with h | h
      · exact Or.inr (List.mem_cons.mpr (Or.inl h))
      · rcases ih h with h | h
        · exact Or.inl h
        · exact Or.inr (List.mem_cons.mpr (Or.inr h))

theorem ssorted_insert (x : α) {l : List α} (h : SSorted k l) : SSorted k (insert k x l) := by
  induction l with
  | nil => simp [insert, SSorted]
  | cons y ys ih =>
    have h' := (ssorted_cons k).mp h
    rcases Nat.lt_trichotomy (k x) (k y) with h1 | h1 | h1
    · rw [insert_cons_lt k h1, ssorted_cons]
      refine ⟨?_, h⟩
      intro z hz
      rcases List.mem_cons.mp hz with hz | hz
      · rw [hz]; exact h1
      · have := h'.1 z hz; omega
    · rw [insert_cons_eq k h1, ssorted_cons]
      refine ⟨?_, h'.2⟩
      intro z hz
      have := h'.1 z hz; omega
    · rw [insert_cons_gt k h1, ssorted_cons]
      refine ⟨?_, ih h'.2⟩
      intro z hz
      rcases mem_insert k hz with hz | hz
      · rw [hz]; omega
      · exact h'.1 z hz

theorem ssorted_erase (j : Nat) {l : List α} (h : SSorted k l) : SSorted k (erase k j l) := by
  unfold erase SSorted at *
  exact List.Pairwise.filter _ h

theorem ssorted_ofList_aux (l m : List α) (h : SSorted k m) :
    SSorted k (l.foldl (fun m x => insert k x m) m) := by
  induction l generalizing m with
  | nil => exact h
  | cons x xs ih => exact ih _ (ssorted_insert k x h)

theorem ssorted_ofList (l : List α) : SSorted k (ofList k l) :=
  ssorted_ofList_aux k l [] (by simp [SSorted])

/-- in a strictly sorted list, `lookup` finds exactly the members -/
theorem lookup_of_mem {l : List α} (h : SSorted k l) {x : α} (hx : x ∈ l) :
    lookup k l (k x) = some x := by
  induction l with
  | nil => simp at hx
  | cons y ys ih =>
    rw [ssorted_cons] at h
    rw [lookup_cons]
    rcases List.mem_cons.mp hx with hx | hx
    · simp [hx]
    · have := h.1 x hx
      have hne : k y ≠ k x := by omega
      simp [hne, ih h.2 hx]

/-- extensionality: strictly sorted lists with the same `lookup` are equal -/
theorem ext {l₁ l₂ : List α} (h₁ : SSorted k l₁) (h₂ : SSorted k l₂)
    (h : ∀ i, lookup k l₁ i = lookup k l₂ i) : l₁ = l₂ := by
  induction l₁ generalizing l₂ with
  | nil =>
    cases l₂ with
    | nil => rfl
    | cons y ys =>
      have := h (k y)
      simp [lookup_cons, lookup_nil] at this
  | cons x xs ih =>
    cases l₂ with
    | nil =>
      have := h (k x)
      simp [lookup_cons, lookup_nil] at this
    | cons y ys =>
      rw [ssorted_cons] at h₁ h₂
      -- heads have equal keys
      have hxy : k x = k y := by
        have e1 := h (k x)
        have e2 := h (k y)
        simp only [lookup_cons, if_true] at e1 e2
        by_cases hlt : k x < k y
        · have hne : k y ≠ k x := by omega
          simp only [hne, if_false] at e1
          have hm := lookup_mem k e1.symm
          have := h₂.1 x hm
          omega
        · by_cases hgt : k y < k x
          · have hne : k x ≠ k y := by omega
            simp only [hne, if_false] at e2
            have hm := lookup_mem k e2
            have := h₁.1 y hm
            omega
          · omega
      have hx : x = y := by
        have e1 := h (k x)
        simp only [lookup_cons, if_true, hxy] at e1
        simpa using e1
      subst hx
      congr 1
      apply ih h₁.2 h₂.2
      intro i
      have e := h i
      simp only [lookup_cons] at e
      by_cases hi : k x = i
      · -- neither tail contains key i
        have n1 : lookup k xs i = none := by
          rw [lookup_none_iff]; intro z hz; have := h₁.1 z hz; omega
        have n2 : lookup k ys i = none := by
          rw [lookup_none_iff]; intro z hz; have := h₂.1 z hz; omega
        rw [n1, n2]
      · simpa [hi] using e

theorem lookup_append (a b : List α) (i : Nat) :
    lookup k (a ++ b) i = (lookup k a i).orElse (fun _ => lookup k b i) := by
  unfold lookup
  rw [List.find?_append]
  cases List.find? (fun x => k x == i) a <;> rfl

theorem lookup_ofList_aux (l m : List α) (i : Nat) :
    lookup k (l.foldl (fun m x => insert k x m) m) i =
      (lookup k l.reverse i).orElse (fun _ => lookup k m i) := by
  induction l generalizing m with
  | nil => simp [lookup_nil]
  | cons x xs ih =>
    simp only [List.foldl_cons, List.reverse_cons]
    rw [ih, lookup_append, lookup_insert]
    cases hxs : lookup k xs.reverse i with
    | some y => rfl
    | none =>
      simp only [lookup_cons, lookup_nil, Option.orElse_none]
      by_cases hx : k x = i <;> simp [hx]

theorem lookup_reverse {l : List α} (hnd : (l.map k).Nodup) (i : Nat) :
    lookup k l.reverse i = lookup k l i := by
  induction l with
  | nil => rfl
  | cons x xs ih =>
    have hnd' : k x ∉ xs.map k ∧ (xs.map k).Nodup := by
      rw [List.map_cons] at hnd; exact List.nodup_cons.mp hnd
    rw [List.reverse_cons, lookup_append, ih hnd'.2]
    by_cases hx : k x = i
    · have hn : lookup k xs i = none := by
        rw [lookup_none_iff]; intro z hz hzi
        apply hnd'.1
        rw [List.mem_map]; exact ⟨z, hz, by omega⟩
      rw [hn, lookup_cons, lookup_cons, if_pos hx, if_pos hx]; rfl
    · rw [lookup_cons (l := xs), if_neg hx]
      cases hl : lookup k xs i with
      | none => rw [lookup_cons, if_neg hx]; rfl
      | some v => rfl

/-- when keys are distinct, `ofList` looks up like the list itself -/
theorem lookup_ofList {l : List α} (hnd : (l.map k).Nodup) (i : Nat) :
    lookup k (ofList k l) i = lookup k l i := by
  unfold ofList
  rw [lookup_ofList_aux, lookup_reverse k hnd, lookup_nil]
  cases lookup k l i <;> rfl

theorem lookup_of_mem_nodup {l : List α} (hnd : (l.map k).Nodup) {x : α} (hx : x ∈ l) :
    lookup k l (k x) = some x := by
  induction l with
  | nil => simp at hx
  | cons y ys ih =>
    have hnd' : k y ∉ ys.map k ∧ (ys.map k).Nodup := by
      rw [List.map_cons] at hnd; exact List.nodup_cons.mp hnd
    rw [lookup_cons]
    rcases List.mem_cons.mp hx with hx | hx
    · simp [hx]
    · have hne : k y ≠ k x := by
        intro h; apply hnd'.1; rw [List.mem_map]; exact ⟨x, hx, h.symm⟩
      rw [if_neg hne]; exact ih hnd'.2 hx

theorem nodup_of_ssorted {l : List α} (h : SSorted k l) : (l.map k).Nodup := by
  unfold SSorted at h
  unfold List.Nodup
  rw [List.pairwise_map]
  exact h.imp (fun hab => by omega)

theorem lookup_eq_some_iff {l : List α} (hnd : (l.map k).Nodup) {i : Nat} {x : α} :
    lookup k l i = some x ↔ x ∈ l ∧ k x = i := by
  constructor
  · intro h; exact ⟨lookup_mem k h, lookup_key k h⟩
  · rintro ⟨hm, hk⟩; rw [← hk]; exact lookup_of_mem_nodup k hnd hm

theorem lookup_perm {l₁ l₂ : List α} (hp : l₁.Perm l₂) (hnd : (l₁.map k).Nodup) (i : Nat) :
    lookup k l₁ i = lookup k l₂ i := by
  have hnd2 : (l₂.map k).Nodup := (hp.map k).nodup_iff.mp hnd
  cases h : lookup k l₁ i with
  | none =>
    symm; rw [lookup_none_iff] at *
    intro x hx; exact h x (hp.mem_iff.mpr hx)
  | some x =>
    symm
    rw [lookup_eq_some_iff k hnd] at h
    rw [lookup_eq_some_iff k hnd2]
    exact ⟨hp.mem_iff.mp h.1, h.2⟩

theorem insert_perm {x : α} {l : List α} (h : k x ∉ l.map k) : (insert k x l).Perm (x :: l) := by
  induction l with
  | nil => simp [insert]
  | cons y ys ih =>
    have hy : k x ≠ k y := by
      intro e; apply h; simp [e]
    have hys : k x ∉ ys.map k := by
      intro e; apply h; rw [List.map_cons]; exact List.mem_cons_of_mem _ e
    rcases Nat.lt_trichotomy (k x) (k y) with h1 | h1 | h1
    · rw [insert_cons_lt k h1]
    · exact absurd h1 hy
    · rw [insert_cons_gt k h1]
      exact ((ih hys).cons y).trans (List.Perm.swap x y ys)

theorem keys_insert_subset {x : α} {l : List α} {i : Nat} (h : i ∈ (insert k x l).map k) :
    i = k x ∨ i ∈ l.map k := by
  rw [List.mem_map] at h
  obtain ⟨y, hy, rfl⟩ := h
  rcases mem_insert k hy with h | h
  · exact Or.inl (by rw [h])
  · exact Or.inr (List.mem_map.mpr ⟨y, h, rfl⟩)

theorem ofList_perm_aux (l m : List α) (hnd : (l.map k).Nodup)
    (hdis : ∀ i ∈ l.map k, i ∉ m.map k) :
    (l.foldl (fun m x => insert k x m) m).Perm (l.reverse ++ m) := by
  induction l generalizing m with
  | nil => simp
  | cons x xs ih =>
    have hnd' : k x ∉ xs.map k ∧ (xs.map k).Nodup := by
      rw [List.map_cons] at hnd; exact List.nodup_cons.mp hnd
    simp only [List.foldl_cons, List.reverse_cons, List.append_assoc, List.singleton_append]
    have hx : k x ∉ m.map k := hdis (k x) (by simp)
    refine (ih (insert k x m) hnd'.2 ?_).trans ?_
    · intro i hi hmem
      rcases keys_insert_subset k hmem with h | h
      · rw [h] at hi; exact hnd'.1 hi
      · exact hdis i (by rw [List.map_cons]; exact List.mem_cons_of_mem _ hi) h
    · exact List.Perm.append_left _ (insert_perm k hx)

theorem ofList_perm {l : List α} (hnd : (l.map k).Nodup) : (ofList k l).Perm l := by
  unfold ofList
  have := ofList_perm_aux k l [] hnd (by simp)
  rw [List.append_nil] at this
  exact this.trans (List.reverse_perm l)

end F3.SMap
