import F3.Proofs.NoFailureBridgeP
import F3.Proofs.EmittedValidBridge
import F3.Proofs.EmittedValidParticipant
/-!
# `emitted_valid` for `ValidRunP` / `NetworkVP` (participant API; the vocabulary of the end-to-end agreement theorems)

`F3.EmittedValid.emitted_valid_prun` restated over `F3.Bridge.ValidRunP`: every broadcast of an honest participant with
positive power — driven through the participant API, pre-start queue and drain included — is a message its peers'
validators accept (`MsgValid W t`), hence a delivery of it satisfies the hypothesis `valid` of every other participant's
`ValidRunP` (it is a message of this instance with the instance's supplemental data: `PMsgOK`). The same for what is
re-sent on rebroadcast requests.
-/
namespace F3.EmittedValid
open F3 F3.Instance F3.Bridge

/-- **`emitted_valid`, participant API.** -/
theorem emitted_valid_runP {W : Votes} {t : Table} {p : Pid} (vr : ValidRunP W t p) (hT : 0 < t.total)
    (hpos : 0 < t.power p) :
    ∀ r ph v tk j, Eff.broadcast r ph v tk j ∈ (prun vr.order (pinit vr.cfg t vr.input) vr.ops).2 →
      MsgValid W t (msgOf p r ph v j) :=
  emitted_valid_prun vr.cfg t vr.input W p vr.order vr.ops vr.inputNe hT hpos vr.valid
    (fun r ph v tk j hm => (vr.own r ph v).2 ⟨tk, j, hm⟩)

/-- everything an honest participant puts on the wire — rebroadcast requests expanded — is valid -/
theorem wire_valid_runP {W : Votes} {t : Table} {p : Pid} (vr : ValidRunP W t p) (hT : 0 < t.total)
    (hpos : 0 < t.power p) :
    ∀ m ∈ wireOf p (prun vr.order (pinit vr.cfg t vr.input) vr.ops).2, MsgValid W t m := by
  intro m hm
  obtain ⟨r, ph, v, tk, j, he, rfl⟩ := mem_wireOf hm
  exact emitted_valid_runP vr hT hpos r ph v tk j he

/-- In a network of model participants driven through the participant API, every message an honest member with power
sends or re-sends may be delivered, at any time, before or after the receiver's instance has begun, to any participant:
the delivery satisfies the validity hypothesis of `ValidRunP`. -/
theorem emitted_deliverableP {t : Table} {F : Finset Pid} {W : Votes} (N : NetworkVP t F W) (p : Pid)
    (hp : p ∈ (ids t).toFinset) (hF : p ∉ F) (hpos : 0 < t.power p) (m : Msg)
    (hm : m ∈ wireOf p (prun (N.runs p hp hF).order (pinit (N.runs p hp hF).cfg t (N.runs p hp hF).input)
      (N.runs p hp hF).ops).2) (now : Int) :
    POpP (PMsgOK W t) (.recv now m) := by
  obtain ⟨r, ph, v, tk, j, _, hmm⟩ := mem_wireOf hm
  exact ⟨by rw [hmm]; rfl, Or.inr (wire_valid_runP (N.runs p hp hF) N.totalPos hpos m hm)⟩

/-- non-vacuity: member 1 of the participant-level example network `exNetVP` (four messages queued before the instance
begins; decides `[7,8]`) — its four broadcasts are valid w.r.t. `exW` -/
example : MsgValid exW exTbl (msgOf 1 0 .quality [7, 8] none) ∧ MsgValid exW exTbl (msgOf 1 0 .prepare [7, 8] none) ∧
    MsgValid exW exTbl (msgOf 1 0 .commit [7, 8] (some exJp)) ∧ MsgValid exW exTbl (msgOf 1 0 .decide [7, 8] (some exJc)) := by
  have h := emitted_valid_runP (exRunVP 1 (Or.inl rfl)) (by decide) (by decide)
  have hb : bcList (prun (exRunVP 1 (Or.inl rfl)).order (pinit (exRunVP 1 (Or.inl rfl)).cfg exTbl
      (exRunVP 1 (Or.inl rfl)).input) (exRunVP 1 (Or.inl rfl)).ops).2 =
      [(0, .quality, [7, 8], none), (0, .prepare, [7, 8], none), (0, .commit, [7, 8], some exJp),
       (0, .decide, [7, 8], some exJc)] := by decide
  have key : ∀ x ∈ bcList (prun (exRunVP 1 (Or.inl rfl)).order (pinit (exRunVP 1 (Or.inl rfl)).cfg exTbl
      (exRunVP 1 (Or.inl rfl)).input) (exRunVP 1 (Or.inl rfl)).ops).2,
      MsgValid exW exTbl (msgOf 1 x.1 x.2.1 x.2.2.1 x.2.2.2) := by
    intro x hx
    simp only [bcList, List.mem_filterMap] at hx
    obtain ⟨e, he, hex⟩ := hx
    cases e <;> simp at hex
    subst hex
    exact h _ _ _ _ _ he
  rw [hb] at key
  exact ⟨key (0, .quality, [7, 8], none) (by simp), key (0, .prepare, [7, 8], none) (by simp),
    key (0, .commit, [7, 8], some exJp) (by simp), key (0, .decide, [7, 8], some exJc) (by simp)⟩

end F3.EmittedValid
