import F3.Proofs.StoreTable
/-! Facts about valid abstract histories (`Spec.Valid`). -/
namespace F3.Store
namespace Spec

/-- Table after the first `k` certificates. -/
def tbl (sp : Spec) (k : Nat) : Option Table := foldTables sp.init (sp.certs.take k)

theorem tableAt_eq (sp : Spec) {i : Nat} (h1 : sp.first ≤ i) (h2 : i ≤ sp.next) : sp.tableAt i = sp.tbl (i - sp.first) := by
  simp [tableAt, tbl, h1, h2]

theorem tbl_zero (sp : Spec) : sp.tbl 0 = some sp.init := by simp [tbl, foldTables]

theorem tbl_len (sp : Spec) : sp.tbl sp.certs.length = foldTables sp.init sp.certs := by simp [tbl]

theorem push_first (sp : Spec) (c : Cert) : (sp.push c).first = sp.first := rfl
theorem push_init (sp : Spec) (c : Cert) : (sp.push c).init = sp.init := rfl
theorem push_certs (sp : Spec) (c : Cert) : (sp.push c).certs = sp.certs ++ [c] := rfl
theorem push_next (sp : Spec) (c : Cert) : (sp.push c).next = sp.next + 1 := by
  simp [next, push, Nat.add_assoc]

theorem tbl_push_le (sp : Spec) (c : Cert) {k : Nat} (h : k ≤ sp.certs.length) : (sp.push c).tbl k = sp.tbl k := by
  simp [tbl, push, List.take_append_of_le_length h]

/-- What admission means, unfolded. -/
theorem admits_iff (sp : Spec) (c : Cert) :
    sp.admits c = true ↔ c.inst = sp.next ∧ c.chain = .ok ∧
      ∃ t t', foldTables sp.init sp.certs = some t ∧ tableStep t c.delta = .ok t' ∧ c.commit = Commit.known t' ∧ t' ≠ [] := by
  unfold admits
  cases hf : foldTables sp.init sp.certs with
  | none => simp
  | some t =>
    cases hs : tableStep t c.delta with
    | error e => simp [hs]
    | ok t' => simp [hs, and_assoc]

theorem tbl_push_last (sp : Spec) (c : Cert) {t t' : Table} (h1 : foldTables sp.init sp.certs = some t)
    (h2 : tableStep t c.delta = .ok t') : (sp.push c).tbl (sp.certs.length + 1) = some t' := by
  have : (sp.push c).certs.length = sp.certs.length + 1 := by rw [push_certs]; simp
  rw [← this, tbl_len, push_certs, push_init, foldTables_append, h1]
  simp [foldTables, stepOpt, h2]

/-- Everything a valid history guarantees. -/
structure Facts (sp : Spec) : Prop where
  initNe : sp.init ≠ []
  inst : ∀ k (h : k < sp.certs.length), (sp.certs[k]).inst = sp.first + k
  chain : ∀ k (h : k < sp.certs.length), (sp.certs[k]).chain = .ok
  tbls : ∀ k, k ≤ sp.certs.length → ∃ t, sp.tbl k = some t ∧ t ≠ []
  step : ∀ k (h : k < sp.certs.length), ∀ t t', sp.tbl k = some t → sp.tbl (k + 1) = some t' →
    tableStep t (sp.certs[k]).delta = .ok t' ∧ (sp.certs[k]).commit = Commit.known t'

theorem tbl_succ (sp : Spec) {k : Nat} (h : k < sp.certs.length) :
    sp.tbl (k + 1) = stepOpt (sp.tbl k) sp.certs[k] := by
  unfold tbl foldTables
  rw [List.take_succ_eq_append_getElem h, List.foldl_append]
  rfl

theorem Facts.create (first : Nat) {init : Table} (hne : init ≠ []) : Facts ⟨first, init, []⟩ := by
  refine ⟨hne, ?_, ?_, ?_, ?_⟩
  · intro k hk; simp at hk
  · intro k hk; simp at hk
  · intro k hk
    have : k = 0 := Nat.le_zero.1 hk
    subst this
    exact ⟨init, by simp [tbl, foldTables], hne⟩
  · intro k hk; simp at hk

theorem Facts.push {sp : Spec} (ih : sp.Facts) {c : Cert} (hadm : sp.admits c = true) : (sp.push c).Facts := by
  obtain ⟨hinst, hchain, t, t', hf, hs, hcm, hne⟩ := (admits_iff sp c).1 hadm
  have hlen : (sp.push c).certs.length = sp.certs.length + 1 := by rw [push_certs]; simp
  refine ⟨ih.initNe, ?_, ?_, ?_, ?_⟩
  · intro k hk
    rw [hlen] at hk
    by_cases hlt : k < sp.certs.length
    · simp only [push_certs, push_first, List.getElem_append_left hlt]
      exact ih.inst k hlt
    · have : k = sp.certs.length := by omega
      subst this
      simp [push_certs, push_first, hinst, next]
  · intro k hk
    rw [hlen] at hk
    by_cases hlt : k < sp.certs.length
    · simp only [push_certs, List.getElem_append_left hlt]
      exact ih.chain k hlt
    · have : k = sp.certs.length := by omega
      subst this
      simp [push_certs, hchain]
  · intro k hk
    rw [hlen] at hk
    by_cases hle : k ≤ sp.certs.length
    · rw [tbl_push_le sp c hle]; exact ih.tbls k hle
    · have : k = sp.certs.length + 1 := by omega
      subst this
      exact ⟨t', tbl_push_last sp c hf hs, hne⟩
  · intro k hk a b ha hb
    rw [hlen] at hk
    by_cases hlt : k < sp.certs.length
    · rw [tbl_push_le sp c (Nat.le_of_lt hlt)] at ha
      rw [tbl_push_le sp c hlt] at hb
      simp only [push_certs, List.getElem_append_left hlt]
      exact ih.step k hlt a b ha hb
    · have hk' : k = sp.certs.length := by omega
      subst hk'
      rw [tbl_push_le sp c (Nat.le_refl _), tbl_len, hf] at ha
      rw [tbl_push_last sp c hf hs] at hb
      cases ha; cases hb
      simp [push_certs, hs, hcm]

theorem Valid.facts {sp : Spec} (h : sp.Valid) : sp.Facts := by
  induction h with
  | create first init hne => exact Facts.create first hne
  | push _ hadm ih => exact ih.push hadm

theorem latest_eq (sp : Spec) : sp.latest = sp.certs.getLast? := rfl

theorem latest_none_iff (sp : Spec) : sp.latest = none ↔ sp.certs = [] := by
  simp [latest, List.getLast?_eq_none_iff]

theorem latest_inst {sp : Spec} (h : sp.Facts) {c : Cert} (hc : sp.latest = some c) : c.inst + 1 = sp.next := by
  unfold latest at hc
  rw [List.getLast?_eq_getElem?] at hc
  have hlen : sp.certs.length - 1 < sp.certs.length := by
    cases hl : sp.certs with
    | nil => simp [hl] at hc
    | cons x xs => simp
  rw [List.getElem?_eq_getElem hlen] at hc
  cases hc
  rw [h.inst _ hlen]; unfold next; omega

theorem canon_tbl {sp : Spec} (hc : Canon sp.init) {k : Nat} {t : Table} (h : sp.tbl k = some t) : Canon t :=
  canon_foldTables hc h

end Spec
end F3.Store
