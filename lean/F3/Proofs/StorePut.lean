import F3.Proofs.StoreOps
/-! `Put`: refinement of `Spec.put`, exact write sequence, and what every prefix of it leaves behind. -/
namespace F3.Store

/-- The datastore writes of an admitted `Put`, in order. -/
def putWrites (freq : Nat) (c : Cert) (t : Table) : List W :=
  [W.put (.cert c.inst) (.cert c)]
    ++ (if (c.inst + 1) % freq = 0 then [W.put (.power (c.inst + 1)) (.tbl t)] else [])
    ++ [W.put .latest (.num c.inst)]

/-- Every subscriber channel holds at most one certificate (capacity 1). -/
def SubsOk (m : Mem) : Prop := ∀ s ∈ m.subs, s.2.length ≤ 1

theorem notifyAll_ok (subs : List (Nat × List Cert)) (c : Cert) (h : ∀ s ∈ subs, s.2.length ≤ 1) :
    notifyAll subs c = some (subs.map (fun s => (s.1, [c]))) := by
  induction subs with
  | nil => rfl
  | cons s r ih =>
    obtain ⟨i, buf⟩ := s
    have hb : buf.length ≤ 1 := h (i, buf) (List.mem_cons_self ..)
    have hr := ih (fun s hs => h s (List.mem_cons_of_mem _ hs))
    have hsend : chanSend (chanDrain buf) c = some [c] := by
      unfold chanSend chanDrain
      have : buf.drop 1 = [] := by
        cases buf with
        | nil => rfl
        | cons x xs =>
          cases xs with
          | nil => rfl
          | cons y ys => simp at hb
      simp [this]
    unfold notifyAll
    rw [hsend, hr]
    rfl

variable {freq : Nat} {ds : DS} {sp : Spec}

theorem put_admitted (cfg : Cfg) {m : Mem} (hm : MemOk m sp) (hf : sp.Facts) (hs : SubsOk m) {c : Cert}
    (hadm : sp.admits c = true) :
    ∃ t', (sp.push c).tbl (sp.certs.length + 1) = some t' ∧ t' ≠ [] ∧
      put cfg m c = ⟨putWrites cfg.freq c t',
        .ok { m with latest := some c, latestTable := t', subs := m.subs.map (fun s => (s.1, [c])) }⟩ := by
  obtain ⟨hinst, hchain, t, t', hfold, hstep, hcm, hne⟩ := (Spec.admits_iff sp c).1 hadm
  refine ⟨t', Spec.tbl_push_last sp c hfold hstep, hne, ?_⟩
  have hnext : m.next = sp.next := mem_next_eq hm.first hm.latest hf
  have hlt : m.latestTable = t := by
    have := hm.table; rw [Spec.tbl_len, hfold] at this; exact Option.some.inj this
  unfold put
  have h1 : ¬ c.inst < m.first := by rw [hinst, hm.first]; unfold Spec.next; omega
  have h2 : ¬ c.chain = .zero := by rw [hchain]; decide
  have h3 : ¬ c.chain = .invalid := by rw [hchain]; decide
  have h4 : ¬ c.inst > m.next := by omega
  have h5 : ¬ c.inst < m.next := by omega
  simp only [h1, h2, h3, h4, h5, if_false, hlt, hstep, hcm, ne_eq, not_true_eq_false, hne]
  rw [notifyAll_ok m.subs c hs]
  rfl

theorem put_stale (cfg : Cfg) {m : Mem} (hm : MemOk m sp) (hf : sp.Facts) {c : Cert}
    (h1 : sp.first ≤ c.inst) (h2 : c.inst < sp.next) (h3 : c.chain = .ok) :
    put cfg m c = ⟨[], .ok m⟩ := by
  have hnext : m.next = sp.next := mem_next_eq hm.first hm.latest hf
  unfold put
  have a1 : ¬ c.inst < m.first := by rw [hm.first]; omega
  have a2 : ¬ c.chain = .zero := by rw [h3]; decide
  have a3 : ¬ c.chain = .invalid := by rw [h3]; decide
  have a4 : ¬ c.inst > m.next := by omega
  have a5 : c.inst < m.next := by omega
  simp only [a1, a2, a3, a4, a5, if_false, if_true]

/-- Neither the successor the history admits nor a stale re-put: rejected, nothing written. -/
theorem put_rejected (cfg : Cfg) {m : Mem} (hm : MemOk m sp) (hf : sp.Facts) {c : Cert}
    (hadm : sp.admits c = false) (hstale : ¬ (sp.first ≤ c.inst ∧ c.inst < sp.next ∧ c.chain = .ok)) :
    ∃ e, put cfg m c = ⟨[], .error e⟩ ∧ e ≠ .wouldBlock := by
  have hnext : m.next = sp.next := mem_next_eq hm.first hm.latest hf
  obtain ⟨T, hT, _⟩ := hf.tbls sp.certs.length (Nat.le_refl _)
  have hlt : m.latestTable = T := by
    have := hm.table; rw [hT] at this; exact Option.some.inj this
  unfold put
  by_cases a1 : c.inst < m.first
  · exact ⟨_, by rw [if_pos a1], by decide⟩
  · by_cases a2 : c.chain = .zero
    · exact ⟨_, by rw [if_neg a1, if_pos a2], by decide⟩
    · by_cases a3 : c.chain = .invalid
      · exact ⟨_, by rw [if_neg a1, if_neg a2, if_pos a3], by decide⟩
      · have hok : c.chain = .ok := by
          cases hc : c.chain with
          | ok => rfl
          | zero => exact absurd hc a2
          | invalid => exact absurd hc a3
        by_cases a4 : c.inst > m.next
        · exact ⟨_, by rw [if_neg a1, if_neg a2, if_neg a3, if_pos a4], by decide⟩
        · by_cases a5 : c.inst < m.next
          · exact absurd ⟨by rw [← hm.first]; omega, by omega, hok⟩ hstale
          · simp only [a1, a2, a3, a4, a5, if_false, hlt]
            have hinst : c.inst = sp.next := by omega
            cases hstep : tableStep T c.delta with
            | error e => exact ⟨_, rfl, by decide⟩
            | ok t' =>
              simp only
              by_cases a6 : c.commit = Commit.known t'
              · by_cases a7 : t' = []
                · exact ⟨_, by rw [if_neg (fun hh => hh a6), if_pos a7], by decide⟩
                · have : sp.admits c = true :=
                    (Spec.admits_iff sp c).2 ⟨hinst, hok, T, t', by rw [← Spec.tbl_len]; exact hT, hstep, a6, a7⟩
                  rw [this] at hadm; cases hadm
              · exact ⟨_, by rw [if_pos a6], by decide⟩

/-! ### Keys a history constrains -/

def Relevant (sp : Spec) (k : Key) : Prop :=
  k = .tomb ∨ k = .rootTomb ∨ k = .first ∨ k = .latest ∨ k = .power sp.first ∨
  (∃ j, j < sp.certs.length ∧ k = .cert (sp.first + j)) ∨
  (∃ j, 0 < j ∧ j ≤ sp.certs.length ∧ k = .power (sp.first + j))

theorem Repr.congr {ds' : DS} (h : Repr freq ds sp) (hag : ∀ k, Relevant sp k → dsGet ds' k = dsGet ds k) :
    Repr freq ds' sp := by
  refine ⟨?_, ?_, ?_, ?_, ?_, ?_, ?_, h.facts, h.canon, h.small⟩
  · rw [hag _ (Or.inl rfl)]; exact h.noTomb
  · rw [hag _ (Or.inr (Or.inl rfl))]; exact h.noRootTomb
  · rw [hag _ (Or.inr (Or.inr (Or.inl rfl)))]; exact h.first
  · rw [hag _ (Or.inr (Or.inr (Or.inr (Or.inr (Or.inl rfl)))))]; exact h.init
  · rw [hag _ (Or.inr (Or.inr (Or.inr (Or.inl rfl))))]; exact h.latest
  · intro k hk
    rw [hag _ (Or.inr (Or.inr (Or.inr (Or.inr (Or.inr (Or.inl ⟨k, hk, rfl⟩))))))]; exact h.certs k hk
  · intro k hk1 hk2 hk3
    obtain ⟨t, ht1, ht2⟩ := h.ckpt k hk1 hk2 hk3
    exact ⟨t, ht1, by rw [hag _ (Or.inr (Or.inr (Or.inr (Or.inr (Or.inr (Or.inr ⟨k, hk1, hk2, rfl⟩))))))]; exact ht2⟩

theorem NotInit.congr {ds ds' : DS} (h : NotInit ds)
    (hag : ∀ k, (k = .tomb ∨ k = .rootTomb ∨ k = .first ∨ k = .latest) → dsGet ds' k = dsGet ds k) : NotInit ds' :=
  ⟨by rw [hag _ (Or.inl rfl)]; exact h.noTomb, by rw [hag _ (Or.inr (Or.inl rfl))]; exact h.noRootTomb,
   by rw [hag _ (Or.inr (Or.inr (Or.inl rfl)))]; exact h.first, by rw [hag _ (Or.inr (Or.inr (Or.inr rfl)))]; exact h.latest⟩

/-- The writes of a proper prefix of an admitted `Put` touch only the next certificate slot and the
next checkpoint slot. -/
theorem putWrites_prefix_keys (freq : Nat) (c : Cert) (t : Table) {k : Nat} (hk : k < (putWrites freq c t).length) :
    ∀ w ∈ (putWrites freq c t).take k, w.key = .cert c.inst ∨ w.key = .power (c.inst + 1) := by
  unfold putWrites at hk ⊢
  by_cases hmod : (c.inst + 1) % freq = 0
  · simp only [hmod, if_true, List.cons_append, List.nil_append, List.length_cons, List.length_nil] at hk ⊢
    match k, hk with
    | 0, _ => simp
    | 1, _ => simp [W.key]
    | 2, _ => simp [W.key]
  · simp only [hmod, if_false, List.cons_append, List.nil_append, List.append_nil, List.length_cons, List.length_nil] at hk ⊢
    match k, hk with
    | 0, _ => simp
    | 1, _ => simp [W.key]

theorem relevant_ne_next {k : Key} (h : Relevant sp k) :
    k ≠ .cert (sp.first + sp.certs.length) ∧ k ≠ .power (sp.first + sp.certs.length + 1) := by
  rcases h with h | h | h | h | h | ⟨j, hj, h⟩ | ⟨j, hj1, hj2, h⟩ <;> subst h <;> refine ⟨?_, ?_⟩ <;> intro e <;>
    (first | (simp at e; done) | (simp at e; omega))

/-- A crash inside an admitted `Put` before its last write leaves the represented history unchanged. -/
theorem repr_put_prefix (h : Repr freq ds sp) {c : Cert} (hinst : c.inst = sp.next) (t : Table) {k : Nat}
    (hk : k < (putWrites freq c t).length) : Repr freq (applyWs ds ((putWrites freq c t).take k)) sp := by
  refine h.congr ?_
  intro key hrel
  refine dsGet_applyWs_other ds _ ?_
  intro w hw
  have hne := relevant_ne_next hrel
  unfold Spec.next at hinst
  rcases putWrites_prefix_keys freq c t hk w hw with hw | hw <;> rw [hw, hinst]
  · exact hne.1
  · exact hne.2

/-- The complete writes of an admitted `Put` represent the extended history. -/
theorem repr_put (h : Repr freq ds sp) {c : Cert} (hadm : sp.admits c = true) {t' : Table}
    (ht' : (sp.push c).tbl (sp.certs.length + 1) = some t') (hsmall : sp.certs.length + 1 < maxInt) :
    Repr freq (applyWs ds (putWrites freq c t')) (sp.push c) := by
  obtain ⟨hinst, _, _⟩ := (Spec.admits_iff sp c).1 hadm
  unfold Spec.next at hinst
  have hlen : (sp.push c).certs.length = sp.certs.length + 1 := by rw [Spec.push_certs]; simp
  -- the datastore after the writes, key by key
  have hget : ∀ key, dsGet (applyWs ds (putWrites freq c t')) key =
      if key = .latest then some (.num c.inst)
      else if key = .power (c.inst + 1) ∧ (c.inst + 1) % freq = 0 then some (.tbl t')
      else if key = .cert c.inst then some (.cert c)
      else dsGet ds key := by
    intro key
    unfold putWrites
    by_cases hmod : (c.inst + 1) % freq = 0
    · simp only [hmod, if_true, List.cons_append, List.nil_append, applyWs_cons, applyWs_nil, applyW, dsGet_dsPut, and_true]
    · simp only [hmod, if_false, List.cons_append, List.nil_append, List.append_nil, applyWs_cons, applyWs_nil, applyW, dsGet_dsPut, and_false]
  refine ⟨?_, ?_, ?_, ?_, ?_, ?_, ?_, h.facts.push hadm, h.canon, by rw [hlen]; exact hsmall⟩
  · rw [hget]; simp; exact h.noTomb
  · rw [hget]; simp; exact h.noRootTomb
  · rw [hget]; simp; exact h.first
  · rw [hget, Spec.push_first, Spec.push_init]
    have : ¬ (sp.first = c.inst + 1) := by omega
    simp [this]; exact h.init
  · rw [hget]
    simp [Spec.latest, Spec.push_certs]
  · intro k hk
    rw [hlen] at hk
    rw [hget, Spec.push_first]
    by_cases hlt : k < sp.certs.length
    · have hne : ¬ (sp.first + k = c.inst) := by omega
      simp only [reduceCtorEq, if_false, false_and, Key.cert.injEq, hne]
      simp only [Spec.push_certs, List.getElem_append_left hlt]
      exact h.certs k hlt
    · have : k = sp.certs.length := by omega
      subst this
      simp [Spec.push_certs, hinst]
  · intro k hk1 hk2 hk3
    rw [hlen] at hk2
    rw [Spec.push_first] at hk3 ⊢
    by_cases hle : k ≤ sp.certs.length
    · obtain ⟨t, ht1, ht2⟩ := h.ckpt k hk1 hle hk3
      refine ⟨t, by rw [Spec.tbl_push_le sp c hle]; exact ht1, ?_⟩
      rw [hget]
      have hne : ¬ (sp.first + k = c.inst + 1) := by omega
      simp only [reduceCtorEq, if_false, Key.power.injEq, hne, false_and]
      exact ht2
    · have : k = sp.certs.length + 1 := by omega
      subst this
      refine ⟨t', ht', ?_⟩
      rw [hget]
      have he : sp.first + (sp.certs.length + 1) = c.inst + 1 := by omega
      rw [he] at hk3
      simp [he, hk3]

variable {m : Mem}

theorem memOk_after_put (hm : MemOk m sp) {c : Cert} {t' : Table}
    (ht' : (sp.push c).tbl (sp.certs.length + 1) = some t') (subs : List (Nat × List Cert)) :
    MemOk { m with latest := some c, latestTable := t', subs := subs } (sp.push c) := by
  refine ⟨hm.first, ?_, ?_⟩
  · simp [Spec.latest, Spec.push_certs]
  · have : (sp.push c).certs.length = sp.certs.length + 1 := by rw [Spec.push_certs]; simp
    rw [this]; exact ht'.symm

theorem put_refines' (cfg : Cfg) {ds : DS} {sp : Spec} {m : Mem} (hr : Repr cfg.freq ds sp) (hm : MemOk m sp) (hs : SubsOk m)
    (hsmall : sp.certs.length + 1 < maxInt) (c : Cert) :
    Repr cfg.freq (applyWs ds (put cfg m c).ws) (sp.put c) ∧
    (match (put cfg m c).res with
     | .ok m' => MemOk m' (sp.put c) ∧ SubsOk m'
     | .error _ => sp.put c = sp) := by
  by_cases hadm : sp.admits c = true
  · obtain ⟨t', ht', _, hput⟩ := put_admitted cfg hm hr.facts hs hadm
    have hp : sp.put c = sp.push c := by unfold Spec.put; rw [if_pos hadm]
    rw [hput, hp]
    refine ⟨repr_put hr hadm ht' hsmall, memOk_after_put hm ht' _, ?_⟩
    intro s hs'
    simp only [List.mem_map] at hs'
    obtain ⟨s0, _, rfl⟩ := hs'
    simp
  · have hadm' : sp.admits c = false := by simpa using hadm
    have hp : sp.put c = sp := by unfold Spec.put; rw [if_neg hadm]
    rw [hp]
    by_cases hst : sp.first ≤ c.inst ∧ c.inst < sp.next ∧ c.chain = .ok
    · rw [put_stale cfg hm hr.facts hst.1 hst.2.1 hst.2.2]
      exact ⟨hr, hm, hs⟩
    · obtain ⟨e, he, _⟩ := put_rejected cfg hm hr.facts hadm' hst
      rw [he]; exact ⟨hr, rfl⟩


end F3.Store
